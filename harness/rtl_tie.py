"""Translator for the few RTL fragments whose *behaviour* the deciders model by hand (lean/FlooVerif/Hw.lean):
the routing decision of hw/floo_route_select.sv (XY, source routing, ID table), how hw/floo_router.sv instantiates
it and masks routes, and how hw/floo_route_comp.sv looks up the destination and the source route.

The `always_comb` blocks of the XY and the source-routing branch are parsed into a small statement/expression
tree (evaluated in Lean: `Rtl.exec`); the remaining fragments are emitted as comment-free token lists.  The result is
`lean/FlooVerif/Gen/RtlFacts.lean`, regenerated on every run; `Props/HwTie.lean` proves that the trees compute what
`Hw.xyDecide` / `Hw.srcPop` compute and that the token lists are the ones `Hw.lean` was written against.
"""
import os

import svtok


class RtlError(Exception):
    pass


def toks_of(path):
    with open(path, encoding="utf-8") as f:
        toks, _ = svtok.tokenize(f.read())
    return toks


def find_labelled(toks, label, start=0):
    """index range (lo, hi) of the tokens inside `begin : label ... end` (exclusive of begin/label and end)"""
    for i in range(start, len(toks) - 2):
        if toks[i] == "begin" and toks[i + 1] == ":" and toks[i + 2] == label:
            depth = 1
            j = i + 3
            while j < len(toks):
                if toks[j] == "begin":
                    depth += 1
                elif toks[j] == "end":
                    depth -= 1
                    if depth == 0:
                        return i + 3, j
                j += 1
            raise RtlError(f"unterminated block {label}")
    raise RtlError(f"block {label} not found")


# ----------------------------------------------------------------------------- expressions

BINOPS = [["||"], ["&&"], ["==", "!="], ["<", "<=", ">", ">="], ["<<", ">>"], ["+", "-"], ["*"]]


class P:
    def __init__(self, toks):
        self.t = toks
        self.i = 0

    def peek(self, k=0):
        return self.t[self.i + k] if self.i + k < len(self.t) else None

    def take(self, want=None):
        tok = self.peek()
        if tok is None or (want is not None and tok != want):
            raise RtlError(f"expected {want!r}, found {tok!r} at token {self.i}: {' '.join(self.t[max(0, self.i - 6):self.i + 6])}")
        self.i += 1
        return tok

    # expr := binary operators by precedence
    def expr(self, lvl=0):
        if lvl == len(BINOPS):
            return self.unary()
        a = self.expr(lvl + 1)
        while self.peek() in BINOPS[lvl]:
            op = self.take()
            b = self.expr(lvl + 1)
            a = ("bin", op, a, b)
        return a

    def unary(self):
        if self.peek() == "!":
            self.take()
            return ("call", "!", [self.unary()])
        return self.postfix(self.primary())

    def primary(self):
        tok = self.take()
        if tok == "(":
            e = self.expr()
            self.take(")")
            return e
        if tok in ("'0", "'1"):
            return ("n", int(tok[1]))
        if "'" in tok and tok[0].isdigit():            # sized literal: 1'b1, 3'd5
            width, rest = tok.split("'")
            base, digits = rest[0].lower(), rest[1:].replace("_", "")
            return ("n", int(digits, {"b": 2, "d": 10, "h": 16, "o": 8}[base]))
        if tok[0].isdigit():
            return ("n", int(tok.replace("_", "")))
        if tok[0].isalpha() or tok[0] in "_$":
            if self.peek() == "'(":                      # cast: type'(expr)
                self.take()
                e = self.expr()
                self.take(")")
                return ("cast", tok, e)
            if self.peek() == "(" and tok.startswith("$"):
                self.take()
                args = [self.expr()]
                while self.peek() == ",":
                    self.take()
                    args.append(self.expr())
                self.take(")")
                return ("call", tok, args)
            name = tok
            while self.peek() == "." and (self.peek(1) or "")[:1].isalpha():
                self.take()
                name += "." + self.take()
            return ("v", name)
        raise RtlError(f"unexpected token {tok!r} in expression")

    def postfix(self, e):
        while self.peek() == "[":
            self.take()
            a = self.expr()
            if self.peek() == ":":
                self.take()
                b = self.expr()
                self.take("]")
                e = ("slice", e, a, b)
            else:
                self.take("]")
                e = ("idx", e, a)
            # a.b after an index: fold into the name when possible
            while self.peek() == "." and (self.peek(1) or "")[:1].isalpha():
                self.take()
                e = ("field", e, self.take())
        return e

    # statements
    def block(self):
        """`begin [: label] stmts end` or a single statement; returns a list"""
        if self.peek() == "begin":
            self.take()
            if self.peek() == ":":
                self.take()
                self.take()
            out = []
            while self.peek() != "end":
                out.append(self.stmt())
            self.take("end")
            return out
        return [self.stmt()]

    def stmt(self):
        if self.peek() == "if":
            self.take()
            self.take("(")
            c = self.expr()
            self.take(")")
            t = self.block()
            e = []
            if self.peek() == "else":
                self.take()
                e = self.block()
            return ("ite", c, t, e)
        lhs = self.postfix(self.primary())
        self.take("=")
        rhs = self.expr()
        self.take(";")
        return ("assign", lhs, rhs)


def parse_always(toks, lo, hi, label):
    a, b = find_labelled(toks[lo:hi], label)
    p = P(toks[lo + a:lo + b])
    out = []
    while p.peek() is not None:
        out.append(p.stmt())
    return out


# ----------------------------------------------------------------------------- extraction

def _stmt_end(t, k):
    """index of the `;` that ends the statement starting at k (parentheses balanced)"""
    depth = 0
    j = k
    while True:
        if t[j] in ("(", "'("):
            depth += 1
        elif t[j] == ")":
            depth -= 1
        elif t[j] == ";" and depth == 0:
            return j
        j += 1


def _statements(toks, words, loops=False):
    """the statements (split at `;`) that mention one of `words`, without the begin/end/labels before them"""
    cur = []
    start = 0
    for q, t in enumerate(toks):
        if t == ";":
            stmt = toks[start:q + 1]
            if any(x in words for x in stmt):
                k3 = 0
                for k4, x in enumerate(stmt):
                    if x in ("begin", "end", "else") or x == ":":
                        k3 = k4 + 1
                cur += stmt[k3:] if k3 < len(stmt) - 1 else stmt
            elif loops and stmt and (stmt[0] == "for" or "genvar" in stmt):
                cur += stmt
            start = q + 1
    return cur


def extract(repo):
    """every fragment on its own: one that cannot be extracted any more is left empty (and named in `errors`), so
    that only the theorems about it stop checking"""
    out = {"errors": []}

    def load(*rel):
        try:
            return toks_of(os.path.join(repo, *rel))
        except (OSError, svtok.TokError) as e:
            out["errors"].append(f"{'/'.join(rel)}: {e}")
            return []

    def frag(name, default, fn):
        try:
            out[name] = fn()
        except (RtlError, ValueError, IndexError) as e:
            out[name] = default
            out["errors"].append(f"{name}: {type(e).__name__}: {e}")

    sel = load("hw", "floo_route_select.sv")
    rt = load("hw", "floo_router.sv")
    comp = load("hw", "floo_route_comp.sv")
    pk = load("hw", "floo_pkg.sv")
    chim = [(fn, load("hw", fn)) for fn in ("floo_axi_chimney.sv", "floo_nw_chimney.sv")]

    def xy():
        lo, hi = find_labelled(sel, "gen_xy_routing")
        return parse_always(sel, lo, hi, "proc_route_sel")
    frag("xy", [], xy)

    def xy_rest():
        # what surrounds the always_comb in that branch (declaration of id_in and the pass-through of the flit)
        lo, hi = find_labelled(sel, "gen_xy_routing")
        a, b = find_labelled(sel[lo:hi], "proc_route_sel")
        return sel[lo:lo + a - 4] + sel[lo + b + 1:hi]    # minus `always_comb begin : proc_route_sel … end`
    frag("xyRest", [], xy_rest)

    def src():
        lo, hi = find_labelled(sel, "gen_consumption")
        return parse_always(sel, lo, hi, "proc_route_sel")
    frag("src", [], src)

    def id_block():
        lo, hi = find_labelled(sel, "gen_id_table")
        return sel[lo:hi]
    frag("idBlock", [], id_block)

    def width():
        # parameter default of RouteSelWidth
        k = sel.index("RouteSelWidth")
        if sel[k + 1] != "=":
            raise RtlError("RouteSelWidth has no default")
        return flat(P(sel[k + 2:]).expr())
    frag("routeSelWidth", [], width)
    # the condition chain selecting the branches
    frag("branches", [], lambda: [sel[i + 1:sel.index(")", i) + 1] for i in range(len(sel) - 3)
                                  if sel[i] == "if" and sel[i + 2] == "RouteAlgo"])
    frag("selectAll", [], lambda: list(sel))

    # floo_router: the instantiation of floo_route_select and the route masking
    def router_select():
        k = rt.index("floo_route_select")
        return rt[k:_stmt_end(rt, k) + 1]
    frag("routerSelect", [], router_select)

    def router_mask():
        k = rt.index("NumInputLimited")
        lo2, hi2 = find_labelled(rt, "gen_inout_identical")
        # from the localparam to the end of the `if … else if … else` that builds the masked valid/ready
        j = hi2
        while rt[j] == "end" and rt[j + 1] == "else":
            j += 2
            while rt[j] != "begin":
                j += 1
            d = 1
            j += 1
            while d:
                if rt[j] == "begin":
                    d += 1
                elif rt[j] == "end":
                    d -= 1
                j += 1
            j -= 1
        return rt[k - 3:j + 1]
    frag("routerMask", [], router_mask)

    # the two conditions under which a route from input `in_route` to output `out_route` is masked
    def cond_before(label):
        a = rt.index(label)
        i0 = a
        while rt[i0] != "if":
            i0 -= 1
        return P(rt[i0 + 1:a - 2]).expr()
    frag("maskLoop", ("n", 0), lambda: cond_before("gen_inout_identical"))
    frag("maskXY", ("n", 0), lambda: cond_before("gen_xy_opt"))

    def router_defaults():
        r = []
        for nm in ("XYRouteOpt", "NoLoopback"):
            q = rt.index(nm)
            r += rt[q - 2:q + 3]
        return r
    frag("routerDefaults", [], router_defaults)
    frag("routerAll", [], lambda: list(rt))

    # the two wrappers that turn three (two) single-channel routers into one AXI (narrow-wide) router: which
    # ports carry requests, which responses, and in which direction (the whole files)
    out["axiRouter"] = load("hw", "floo_axi_router.sv")
    out["nwRouter"] = load("hw", "floo_nw_router.sv")

    # the two network interfaces, whole: which configuration field enables which side, what is tied off
    out["axiChimney"] = list(chim[0][1])
    out["nwChimney"] = list(chim[1][1])

    # floo_pkg::set_ports (argument order: subordinate enable, then manager enable)
    def set_ports():
        q = pk.index("set_ports")
        j3 = q
        while pk[j3] != "endfunction":
            j3 += 1
        return pk[q - 3:j3 + 1]
    frag("setPorts", [], set_ports)

    # every statement of the chimneys that mentions the source or destination identity of a flit
    frag("chimneyIds", [], lambda: [[fn] + _statements(ct, ("dst_id", "src_id", "axi_rsp_src_id", "id_out", "route_out"))
                                    for fn, ct in chim])

    # every instantiation of floo_route_comp in the two chimneys
    def chimney_comp():
        r = []
        for fn, ct in chim:
            for q in range(len(ct) - 1):
                if ct[q] == "floo_route_comp" and ct[q + 1] == "#":
                    r.append([fn] + ct[q:_stmt_end(ct, q) + 1])
        return r
    frag("chimneyComp", [], chimney_comp)

    # floo_route_comp: destination lookup and source-route lookup; and the whole (small) file: which generate
    # branch is taken when
    def comp_table():
        lo, hi = find_labelled(comp, "gen_table_routing")
        return comp[lo:hi]
    frag("compTable", [], comp_table)

    def comp_route():
        lo, hi = find_labelled(comp, "gen_route")
        return comp[lo:hi]
    frag("compRoute", [], comp_route)

    def comp_cond():
        k = comp.index("gen_table_routing")
        j = k
        while comp[j] != "if":
            j -= 1
        return comp[j:k - 2]
    frag("compCond", [], comp_cond)
    frag("compAll", [], lambda: list(comp))

    # the mesh testbenches: how a DMA node finds its job file and its memory window
    def tb_jobs():
        r = []
        for fn in ("tb_floo_axi_mesh.sv", "tb_floo_nw_mesh.sv"):
            tt = toks_of(os.path.join(repo, "hw", "tb", fn))
            r.append([fn] + _statements(tt, ("JobId", "MemBaseAddr", "Index"), loops=True))
        return r
    try:
        out["tbJobs"] = tb_jobs()
    except (OSError, svtok.TokError, RtlError, ValueError, IndexError) as e:
        out["tbJobs"] = []
        out["errors"].append(f"tbJobs: {e}")
    return out


def flat(e):
    # the parameter default as tokens again
    if e[0] == "call":
        return [e[1], "("] + [t for a in e[2] for t in flat(a)] + [")"]
    if e[0] == "v":
        return [e[1]]
    if e[0] == "n":
        return [str(e[1])]
    if e[0] == "bin":
        return flat(e[2]) + [e[1]] + flat(e[3])
    raise RtlError("RouteSelWidth default too complicated")



# ----------------------------------------------------------------------------- Lean rendering

def lstr(s):
    return '"' + s.replace("\\", "\\\\").replace('"', '\\"') + '"'


OPS = {"+": "add", "-": "sub", "*": "mul", "==": "eq", "!=": "ne", "<": "lt", "<=": "le", ">": "gt", ">=": "ge",
       "&&": "land", "||": "lor", ">>": "shr", "<<": "shl"}


def ident(name):
    return "".join(c if c.isalnum() else "_" for c in name)


def ident_safe(s):
    return ''.join(c if 32 <= ord(c) < 127 else '?' for c in s).replace('-/', '- /')


def names_of(stmts):
    """the names a block mentions, in order of first appearance"""
    out = []

    def ex(e):
        k = e[0]
        if k == "v":
            if e[1] not in out:
                out.append(e[1])
        elif k == "bin":
            ex(e[2]); ex(e[3])
        elif k == "slice":
            ex(e[1]); ex(e[2]); ex(e[3])
        elif k == "idx":
            ex(e[1]); ex(e[2])
        elif k in ("field", "cast"):
            ex(e[1] if k == "field" else e[2])
        elif k == "call":
            for a in e[2]:
                ex(a)

    def st(s):
        if s[0] == "assign":
            ex(s[1]); ex(s[2])
        else:
            ex(s[1])
            for x in s[2] + s[3]:
                st(x)
    for s in stmts:
        st(s)
    return out


def re_lean(e, ty):
    k = e[0]
    if k == "v":
        return f"(.v {ty}.{ident(e[1])})"
    if k == "n":
        return f"(.n {e[1]})"
    if k == "bin":
        return f"(.bin .{OPS[e[1]]} {re_lean(e[2], ty)} {re_lean(e[3], ty)})"
    if k == "slice":
        return f"(.slice {re_lean(e[1], ty)} {re_lean(e[2], ty)} {re_lean(e[3], ty)})"
    if k == "idx":
        return f"(.idx {re_lean(e[1], ty)} {re_lean(e[2], ty)})"
    if k == "field":
        return f"(.field {re_lean(e[1], ty)} {lstr(e[2])})"
    if k == "cast":
        return f"(.cast {lstr(e[1])} {re_lean(e[2], ty)})"
    if k == "call":
        return f"(.call {lstr(e[1])} [{', '.join(re_lean(a, ty) for a in e[2])}])"
    raise RtlError(f"cannot render {e!r}")


def rs_lean(s, ind, ty):
    pad = " " * ind
    if s[0] == "assign":
        return f"{pad}.assign {re_lean(s[1], ty)} {re_lean(s[2], ty)}"
    t = ",\n".join(rs_lean(x, ind + 4, ty) for x in s[2])
    e = ",\n".join(rs_lean(x, ind + 4, ty) for x in s[3])
    if not (s[2] or s[3]):
        return f"{pad}.ite {re_lean(s[1], ty)} [] []"
    return f"{pad}.ite {re_lean(s[1], ty)}\n{pad}  [\n{t}\n{pad}  ]\n{pad}  [\n{e}\n{pad}  ]"


def toks_lean(ts, ind=4):
    pad = " " * ind
    lines, cur = [], pad
    for t in ts:
        piece = lstr(t) + ", "
        if len(cur) + len(piece) > 110:
            lines.append(cur.rstrip())
            cur = pad
        cur += piece
    lines.append(cur.rstrip().rstrip(","))
    return "[\n" + "\n".join(lines) + "\n" + " " * (ind - 2) + "]"


FLAT_FIELDS = ['axiChimney', 'nwChimney', 'xyRest', 'routeSelWidth', 'idBlock', 'routerSelect', 'routerMask', 'compCond', 'compTable', 'compRoute', 'routerDefaults', 'compAll', 'setPorts', 'axiRouter', 'nwRouter', 'selectAll', 'routerAll']
NESTED_FIELDS = ['branches', 'chimneyComp', 'chimneyIds', 'tbJobs']


def frag_def(name, ts, chunk=200):
    """`def name : List String := …`; long lists as a concatenation of separately defined short ones (the elaborator
    recurses once per element of a literal)"""
    if len(ts) <= chunk:
        return f"def {name} : List String := {toks_lean(ts)}\n\n"
    parts = [ts[i:i + chunk] for i in range(0, len(ts), chunk)]
    out = "".join(f"def {name}_{i} : List String := {toks_lean(p)}\n\n" for i, p in enumerate(parts))
    return out + f"def {name} : List String := " + " ++ ".join(f"{name}_{i}" for i in range(len(parts))) + "\n\n"


def lean_file(repo, f):
    def block(name, ty):
        ns = names_of(f[name])
        enum = f"/-- the names `{name}` mentions (`.` written as `_`) -/\ninductive {ty} where\n" + \
            "\n".join(f"  | {ident(n)}" for n in (ns or ["nothing_"])) + "\n  deriving DecidableEq, Repr\n"
        body = "[\n" + ",\n".join(rs_lean(s, 4, ty) for s in f[name]) + "\n  ]"
        return enum, body
    def eblock(names, ty, what):
        ns = []
        for nm in names:
            for x in names_of([("assign", ("n", 0), f[nm])]):
                if x not in ns:
                    ns.append(x)
        enum = f"/-- the names {what} mention -/\ninductive {ty} where\n" + \
            "\n".join(f"  | {ident(n)}" for n in (ns or ["nothing_"])) + "\n  deriving DecidableEq, Repr\n"
        return enum
    mask_enum = eblock(["maskLoop", "maskXY"], "MaskName", "the masking conditions of floo_router")
    xy_enum, xy_body = block("xy", "XyName")
    src_enum, src_body = block("src", "SrcName")
    frag_defs = ""
    for n in FLAT_FIELDS:
        frag_defs += frag_def("frag_" + n, f[n])
    for n in NESTED_FIELDS:
        for i, b in enumerate(f[n]):
            frag_defs += frag_def(f"frag_{n}_{i}", b)
        frag_defs += f"def frag_{n} : List (List String) := [" + ", ".join(f"frag_{n}_{i}" for i in range(len(f[n]))) + "]\n\n"
    errs = ''.join(f'-- NOT EXTRACTED: {ident_safe(e)}\n' for e in f['errors'])

    body = f"""/-
  GENERATED by harness/rtl_tie.py from hw/floo_route_select.sv, hw/floo_router.sv, hw/floo_route_comp.sv of the
  working tree.  Do not edit: regenerated on every check run.
-/
{errs}import FlooVerif.Rtl
namespace FlooVerif.Gen
open FlooVerif.Rtl

{xy_enum}
/-- floo_route_select, branch `gen_xy_routing`, block `proc_route_sel` -/
def rtlXy : List (RS XyName) := {xy_body}

{src_enum}
/-- floo_route_select, branch `gen_consumption`, block `proc_route_sel` -/
def rtlSrc : List (RS SrcName) := {src_body}

{mask_enum}
/-- floo_router: a route from input `in_route` to output `out_route` is masked if it would loop back … -/
def rtlMaskLoop : RE MaskName := {re_lean(f['maskLoop'], 'MaskName')}

/-- … or, under XY routing, if it would turn from North/South to East/West -/
def rtlMaskXY : RE MaskName := {re_lean(f['maskXY'], 'MaskName')}

{frag_defs}
def rtlFacts : RtlFacts where
  xyRest := frag_xyRest
  routeSelWidth := frag_routeSelWidth
  idBlock := frag_idBlock
  routerSelect := frag_routerSelect
  routerMask := frag_routerMask
  compCond := frag_compCond
  compTable := frag_compTable
  compRoute := frag_compRoute
  routerDefaults := frag_routerDefaults
  compAll := frag_compAll
  setPorts := frag_setPorts
  axiRouter := frag_axiRouter
  nwRouter := frag_nwRouter
  selectAll := frag_selectAll
  routerAll := frag_routerAll
  axiChimney := frag_axiChimney
  nwChimney := frag_nwChimney
  branches := frag_branches
  chimneyComp := frag_chimneyComp
  chimneyIds := frag_chimneyIds
  tbJobs := frag_tbJobs

end FlooVerif.Gen
"""
    return body


if __name__ == "__main__":
    import sys
    import json
    facts = extract(sys.argv[1] if len(sys.argv) > 1 else "/repo")
    print(json.dumps({k: v for k, v in facts.items()}, indent=1)[:6000])

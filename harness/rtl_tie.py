"""Translator for the few RTL fragments whose *behaviour* the deciders model by hand (lean/FlooVerif/Hw.lean):
the routing decision of hw/floo_route_select.sv (XY, source routing, ID table), how hw/floo_router.sv instantiates
it and masks routes, and how hw/floo_route_comp.sv looks up the destination and the source route.

The `always_comb` blocks of the XY and the source-routing branch are parsed into a small statement/expression
tree (evaluated in Lean: `Rtl.exec`); the remaining fragments are emitted as comment-free token lists.  The result is
`lean/FlooVerif/Gen/RtlFacts.lean`, regenerated on every run; `Props/HwTie.lean` proves that the trees compute what
`Hw.xyDecide` / `Hw.srcPop` compute and that the token lists are the ones `Hw.lean` was written against.
"""
import os

import svtok


class RtlError(Exception):
    pass


def toks_of(path):
    with open(path, encoding="utf-8") as f:
        toks, _ = svtok.tokenize(f.read())
    return toks


def find_labelled(toks, label, start=0):
    """index range (lo, hi) of the tokens inside `begin : label ... end` (exclusive of begin/label and end)"""
    for i in range(start, len(toks) - 2):
        if toks[i] == "begin" and toks[i + 1] == ":" and toks[i + 2] == label:
            depth = 1
            j = i + 3
            while j < len(toks):
                if toks[j] == "begin":
                    depth += 1
                elif toks[j] == "end":
                    depth -= 1
                    if depth == 0:
                        return i + 3, j
                j += 1
            raise RtlError(f"unterminated block {label}")
    raise RtlError(f"block {label} not found")


# ----------------------------------------------------------------------------- expressions

BINOPS = [["||"], ["&&"], ["==", "!="], ["<", "<=", ">", ">="], ["<<", ">>"], ["+", "-"], ["*"]]


class P:
    def __init__(self, toks):
        self.t = toks
        self.i = 0

    def peek(self, k=0):
        return self.t[self.i + k] if self.i + k < len(self.t) else None

    def take(self, want=None):
        tok = self.peek()
        if tok is None or (want is not None and tok != want):
            raise RtlError(f"expected {want!r}, found {tok!r} at token {self.i}: {' '.join(self.t[max(0, self.i - 6):self.i + 6])}")
        self.i += 1
        return tok

    # expr := binary operators by precedence
    def expr(self, lvl=0):
        if lvl == len(BINOPS):
            return self.unary()
        a = self.expr(lvl + 1)
        while self.peek() in BINOPS[lvl]:
            op = self.take()
            b = self.expr(lvl + 1)
            a = ("bin", op, a, b)
        return a

    def unary(self):
        if self.peek() == "!":
            self.take()
            return ("call", "!", [self.unary()])
        return self.postfix(self.primary())

    def primary(self):
        tok = self.take()
        if tok == "(":
            e = self.expr()
            self.take(")")
            return e
        if tok in ("'0", "'1"):
            return ("n", int(tok[1]))
        if "'" in tok and tok[0].isdigit():            # sized literal: 1'b1, 3'd5
            width, rest = tok.split("'")
            base, digits = rest[0].lower(), rest[1:].replace("_", "")
            return ("n", int(digits, {"b": 2, "d": 10, "h": 16, "o": 8}[base]))
        if tok[0].isdigit():
            return ("n", int(tok.replace("_", "")))
        if tok[0].isalpha() or tok[0] in "_$":
            if self.peek() == "'(":                      # cast: type'(expr)
                self.take()
                e = self.expr()
                self.take(")")
                return ("cast", tok, e)
            if self.peek() == "(" and tok.startswith("$"):
                self.take()
                args = [self.expr()]
                while self.peek() == ",":
                    self.take()
                    args.append(self.expr())
                self.take(")")
                return ("call", tok, args)
            name = tok
            while self.peek() == "." and (self.peek(1) or "")[:1].isalpha():
                self.take()
                name += "." + self.take()
            return ("v", name)
        raise RtlError(f"unexpected token {tok!r} in expression")

    def postfix(self, e):
        while self.peek() == "[":
            self.take()
            a = self.expr()
            if self.peek() == ":":
                self.take()
                b = self.expr()
                self.take("]")
                e = ("slice", e, a, b)
            else:
                self.take("]")
                e = ("idx", e, a)
            # a.b after an index: fold into the name when possible
            while self.peek() == "." and (self.peek(1) or "")[:1].isalpha():
                self.take()
                e = ("field", e, self.take())
        return e

    # statements
    def block(self):
        """`begin [: label] stmts end` or a single statement; returns a list"""
        if self.peek() == "begin":
            self.take()
            if self.peek() == ":":
                self.take()
                self.take()
            out = []
            while self.peek() != "end":
                out.append(self.stmt())
            self.take("end")
            return out
        return [self.stmt()]

    def stmt(self):
        if self.peek() == "if":
            self.take()
            self.take("(")
            c = self.expr()
            self.take(")")
            t = self.block()
            e = []
            if self.peek() == "else":
                self.take()
                e = self.block()
            return ("ite", c, t, e)
        lhs = self.postfix(self.primary())
        self.take("=")
        rhs = self.expr()
        self.take(";")
        return ("assign", lhs, rhs)


def parse_always(toks, lo, hi, label):
    a, b = find_labelled(toks[lo:hi], label)
    p = P(toks[lo + a:lo + b])
    out = []
    while p.peek() is not None:
        out.append(p.stmt())
    return out


# ----------------------------------------------------------------------------- extraction

def extract(repo):
    sel = toks_of(os.path.join(repo, "hw", "floo_route_select.sv"))
    rt = toks_of(os.path.join(repo, "hw", "floo_router.sv"))
    comp = toks_of(os.path.join(repo, "hw", "floo_route_comp.sv"))
    out = {}
    lo, hi = find_labelled(sel, "gen_xy_routing")
    out["xy"] = parse_always(sel, lo, hi, "proc_route_sel")
    # what surrounds the always_comb in that branch (declaration of id_in and the pass-through of the flit)
    a, b = find_labelled(sel[lo:hi], "proc_route_sel")
    out["xyRest"] = sel[lo:lo + a - 4] + sel[lo + b + 1:hi]          # minus `always_comb begin : proc_route_sel … end`
    lo, hi = find_labelled(sel, "gen_consumption")
    out["src"] = parse_always(sel, lo, hi, "proc_route_sel")
    lo, hi = find_labelled(sel, "gen_id_table")
    out["idBlock"] = sel[lo:hi]
    # parameter default of RouteSelWidth and the condition chain selecting the branches
    k = sel.index("RouteSelWidth")
    if sel[k + 1] != "=":
        raise RtlError("RouteSelWidth has no default")
    p = P(sel[k + 2:])
    out["routeSelWidth"] = p.expr()
    out["branches"] = [sel[i + 1:sel.index(")", i) + 1] for i in range(len(sel) - 3)
                       if sel[i] == "if" and sel[i + 2] == "RouteAlgo"]
    # floo_router: the instantiation of floo_route_select and the route masking
    k = rt.index("floo_route_select")
    j = k
    depth = 0
    while True:
        if rt[j] == "(":
            depth += 1
        elif rt[j] == ")":
            depth -= 1
        elif rt[j] == ";" and depth == 0:
            break
        j += 1
    out["routerSelect"] = rt[k:j + 1]
    k = rt.index("NumInputLimited")
    lo2, hi2 = find_labelled(rt, "gen_inout_identical")
    # from the localparam to the end of the `if … else if … else` that builds the masked valid/ready
    j = hi2
    depth = 0
    # the statement continues with `else if (…) begin : … end else begin : … end`
    while rt[j] == "end" and rt[j + 1] == "else":
        j += 2
        while rt[j] != "begin":
            j += 1
        d = 1
        j += 1
        while d:
            if rt[j] == "begin":
                d += 1
            elif rt[j] == "end":
                d -= 1
            j += 1
        j -= 1
    out["routerMask"] = rt[k - 3:j + 1]
    # the two conditions under which a route from input `in_route` to output `out_route` is masked
    a = rt.index("gen_inout_identical")
    i0 = a
    while rt[i0] != "if":
        i0 -= 1
    p1 = P(rt[i0 + 1:a - 2])
    out["maskLoop"] = p1.expr()
    b = rt.index("gen_xy_opt")
    i1 = b
    while rt[i1] != "if":
        i1 -= 1
    p2 = P(rt[i1 + 1:b - 2])
    out["maskXY"] = p2.expr()
    # parameter defaults of floo_router that the masks depend on
    out["routerDefaults"] = []
    for nm in ("XYRouteOpt", "NoLoopback"):
        q = rt.index(nm)
        out["routerDefaults"] += rt[q - 2:q + 3]
    # every instantiation of floo_route_comp in the two chimneys
    out["chimneyComp"] = []
    for fn in ("floo_axi_chimney.sv", "floo_nw_chimney.sv"):
        ct = toks_of(os.path.join(repo, "hw", fn))
        for q in range(len(ct)):
            if ct[q] == "floo_route_comp" and ct[q + 1] == "#":
                j2 = q
                depth = 0
                while True:
                    if ct[j2] in ("(", "'("):
                        depth += 1
                    elif ct[j2] == ")":
                        depth -= 1
                    elif ct[j2] == ";" and depth == 0:
                        break
                    j2 += 1
                out["chimneyComp"].append([fn] + ct[q:j2 + 1])
    # floo_route_comp: destination lookup and source-route lookup
    lo, hi = find_labelled(comp, "gen_table_routing")
    out["compTable"] = comp[lo:hi]
    lo, hi = find_labelled(comp, "gen_route")
    out["compRoute"] = comp[lo:hi]
    k = comp.index("gen_table_routing")
    j = k
    while comp[j] != "if":
        j -= 1
    out["compCond"] = comp[j:k - 2]
    return out


# ----------------------------------------------------------------------------- Lean rendering

def lstr(s):
    return '"' + s.replace("\\", "\\\\").replace('"', '\\"') + '"'


OPS = {"+": "add", "-": "sub", "*": "mul", "==": "eq", "!=": "ne", "<": "lt", "<=": "le", ">": "gt", ">=": "ge",
       "&&": "land", "||": "lor", ">>": "shr", "<<": "shl"}


def ident(name):
    return "".join(c if c.isalnum() else "_" for c in name)


def names_of(stmts):
    """the names a block mentions, in order of first appearance"""
    out = []

    def ex(e):
        k = e[0]
        if k == "v":
            if e[1] not in out:
                out.append(e[1])
        elif k == "bin":
            ex(e[2]); ex(e[3])
        elif k == "slice":
            ex(e[1]); ex(e[2]); ex(e[3])
        elif k == "idx":
            ex(e[1]); ex(e[2])
        elif k in ("field", "cast"):
            ex(e[1] if k == "field" else e[2])
        elif k == "call":
            for a in e[2]:
                ex(a)

    def st(s):
        if s[0] == "assign":
            ex(s[1]); ex(s[2])
        else:
            ex(s[1])
            for x in s[2] + s[3]:
                st(x)
    for s in stmts:
        st(s)
    return out


def re_lean(e, ty):
    k = e[0]
    if k == "v":
        return f"(.v {ty}.{ident(e[1])})"
    if k == "n":
        return f"(.n {e[1]})"
    if k == "bin":
        return f"(.bin .{OPS[e[1]]} {re_lean(e[2], ty)} {re_lean(e[3], ty)})"
    if k == "slice":
        return f"(.slice {re_lean(e[1], ty)} {re_lean(e[2], ty)} {re_lean(e[3], ty)})"
    if k == "idx":
        return f"(.idx {re_lean(e[1], ty)} {re_lean(e[2], ty)})"
    if k == "field":
        return f"(.field {re_lean(e[1], ty)} {lstr(e[2])})"
    if k == "cast":
        return f"(.cast {lstr(e[1])} {re_lean(e[2], ty)})"
    if k == "call":
        return f"(.call {lstr(e[1])} [{', '.join(re_lean(a, ty) for a in e[2])}])"
    raise RtlError(f"cannot render {e!r}")


def rs_lean(s, ind, ty):
    pad = " " * ind
    if s[0] == "assign":
        return f"{pad}.assign {re_lean(s[1], ty)} {re_lean(s[2], ty)}"
    t = ",\n".join(rs_lean(x, ind + 4, ty) for x in s[2])
    e = ",\n".join(rs_lean(x, ind + 4, ty) for x in s[3])
    if not (s[2] or s[3]):
        return f"{pad}.ite {re_lean(s[1], ty)} [] []"
    return f"{pad}.ite {re_lean(s[1], ty)}\n{pad}  [\n{t}\n{pad}  ]\n{pad}  [\n{e}\n{pad}  ]"


def toks_lean(ts, ind=4):
    pad = " " * ind
    lines, cur = [], pad
    for t in ts:
        piece = lstr(t) + ", "
        if len(cur) + len(piece) > 110:
            lines.append(cur.rstrip())
            cur = pad
        cur += piece
    lines.append(cur.rstrip().rstrip(","))
    return "[\n" + "\n".join(lines) + "\n" + " " * (ind - 2) + "]"


def lean_file(repo, f):
    def block(name, ty):
        ns = names_of(f[name])
        enum = f"/-- the names `{name}` mentions (`.` written as `_`) -/\ninductive {ty} where\n" + \
            "\n".join(f"  | {ident(n)}" for n in ns) + "\n  deriving DecidableEq, Repr\n"
        body = "[\n" + ",\n".join(rs_lean(s, 4, ty) for s in f[name]) + "\n  ]"
        return enum, body
    def eblock(names, ty, what):
        ns = []
        for nm in names:
            for x in names_of([("assign", ("n", 0), f[nm])]):
                if x not in ns:
                    ns.append(x)
        enum = f"/-- the names {what} mention -/\ninductive {ty} where\n" + \
            "\n".join(f"  | {ident(n)}" for n in ns) + "\n  deriving DecidableEq, Repr\n"
        return enum
    mask_enum = eblock(["maskLoop", "maskXY"], "MaskName", "the masking conditions of floo_router")
    xy_enum, xy_body = block("xy", "XyName")
    src_enum, src_body = block("src", "SrcName")
    p = []

    def flat(e):
        # the parameter default as tokens again
        if e[0] == "call":
            return [e[1], "("] + [t for a in e[2] for t in flat(a)] + [")"]
        if e[0] == "v":
            return [e[1]]
        if e[0] == "n":
            return [str(e[1])]
        if e[0] == "bin":
            return flat(e[2]) + [e[1]] + flat(e[3])
        raise RtlError("RouteSelWidth default too complicated")
    body = f"""/-
  GENERATED by harness/rtl_tie.py from hw/floo_route_select.sv, hw/floo_router.sv, hw/floo_route_comp.sv of the
  working tree.  Do not edit: regenerated on every check run.
-/
import FlooVerif.Rtl
namespace FlooVerif.Gen
open FlooVerif.Rtl

{xy_enum}
/-- floo_route_select, branch `gen_xy_routing`, block `proc_route_sel` -/
def rtlXy : List (RS XyName) := {xy_body}

{src_enum}
/-- floo_route_select, branch `gen_consumption`, block `proc_route_sel` -/
def rtlSrc : List (RS SrcName) := {src_body}

{mask_enum}
/-- floo_router: a route from input `in_route` to output `out_route` is masked if it would loop back … -/
def rtlMaskLoop : RE MaskName := {re_lean(f['maskLoop'], 'MaskName')}

/-- … or, under XY routing, if it would turn from North/South to East/West -/
def rtlMaskXY : RE MaskName := {re_lean(f['maskXY'], 'MaskName')}

def rtlFacts : RtlFacts where
  xyRest := {toks_lean(f['xyRest'])}
  routeSelWidth := {toks_lean(flat(f['routeSelWidth']))}
  branches := [{', '.join(toks_lean(b, 6) for b in f['branches'])}]
  idBlock := {toks_lean(f['idBlock'])}
  routerSelect := {toks_lean(f['routerSelect'])}
  routerMask := {toks_lean(f['routerMask'])}
  compCond := {toks_lean(f['compCond'])}
  compTable := {toks_lean(f['compTable'])}
  compRoute := {toks_lean(f['compRoute'])}
  routerDefaults := {toks_lean(f['routerDefaults'])}
  chimneyComp := [{', '.join(toks_lean(b, 6) for b in f['chimneyComp'])}]

end FlooVerif.Gen
"""
    return body


if __name__ == "__main__":
    import sys
    import json
    facts = extract(sys.argv[1] if len(sys.argv) > 1 else "/repo")
    print(json.dumps({k: v for k, v in facts.items()}, indent=1)[:6000])

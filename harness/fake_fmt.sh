#!/bin/sh
# stand-in for verible-verilog-format (not installed here): reads stdin ("-"), strips trailing blanks,
# turns leading two-space indentation into a tab and marks the text, so that formatted and unformatted
# output are distinguishable.  Used by the C15 check to exercise floogen's formatting path.
sed -e 's/[ 	]*$//' -e 's/^  /	/' | sed -e '1s/^/\/\/ formatted\n/'

#!/bin/sh
# retrial_lanes.sh <lanes> [ids...]: the re-trial of harness/retrial_all.sh (PRIMARY_ONLY) spread over <lanes>
# parallel lanes.  Each lane is a copy of /verif and a scratch worktree of /repo under /tmp/lane_<k> (removed at the
# end); the checks of a lane read that worktree (VERIF_REPO, PYTHONPATH).  /repo itself is never touched.
# Output: one line per change in /tmp/lanes.log ("<id> <check>: pass|VIOLATION…|noapply").
N=$1; shift
IDS="$@"
[ -z "$IDS" ] && IDS=$(ls /verif/seeded)
rm -f /tmp/lanes.log /tmp/lane_ids_*
k=0
for id in $IDS; do echo $id >> /tmp/lane_ids_$k; k=$(( (k + 1) % N )); done
for k in $(seq 0 $((N - 1))); do
  (
    L=/tmp/lane_$k
    rm -rf $L; mkdir -p $L
    cp -a /verif $L/verif
    git -C /repo worktree add -f --detach $L/repo HEAD -q
    for id in $(cat /tmp/lane_ids_$k 2>/dev/null); do
      chk=$(python3 -c "import json; print(json.load(open('/verif/seeded/$id/meta.json'))['caught_by'][0])")
      cd $L/repo
      if ! git apply /verif/seeded/$id/patch.diff 2>/dev/null; then echo "$id $chk: noapply" >> /tmp/lanes.log; continue; fi
      out=$(cd $L/verif && VERIF_REPO=$L/repo PYTHONPATH=$L/repo ./check $chk 2>&1 | grep -E "VIOLATION|INFRA|Traceback|Killed" | head -2 | tr '\n' ' ' | cut -c1-160)
      echo "$id $chk: ${out:-pass}" >> /tmp/lanes.log
      git checkout -q -- . ; git clean -fdq
    done
    cd /; git -C /repo worktree remove --force $L/repo; rm -rf $L
  ) &
done
wait
git -C /repo worktree prune
echo done >> /tmp/lanes.log

"""Shared machinery of the checks: build, audit, exploration loop, evidence, findings."""
import hashlib
import json
import os
import random
import re
import subprocess
import sys
import time

VERIF = os.path.dirname(os.path.dirname(os.path.abspath(__file__)))
LEAN_DIR = os.path.join(VERIF, "lean")
REPO = os.environ.get("VERIF_REPO", "/repo")      # overridden only by harness/retrial_lanes.sh (parallel re-trials)
sys.path.insert(0, os.path.join(VERIF, "harness"))

ALLOWED_AXIOMS = {"propext", "Classical.choice", "Quot.sound"}
FORBIDDEN = re.compile(r"\b(sorry|admit|native_decide|bv_decide|implemented_by)\b|^axiom |\bunsafe |maxHeartbeats 0")


class InfraError(Exception):
    """harness / infrastructure problem: exit 2, never a VIOLATION"""


def seed_from_env():
    try:
        return int(os.environ.get("VERIF_SEED", "0"))
    except ValueError:
        return 0


def run(cmd, cwd=None, timeout=3600):
    return subprocess.run(cmd, cwd=cwd, capture_output=True, text=True, timeout=timeout)


# --------------------------------------------------------------------------- build

def regenerate_facts():
    import translate
    import rtl_tie
    out = translate.generate_all(repo=REPO, outdir=os.path.join(LEAN_DIR, "FlooVerif", "Gen"))
    # the routing decision blocks of the RTL, as trees and token lists (tie of Hw.lean to hw/*.sv)
    path = os.path.join(LEAN_DIR, "FlooVerif", "Gen", "RtlFacts.lean")
    out[path] = translate.write_if_changed(path, rtl_tie.lean_file(REPO, rtl_tie.extract(REPO)))
    return out


def lake_build():
    """build library (all theorems) and the driver; returns (ok, log)"""
    r = run(["lake", "build", "FlooVerif", "flooverif"], cwd=LEAN_DIR, timeout=3000)
    return r.returncode == 0, (r.stdout + r.stderr)


def failed_modules(log):
    return sorted(set(re.findall(r"error: (FlooVerif/[A-Za-z0-9_/]+\.lean)", log)))


# --------------------------------------------------------------------------- audit

def strip_comments(text):
    text = re.sub(r"/-.*?-/", "", text, flags=re.S)
    text = re.sub(r"--[^\n]*", "", text)
    return text


def grep_forbidden():
    hits = []
    for root, _, files in os.walk(LEAN_DIR):
        if ".lake" in root:
            continue
        for f in files:
            if not f.endswith(".lean"):
                continue
            p = os.path.join(root, f)
            body = strip_comments(open(p, encoding="utf-8").read())
            for ln in body.splitlines():
                if FORBIDDEN.search(ln):
                    hits.append(f"{os.path.relpath(p, LEAN_DIR)}: {ln.strip()[:100]}")
    return hits


def audit_axioms(theorems):
    """returns {theorem: [axioms]} via #print axioms; missing theorem -> None"""
    if not theorems:
        return {}
    src = "import FlooVerif\n" + "".join(f"#print axioms {t}\n" for t in theorems)
    path = os.path.join(LEAN_DIR, ".audit_tmp.lean")
    with open(path, "w", encoding="utf-8") as f:
        f.write(src)
    try:
        r = run(["lake", "env", "lean", path], cwd=LEAN_DIR, timeout=1200)
    finally:
        os.remove(path)
    out = r.stdout + r.stderr
    res = {}
    for t in theorems:
        m = re.search(r"'" + re.escape(t) + r"' depends on axioms: \[(.*?)\]", out, flags=re.S)
        if m:
            res[t] = [a.strip() for a in m.group(1).split(",") if a.strip()]
        elif re.search(r"'" + re.escape(t) + r"' does not depend on any axioms", out):
            res[t] = []
        else:
            res[t] = None
    return res


# --------------------------------------------------------------------------- findings

def load_known():
    p = os.path.join(VERIF, "known_findings.json")
    if not os.path.exists(p):
        return []
    return json.load(open(p)).get("findings", [])


def known_match(known, pid, finding):
    """an `open` known finding suppresses exactly the matching (property, claim, site regex)"""
    for k in known:
        if k.get("status") != "open" or k.get("property") != pid:
            continue
        if k.get("claim") != finding["claim"]:
            continue
        if re.search(k.get("site_re", ".*"), finding.get("site", "")) and \
           re.search(k.get("detail_re", ".*"), finding.get("detail", "")):
            return k
    return None


def write_replay(pid, payload):
    d = os.path.join(VERIF, "replays", pid)
    os.makedirs(d, exist_ok=True)
    blob = json.dumps(payload, sort_keys=True, default=str)
    h = hashlib.sha1(blob.encode()).hexdigest()[:12]
    path = os.path.join(d, f"{h}.json")
    with open(path, "w", encoding="utf-8") as f:
        json.dump(payload, f, indent=1, sort_keys=True, default=str)
    return os.path.relpath(path, VERIF)


def write_evidence(pid, tier, seed, level, coverage, assumptions, wall_s, violations):
    d = os.path.join(VERIF, "evidence")
    os.makedirs(d, exist_ok=True)
    ev = {"property_id": pid, "tier": tier, "seed": seed, "level": level, "coverage": coverage,
          "assumptions": assumptions, "wall_s": round(wall_s, 2), "violations": violations}
    with open(os.path.join(d, f"{pid}.json"), "w", encoding="utf-8") as f:
        json.dump(ev, f, indent=1, default=str)


class Reporter:
    """collects outcome lines; decides exit code"""

    def __init__(self, pid):
        self.pid = pid
        self.known = load_known()
        self.violations = []      # (replay_path, suffix)
        self.known_hits = {}

    def finding(self, finding, replay_payload):
        k = known_match(self.known, self.pid, finding)
        if k is not None:
            key = k.get("id", k.get("claim"))
            if key not in self.known_hits:
                self.known_hits[key] = k
                print(f"KNOWN-FINDING: property={self.pid} {k.get('what', finding['claim'])}")
            return False
        path = write_replay(self.pid, replay_payload)
        self.violations.append(path)
        print(f"VIOLATION property={self.pid} replay={path}")
        return True

    def unproven(self, what, replay_payload):
        path = write_replay(self.pid, dict(replay_payload, no_longer_checks=what))
        self.violations.append(path)
        print(f"VIOLATION property={self.pid} replay={path} no-failing-input-found")

    def exit_code(self):
        return 1 if self.violations else 0

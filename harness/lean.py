"""Line-protocol client for the compiled Lean driver."""
import json
import sys
sys.set_int_max_str_digits(0)
import os
import subprocess

VERIF = os.path.dirname(os.path.dirname(os.path.abspath(__file__)))
LEAN_DIR = os.path.join(VERIF, "lean")
DRIVER = os.path.join(LEAN_DIR, ".lake", "build", "bin", "flooverif")


class Driver:
    def __init__(self):
        self.p = subprocess.Popen([DRIVER], stdin=subprocess.PIPE, stdout=subprocess.PIPE,
                                  text=True, bufsize=1)

    def call(self, obj):
        self.p.stdin.write(json.dumps(obj) + "\n")
        self.p.stdin.flush()
        line = self.p.stdout.readline()
        if not line:
            raise RuntimeError("lean driver died")
        return json.loads(line)

    def close(self):
        try:
            self.p.stdin.close()
            self.p.wait(timeout=10)
        except Exception:  # pylint: disable=broad-except
            self.p.kill()

"""Writes the pinned token lists of Props/HwTie{Whole,Wrap,Ports,Tb}.lean from the RTL of a tree (run by hand on a
tree whose RTL Hw.lean / the deciders were read against; never run by a check).

    python3 harness/mk_rtl_pins.py [repo] [outdir]
"""
import os
import sys

sys.path.insert(0, os.path.dirname(os.path.abspath(__file__)))
import rtl_tie  # noqa: E402

FILES = {
    "HwTieWhole": (
        "the three modules that execute a route, whole: `floo_route_select` (decision per routing algorithm),\n"
        "`floo_router` (what is connected to it, masking, arbitration) and `floo_route_comp` (destination and route look-up\n"
        "in the network interface).  `Hw.lean` reads them as: nothing but the pinned decision blocks decides the output\n"
        "port, and nothing between the ports of the router and `floo_route_select` changes the table or the flit.",
        [("selectAll", False), ("routerAll", False), ("compAll", False)]),
    "HwTieWrap": (
        "the two wrappers that build an AXI (narrow-wide) router out of single-channel routers: requests and\n"
        "responses travel through separate `floo_router`s whose ports are wired index by index, which is what lets the\n"
        "deciders treat one generated router instance as one switch with `NumRoutes` bidirectional ports.",
        [("axiRouter", False), ("nwRouter", False)]),
    "HwTiePorts": (
        "`floo_pkg::set_ports` (what the `EnSbrPort`/`EnMgrPort` bits of a chimney configuration mean) and every statement\n"
        "of the two chimneys that reads or writes the source or destination identity of a flit.",
        [("setPorts", False), ("chimneyIds", True)]),
    "HwTieChimney": (
        "the two network interfaces (`floo_axi_chimney`, `floo_nw_chimney`), whole: the deciders read `set_ports(cfg, sbr, mgr)`\n"
        "as \"`EnSbrPort` enables the subordinate side, `EnMgrPort` the manager side, per bus\" — which field gates which\n"
        "generate block is in these files.",
        [("axiChimney", False), ("nwChimney", False)]),
    "HwTieTb": (
        "how the mesh testbenches derive the job file and the memory window of the DMA node at (x, y): the statements\n"
        "mentioning `Index`, `JobId`, `MemBaseAddr` and the generate loops around them.",
        [("tbJobs", True)]),
}


def main():
    repo = sys.argv[1] if len(sys.argv) > 1 else "/repo"
    outdir = sys.argv[2] if len(sys.argv) > 2 else os.path.join(
        os.path.dirname(os.path.abspath(__file__)), "..", "lean", "FlooVerif", "Props")
    f = rtl_tie.extract(repo)
    if f["errors"]:
        sys.exit("cannot pin: " + "; ".join(f["errors"]))
    only = sys.argv[3].split(',') if len(sys.argv) > 3 else None
    for mod, (doc, fields) in FILES.items():
        if only and mod not in only:
            continue
        parts = [f"/-\n  Pinned RTL (written by harness/mk_rtl_pins.py from the tree the semantics was read against):\n  {doc}\n-/\n"
                 "import FlooVerif.Gen.RtlFacts\nnamespace FlooVerif.HwTie\nopen FlooVerif Rtl Gen\n"]
        for name, nested in fields:
            if nested:
                for i, b in enumerate(f[name]):
                    parts.append(rtl_tie.frag_def(f"pin_{name}_{i}", b))
                parts.append(f"def pin_{name} : List (List String) := [" +
                             ", ".join(f"pin_{name}_{i}" for i in range(len(f[name]))) + "]\n")
            else:
                parts.append(rtl_tie.frag_def(f"pin_{name}", f[name]))
            parts.append(f"set_option maxRecDepth 400000 in\n"
                         f"/-- the tokens of this part of the working tree's RTL are the pinned ones -/\n"
                         f"theorem {name}_pinned : rtlFacts.{name} = pin_{name} := by\n  decide +kernel\n")
        parts.append("end FlooVerif.HwTie\n")
        with open(os.path.join(outdir, mod + ".lean"), "w", encoding="utf-8") as fh:
            fh.write("\n".join(parts))
        print("wrote", mod)


if __name__ == "__main__":
    main()

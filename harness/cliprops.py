"""C10 (invalid descriptions are rejected and leave no output) and C15 (determinism, CLI modes)."""
import collections
import concurrent.futures
import json
import os
import random
import shutil
import subprocess
import tempfile
import time

import gen_desc
import impl
import malformed
from common import REPO
from netprops import cfg_hash, nontrivial

PY = "/venv/bin/python"


def dump_yaml(cfg, path):
    import ruamel.yaml
    yaml = ruamel.yaml.YAML(typ="safe")
    yaml.default_flow_style = False
    with open(path, "w", encoding="utf-8") as f:
        yaml.dump(cfg, f)


def run_cli(cfg, extra_args=(), env_extra=None, cwd=None, outdir=True, cfg_text=None):
    """runs the real command line; returns dict(rc, files {name: text}, stdout)"""
    tmp = tempfile.mkdtemp(prefix="floocli_")
    try:
        cfile = os.path.join(tmp, "cfg.yml")
        if cfg_text is not None:
            with open(cfile, "w", encoding="utf-8") as f:
                f.write(cfg_text)
        else:
            dump_yaml(cfg, cfile)
        out = os.path.join(tmp, "out")
        cmd = [PY, "-W", "ignore", "-m", "floogen.cli", "-c", cfile, "--no-format"] + list(extra_args)
        if outdir:
            cmd += ["-o", out]
        env = dict(os.environ)
        env.pop("PYTHONHASHSEED", None)
        if env_extra:
            env.update(env_extra)
        r = subprocess.run(cmd, capture_output=True, text=True, cwd=cwd or tmp, env=env, timeout=600)
        files = {}
        if os.path.isdir(out):
            for fn in sorted(os.listdir(out)):
                with open(os.path.join(out, fn), encoding="utf-8") as f:
                    files[fn] = f.read()
        return {"rc": r.returncode, "files": files, "stdout": r.stdout, "stderr": r.stderr[-400:]}
    finally:
        shutil.rmtree(tmp, ignore_errors=True)


class C10Runner:
    def explore(self, pid, tier, seed, rep, search_mode=False):
        import lean
        drv = lean.Driver()
        rng = random.Random(repr((seed, pid, tier)))
        nbases = 300 if tier == "thorough" else 28
        stats = collections.Counter()
        per_class = collections.Counter()
        samples = []
        seen = set()
        reported = set()
        evaluations = 0
        mismatches = []
        cli_pool = []
        t0 = time.time()
        budget = 1500 if tier == "thorough" else 100
        combos = [(f, a, n) for f in ["star", "mesh", "tree"] for a in ["XY", "ID", "SRC"] for n in ["axi", "narrow-wide"]
                  if not (a == "XY" and f != "mesh")]
        for b in range(nbases):
            if time.time() - t0 > budget:
                stats["stopped-early"] += 1
                break
            fam, algo, nt = combos[b % len(combos)]
            meta, cfg = gen_desc.gen_case(rng, families=[fam], algos=[algo], nettypes=[nt])
            base = impl.run_floogen(cfg)
            mb = drv.call({"cmd": "model", "desc": cfg})["model"]
            evaluations += 1
            stats["base-" + ("accepted" if base.ok else "rejected")] += 1
            if base.ok != (mb["status"] == "ok"):
                mismatches.append({"case": "base", "cfg": cfg, "impl": base.ok, "model": mb})
            if not base.ok:
                continue
            if len(cli_pool) < 400:
                cli_pool.append(("valid", "base", cfg))
            for cls, site, bad in malformed.inject_all(cfg):
                evaluations += 1
                h = cfg_hash(bad)
                if h not in seen:
                    seen.add(h)
                r = impl.run_floogen(bad)
                m = drv.call({"cmd": "model", "desc": bad})["model"]
                per_class[cls] += 1
                stats["impl-" + ("accepted" if r.ok else "rejected")] += 1
                if r.ok != (m["status"] == "ok"):
                    stats["model-mismatch"] += 1
                    if len(mismatches) < 5:
                        mismatches.append({"case": f"{cls}@{site}", "cfg": bad, "impl_accepts": r.ok, "model": m})
                if len(samples) < 4 and not r.ok:
                    samples.append({"class": cls, "site": site, "family": fam, "algo": algo,
                                    "implementation": f"{r.err_type}: {r.err_msg[:80]}", "model": m.get("cls")})
                if rng.random() < 0.02:
                    cli_pool.append((cls, site, bad))
                if r.ok and cls not in reported:
                    reported.add(cls)
                    f = {"claim": cls, "site": f"{fam}/{algo}/{nt}: {site}",
                         "detail": "description with this defect is accepted (exit status 0, files written)"}
                    rep.finding(f, {"property": pid, "finding": f, "cfg": bad, "defect_class": cls,
                                    "how": f"./check {pid} --replay <this file>"})
        drv.close()
        # the real command line on a sample: status and directory contents
        ncli = 200 if tier == "thorough" else 24
        rng.shuffle(cli_pool)
        pool = cli_pool[:ncli]
        cli_ok = 0
        with concurrent.futures.ThreadPoolExecutor(max_workers=14) as ex:
            results = list(ex.map(lambda t: run_cli(t[2]), pool))
        for (cls, site, c), res in zip(pool, results):
            inproc = impl.run_floogen(c)
            evaluations += 1
            if cls == "valid":
                good = res["rc"] == 0 and len(res["files"]) == 2
            else:
                good = (res["rc"] != 0 and not res["files"]) if not inproc.ok else (res["rc"] == 0)
            # the in-process runner must agree with the command line
            if inproc.ok != (res["rc"] == 0) or (not inproc.ok and res["files"]):
                stats["cli-vs-inprocess-mismatch"] += 1
                f = {"claim": "cli-output-on-error" if res["files"] and res["rc"] != 0 else "cli-status",
                     "site": f"{cls}@{site}", "detail": f"rc={res['rc']} files={list(res['files'])} in-process ok={inproc.ok}"}
                rep.finding(f, {"property": pid, "finding": f, "cfg": c})
            elif good:
                cli_ok += 1
        if mismatches and not rep.violations:
            rep.unproven({"correspondence": "model and implementation disagree on accept/reject"},
                         {"property": pid, "mismatches": mismatches[:3]})
        return {
            "evaluations": evaluations,
            "distinct_nontrivial": len(seen),
            "rule": "each defect class of the statement injected at every applicable site (endpoint, range, protocol, "
                    "connection) of valid star/mesh/tree descriptions x {XY,ID,SRC} x {axi,narrow-wide}; distinct = "
                    "different malformed description; all are non-trivial (derived from an accepted description with "
                    ">=2 endpoint instances); a sample goes through the real command line (exit status + directory listing)",
            "samples": samples,
            "per_defect_class": dict(per_class),
            "status_counts": dict(stats),
            "traces_validated_against_impl": evaluations,
            "cli_runs": len(pool), "cli_runs_as_expected": cli_ok,
            "disagreements_checked": stats["model-mismatch"],
        }

    def replay(self, pid, payload, rep):
        cfg = payload["cfg"]
        res = run_cli(cfg)
        print(json.dumps({"rc": res["rc"], "files": list(res["files"]), "stderr": res["stderr"][-300:]}, indent=1))
        if res["rc"] == 0 or res["files"]:
            f = payload.get("finding", {"claim": "accepted", "site": "replay", "detail": ""})
            rep.finding(f, payload)
        return rep.exit_code()

"""C10 (invalid descriptions are rejected and leave no output) and C15 (determinism, CLI modes)."""
import collections
import concurrent.futures
import json
import math
import os
import random
import shutil
import subprocess
import tempfile
import time

import gen_desc
import impl
import malformed
from common import REPO
from netprops import cfg_hash, nontrivial

PY = "/venv/bin/python"


def dump_yaml(cfg, path):
    import ruamel.yaml
    # the round-trip dumper keeps the insertion order of mappings (the safe dumper sorts keys, which
    # would undo every key permutation before floogen sees it)
    yaml = ruamel.yaml.YAML()
    yaml.default_flow_style = False
    with open(path, "w", encoding="utf-8") as f:
        yaml.dump(cfg, f)


FAKE_FMT = os.path.join(os.path.dirname(os.path.abspath(__file__)), "fake_fmt.sh")


def names_query(cfg):
    """a query that asks, endpoint by endpoint and by name, for the instance count and the array shape"""
    ns = [e["name"] for e in cfg["endpoints"] if e["name"].isidentifier()]
    return "[[" + ", ".join(f"endpoints.{n}.num" for n in ns) + "], [" + ", ".join(f"endpoints.{n}.array" for n in ns) + "]]"


def run_cli(cfg, extra_args=(), env_extra=None, cwd=None, outdir=True, cfg_text=None, fmt=False, pre_cfg=None,
            cfg_name="cfg.yml"):
    """runs the real command line; returns dict(rc, files {name: text}, stdout).
    fmt: format through the stand-in formatter instead of --no-format;
    pre_cfg: another description generated into the same output directory first"""
    tmp = tempfile.mkdtemp(prefix="floocli_")
    try:
        cfile = os.path.join(tmp, cfg_name)
        if cfg_text is not None:
            with open(cfile, "w", encoding="utf-8") as f:
                f.write(cfg_text)
        else:
            dump_yaml(cfg, cfile)
        out = os.path.join(tmp, "out")
        fmt_args = ["--verible-fmt-bin", FAKE_FMT] if fmt else ["--no-format"]
        cmd = [PY, "-W", "ignore", "-m", "floogen.cli", "-c", cfile] + fmt_args + list(extra_args)
        if outdir:
            cmd += ["-o", out]
        env = dict(os.environ)
        env.pop("PYTHONHASHSEED", None)
        env["MPLBACKEND"] = "Agg"
        if env_extra:
            env.update(env_extra)
        if pre_cfg is not None and outdir:
            pfile = os.path.join(tmp, "pre.yml")
            dump_yaml(pre_cfg, pfile)
            subprocess.run([PY, "-W", "ignore", "-m", "floogen.cli", "-c", pfile, "--no-format", "-o", out],
                           capture_output=True, text=True, cwd=cwd or tmp, env=env, timeout=600)
        r = subprocess.run(cmd, capture_output=True, text=True, cwd=cwd or tmp, env=env, timeout=600)
        files = {}
        others = []
        if os.path.isdir(out):
            for fn in sorted(os.listdir(out)):
                if not fn.endswith(".sv"):
                    others.append(fn)
                    continue
                with open(os.path.join(out, fn), encoding="utf-8") as f:
                    files[fn] = f.read()
        return {"rc": r.returncode, "files": files, "others": others, "stdout": r.stdout, "stderr": r.stderr[-400:]}
    finally:
        shutil.rmtree(tmp, ignore_errors=True)


class C10Runner:
    def explore(self, pid, tier, seed, rep, search_mode=False):
        import lean
        drv = lean.Driver()
        rng = random.Random(repr((seed, pid, tier)))
        nbases = 300 if tier == "thorough" else 60
        stats = collections.Counter()
        per_class = collections.Counter()
        samples = []
        seen = set()
        reported = set()
        evaluations = 0
        mismatches = []
        cli_pool = []
        class_reps = {}      # one refused description per defect class: goes through every mode of the command line
        t0 = time.time()
        budget = 1500 if tier == "thorough" else 100
        combos = [(f, a, n) for f in ["star", "mesh", "tree"] for a in ["XY", "ID", "SRC"] for n in ["axi", "narrow-wide"]
                  if not (a == "XY" and f != "mesh")]
        # a few fixed bases that offer every injector a site (partial boundary side, 3-element sides, tree levels,
        # several ranges), then random ones
        frng = random.Random(20240)
        fixed = []
        gen_desc.VARIATIONS = False
        try:
            for algo in ("XY", "ID", "SRC"):
                fixed.append(("mesh", algo, "axi", gen_desc.gen_partial_side(frng, algo, "axi", 2, 3)))
            fixed.append(("mesh", "XY", "narrow-wide", gen_desc.gen_mesh(frng, "XY", "narrow-wide", m=2, n=3, sides=["West", "South"], partial_local=False)))
            fixed.append(("star", "ID", "axi", gen_desc.gen_prefix_protocols(frng, "ID")))      # fan-out onto one router
            fixed.append(("tree", "ID", "axi", gen_desc.gen_tree(frng, "ID", "axi", tree=[1, 2, 2])))
            fixed.append(("tree", "SRC", "narrow-wide", gen_desc.gen_tree(frng, "SRC", "narrow-wide", tree=[1, 3])))
        finally:
            gen_desc.VARIATIONS = True
        fixed = [x for x in fixed if x[3]]
        for b in range(nbases):
            if time.time() - t0 > budget:
                stats["stopped-early"] += 1
                break
            if b < len(fixed):
                fam, algo, nt, cfg = fixed[b]
            else:
                fam, algo, nt = combos[b % len(combos)]
                meta, cfg = gen_desc.gen_case(rng, families=[fam], algos=[algo], nettypes=[nt])
            base = impl.run_floogen(cfg)
            mb = drv.call({"cmd": "model", "desc": cfg})["model"]
            evaluations += 1
            stats["base-" + ("accepted" if base.ok else "rejected")] += 1
            if base.ok != (mb["status"] == "ok"):
                mismatches.append({"case": "base", "cfg": cfg, "impl": base.ok, "model": mb})
            if not base.ok:
                continue
            if len(cli_pool) < 400:
                cli_pool.append(("valid", "base", cfg))
            for cls, site, bad in malformed.inject_all(cfg):
                evaluations += 1
                h = cfg_hash(bad)
                if h not in seen:
                    seen.add(h)
                r = impl.run_floogen(bad)
                m = drv.call({"cmd": "model", "desc": bad})["model"]
                per_class[cls] += 1
                stats["impl-" + ("accepted" if r.ok else "rejected")] += 1
                if r.ok != (m["status"] == "ok"):
                    stats["model-mismatch"] += 1
                    if len(mismatches) < 5:
                        mismatches.append({"case": f"{cls}@{site}", "cfg": bad, "impl_accepts": r.ok, "model": m})
                if len(samples) < 4 and not r.ok:
                    samples.append({"class": cls, "site": site, "family": fam, "algo": algo,
                                    "implementation": f"{r.err_type}: {r.err_msg[:80]}", "model": m.get("cls")})
                if rng.random() < 0.02:
                    cli_pool.append((cls, site, bad))
                if cls not in class_reps and not r.ok:
                    class_reps[cls] = (cls, site, bad)
                if r.ok and cls not in reported:
                    reported.add(cls)
                    f = {"claim": cls, "site": f"{fam}/{algo}/{nt}: {site}",
                         "detail": "description with this defect is accepted (exit status 0, files written)"}
                    rep.finding(f, {"property": pid, "finding": f, "cfg": bad, "defect_class": cls,
                                    "how": f"./check {pid} --replay <this file>"})
        drv.close()
        # the real command line on a sample: status and directory contents
        ncli = 200 if tier == "thorough" else 24
        rng.shuffle(cli_pool)
        pool = cli_pool[:ncli]
        cli_ok = 0
        flags = [rng.choice([(), (), ("--only-top",), ("--only-pkg",)]) for _ in pool]
        # a defect must stop the command in every mode: a mode that renders less must not validate less
        for rep_case in class_reps.values():
            for fl in (("--only-top",), ("--only-pkg",)) + (((),) if tier == "thorough" else ()):
                pool.append(rep_case)
                flags.append(fl)
        with concurrent.futures.ThreadPoolExecutor(max_workers=14) as ex:
            results = list(ex.map(lambda t: run_cli(t[0][2], extra_args=t[1]), zip(pool, flags)))
        for (cls, site, c), res in zip(pool, results):
            inproc = impl.run_floogen(c)
            evaluations += 1
            if cls == "valid":
                good = res["rc"] == 0 and len(res["files"]) in (1, 2)
            else:
                good = (res["rc"] != 0 and not res["files"] and not res["others"]) if not inproc.ok else (res["rc"] == 0)
            # the in-process runner must agree with the command line
            if inproc.ok != (res["rc"] == 0) or (not inproc.ok and (res["files"] or res["others"])):
                stats["cli-vs-inprocess-mismatch"] += 1
                f = {"claim": "cli-output-on-error" if res["files"] and res["rc"] != 0 else "cli-status",
                     "site": f"{cls}@{site}", "detail": f"rc={res['rc']} files={list(res['files'])} in-process ok={inproc.ok}"}
                rep.finding(f, {"property": pid, "finding": f, "cfg": c})
            elif good:
                cli_ok += 1
        if mismatches and not rep.violations:
            rep.unproven({"correspondence": "model and implementation disagree on accept/reject"},
                         {"property": pid, "mismatches": mismatches[:3]})
        return {
            "evaluations": evaluations,
            "distinct_nontrivial": len(seen),
            "rule": "each defect class of the statement injected at every applicable site (endpoint, range, protocol, "
                    "connection) of valid star/mesh/tree descriptions x {XY,ID,SRC} x {axi,narrow-wide}; distinct = "
                    "different malformed description; all are non-trivial (derived from an accepted description with "
                    ">=2 endpoint instances); a sample goes through the real command line (exit status + directory listing)",
            "samples": samples,
            "per_defect_class": dict(per_class),
            "status_counts": dict(stats),
            "traces_validated_against_impl": evaluations,
            "cli_runs": len(pool), "cli_runs_as_expected": cli_ok,
            "disagreements_checked": stats["model-mismatch"],
        }

    def replay(self, pid, payload, rep):
        cfg = payload["cfg"]
        res = run_cli(cfg)
        print(json.dumps({"rc": res["rc"], "files": list(res["files"]), "stderr": res["stderr"][-300:]}, indent=1))
        if res["rc"] == 0 or res["files"]:
            f = payload.get("finding", {"claim": "accepted", "site": "replay", "detail": ""})
            rep.finding(f, payload)
        return rep.exit_code()


# ----------------------------------------------------------------------------- C15

def strip_year(text):
    import re
    return re.sub(r"// Copyright \d{4} ", "// Copyright YYYY ", text)


def permute_keys(obj, rng):
    """same description, different key order in every mapping"""
    if isinstance(obj, dict):
        items = list(obj.items())
        rng.shuffle(items)
        return {k: permute_keys(v, rng) for k, v in items}
    if isinstance(obj, list):
        return [permute_keys(v, rng) for v in obj]
    return obj


def bigger(cfg):
    """the same network name with longer files: every endpoint twice as often (arrays only) plus a long description"""
    c = json.loads(json.dumps(cfg))
    c["description"] = "x" * 4000
    c["routers"] = c["routers"] + [{"name": f"spare_rt_{k}"} for k in range(6)]
    c["connections"] = c["connections"] + [{"src": f"spare_rt_{k}", "dst": f"spare_rt_{k + 1}"} for k in range(5)]
    return c


def reverse_keys(obj):
    """same description, every mapping written in the opposite key order"""
    if isinstance(obj, dict):
        return {k: reverse_keys(v) for k, v in reversed(list(obj.items()))}
    if isinstance(obj, list):
        return [reverse_keys(v) for v in obj]
    return obj


INPROC_SCRIPT = r'''
import sys, json, warnings, logging
warnings.filterwarnings("ignore"); logging.disable(logging.CRITICAL)
sys.path.insert(0, "/verif/harness")
import impl
cfgs = json.load(open(sys.argv[1]))
out = []
for c in cfgs:
    r = impl.run_floogen(c)
    out.append([r.ok, r.pkg, r.top])
json.dump(out, open(sys.argv[2], "w"))
'''


FILE_HIST_SCRIPT = r'''
import sys, json, warnings, logging
from pathlib import Path
warnings.filterwarnings("ignore"); logging.disable(logging.CRITICAL)
from floogen.config_parser import parse_config
from floogen.model.network import Network
out = []
for f in sys.argv[2:]:
    try:
        net = parse_config(Network, Path(f))
        net.create_network(); net.compile_network(); net.gen_routing_info()
        out.append([True, net.render_package(), net.render_network()])
    except BaseException as e:
        out.append([False, "", type(e).__name__])
json.dump(out, open(sys.argv[1], "w"))
'''


def yaml_text(cfg, directive=None, pad_ints=False):
    """the description as YAML text, optionally behind a `%YAML` directive and with the sizes of its address ranges
    written with leading zeros (a decimal number either way under YAML 1.2, which floogen's loader speaks)"""
    import io
    import re
    import ruamel.yaml
    y = ruamel.yaml.YAML()
    y.default_flow_style = False
    buf = io.StringIO()
    y.dump(cfg, buf)
    txt = buf.getvalue()
    if pad_ints:
        txt = re.sub(r"(\bsize: )([1-9][0-9]*)\b", lambda m: m.group(1) + "000" + m.group(2), txt)
    if directive:
        txt = f"%YAML {directive}\n---\n" + txt
    return txt


class C15Runner:
    def explore(self, pid, tier, seed, rep, search_mode=False):
        import glob
        import lean
        import svtok
        rng = random.Random(repr((seed, pid, tier)))
        cases = [("example:" + os.path.basename(f), impl.load_yaml(f))
                 for f in sorted(glob.glob(os.path.join(REPO, "floogen", "examples", "*.yml")))]
        ngen = 60 if tier == "thorough" else 8
        if tier == "quick":
            cases = cases[:3] + rng.sample(cases[3:], 3)
        for i in range(ngen):
            meta, cfg = gen_desc.gen_case(rng)
            cases.append((f"gen:{seed}:{i}", cfg))
        # a single endpoint under ID routing (zero-bit id_t)
        one = gen_desc.base_cfg(rng, "one", "axi", "ID", 32)
        one.update(endpoints=[{"name": "solo", "addr_range": {"base": 0x1000, "size": 0x1000},
                               "mgr_port_protocol": ["axi_in"], "sbr_port_protocol": ["axi_out"]}],
                   routers=[{"name": "r"}], connections=[{"src": "solo", "dst": "r"}])
        cases.append(("one-endpoint", one))
        # an endpoint shifted by its own xy_id_offset (x != y: key order of the mapping must not matter)
        xo = gen_desc.base_cfg(rng, "xo", "axi", "XY", 32)
        xo.update(endpoints=[{"name": "tile", "array": [2, 2], "addr_range": {"base": 0x1000_0000, "size": 0x1_0000},
                              "mgr_port_protocol": ["axi_in"], "sbr_port_protocol": ["axi_out"]},
                             {"name": "far", "addr_range": {"base": 0x7000_0000, "size": 0x100},
                              "sbr_port_protocol": ["axi_out"], "xy_id_offset": {"x": 3, "y": 1}}],
                  routers=[{"name": "r", "array": [2, 2], "degree": 5}],
                  connections=[{"src": "tile", "dst": "r", "src_range": [[0, 1], [0, 1]], "dst_range": [[0, 1], [0, 1]],
                                "dst_dir": "Eject"},
                               {"src": "far", "dst": "r", "dst_idx": [1, 0], "dst_dir": "East"}])
        cases.append(("xy-offset", xo))
        # derived routing fields spelled out in the description (floogen recomputes them in every mode)
        for algo in ("XY", "ID", "SRC"):
            wk = gen_desc.gen_mesh(rng, algo, "axi", m=2, n=2, sides=[], partial_local=False)
            if wk:
                wk = json.loads(json.dumps(wk))
                wk["routing"].update({"num_x_bits": 4, "num_y_bits": 3, "num_id_bits": 6, "addr_offset_bits": 20,
                                      "num_route_bits": 9, "num_endpoints": 9})
                cases.append((f"width-keys:{algo}", wk))
        # source-routed chain, subordinate-only memories at both ends, a manager-only core in between:
        # the widest router-to-router distance joins two endpoints that never talk
        ch = gen_desc.base_cfg(rng, "chain", "axi", "SRC", 32)
        ch.update(endpoints=[{"name": "mem_a", "addr_range": {"start": 0x8000_0000, "size": 0x1_0000}, "sbr_port_protocol": ["axi_out"]},
                             {"name": "core", "mgr_port_protocol": ["axi_in"]},
                             {"name": "mem_b", "addr_range": {"start": 0x9000_0000, "size": 0x1_0000}, "sbr_port_protocol": ["axi_out"]}],
                  routers=[{"name": f"r{k}"} for k in range(4)],
                  connections=[{"src": "r0", "dst": "r1"}, {"src": "r1", "dst": "r2"}, {"src": "r2", "dst": "r3"},
                               {"src": "mem_a", "dst": "r0"}, {"src": "core", "dst": "r1"}, {"src": "mem_b", "dst": "r3"}])
        cases.append(("src-chain", ch))
        # a window that reaches the top of the address space (rendered with end = 0)
        tp = gen_desc.base_cfg(rng, "topwin", "axi", "ID", 32)
        tp.update(endpoints=[{"name": "core", "mgr_port_protocol": ["axi_in"]},
                             {"name": "ram", "addr_range": {"start": 0x8000_0000, "size": 0x1000_0000}, "sbr_port_protocol": ["axi_out"]},
                             {"name": "rom", "addr_range": {"start": 0xFFFF_0000, "end": 0x1_0000_0000}, "sbr_port_protocol": ["axi_out"]}],
                  routers=[{"name": "xbar"}],
                  connections=[{"src": e, "dst": "xbar"} for e in ("core", "ram", "rom")])
        cases.append(("top-window", tp))
        # two manager-side protocols of the same widths (the first declared one names the configuration)
        tm = gen_desc.base_cfg(rng, "twomgr", "axi", "ID", 32)
        extra = dict(tm["protocols"][0]); extra["name"] = "dma_in"
        tm["protocols"] = tm["protocols"] + [extra]
        tm.update(endpoints=[{"name": "core", "array": [2], "mgr_port_protocol": ["axi_in"]},
                             {"name": "dma", "mgr_port_protocol": ["dma_in"]},
                             {"name": "ram", "addr_range": {"start": 0x8000_0000, "size": 0x1000_0000}, "sbr_port_protocol": ["axi_out"]}],
                  routers=[{"name": "xbar"}],
                  connections=[{"src": "core", "dst": "xbar", "src_range": [[0, 1]], "allow_multi": True},
                               {"src": "dma", "dst": "xbar"}, {"src": "ram", "dst": "xbar"}])
        cases.append(("two-mgr-protocols", tm))
        # names one of which continues another (`mem`, `mem_ctrl`): a query by name answers for the named item
        pn = gen_desc.base_cfg(rng, "prefixnames", "axi", "ID", 32)
        pn.update(endpoints=[{"name": "mem", "array": [3], "addr_range": {"base": 0x1000, "size": 0x1000}, "sbr_port_protocol": ["axi_out"]},
                             {"name": "mem_ctrl", "addr_range": {"start": 0x8000, "size": 0x100},
                              "mgr_port_protocol": ["axi_in"], "sbr_port_protocol": ["axi_out"]},
                             {"name": "host", "mgr_port_protocol": ["axi_in"]}],
                  routers=[{"name": "xbar"}],
                  connections=[{"src": "mem", "dst": "xbar", "src_range": [[0, 2]], "allow_multi": True},
                               {"src": "mem_ctrl", "dst": "xbar"}, {"src": "host", "dst": "xbar"}])
        cases.append(("prefix-names", pn))
        # long names: link signals of 100 and more characters are spelled out like any other
        ln = gen_desc.gen_mesh(rng, "XY", "axi", m=2, n=2, sides=[], partial_local=False)
        if ln:
            ren = {e["name"]: "compute_cluster_with_a_rather_long_name_" + e["name"] for e in ln["endpoints"]}
            ren.update({r["name"]: "network_router_of_the_main_mesh_" + r["name"] for r in ln["routers"]})
            gen_desc.rename_nodes(ln, ren)
            cases.append(("long-names", ln))
        # a network without a name: the generated names do not borrow one from anywhere else
        en = gen_desc.gen_star(rng, "ID", "axi", k=3)
        if en:
            en["name"] = ""
            cases.append(("empty-name", en))
        # degenerate widths: one column / one row under XY (zero-bit coordinate fields)
        for (m, n, sides) in [(1, 3, ["North"]), (3, 1, ["East"])]:
            c = gen_desc.gen_mesh(rng, "XY", rng.choice(["axi", "narrow-wide"]), m=m, n=n, sides=sides, partial_local=False)
            if c:
                cases.append((f"xy-line:{m}x{n}", c))
        stats = collections.Counter()
        samples = []
        jobs = []
        cwd2 = tempfile.mkdtemp(prefix="floocwd_")
        for name, cfg in cases:
            perm = permute_keys(cfg, rng)
            jobs += [
                (name, "full/seed0", dict(cfg=cfg, env_extra={"PYTHONHASHSEED": "0"})),
                (name, "full/seed1/cwd2", dict(cfg=cfg, env_extra={"PYTHONHASHSEED": "1"}, cwd=cwd2)),
                (name, "full/seedrandom/permuted", dict(cfg=perm, env_extra={"PYTHONHASHSEED": "random"})),
                (name, "full/other-file-name", dict(cfg=cfg, cfg_name="chiplet_noc.yaml", env_extra={"PYTHONHASHSEED": "3"})),
                (name, "full/reversed-keys", dict(cfg=reverse_keys(cfg), env_extra={"PYTHONHASHSEED": "2"})),
                (name, "only-pkg", dict(cfg=cfg, extra_args=["--only-pkg"])),
                (name, "only-top", dict(cfg=cfg, extra_args=["--only-top"])),
                (name, "stdout", dict(cfg=cfg, outdir=False)),
                (name, "stdout-only-pkg", dict(cfg=cfg, outdir=False, extra_args=["--only-pkg"])),
                (name, "fmt/full", dict(cfg=cfg, fmt=True)),
                (name, "fmt/only-pkg", dict(cfg=cfg, fmt=True, extra_args=["--only-pkg"])),
                (name, "fmt/only-top", dict(cfg=cfg, fmt=True, extra_args=["--only-top"])),
                (name, "visualize", dict(cfg=cfg, extra_args=["--visualize"])),
                (name, "reuse-dir", dict(cfg=cfg, pre_cfg=bigger(cfg))),
                (name, "query", dict(cfg=cfg, outdir=False, extra_args=["-q",
                    "[routing.num_endpoints, routing.num_id_bits, routing.num_x_bits, routing.num_y_bits, "
                    "routing.num_route_bits, len(routing.sam.rules), len(endpoints), sum([e[\"num\"] for e in endpoints])]"])),
                (name, "query-names", dict(cfg=cfg, outdir=False, extra_args=["-q", names_query(cfg)])),
            ]
        with concurrent.futures.ThreadPoolExecutor(max_workers=14) as ex:
            results = list(ex.map(lambda j: run_cli(**j[2]), jobs))
        shutil.rmtree(cwd2, ignore_errors=True)
        by = collections.defaultdict(dict)
        for (name, kind, _), res in zip(jobs, results):
            by[name][kind] = res
        # in-process histories: each description after up to 3 others, in one fresh process
        hist_in = tempfile.mktemp(suffix=".json")
        hist_out = tempfile.mktemp(suffix=".json")
        order = []
        for name, cfg in cases:
            others = [c for n, c in rng.sample(cases, min(2, len(cases))) if n != name]
            # histories that reuse this description's names: other declaration order, one endpoint less
            v1 = dict(cfg, endpoints=list(reversed(cfg["endpoints"])), connections=list(reversed(cfg["connections"])))
            others.append(v1)
            if len(cfg["endpoints"]) > 2:
                gone = cfg["endpoints"][-1]["name"]
                v2 = dict(cfg, endpoints=cfg["endpoints"][:-1],
                          connections=[c for c in cfg["connections"] if gone not in (c["src"], c["dst"])])
                others.append(v2)
            # … and the same network with every protocol called something else (what is remembered about one network's
            # protocols, types or names must not reach the next one)
            import copy as _copy
            v3 = _copy.deepcopy(cfg)
            gen_desc.rename_protocols(v3, {p["name"]: "h_" + p["name"] for p in cfg["protocols"]})
            others.append(v3)
            rng.shuffle(others)
            order.append((name, len(others)))
            json.dump(others + [cfg], open(hist_in, "w"))
            r = subprocess.run([PY, "-c", INPROC_SCRIPT, hist_in, hist_out], capture_output=True, text=True, timeout=900)
            if r.returncode != 0:
                by[name]["history"] = [False, "", "history run crashed: " + r.stderr[-200:]]
            else:
                by[name]["history"] = json.load(open(hist_out))[-1]
        for f in (hist_in, hist_out):
            if os.path.exists(f):
                os.remove(f)
        # histories of description *files* read by floogen's own loader in one process: other spellings first
        # (a `%YAML` directive, padded numbers), then the description itself; compared with the file read alone
        fh = {}
        for name, cfg in cases[:4] + cases[-2:]:
            tmpd = tempfile.mkdtemp(prefix="floohist_")
            try:
                others = [c for n, c in rng.sample(cases, min(2, len(cases))) if n != name] or [cfg]
                texts = [yaml_text(others[0], directive="1.1")] + [yaml_text(c) for c in others[1:]] + \
                        [yaml_text(cfg, pad_ints=True)]
                files = []
                for k, t in enumerate(texts):
                    fn = os.path.join(tmpd, f"d{k}.yml")
                    with open(fn, "w", encoding="utf-8") as fhd:
                        fhd.write(t)
                    files.append(fn)
                outj = os.path.join(tmpd, "out.json")
                r1 = subprocess.run([PY, "-c", FILE_HIST_SCRIPT, outj] + files, capture_output=True, text=True,
                                    timeout=900, cwd=tmpd, env=dict(os.environ, PYTHONPATH=REPO))
                outa = os.path.join(tmpd, "alone.json")
                r2 = subprocess.run([PY, "-c", FILE_HIST_SCRIPT, outa, files[-1]], capture_output=True, text=True,
                                    timeout=900, cwd=tmpd, env=dict(os.environ, PYTHONPATH=REPO))
                if r1.returncode == 0 and r2.returncode == 0:
                    fh[name] = (json.load(open(outj))[-1], json.load(open(outa))[-1], texts[-1])
                else:
                    fh[name] = ([False, "", "crashed: " + (r1.stderr + r2.stderr)[-200:]], [True, "", ""], texts[-1])
            finally:
                shutil.rmtree(tmpd, ignore_errors=True)
        drv = lean.Driver()
        reported = set()

        def fail(claim, name, detail, cfg):
            stats[claim] += 1
            if claim in reported:
                return
            reported.add(claim)
            f = {"claim": claim, "site": name, "detail": detail}
            rep.finding(f, {"property": pid, "finding": f, "cfg": cfg})

        evaluations = 0
        for name, cfg in cases:
            r = by[name]
            base = r["full/seed0"]
            evaluations += len(r)
            if base["rc"] != 0:
                stats["rejected"] += 1
                continue
            files = {k: strip_year(v) for k, v in base["files"].items()}
            pkgn = next((k for k in files if k.endswith("_pkg.sv")), None)
            topn = next((k for k in files if not k.endswith("_pkg.sv")), None)
            if pkgn is None or topn is None:
                fail("files-missing", name, str(list(files)), cfg)
                continue
            stats["descriptions"] += 1
            for kind in ("full/seed1/cwd2", "full/seedrandom/permuted", "full/reversed-keys", "full/other-file-name"):
                o = r[kind]
                if o["rc"] != 0 or {k: strip_year(v) for k, v in o["files"].items()} != files:
                    fail("nondeterministic:" + kind, name, f"rc={o['rc']} files differ from the PYTHONHASHSEED=0 run", cfg)
            o = r["only-pkg"]
            if o["rc"] != 0 or list(o["files"]) != [pkgn] or strip_year(o["files"][pkgn]) != files[pkgn]:
                fail("mode-only-pkg", name, f"rc={o['rc']} files={list(o['files'])}", cfg)
            o = r["only-top"]
            if o["rc"] != 0 or list(o["files"]) != [topn] or strip_year(o["files"][topn]) != files[topn]:
                fail("mode-only-top", name, f"rc={o['rc']} files={list(o['files'])}", cfg)
            ff = r["fmt/full"]
            if ff["rc"] == 0 and len(ff["files"]) == 2:
                stats["formatted-runs"] += 1
                if not all(v.startswith("// formatted") for v in ff["files"].values()):
                    stats["formatter-not-applied"] += 1
                for kind, fn in (("fmt/only-pkg", pkgn), ("fmt/only-top", topn)):
                    o = r[kind]
                    if o["rc"] != 0 or list(o["files"]) != [fn] or strip_year(o["files"][fn]) != strip_year(ff["files"][fn]):
                        fail("mode-" + kind, name, f"rc={o['rc']}: formatted {kind[4:]} output differs from the formatted full run", cfg)
            else:
                fail("formatted-run-failed", name, f"rc={ff['rc']} files={list(ff['files'])}", cfg)
            for kind in ("visualize", "reuse-dir"):
                o = r[kind]
                if o["rc"] != 0 or {k: strip_year(v) for k, v in o["files"].items()} != files:
                    fail("nondeterministic:" + kind, name, f"rc={o['rc']} files differ from the plain full run", cfg)
            o = r["stdout"]
            if o["rc"] != 0 or strip_year(o["stdout"]) != files[pkgn] + "\n" + files[topn] + "\n" or o["files"]:
                fail("mode-stdout", name, "stdout is not package + newline + top + newline", cfg)
            o = r["stdout-only-pkg"]
            if o["rc"] != 0 or strip_year(o["stdout"]) != files[pkgn] + "\n":
                fail("mode-stdout-only-pkg", name, "stdout is not the package + newline", cfg)
            h = r["history"]
            if not h[0] or strip_year(h[1]) != files[pkgn] or strip_year(h[2]) != files[topn]:
                fail("history-dependent", name, "output after other descriptions in the same process differs", cfg)
            if name in fh:
                after, alone, txt = fh[name]
                stats["file-histories"] += 1
                if after != alone:
                    fail("history-dependent", name, "the description file read after other files in the same process "
                         "generates something else than read alone", {"yaml": txt, "after": after[2][:200] if not after[0] else None})
            # query vs what the files embody
            q = r["query"]
            ptoks, _ = svtok.tokenize(base["files"][pkgn])
            ttoks, _ = svtok.tokenize(base["files"][topn])
            emb = drv.call({"cmd": "embodied", "pkg": ptoks})
            try:
                qv = eval(q["stdout"].strip().replace("None", "None"), {"__builtins__": {}}, {})  # a list literal
            except Exception:  # pylint: disable=broad-except
                qv = None
            if q["rc"] != 0 or not isinstance(qv, list):
                fail("query-failed", name, f"rc={q['rc']} out={q['stdout'][:100]}", cfg)
            else:
                algo = cfg["routing"]["route_algo"]
                n_inst = gen_desc.num_instances(cfg)
                checks = [("num_endpoints", qv[0], emb["num_endpoints"]), ("sam_rules", qv[5], emb["sam_rules"]),
                          ("len(endpoints)", qv[6], len(cfg["endpoints"])), ("sum(num)", qv[7], n_inst),
                          ("num_endpoints=instances", qv[0], n_inst)]
                if algo in ("ID", "SRC"):
                    checks.append(("id_bits", qv[1], emb["id_decl"]))
                if algo == "XY":
                    checks += [("x_bits", qv[2], emb["x_decl"]), ("y_bits", qv[3], emb["y_decl"])]
                if algo == "SRC":
                    checks.append(("route_bits", qv[4], emb["route_bits"]))
                for nm, a, b in checks:
                    if a != b:
                        fail("query-differs", name, f"query {nm} = {a}, emitted files embody {b}", cfg)
            # queries by name: every endpoint's own instance count and shape, as the files embody them
            qn = r["query-names"]
            try:
                qnv = eval(qn["stdout"].strip(), {"__builtins__": {}}, {})
            except Exception:  # pylint: disable=broad-except
                qnv = None
            shapes = [(e["array"] if isinstance(e["array"], list) else [e["array"]]) if e.get("array") is not None else None
                      for e in cfg["endpoints"] if e["name"].isidentifier()]
            want = [[math.prod(a) if a is not None else 1 for a in shapes],
                    [tuple(a) if a is not None else None for a in shapes]]
            if qn["rc"] != 0 or not isinstance(qnv, list):
                fail("query-failed", name, f"by name: rc={qn['rc']} out={qn['stdout'][:100]}", cfg)
            elif [list(qnv[0]), [tuple(x) if x is not None else None for x in qnv[1]]] != want:
                fail("query-differs", name, f"queries by endpoint name answer {qnv}, the description (and the files) say {want}", cfg)
            # the Lean model produces the same tokens
            m = drv.call({"cmd": "check", "desc": cfg, "pkg": ptoks, "top": ttoks, "props": [], "model": True, "slice": "all"})
            if "error" in m or m["model"].get("status") != "ok":
                stats["model-mismatch"] += 1
            elif not m["model"].get("fullEqual"):
                # C15's theorems (purity, mode projections, key order) do not depend on what is generated
                stats["model-tokens-differ"] += 1
            if len(samples) < 3:
                samples.append({"case": name, "runs": sorted(r.keys()), "query": qv, "package_bytes": len(files[pkgn])})
        drv.close()
        if stats["model-mismatch"] and not rep.violations:
            rep.unproven({"correspondence": "Lean model and command-line output differ"}, {"property": pid})
        return {"evaluations": evaluations, "distinct_nontrivial": stats["descriptions"],
                "rule": "shipped examples + generated descriptions x {PYTHONHASHSEED 0/1/random, two working directories, "
                        "permuted mapping keys, in-process history of <=3 other descriptions} x {full, --only-pkg, --only-top, "
                        "stdout, stdout --only-pkg} + one query; byte comparison with the copyright year masked; "
                        "non-trivial = accepted description whose full run wrote both files",
                "samples": samples, "status_counts": dict(stats), "traces_validated_against_impl": evaluations,
                "disagreements_checked": stats["model-mismatch"]}

    def replay(self, pid, payload, rep):
        cfg = payload["cfg"]
        if isinstance(cfg, dict) and "yaml" in cfg:
            # a description file read after a file with a `%YAML 1.1` directive, in one process, against read alone
            import glob
            pred = impl.load_yaml(sorted(glob.glob(os.path.join(REPO, "floogen", "examples", "*.yml")))[0])
            tmpd = tempfile.mkdtemp(prefix="floohist_")
            try:
                files = []
                for k, t in enumerate([yaml_text(pred, directive="1.1"), cfg["yaml"]]):
                    fn = os.path.join(tmpd, f"d{k}.yml")
                    with open(fn, "w", encoding="utf-8") as fh:
                        fh.write(t)
                    files.append(fn)
                res = []
                for fl in (files, files[-1:]):
                    outj = os.path.join(tmpd, "o.json")
                    subprocess.run([PY, "-c", FILE_HIST_SCRIPT, outj] + fl, capture_output=True, text=True, timeout=900,
                                   cwd=tmpd, env=dict(os.environ, PYTHONPATH=REPO))
                    res.append(json.load(open(outj))[-1])
                print("after another file == alone:", res[0] == res[1])
                if res[0] != res[1]:
                    rep.finding(payload["finding"], payload)
            finally:
                shutil.rmtree(tmpd, ignore_errors=True)
            return rep.exit_code()
        a = run_cli(cfg, env_extra={"PYTHONHASHSEED": "0"})
        b = run_cli(cfg, env_extra={"PYTHONHASHSEED": "1"})
        same = {k: strip_year(v) for k, v in a["files"].items()} == {k: strip_year(v) for k, v in b["files"].items()}
        print("identical across hash seeds:", same, "rc", a["rc"], b["rc"])
        if not same:
            rep.finding(payload["finding"], payload)
        return rep.exit_code()

"""Defect injection for C10: every defect class of the property statement at every applicable
site of an otherwise valid description."""
import copy


def _ranges(ep):
    r = ep.get("addr_range")
    if r is None:
        return []
    return r if isinstance(r, list) else [r]


def _set_range(ep, i, new):
    if isinstance(ep["addr_range"], list):
        ep["addr_range"][i] = new
    else:
        ep["addr_range"] = new


def _range_start(r):
    if "base" in r:
        return r["base"] + r.get("idx", 0) * r.get("size", 0)
    return r.get("start")


def _range_size(r):
    if "size" in r:
        return r["size"]
    return r["end"] - r["start"]


def _is_router(cfg, name):
    return any(r["name"] == name for r in cfg["routers"])


def _sel_count(con, side):
    if side + "_lvl" in con:
        return None
    if side + "_range" in con:
        n = 1
        for lo, hi in con[side + "_range"]:
            n *= abs(hi - lo) + 1
        return n
    return 1


def inject_all(cfg):
    """yields (defect_class, site, mutated cfg)"""
    # an `idx` on the range of an array endpoint is ignored by floogen (element k takes slot k):
    # inject into the equivalent description without it, so that range arithmetic here stays simple
    cfg = copy.deepcopy(cfg)
    for e in cfg["endpoints"]:
        if "array" in e:
            for r in _ranges(e):
                r.pop("idx", None)
    aw = cfg["protocols"][0]["addr_width"]
    eps = cfg["endpoints"]
    sbr_sites = [(i, j) for i, e in enumerate(eps) if e.get("sbr_port_protocol") for j in range(len(_ranges(e)))]

    # --- overlap with a window that reaches the top of the address space (rendered with end = 0)
    top = 1 << aw
    singles = [(i, j) for (i, j) in sbr_sites if "array" not in eps[i]]
    if len(singles) >= 2:
        (ti, tj), (ri, rj) = singles[0], singles[1]
        rsz = _range_size(_ranges(eps[ri])[rj])
        tsz = 4 * rsz
        others_end = max((_range_start(x) + _range_size(x) * 64) for k2, e2 in enumerate(eps)
                         if e2.get("sbr_port_protocol") for x in _ranges(e2))
        if top - tsz > others_end:
            c = copy.deepcopy(cfg)
            tdesc = _ranges(eps[ti])[tj].get("desc")
            tnew = {"start": top - tsz, "end": top}
            if tdesc is not None:
                tnew["desc"] = tdesc
            _set_range(c["endpoints"][ti], tj, tnew)
            rnew = dict(_ranges(eps[ri])[rj])
            if "base" in rnew:
                rnew["base"] = top - tsz + rsz
                rnew.pop("idx", None)
            else:
                rnew["start"] = top - tsz + rsz
                if "end" in rnew:
                    rnew["end"] = top - tsz + 2 * rsz
            _set_range(c["endpoints"][ri], rj, rnew)
            yield "overlap", f"{eps[ri]['name']}[{rj}] inside {eps[ti]['name']}[{tj}] which ends at 2^{aw}", c

    # --- address ranges
    for (i, j) in sbr_sites:
        r = _ranges(eps[i])[j]
        # overlap with another subordinate's range
        for (i2, j2) in sbr_sites:
            if (i2, j2) == (i, j):
                continue
            r2 = _ranges(eps[i2])[j2]
            c = copy.deepcopy(cfg)
            new = dict(r)
            start2 = _range_start(r2)
            if "base" in new:
                new["base"] = start2
                new.pop("idx", None)
            else:
                new["start"] = start2
                if "end" in new:
                    new["end"] = start2 + _range_size(r)
            _set_range(c["endpoints"][i], j, new)
            yield "overlap", f"{eps[i]['name']}[{j}] onto {eps[i2]['name']}[{j2}]", c
            if "array" in eps[i2] and "base" in r2:
                arr = eps[i2]["array"]
                cnt = arr if isinstance(arr, int) else (arr[0] * (arr[1] if len(arr) > 1 else 1))
                if cnt > 1 and "array" not in eps[i]:
                    c = copy.deepcopy(cfg)
                    new = dict(r)
                    tgt = r2["base"] + (cnt - 1) * r2["size"] + r2["size"] // 2
                    if "base" in new:
                        new["base"] = tgt
                        new.pop("idx", None)
                    else:
                        new["start"] = tgt
                        if "end" in new:
                            new["end"] = tgt + _range_size(r)
                    _set_range(c["endpoints"][i], j, new)
                    yield "overlap", f"{eps[i]['name']}[{j}] onto the last element of {eps[i2]['name']}[{j2}]", c
            break
        # empty
        c = copy.deepcopy(cfg)
        new = dict(r)
        if "size" in new:
            new["size"] = 0
            if "end" in new:
                new["end"] = new["start"]
        else:
            new["end"] = new["start"]
        _set_range(c["endpoints"][i], j, new)
        yield "empty-range", f"{eps[i]['name']}[{j}]", c
        # a negative base whose written element is still non-negative ({base: -size, size, idx: 1} is [0, size));
        # element 0 of an array would sit below address 0
        c = copy.deepcopy(cfg)
        sz = _range_size(r)
        neg = {"base": -sz, "size": sz, "idx": 1}
        if r.get("desc") is not None:
            neg["desc"] = r["desc"]
        _set_range(c["endpoints"][i], j, neg)
        yield "negative-base", f"{eps[i]['name']}[{j}]", c
        # self-contradictory (start, end, size that do not agree)
        if "array" not in eps[i]:
            c = copy.deepcopy(cfg)
            st = _range_start(r)
            _set_range(c["endpoints"][i], j, {"start": st, "end": st + _range_size(r), "size": _range_size(r) + 1})
            yield "contradictory-range", f"{eps[i]['name']}[{j}]", c
            # inverted
            c = copy.deepcopy(cfg)
            _set_range(c["endpoints"][i], j, {"start": st + _range_size(r), "end": st})
            yield "inverted-range", f"{eps[i]['name']}[{j}]", c
        # beyond the address width
        c = copy.deepcopy(cfg)
        new = dict(r)
        top = 1 << aw
        if "base" in new:
            new["base"] = top - 1
        else:
            new["start"] = top - 1
            if "end" in new:
                new["end"] = top - 1 + _range_size(r)
        if _range_size(r) > 1:
            _set_range(c["endpoints"][i], j, new)
            yield "beyond-addr-width", f"{eps[i]['name']}[{j}]", c
        # only a later element of an array leaves the address space
        if "array" in eps[i] and "base" in r:
            arr = eps[i]["array"]
            cnt = arr if isinstance(arr, int) else (arr[0] * (arr[1] if len(arr) > 1 else 1))
            if cnt > 1:
                c = copy.deepcopy(cfg)
                new = dict(r)
                new["base"] = top - r["size"] * (cnt - 1) - r["size"] // 2 if r["size"] > 1 else top - (cnt - 1)
                others = [x for k2, e2 in enumerate(eps) if e2.get("sbr_port_protocol") for x in _ranges(e2) if k2 != i]
                lo = new["base"]
                if lo >= 0 and all(_range_start(x) + _range_size(x) * 64 <= lo for x in others):
                    _set_range(c["endpoints"][i], j, new)
                    yield "beyond-addr-width", f"{eps[i]['name']}[{j}] last array element", c
        # array range without base
        if "array" in eps[i] and "base" in r:
            c = copy.deepcopy(cfg)
            _set_range(c["endpoints"][i], j, {"start": r["base"], "end": r["base"] + r["size"]})
            yield "array-range-without-base", f"{eps[i]['name']}[{j}]", c
    # subordinate without a range
    for i, e in enumerate(eps):
        if e.get("sbr_port_protocol") and "addr_range" in e:
            c = copy.deepcopy(cfg)
            del c["endpoints"][i]["addr_range"]
            yield "sbr-without-range", e["name"], c

    # --- names
    for i in range(1, len(eps)):
        c = copy.deepcopy(cfg)
        c["endpoints"][i]["name"] = eps[0]["name"]
        yield "duplicate-endpoint-name", eps[i]["name"], c
        # the same, with the connections following the new name (the two may differ in shape)
        c = copy.deepcopy(cfg)
        old = eps[i]["name"]
        c["endpoints"][i]["name"] = eps[0]["name"]
        for con in c["connections"]:
            for k2 in ("src", "dst"):
                if con[k2] == old:
                    con[k2] = eps[0]["name"]
        yield "duplicate-endpoint-name", eps[i]["name"] + " (connections renamed too)", c
    # two windows of one endpoint that overlap each other
    for i, e in enumerate(eps):
        rs = _ranges(e)
        if e.get("sbr_port_protocol") and len(rs) >= 2 and "array" not in e:
            c = copy.deepcopy(cfg)
            r0, r1 = rs[0], dict(rs[1])
            st = _range_start(r0) + max(1, _range_size(r0) // 2)
            if "base" in r1:
                r1["base"] = st
                r1.pop("idx", None)
            else:
                r1["start"] = st
                if "end" in r1:
                    r1["end"] = st + _range_size(rs[1])
            _set_range(c["endpoints"][i], 1, r1)
            yield "overlap", f"{e['name']}[1] onto its own window [0]", c
    if len(cfg["routers"]) > 1:
        c = copy.deepcopy(cfg)
        c["routers"][1]["name"] = cfg["routers"][0]["name"]
        yield "duplicate-router-name", cfg["routers"][1]["name"], c
    elif cfg["routers"]:
        c = copy.deepcopy(cfg)
        c["routers"].append(copy.deepcopy(cfg["routers"][0]))
        yield "duplicate-router-name", cfg["routers"][0]["name"], c

    # --- a single router that takes the node name of an array / tree element (declared before the array)
    for r in cfg["routers"]:
        if isinstance(r.get("array"), list) and len(r["array"]) == 2:
            clash = f"{r['name']}_0_0"
        elif r.get("tree"):
            clash = f"{r['name']}_0"
        else:
            continue
        c = copy.deepcopy(cfg)
        c["routers"].insert(0, {"name": clash})
        yield "duplicate-node-name", f"router {clash} before {r['name']}", c
        break

    # --- unknown fields / enumeration values
    for where in ["top", "routing", "endpoint", "router", "connection", "range"]:
        c = copy.deepcopy(cfg)
        if where == "top":
            c["foo_bar"] = 1
        elif where == "routing":
            c["routing"]["foo_bar"] = 1
        elif where == "endpoint":
            c["endpoints"][-1]["foo_bar"] = 1
        elif where == "router":
            if not c["routers"]:
                continue
            c["routers"][-1]["foo_bar"] = 1
        elif where == "connection":
            c["connections"][-1]["foo_bar"] = 1
        else:
            if not sbr_sites:
                continue
            i, j = sbr_sites[0]
            new = dict(_ranges(eps[i])[j], foo_bar=1)
            _set_range(c["endpoints"][i], j, new)
        yield "unknown-field", where, c
    c = copy.deepcopy(cfg)
    c["routing"]["route_algo"] = "ZZ"
    yield "unknown-enum", "route_algo", c
    c = copy.deepcopy(cfg)
    c["network_type"] = "mesh"
    yield "unknown-enum", "network_type", c
    c = copy.deepcopy(cfg)
    c["protocols"][0]["protocol"] = "AXI3"
    yield "unknown-enum", "protocol", c
    for k, con in enumerate(cfg["connections"]):
        for key in ("src_dir", "dst_dir"):
            if isinstance(con.get(key), str):
                c = copy.deepcopy(cfg)
                c["connections"][k][key] = "Up"
                yield "unknown-enum", f"connection {k} {key}", c
                break
    if cfg["network_type"] == "narrow-wide":
        c = copy.deepcopy(cfg)
        c["protocols"][0]["type"] = "medium"
        yield "unknown-enum", "protocol type", c

    # --- protocols
    for k in range(len(cfg["protocols"])):
        c = copy.deepcopy(cfg)
        c["protocols"][k]["addr_width"] = aw + 1
        yield "protocol-width-mismatch", f"addr_width of {cfg['protocols'][k]['name']}", c
    c = copy.deepcopy(cfg)
    c["protocols"][0]["data_width"] = c["protocols"][0]["data_width"] * 2
    yield "protocol-width-mismatch", "data_width", c
    if cfg["network_type"] == "axi" and len(cfg["protocols"]) > 1:
        # the optional `type` label means nothing in an axi network: widths must still agree
        for key in ("data_width", "user_width"):
            c = copy.deepcopy(cfg)
            for k, p in enumerate(c["protocols"]):
                p["type"] = "narrow" if k == 0 else "wide"
            c["protocols"][-1][key] = c["protocols"][-1][key] * 8 if key == "data_width" else c["protocols"][-1][key] + 1
            yield "protocol-width-mismatch", f"{key} between labelled axi protocols", c
    c = copy.deepcopy(cfg)
    c["protocols"][-1]["user_width"] = c["protocols"][-1]["user_width"] + 1
    yield "protocol-width-mismatch", "user_width", c
    for i, e in enumerate(eps):
        if e.get("mgr_port_protocol") and any(x.get("sbr_port_protocol") for x in eps):
            c = copy.deepcopy(cfg)
            ce = c["endpoints"][i]
            sbr_prot = next(x["sbr_port_protocol"][0] for x in eps if x.get("sbr_port_protocol"))
            ce["mgr_port_protocol"] = ce["mgr_port_protocol"] + [sbr_prot]
            yield "protocol-both-roles", e["name"], c

    # --- connections
    for k, con in enumerate(cfg["connections"]):
        for side in ("src", "dst"):
            c = copy.deepcopy(cfg)
            c["connections"][k][side] = "no_such_node"
            yield "connection-missing-node", f"connection {k} {side}", c
            if side + "_idx" in con:
                c = copy.deepcopy(cfg)
                c["connections"][k][side + "_idx"] = [99] * len(con[side + "_idx"]) if isinstance(con[side + "_idx"], list) else 99
                yield "connection-missing-index", f"connection {k} {side}_idx", c
            if side + "_range" in con:
                c = copy.deepcopy(cfg)
                rng = copy.deepcopy(con[side + "_range"])
                rng[-1] = [rng[-1][0], rng[-1][1] + 50]
                c["connections"][k][side + "_range"] = rng
                yield "connection-missing-index", f"connection {k} {side}_range", c
                # count mismatch without multi
                other = "dst" if side == "src" else "src"
                n_this = _sel_count(con, side)
                n_other = _sel_count(con, other)
                if n_this is not None and n_other is not None and n_this == n_other and n_this >= 2:
                    c = copy.deepcopy(cfg)
                    rng2 = copy.deepcopy(con[side + "_range"])
                    # drop one element of the last dimension that has more than one
                    for dim in range(len(rng2) - 1, -1, -1):
                        lo, hi = rng2[dim]
                        if lo != hi:
                            rng2[dim] = [lo, hi - 1] if hi > lo else [lo, hi + 1]
                            break
                    c["connections"][k][side + "_range"] = rng2
                    c["connections"][k].pop("allow_multi", None)
                    n_new = _sel_count(c["connections"][k], side)
                    if n_new != n_other:
                        yield "count-mismatch", f"connection {k} {side}_range", c
                        if n_new > 0 and n_other % n_new != 0:
                            c = copy.deepcopy(c)
                            c["connections"][k]["allow_multi"] = True
                            yield "count-not-dividing", f"connection {k} {side}_range", c
        # more routers selected than endpoints (counts differ although every endpoint is connected)
        for side in ("src", "dst"):
            rt = next((r for r in cfg["routers"] if r["name"] == con[side]), None)
            other = "dst" if side == "src" else "src"
            if rt is None or not isinstance(rt.get("array"), list) or side + "_range" not in con:
                continue
            if _is_router(cfg, con[other]):
                continue
            rng = copy.deepcopy(con[side + "_range"])
            for dim in range(len(rng) - 1, -1, -1):
                lo, hi = rng[dim]
                if max(lo, hi) + 1 < rt["array"][dim]:
                    if hi >= lo:
                        rng[dim] = [lo, hi + 1]
                    else:
                        rng[dim] = [lo + 1, hi]
                    c = copy.deepcopy(cfg)
                    c["connections"][k][side + "_range"] = rng
                    c["connections"][k].pop("allow_multi", None)
                    n_new = _sel_count(c["connections"][k], side)
                    n_other = _sel_count(con, other)
                    if n_other is not None and n_new != n_other:
                        yield "count-mismatch", f"connection {k} {side}_range grown", c
                        if n_new % n_other != 0:
                            c = copy.deepcopy(c)
                            c["connections"][k]["allow_multi"] = True
                            yield "count-not-dividing", f"connection {k} {side}_range grown", c
                    break
        # a fan-out (one single node on one side, several selected on the other) without `allow_multi`
        if con.get("allow_multi"):
            for side in ("src", "dst"):
                other = "dst" if side == "src" else "src"
                node = next((x for x in cfg["routers"] + cfg["endpoints"] if x["name"] == con[side]), None)
                if node is None or "array" in node or "tree" in node:
                    continue
                if any(side + sfx in con for sfx in ("_idx", "_range", "_lvl")):
                    continue
                n_other = _sel_count(con, other)
                if other + "_range" in con and n_other is not None and n_other >= 2:
                    c = copy.deepcopy(cfg)
                    c["connections"][k].pop("allow_multi")
                    yield "count-mismatch", f"connection {k} fan-out without allow_multi", c
        c = copy.deepcopy(cfg)
        c["connections"][k]["bidirectional"] = False
        yield "unidirectional", f"connection {k}", c
        c = copy.deepcopy(cfg)
        c["connections"].append(copy.deepcopy(con))
        yield "duplicate-connection", f"connection {k}", c
        # XY connection without direction / two links on one port
        if cfg["routing"]["route_algo"] == "XY" and ("dst_dir" in con or "src_dir" in con):
            c = copy.deepcopy(cfg)
            c["connections"][k].pop("dst_dir", None)
            c["connections"][k].pop("src_dir", None)
            yield "xy-without-direction", f"connection {k}", c
    # two links on one router port
    single_rts = [r["name"] for r in cfg["routers"] if "array" not in r and "tree" not in r]
    for rt in single_rts:
        ks = [k for k, con in enumerate(cfg["connections"])
              if (con["src"] == rt or con["dst"] == rt) and not any(x in con for x in ("src_idx", "dst_idx", "src_range", "dst_range", "src_lvl", "dst_lvl"))]
        if len(ks) >= 2:
            c = copy.deepcopy(cfg)
            for k in ks[:2]:
                con = c["connections"][k]
                con["dst_dir" if con["dst"] == rt else "src_dir"] = 0
            yield "two-links-one-port", f"{rt}: connections {ks[0]},{ks[1]}", c
            c2 = copy.deepcopy(c)
            c2["connections"].reverse()
            yield "two-links-one-port", f"{rt}: connections {ks[0]},{ks[1]}, declared in the opposite order", c2
    for r in cfg["routers"]:
        if isinstance(r.get("array"), list) and len(r["array"]) == 2 and r["array"][1] >= 2:
            for k, con in enumerate(cfg["connections"]):
                key = "dst_dir" if con["dst"] == r["name"] else ("src_dir" if con["src"] == r["name"] else None)
                if key and str(con.get(key, "")).lower() == "eject":
                    rk = "dst_range" if key == "dst_dir" else "src_range"
                    rng = con.get(rk)
                    if rng and min(rng[1]) == 0:      # covers row y = 0, whose routers have a North link
                        c = copy.deepcopy(cfg)
                        c["connections"][k][key] = "North"
                        yield "two-links-one-port", f"{r['name']}: connection {k} onto the mesh link", c
    # unconnected endpoint
    for i, e in enumerate(eps):
        c = copy.deepcopy(cfg)
        before = len(c["connections"])
        c["connections"] = [k for k in c["connections"] if k["src"] != e["name"] and k["dst"] != e["name"]]
        if len(c["connections"]) < before:
            yield "unconnected-endpoint", e["name"], c


def extra_negative(cfg):
    """descriptions floogen is known to refuse that are not among the defect classes of C10: used by the
    other checks to see what happens if a changed generator starts to accept them"""
    c = copy.deepcopy(cfg)
    c["routing"]["route_algo"] = "YX"
    yield "yx-routing", "route_algo", c

"""C20 (manifests) and the testbench half of C11: decided over regenerated facts / shipped files."""
import glob
import json
import os
import re

import impl
import svtok
from common import REPO


class C20Runner:
    def explore(self, pid, tier, seed, rep, search_mode=False):
        import lean
        drv = lean.Driver()
        res = drv.call({"cmd": "manifest"})
        drv.close()
        if "error" in res:
            raise RuntimeError(res["error"])
        fs = res["findings"]
        if res["holds"] != (len(fs) == 0):
            raise RuntimeError("C20 decider and diagnostics disagree")
        seen = set()
        for f in fs:
            # one report per (claim, manifest)
            key = (f["claim"], f["site"].split(":")[0])
            if key in seen:
                continue
            seen.add(key)
            same = [x for x in fs if (x["claim"], x["site"].split(":")[0]) == key]
            f2 = dict(f, detail=f["detail"] + f" (and {len(same) - 1} more: " + ", ".join(x["site"].split(":", 1)[1] for x in same[1:6]) + ")")
            rep.finding(f2, {"property": pid, "finding": f2, "all": same})
        # what generated networks really instantiate — the shipped examples and the smallest / extreme members of the
        # families — lies inside the closure the manifests were just checked for
        import gen_desc
        closure = set(res["closure"])
        ngen = 0
        cases = [("example:" + os.path.basename(f), impl.load_yaml(f))
                 for f in sorted(glob.glob(os.path.join(REPO, "floogen", "examples", "*.yml")))] + list(gen_desc.degenerate_cases())
        for name, cfg in cases:
            r = impl.run_floogen(cfg)
            if not r.ok:
                continue
            ngen += 1
            for m in sorted(set(re.findall(r"^\s*(floo_[A-Za-z0-9_]+)\s*#\s*\(", r.top, re.M))):
                if m not in closure and ("instance", m) not in seen:
                    seen.add(("instance", m))
                    f = {"claim": "manifest-unlisted-module", "site": f"generated:{m}",
                         "detail": f"the network generated for {name} instantiates {m}, which is not among the modules of "
                                   "this repository that the manifests list for generated networks"}
                    rep.finding(f, {"property": pid, "finding": f, "cfg": cfg, "module": m})
        return {"evaluations": res["entries"] + len(res["closure"]) + ngen, "distinct_nontrivial": res["entries"] + len(res["closure"]),
                "rule": "every file entry of every target/fileset of Bender.yml and floo_noc.core (existence or generated "
                        "file name) + every module in the instantiation closure of the modules generated tops instantiate; the modules "
                        "instantiated by the networks generated for the shipped examples and for the fixed list of degenerate "
                        "descriptions lie inside that closure",
                "samples": [{"closure": res["closure"]}], "exhaustive": True,
                "traces_validated_against_impl": res["entries"], "disagreements_checked": 0}

    def replay(self, pid, payload, rep):
        return self._again(pid, rep, payload)

    def _again(self, pid, rep, payload=None):
        import lean
        drv = lean.Driver()
        res = drv.call({"cmd": "manifest"})
        drv.close()
        if payload and payload.get("cfg") and payload.get("module"):
            r = impl.run_floogen(payload["cfg"])
            mods = set(re.findall(r"^\s*(floo_[A-Za-z0-9_]+)\s*#\s*\(", r.top, re.M)) if r.ok else set()
            print("instantiated:", sorted(mods))
            if payload["module"] in mods and payload["module"] not in set(res["closure"]):
                rep.finding(payload["finding"], payload)
            return rep.exit_code()
        for f in res["findings"][:1]:
            rep.finding(f, {"property": pid, "finding": f})
        print(json.dumps(res["findings"][:10], indent=1))
        return rep.exit_code()


GENERATED_NAME = re.compile(r"^(Sam|SamNumRules|RouteCfg|AxiCfg[NW]?|NumEndpoints|[A-Z][A-Za-z0-9]*X\d+Y\d+|"
                            r"[A-Z][A-Za-z0-9]*SamIdx|ep_id_e|sam_idx_e|sam_rule_t|hdr_t|id_t|route_t|rob_idx_t|"
                            r"axi_[a-z_]+_(req|rsp|addr|data|strb|id|user)_t|floo_(req|rsp|wide)_t)$")


def testbench_findings(drv):
    """tb_floo_<name>_mesh.sv touches floo_<name>_noc only through emitted ports and package names"""
    out = []
    checked = 0
    for tb in sorted(glob.glob(os.path.join(REPO, "hw", "tb", "tb_floo_*_mesh.sv"))):
        text = open(tb, encoding="utf-8").read()
        toks, _ = svtok.tokenize(re.sub(r"`[A-Za-z_]\w*", " ", re.sub(r'"[^"\n]*"', '""', text)) if False else text)
        m = re.search(r"import\s+floo_(\w+)_noc_pkg::\*", text)
        if not m:
            out.append({"claim": "tb-no-package-import", "site": os.path.basename(tb), "detail": "no generated package imported"})
            continue
        name = m.group(1)
        mi = re.search(r"\bfloo_" + name + r"_noc\s+\w+\s*\((.*?)\)\s*;", text, flags=re.S)
        if not mi:
            out.append({"claim": "tb-no-instance", "site": os.path.basename(tb), "detail": f"floo_{name}_noc is not instantiated"})
            continue
        bound = re.findall(r"\.(\w+)\s*\(", mi.group(1))
        # names after '.' are port/parameter names or struct members, not references
        used = {t for i, t in enumerate(toks) if GENERATED_NAME.match(t) and not (i > 0 and toks[i - 1] == ".")}
        examples = [f for f in sorted(glob.glob(os.path.join(REPO, "floogen", "examples", "*.yml")))
                    if impl.load_yaml(f).get("name") == name]
        per_example = {}
        if not examples:
            out.append({"claim": "tb-no-example", "site": os.path.basename(tb), "detail": f"no shipped example is named {name}"})
        for ex in examples:
            r = impl.run_floogen(impl.load_yaml(ex))
            if not r.ok:
                out.append({"claim": "tb-example-rejected", "site": os.path.basename(ex), "detail": r.err_msg[:100]})
                continue
            p, _ = svtok.tokenize(r.pkg)
            t, _ = svtok.tokenize(r.top)
            res = drv.call({"cmd": "pkgdecls", "pkg": p, "top": t})
            if "error" in res:
                raise RuntimeError(res["error"])
            ports = {x["name"]: x["dir"] for x in res["ports"]}
            decls = set(res["decls"]) | set(res["flooPkg"])
            per_example[os.path.basename(ex)] = set(res["decls"])
            checked += 1
            for b in bound:
                if b not in ports:
                    out.append({"claim": "tb-port", "site": f"{os.path.basename(tb)}:{b}",
                                "detail": f"port .{b} is not emitted for {os.path.basename(ex)}"})
            for pn, d in ports.items():
                if d == "input" and pn not in bound:
                    out.append({"claim": "tb-port-unbound", "site": f"{os.path.basename(tb)}:{pn}",
                                "detail": f"input {pn} emitted for {os.path.basename(ex)} is not bound"})
            for u in sorted(used):
                if u not in decls:
                    out.append({"claim": "tb-package-name", "site": f"{os.path.basename(tb)}:{u}",
                                "detail": f"{u} is not declared by the package emitted for {os.path.basename(ex)}"})
        # a name some variant's package declares must be declared by every variant the testbench is built against
        if len(per_example) > 1:
            union = set().union(*per_example.values())
            ids = {t for i, t in enumerate(toks) if t in union and not (i > 0 and toks[i - 1] == ".")}
            for exn, dset in per_example.items():
                for u in sorted(ids - dset):
                    out.append({"claim": "tb-package-name", "site": f"{os.path.basename(tb)}:{u}",
                                "detail": f"{u} is declared only by some of the packages named floo_{name}_noc_pkg, not by the one emitted for {exn}"})
    return out, checked

#!/bin/sh
# usage: try_mutant.sh <result dir> <property ids...>   (applies patch to /repo, runs demo + checks, reverts)
RES=$1; shift
cd /repo || exit 2
git diff --quiet || { echo "repo dirty"; exit 2; }
PYTHONPATH=/repo /venv/bin/python $RES/demo.py >/dev/null 2>&1; c0=$?
git apply $RES/patch.diff || { echo "$RES PATCH DOES NOT APPLY"; exit 3; }
t=$(/venv/bin/python -m pytest -q -p no:cacheprovider 2>&1 | tail -1)
PYTHONPATH=/repo /venv/bin/python $RES/demo.py >/dev/null 2>&1; c1=$?
echo "$RES demo clean=$c0 patched=$c1 tests: $t"
cd /verif
for p in "$@"; do out=$(./check $p 2>&1 | grep -E "VIOLATION|KNOWN|INFRA|Traceback" | head -3 | tr '\n' ' '); echo "   $p: ${out:-pass}"; done
cd /repo && git checkout -- . && git clean -fdq

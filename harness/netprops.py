"""Exploration for the properties decided on the emitted netlist (C01-C09, C11-C14)."""
import copy
import glob
import hashlib
import json
import os
import random
import time

import gen_desc
import impl
import svtok
from common import VERIF, REPO

EXAMPLES = sorted(glob.glob(os.path.join(REPO, "floogen", "examples", "*.yml")))

# per property: generator restrictions and case counts (quick, thorough)
CONFIG = {
    "C01": dict(algos=None, families=None, n=(250, 4000), derived_sweep=True),
    "C02": dict(algos=["ID"], families=["star", "mesh", "meshx", "tree", "custom"], n=(200, 3000), perms=True, derived_sweep=True, topo_sweep=True, inject=2, degree_sweep=True),
    "C03": dict(algos=["SRC"], families=["star", "mesh", "meshx", "tree", "custom"], n=(200, 3000), perms=True, derived_sweep=True, topo_sweep=True, inject=2, degree_sweep=True),
    "C04": dict(algos=["XY"], families=["mesh"], n=(200, 3000), xy_sweep=True, skip_xy_offset=True, degree_sweep=True),
    "C05": dict(algos=None, families=None, n=(250, 4000), perms=True, topo_sweep=True, overfull_sweep=True, inject=5, degree_sweep=True),
    "C06": dict(algos=None, families=None, n=(250, 4000), topo_sweep=True, overfull_sweep=True, inject=4, degree_sweep=True, size_sweep=True),
    "C07": dict(algos=None, families=None, n=(250, 4000), perms=True, derived_sweep=True, inject=2, degree_sweep=True, tableless_sweep=True),
    "C08": dict(algos=None, families=None, n=(250, 4000), inject=2, degree_sweep=True, size_sweep=True),
    "C09": dict(algos=["ID", "SRC"], families=["mesh", "tree"], n=(150, 1500), mesh_sweep=True),
    "C11": dict(algos=None, families=None, n=(150, 2000), inject=3, derived_sweep=True),
    "C12": dict(algos=None, families=None, n=(200, 2000), size_sweep=True, derived_sweep=True, inject=3, topo_sweep=True, degree_sweep=True, tableless_sweep=True),
    "C13": dict(algos=None, families=None, n=(250, 4000), derived_sweep=True, inject=2, degree_sweep=True),
    "C14": dict(algos=["ID", "SRC"], families=["star", "mesh", "meshx", "tree", "custom"], n=(200, 3000), chain_sweep=True, topo_sweep=True, degree_sweep=True),
}


def cfg_hash(cfg):
    return hashlib.sha1(json.dumps(cfg, sort_keys=True, default=str).encode()).hexdigest()


def count_roles(cfg):
    m = s = 0
    for e in cfg.get("endpoints", []):
        a = e.get("array")
        k = 1
        if isinstance(a, int):
            k = a
        elif a:
            for x in a:
                k *= x
        if e.get("mgr_port_protocol"):
            m += k
        if e.get("sbr_port_protocol"):
            s += k
    return m, s


def nontrivial(cfg):
    m, s = count_roles(cfg)
    return gen_desc.num_instances(cfg) >= 2 and m >= 1 and s >= 1


def corpus_cases(pid):
    out = []
    for f in EXAMPLES:
        out.append(("example:" + os.path.basename(f), impl.load_yaml(f)))
    for f in sorted(glob.glob(os.path.join(VERIF, "corpus", pid, "*.json")) +
                    glob.glob(os.path.join(VERIF, "corpus", "all", "*.json"))):
        out.append(("corpus:" + os.path.basename(f), json.load(open(f))["cfg"]))
    return out


def sweep_cases(pid, tier, rng):
    """deterministic enumerations demanded by the quantifiers"""
    conf = CONFIG[pid]
    out = []
    big = tier == "thorough"
    if conf.get("xy_sweep"):
        lim = 5 if big else 3
        for m in range(1, lim + 1):
            for n in range(1, lim + 1):
                subsets = range(16) if (big or m * n <= 4) else [0, 5, 10, 15, rng.randrange(16)]
                for mask in subsets:
                    sides = [d for i, d in enumerate(gen_desc.DIRS) if mask >> i & 1]
                    nt = rng.choice(["axi", "narrow-wide"])
                    cfg = gen_desc.gen_mesh(rng, "XY", nt, m=m, n=n, sides=sides, partial_local=False)
                    if cfg:
                        out.append((f"xy-sweep:{m}x{n}:{mask}", cfg))
    if conf.get("mesh_sweep"):
        lim = 6 if big else 3
        for algo in ["ID", "SRC"]:
            for m in range(1, lim + 1):
                for n in range(1, lim + 1):
                    subsets = range(16) if big and m * n <= 16 else [0, 15, rng.randrange(16)]
                    for mask in subsets:
                        sides = [d for i, d in enumerate(gen_desc.DIRS) if mask >> i & 1]
                        cfg = gen_desc.gen_mesh(rng, algo, "axi", m=m, n=n, sides=sides, partial_local=False)
                        if cfg:
                            out.append((f"mesh-sweep:{algo}:{m}x{n}:{mask}", cfg))
            for (m, n) in ([(11, 2), (2, 11), (12, 3), (3, 12), (11, 11)] if big else [(11, 2), (2, 11)]):
                cfg = gen_desc.gen_mesh(rng, algo, "axi", m=m, n=n, sides=[], partial_local=False)
                if cfg:
                    out.append((f"mesh-sweep:{algo}:{m}x{n}", cfg))
            trees = [[1], [1, 2], [1, 3], [1, 2, 2], [1, 3, 2], [1, 2, 3], [1, 3, 3]] if big else [[1, 2], [1, 3, 2]]
            for t in trees:
                cfg = gen_desc.gen_tree(rng, algo, "axi", tree=t)
                if cfg:
                    out.append((f"tree-sweep:{algo}:{t}", cfg))
    if conf.get("derived_sweep"):
        # fields of `routing` that floogen derives itself, spelled out (too small and too large) in the description
        keys = ["num_endpoints", "num_id_bits", "num_x_bits", "num_y_bits", "num_route_bits", "addr_offset_bits", "port_id_bits"]
        for algo in conf["algos"] or ["XY", "ID", "SRC"]:
            for k in keys:
                for v in ([0, 2] if k == "port_id_bits" else [1, 3, 9, 17] if big else [1, 9]):
                    cfg = None
                    for _ in range(6):
                        if algo == "XY":
                            cfg = gen_desc.gen_mesh(rng, algo, "axi", m=2, n=2, sides=["West"], partial_local=False)
                        else:
                            cfg = gen_desc.gen_star(rng, algo, rng.choice(["axi", "narrow-wide"]))
                        if cfg:
                            break
                    if cfg:
                        cfg = json.loads(json.dumps(cfg))
                        cfg["routing"][k] = v
                        if v != 1:
                            cfg["routing"].pop("use_id_table", None)      # the default: table in use
                        out.append((f"derived:{algo}:{k}={v}", cfg))
    if conf.get("tableless_sweep"):
        for (m, n, sides) in [(2, 3, ["West", "South"]), (2, 2, ["West"]), (3, 2, ["South", "East"])]:
            cfg = gen_desc.gen_mesh(rng, "XY", rng.choice(["axi", "narrow-wide"]), m=m, n=n, sides=sides, partial_local=False)
            if cfg:
                cfg = json.loads(json.dumps(cfg))
                cfg["routing"]["use_id_table"] = False
                out.append((f"tableless-xy:{m}x{n}:{'+'.join(sides)}", cfg))
    if conf.get("degree_sweep"):
        for algo in (conf.get("algos") or ["XY", "ID", "SRC"]):
            for degree in [4, 6, 7]:
                cfg = gen_desc.gen_degree_mesh(rng, algo, rng.choice(["axi", "narrow-wide"]), degree)
                if cfg:
                    out.append((f"degree:{algo}:{degree}", cfg))
            if algo != "XY":
                cfg = gen_desc.gen_degree_mesh(rng, algo, "axi", 6, double_eject=True)
                if cfg:
                    out.append((f"double-eject:{algo}", cfg))
            for tl in ([False, True] if algo != "XY" or True else [False]):
                cfg = gen_desc.gen_star(rng, algo, "axi") if algo != "XY" else gen_desc.gen_mesh(rng, algo, "axi", m=2, n=2, sides=[], partial_local=False)
                if cfg and tl:
                    cfg = json.loads(json.dumps(cfg))
                    cfg["routing"]["use_id_table"] = False
                    if algo == "ID":
                        cfg["routing"]["addr_offset_bits"] = 16
                    out.append((f"tableless:{algo}", cfg))
    if conf.get("overfull_sweep"):
        for algo in ["XY", "ID", "SRC"]:
            for degree in ([3, 4, 5] if big else [3, 4]):
                cfg = gen_desc.gen_overfull(rng, algo, rng.choice(["axi", "narrow-wide"]), degree)
                if cfg:
                    out.append((f"overfull:{algo}:{degree}", cfg))
    if conf.get("topo_sweep"):
        # shapes with a shorter way round: rings through boundary ports, through an outside router, between siblings
        for algo in conf["algos"] or ["ID", "SRC"]:
            if algo == "XY":
                continue
            shapes = [("torus", 3, 1), ("torus", 4, 2), ("hub", 6, 0), ("hub", 4, 0), ("bypass", 3, 0), ("handtree", 0, 0),
                      ("ring-eject", 4, 0), ("hub-bypass", 3, 6), ("chain-xbar", 5, 8), ("name-prefix", 0, 0), ("fan-dirs", 0, 0)]
            if big:
                shapes += [("torus", 5, 1), ("torus", 3, 3), ("hub", 7, 0), ("bypass", 2, 0)]
            for kind, a, b in shapes:
                nt = rng.choice(["axi", "narrow-wide"])
                if kind == "torus":
                    cfg = gen_desc.gen_torus(rng, algo, nt, a, b)
                elif kind == "hub":
                    cfg = gen_desc.gen_chain_hub(rng, algo, nt, a)
                elif kind == "handtree":
                    cfg = gen_desc.gen_tree_manual(rng, algo, nt)
                elif kind == "name-prefix":
                    cfg = gen_desc.gen_name_prefix_routers(rng, algo, nt)
                elif kind == "fan-dirs":
                    cfg = gen_desc.gen_tree_fan_dirs(rng, algo, nt)
                elif kind == "ring-eject":
                    cfg = gen_desc.gen_ring_eject(rng, algo, nt, a)
                elif kind == "hub-bypass":
                    cfg = gen_desc.gen_hub_bypass(rng, algo, nt, a, b)
                elif kind == "chain-xbar":
                    cfg = gen_desc.gen_chain_xbar(rng, algo, nt, a, b)
                else:
                    cfg = gen_desc.gen_tree_bypass(rng, algo, nt, a)
                if cfg:
                    out.append((f"topo:{kind}:{algo}:{a}x{b}", cfg))
    if conf.get("mesh_sweep"):
        # the local endpoint array mirrored onto the routers
        gen_desc.MIRROR_LOCAL = True
        try:
            for algo in ["ID", "SRC"]:
                for (m, n) in ([(3, 3), (4, 3), (3, 4)] if big else [(3, 3)]):
                    cfg = gen_desc.gen_mesh(rng, algo, "axi", m=m, n=n, sides=[], partial_local=False)
                    if cfg:
                        out.append((f"mirror-sweep:{algo}:{m}x{n}", cfg))
        finally:
            gen_desc.MIRROR_LOCAL = False
    if conf.get("chain_sweep"):
        for algo in ["ID", "SRC"]:
            for m in ([3, 5, 7, 9] if big else [5, 7]):
                cfg = gen_desc.gen_chain_express(rng, algo, rng.choice(["axi", "narrow-wide"]), m)
                if cfg:
                    out.append((f"chain-express:{algo}:{m}", cfg))
    if conf.get("size_sweep"):
        sizes = [(12, 11), (12, 12), (11, 2), (2, 11)] if big else [(11, 2), (4, 4)]
        for (m, n) in sizes:
            for algo in (["XY", "ID", "SRC"] if big else ["ID"]):
                cfg = gen_desc.gen_mesh(rng, algo, "axi", m=m, n=n, sides=["West"], partial_local=False)
                if cfg:
                    out.append((f"size-sweep:{algo}:{m}x{n}", cfg))
        # coordinate widths written into the description for the router array alone
        for (m, n) in ([(2, 2), (4, 2), (2, 4), (8, 4), (4, 4)] if big else [(2, 2), (4, 2), (2, 4)]):
            for sides in (["West"], ["South"], ["West", "South", "East", "North"]):
                cfg = gen_desc.gen_mesh(rng, "XY", rng.choice(["axi", "narrow-wide"]), m=m, n=n, sides=sides,
                                        partial_local=False, explicit_bits=True)
                if cfg:
                    out.append((f"explicit-bits:{m}x{n}:{'+'.join(sides)}", cfg))
        for fan in ([12, 5] if big else [11]):
            for per, flip in ((1, None), (2, False), (2, True)):
                cfg = gen_desc.gen_tree(rng, "ID", "axi", tree=[1, fan], per=per, flip=flip)
                if cfg:
                    out.append((f"fanout-sweep:{fan}x{per}:{flip}", cfg))
        for algo in ["XY", "ID"] if False else ["ID", "SRC"]:
            out.append((f"prefix-protocols:{algo}", gen_desc.gen_prefix_protocols(rng, algo)))
        cfg = gen_desc.gen_deep_tree(rng, "ID", "axi", [1, 12, 11])
        if cfg:
            out.append(("deep-tree:[1,12,11]", cfg))
    return out


def generated_cases(pid, tier, seed):
    conf = CONFIG[pid]
    rng = random.Random((seed, pid, tier).__repr__())
    n = conf["n"][1 if tier == "thorough" else 0]
    for name, cfg in sweep_cases(pid, tier, rng):
        yield name, {"family": "sweep"}, cfg
    i = 0
    while i < n:
        meta, cfg = gen_desc.gen_case(rng, families=conf["families"], algos=conf["algos"])
        yield f"gen:{seed}:{i}", meta, cfg
        i += 1
        # declaration-order permutations of small cases
        if conf.get("perms") and len(cfg["endpoints"]) <= 4 and len(cfg["connections"]) <= 4 and rng.random() < 0.15:
            perms = gen_desc.permutations_of(cfg, limit=24)
            rng.shuffle(perms)
            for j, pc in enumerate(perms[: (24 if tier == "thorough" else 6)]):
                yield f"gen:{seed}:{i}:perm{j}", dict(meta, perm=True), pc
                i += 1


SLICE = {
    "C01": "routing+wiring", "C02": "routing+wiring", "C03": "routing+wiring", "C04": "routing+wiring",
    "C05": "wiring", "C06": "wiring", "C07": "routing+wiring", "C08": "ports", "C09": "routing+wiring",
    # C11 and C12 have no generator-level theorem: they are decided on the real output (and on regenerated
    # facts) alone, so a difference between model and implementation says nothing about them
    "C11": None, "C12": None, "C13": "routing+wiring", "C14": "routing+wiring",
}


def driver_check(driver, cfg, ptoks, ttoks, pid):
    return driver.call({"cmd": "check", "desc": cfg, "pkg": ptoks, "top": ttoks, "props": [pid], "model": False})


TEXT_PROPS = {"C05", "C06", "C08", "C11", "C12", "C13"}


def run_case(driver, cfg, props, model=True):
    """returns dict: status in {rejected, extractor-error, ok}, findings per prop"""
    if props and SLICE.get(props[0], "all") is None:
        model = False
    r = impl.run_floogen(cfg)
    if not r.ok:
        res = {"status": "rejected", "err": f"{r.err_type}: {r.err_msg}"}
        if model:
            m = driver.call({"cmd": "model", "desc": cfg})
            res["model"] = m.get("model")
        return res
    try:
        ptoks, _ = svtok.tokenize(r.pkg)
        ttoks, _ = svtok.tokenize(r.top)
    except svtok.TokError as e:
        return {"status": "extractor-error", "err": str(e)}
    res = driver.call({"cmd": "check", "desc": cfg, "pkg": ptoks, "top": ttoks, "props": props,
                       "model": model, "slice": SLICE.get(props[0], "all") if props else "all"})
    if "error" in res:
        return {"status": "extractor-error", "err": res["error"]}
    findings = res["findings"]
    if not r.rerender_same:
        # a second rendering of the same compiled network differs: the property must hold for that text too
        try:
            p2, _ = svtok.tokenize(r.pkg2)
            t2, _ = svtok.tokenize(r.top2)
            res2 = driver.call({"cmd": "check", "desc": cfg, "pkg": p2, "top": t2, "props": props, "model": False})
            for k, v in (res2.get("findings") or {}).items():
                if isinstance(v, list):
                    findings[k] = findings.get(k, []) + [dict(f, site=f["site"] + " (second rendering)") for f in v]
            unreadable = res2.get("error")
        except svtok.TokError as e:
            unreadable = str(e)
        if unreadable:
            # the text emitted the second time is not SystemVerilog of the emitted subset any more: the properties
            # about the text of the two files fail for it (the ones about routes are not judged on it)
            for k in props:
                if k in TEXT_PROPS and isinstance(findings.get(k, []), list):
                    findings[k] = findings.get(k, []) + [{
                        "claim": "second-rendering-unreadable", "site": "second rendering of the same compiled network",
                        "detail": "rendering the same compiled network again emits different text that cannot be read as "
                                  "a package / module: " + unreadable[:200]}]
    holds = res.get("holds", {})
    if not r.rerender_same:
        holds = {}          # the decider's verdict is about the first rendering only
    return {"status": "ok", "findings": findings, "model": res.get("model"), "holds": holds,
            "rerender_same": r.rerender_same}


# --------------------------------------------------------------------------- shrinking

def _variants(cfg):
    """smaller descriptions, most aggressive first"""
    eps = cfg["endpoints"]
    conns = cfg["connections"]
    for i in range(len(eps)):
        name = eps[i]["name"]
        c = copy.deepcopy(cfg)
        del c["endpoints"][i]
        c["connections"] = [k for k in c["connections"] if k["src"] != name and k["dst"] != name]
        yield c
    for i in range(len(conns)):
        c = copy.deepcopy(cfg)
        del c["connections"][i]
        yield c
    for i, e in enumerate(eps):
        if isinstance(e.get("addr_range"), list) and len(e["addr_range"]) > 1:
            for j in range(len(e["addr_range"])):
                c = copy.deepcopy(cfg)
                del c["endpoints"][i]["addr_range"][j]
                yield c
    for i, r in enumerate(cfg["routers"]):
        if len(cfg["routers"]) > 1:
            c = copy.deepcopy(cfg)
            name = r["name"]
            del c["routers"][i]
            c["connections"] = [k for k in c["connections"] if k["src"] != name and k["dst"] != name]
            yield c


def shrink(cfg, still_fails, budget=150):
    cur = cfg
    improved = True
    while improved and budget > 0:
        improved = False
        for v in _variants(cur):
            budget -= 1
            if budget <= 0:
                break
            try:
                if still_fails(v):
                    cur = v
                    improved = True
                    break
            except Exception:  # pylint: disable=broad-except
                continue
    return cur


# --------------------------------------------------------------------------- runner

class NetRunner:
    """explores descriptions, decides the property on the implementation's output with the
    verified checker, compares with the Lean model where it exists"""

    MAX_VIOLATIONS = 3

    def explore(self, pid, tier, seed, rep, search_mode=False):
        import lean
        import collections
        drv = lean.Driver()
        # descriptions without address table only where the property does not speak about decoding or routing by it
        gen_desc.ALLOW_NO_TABLE = pid in ("C05", "C06", "C07", "C11", "C12", "C13")
        gen_desc.SHORT_DEGREE = pid in ("C05", "C06")
        gen_desc.EXPRESS_LINKS = pid != "C09"
        stats = collections.Counter()
        dist = collections.Counter()
        seen = set()
        samples = []
        nontriv = 0
        evaluations = 0
        model_cmp = 0
        t0 = time.time()
        budget_s = 1500 if tier == "thorough" else 110
        reported_claims = set()
        disagreements = []

        def handle(name, meta, cfg):
            nonlocal nontriv, evaluations, model_cmp
            if CONFIG[pid].get("skip_xy_offset") and any("xy_id_offset" in e for e in cfg["endpoints"]):
                stats["outside-quantifier:xy_id_offset"] += 1
                return
            h = cfg_hash(cfg)
            evaluations += 1
            res = run_case(drv, cfg, [pid])
            stats[res["status"]] += 1
            if res["status"] == "rejected":
                stats["rejected:" + res["err"].split(":")[0]] += 1
                m = res.get("model") or {}
                if m.get("status") == "ok":
                    stats["model-accepts-impl-rejects"] += 1
                    if len(disagreements) < 3:
                        disagreements.append({"case": name, "cfg": cfg, "impl": res["err"][:200], "model": "accepted"})
                return
            if res["status"] == "extractor-error":
                # the emitted text is outside the subset the extractor understands
                if pid == "C12":
                    f = {"claim": "unparsable-output", "site": name, "detail": res["err"][:300]}
                    rep.finding(f, {"property": pid, "finding": f, "cfg": cfg, "case": name})
                else:
                    # nothing can be decided on text the extractor cannot read: the tie between the emitted files and
                    # the netlist view is broken for this description (reported if no concrete finding turns up)
                    stats["extractor-error"] += 1
                    if len(disagreements) < 3:
                        disagreements.append({"case": name, "cfg": cfg, "extractor": res["err"][:300],
                                              "what": "the emitted files of an accepted description cannot be read"})
                return
            if h not in seen:
                seen.add(h)
                if nontrivial(cfg):
                    nontriv += 1
            dist[meta.get("family", "?") + "/" + cfg["routing"]["route_algo"] + "/" + cfg["network_type"]] += 1
            fs = res["findings"].get(pid, [])
            if isinstance(fs, str):
                raise RuntimeError(fs)
            if pid == "C01" and evaluations % 4 == 0:
                import malformed
                for cls, site, bad in malformed.inject_all(cfg):
                    if cls != "overlap":
                        continue
                    stats["overlap-variants"] += 1
                    rb = impl.run_floogen(bad)
                    if not rb.ok and stats["overlap-cli-modes"] < 2:
                        # … and through the command line in the modes that render only one of the two files
                        import cliprops
                        stats["overlap-cli-modes"] += 1
                        for fl in (("--only-top",), ("--only-pkg",)):
                            rc = cliprops.run_cli(bad, extra_args=fl)
                            if (rc["rc"] == 0 or rc["files"]) and "overlap-accepted" not in reported_claims:
                                reported_claims.add("overlap-accepted")
                                f = {"claim": "overlap-accepted", "site": site + " with " + fl[0],
                                     "detail": f"`floogen {fl[0]}` on a description whose expanded ranges overlap: exit status "
                                               f"{rc['rc']}, files {sorted(rc['files'])}"}
                                rep.finding(f, {"property": pid, "finding": f, "cfg": bad, "case": name, "cli_flag": fl[0]})
                    if rb.ok and "overlap-accepted" not in reported_claims:
                        reported_claims.add("overlap-accepted")
                        f = {"claim": "overlap-accepted", "site": site,
                             "detail": "a description whose expanded ranges overlap is accepted and files are emitted"}
                        rep.finding(f, {"property": pid, "finding": f, "cfg": bad, "case": name})
                    break
            if CONFIG[pid].get("inject") and "injected" not in meta and time.time() - t0 < budget_s * 0.8:
                # descriptions the unchanged generator refuses: if a changed one accepts them, its output is checked too
                import malformed
                variants = list(malformed.inject_all(cfg)) + list(malformed.extra_negative(cfg))
                irng = random.Random(h)
                for cls, site, bad in irng.sample(variants, min(CONFIG[pid]["inject"], len(variants))):
                    stats["injected-variants"] += 1
                    handle(f"{name}+{cls}@{site}", {"family": meta.get("family", "?"), "injected": cls}, bad)
            if pid in ("C05", "C06") and stats["visualize-runs"] < 2 and "injected" not in meta:
                # the command line with its picture option: drawing the network must not change what is generated
                import cliprops
                stats["visualize-runs"] += 1
                rc = cliprops.run_cli(cfg, extra_args=("--visualize",))
                tops = [v for k2, v in rc["files"].items() if not k2.endswith("_pkg.sv")]
                pkgs = [v for k2, v in rc["files"].items() if k2.endswith("_pkg.sv")]
                if rc["rc"] == 0 and tops and pkgs:
                    try:
                        pt, _ = svtok.tokenize(pkgs[0])
                        tt, _ = svtok.tokenize(tops[0])
                        rv = driver_check(drv, cfg, pt, tt, pid)
                    except svtok.TokError as e:
                        rv = {"error": str(e)}
                    vf = rv.get("findings", {}).get(pid, []) if "error" not in rv else \
                        [{"claim": "unreadable-with-visualize", "site": name, "detail": rv["error"][:200]}]
                    if isinstance(vf, list):
                        fs = list(fs) + [dict(x, site=x["site"] + " (generated with --visualize)") for x in vf]
                        res["holds"] = {}
            if len(samples) < 3 and not fs:
                samples.append({"case": name, "endpoints": [e["name"] + str(e.get("array", "")) for e in cfg["endpoints"]],
                                "routers": cfg["routers"], "algo": cfg["routing"]["route_algo"],
                                "connections": len(cfg["connections"]), "findings": 0})
            m = res.get("model")
            if m is not None:
                model_cmp += 1
                if m.get("status") != "ok" or not m.get("sliceEqual"):
                    stats["model-disagrees"] += 1
                    if len(disagreements) < 3:
                        disagreements.append({"case": name, "cfg": cfg, "model": {k: m.get(k) for k in ("status", "cls", "msg", "diff")}})
                elif not m.get("fullEqual"):
                    stats["model-differs-outside-slice"] += 1
                if m.get("status") == "ok":
                    # hypotheses of the generator theorems (reverse-paired link edges, only links at routers)
                    stats["graph-hypothesis-" + ("holds" if m.get("graphHyp") else "FAILS")] += 1
                    if cfg["routing"]["route_algo"] == "SRC":
                        # hypothesis of C03M.model_route_unpacks (every hop of a source route takes at least one bit)
                        stats["route-hypothesis-" + ("holds" if m.get("routeHyp") else "FAILS")] += 1
                        if not m.get("routeHyp") and pid == "C03" and len(disagreements) < 3:
                            disagreements.append({"case": name, "cfg": cfg, "model": {"hypothesis": "a hop of a source route takes zero bits"}})
                    if not m.get("graphHyp") and pid == "C05" and len(disagreements) < 3:
                        disagreements.append({"case": name, "cfg": cfg, "model": {"hypothesis": "PairedGraph / OnlyLinksAt fails"}})
            hv = res.get("holds", {}).get(pid)
            if hv is not None and hv != (len(fs) == 0):
                raise RuntimeError(f"decider and diagnostics disagree on {name}: holds={hv} findings={fs[:2]}")
            for f in fs:
                if f["claim"] in reported_claims:
                    continue
                reported_claims.add(f["claim"])

                def still(c, claim=f["claim"]):
                    r2 = run_case(drv, c, [pid])
                    return r2["status"] == "ok" and any(x["claim"] == claim for x in r2["findings"].get(pid, []))
                small = shrink(cfg, still) if len(rep.violations) < self.MAX_VIOLATIONS else cfg
                r3 = run_case(drv, small, [pid])
                f2 = next((x for x in r3.get("findings", {}).get(pid, []) if x["claim"] == f["claim"]), f)
                rep.finding(f2, {"property": pid, "finding": f2, "cfg": small, "case": name,
                                 "how": f"./check {pid} --replay <this file>"})

        if pid == "C11":
            import staticprops
            tbf, nchk = staticprops.testbench_findings(drv)
            stats["testbench-example-pairs"] = nchk
            for f in tbf:
                if f["claim"] not in reported_claims:
                    reported_claims.add(f["claim"])
                    rep.finding(f, {"property": pid, "finding": f, "cfg": None, "case": "testbench"})
        for name, cfg in corpus_cases(pid):
            handle(name, {"family": "corpus"}, cfg)
        # the smallest and the extreme members of the families (fixed list)
        for name, cfg in gen_desc.degenerate_cases(CONFIG[pid].get("algos")):
            handle(name, {"family": "degenerate"}, cfg)
        for name, meta, cfg in generated_cases(pid, tier, seed):
            if time.time() - t0 > budget_s or len(rep.violations) >= self.MAX_VIOLATIONS:
                stats["stopped-early"] += 1
                break
            handle(name, meta, cfg)
        if (disagreements or search_mode) and not rep.violations:
            # search: the tie (or a proof obligation) is broken; look harder for an input on which the
            # implementation's own output violates the property, around the disagreeing inputs
            fams, algs = set(), set()
            for dg in disagreements:
                c = dg.get("cfg") or {}
                algs.add(c.get("routing", {}).get("route_algo"))
                fams.add(c.get("name"))
            fams = [f for f in fams if f in gen_desc.FAMILIES] or CONFIG[pid]["families"]
            algs = [a for a in algs if a] or CONFIG[pid]["algos"]
            srng = random.Random(repr((seed, pid, "search")))
            t1 = time.time()
            k = 0
            while time.time() - t1 < (240 if tier == "thorough" else 60) and not rep.violations and k < 4000:
                meta, cfg = gen_desc.gen_case(srng, families=fams, algos=algs)
                k += 1
                if CONFIG[pid].get("skip_xy_offset") and any("xy_id_offset" in e for e in cfg["endpoints"]):
                    continue                 # outside this property's quantifier, as in the main exploration
                stats["search-cases"] += 1
                res = run_case(drv, cfg, [pid], model=False)
                if res["status"] != "ok":
                    continue
                for f in res["findings"].get(pid, []):
                    def still(c, claim=f["claim"]):
                        r2 = run_case(drv, c, [pid], model=False)
                        return r2["status"] == "ok" and any(x["claim"] == claim for x in r2["findings"].get(pid, []))
                    small = shrink(cfg, still)
                    rep.finding(f, {"property": pid, "finding": f, "cfg": small, "case": f"search:{k}",
                                    "how": f"./check {pid} --replay <this file>"})
                    break
        drv.close()
        if disagreements and not rep.violations:
            # the model no longer describes the implementation on this property's slice and the search
            # above found no input on which the implementation's own output violates the property
            what = {"correspondence": f"Lean model and implementation disagree on the {SLICE.get(pid)} slice"}
            if any("extractor" in dg for dg in disagreements):
                what["extractor"] = "the emitted files of an accepted description cannot be read into the netlist view"
            rep.unproven(what, {"property": pid, "disagreements": disagreements})
        return {
            "evaluations": evaluations,
            "distinct_nontrivial": nontriv,
            "rule": "seeded structured generator (star/mesh/mesh+router/tree/custom x XY/ID/SRC x axi/narrow-wide, "
                    "role mixes, address layouts, declaration-order permutations) + shipped examples + corpus + the "
                    "sweeps the quantifier names; distinct = different description after JSON canonicalisation; "
                    "non-trivial = accepted by floogen, >=2 endpoint instances, >=1 manager and >=1 subordinate",
            "samples": samples,
            "traces_validated_against_impl": stats["ok"],
            "disagreements_checked": model_cmp,
            "status_counts": dict(stats),
            "distribution": dict(dist),
            "search_mode": search_mode,
        }

    def replay(self, pid, payload, rep):
        import lean
        drv = lean.Driver()
        cfg = payload["cfg"]
        if (payload.get("finding") or {}).get("claim") == "overlap-accepted":
            # the description has overlapping ranges: it must be refused, in process and by the command line
            drv.close()
            rb = impl.run_floogen(cfg)
            accepted = rb.ok
            print("in process:", "accepted" if rb.ok else f"refused ({rb.err_type})")
            if payload.get("cli_flag"):
                import cliprops
                rc = cliprops.run_cli(cfg, extra_args=(payload["cli_flag"],))
                print(f"floogen {payload['cli_flag']}: exit status {rc['rc']}, files {sorted(rc['files'])}")
                accepted = accepted or rc["rc"] == 0 or bool(rc["files"])
            if accepted:
                rep.finding(payload["finding"], payload)
            return rep.exit_code()
        if "(generated with --visualize)" in (payload.get("finding") or {}).get("site", ""):
            import cliprops
            rc = cliprops.run_cli(cfg, extra_args=("--visualize",))
            tops = [v for k2, v in rc["files"].items() if not k2.endswith("_pkg.sv")]
            pkgs = [v for k2, v in rc["files"].items() if k2.endswith("_pkg.sv")]
            fsv = []
            if rc["rc"] == 0 and tops and pkgs:
                try:
                    rv = driver_check(drv, cfg, svtok.tokenize(pkgs[0])[0], svtok.tokenize(tops[0])[0], pid)
                    fsv = rv.get("findings", {}).get(pid, []) if "error" not in rv else [{"claim": "unreadable", "site": "", "detail": rv["error"]}]
                except svtok.TokError as e:
                    fsv = [{"claim": "unreadable", "site": "", "detail": str(e)}]
            drv.close()
            print(f"floogen --visualize: exit status {rc['rc']}; findings on its output: {json.dumps(fsv[:3])[:600]}")
            if fsv:
                rep.finding(payload["finding"], payload)
            return rep.exit_code()
        res = run_case(drv, cfg, [pid])
        drv.close()
        print(json.dumps(res, indent=1)[:3000])
        fs = res.get("findings", {}).get(pid, []) if res["status"] == "ok" else []
        for f in fs:
            rep.finding(f, {"property": pid, "finding": f, "cfg": cfg, "case": "replay"})
            break
        return rep.exit_code()

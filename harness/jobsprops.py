"""C19: traffic jobs only address memory that the shipped mesh descriptions map."""
import collections
import glob
import importlib.util
import json
import os
import shutil
import tempfile

import impl
import svtok
from common import REPO

TRAFFIC = ["hbm", "uniform", "onehop", "bit_complement", "bit_reverse", "bit_rotation", "neighbor", "shuffle",
           "transpose", "tornado", "hotspot_boundary", "hotspot", "matmul"]


def load_gen_jobs():
    spec = importlib.util.spec_from_file_location("gen_jobs_under_test", os.path.join(REPO, "util", "gen_jobs.py"))
    mod = importlib.util.module_from_spec(spec)
    spec.loader.exec_module(mod)
    return mod


def real_jobs(mod, traffic, rw, nbl, wbl, nnb, nwb):
    """runs the real gen_mesh_traffic; returns {file index: [(len, src, dst), ...]}"""
    out = tempfile.mkdtemp(prefix="floojobs_")
    try:
        mod.gen_mesh_traffic(narrow_burst_length=nbl, wide_burst_length=wbl, num_narrow_bursts=nnb,
                             num_wide_bursts=nwb, rw=rw, traffic_type=traffic, out_dir=out)
        res = {}
        for f in glob.glob(os.path.join(out, "mesh_*.txt")):
            idx = int(os.path.basename(f)[5:-4])
            lines = open(f).read().split("\n")
            jobs = []
            for k in range(0, len(lines) - 1, 10):
                jobs.append((int(lines[k]), int(lines[k + 1], 16), int(lines[k + 2], 16)))
            res[idx] = jobs
        return res
    finally:
        shutil.rmtree(out, ignore_errors=True)


def sam_ranges(drv):
    """address ranges floogen emits for each shipped *_mesh_* example"""
    out = {}
    for f in sorted(glob.glob(os.path.join(REPO, "floogen", "examples", "*_mesh_*.yml"))):
        base = os.path.basename(f)
        if not (base.startswith("axi_mesh") or base.startswith("nw_mesh")):
            continue
        r = impl.run_floogen(impl.load_yaml(f))
        if not r.ok:
            raise RuntimeError(f"{f} is rejected: {r.err_msg}")
        toks, _ = svtok.tokenize(r.pkg)
        res = drv.call({"cmd": "sam", "pkg": toks})
        if "error" in res:
            raise RuntimeError(res["error"])
        out[base] = [(lo, hi) for lo, hi in res["rules"]]
    return out


def tile_bases():
    """per shipped mesh example: start of cluster (x, y)'s range, keyed by x*4+y, and the starts of all ranges,
    read from the description (element k of an array owns [base + k*size, base + (k+1)*size))"""
    out = {}
    for f in sorted(glob.glob(os.path.join(REPO, "floogen", "examples", "*_mesh_*.yml"))):
        base = os.path.basename(f)
        if not (base.startswith("axi_mesh") or base.startswith("nw_mesh")):
            continue
        cfg = impl.load_yaml(f)
        local, starts = {}, set()
        for e in cfg["endpoints"]:
            rs = e.get("addr_range")
            if rs is None:
                continue
            rs = rs if isinstance(rs, list) else [rs]
            arr = e.get("array")
            cnt = 1
            if arr is not None:
                for a in (arr if isinstance(arr, list) else [arr]):
                    cnt *= a
            for r in rs:
                for k in range(cnt):
                    st = r["base"] + k * r["size"] if "base" in r else r["start"]
                    starts.add(st)
                    if e["name"] == "cluster":
                        local[k] = st
        out[base] = (local, starts)
    return out


def inside(ranges, a, ln):
    return any(lo <= a and (a + ln <= hi or hi == 0) for lo, hi in ranges)


class C19Runner:
    def explore(self, pid, tier, seed, rep, search_mode=False):
        import lean
        import random
        drv = lean.Driver()
        mod = load_gen_jobs()
        sams = sam_ranges(drv)
        bases = tile_bases()
        rng = random.Random(repr((seed, pid)))
        grid = [(1, 1), (1, 16), (4, 64), (16, 1024), (1, 1040), (8193, 16), (3, 1000), (1, 48), (2000, 16), (8192, 4)] \
            if tier == "quick" else \
               [(a, b) for a in (1, 2, 16, 256, 1025, 4096, 8192, 9000) for b in (1, 2, 3, 16, 100, 512, 1024, 1025, 4096)]
        stats = collections.Counter()
        samples = []
        evaluations = 0
        distinct = set()
        reported = set()
        model_mismatch = []
        for traffic in TRAFFIC:
            for rw in ("read", "write"):
                for (nbl, wbl) in grid:
                    nnb, nwb = rng.choice([(1, 1), (2, 3), (10, 100) if tier == "thorough" else (2, 2)])
                    if wbl in (48, 1000):
                        nnb, nwb = 2, 45          # many bursts of a length that does not divide the memory size
                    mod.random.seed(seed * 1000 + evaluations)
                    try:
                        jobs = real_jobs(mod, traffic, rw, nbl, wbl, nnb, nwb)
                    except (AssertionError, ValueError):
                        # burst settings the generator refuses (length above the memory size): nothing is written
                        stats["refused-settings"] += 1
                        evaluations += 1
                        continue
                    evaluations += 1
                    distinct.add((traffic, rw, nbl, wbl, nnb, nwb))
                    # decide the property on what the real script wrote, against the real address maps
                    for ex, ranges in sams.items():
                        for idx, jl in jobs.items():
                            local, starts = bases[ex]
                            for (ln, src, dst) in jl:
                                stats["jobs-checked"] += 1
                                # the tile's own end of a transfer is the start of its cluster's range, the other end
                                # the start of some endpoint's range (zero-length jobs are dropped by the testbench)
                                if ln > 0 and ("local", traffic) not in reported and \
                                        not ((src == local.get(idx % 100) and dst in starts) or
                                             (dst == local.get(idx % 100) and src in starts)):
                                    reported.add(("local", traffic))
                                    f = {"claim": "job-base-address", "site": f"{traffic}/{rw} tile file {idx}",
                                         "detail": f"len={ln} src={hex(src)} dst={hex(dst)}: neither end is the start of cluster "
                                                   f"{(idx % 100) // 4},{(idx % 100) % 4}'s range ({hex(local.get(idx % 100, -1))}) with the "
                                                   f"other end at the start of a range of {ex}"}
                                    rep.finding(f, {"property": pid, "finding": f, "traffic": traffic, "rw": rw,
                                                    "narrow_burst_length": nbl, "wide_burst_length": wbl,
                                                    "num_narrow_bursts": nnb, "num_wide_bursts": nwb, "example": ex})
                                if not (inside(ranges, src, ln) and inside(ranges, dst, ln)):
                                    claim = "job-outside-map"
                                    key = (traffic,)
                                    if key in reported:
                                        continue
                                    reported.add(key)
                                    f = {"claim": claim, "site": f"{traffic}/{rw} tile file {idx}",
                                         "detail": f"len={ln} src={hex(src) if src < 1 << 80 else 'huge(' + str(src.bit_length()) + ' bits)'} "
                                                   f"dst={hex(dst) if dst < 1 << 80 else 'huge(' + str(dst.bit_length()) + ' bits)'} "
                                                   f"not inside one range of {ex}"}
                                    rep.finding(f, {"property": pid, "finding": f, "traffic": traffic, "rw": rw,
                                                    "narrow_burst_length": nbl, "wide_burst_length": wbl,
                                                    "num_narrow_bursts": nnb, "num_wide_bursts": nwb, "example": ex})
                    # correspondence with the Lean model (deterministic patterns; uniform: membership)
                    if traffic != "uniform" and wbl * 64 <= 65536 and nbl * 8 <= 65536:
                        for kind, off, bursts in (("wide", 0, nwb), ("narrow", 100, nnb)):
                            m = drv.call({"cmd": "jobs", "traffic": traffic, "wl": wbl * 64, "bursts": bursts,
                                          "read": rw == "read"})
                            if "error" in m:
                                raise RuntimeError(m["error"])
                            for t, mj in enumerate(m["tiles"]):
                                rj = jobs.get(t + off, [])
                                stats["model-compared"] += 1
                                if [tuple(x) for x in mj] != rj:
                                    stats["model-mismatch"] += 1
                                    if len(model_mismatch) < 2:
                                        model_mismatch.append({"traffic": traffic, "rw": rw, "tile": t, "kind": kind,
                                                               "model": mj[:3], "impl": [list(map(str, x)) for x in rj[:3]]})
                    if len(samples) < 3:
                        samples.append({"traffic": traffic, "rw": rw, "wide_burst_length": wbl,
                                        "tile0_jobs": [list(map(str, j)) for j in jobs.get(0, [])[:2]]})
        drv.close()
        if model_mismatch and not rep.violations:
            rep.unproven({"correspondence": "Lean model of gen_mesh_traffic and util/gen_jobs.py disagree"},
                         {"property": pid, "mismatches": model_mismatch})
        return {"evaluations": evaluations, "distinct_nontrivial": len(distinct),
                "rule": "every traffic type x {read, write} x grid of burst lengths/counts through the real "
                        "util/gen_jobs.py; every written job checked against the Sam floogen emits for each shipped "
                        "*_mesh_* example; job lists compared with the Lean model; non-trivial = a run that writes 32 job files",
                "samples": samples, "status_counts": dict(stats),
                "traces_validated_against_impl": stats["model-compared"],
                "disagreements_checked": stats["model-mismatch"], "exhaustive": False}

    def replay(self, pid, payload, rep):
        import lean
        drv = lean.Driver()
        mod = load_gen_jobs()
        sams = sam_ranges(drv)
        bases = tile_bases()
        drv.close()
        jobs = real_jobs(mod, payload["traffic"], payload["rw"], payload["narrow_burst_length"],
                         payload["wide_burst_length"], payload["num_narrow_bursts"], payload["num_wide_bursts"])
        bad = [(idx, j) for idx, jl in jobs.items() for j in jl
               if not (inside(sams[payload["example"]], j[1], j[0]) and inside(sams[payload["example"]], j[2], j[0]))]
        print(f"{len(bad)} jobs outside the address map of {payload['example']}")
        local, starts = bases[payload["example"]]
        bad2 = [(idx, j) for idx, jl in jobs.items() for j in jl if j[0] > 0 and
                not ((j[1] == local.get(idx % 100) and j[2] in starts) or (j[2] == local.get(idx % 100) and j[1] in starts))]
        print(f"{len(bad2)} jobs whose ends are not the tile's own base and the start of a range")
        if bad or bad2:
            rep.finding(payload["finding"], payload)
        return rep.exit_code()

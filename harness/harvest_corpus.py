"""By hand, never by a check: records the descriptions the demonstration of a kept seeded change hands to floogen
(run with the change applied in a scratch worktree) as corpus cases of the property's own check, so that what once
exposed a change keeps being looked at first, whatever the seed.

    PYTHONPATH=<worktree> /venv/bin/python harness/harvest_corpus.py <demo.py> <out.json>
"""
import json
import runpy
import sys

seen = []


def record(cfg):
    try:
        s = json.dumps(cfg, sort_keys=True)
    except (TypeError, ValueError):
        return
    if s not in seen:
        seen.append(s)


def main():
    demo, out = sys.argv[1], sys.argv[2]
    from floogen.model import network
    import floogen.config_parser as cp
    import ruamel.yaml
    orig_init = network.Network.__init__

    def init(self, **kw):
        record(kw)
        orig_init(self, **kw)
    network.Network.__init__ = init
    orig_validate = network.Network.model_validate.__func__

    def validate(cls, obj, *a, **k):
        if isinstance(obj, dict):
            record(obj)
        return orig_validate(cls, obj, *a, **k)
    network.Network.model_validate = classmethod(validate)
    orig_parse = cp.parse_config

    def parse(cls, path, *a, **k):
        try:
            with open(path, encoding="utf-8") as f:
                record(json.loads(json.dumps(ruamel.yaml.YAML(typ="safe").load(f))))
        except Exception:  # noqa: BLE001
            pass
        return orig_parse(cls, path, *a, **k)
    cp.parse_config = parse
    sys.argv = [demo]
    code = 0
    try:
        runpy.run_path(demo, run_name="__main__")
    except SystemExit as e:
        code = e.code if isinstance(e.code, int) else (0 if e.code is None else 1)
    except BaseException as e:  # noqa: BLE001
        code = 99
        print("demo raised", type(e).__name__, e, file=sys.stderr)
    json.dump({"exit": code, "cfgs": [json.loads(s) for s in seen]}, open(out, "w"))


if __name__ == "__main__":
    main()

"""Regenerates /verif/MANIFEST.json from the registry (run by hand after changing the registry)."""
import json
import os
import sys
sys.path.insert(0, os.path.dirname(os.path.abspath(__file__)))
import registry

VERIF = os.path.dirname(os.path.dirname(os.path.abspath(__file__)))
props = [json.loads(l) for l in open(os.path.join(VERIF, "properties.jsonl"))]

checks = []
na = []
for p in props:
    pid = p["id"]
    if pid in registry.RUNNERS and pid in registry.LEVEL:
        lv = registry.LEVEL[pid]
        checks.append({
            "property_id": pid,
            "quick_cmd": f"./check {pid} --tier quick",
            "thorough_cmd": f"./check {pid} --tier thorough",
            "evidence_file": f"evidence/{pid}.json",
            "replay_cmd_template": f"./check {pid} --replay {{path}}",
            "engine": "lean4-proof+correspondence",
            "level_claimed": {"category": "proof", "text": lv["text"], "design_ref": lv.get("design_ref", "DESIGN.md section 6")},
            "level_note": lv["note"],
            "technique": lv["technique"],
        })
    else:
        na.append({"property_id": pid, "reason": registry.NOT_APPLICABLE.get(pid, "check not built yet (work in progress)")})

m = {
    "version": 1,
    "setup_cmd": "cd lean && lake build FlooVerif flooverif",
    "hooks": {"guard": "FLOONOC_VERIF",
              "enable": "no hooks in /repo are needed: the harness imports floogen in-process from /repo's working tree (/venv editable install) and reads hw/, Bender.yml, floo_noc.core, util/ directly",
              "baseline_off_cmd": "cd /repo && /venv/bin/python -m pytest -ra -q -p no:cacheprovider --timeout=900 --continue-on-collection-errors",
              "source_commits": [], "add_only": True},
    "engines": [{"name": "lean4-proof+correspondence", "path": "lean/ (Lean 4 model, specs, deciders, theorems) + harness/ (generators, floogen runner, tokenizer, translators)",
                 "serves_properties": [c["property_id"] for c in checks],
                 "kind_free_text": "machine-checked proof in Lean 4; model tied to /repo by regenerated facts (translator) and by differential correspondence on explored inputs"}],
    "checks": checks,
    "not_applicable": na,
    "notes": "Each check: regenerate Gen/*.lean from /repo, lake build (all theorems), #print axioms audit, then explore descriptions: real floogen output is tokenized, parsed by the Lean driver (lossless), the verified decider of the property is evaluated on it, and the Lean model of the generator is compared. See DESIGN.md.",
}
json.dump(m, open(os.path.join(VERIF, "MANIFEST.json"), "w"), indent=1)
print(len(checks), "checks;", len(na), "not applicable")

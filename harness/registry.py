"""Which runner, theorems and trusted base belong to which property."""
import netprops
import cliprops

_net = netprops.NetRunner()

RUNNERS = {pid: _net for pid in netprops.CONFIG}
RUNNERS["C10"] = cliprops.C10Runner()
RUNNERS["C15"] = cliprops.C15Runner()
import jobsprops
RUNNERS["C19"] = jobsprops.C19Runner()
import staticprops
RUNNERS["C20"] = staticprops.C20Runner()
import libprops
RUNNERS["C16"] = libprops.C16Runner()
RUNNERS["C17"] = libprops.C17Runner()
RUNNERS["C18"] = libprops.C18Runner()

# (fully qualified theorem name, module that contains it)
def _t(mod, *names):
    ns = mod.split(".")[-1]
    return [(n, "FlooVerif.Props." + mod) for n in names]

THEOREMS = {
    "C01": _t("C01Valid", "FlooVerif.C01V.model_sam_decodes_owner", "FlooVerif.C01V.compiled_ranges_valid") + _t("C08Slot", "FlooVerif.C08S.slot_2d", "FlooVerif.C08S.slot_1d") + _t("HwTieShape", "FlooVerif.HwTie.rtl_shape") + _t("HwTieWhole", "FlooVerif.HwTie.selectAll_pinned", "FlooVerif.HwTie.routerAll_pinned", "FlooVerif.HwTie.compAll_pinned") + _t("HwTiePorts", "FlooVerif.HwTie.chimneyIds_pinned") + _t("C01", "FlooVerif.C01.holds_iff_spec", "FlooVerif.C01.matching_stable") +
           _t("C01U", "FlooVerif.C01U.sam_decodes_owner", "FlooVerif.C01U.overlap_rejected", "FlooVerif.C01U.rule_origin") +
           [("FlooVerif.checkNoOverlap_iff", "FlooVerif.Lemmas.RouteMapLemmas")],
    "C02": _t("HwTieShape", "FlooVerif.HwTie.rtl_shape") + _t("HwTieWhole", "FlooVerif.HwTie.selectAll_pinned", "FlooVerif.HwTie.routerAll_pinned") + _t("C02", "FlooVerif.C02.arrives_of_potential", "FlooVerif.C02.trace_nodup", "FlooVerif.C02.walk_fuel_mono") +
           _t("C02U", "FlooVerif.C02U.tables_deliver", "FlooVerif.C02U.next_is_closer", "FlooVerif.C02U.remaining_decreases") +
           _t("C02Table", "FlooVerif.C02T.model_table_decodes", "FlooVerif.C02T.tableRule_spec", "FlooVerif.C02T.decode_of_mem") +
           _t("C02Model", "FlooVerif.C02M.model_tables_deliver", "FlooVerif.C02M.model_route_exists", "FlooVerif.C02M.createNetwork_closed", "FlooVerif.C02M.model_oracle_contract"),
    "C03": _t("C03Model", "FlooVerif.C03M.model_route_unpacks", "FlooVerif.C03M.routeLit_value", "FlooVerif.C03M.routePorts_spec", "FlooVerif.C03M.hopPort_spec", "FlooVerif.C03M.routePorts_fit", "FlooVerif.C03M.genRoutes_bits_cover", "FlooVerif.C03M.genRoutes_bits_pos") + _t("HwTieWhole", "FlooVerif.HwTie.selectAll_pinned", "FlooVerif.HwTie.routerAll_pinned", "FlooVerif.HwTie.compAll_pinned") + _t("HwTiePorts", "FlooVerif.HwTie.chimneyIds_pinned") + _t("HwTieSrc", "FlooVerif.HwTie.src_agrees", "FlooVerif.HwTie.src_is_srcPop") + _t("HwTieShape", "FlooVerif.HwTie.rtl_shape") + _t("C03", "FlooVerif.C03.pack_unpack", "FlooVerif.C03.pack_lt", "FlooVerif.C03.port_fits"),
    "C04": _t("HwTieWhole", "FlooVerif.HwTie.selectAll_pinned", "FlooVerif.HwTie.routerAll_pinned") + _t("HwTie", "FlooVerif.HwTie.xy_agrees") + _t("HwTieMask", "FlooVerif.HwTie.mask_agrees") + _t("HwTieShape", "FlooVerif.HwTie.rtl_shape") + _t("C04", "FlooVerif.C04.lockstep", "FlooVerif.C04.step_closer", "FlooVerif.C04.no_y_to_x_turn",
              "FlooVerif.C04.column_decision", "FlooVerif.C04.allowed_y_continuation", "FlooVerif.C04.dor_reaches") +
           _t("C07XY", "FlooVerif.C07U.xy_ids_fit") +
           _t("C04U", "FlooVerif.C04U.array_is_grid", "FlooVerif.C04U.wiring_agrees_with_move"),
    "C05": _t("HwTieWrap", "FlooVerif.HwTie.axiRouter_pinned", "FlooVerif.HwTie.nwRouter_pinned") + _t("C05", "FlooVerif.C05U.fillFree_paired", "FlooVerif.C05U.paired_same_neighbour") +
           _t("C05Full", "FlooVerif.C05U.routers_paired", "FlooVerif.C05U.router_paired", "FlooVerif.C05U.place_spec",
              "FlooVerif.C05U.place_keys", "FlooVerif.C05U.pairedGraph_of_B", "FlooVerif.C05U.onlyLinks_of_B") +
           _t("C05Graph", "FlooVerif.C05G.generated_routers_paired", "FlooVerif.C05G.createNetwork_inv",
              "FlooVerif.C05G.inv_createRouters", "FlooVerif.C05G.inv_createEndpoints", "FlooVerif.C05G.inv_createConnections",
              "FlooVerif.C05G.pairedGraph_of_inv", "FlooVerif.C05G.onlyLinks_of_inv", "FlooVerif.C05G.bidirectional_of_valid"),
    "C06": _t("C06", "FlooVerif.C06U.pairing_agrees", "FlooVerif.C06U.zip_replicate_eq", "FlooVerif.C06U.zip_replicate_eq'",
              "FlooVerif.C06U.getD_flatMap_replicate") +
           _t("C06Grid", "FlooVerif.C06G.spec_autolinks_in_graph") +
           _t("C06Conn", "FlooVerif.C06C.connectPairs_edges", "FlooVerif.C06C.connectPairs_links", "FlooVerif.C06C.connectPairs_only") + _t("C06Tree", "FlooVerif.C06T.tree_ext") +
           _t("C18Tree", "FlooVerif.C18T.level_selection_agrees", "FlooVerif.C18T.lvlNodes_single", "FlooVerif.C18T.prodNames_eq_cartesian") +
           _t("C18Range", "FlooVerif.C18T.range_selection_agrees", "FlooVerif.C18T.idx_selection_agrees", "FlooVerif.C18T.cartNames_eq_cartesian") +
           _t("C04U", "FlooVerif.C04U.array_is_grid"),
    "C07": _t("C07", "FlooVerif.C07U.id_eq_uid", "FlooVerif.C07U.idOf_eq", "FlooVerif.C07U.uids_dense", "FlooVerif.C07U.id_fits") +
           _t("C07XY", "FlooVerif.C07U.xy_ids_fit", "FlooVerif.C07U.coord_fits", "FlooVerif.C07U.listMin_le", "FlooVerif.C07U.listMax_ge"),
    "C08": _t("HwTiePorts", "FlooVerif.HwTie.setPorts_pinned") + _t("HwTieChimney", "FlooVerif.HwTie.axiChimney_pinned", "FlooVerif.HwTie.nwChimney_pinned") + _t("C08Slot", "FlooVerif.C08S.ni_slot", "FlooVerif.C08S.slot_2d", "FlooVerif.C08S.slot_1d", "FlooVerif.C08S.slot_single", "FlooVerif.C08S.reindex_windows", "FlooVerif.C08S.compileNi_spec") + _t("C08", "FlooVerif.C08U.portElem_depth", "FlooVerif.C08U.kept_length", "FlooVerif.C08U.portElem_single"),
    "C10": _t("C10", "FlooVerif.C10.no_output_on_error", "FlooVerif.C10.rejected_of_gen_error", "FlooVerif.C10.validate_ok",
              "FlooVerif.C10.reject_invalid_range", "FlooVerif.C10.reject_empty_range", "FlooVerif.C10.reject_contradictory_range",
              "FlooVerif.C10.reject_sbr_without_range", "FlooVerif.C10.reject_tableless_id_without_offset",
              "FlooVerif.C10.matchLists_count_mismatch", "FlooVerif.C10.matchLists_not_dividing", "FlooVerif.C10.matchLists_ok_lengths", "FlooVerif.C10.reject_duplicate_endpoint_names",
              "FlooVerif.C10.reject_duplicate_router_names", "FlooVerif.C10.reject_unidirectional",
              "FlooVerif.C10.reject_addr_width_mismatch") +
           _t("C10More", "FlooVerif.C10M.addEdge_duplicate", "FlooVerif.C10M.connectPairs_duplicate", "FlooVerif.C10M.place_taken", "FlooVerif.C10M.place_out_of_range", "FlooVerif.C10M.reindex_unbased", "FlooVerif.C10M.niRanges_array_unbased", "FlooVerif.C10M.genSam_beyond_width", "FlooVerif.C10M.genSam_overlap", "FlooVerif.C10M.compileNi_unconnected", "FlooVerif.C10M.compileNis_unconnected", "FlooVerif.C10M.dirStep_conflict", "FlooVerif.C10M.dirStep_unknown") +
           _t("C18", "FlooVerif.C18.range_error") +
           _t("C01U", "FlooVerif.C01U.overlap_rejected"),
    "C15": _t("C15", "FlooVerif.C15.out_independent_of_history", "FlooVerif.C15.mode_views", "FlooVerif.C15.full_files",
              "FlooVerif.C15.getOpt_perm"),
    "C09": _t("HwTieWhole", "FlooVerif.HwTie.selectAll_pinned", "FlooVerif.HwTie.routerAll_pinned") + _t("C09", "FlooVerif.C09.acyclic_of_rankValid", "FlooVerif.C09.acyclic_of_certOk", "FlooVerif.C09.no_rank_of_cycle") +
           [("FlooVerif.acyclic_of_rank", "FlooVerif.Lemmas.Paths")] +
           _t("C09U", "FlooVerif.C09U.tree_acyclic", "FlooVerif.C09U.rank_step", "FlooVerif.C09U.noret_of_nodup",
              "FlooVerif.C09U.turn_model_acyclic"),
    "C11": _t("C11", "FlooVerif.C11.hw_offers_bindings", "FlooVerif.C11.hw_offers_macros",
              "FlooVerif.C11.pkg_names_and_directions", "FlooVerif.C11.hwOffers_spec"),
    "C12": _t("C03Model", "FlooVerif.C03M.genRoutes_bits_pos") + _t("C17", "FlooVerif.C17.mkRange_base_nonneg") + _t("C12", "FlooVerif.C12.balanced_sound", "FlooVerif.C12.unbalanced_close", "FlooVerif.C12.lit_fits_iff") +
           _t("C12U", "FlooVerif.C12U.ep_enum_names_distinct", "FlooVerif.C12U.ep_enum_member_unique", "FlooVerif.C12U.sam_idx_names_distinct"),
    "C13": _t("C13", "FlooVerif.C13U.sam_count", "FlooVerif.C13U.cfg_num_sam_rules", "FlooVerif.C13U.router_counts") +
           _t("C13Order", "FlooVerif.C13U.sam_idx_enumerates", "FlooVerif.C13U.names_nodup_of_genSam", "FlooVerif.C13U.dict_of_nodup"),
    "C14": _t("C14", "FlooVerif.C14.lower_bound_of_potValid", "FlooVerif.C14.route_is_shortest",
              "FlooVerif.C14.not_shortest_of_shorter") + [("FlooVerif.potential_lower_bound", "FlooVerif.Lemmas.Paths")] +
           _t("C02U", "FlooVerif.C02U.route_is_minimal", "FlooVerif.C02U.tables_deliver") +
           _t("Bfs", "FlooVerif.Bfs.bfs_sound", "FlooVerif.Bfs.bfs_complete", "FlooVerif.Bfs.spContract") +
           _t("C02Model", "FlooVerif.C02M.model_route_minimal", "FlooVerif.C02M.model_oracle_contract"),
    "C16": _t("C16", "FlooVerif.C16.trim_decode_eq", "FlooVerif.C16.trim_covers_iff", "FlooVerif.C16.trim_overlap_free",
              "FlooVerif.C16.trim_sizes", "FlooVerif.C16.trim_no_touching"),
    "C17": _t("C17", "FlooVerif.C17.mkRange_wf", "FlooVerif.C17.mkRange_based", "FlooVerif.C17.setIdx_spec",
              "FlooVerif.C17.setIdx_unbased", "FlooVerif.C17.rejects_contradictory", "FlooVerif.C17.rejects_empty",
              "FlooVerif.C17.rejects_negative", "FlooVerif.C17.mkRange_base_nonneg", "FlooVerif.C17.rejects_underspecified"),
    "C18": _t("C18Tree", "FlooVerif.C18T.lvl_select_in", "FlooVerif.C18T.lvl_select_tree", "FlooVerif.C18T.level_of_tree", "FlooVerif.C18T.level_beyond", "FlooVerif.C18T.tree_nodes", "FlooVerif.C18T.tree_inTree", "FlooVerif.C18T.other_tree_excluded") +
           _t("C18", "FlooVerif.C18.not_inTree_of_next") + _t("C18Range", "FlooVerif.C18T.cartNames_eq_cartesian") + _t("C18Names", "FlooVerif.C18N.name1_inj", "FlooVerif.C18N.name2_inj", "FlooVerif.C18N.split_unique") +
           _t("C18", "FlooVerif.C18.range_product", "FlooVerif.C18.range_error", "FlooVerif.C18.range_empty",
              "FlooVerif.C18.pyRange_eq_seqIncl", "FlooVerif.C18.idx_spec", "FlooVerif.C18.lvl_spec"),
    "C19": _t("HwTieTb", "FlooVerif.HwTie.tbJobs_pinned") + _t("C19", "FlooVerif.C19.jobs_in_range", "FlooVerif.C19.base_addresses", "FlooVerif.C19.finite_ok",
              "FlooVerif.C19.access_len_le"),
    "C20": _t("C20", "FlooVerif.C20.manifests_ok", "FlooVerif.C20.closed_covers_reachable", "FlooVerif.C20.holds_spec"),
}

TRUSTED_BASE = [
    "Lean 4.33 kernel; axioms per theorem as printed by #print axioms (allowed: propext, Classical.choice, Quot.sound)",
    "compiled Lean driver (Lean compiler) evaluating the verified deciders on each explored output",
    "harness: description generators, in-process floogen runner, tokenizer harness/svtok.py",
    "Sv parser (partial def, validated per input by render(parse t) = t) and Net.ofSv extraction",
    "Hw.lean: hand-written reading of floo_route_select / floo_router / floo_*_router / floo_route_comp; "
    "common_cells addr_decode semantics (dependency not in the repository)",
]
TRUSTED_EXTRA = {}
ASSUMPTIONS = {}

_NET_NOTE = ("Trusted: Lean kernel; compiled driver; tokenizer + Sv parser (lossless check per input) + Net extraction; "
             "Hw.lean reading of the RTL (addr_decode semantics from common_cells, not in the repository). "
             "The universal claim over descriptions rests on the model-vs-implementation correspondence on explored inputs.")

def _lv(text, technique, note=_NET_NOTE):
    return {"text": text, "technique": technique, "note": note}

LEVEL = {
    "C01": _lv("Verified decider (critical-point enumeration, proved equivalent to the for-all-addresses statement) evaluated on every explored real output; generator-level theorems over the Lean model tied by correspondence.",
               "Lean 4 theorem (decider <-> spec over all addresses) + differential correspondence"),
    "C02": _lv("Walk of the hardware's table lookup over the emitted netlist decided in Lean for every communicating pair of every explored output; fuel-independence and no-revisit proved. For the Lean model of the generator and every accepted description: the emitted table of every router decodes every interface's identifier to the port towards the next node of a shortest path (C02T, Bfs), and following these next hops arrives (C02M); model tied to floogen token for token on explored inputs, Hw.lean tied to the RTL by HwTie.",
               "Lean 4 theorems on the netlist walk + verified decider on real outputs"),
    "C03": _lv("Route words decoded LSB-first over the emitted netlist in Lean for every pair of every explored output. For the Lean model of the generator: the literal written for a route, consumed hop by hop by the routers (the RTL's consumption block proved equal to Hw.srcPop), hands every router the port that carries its link to the next node of the path, nothing is left over, route_t covers every route (C03M).",
               "Lean 4 theorems (mixed-radix pack/unpack) + verified decider on real outputs"),
    "C04": _lv("Per-port frame condition checked on the emitted netlist; lock-step theorem frame => same walk as ideal grid; evaluated for every pair of every explored XY output.",
               "Lean 4 lock-step simulation theorem + verified decider on real outputs"),
    "C05": _lv("Drivers/readers of every signal and the four neighbours of every router port computed from the emitted netlist by the Lean decider on every explored output.",
               "Lean 4 decider over the emitted netlist + generator theorem on the model"),
    "C06": _lv("Link set denoted by the description (written from docs/floogen.md in Lean) compared with the emitted port attachments on every explored output. For the Lean model of the generator: its range, index and level selectors return exactly what that specification lists (C18T.*_selection_agrees), its pairing of the two selections is the specification's (C06U.pairing_agrees), and it creates exactly one link per pair (C06C).",
               "Lean 4 specification of the described topology + decider on real outputs"),
    "C07": _lv("Identities, enum names/values, widths decided on every explored output; uniqueness/density theorems over the model.",
               "Lean 4 decider + generator theorems on the model"),
    "C08": _lv("Top-level ports, element-wise chimney bindings, role enables and AXI cfg records decided on every explored output. For the Lean model of the generator: the interface at array position [x][y] owns slot x*n+y of every range and is bound to port element [x][y] with unit dimensions dropped (C08S, C08U).",
               "Lean 4 decider on real outputs + generator theorems on the model (slot of an array element)"),
    "C09": _lv("Channel-dependency graph of all emitted routes certified acyclic by a rank function checked in Lean (rank => acyclic proved for any graph); negative verdicts carry an explicit cycle.",
               "Lean 4 theorem (rank certificate => acyclic) + certified decider on real outputs"),
    "C11": _lv("Every emitted instance, macro invocation and floo_pkg name checked against facts regenerated from hw/ on every run.",
               "regenerated facts (translator) + Lean 4 decider"),
    "C12": _lv("Token-level bracket balance (verified Dyck checker), declared-once, used-is-declared, literal and field fit decided on every explored output.",
               "Lean 4 verified checkers on the emitted token stream"),
    "C13": _lv("Every emitted count compared with the separately extracted size of what it sizes on every explored output.",
               "Lean 4 decider + generator theorems on the model"),
    "C14": _lv("Hop count of every emitted route compared with a distance potential checked in Lean (potential => lower bound on every path, proved for any graph).",
               "Lean 4 theorem (potential lower bound) + certified decider on real outputs"),
}
_LIB_NOTE = ("Trusted: Lean kernel; the correspondence run (pydantic/floogen objects driven in-process, compared "
             "with the compiled Lean model on the quantifier's domain).")
LEVEL.update({
    "C10": _lv("Per-class rejection theorems over the Lean model of the validators and 'nothing is written on error' for the "
               "model of the command; the model's accept/reject decision is compared with real floogen on every injected defect, "
               "a sample goes through the real command line (exit status, directory listing).",
               "Lean 4 theorems on the validator/CLI model + fault injection correspondence",
               "Trusted: Lean kernel; fault injector; in-process runner tied to the CLI by sampled subprocess runs and by the "
               "regenerated fact that render_sources renders both texts before opening a file. Classes caught deep in the "
               "pipeline have a theorem at the component that stops (C10M: duplicated connection, port taken, array range without "
               "base, beyond the address width, unconnected endpoint, protocol in both roles); that the error of a component is the "
               "error of the whole command is the monadic composition of the model. A missing XY direction is decided by correspondence only."),
    "C15": _lv("The model of the command is a pure function of description and mode (history independence, mode projections, "
               "key-order independence proved); hash seeds, working directories and byte identity live in the Python runtime and "
               "are covered by running the real command line under those variations (partial by nature, see DESIGN.md).",
               "Lean 4 theorems on the CLI model + runtime correspondence (subprocess matrix)",
               "Trusted: Lean kernel; the subprocess matrix; copyright year masked."),
    "C16": _lv("All five clauses proved for every table of any size about the Lean model of RouteMap.trim; the model is compared "
               "with RouteMap.trim() exhaustively on the quantifier's small domain and on random wide tables.",
               "Lean 4 proof (induction over the merge loop, permutation/sortedness lemmas) + exhaustive correspondence", _LIB_NOTE),
    "C17": _lv("Proved for every specification over unbounded integers about the Lean model of AddrRange; model compared with "
               "pydantic's AddrRange on every field subset x grid and on random 64-bit values.",
               "Lean 4 proof (case analysis + linear arithmetic) + exhaustive correspondence", _LIB_NOTE),
    "C18": _lv("Proved for every graph, range list and dimension count about the Lean model of the selectors, and for the graph the tree "
               "constructor builds: level L = the product of the index ranges, whatever else the graph holds (C18T); compared with "
               "floogen's Graph selectors exhaustively on arrays/trees of the quantifier, also through RouterDesc and Network.create_connections.",
               "Lean 4 proof (induction over the range list) + exhaustive correspondence", _LIB_NOTE),
    "C19": _lv("Proved for all burst lengths/counts, tiles, patterns and random draws over the Lean model of gen_mesh_traffic, with "
               "constants, base-address expressions and example ranges regenerated from the sources each run; every job the real "
               "script writes is checked against the Sam floogen emits.",
               "Lean 4 proof over regenerated facts (translator) + job-file correspondence",
               "Trusted: Lean kernel; translator harness/translate.py (ast); float arithmetic of gen_jobs.py exact below 2^53."),
    "C20": _lv("Instance theorem over facts regenerated from Bender.yml, floo_noc.core, git ls-files, hw/ and the examples; generic "
               "theorem: a closed set containing the roots contains every needed module.",
               "Lean 4 kernel-decided instance over regenerated facts + generic closure theorem",
               "Trusted: Lean kernel; translator (module headers, instantiation scan, manifest parsing)."),
})
NOT_APPLICABLE = {}

"""Which runner, theorems and trusted base belong to which property."""
import netprops

_net = netprops.NetRunner()

RUNNERS = {pid: _net for pid in netprops.CONFIG}

# (fully qualified theorem name, module that contains it)
THEOREMS = {
}

TRUSTED_BASE = [
    "Lean 4.33 kernel; axioms per theorem as printed by #print axioms (allowed: propext, Classical.choice, Quot.sound)",
    "compiled Lean driver (Lean compiler) evaluating the verified deciders on each explored output",
    "harness: description generators, in-process floogen runner, tokenizer harness/svtok.py",
    "Sv parser (partial def, validated per input by render(parse t) = t) and Net.ofSv extraction",
    "Hw.lean: hand-written reading of floo_route_select / floo_router / floo_*_router / floo_route_comp; "
    "common_cells addr_decode semantics (dependency not in the repository)",
]
TRUSTED_EXTRA = {}
ASSUMPTIONS = {}

"""Which runner, theorems and trusted base belong to which property."""
import netprops
import cliprops

_net = netprops.NetRunner()

RUNNERS = {pid: _net for pid in netprops.CONFIG}
RUNNERS["C10"] = cliprops.C10Runner()

# (fully qualified theorem name, module that contains it)
THEOREMS = {
}

TRUSTED_BASE = [
    "Lean 4.33 kernel; axioms per theorem as printed by #print axioms (allowed: propext, Classical.choice, Quot.sound)",
    "compiled Lean driver (Lean compiler) evaluating the verified deciders on each explored output",
    "harness: description generators, in-process floogen runner, tokenizer harness/svtok.py",
    "Sv parser (partial def, validated per input by render(parse t) = t) and Net.ofSv extraction",
    "Hw.lean: hand-written reading of floo_route_select / floo_router / floo_*_router / floo_route_comp; "
    "common_cells addr_decode semantics (dependency not in the repository)",
]
TRUSTED_EXTRA = {}
ASSUMPTIONS = {}

_NET_NOTE = ("Trusted: Lean kernel; compiled driver; tokenizer + Sv parser (lossless check per input) + Net extraction; "
             "Hw.lean reading of the RTL (addr_decode semantics from common_cells, not in the repository). "
             "The universal claim over descriptions rests on the model-vs-implementation correspondence on explored inputs.")

def _lv(text, technique, note=_NET_NOTE):
    return {"text": text, "technique": technique, "note": note}

LEVEL = {
    "C01": _lv("Verified decider (critical-point enumeration, proved equivalent to the for-all-addresses statement) evaluated on every explored real output; generator-level theorems over the Lean model tied by correspondence.",
               "Lean 4 theorem (decider <-> spec over all addresses) + differential correspondence"),
    "C02": _lv("Walk of the hardware's table lookup over the emitted netlist decided in Lean for every communicating pair of every explored output; fuel-independence and no-revisit proved.",
               "Lean 4 theorems on the netlist walk + verified decider on real outputs"),
    "C03": _lv("Route words decoded LSB-first over the emitted netlist in Lean for every pair of every explored output; pack/unpack theorem for the encoder model.",
               "Lean 4 theorems (mixed-radix pack/unpack) + verified decider on real outputs"),
    "C04": _lv("Per-port frame condition checked on the emitted netlist; lock-step theorem frame => same walk as ideal grid; evaluated for every pair of every explored XY output.",
               "Lean 4 lock-step simulation theorem + verified decider on real outputs"),
    "C05": _lv("Drivers/readers of every signal and the four neighbours of every router port computed from the emitted netlist by the Lean decider on every explored output.",
               "Lean 4 decider over the emitted netlist + generator theorem on the model"),
    "C06": _lv("Link set denoted by the description (written from docs/floogen.md in Lean) compared with the emitted port attachments on every explored output.",
               "Lean 4 specification of the described topology + decider on real outputs"),
    "C07": _lv("Identities, enum names/values, widths decided on every explored output; uniqueness/density theorems over the model.",
               "Lean 4 decider + generator theorems on the model"),
    "C08": _lv("Top-level ports, element-wise chimney bindings, role enables and AXI cfg records decided on every explored output.",
               "Lean 4 decider on real outputs"),
    "C09": _lv("Channel-dependency graph of all emitted routes certified acyclic by a rank function checked in Lean (rank => acyclic proved for any graph); negative verdicts carry an explicit cycle.",
               "Lean 4 theorem (rank certificate => acyclic) + certified decider on real outputs"),
    "C11": _lv("Every emitted instance, macro invocation and floo_pkg name checked against facts regenerated from hw/ on every run.",
               "regenerated facts (translator) + Lean 4 decider"),
    "C12": _lv("Token-level bracket balance (verified Dyck checker), declared-once, used-is-declared, literal and field fit decided on every explored output.",
               "Lean 4 verified checkers on the emitted token stream"),
    "C13": _lv("Every emitted count compared with the separately extracted size of what it sizes on every explored output.",
               "Lean 4 decider + generator theorems on the model"),
    "C14": _lv("Hop count of every emitted route compared with a distance potential checked in Lean (potential => lower bound on every path, proved for any graph).",
               "Lean 4 theorem (potential lower bound) + certified decider on real outputs"),
}
NOT_APPLICABLE = {}

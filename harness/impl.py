"""Runs the real floogen (the /repo working tree, editable install in /venv) in-process."""
import io
import sys
import copy
import warnings
import contextlib
import logging

warnings.filterwarnings("ignore")
logging.disable(logging.CRITICAL)

from floogen.model.network import Network  # noqa: E402


class ImplResult:
    def __init__(self, ok, pkg=None, top=None, err_type=None, err_msg=None, network=None):
        self.ok = ok
        self.pkg = pkg
        self.top = top
        self.err_type = err_type
        self.err_msg = err_msg
        self.network = network
        self.rerender_same = True
        self.pkg2 = None
        self.top2 = None


MEM_LIMIT = 12 << 30      # address space of this process while floogen runs (it normally needs well under 1 GiB)


@contextlib.contextmanager
def memory_limit():
    """a generator that no longer terminates on a small description (tables padded without bound …) ends in a
    MemoryError here, instead of taking the whole check down with it"""
    import resource
    soft, hard = resource.getrlimit(resource.RLIMIT_AS)
    lim = MEM_LIMIT if hard == resource.RLIM_INFINITY else min(MEM_LIMIT, hard)
    try:
        resource.setrlimit(resource.RLIMIT_AS, (lim, hard))
    except (ValueError, OSError):
        pass
    try:
        yield
    finally:
        try:
            resource.setrlimit(resource.RLIMIT_AS, (soft, hard))
        except (ValueError, OSError):
            pass


def run_floogen(cfg, keep_network=False):
    """cfg: plain dict as it would come out of the YAML loader."""
    cfg = copy.deepcopy(cfg)
    try:
        with contextlib.redirect_stdout(io.StringIO()), memory_limit():
            network = Network.model_validate(cfg)
            network.create_network()
            network.compile_network()
            network.gen_routing_info()
            pkg = network.render_package()
            top = network.render_network()
            # rendering must not change the compiled network: render once more
            pkg2 = network.render_package()
            top2 = network.render_network()
    except Exception as e:  # pylint: disable=broad-except
        return ImplResult(False, err_type=type(e).__name__, err_msg=str(e)[:500])
    res = ImplResult(True, pkg=pkg, top=top, network=network if keep_network else None)
    res.rerender_same = (pkg2 == pkg and top2 == top)
    res.pkg2, res.top2 = pkg2, top2
    return res


def load_yaml(path):
    import ruamel.yaml
    yaml = ruamel.yaml.YAML(typ="safe")
    with open(path) as f:
        return yaml.load(f)

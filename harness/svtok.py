"""Strict tokenizer for the SystemVerilog subset floogen emits.

Returns (tokens, comments).  Every character of the input is either whitespace,
part of a comment, or part of exactly one token; anything else raises TokError.
Sized literals (48'h00ff, 1'b1, 3'd0) are one token with '_' kept, `'0`, `'{`, `'(`
(cast) are one token each, backtick macros are one token, string literals are one token.
"""
import re

class TokError(Exception):
    pass

_TOKEN_RE = re.compile(r"""
    (?P<ws>\s+)
  | (?P<lcom>//[^\n]*)
  | (?P<bcom>/\*.*?\*/)
  | (?P<str>"[^"\n]*")
  | (?P<macro>`[A-Za-z_][A-Za-z0-9_]*)
  | (?P<sized>[0-9]+\s*'[sS]?[bBdDhHoO][0-9a-fA-FxXzZ_?]*)
  | (?P<tick0>'[01xXzZ](?![0-9a-zA-Z_]))
  | (?P<tickbrace>'\{)
  | (?P<tickparen>'\()
  | (?P<num>[0-9][0-9_]*)
  | (?P<id>[A-Za-z_$][A-Za-z0-9_$]*)
  | (?P<scope>::)
  | (?P<op2><=|>=|==|!=|&&|\|\||<<|>>)
  | (?P<punct>[()\[\]{};,:.=\#\-+*/<>!&|~^?@%])
""", re.X | re.S)


def tokenize(text):
    pos = 0
    toks = []
    comments = []
    n = len(text)
    while pos < n:
        m = _TOKEN_RE.match(text, pos)
        if not m:
            raise TokError(f"cannot tokenize at offset {pos}: {text[pos:pos+40]!r}")
        kind = m.lastgroup
        s = m.group(0)
        if kind == "ws":
            pass
        elif kind in ("lcom", "bcom"):
            comments.append((len(toks), s))
        elif kind == "sized":
            toks.append(re.sub(r"\s+", "", s))
        else:
            toks.append(s)
        pos = m.end()
    return toks, comments

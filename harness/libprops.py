"""C16 / C17 / C18: library-level properties. The theorems are about the Lean model functions;
this runner ties the model to the implementation by running both on the quantifier's domain."""
import collections
import itertools
import json
import random
import threading
import warnings

warnings.filterwarnings("ignore")

from floogen.model.routing import RouteMap, RouteMapRule, AddrRange, SimpleId  # noqa: E402
from floogen.model.graph import Graph  # noqa: E402


def call_many(drv, objs):
    """pipelined requests (writer thread avoids pipe deadlock)"""
    out = []

    def writer():
        for o in objs:
            drv.p.stdin.write(json.dumps(o) + "\n")
        drv.p.stdin.flush()
    t = threading.Thread(target=writer)
    t.start()
    for _ in objs:
        line = drv.p.stdout.readline()
        if not line:
            raise RuntimeError("lean driver died")
        out.append(json.loads(line))
    t.join()
    return out


# ------------------------------------------------------------------ C16

def mk_range(s, e, form, label=None):
    """the same range [s, e) written in the different accepted forms (and with or without a `desc` label)"""
    size = e - s
    kw = {} if label is None else {"desc": label}
    if form == 1:
        return AddrRange(start=s, size=size, **kw)
    if form == 2:
        return AddrRange(base=s, size=size, **kw)
    if form == 3 and s % size == 0:
        return AddrRange(base=0, size=size, idx=s // size, **kw)        # array window
    if form == 4:
        return AddrRange(start=s, end=e, size=size, **kw)
    return AddrRange(start=s, end=e, **kw)


# ports 0..3 written as identifiers / coordinates whose Python hashes coincide pairwise (hash(2^61-1) = hash(0),
# hash(-1) = hash(-2)): compaction groups rules by port in a dictionary
BIG_IDS = [0, (1 << 61) - 1, 1, (1 << 61)]
NEG_XS = [-1, -2, 0, 1]
LABELS = [None, "spm", "regs"]


def impl_trim(rules, forms=None, mode=0):
    """mode 0: plain ports; 1: ports as coordinates that differ in `port_id` only; 2: the table is built from the
    first half of the rules and the rest is appended before `trim()` is called; 3: ports as identifiers with
    coinciding hashes, ranges labelled; 4: ports as coordinates with coinciding hashes"""
    from floogen.model.routing import Coord

    def dest(d):
        if mode == 1:
            return Coord(x=1, y=0, port_id=d)
        if mode == 3 and d < len(BIG_IDS):
            return SimpleId(id=BIG_IDS[d])
        if mode == 4 and d < len(NEG_XS):
            return Coord(x=NEG_XS[d], y=0)
        return SimpleId(id=d)

    def back(o):
        if mode == 1:
            return o.port_id
        if mode == 3 and o.id in BIG_IDS:
            return BIG_IDS.index(o.id)
        if mode == 4 and isinstance(o, Coord):
            return NEG_XS.index(o.x)
        return o.id
    forms = forms or [0] * len(rules)
    mk = [RouteMapRule(dest=dest(d), addr_range=mk_range(s, e, forms[k], LABELS[(forms[k] + k) % 3] if mode == 3 else None))
          for k, (d, s, e) in enumerate(rules)]
    if mode == 2 and len(mk) >= 2:
        rm = RouteMap(name="t", rules=mk[:len(mk) // 2])
        rm.rules.extend(mk[len(mk) // 2:])
    else:
        rm = RouteMap(name="t", rules=mk)
    rm.trim()
    return [[back(r.dest), r.addr_range.start, r.addr_range.end, r.addr_range.size] for r in rm.rules]


def decode(rules, i):
    hits = [r[0] for r in rules if r[1] <= i < r[2]]
    return hits


def tables(max_rules, dom, ports):
    """all overlap-free tables (sets of disjoint intervals with ports) in every order"""
    ivs = [(s, e) for s in range(dom) for e in range(s + 1, dom + 1)]

    def rec(start, k):
        yield []
        if k == 0:
            return
        for (s, e) in ivs:
            if s >= start:
                for rest in rec(e, k - 1):
                    yield [(s, e)] + rest
    for combo in rec(0, max_rules):
        if not combo:
            continue
        for ps in itertools.product(range(ports), repeat=len(combo)):
            rules = [(p, s, e) for p, (s, e) in zip(ps, combo)]
            for perm in itertools.permutations(rules):
                yield list(perm)


class C16Runner:
    def explore(self, pid, tier, seed, rep, search_mode=False):
        import lean
        drv = lean.Driver()
        rng = random.Random(repr((seed, pid)))
        cases = []
        if tier == "thorough":
            gen = itertools.chain(tables(3, 9, 4), (t for t in tables(4, 7, 3)))
            exhaustive_desc = "all overlap-free tables with <=3 rules over 0..8 x ports 0..3 and <=4 rules over 0..6 x ports 0..2, every order"
            cap = 400000
        else:
            gen = tables(3, 6, 3)
            exhaustive_desc = "all overlap-free tables with <=3 rules over 0..5 x ports 0..2, every order"
            cap = 60000
        for t in itertools.islice(gen, cap):
            cases.append(t)
        # 5-rule tables over 0..8 / ports 0..3 (sampled) and random wide tables
        nrand = 20000 if tier == "thorough" else 2000
        for _ in range(nrand):
            k = rng.randint(1, 5 if rng.random() < 0.5 else 8)
            wide = rng.random() < 0.5
            hi = 1 << 40 if wide else 9
            pts = sorted(rng.sample(range(hi + 1), min(2 * k, hi + 1) // 2 * 2))
            ivs = [(pts[2 * i], pts[2 * i + 1]) for i in range(len(pts) // 2)]
            # make some touch
            if rng.random() < 0.6:
                ivs = [(s, e) if j == 0 or rng.random() < 0.5 else (ivs[j - 1][1], e) for j, (s, e) in enumerate(ivs)]
                ivs = [(s, e) for s, e in ivs if s < e]
            rules = [(rng.randrange(4), s, e) for s, e in ivs]
            rng.shuffle(rules)
            if rules:
                cases.append(rules)
        stats = collections.Counter()
        distinct = set()
        samples = []
        bad = None
        CH = 5000
        for off in range(0, len(cases), CH):
            chunk = cases[off:off + CH]
            res = call_many(drv, [{"cmd": "trim", "rules": [list(r) for r in c]} for c in chunk])
            for c, r in zip(chunk, res):
                if "error" in r:
                    raise RuntimeError(r["error"])
                stats["evaluated"] += 1
                distinct.add(tuple(c))
                forms = [(stats["evaluated"] + 7 * k) % 5 for k in range(len(c))]
                mode = stats["evaluated"] % 5
                try:
                    it = impl_trim(c, forms, mode=mode)
                except Exception as e:  # pylint: disable=broad-except
                    it = [["trim raised " + type(e).__name__, 0, 0, 0]]
                # the property, decided on the implementation's result
                pts = sorted({x for _, s, e in c for x in (s - 1, s, e - 1, e)})
                ok = all(sorted(decode(c, i)) == sorted(decode(it, i)) for i in pts)
                srt = sorted(it, key=lambda x: x[1])
                ok = ok and all(a[2] <= b[1] for a, b in zip(srt, srt[1:]))
                ok = ok and all(x[3] == x[2] - x[1] for x in it)
                ok = ok and not any(a[0] == b[0] and a[2] == b[1] for a in it for b in it)
                if not ok and bad is None:
                    bad = c
                    f = {"claim": "trim-changes-decoding", "site": str(c), "detail": f"trim -> {it}"}
                    rep.finding(f, {"property": pid, "finding": f, "rules": c, "forms": forms, "mode": mode})
                if r["trim"] != it or not r["noOverlap"]:
                    stats["model-mismatch"] += 1
                    if len(samples) < 8:
                        samples.append({"rules": c, "model": r["trim"], "impl": it, "mismatch": True})
                elif len(samples) < 2:
                    samples.append({"rules": c, "trim": it})
        drv.close()
        if stats["model-mismatch"] and not rep.violations:
            rep.unproven({"correspondence": "Lean `trim` and RouteMap.trim() disagree"},
                         {"property": pid, "examples": [s for s in samples if s.get("mismatch")][:3]})
        return {"evaluations": stats["evaluated"], "distinct_nontrivial": len([d for d in distinct if len(d) >= 2]),
                "rule": exhaustive_desc + " + random tables (up to 8 rules, domains up to 2^40, touching ranges forced); "
                        "non-trivial = at least two rules", "samples": samples[:4], "exhaustive": False,
                "traces_validated_against_impl": stats["evaluated"], "disagreements_checked": stats["model-mismatch"],
                "status_counts": dict(stats)}

    def replay(self, pid, payload, rep):
        c = [tuple(x) for x in payload["rules"]]
        try:
            it = impl_trim(c, payload.get("forms"), mode=payload.get("mode", 0))
        except Exception as e:  # pylint: disable=broad-except
            it = [["trim raised " + type(e).__name__, 0, 0, 0]]
        print("trim ->", it)
        pts = sorted({x for _, s, e in c for x in (s - 1, s, e - 1, e)})
        srt = sorted(it, key=lambda x: x[1])
        ok = all(sorted(decode(c, i)) == sorted(decode(it, i)) for i in pts) and \
            all(a[2] <= b[1] for a, b in zip(srt, srt[1:])) and all(x[3] == x[2] - x[1] for x in it) and \
            not any(a[0] == b[0] and a[2] == b[1] for a in it for b in it)
        if not ok:
            rep.finding(payload["finding"], payload)
        return rep.exit_code()


# ------------------------------------------------------------------ C17

KEYS = ["start", "end", "size", "base", "idx"]


def impl_range(spec, k=None):
    try:
        r = AddrRange(**spec)
    except Exception as e:  # pylint: disable=broad-except
        return {"err": type(e).__name__}, None
    res = {"ok": [r.start, r.end, r.size, r.base, r.idx]}
    si = None
    if k is not None:
        try:
            r2 = r.model_copy().set_idx(k)
            si = {"ok": [r2.start, r2.end, r2.size, r2.base, r2.idx]}
        except Exception as e:  # pylint: disable=broad-except
            si = {"err": type(e).__name__}
    return res, si


def impl_range_in_endpoint(spec, array):
    """the same specification as the address range of an endpoint description (single, or an array): what the
    description then carries, or None if the endpoint description is refused"""
    from floogen.model.endpoint import EndpointDesc
    kw = {"array": [array]} if array else {}
    try:
        e = EndpointDesc(name="e", addr_range=dict(spec), sbr_port_protocol=["p"], **kw)
    except Exception:  # pylint: disable=broad-except
        return None
    if len(e.addr_range) != 1:
        return None
    r = e.addr_range[0]
    return [r.start, r.end, r.size, r.base, r.idx]


def impl_ranges_in_endpoint(specs):
    """several specifications as the ranges of one (single) endpoint description: what it then carries"""
    from floogen.model.endpoint import EndpointDesc
    try:
        e = EndpointDesc(name="e", addr_range=[dict(x) for x in specs], sbr_port_protocol=["p"])
    except Exception:  # pylint: disable=broad-except
        return None
    return [[r.start, r.end, r.size, r.base, r.idx] for r in e.addr_range]


def impl_ranges_via_network(specs, n):
    """the ranges the n elements of a subordinate array end up with in a compiled network (None if refused)"""
    from floogen.model.network import Network
    aw = 64
    prot = [{"name": nm, "protocol": "AXI4", "data_width": 64, "addr_width": aw, "id_width": 3, "user_width": 1}
            for nm in ("axi_in", "axi_out")]
    cfg = {"name": "t", "description": "", "network_type": "axi", "routing": {"route_algo": "ID", "use_id_table": True},
           "protocols": prot,
           "endpoints": [{"name": "tile", "array": [n], "addr_range": [dict(x) for x in specs], "sbr_port_protocol": ["axi_out"]},
                         {"name": "host", "mgr_port_protocol": ["axi_in"]}],
           "routers": [{"name": "xbar"}],
           "connections": [{"src": "tile", "dst": "xbar", "src_range": [[0, n - 1]], "allow_multi": True},
                           {"src": "host", "dst": "xbar"}]}
    try:
        net = Network.model_validate(cfg)
        net.create_network()
        net.compile_network()
    except Exception:  # pylint: disable=broad-except
        return None
    out = {}
    for _, ni in net.graph.get_ni_nodes(with_name=True):
        if ni.endpoint.name == "tile" and ni.arr_idx is not None:
            key = ni.arr_idx.id if hasattr(ni.arr_idx, "id") else ni.arr_idx.x
            out[key] = [[r.start, r.end, r.size] for r in ni.addr_range]
    return out


def impl_range_from_yaml(spec, style):
    """the specification written as YAML with its numbers in another spelling, read by the loader floogen uses
    (ruamel round-trip: hex, octal, binary and underscore numbers arrive as subclasses of int)"""
    import io
    import ruamel.yaml

    def spell(v):
        if v < 0:
            return str(v)
        return {0: hex(v), 1: "0o%o" % v, 2: bin(v), 3: ("%d" % v if v < 1000 else "%d_%03d" % (v // 1000, v % 1000))}[style]
    txt = "\n".join(f"{k}: {spell(v)}" for k, v in spec.items()) + "\n"
    loaded = ruamel.yaml.YAML(typ="rt").load(io.StringIO(txt))
    try:
        r = AddrRange(**dict(loaded))
    except Exception as e:  # pylint: disable=broad-except
        return {"err": type(e).__name__}
    return {"ok": [r.start, r.end, r.size, r.base, r.idx]}


def impl_rule_literals(spec, aw):
    """[width, start, width, end] as written into the literals of a rule over this range (None if it cannot be read)"""
    import re
    try:
        txt = RouteMapRule(dest=SimpleId(id=0), addr_range=AddrRange(**spec)).render(aw=aw)
    except Exception:  # pylint: disable=broad-except
        return None
    m = re.search(r"start_addr:\s*(\d+)'h([0-9a-fA-F_]+),\s*end_addr:\s*(\d+)'h([0-9a-fA-F_]+)", txt)
    if not m:
        return None
    return [int(m.group(1)), int(m.group(2).replace("_", ""), 16), int(m.group(3)), int(m.group(4).replace("_", ""), 16)]


def range_holds(spec, k, ir, isi):
    """C17 on one accepted construction (`ir`) and its re-indexing to k (`isi`)"""
    st, en, sz, ba, ix = ir["ok"]
    good = 0 <= st < en and en - st == sz
    if "base" in spec and "size" in spec:
        good = good and st == spec["base"] + spec.get("idx", 0) * spec["size"]
    if isi is not None:
        # "based" is what the specification says, not what the object ended up carrying
        sb = spec.get("base")
        if sb is not None:
            good = good and ba == sb and "ok" in isi and isi["ok"][0] == sb + k * sz and \
                isi["ok"][1] == sb + (k + 1) * sz and isi["ok"][2] == sz
        else:
            good = good and ba is None and "err" in isi
    return good


class C17Runner:
    def explore(self, pid, tier, seed, rep, search_mode=False):
        import lean
        drv = lean.Driver()
        rng = random.Random(repr((seed, pid)))
        grid = [-2, -1, 0, 1, 2, 3, 5, 8] if tier == "thorough" else [-1, 0, 1, 2, 5]
        ks = list(range(0, 9)) if tier == "thorough" else [0, 1, 3]
        cases = []
        for n in range(0, 6):
            for keys in itertools.combinations(KEYS, n):
                for vals in itertools.product(grid, repeat=n):
                    spec = dict(zip(keys, vals))
                    cases.append((spec, ks[len(cases) % len(ks)]))
        nexh = len(cases)
        for _ in range(20000 if tier == "thorough" else 3000):
            keys = rng.sample(KEYS, rng.randint(1, 5))
            spec = {}
            for kx in keys:
                spec[kx] = rng.choice([rng.getrandbits(64), rng.getrandbits(20), rng.randrange(0, 10), -rng.getrandbits(10)])
            if "start" in spec and "end" in spec and rng.random() < 0.5:
                spec["end"] = spec["start"] + rng.getrandbits(30)
                if "size" in spec and rng.random() < 0.7:
                    spec["size"] = spec["end"] - spec["start"]
            cases.append((spec, rng.randrange(0, 9)))
        stats = collections.Counter()
        samples = []
        mism = []
        CH = 5000
        for off in range(0, len(cases), CH):
            chunk = cases[off:off + CH]
            res = call_many(drv, [{"cmd": "range", "spec": s, "setidx": k} for s, k in chunk])
            for (spec, k), r in zip(chunk, res):
                if "error" in r:
                    raise RuntimeError(r["error"] + str(spec))
                stats["evaluated"] += 1
                ir, isi = impl_range(spec, k)
                # the property on the implementation's result
                if "ok" in ir:
                    good = range_holds(spec, k, ir, isi)
                    stats["accepted"] += 1
                    if not good and not rep.violations:
                        f = {"claim": "range-ill-formed", "site": json.dumps(spec), "detail": f"{ir} set_idx({k}) -> {isi}"}
                        rep.finding(f, {"property": pid, "finding": f, "spec": spec, "k": k})
                    # the same specification written as the range of an endpoint (every other one as an array)
                    via = impl_range_in_endpoint(spec, 3 if stats["accepted"] % 2 else None)
                    if via is None:
                        stats["endpoint-refuses"] += 1
                    else:
                        stats["via-endpoint"] += 1
                        if via != ir["ok"] and not rep.violations:
                            f = {"claim": "range-changed-in-endpoint", "site": json.dumps(spec),
                                 "detail": f"AddrRange gives {ir['ok']}, as the range of an endpoint description it is {via}"}
                            rep.finding(f, {"property": pid, "finding": f, "spec": spec, "k": k,
                                            "array": 3 if stats["accepted"] % 2 else None})
                    # the same numbers as the YAML loader delivers them when they are not written in plain decimal
                    if spec and all(isinstance(v, int) for v in spec.values()):
                        viay = impl_range_from_yaml(spec, stats["accepted"] % 4)
                        stats["via-yaml"] += 1
                        if viay.get("ok") != ir["ok"] and not rep.violations:
                            f = {"claim": "range-changed-by-spelling", "site": json.dumps(spec),
                                 "detail": f"AddrRange gives {ir['ok']}; with the numbers spelled in hex / octal / binary / with "
                                           f"underscores and read by the YAML loader: {viay}"}
                            rep.finding(f, {"property": pid, "finding": f, "spec": spec, "k": k, "yaml_style": stats["accepted"] % 4})
                    # … and next to a second window that starts where this one ends (two ranges stay two ranges)
                    if stats["accepted"] % 3 == 0:
                        nxt = {"start": ir["ok"][1], "size": 1 + stats["accepted"] % 7}
                        inx, _ = impl_range(nxt)
                        if "ok" in inx:
                            order = [spec, nxt] if stats["accepted"] % 2 else [nxt, spec]
                            both = impl_ranges_in_endpoint(order)
                            wantb = [ir["ok"], inx["ok"]] if order[0] is spec else [inx["ok"], ir["ok"]]
                            if both is not None:
                                stats["via-endpoint-pairs"] += 1
                                if both != wantb and not rep.violations:
                                    f = {"claim": "range-changed-in-endpoint", "site": json.dumps(order),
                                         "detail": f"as the two ranges of one endpoint description: {both}, each on its own: {wantb}"}
                                    rep.finding(f, {"property": pid, "finding": f, "spec": spec, "k": k, "pair": order})
                else:
                    stats["rejected"] += 1
                mr = r["range"]
                same = ("ok" in mr) == ("ok" in ir) and (("ok" not in mr) or mr["ok"] == ir["ok"])
                if same and "ok" in mr and r["setidx"] is not None and isi is not None:
                    ms = r["setidx"]
                    same = ("ok" in ms) == ("ok" in isi) and (("ok" not in ms) or ms["ok"] == isi["ok"])
                if not same:
                    stats["model-mismatch"] += 1
                    if len(mism) < 3:
                        mism.append({"spec": spec, "k": k, "model": r, "impl": [ir, isi]})
                elif len(samples) < 3 and "ok" in ir:
                    samples.append({"spec": spec, "range": ir["ok"], "set_idx": [k, isi]})
        drv.close()
        # re-indexing as the generator does it: element k of an array with several based ranges of different sizes
        # gets [base + k*size, base + (k+1)*size) of each
        for t in range(60 if tier == "thorough" else 16):
            n = rng.randint(2, 5) if t % 4 else 1          # one-element arrays are arrays too
            sizes = [rng.choice([0x10, 0x40, 0x100, 0x1000, 0x3000, 7]) for _ in range(rng.randint(2, 3))]
            specs, at = [], rng.choice([0, 0x1000, 0x8000_0000])
            for sz in sizes:
                sp = {"base": at, "size": sz}
                style = rng.randrange(4)
                if style == 1:
                    sp["idx"] = rng.randint(1, 3)          # an index written on an array's range: element k still takes slot k
                elif style == 2:
                    sp.update(start=at + 2 * sz, end=at + 3 * sz)      # written as the window of element 2 of its base
                specs.append(sp)
                at += max(n, 4) * sz + rng.choice([0, 0x100])
            rng.shuffle(specs)
            got = impl_ranges_via_network(specs, n)
            if got is None:
                stats["network-refuses"] += 1
                continue
            stats["via-network"] += 1
            want = {k: [[sp["base"] + k * sp["size"], sp["base"] + (k + 1) * sp["size"], sp["size"]] for sp in specs] for k in range(n)}
            if got != want and not rep.violations:
                f = {"claim": "reindex-in-network", "site": json.dumps(specs),
                     "detail": f"elements of a [{n}] array get {got}, expected {want}"}
                rep.finding(f, {"property": pid, "finding": f, "spec": specs[0], "k": 0, "network_specs": specs, "n": n})
        # a range without base cannot be the range of an array, not even of a one-element one
        for n in (1, 1, 2):
            st = rng.choice([0x1000, 0x8000_0000])
            got = impl_ranges_via_network([{"start": st, "end": st + 0x100}], n)
            stats["unbased-array"] += 1
            if got is not None and not rep.violations:
                f = {"claim": "unbased-array-accepted", "site": f"array [{n}] with a start/end range",
                     "detail": f"re-indexing a range without base is an error; the elements got {got}"}
                rep.finding(f, {"property": pid, "finding": f, "spec": {"start": st, "end": st + 0x100}, "k": 0,
                                "unbased_array": n})
        # what is written down for a range: the literals of a rule carry start and end (an end at the very top as 0)
        for t in range(400 if tier == "thorough" else 60):
            aw = rng.choice([16, 32, 33, 34, 35, 42, 48, 64, rng.randint(17, 64)])
            sz = rng.choice([1, 0x40, 0x1000, 1 << rng.randint(0, aw - 1)])
            st = rng.choice([0, (1 << aw) - sz, rng.randrange(0, (1 << aw) - sz + 1)])
            lit = impl_rule_literals({"start": st, "end": st + sz}, aw)
            stats["rendered"] += 1
            want = [aw, st, aw, (st + sz) % (1 << aw)]
            if lit != want and not rep.violations:
                f = {"claim": "range-rendering", "site": f"[{st:#x}, {st + sz:#x}) at address width {aw}",
                     "detail": f"rule literals carry (width, start, width, end) = {lit}, expected {want}"}
                rep.finding(f, {"property": pid, "finding": f, "spec": {"start": st, "end": st + sz}, "k": 0, "render_aw": aw})
        if mism and not rep.violations:
            rep.unproven({"correspondence": "Lean mkRange/setIdx and AddrRange disagree"}, {"property": pid, "examples": mism})
        return {"evaluations": stats["evaluated"], "distinct_nontrivial": stats["accepted"],
                "rule": f"every subset of {{start,end,size,base,idx}} x grid {grid} (exhaustive: {nexh} constructions), each with a "
                        "re-index k, + random specifications up to 64 bits; every accepted one also as the range of an EndpointDesc "
                        "(single / array, alone / next to a touching second range); re-indexing through a compiled network (arrays "
                        "of 1..5 elements, several based ranges of different sizes, written indices); literals of a rule read back "
                        "at widths 16..64; non-trivial = accepted by pydantic",
                "samples": samples, "exhaustive": True, "traces_validated_against_impl": stats["evaluated"],
                "disagreements_checked": stats["model-mismatch"], "status_counts": dict(stats)}

    def replay(self, pid, payload, rep):
        print(impl_range(payload["spec"], payload.get("k")))
        ir, isi = impl_range(payload["spec"], payload.get("k"))
        if "ok" in ir and not range_holds(payload["spec"], payload.get("k"), ir, isi):
            rep.finding(payload["finding"], payload)
        elif payload.get("yaml_style") is not None and "ok" in ir:
            viay = impl_range_from_yaml(payload["spec"], payload["yaml_style"])
            print("through the YAML loader:", viay)
            if viay.get("ok") != ir["ok"]:
                rep.finding(payload["finding"], payload)
        elif payload.get("render_aw"):
            lit = impl_rule_literals(payload["spec"], payload["render_aw"])
            aw, st, en = payload["render_aw"], payload["spec"]["start"], payload["spec"]["end"]
            print("literals:", lit)
            if lit != [aw, st, aw, en % (1 << aw)]:
                rep.finding(payload["finding"], payload)
        elif payload.get("unbased_array"):
            got = impl_ranges_via_network([payload["spec"]], payload["unbased_array"])
            print("elements get", got)
            if got is not None:
                rep.finding(payload["finding"], payload)
        elif payload.get("network_specs"):
            specs, n = payload["network_specs"], payload["n"]
            got = impl_ranges_via_network(specs, n)
            want = {k: [[sp["base"] + k * sp["size"], sp["base"] + (k + 1) * sp["size"], sp["size"]] for sp in specs] for k in range(n)}
            print("elements get", got)
            if got is not None and got != want:
                rep.finding(payload["finding"], payload)
        elif "ok" in ir and payload.get("pair"):
            both = impl_ranges_in_endpoint(payload["pair"])
            each = [impl_range(x)[0].get("ok") for x in payload["pair"]]
            print("as two ranges of one endpoint:", both, "each on its own:", each)
            if both is not None and both != each:
                rep.finding(payload["finding"], payload)
        elif "ok" in ir and payload.get("finding", {}).get("claim") == "range-changed-in-endpoint":
            via = impl_range_in_endpoint(payload["spec"], payload.get("array"))
            print("in an endpoint description:", via)
            if via is not None and via != ir["ok"]:
                rep.finding(payload["finding"], payload)
        return rep.exit_code()


# ------------------------------------------------------------------ C18

def impl_select(kind, dims, sel, arg, nm="r"):
    g = Graph()
    # other inhabitants of the graph that a selection by name must not pick up
    g.add_nodes_as_tree("q", [1, 2], "router", "link", connect=True)
    g.add_nodes_as_array("zz", (2, 2), "router", edge_type="link", connect=False)
    if kind in ("tree", "tree-scalar"):
        # through the router description, as create_routers does (`tree: n` is the shorthand of `tree: [n]`)
        from floogen.model.router import RouterDesc
        rd = RouterDesc(name=nm, tree=dims[0] if kind == "tree-scalar" else list(dims))
        g.add_nodes_as_tree(parent=nm, tree=rd.tree, node_type="router", edge_type="link", node_obj=rd,
                            connect=rd.auto_connect)
    else:
        g.add_nodes_as_array(nm, tuple(dims), "router", edge_type="link", connect=False)
    g.add_nodes_as_tree("w", [2], "router", "link", connect=True)
    # … and inhabitants whose names start with the same characters: a second tree `<nm>2`, a unit `<nm>_cfg`
    g.add_nodes_as_tree(nm + "2", [2, 2], "router", "link", connect=True)
    g.add_node(nm + "_cfg", type="endpoint")
    if kind in ("tree", "tree-scalar") and dims[0] == 1:
        # … and, next to a single-rooted tree, a second tree called `<nm>_1`
        g.add_nodes_as_tree(nm + "_1", [2, 2], "router", "link", connect=True)
    try:
        if sel == "range":
            return {"nodes": g.get_nodes_from_range(nm, [tuple(p) for p in arg])}
        if sel == "idx":
            return {"nodes": g.get_nodes_from_idx(nm, arg)}
        return {"nodes": g.get_nodes_from_lvl(nm, arg)}
    except Exception as e:  # pylint: disable=broad-except
        return {"err": type(e).__name__}


NAMES = ["r", "l2_rt"]


def expected_range(dims, rng, nm="r"):
    """the specification: cartesian product, first dimension outermost; None if a node is missing"""
    seqs = []
    for (a, b) in rng:
        step = 1 if b >= a else -1
        seqs.append(list(range(a, b + step, step)))
    out = []
    for t in itertools.product(*seqs):
        if len(t) != len(dims) or any(not (0 <= i < d) for i, d in zip(t, dims)):
            return None
        out.append(nm + "_" + "_".join(str(i) for i in t))
    return out


def impl_level_via_network(tree, lvl, nm="r", flip=False, auto=True):
    """the routers a connection by tree level attaches an endpoint array to, element by element, as
    `Network.create_connections` resolves it (an error if the description is refused)"""
    from floogen.model.network import Network
    cnt = 1
    for x in tree[:lvl + 1]:
        cnt *= x
    if lvl >= len(tree):
        cnt = 2
    prot = [{"name": n2, "protocol": "AXI4", "data_width": 64, "addr_width": 32, "id_width": 3, "user_width": 1}
            for n2 in ("axi_in", "axi_out")]
    con = {"src": "ep", "src_range": [[0, cnt - 1]], "dst": nm, "dst_lvl": lvl}
    if flip:
        con = {"src": nm, "src_lvl": lvl, "dst": "ep", "dst_range": [[0, cnt - 1]]}
    cfg = {"name": "t", "description": "", "network_type": "axi", "routing": {"route_algo": "ID", "use_id_table": True},
           "protocols": prot,
           "endpoints": [{"name": "ep", "array": [cnt], "addr_range": {"base": 0x1000, "size": 0x100},
                          "mgr_port_protocol": ["axi_in"], "sbr_port_protocol": ["axi_out"]}],
           "routers": [{"name": nm + "_1", "tree": [2, 2]}] * (1 if tree[0] == 1 else 0) +
                      [dict({"name": nm, "tree": list(tree)}, **({} if auto else {"auto_connect": False})),
                       {"name": nm + "2", "tree": [2]}],
           "connections": [con]}
    try:
        net = Network.model_validate(cfg)
        net.create_network()
    except Exception as e:  # pylint: disable=broad-except
        return {"err": type(e).__name__}
    out = []
    for k in range(cnt):
        nbrs = [v for _, v in net.graph.out_edges(f"ep_ni_{k}") if net.graph.nodes[v].get("type") == "router"]
        out.append(nbrs[0] if len(nbrs) == 1 else nbrs)
    return {"nodes": out}


def impl_idx_via_network(target, idx, flip=False):
    """an index selection as a connection uses it: the node `host` ends up attached to, or an error.
    target: ("single",) a plain router `r`; ("array", m, n) a router array; ("tree", dims) a router tree;
    ("eparr", n) a 1-D endpoint array `ep` that `r` is connected to by index"""
    from floogen.model.network import Network
    prot = [{"name": n2, "protocol": "AXI4", "data_width": 64, "addr_width": 32, "id_width": 3, "user_width": 1}
            for n2 in ("axi_in", "axi_out")]
    host = {"name": "host", "addr_range": {"base": 0x1000, "size": 0x100}, "mgr_port_protocol": ["axi_in"], "sbr_port_protocol": ["axi_out"]}
    eps, conns = [host], []
    if target[0] == "single":
        routers = [{"name": "r"}]
        con = {"src": "host", "dst": "r", "dst_idx": idx}
    elif target[0] == "array":
        routers = [{"name": "r", "array": [target[1], target[2]]}]
        con = {"src": "host", "dst": "r", "dst_idx": idx}
    elif target[0] == "tree":
        routers = [{"name": "r", "tree": list(target[1])}]
        con = {"src": "host", "dst": "r", "dst_idx": idx}
    else:
        routers = [{"name": "r"}]
        eps.append({"name": "ep", "array": [target[1]], "addr_range": {"base": 0x8000, "size": 0x100},
                    "mgr_port_protocol": ["axi_in"], "sbr_port_protocol": ["axi_out"]})
        conns.append({"src": "host", "dst": "r"})
        con = {"src": "ep", "src_idx": idx, "dst": "r"}
    if flip:
        swap = {"src": "dst", "dst": "src", "src_idx": "dst_idx", "dst_idx": "src_idx"}
        con = {swap.get(k, k): v for k, v in con.items()}
    cfg = {"name": "t", "description": "", "network_type": "axi", "routing": {"route_algo": "ID", "use_id_table": True},
           "protocols": prot, "endpoints": eps, "routers": routers, "connections": conns + [con]}
    try:
        net = Network.model_validate(cfg)
        net.create_network()
    except Exception as e:  # pylint: disable=broad-except
        return {"err": type(e).__name__}
    who = "ep_ni_" if target[0] == "eparr" else "host_ni"
    if target[0] == "eparr":
        return {"nodes": sorted(u for u, v in net.graph.in_edges("r") if u.startswith(who))}
    return {"nodes": [v for _, v in net.graph.out_edges(who) if net.graph.nodes[v].get("type") == "router"]}


def select_good(dims, sel, arg, nm, ir, kind="array"):
    """C18 on one selection and what the implementation returned for it"""
    if sel == "range" and kind.startswith("tree"):
        # the routers of a tree carry one index per level down to their own: a range with k dimensions addresses level k-1
        exp = expected_range(dims[:len(arg)], arg, nm) if len(arg) <= len(dims) else None
        return (exp is None and "err" in ir) or (exp is not None and ir.get("nodes") == exp)
    if sel == "range":
        exp = expected_range(dims, arg, nm)
        return (exp is None and "err" in ir) or (exp is not None and ir.get("nodes") == exp)
    if sel == "idx":
        inb = len(arg) == len(dims) and all(0 <= i < d for i, d in zip(arg, dims))
        return (inb and ir.get("nodes") == [nm + "_" + "_".join(map(str, arg))]) or (not inb and "err" in ir)
    lvl = arg
    exp = [nm + "_" + "_".join(map(str, t)) for t in itertools.product(*[range(x) for x in dims[:lvl + 1]])] \
        if lvl < len(dims) else []
    return ir.get("nodes") == exp


class C18Runner:
    def explore(self, pid, tier, seed, rep, search_mode=False):
        import lean
        drv = lean.Driver()
        lim = 5 if tier == "thorough" else 3
        cases = []
        for m in range(1, lim + 1):
            bounds = range(-1, m + 1)
            for a in bounds:
                for b in bounds:
                    cases.append(("array", [m], "range", [[a, b]]))
            for i in range(-1, m + 1):
                cases.append(("array", [m], "idx", [i]))
            for n in range(1, lim + 1):
                b2 = range(-1, n + 1)
                pairs2 = [(c, d) for c in b2 for d in b2]
                for a in bounds:
                    for b in bounds:
                        for (c, d) in (pairs2 if tier == "thorough" or (m <= 2 and n <= 3) else pairs2[::3]):
                            cases.append(("array", [m, n], "range", [[a, b], [c, d]]))
                for i in range(-1, m + 1):
                    for j in range(-1, n + 1):
                        cases.append(("array", [m, n], "idx", [i, j]))
        trees = [[a] for a in range(1, 4)] + [[a, b] for a in range(1, 4) for b in range(1, 4)] + \
                [[a, b, c] for a in range(1, 4) for b in range(1, 4) for c in range(1, 4)]
        # range selections on the routers of a tree: one dimension per level, also fewer than the depth
        for t in ([1, 2, 2], [2, 2, 2], [1, 3, 2], [2, 3]):
            for depth in range(1, len(t) + 1):
                lo = [[0, x - 1] for x in t[:depth]]
                variants = [lo, [[x - 1, 0] for x in t[:depth]], [[0, 0]] * (depth - 1) + [[0, t[depth - 1] - 1]],
                            [[0, x - 1] for x in t[:depth - 1]] + [[0, t[depth - 1]]]]
                for v in variants:
                    cases.append(("tree", t, "range", v))
        # fan-outs with two-digit child indices (the order of a level is numeric, not lexicographic)
        trees += [[12], [1, 12], [2, 11]] + ([[1, 3, 11], [11, 2]] if tier == "thorough" else [])
        for t in trees:
            for lvl in range(0, len(t) + 1):
                cases.append(("tree", t, "lvl", lvl))
            if len(t) == 1:
                for lvl in range(0, 3):
                    cases.append(("tree-scalar", t, "lvl", lvl))
        stats = collections.Counter()
        samples = []
        mism = []
        CH = 4000
        for off in range(0, len(cases), CH):
            chunk = cases[off:off + CH]
            reqs = []
            for ci, (kind, dims, sel, arg) in enumerate(chunk):
                o = {"cmd": "select", "kind": "tree" if kind == "tree-scalar" else kind, "dims": dims, "sel": sel,
                     "name": NAMES[(off + ci) % 2]}
                o[{"range": "range", "idx": "idx", "lvl": "lvl"}[sel]] = arg
                reqs.append(o)
            res = call_many(drv, reqs)
            for ci, ((kind, dims, sel, arg), r) in enumerate(zip(chunk, res)):
                if "error" in r:
                    raise RuntimeError(r["error"])
                stats["evaluated"] += 1
                nm = NAMES[(off + ci) % 2]
                ir = impl_select(kind, dims, sel, arg, nm)
                if "nodes" in ir:
                    stats["returned"] += 1
                good = select_good(dims, sel, arg, nm, ir, kind)
                if not good and not rep.violations:
                    f = {"claim": "selector-result", "site": f"{kind}{dims} {sel} {arg}", "detail": json.dumps(ir)[:200]}
                    rep.finding(f, {"property": pid, "finding": f, "kind": kind, "dims": dims, "sel": sel, "arg": arg, "name": nm})
                same = ("nodes" in r) == ("nodes" in ir) and (("nodes" not in r) or r["nodes"] == ir["nodes"])
                if not same:
                    stats["model-mismatch"] += 1
                    if len(mism) < 3:
                        mism.append({"case": [kind, dims, sel, arg], "model": r, "impl": ir})
                elif len(samples) < 3 and "nodes" in ir and len(ir["nodes"]) > 2:
                    samples.append({"case": [kind, dims, sel, arg], "nodes": ir["nodes"]})
        drv.close()
        # the level selector as a connection uses it (Network.create_connections), both ways round
        for t in trees:
            if max(t) > 3 and tier != "thorough":
                continue
            for lvl in range(0, len(t) + 1):
                for flip, auto in ((False, True), (True, True), (False, False)):
                    ir = impl_level_via_network(t, lvl, "r", flip, auto)
                    stats["level-via-network"] += 1
                    exp = ["r_" + "_".join(map(str, ix)) for ix in itertools.product(*[range(x) for x in t[:lvl + 1]])]
                    good = ir.get("nodes") == exp if lvl < len(t) else "err" in ir
                    if not good and not rep.violations:
                        f = {"claim": "selector-result", "site": f"tree{t} lvl {lvl} in a connection" + (" (router first)" if flip else "") +
                             ("" if auto else " (auto_connect: false)"),
                             "detail": json.dumps(ir)[:200]}
                        rep.finding(f, {"property": pid, "finding": f, "kind": "tree-network", "dims": t, "sel": "lvl", "arg": lvl,
                                        "flip": flip, "auto": auto, "name": "r"})
        # the index selector as a connection uses it: an index with more or fewer entries than the object has
        # dimensions, or beyond them, addresses a node that does not exist
        idx_cases = [(("single",), [0], None), (("single",), [0, 0], None), (("array", 2, 2), [1, 0], ["r_1_0"]),
                     (("array", 2, 2), [1], None), (("array", 2, 2), [1, 0, 0], None), (("array", 1, 1), [0, 0], ["r_0_0"]),
                     (("array", 1, 1), [0], None), (("tree", [1]), [0], ["r_0"]), (("tree", [1]), [0, 0], None),
                     (("tree", [1, 2]), [0, 1], ["r_0_1"]), (("tree", [1, 2]), [0, 1, 0], None), (("tree", [1, 2]), [0, 2], None),
                     (("eparr", 2), [1], ["ep_ni_1"]), (("eparr", 2), [1, 0], None), (("eparr", 1), [0], ["ep_ni_0"]),
                     (("eparr", 1), [0, 0], None), (("eparr", 2), [2], None)]
        for target, idx, want in idx_cases:
            for flip in (False, True):
                ir = impl_idx_via_network(target, idx, flip)
                stats["index-via-network"] += 1
                good = ("err" in ir) if want is None else ir.get("nodes") == want
                if not good and not rep.violations:
                    f = {"claim": "selector-result", "site": f"{list(target)} idx {idx} in a connection" + (" (router first)" if flip else ""),
                         "detail": json.dumps(ir)[:200] + ("; such a node does not exist" if want is None else f"; expected {want}")}
                    rep.finding(f, {"property": pid, "finding": f, "kind": "idx-network", "dims": list(target), "sel": "idx", "arg": idx,
                                    "flip": flip, "want": want, "name": "r"})
        if mism and not rep.violations:
            rep.unproven({"correspondence": "Lean selectors and floogen Graph selectors disagree"}, {"property": pid, "examples": mism})
        return {"evaluations": stats["evaluated"], "distinct_nontrivial": stats["returned"],
                "rule": f"all 1-D and 2-D arrays up to {lim}x{lim} x all range pairs with bounds in [-1, dim] and all indices "
                        "in [-1, dim]; all trees up to depth 3 / fan-out 3 (built through RouterDesc, also in the scalar spelling) and "
                        "fan-outs 11/12 x all levels incl. the one below the last, next to a tree <name>2, a unit <name>_cfg and a tree "
                        "<name>_1; the level selector also through Network.create_connections (both ways round, hand-wired trees); "
                        "non-trivial = a selection that returns nodes",
                "samples": samples, "exhaustive": tier == "thorough", "traces_validated_against_impl": stats["evaluated"],
                "disagreements_checked": stats["model-mismatch"], "status_counts": dict(stats)}

    def replay(self, pid, payload, rep):
        nm = payload.get("name", "r")
        if payload["kind"] == "idx-network":
            t = payload["dims"]
            ir = impl_idx_via_network(tuple(t), payload["arg"], payload.get("flip", False))
            print(ir)
            want = payload.get("want")
            if not (("err" in ir) if want is None else ir.get("nodes") == want):
                rep.finding(payload["finding"], payload)
            return rep.exit_code()
        if payload["kind"] == "tree-network":
            t, lvl = payload["dims"], payload["arg"]
            ir = impl_level_via_network(t, lvl, "r", payload.get("flip", False), payload.get("auto", True))
            print(ir)
            exp = ["r_" + "_".join(map(str, ix)) for ix in itertools.product(*[range(x) for x in t[:lvl + 1]])]
            if not (ir.get("nodes") == exp if lvl < len(t) else "err" in ir):
                rep.finding(payload["finding"], payload)
            return rep.exit_code()
        ir = impl_select(payload["kind"], payload["dims"], payload["sel"], payload["arg"], nm)
        print(ir)
        if not select_good(payload["dims"], payload["sel"], payload["arg"], nm, ir, payload.get("kind", "array")):
            rep.finding(payload["finding"], payload)
        return rep.exit_code()

#!/bin/sh
# keep_mutant.sh <res dir> <seed id> "<checks that caught it>" "<notes>"
RES=$1; ID=$2; CAUGHT=$3; NOTE=$4
D=/verif/seeded/$ID
mkdir -p $D
cp $RES/patch.diff $RES/demo.py $D/
python3 - "$RES" "$D" "$CAUGHT" "$NOTE" <<'PY'
import json,sys
res,d,caught,note=sys.argv[1:5]
m=json.load(open(res+'/meta.json'))
m['caught_by']=caught.split()
m['confirmed']="patch applies to /repo HEAD; 46 tests pass with it; demo.py exits 0 on the clean tree and 1 with the patch; checks run with harness/try_mutant.sh"
if note: m['notes']=note
json.dump(m,open(d+'/meta.json','w'),indent=1)
PY

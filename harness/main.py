#!/venv/bin/python
"""./check <ID> [--tier quick|thorough] [--replay file]

exit 0: property held on everything explored and every proof obligation is discharged
exit 1: `VIOLATION property=<id> replay=<path>` printed
exit 2: harness / infrastructure error (no VIOLATION line)
"""
import argparse
import json
import os
import sys
import time
import traceback
import collections

sys.path.insert(0, os.path.dirname(os.path.abspath(__file__)))
import common  # noqa: E402
from common import InfraError, Reporter, VERIF  # noqa: E402
import registry  # noqa: E402


def build_and_audit(pid, tier="quick"):
    """returns (theorem_status: dict name -> 'ok' | reason, notes); serialised across concurrently
    running checks (facts regeneration and `lake build` write into the same tree)"""
    import fcntl
    lock_path = os.path.join(common.LEAN_DIR, ".build.lock")
    with open(lock_path, "w", encoding="utf-8") as lock:
        fcntl.flock(lock, fcntl.LOCK_EX)
        try:
            return _build_and_audit(pid, tier)
        finally:
            fcntl.flock(lock, fcntl.LOCK_UN)


def _build_and_audit(pid, tier="quick"):
    notes = []
    try:
        facts = common.regenerate_facts()
        notes.append(f"facts: {facts}")
    except Exception as e:  # translator cannot parse its source: a broken tie
        # the fact files of the last run that could be translated stay in place (the committed ones in a fresh copy):
        # the driver built from them still reads emitted files, so the search for a failing input can run
        translator_broken = f"translator failed: {e}"
    else:
        translator_broken = None
    r = common.run(["lake", "build", "flooverif"], cwd=common.LEAN_DIR, timeout=3000)
    if r.returncode != 0:
        log = r.stdout + r.stderr
        if "FlooVerif/Gen/" in log:
            return {"<facts>": "regenerated facts do not compile: " + log[-600:]}, notes, False
        if translator_broken:
            return {"<translator>": translator_broken}, notes, False
        raise InfraError("driver does not build:\n" + log[-3000:])
    ok, log = common.lake_build()
    if not ok:
        notes.append("library build failed in: " + ", ".join(common.failed_modules(log)))
    theorems = registry.THEOREMS.get(pid, [])
    status = {}
    if theorems:
        # one audit per module: a module that no longer builds takes only its own theorems down
        import re
        import concurrent.futures
        mods = sorted({m for _, m in theorems})

        def audit(mod):
            ths = [t for t, m in theorems if m == mod]
            path = os.path.join(common.LEAN_DIR, f".audit_{pid}_{mod.replace('.', '_')}.lean")
            with open(path, "w", encoding="utf-8") as f:
                f.write(f"import {mod}\n" + "".join(f"#print axioms {t}\n" for t in ths))
            try:
                rr = common.run(["lake", "env", "lean", path], cwd=common.LEAN_DIR, timeout=1800)
            finally:
                os.remove(path)
            return mod, ths, rr.stdout + rr.stderr

        with concurrent.futures.ThreadPoolExecutor(max_workers=8) as ex:
            results = list(ex.map(audit, mods))
        for mod, ths, out in results:
            for t in ths:
                mm = re.search(r"'" + re.escape(t) + r"' depends on axioms: \[(.*?)\]", out, flags=re.S)
                if mm:
                    ax = [a.strip() for a in mm.group(1).split(",") if a.strip()]
                    bad = [a for a in ax if a not in common.ALLOWED_AXIOMS]
                    status[t] = "ok" if not bad else f"depends on axioms {bad}"
                elif re.search(r"'" + re.escape(t) + r"' does not depend on any axioms", out):
                    status[t] = "ok"
                else:
                    status[t] = f"theorem missing or its module ({mod}) does not build"
    if tier == "thorough" and theorems:
        # the toolchain's independent re-checker replays the compiled modules of this property's theorems
        mods = sorted({m for _, m in theorems})
        rr = common.run(["lake", "env", "leanchecker"] + mods, cwd=common.LEAN_DIR, timeout=3000)
        notes.append(f"leanchecker on {len(mods)} modules: exit status {rr.returncode}")
        status["<leanchecker>"] = "ok" if rr.returncode == 0 else \
            "leanchecker rejects the compiled modules: " + (rr.stdout + rr.stderr)[-400:]
    hits = common.grep_forbidden()
    if hits:
        status["<source-audit>"] = "forbidden construct: " + "; ".join(hits[:5])
    if translator_broken:
        status["<translator>"] = translator_broken + " (model and theorems are those of the last tree that could be translated)"
    return status, notes, True


def main():
    ap = argparse.ArgumentParser()
    ap.add_argument("pid")
    ap.add_argument("--tier", default=os.environ.get("VERIF_TIER", "quick"), choices=["quick", "thorough"])
    ap.add_argument("--replay", default=None)
    args = ap.parse_args()
    pid = args.pid
    seed = common.seed_from_env()
    t0 = time.time()
    if pid not in registry.RUNNERS:
        print(f"unknown property {pid}", file=sys.stderr)
        return 2
    rep = Reporter(pid)
    try:
        status, notes, driver_ok = build_and_audit(pid, args.tier)
        broken = {t: s for t, s in status.items() if s != "ok"}
        runner = registry.RUNNERS[pid]
        if args.replay:
            payload = json.load(open(os.path.join(VERIF, args.replay) if not os.path.isabs(args.replay) else args.replay))
            return runner.replay(pid, payload, rep)
        cov = {}
        if driver_ok:
            cov = runner.explore(pid, args.tier, seed, rep, search_mode=bool(broken))
        if broken and not rep.violations:
            rep.unproven(broken, {"property": pid, "kind": "proof-obligation", "notes": notes})
        n_ob = len(registry.THEOREMS.get(pid, []))
        n_ok = sum(1 for t, _ in registry.THEOREMS.get(pid, []) if status.get(t) == "ok")
        coverage = dict(cov)
        coverage.update({
            "obligations": n_ob,
            "discharged": n_ok,
            "obligation_status": status,
            "checker_cmd": "cd lean && lake build FlooVerif && lake env lean <#print axioms of the theorems above>",
            "trusted_base": registry.TRUSTED_BASE + registry.TRUSTED_EXTRA.get(pid, []),
            "theorems": [t for t, _ in registry.THEOREMS.get(pid, [])],
        })
        common.write_evidence(pid, args.tier, seed, "proof", coverage,
                              registry.ASSUMPTIONS.get(pid, []), time.time() - t0, len(rep.violations))
        return rep.exit_code()
    except InfraError as e:
        print(f"INFRA-ERROR: {e}", file=sys.stderr)
        return 2
    except Exception:  # pylint: disable=broad-except
        traceback.print_exc()
        return 2


if __name__ == "__main__":
    sys.exit(main())

#!/bin/sh
# retrial_all.sh [ids...]: re-applies every kept seeded change to /repo (one at a time, reverted afterwards)
# and runs the checks its meta.json names (PRIMARY_ONLY=1: only the first one); prints one line per change.
# Never run this while a background `vp run` / thorough run is active (those read /repo itself).
cd /verif || exit 2
IDS="$@"
[ -z "$IDS" ] && IDS=$(ls seeded)
for id in $IDS; do
  checks=$(python3 -c "import json,os; c=json.load(open('seeded/$id/meta.json'))['caught_by']; print(' '.join(c[:1] if os.environ.get('PRIMARY_ONLY') else c))")
  sh harness/try_mutant.sh /verif/seeded/$id $checks 2>&1 | grep -v conda
done

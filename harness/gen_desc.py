"""Seeded, structured generators of floogen descriptions (plain dicts, YAML-shaped).

Families: star, mesh (auto-connected m x n router array with local endpoints and any subset
of W/E/S/N boundary arrays), mesh+extra router, tree, custom router graphs.
Every random choice comes from the `random.Random` instance handed in.
"""
import itertools
import random

DIRS = ["North", "East", "South", "West"]
NAME_POOL = ["cluster", "hbm", "serial_link", "cva6", "peripherals", "dram", "spm", "io2", "l2_mem",
             "acc", "dma0", "host", "ep_a", "zmem", "tile", "x1", "c2c", "uart",
             # names that are substrings / numbered variants of one another
             "ram", "sram", "mem", "io", "mem_0", "hbm1"]
ROUTER_NAMES = ["router", "rt", "xbar", "r", "noc_r", "sw"]


def protocols(nettype, aw, rng, distinct_ids=True):
    if nettype == "axi":
        prots = [
            {"name": "axi_in", "protocol": "AXI4", "data_width": 64, "addr_width": aw,
             "id_width": rng.choice([3, 4, 5]) if distinct_ids else 4, "user_width": 1, "type_prefix": None},
            {"name": "axi_out", "protocol": "AXI4", "data_width": 64, "addr_width": aw,
             "id_width": rng.choice([1, 2, 6]) if distinct_ids else 2, "user_width": 1, "type_prefix": None},
        ]
        if rng.random() < 0.08:
            # the `type` label is legal (and without meaning) in an axi network
            for p in prots:
                p["type"] = rng.choice(["narrow", "wide"])
        return prots
    return [
        {"name": "narrow_in", "type": "narrow", "protocol": "AXI4", "data_width": 64, "addr_width": aw,
         "id_width": rng.choice([4, 5]), "user_width": 1},
        {"name": "narrow_out", "type": "narrow", "protocol": "AXI4", "data_width": 64, "addr_width": aw,
         "id_width": rng.choice([2, 3]), "user_width": 1},
        {"name": "wide_in", "type": "wide", "protocol": "AXI4", "data_width": 512, "addr_width": aw,
         "id_width": rng.choice([3, 6]), "user_width": 1},
        {"name": "wide_out", "type": "wide", "protocol": "AXI4", "data_width": 512, "addr_width": aw,
         "id_width": rng.choice([1, 2]), "user_width": 1},
    ]


class AddrAlloc:
    """Bump allocator producing disjoint ranges with random (possibly zero) gaps."""

    def __init__(self, rng, aw):
        self.rng = rng
        self.aw = aw
        self.cur = rng.choice([0, 0, 0x1000 if aw >= 20 else 0x40, 0x8000_0000 if aw >= 40 else 0x100])
        self.top = 1 << aw

    def take(self, size, count=1):
        gap = self.rng.choice([0, 0, size, 0x1000, 3 * size])
        base = self.cur + gap
        if base + size * count > self.top:
            base = self.cur
        if base + size * count > self.top:
            return None
        self.cur = base + size * count
        return base

    def remaining(self):
        return self.top - self.cur


def mk_role(rng, nettype, force=None):
    """returns (mgr list|None, sbr list|None)"""
    role = force or rng.choice(["dual", "dual", "sbr", "mgr", "dual", "sbr"])
    if nettype == "axi":
        mgr = ["axi_in"] if role in ("dual", "mgr") else None
        sbr = ["axi_out"] if role in ("dual", "sbr") else None
    else:
        def pick(names):
            c = rng.random()
            if c < 0.6:
                return list(names)
            if c < 0.8:
                return [names[0]]
            return [names[1]]
        mgr = pick(["narrow_in", "wide_in"]) if role in ("dual", "mgr") else None
        sbr = pick(["narrow_out", "wide_out"]) if role in ("dual", "sbr") else None
    return mgr, sbr


def mk_ranges(rng, alloc, count, is_array):
    """Address ranges for one endpoint with `count` instances."""
    nranges = 1 if rng.random() < 0.7 else rng.choice([2, 2, 3])
    out = []
    for ri in range(nranges):
        size = rng.choice([0x1000, 0x4_0000, 0x100, 0x1_0000, 0x3000, 0x40, 0x1234])
        base = alloc.take(size, count)
        if base is None:
            size = 0x10
            base = alloc.take(size, count)
            if base is None:
                break
        if is_array:
            r = {"base": base, "size": size}
            if rng.random() < 0.08:
                r["idx"] = rng.randint(1, 3)       # ignored for arrays: element k takes slot k
        else:
            style = rng.choice(["base_size", "start_end", "start_size", "start_end_size", "base_size_idx"])
            if style == "base_size_idx" and base >= 3 * size:
                k = rng.randint(1, 3)
                r = {"base": base - k * size, "size": size, "idx": k}
            elif style in ("base_size", "base_size_idx"):
                r = {"base": base, "size": size}
            elif style == "start_end":
                r = {"start": base, "end": base + size}
            elif style == "start_size":
                r = {"start": base, "size": size}
            else:
                r = {"start": base, "end": base + size, "size": size}
        if nranges > 1 and rng.random() < 0.5:
            r["desc"] = rng.choice(["mem", "cfg", "lo", "hi", "win"]) + (str(ri) if rng.random() < 0.93 else "")
        out.append(r)
    if rng.random() < 0.3:
        rng.shuffle(out)
    if len(out) == 1 and rng.random() < 0.5:
        return out[0]
    return out


def ensure_protocol_coverage(rng, eps, nettype):
    """every protocol must be used by some endpoint, else rendering cannot pick types"""
    if nettype == "axi":
        need_m, need_s = ["axi_in"], ["axi_out"]
    else:
        need_m, need_s = ["narrow_in", "wide_in"], ["narrow_out", "wide_out"]
    used_m = {p for e in eps for p in (e.get("mgr_port_protocol") or [])}
    used_s = {p for e in eps for p in (e.get("sbr_port_protocol") or [])}
    mgrs = [e for e in eps if e.get("mgr_port_protocol")]
    sbrs = [e for e in eps if e.get("sbr_port_protocol")]
    for p in need_m:
        if p not in used_m:
            if not mgrs:
                return False
            rng.choice(mgrs)["mgr_port_protocol"].append(p)
    for p in need_s:
        if p not in used_s:
            if not sbrs:
                return False
            rng.choice(sbrs)["sbr_port_protocol"].append(p)
    return True


def mk_endpoint(rng, nettype, alloc, name, array=None, force_role=None):
    mgr, sbr = mk_role(rng, nettype, force_role)
    ep = {"name": name}
    count = 1
    if array is not None:
        ep["array"] = array if rng.random() < 0.8 or len(array) > 1 else array[0]
        for a in array:
            count *= a
    if sbr is not None:
        rngs = mk_ranges(rng, alloc, count, array is not None)
        if not rngs:
            sbr = None
            if mgr is None:
                mgr, _ = mk_role(rng, nettype, "mgr")
        else:
            ep["addr_range"] = rngs
    if mgr is not None:
        ep["mgr_port_protocol"] = mgr
    if sbr is not None:
        ep["sbr_port_protocol"] = sbr
    return ep


def base_cfg(rng, name, nettype, algo, aw):
    routing = {"route_algo": algo, "use_id_table": True}
    if nettype == "narrow-wide" and rng.random() < 0.06:
        routing["num_vc_id_bits"] = rng.choice([1, 2])
    if rng.random() < 0.05:
        routing["rob_idx_bits"] = rng.choice([2, 4])
    if rng.random() < 0.06:
        # derived fields the schema accepts in the description (floogen recomputes them)
        k = rng.choice(["num_x_bits", "num_y_bits", "num_endpoints", "num_id_bits", "num_route_bits", "addr_offset_bits"])
        routing[k] = rng.choice([1, 2, 3, 4, 9])
    return {
        "name": name, "description": "generated", "network_type": nettype, "routing": routing,
        "protocols": protocols(nettype, aw, rng),
    }


def _base_cfg_unused(rng, name, nettype, algo, aw):
    return {
        "name": name,
        "description": "generated",
        "network_type": nettype,
        "routing": {"route_algo": algo, "use_id_table": True},
        "protocols": protocols(nettype, aw, rng),
    }


def move_to_top(rng, cfg, eps):
    """make one single-endpoint range end exactly at 2^addr_width"""
    aw = cfg["protocols"][0]["addr_width"]
    top = 1 << aw
    cands = [e for e in eps if "array" not in e and isinstance(e.get("addr_range"), dict)]
    if not cands:
        return
    r = rng.choice(cands)["addr_range"]
    if "size" in r:
        size = r["size"]
    else:
        size = r["end"] - r["start"]
    lo = top - size
    if "base" in r:
        r["base"] = lo
    if "start" in r:
        r["start"] = lo
    if "end" in r:
        r["end"] = top


# set by the runner: may descriptions switch the address table off (`use_id_table: false`)?
ALLOW_NO_TABLE = False
# set by the runner: may a mesh get an extra link between the two ends of a row?  (C09 speaks about plain meshes
# and trees only: a row closed to a ring is outside its quantifier, and indeed has cyclic dependencies)
EXPRESS_LINKS = True
# set by the runner: sometimes give a router too few ports (rejected by floogen)
SHORT_DEGREE = False
# set by the runner: apply the spelling variations below (off for hand-built sweeps that need exact names)
VARIATIONS = True


def rename_nodes(cfg, mapping):
    for r in cfg["routers"]:
        r["name"] = mapping.get(r["name"], r["name"])
    for e in cfg["endpoints"]:
        e["name"] = mapping.get(e["name"], e["name"])
    for c in cfg["connections"]:
        for k in ("src", "dst"):
            c[k] = mapping.get(c[k], c[k])


def rename_protocols(cfg, mapping):
    for p in cfg["protocols"]:
        p["name"] = mapping.get(p["name"], p["name"])
    for e in cfg["endpoints"]:
        for k in ("mgr_port_protocol", "sbr_port_protocol"):
            if e.get(k):
                e[k] = [mapping.get(x, x) for x in e[k]]


def post_variations(rng, cfg):
    """other legal spellings of a description: none of them changes what floogen should build"""
    if rng.random() < 0.08:
        # … also a stem that is the name of an endpoint (`hbm` using protocol `hbm_out`: port `hbm_hbm_out_req_o`)
        stem = rng.choice(["dma", "m", "axi_lite", "p0", rng.choice(cfg["endpoints"])["name"]])
        if cfg["network_type"] == "axi":
            rename_protocols(cfg, {"axi_in": stem + "_in", "axi_out": stem + "_out"})
        else:
            rename_protocols(cfg, {"narrow_in": stem + "_n_in", "narrow_out": stem + "_n_out",
                                   "wide_in": stem + "_w_in", "wide_out": stem + "_w_out"})
    if rng.random() < 0.08:
        v = rng.choice(["default", "floo", None])
        for p in cfg["protocols"]:
            if v == "default":
                p.pop("type_prefix", None)
            else:
                p["type_prefix"] = v
    if rng.random() < 0.06:
        # mixed-case names
        cands = [r["name"] for r in cfg["routers"]] + [e["name"] for e in cfg["endpoints"]]
        old = rng.choice(cands)
        new = rng.choice([old.capitalize(), "main" + old.capitalize(), old.upper()])
        if new not in cands:
            rename_nodes(cfg, {old: new})
    if rng.random() < 0.08:
        # an address window on an endpoint without subordinate port is accepted and means nothing
        cands = [e for e in cfg["endpoints"] if not e.get("sbr_port_protocol") and "addr_range" not in e]
        if cands:
            aw = cfg["protocols"][0]["addr_width"]
            e = rng.choice(cands)
            e["addr_range"] = {"base": rng.choice([0, 0x100, (1 << (aw - 1))]), "size": rng.choice([0x40, 0x1000])}
    if rng.random() < 0.06:
        # a protocol nobody uses, declared ahead of the others
        first = dict(cfg["protocols"][0])
        first["name"] = "spare_" + first["name"]
        first["id_width"] = 7
        cfg["protocols"].insert(0, first)
    if rng.random() < 0.05:
        # a second manager-side protocol, used by one endpoint only
        mgrs = [e for e in cfg["endpoints"] if e.get("mgr_port_protocol")]
        if len(mgrs) >= 2:
            e = rng.choice(mgrs[1:])
            new = []
            for pn in e["mgr_port_protocol"]:
                src = next(p for p in cfg["protocols"] if p["name"] == pn)
                alt = dict(src)
                alt["name"] = rng.choice(["alt_" + pn, pn.split("_")[-1] if "_" in pn else "x" + pn])
                if rng.random() < 0.3:
                    alt["id_width"] = src["id_width"] + 2          # refused: one ID width per direction
                if all(p["name"] != alt["name"] for p in cfg["protocols"]):
                    cfg["protocols"].append(alt)
                    new.append(alt["name"])
                else:
                    new.append(pn)
            e["mgr_port_protocol"] = new
    if cfg["network_type"] == "narrow-wide" and rng.random() < 0.06:
        # a subsystem that uses one of the two buses only: no endpoint lists a protocol of the other kind, whose
        # protocols then have to say which way they point (as terapool.yml does for its unused narrow protocols)
        drop = rng.choice(["wide", "narrow"])
        kinds = {p["name"]: p.get("type") for p in cfg["protocols"]}
        ok = all(any(kinds.get(pn) != drop for pn in e.get(k, [])) for e in cfg["endpoints"]
                 for k in ("mgr_port_protocol", "sbr_port_protocol") if e.get(k))
        if ok:
            for e in cfg["endpoints"]:
                for k in ("mgr_port_protocol", "sbr_port_protocol"):
                    if e.get(k):
                        e[k] = [pn for pn in e[k] if kinds.get(pn) != drop]
            for p in cfg["protocols"]:
                if p.get("type") == drop and "direction" not in p:
                    p["direction"] = "input" if p["name"].endswith("_in") else "output"
    if rng.random() < 0.06:
        # free-text descriptions (of an endpoint, a router, a connection): never part of what is generated
        e = rng.choice(cfg["endpoints"])
        e["description"] = rng.choice(["main memory", "first line\nsecond line of the description",
                                       "with a */ and a // inside", "trailing backslash \\"])
        if rng.random() < 0.5:
            rng.choice(cfg["connections"])["description"] = "link\nwith two lines"
    if rng.random() < 0.03 and len(cfg["endpoints"]) > 2:
        # an unpopulated slot: an endpoint without any port
        cands = [e for e in cfg["endpoints"] if "array" not in e]
        if cands:
            e = rng.choice(cands)
            e.pop("mgr_port_protocol", None)
            e.pop("sbr_port_protocol", None)
            e.pop("addr_range", None)
    if rng.random() < 0.05:
        # a direction written on the endpoint's end of a connection as well (only the router's end counts)
        rts = {r["name"] for r in cfg["routers"]}
        for c in cfg["connections"]:
            if c["dst"] in rts and c["src"] not in rts and "dst_dir" in c and "src_dir" not in c:
                c["src_dir"] = rng.choice(["East", "North", "South", "West"])
                break
            if c["src"] in rts and c["dst"] not in rts and "src_dir" in c and "dst_dir" not in c:
                c["dst_dir"] = rng.choice(["East", "North", "South", "West"])
                break
    if rng.random() < 0.04 and cfg["routing"]["route_algo"] != "XY":
        # a plain number where a coordinate offset is expected is dropped without a word
        rng.choice(cfg["endpoints"])["xy_id_offset"] = rng.randint(1, 3)
    if rng.random() < 0.04:
        cfg["routing"]["port_id_bits"] = rng.choice([0, 2])
    if SHORT_DEGREE and rng.random() < 0.05:
        # a router with fewer ports than its links need: floogen refuses to build it
        cands = [r for r in cfg["routers"] if "degree" in r]
        if cands:
            r = rng.choice(cands)
            if rng.random() < 0.5 and r["degree"] > 1:
                r["degree"] -= rng.choice([1, 2]) if r["degree"] > 2 else 1
            else:
                del r["degree"]
    u = rng.random()
    if u < 0.15:
        cfg["routing"].pop("use_id_table", None)          # the default is the table
    elif u < 0.20 and ALLOW_NO_TABLE:
        cfg["routing"]["use_id_table"] = False
        if cfg["routing"]["route_algo"] == "ID" and rng.random() < 0.8:
            cfg["routing"]["addr_offset_bits"] = rng.choice([12, 16, 20])   # required in this mode


def finish(rng, cfg, eps, routers, conns, shuffle=True):
    if not ensure_protocol_coverage(rng, eps, cfg["network_type"]):
        return None
    if rng.random() < 0.08:
        move_to_top(rng, cfg, eps)
    if shuffle and rng.random() < 0.5:
        rng.shuffle(eps)
    if shuffle and rng.random() < 0.5:
        rng.shuffle(conns)
    cfg["endpoints"] = eps
    cfg["routers"] = routers
    cfg["connections"] = conns
    if VARIATIONS:
        post_variations(rng, cfg)
    return cfg


def names(rng, k):
    return rng.sample(NAME_POOL, k)


def gen_star(rng, algo, nettype, k=None):
    aw = rng.choice([32, 48, 48, 40, 34, 17, 64, rng.randint(16, 64)])
    cfg = base_cfg(rng, "star", nettype, algo, aw)
    alloc = AddrAlloc(rng, aw)
    k = k or rng.randint(2, 6)
    rname = rng.choice(ROUTER_NAMES)
    eps = []
    for nm in names(rng, k):
        eps.append(mk_endpoint(rng, nettype, alloc, nm))
    conns = []
    directed = rng.random() < 0.4
    ports = list(range(k + rng.randint(0, 2)))
    rng.shuffle(ports)
    for e in eps:
        if rng.random() < 0.5:
            c = {"src": e["name"], "dst": rname}
            if directed and rng.random() < 0.6:
                c["dst_dir"] = ports.pop()
        else:
            c = {"src": rname, "dst": e["name"]}
            if directed and rng.random() < 0.6:
                c["src_dir"] = ports.pop()
        conns.append(c)
    rt = {"name": rname}
    if directed:
        rt["degree"] = k + 2
    elif rng.random() < 0.35:
        # a fan-out: an array of endpoints, all of them on the one router (`allow_multi`), in either orientation
        n = rng.randint(2, 4)
        fan = mk_endpoint(rng, nettype, alloc, rng.choice([x for x in NAME_POOL if all(x != e["name"] for e in eps)]), array=[n])
        eps.append(fan)
        c = {"src": fan["name"], "dst": rname, "src_range": [[0, n - 1]], "allow_multi": True}
        conns.append(c if rng.random() < 0.6 else flip_conn(c))
    return finish(rng, cfg, eps, [rt], conns)


# set by sweeps that want the mirrored placement of the local endpoint array for sure
MIRROR_LOCAL = False


def mesh_parts(rng, algo, nettype, alloc, m, n, rname, sides=None, partial_local=False):
    """endpoints + connections of an m x n mesh named rname"""
    eps, conns = [], []
    nm = names(rng, 6)
    # local endpoints
    lm, ln = m, n
    x0, y0 = 0, 0
    if partial_local and (m > 1 or n > 1):
        lm = rng.randint(1, m)
        ln = rng.randint(1, n)
        if lm == m and ln == n:
            if m > 1:
                lm -= 1
            else:
                ln -= 1
        x0 = rng.choice([0, m - lm])
        y0 = rng.choice([0, n - ln])
    local = mk_endpoint(rng, nettype, alloc, nm[0], array=[lm, ln],
                        force_role=rng.choice(["dual", "dual", "mgr", "sbr"]))
    eps.append(local)
    c = {"src": nm[0], "dst": rname,
         "src_range": [[0, lm - 1], [0, ln - 1]],
         "dst_range": [[x0, x0 + lm - 1], [y0, y0 + ln - 1]]}
    use_dirs = algo == "XY" or rng.random() < 0.6
    if use_dirs:
        c["dst_dir"] = "Eject"
    if not MIRROR_LOCAL and rng.random() < 0.25:
        # the same pairing written with descending ranges on both sides
        d = rng.randrange(2)
        for key in ("src_range", "dst_range"):
            lo, hi = c[key][d]
            c[key][d] = [hi, lo]
    elif MIRROR_LOCAL or rng.random() < 0.1:
        # mirrored placement: tile (x, y) sits on router (x0+lm-1-x, y0+ln-1-y)
        for d in range(2):
            lo, hi = c["dst_range"][d]
            c["dst_range"][d] = [hi, lo]
    if rng.random() < 0.3:
        c = flip_conn(c)
    conns.append(c)
    # a single endpoint hooked to one router by index (second local port)
    if rng.random() < (0.2 if algo != "XY" else 0.04) and not partial_local:
        sname = nm[5]
        sep = mk_endpoint(rng, nettype, alloc, sname, force_role=rng.choice(["mgr", "dual", "sbr"]))
        eps.append(sep)
        sc = {"src": sname, "dst": rname, "dst_idx": [rng.randrange(m), rng.randrange(n)]}
        if use_dirs:
            sc["dst_dir"] = 5
        conns.append(sc if rng.random() < 0.6 else flip_conn(sc))
        extra_port = True
    else:
        extra_port = False
    if sides is None:
        sides = [s for s in DIRS if rng.random() < 0.4]
    sides = sides[:4]
    for si, side in enumerate(sides):
        length = m if side in ("North", "South") else n
        ename = nm[1 + si]
        arr_style = rng.random()
        ep = mk_endpoint(rng, nettype, alloc, ename, array=[length],
                         force_role=rng.choice(["sbr", "sbr", "dual", "mgr"]))
        eps.append(ep)
        if side == "West":
            dr = [[0, 0], [0, n - 1]]
        elif side == "East":
            dr = [[m - 1, m - 1], [0, n - 1]]
        elif side == "South":
            dr = [[0, m - 1], [0, 0]]
        else:
            dr = [[0, m - 1], [n - 1, n - 1]]
        c = {"src": ename, "dst": rname, "src_range": [[0, length - 1]], "dst_range": dr}
        if rng.random() < 0.3:
            # reversed pairing: one side descends, the other ascends
            if rng.random() < 0.5:
                c["src_range"] = [[length - 1, 0]]
            else:
                c["dst_range"] = [[hi, lo] if lo != hi else [lo, hi] for lo, hi in dr]
        if use_dirs:
            c["dst_dir"] = side if rng.random() < 0.7 else side.upper()
        if rng.random() < 0.3:
            c = flip_conn(c)
        conns.append(c)
        del arr_style
    used = set(e["name"] for e in eps)
    spare = [x for x in NAME_POOL if x not in used]
    # G5: one array split over two opposite sides by two connections (XY: different directions per element)
    if use_dirs and "West" not in sides and "East" not in sides and rng.random() < 0.12 and spare:
        ename = spare.pop()
        ep = mk_endpoint(rng, nettype, alloc, ename, array=[2 * n], force_role=rng.choice(["sbr", "dual"]))
        eps.append(ep)
        conns.append({"src": ename, "dst": rname, "src_range": [[0, n - 1]], "dst_range": [[0, 0], [0, n - 1]], "dst_dir": "West"})
        conns.append({"src": ename, "dst": rname, "src_range": [[n, 2 * n - 1]], "dst_range": [[m - 1, m - 1], [0, n - 1]], "dst_dir": "East"})
    # G4: a second endpoint on the Eject port of the same routers (a port conflict floogen rejects)
    if use_dirs and rng.random() < 0.06 and spare:
        extra_port = True
        ename = spare.pop()
        eps.append(mk_endpoint(rng, nettype, alloc, ename, array=[m, n], force_role="dual"))
        conns.append({"src": ename, "dst": rname, "src_range": [[0, m - 1], [0, n - 1]],
                      "dst_range": [[0, m - 1], [0, n - 1]], "dst_dir": "Eject"})
    # G8: an express link between the two ends of a row (ID / SRC only), on the free West / East ports
    if EXPRESS_LINKS and algo != "XY" and use_dirs and m >= 3 and "West" not in sides and "East" not in sides and rng.random() < 0.15:
        y = rng.randrange(n)
        conns.append({"src": rname, "src_idx": [0, y], "src_dir": "West", "dst": rname, "dst_idx": [m - 1, y], "dst_dir": "East"})
    # G7: an endpoint moved away from the grid by its own xy_id_offset (XY only)
    if algo == "XY" and rng.random() < 0.05 and "East" not in sides and spare:
        ename = spare.pop()
        ep = mk_endpoint(rng, nettype, alloc, ename, force_role=rng.choice(["sbr", "dual", "mgr"]))
        ep["xy_id_offset"] = {"x": rng.randint(1, 5), "y": rng.choice([0, 0, 2])}
        if rng.random() < 0.5:
            ep["xy_id_offset"]["port_id"] = rng.randint(1, 3)      # not a key of the offset: ignored
        eps.insert(rng.randint(0, len(eps)), ep)       # anywhere in the declaration order: its offset is its own
        conns.append({"src": ename, "dst": rname, "dst_idx": [m - 1, rng.randrange(n)], "dst_dir": "East"})
    return eps, conns, (6 if extra_port else 5)


def flip_conn(c):
    """declare the same undirected connection from the other end"""
    swap = {"src": "dst", "dst": "src", "src_range": "dst_range", "dst_range": "src_range",
            "src_idx": "dst_idx", "dst_idx": "src_idx", "src_lvl": "dst_lvl", "dst_lvl": "src_lvl",
            "src_dir": "dst_dir", "dst_dir": "src_dir"}
    return {swap.get(k, k): v for k, v in c.items()}


def gen_mesh(rng, algo, nettype, m=None, n=None, sides=None, partial_local=None, explicit_bits=False):
    aw = rng.choice([32, 48, 48, 34, rng.randint(20, 64)])
    cfg = base_cfg(rng, "mesh", nettype, algo, aw)
    alloc = AddrAlloc(rng, aw)
    m = m or rng.randint(1, 3)
    n = n or rng.randint(1, 3)
    rname = rng.choice(ROUTER_NAMES)
    if partial_local is None:
        partial_local = rng.random() < 0.3
    eps, conns, degree = mesh_parts(rng, algo, nettype, alloc, m, n, rname, sides, partial_local)
    rt = {"name": rname, "array": [m, n], "degree": degree}
    if algo == "XY" and (explicit_bits or rng.random() < 0.12):
        # coordinate widths spelled out for the router array alone (floogen derives its own)
        from math import ceil, log2
        cfg["routing"]["num_x_bits"] = max(1, ceil(log2(m))) if m > 1 else 1
        cfg["routing"]["num_y_bits"] = max(1, ceil(log2(n))) if n > 1 else 1
    return finish(rng, cfg, eps, [rt], conns)


def gen_mesh_extra(rng, algo, nettype):
    """mesh plus one extra single router of another degree (terapool shape); ID/SRC only"""
    aw = 48
    cfg = base_cfg(rng, "meshx", nettype, algo, aw)
    alloc = AddrAlloc(rng, aw)
    m, n = rng.randint(1, 3), rng.randint(1, 3)
    rname = "group_router"
    eps, conns, degree = mesh_parts(rng, algo, nettype, alloc, m, n, rname, sides=[s for s in ["West", "South"] if rng.random() < 0.5], partial_local=False)
    use_dirs = any("dst_dir" in c or "src_dir" in c for c in conns)
    rt = {"name": rname, "array": [m, n], "degree": degree}
    k = rng.randint(1, 3)
    extra = []
    for nm in rng.sample(["periph", "dbg", "rom", "gpio"], k):
        e = mk_endpoint(rng, nettype, alloc, nm)
        extra.append(e)
        conns.append({"src": "periph_router", "dst": nm} if rng.random() < 0.5 else {"src": nm, "dst": "periph_router"})
    c = {"src": "periph_router", "dst": rname, "dst_idx": [m - 1, n - 1]}
    if use_dirs:
        c["dst_dir"] = "North"
    conns.append(c)
    return finish(rng, cfg, eps + extra, [rt, {"name": "periph_router"}], conns)


def gen_tree(rng, algo, nettype, tree=None, per=None, flip=None):
    aw = 48
    cfg = base_cfg(rng, "tree", nettype, algo, aw)
    alloc = AddrAlloc(rng, aw)
    if tree is None:
        depth = rng.randint(1, 3)
        tree = [1] + [rng.randint(1, 3) for _ in range(depth - 1)]
    rname = rng.choice(ROUTER_NAMES)
    # number of routers per level
    counts = []
    c = 1
    for t in tree:
        c *= t
        counts.append(c)
    eps, conns = [], []
    nm = names(rng, 5)
    # leaves: an array of endpoints spread over the deepest level
    leaf_lvl = len(tree) - 1
    per = per or rng.randint(1, 2)
    total = counts[leaf_lvl] * per
    leaf = mk_endpoint(rng, nettype, alloc, nm[0], array=[total], force_role=rng.choice(["dual", "dual", "mgr", "sbr"]))
    eps.append(leaf)
    c1 = {"src": nm[0], "dst": rname, "src_range": [[0, total - 1]], "dst_lvl": leaf_lvl}
    if per > 1 or rng.random() < 0.3:
        c1["allow_multi"] = True
    conns.append(flip_conn(c1) if (flip if flip is not None else rng.random() >= 0.6) else c1)
    # a few single endpoints on the root
    for e in nm[1:1 + rng.randint(1, 3)]:
        ep = mk_endpoint(rng, nettype, alloc, e)
        eps.append(ep)
        cc = {"src": rname, "dst": e, "src_lvl": 0}
        conns.append(cc if rng.random() < 0.6 else flip_conn(cc))
    if len(tree) >= 2 and rng.random() < 0.4:
        # one more endpoint on a router below the root, addressed by its full index (one entry per level)
        lvl = rng.randint(1, len(tree) - 1)
        idx = [rng.randrange(t) for t in tree[:lvl + 1]]
        nm_extra = next(x for x in NAME_POOL if all(x != e["name"] for e in eps))
        eps.append(mk_endpoint(rng, nettype, alloc, nm_extra))
        cc = {"src": nm_extra, "dst": rname, "dst_idx": idx}
        conns.append(cc if rng.random() < 0.6 else flip_conn(cc))
    return finish(rng, cfg, eps, [{"name": rname, "tree": tree}], conns)


def gen_torus(rng, algo, nettype, m, n):
    """an m x n mesh (ID/SRC) whose rows are closed to rings through their East/West boundary ports"""
    aw = 48
    cfg = base_cfg(rng, "torus", nettype, algo, aw)
    alloc = AddrAlloc(rng, aw)
    ep = mk_endpoint(rng, nettype, alloc, "tile", array=[m, n], force_role="dual")
    conns = [{"src": "tile", "dst": "router", "src_range": [[0, m - 1], [0, n - 1]],
              "dst_range": [[0, m - 1], [0, n - 1]], "dst_dir": "Eject"}]
    for j in range(n):
        conns.append({"src": "router", "src_idx": [m - 1, j], "src_dir": "East",
                      "dst": "router", "dst_idx": [0, j], "dst_dir": "West"})
    return finish(rng, cfg, [ep], [{"name": "router", "array": [m, n], "degree": 5}], conns, shuffle=False)


def gen_chain_hub(rng, algo, nettype, m):
    """a row of m routers whose two ends also meet in a separate hub router that serves a memory"""
    aw = 48
    cfg = base_cfg(rng, "hubring", nettype, algo, aw)
    alloc = AddrAlloc(rng, aw)
    ep = mk_endpoint(rng, nettype, alloc, "tile", array=[m], force_role="dual")
    mem = mk_endpoint(rng, nettype, alloc, "mem", force_role="sbr")
    conns = [{"src": "tile", "dst": "router", "src_range": [[0, m - 1]], "dst_range": [[0, m - 1], [0, 0]], "dst_dir": "Eject"},
             {"src": "router", "src_idx": [0, 0], "src_dir": "West", "dst": "hub"},
             {"src": "router", "src_idx": [m - 1, 0], "src_dir": "East", "dst": "hub"},
             {"src": "mem", "dst": "hub"}]
    return finish(rng, cfg, [ep, mem], [{"name": "router", "array": [m, 1], "degree": 5}, {"name": "hub"}],
                  conns, shuffle=False)


def gen_tree_bypass(rng, algo, nettype, fan):
    """a two-level tree with one extra link between two siblings"""
    aw = 48
    cfg = base_cfg(rng, "bypass", nettype, algo, aw)
    alloc = AddrAlloc(rng, aw)
    leaf = mk_endpoint(rng, nettype, alloc, "tile", array=[fan], force_role="dual")
    eps = [leaf]
    conns = [{"src": "tile", "dst": "router", "src_range": [[0, fan - 1]], "dst_lvl": 1}]
    for e in ["host", "dram"]:
        eps.append(mk_endpoint(rng, nettype, alloc, e, force_role="dual"))
        conns.append({"src": "router", "dst": e, "src_lvl": 0})
    conns.append({"src": "router", "src_idx": [0, 0], "dst": "router", "dst_idx": [0, 1]})
    return finish(rng, cfg, eps, [{"name": "router", "tree": [1, fan]}], conns, shuffle=False)


def gen_overfull(rng, algo, nettype, degree=3):
    """two routers in a row, not auto-connected; one of them has every port taken by an endpoint that
    names its port, so the direction-less link between the routers finds no port there: floogen refuses"""
    aw = 32
    cfg = base_cfg(rng, "overfull", nettype, algo, aw)
    alloc = AddrAlloc(rng, aw)
    dirs = ["North", "East", "South", "West", "Eject"][:degree]
    eps, conns = [], []
    for k, nm in enumerate(["cpu", "mem"]):
        eps.append(mk_endpoint(rng, nettype, alloc, nm, force_role="dual"))
        conns.append({"src": nm, "dst": "router", "dst_idx": [0, 0], "dst_dir": ["North", "South"][k]})
    for k, dr in enumerate(dirs):
        nm = "io_" + "abcde"[k]
        eps.append(mk_endpoint(rng, nettype, alloc, nm, force_role="dual"))
        conns.append({"src": nm, "dst": "router", "dst_idx": [1, 0], "dst_dir": dr})
    conns.append({"src": "router", "dst": "router", "src_idx": [0, 0], "dst_idx": [1, 0]})
    return finish(rng, cfg, eps, [{"name": "router", "array": [2, 1], "auto_connect": False, "degree": degree}],
                  conns, shuffle=False)


def gen_partial_side(rng, algo, nettype, m=2, n=3):
    """m x n mesh with tiles on every router and a boundary array that covers only part of the West side"""
    aw = 48
    cfg = base_cfg(rng, "pside", nettype, algo, aw)
    alloc = AddrAlloc(rng, aw)
    tile = mk_endpoint(rng, nettype, alloc, "tile", array=[m, n], force_role="dual")
    hbm = mk_endpoint(rng, nettype, alloc, "hbm", array=[n - 1], force_role="sbr")
    conns = [{"src": "tile", "dst": "router", "src_range": [[0, m - 1], [0, n - 1]],
              "dst_range": [[0, m - 1], [0, n - 1]], "dst_dir": "Eject"},
             {"src": "hbm", "dst": "router", "src_range": [[0, n - 2]], "dst_range": [[0, 0], [0, n - 2]], "dst_dir": "West"}]
    return finish(rng, cfg, [tile, hbm], [{"name": "router", "array": [m, n], "degree": 5}], conns, shuffle=False)


def gen_tree_manual(rng, algo, nettype):
    """a router tree [2, 1] declared with auto_connect false and wired by hand, not along parent-child pairs"""
    aw = 48
    cfg = base_cfg(rng, "handtree", nettype, algo, aw)
    alloc = AddrAlloc(rng, aw)
    leaf = mk_endpoint(rng, nettype, alloc, "tile", array=[2], force_role="dual")
    host = mk_endpoint(rng, nettype, alloc, "host", force_role="dual")
    conns = [{"src": "tile", "dst": "router", "src_range": [[0, 1]], "dst_lvl": 1},
             {"src": "host", "dst": "router", "dst_idx": [0]},
             {"src": "router", "src_idx": [0], "dst": "router", "dst_idx": [1]},
             {"src": "router", "src_idx": [0], "dst": "router", "dst_idx": [1, 0]},
             {"src": "router", "src_idx": [1], "dst": "router", "dst_idx": [0, 0]}]
    return finish(rng, cfg, [leaf, host], [{"name": "router", "tree": [2, 1], "auto_connect": False}], conns, shuffle=False)


def gen_tree_fan_dirs(rng, algo, nettype):
    """a router tree [1, 3] wired by hand with one multi connection (the three leaves onto the root) that names the
    port on the many side: every leaf's uplink sits on its port 0, the root's ports are free"""
    aw = 48
    cfg = base_cfg(rng, "fandirs", nettype, algo, aw)
    alloc = AddrAlloc(rng, aw)
    leaf = mk_endpoint(rng, nettype, alloc, "tile", array=[3], force_role="dual")
    host = mk_endpoint(rng, nettype, alloc, "host", force_role="dual")
    up = {"src": "router", "src_lvl": 1, "dst": "router", "dst_lvl": 0, "src_dir": 0, "allow_multi": True}
    conns = [up if rng.random() < 0.5 else flip_conn(up),
             {"src": "tile", "dst": "router", "src_range": [[0, 2]], "dst_lvl": 1},
             {"src": "host", "dst": "router", "dst_idx": [0]}]
    return finish(rng, cfg, [leaf, host], [{"name": "router", "tree": [1, 3], "auto_connect": False, "degree": 4}], conns,
                  shuffle=False)


def gen_degree_mesh(rng, algo, nettype, degree, double_eject=False):
    """a row of three routers whose port count is not five: degree 4 has no Eject port (endpoints sit on the
    North ports), degree 6/7 has spare local ports"""
    aw = 48
    cfg = base_cfg(rng, "deg", nettype, algo, aw)
    alloc = AddrAlloc(rng, aw)
    tile = mk_endpoint(rng, nettype, alloc, "tile", array=[3], force_role="dual")
    conns = [{"src": "tile", "dst": "router", "src_range": [[0, 2]], "dst_range": [[0, 2], [0, 0]],
              "dst_dir": "North" if degree == 4 else "Eject"}]
    eps = [tile]
    if degree >= 6 and algo != "XY":     # a numbered local port has no XY coordinate: spare ports stay free there
        io = mk_endpoint(rng, nettype, alloc, "io", force_role="dual")
        eps.append(io)
        # double_eject: the second local endpoint names the Eject port as well (floogen refuses: port taken)
        conns.append({"src": "io", "dst": "router", "dst_idx": [1, 0], "dst_dir": "Eject" if double_eject else 5})
    return finish(rng, cfg, eps, [{"name": "router", "array": [3, 1], "degree": degree}], conns, shuffle=False)


def gen_ring_eject(rng, algo, nettype, num=4):
    """single routers r0..r(num-1) in a ring; the closing link sits on port 4 (`Eject`) of both routers"""
    aw = 48
    cfg = base_cfg(rng, "ring4", nettype, algo, aw)
    alloc = AddrAlloc(rng, aw)
    eps, conns = [], []
    for k in range(num):
        eps.append(mk_endpoint(rng, nettype, alloc, f"e{k}", force_role="dual"))
        conns.append({"src": f"e{k}", "dst": f"r{k}"})
    for k in range(num - 1):
        conns.append({"src": f"r{k}", "dst": f"r{k + 1}"})
    conns.append({"src": f"r{num - 1}", "dst": "r0", "src_dir": 4, "dst_dir": 4})
    return finish(rng, cfg, eps, [{"name": f"r{k}", "degree": 5} for k in range(num)], conns, shuffle=False)


def gen_hub_bypass(rng, algo, nettype, leaves=3, route_bits=6):
    """a high-radix hub between ra and rb plus a longer way round over two pass-through routers;
    the description also spells out `num_route_bits` (which floogen derives itself)"""
    aw = 48
    cfg = base_cfg(rng, "hubby", nettype, algo, aw)
    cfg["routing"]["num_route_bits"] = route_bits
    alloc = AddrAlloc(rng, aw)
    eps, conns = [], []
    rts = ["ra", "rb", "hub", "rc", "rd"] + [f"rl{k}" for k in range(leaves)]
    for e, r in [("a", "ra"), ("b", "rb")] + [(f"l{k}", f"rl{k}") for k in range(leaves)]:
        eps.append(mk_endpoint(rng, nettype, alloc, e, force_role="dual"))
        conns.append({"src": e, "dst": r})
    conns += [{"src": "ra", "dst": "hub"}, {"src": "hub", "dst": "rb"}]
    conns += [{"src": "hub", "dst": f"rl{k}"} for k in range(leaves)]
    conns += [{"src": "ra", "dst": "rc"}, {"src": "rc", "dst": "rd"}, {"src": "rd", "dst": "rb"}]
    return finish(rng, cfg, eps, [{"name": r} for r in rts], conns, shuffle=False)


def gen_chain_xbar(rng, algo, nettype, m=5, k=8):
    """a chain of low-radix routers with one endpoint at either end and a crossbar with k endpoints hanging off
    its middle: the route with the most hops is not the one with the most bits"""
    aw = 48
    cfg = base_cfg(rng, "chainx", nettype, algo, aw)
    alloc = AddrAlloc(rng, aw)
    eps, conns = [], []
    for e, r in [("left", "c0"), ("right", f"c{m - 1}")]:
        eps.append(mk_endpoint(rng, nettype, alloc, e, force_role="dual"))
        conns.append({"src": e, "dst": r})
    for j in range(m - 1):
        conns.append({"src": f"c{j}", "dst": f"c{j + 1}"})
    conns.append({"src": f"c{m // 2}", "dst": "xbar"})
    for j in range(k):
        eps.append(mk_endpoint(rng, nettype, alloc, f"p{j}", force_role="dual"))
        conns.append({"src": f"p{j}", "dst": "xbar"})
    return finish(rng, cfg, eps, [{"name": f"c{j}"} for j in range(m)] + [{"name": "xbar"}], conns, shuffle=False)


def gen_name_prefix_routers(rng, algo, nettype):
    """three single routers in a triangle; one name is contained in another (sw, sw2), the longer one first"""
    aw = 48
    cfg = base_cfg(rng, "tri", nettype, algo, aw)
    alloc = AddrAlloc(rng, aw)
    eps, conns = [], []
    for e, r in [("cpu", "sw2"), ("mem", "sw"), ("io", "edge")]:
        eps.append(mk_endpoint(rng, nettype, alloc, e, force_role="dual"))
        conns.append({"src": e, "dst": r})
    conns += [{"src": "edge", "dst": "sw2"}, {"src": "edge", "dst": "sw"}, {"src": "sw2", "dst": "sw"}]
    return finish(rng, cfg, eps, [{"name": "sw2"}, {"name": "sw"}, {"name": "edge"}], conns, shuffle=False)


def gen_prefix_protocols(rng, algo):
    """axi star whose protocols keep the default type prefix; one manager-only endpoint uses a protocol whose
    name is another protocol's name without that prefix (`in` next to `axi_in`)"""
    aw = 32
    cfg = base_cfg(rng, "pfx", "axi", algo, aw)
    def prot(name, idw):
        return {"name": name, "protocol": "AXI4", "data_width": 64, "addr_width": aw, "id_width": idw, "user_width": 1}
    cfg["protocols"] = [prot("axi_in", 4), prot("in", 4), prot("out", 3)]
    eps = [{"name": "cluster", "array": [2], "addr_range": {"base": 0x1000_0000, "size": 0x1_0000},
            "mgr_port_protocol": ["axi_in"], "sbr_port_protocol": ["out"]},
           {"name": "host", "mgr_port_protocol": ["in"]},
           {"name": "mem", "addr_range": {"start": 0x8000_0000, "size": 0x1000_0000}, "sbr_port_protocol": ["out"]}]
    conns = [{"src": "cluster", "dst": "xbar", "src_range": [[0, 1]], "allow_multi": True},
             {"src": "host", "dst": "xbar"}, {"src": "mem", "dst": "xbar"}]
    cfg.update(endpoints=eps, routers=[{"name": "xbar"}], connections=conns)
    return cfg


def gen_deep_tree(rng, algo, nettype, tree):
    """a big router tree with endpoints on the root only (names with three numeric segments)"""
    aw = 48
    cfg = base_cfg(rng, "deep", nettype, algo, aw)
    alloc = AddrAlloc(rng, aw)
    eps, conns = [], []
    for e in names(rng, 3):
        eps.append(mk_endpoint(rng, nettype, alloc, e, force_role="dual"))
        conns.append({"src": "router", "dst": e, "src_lvl": 0})
    return finish(rng, cfg, eps, [{"name": "router", "tree": tree}], conns, shuffle=False)


def gen_chain_express(rng, algo, nettype, m):
    """an m x 1 row of routers with one endpoint each and an express link between its two ends"""
    aw = 48
    cfg = base_cfg(rng, "chain", nettype, algo, aw)
    alloc = AddrAlloc(rng, aw)
    ep = mk_endpoint(rng, nettype, alloc, "tile", array=[m], force_role="dual")
    conns = [{"src": "tile", "dst": "router", "src_range": [[0, m - 1]], "dst_range": [[0, m - 1], [0, 0]], "dst_dir": "Eject"},
             {"src": "router", "src_idx": [0, 0], "src_dir": "West", "dst": "router", "dst_idx": [m - 1, 0], "dst_dir": "East"}]
    return finish(rng, cfg, [ep], [{"name": "router", "array": [m, 1], "degree": 5}], conns, shuffle=False)


def gen_custom(rng, algo, nettype):
    """explicit router-router connections between single routers (connected graph)"""
    aw = 48
    cfg = base_cfg(rng, "custom", nettype, algo, aw)
    alloc = AddrAlloc(rng, aw)
    k = rng.randint(2, 5)
    rts = [f"r{i}" for i in range(k)]
    conns = []
    # random spanning tree + a few chords
    for i in range(1, k):
        j = rng.randrange(0, i)
        conns.append({"src": rts[i], "dst": rts[j]})
    for _ in range(rng.randint(0, 2)):
        a, b = rng.sample(range(k), 2)
        if not any({c["src"], c["dst"]} == {rts[a], rts[b]} for c in conns):
            conns.append({"src": rts[a], "dst": rts[b]})
    eps = []
    ne = rng.randint(2, 5)
    for nm in names(rng, ne):
        ep = mk_endpoint(rng, nettype, alloc, nm)
        eps.append(ep)
        r = rng.choice(rts)
        conns.append({"src": nm, "dst": r} if rng.random() < 0.5 else {"src": r, "dst": nm})
    return finish(rng, cfg, eps, [{"name": r} for r in rts], conns)


def gen_p2p(rng, algo, nettype):
    """two endpoints wired back to back, no router at all"""
    aw = 48
    cfg = base_cfg(rng, "p2p", nettype, algo, aw)
    alloc = AddrAlloc(rng, aw)
    a, b = names(rng, 2)
    ea = mk_endpoint(rng, nettype, alloc, a, force_role=rng.choice(["dual", "mgr"]))
    eb = mk_endpoint(rng, nettype, alloc, b, force_role=rng.choice(["dual", "sbr"]))
    return finish(rng, cfg, [ea, eb], [], [{"src": a, "dst": b}])


def gen_split(rng, algo, nettype):
    """two stars that are not connected to each other (floogen finds no path and rejects)"""
    aw = 48
    cfg = base_cfg(rng, "split", nettype, algo, aw)
    alloc = AddrAlloc(rng, aw)
    eps, conns = [], []
    nm = names(rng, 4)
    for i, r in enumerate(["ra", "rb"]):
        for e in nm[2 * i: 2 * i + 2]:
            eps.append(mk_endpoint(rng, nettype, alloc, e, force_role="dual"))
            conns.append({"src": e, "dst": r})
    return finish(rng, cfg, eps, [{"name": "ra"}, {"name": "rb"}], conns)


def gen_ring(rng, algo, nettype):
    """routers in a cycle, endpoints spread unevenly (a hub with many ports next to 2-port routers)"""
    aw = 48
    cfg = base_cfg(rng, "ring", nettype, algo, aw)
    alloc = AddrAlloc(rng, aw)
    k = rng.randint(3, 7)
    rts = [f"q{i}" for i in range(k)]
    conns = [{"src": rts[i], "dst": rts[(i + 1) % k]} for i in range(k)]
    if rng.random() < 0.3:
        rng.shuffle(conns)
    eps = []
    hub = rng.randrange(k)
    if k >= 5 and rng.random() < 0.5:
        # a many-port hub between two lightly loaded neighbours, nothing on the far side of the ring
        homes = [hub] * rng.randint(2, 4) + [(hub - 1) % k, (hub + 1) % k]
    else:
        homes = [hub] * rng.randint(1, 3) + [rng.randrange(k) for _ in range(rng.randint(1, 3))]
    homes = homes[:6]
    for nm, h in zip(names(rng, len(homes)), homes):
        eps.append(mk_endpoint(rng, nettype, alloc, nm))
        conns.append({"src": nm, "dst": rts[h]} if rng.random() < 0.5 else {"src": rts[h], "dst": nm})
    return finish(rng, cfg, eps, [{"name": r} for r in rts], conns, shuffle=False)


def gen_manual_mesh(rng, algo, nettype):
    """a router array without auto_connect: every neighbour link is an explicit router-router connection
    with directions (occasionally only the source side names its direction)"""
    aw = 48
    cfg = base_cfg(rng, "manual", nettype, algo, aw)
    alloc = AddrAlloc(rng, aw)
    m, n = rng.randint(1, 3), rng.randint(1, 3)
    if m * n == 1:
        m = 2
    rname = rng.choice(ROUTER_NAMES)
    conns = []
    one_sided = algo == "XY" and rng.random() < 0.3
    for i in range(m):
        for j in range(n):
            if i + 1 < m:
                c = {"src": rname, "src_idx": [i, j], "src_dir": "East", "dst": rname, "dst_idx": [i + 1, j], "dst_dir": "West"}
                conns.append(c)
            if j + 1 < n:
                c = {"src": rname, "src_idx": [i, j], "src_dir": "North", "dst": rname, "dst_idx": [i, j + 1], "dst_dir": "South"}
                conns.append(c)
    if one_sided and conns:
        conns[rng.randrange(len(conns))].pop("dst_dir")
    nm = names(rng, 2)
    loc = mk_endpoint(rng, nettype, alloc, nm[0], array=[m, n], force_role="dual")
    conns.append({"src": nm[0], "dst": rname, "src_range": [[0, m - 1], [0, n - 1]],
                  "dst_range": [[0, m - 1], [0, n - 1]], "dst_dir": "Eject"})
    if rng.random() < 0.4:
        rng.shuffle(conns)
    return finish(rng, cfg, [loc], [{"name": rname, "array": [m, n], "degree": 5, "auto_connect": False}], conns, shuffle=False)


FAMILIES = {
    "manual": gen_manual_mesh,
    "ring": gen_ring,
    "p2p": gen_p2p,
    "split": gen_split,
    "star": gen_star,
    "mesh": gen_mesh,
    "meshx": gen_mesh_extra,
    "tree": gen_tree,
    "custom": gen_custom,
}


def num_instances(cfg):
    tot = 0
    for e in cfg["endpoints"]:
        a = e.get("array")
        if a is None:
            tot += 1
        elif isinstance(a, int):
            tot += a
        else:
            k = 1
            for x in a:
                k *= x
            tot += k
    return tot


def gen_case(rng, families=None, algos=None, nettypes=None):
    """one description; returns (meta, cfg)"""
    for _ in range(50):
        fam = rng.choice(families or ["star", "mesh", "mesh", "meshx", "tree", "custom"])
        algo = rng.choice(algos or ["XY", "ID", "SRC"])
        if algo == "XY" and fam != "mesh":
            fam = "mesh"
            if (families is None or "custom" in families) and rng.random() < 0.1:
                fam = "manual"
        if algo != "XY" and families is None or (families and "custom" in families and algo != "XY"):
            u = rng.random()
            if u < 0.03 and algo == "ID":
                fam = "p2p"
            elif 0.05 <= u < 0.17:
                fam = "ring"
            elif 0.17 <= u < 0.21:
                fam = "manual"
            elif u < 0.05:
                fam = "split"
        nettype = rng.choice(nettypes or ["axi", "narrow-wide"])
        cfg = FAMILIES[fam](rng, algo, nettype)
        if cfg is not None and num_instances(cfg) < 2:
            continue
        if cfg is not None:
            return {"family": fam, "algo": algo, "nettype": nettype}, cfg
    raise RuntimeError("generator failed")


def permutations_of(cfg, limit=24):
    """all permutations of endpoint and connection order (bounded)"""
    eps, conns = cfg["endpoints"], cfg["connections"]
    out = []
    for pe in itertools.islice(itertools.permutations(range(len(eps))), limit):
        for pc in itertools.islice(itertools.permutations(range(len(conns))), limit):
            c = dict(cfg)
            c["endpoints"] = [eps[i] for i in pe]
            c["connections"] = [conns[i] for i in pc]
            out.append(c)
    return out


def stats_key(meta, cfg):
    neps = sum(1 for _ in cfg["endpoints"])
    return f'{meta["family"]}/{meta["algo"]}/{meta["nettype"]}/eps{neps}'


def _retrying(f):
    """the builders give up (None) when a drawn role mix leaves a protocol unused: draw again a few times"""
    def g(rng, *a, **k):
        for _ in range(6):
            r = f(rng, *a, **k)
            if r:
                return r
        return None
    g.__name__ = f.__name__
    g.__doc__ = f.__doc__
    return g


def degenerate_cases(algos=None):
    """the smallest and the extreme members of the families, fixed (no random draws): single endpoint, networks without a
    router, one-element and unit-dimension arrays, one-level and fan-out-one trees, one-port routers, endpoint counts
    that are powers of two, an address map with a single entry.  Yields (name, cfg)."""
    def prot(nm, idw, kind=None, dw=64):
        p = {"name": nm, "protocol": "AXI4", "data_width": dw, "addr_width": 32, "id_width": idw, "user_width": 1}
        if kind:
            p["type"] = kind
        return p

    def base(name, nt, algo):
        prots = [prot("axi_in", 3), prot("axi_out", 2)] if nt == "axi" else \
            [prot("narrow_in", 4, "narrow"), prot("narrow_out", 2, "narrow"),
             prot("wide_in", 3, "wide", 512), prot("wide_out", 1, "wide", 512)]
        return {"name": name, "description": "generated", "network_type": nt,
                "routing": {"route_algo": algo, "use_id_table": True}, "protocols": prots}

    def ep(nt, name, at, role="dual", array=None, size=0x1000):
        m = ["axi_in"] if nt == "axi" else ["narrow_in", "wide_in"]
        s_ = ["axi_out"] if nt == "axi" else ["narrow_out", "wide_out"]
        e = {"name": name}
        if array is not None:
            e["array"] = array
        if role in ("dual", "mgr"):
            e["mgr_port_protocol"] = m
        if role in ("dual", "sbr"):
            e["sbr_port_protocol"] = s_
            e["addr_range"] = {"base": at, "size": size}
        return e

    for algo in (algos or ["ID", "SRC", "XY"]):
        for nt in ("axi", "narrow-wide"):
            tag = f"{algo}:{nt}"
            if algo != "XY":
                # one endpoint on one router; two endpoints and no router at all
                c = base("one", nt, algo)
                c.update(endpoints=[ep(nt, "solo", 0x1000)], routers=[{"name": "r"}], connections=[{"src": "solo", "dst": "r"}])
                yield f"degenerate:one-endpoint:{tag}", c
                c = base("p2p", nt, algo)
                c.update(endpoints=[ep(nt, "dma", 0x1000), ep(nt, "mem", 0x8000)], routers=[],
                         connections=[{"src": "dma", "dst": "mem"}])
                yield f"degenerate:no-router:{tag}", c
                # arrays with one element / unit dimensions on a crossbar, next to a plain endpoint
                for arr in ([1], [1, 1], [1, 3], [3, 1]):
                    n = arr[0] * arr[-1] if len(arr) == 2 else arr[0]
                    c = base("unit", nt, algo)
                    rng_ = [[0, a - 1] for a in arr]
                    c.update(endpoints=[ep(nt, "tile", 0x10000, array=arr), ep(nt, "host", 0x1000)],
                             routers=[{"name": "xbar"}],
                             connections=[dict({"src": "tile", "dst": "xbar", "src_range": rng_}, **({"allow_multi": True} if n > 1 else {})),
                                          {"src": "host", "dst": "xbar"}])
                    yield f"degenerate:array{arr}:{tag}", c
                # trees with one level, fan-out one, a pass-through middle level; a stub router with a single link
                for tree in ([1], [3], [1, 1], [1, 1, 1], [1, 2, 1]):
                    leaves = 1
                    for t in tree:
                        leaves *= t
                    c = base("tr", nt, algo)
                    conns = [{"src": "tile", "dst": "router", "src_range": [[0, leaves - 1]], "dst_lvl": len(tree) - 1},
                             {"src": "host", "dst": "router", "dst_idx": [0]}]
                    if tree == [3]:
                        conns += [{"src": "router", "src_idx": [0], "dst": "router", "dst_idx": [1]},
                                  {"src": "router", "src_idx": [1], "dst": "router", "dst_idx": [2]}]
                    c.update(endpoints=[ep(nt, "tile", 0x10000, array=[leaves]), ep(nt, "host", 0x1000)],
                             routers=[{"name": "router", "tree": tree}], connections=conns)
                    yield f"degenerate:tree{tree}:{tag}", c
                c = base("stub", nt, algo)
                c.update(endpoints=[ep(nt, "a", 0x1000), ep(nt, "b", 0x2000), ep(nt, "c", 0x3000)],
                         routers=[{"name": "hub"}, {"name": "stub"}, {"name": "spare", "degree": 3}],
                         connections=[{"src": "a", "dst": "hub"}, {"src": "b", "dst": "hub"}, {"src": "c", "dst": "hub"},
                                      {"src": "hub", "dst": "stub"}, {"src": "hub", "dst": "spare"}])
                yield f"degenerate:stub-routers:{tag}", c
                # endpoint counts that are powers of two; an address map with one entry
                for k in (2, 4, 8):
                    c = base("pow2", nt, algo)
                    c.update(endpoints=[ep(nt, "tile", 0x10000, array=[k])], routers=[{"name": "xbar"}],
                             connections=[{"src": "tile", "dst": "xbar", "src_range": [[0, k - 1]], "allow_multi": True}])
                    yield f"degenerate:{k}-endpoints:{tag}", c
                c = base("onesam", nt, algo)
                c.update(endpoints=[ep(nt, "cpu", 0, role="mgr"), ep(nt, "dma", 0, role="mgr"), ep(nt, "mem", 0x8000_0000, role="sbr")],
                         routers=[{"name": "xbar"}],
                         connections=[{"src": e, "dst": "xbar"} for e in ("cpu", "dma", "mem")])
                yield f"degenerate:one-sam-entry:{tag}", c
                # one window that is the whole address space
                c = base("whole", nt, algo)
                c.update(endpoints=[ep(nt, "cpu", 0, role="mgr"), ep(nt, "dma", 0, role="mgr"),
                                    dict(ep(nt, "mem", 0, role="sbr"), addr_range={"start": 0, "end": 0x1_0000_0000})],
                         routers=[{"name": "xbar"}], connections=[{"src": e_, "dst": "xbar"} for e_ in ("cpu", "dma", "mem")])
                yield f"degenerate:whole-space-window:{tag}", c
                # a window that starts at 0 and one that ends exactly at the top of the address space
                c = base("edges", nt, algo)
                c.update(endpoints=[ep(nt, "low", 0), dict(ep(nt, "high", 0), addr_range={"start": 0xFFFF_0000, "end": 0x1_0000_0000})],
                         routers=[{"name": "xbar"}], connections=[{"src": "low", "dst": "xbar"}, {"src": "high", "dst": "xbar"}])
                yield f"degenerate:space-edges:{tag}", c
                # pure roles: only managers next to one subordinate, and the other way round
                c = base("roles", nt, algo)
                c.update(endpoints=[ep(nt, "m", 0, role="mgr", array=[3]), ep(nt, "s", 0x8000, role="sbr")], routers=[{"name": "x"}],
                         connections=[{"src": "m", "dst": "x", "src_range": [[0, 2]], "allow_multi": True}, {"src": "s", "dst": "x"}])
                yield f"degenerate:managers+1:{tag}", c
                c = base("roles", nt, algo)
                c.update(endpoints=[ep(nt, "s", 0x8000, role="sbr", array=[3]), ep(nt, "m", 0, role="mgr")], routers=[{"name": "x"}],
                         connections=[{"src": "s", "dst": "x", "src_range": [[0, 2]], "allow_multi": True}, {"src": "m", "dst": "x"}])
                yield f"degenerate:subordinates+1:{tag}", c
                # a one-byte window at 0 and one at the very top of a 64-bit space
                c = base("aw64", nt, algo)
                for p_ in c["protocols"]:
                    p_["addr_width"] = 64
                c.update(endpoints=[ep(nt, "a", 0, size=1), dict(ep(nt, "b", 0), addr_range={"start": (1 << 64) - 1, "end": 1 << 64})],
                         routers=[{"name": "x"}], connections=[{"src": "a", "dst": "x"}, {"src": "b", "dst": "x"}])
                yield f"degenerate:one-byte-windows:{tag}", c
                # fan-out-one tree with an endpoint on each level
                c = base("t11", nt, algo)
                c.update(endpoints=[ep(nt, "a", 0x1000), ep(nt, "b", 0x2000)], routers=[{"name": "r", "tree": [1, 1]}],
                         connections=[{"src": "a", "dst": "r", "dst_lvl": 0}, {"src": "b", "dst": "r", "dst_lvl": 1}])
                yield f"degenerate:tree[1,1]-both-levels:{tag}", c
            else:
                # XY: a single router with boundary endpoints on every subset of its sides
                import itertools
                for k in range(0, 5):
                    for sides in itertools.combinations(["North", "East", "South", "West"], k):
                        c = base("x11", nt, "XY")
                        eps = [ep(nt, "tile", 0x10000, array=[1, 1])]
                        conns = [{"src": "tile", "dst": "router", "src_range": [[0, 0], [0, 0]], "dst_range": [[0, 0], [0, 0]],
                                  "dst_dir": "Eject"}]
                        for j, sd in enumerate(sides):
                            eps.append(ep(nt, "b" + sd.lower(), 0x1000 * (j + 1)))
                            conns.append({"src": "b" + sd.lower(), "dst": "router", "dst_idx": [0, 0], "dst_dir": sd})
                        c.update(endpoints=eps, routers=[{"name": "router", "array": [1, 1], "degree": 5}], connections=conns)
                        yield f"degenerate:mesh1x1+{'+'.join(sides) or 'none'}:{tag}", c
                # XY: boundary endpoints only, nothing on the local ports
                for (m, n, sd) in ((2, 1, "North"), (2, 1, "South"), (1, 2, "East"), (1, 2, "West"), (2, 2, "West")):
                    c = base("bo", nt, "XY")
                    cnt = m if sd in ("North", "South") else n
                    if sd in ("North", "South"):
                        rr = [[0, m - 1], [0, 0]] if sd == "South" else [[0, m - 1], [n - 1, n - 1]]
                    else:
                        rr = [[0, 0], [0, n - 1]] if sd == "West" else [[m - 1, m - 1], [0, n - 1]]
                    c.update(endpoints=[ep(nt, "mem", 0x10000, array=[cnt])], routers=[{"name": "router", "array": [m, n], "degree": 5}],
                             connections=[{"src": "mem", "dst": "router", "src_range": [[0, cnt - 1]], "dst_range": rr, "dst_dir": sd}])
                    yield f"degenerate:boundary-only:{m}x{n}:{sd}:{tag}", c
                # XY: one router; one row / one column of routers, with endpoints on the local ports and on one side
                for (m, n) in ((1, 1), (1, 3), (3, 1)):
                    c = base("line", nt, "XY")
                    eps = [ep(nt, "tile", 0x10000, array=[m, n])]
                    conns = [{"src": "tile", "dst": "router", "src_range": [[0, m - 1], [0, n - 1]],
                              "dst_range": [[0, m - 1], [0, n - 1]], "dst_dir": "Eject"}]
                    if (m, n) != (1, 1):
                        eps.append(ep(nt, "io", 0x1000))
                        conns.append({"src": "io", "dst": "router", "dst_idx": [0, 0], "dst_dir": "West" if n == 1 else "South"})
                    c.update(endpoints=eps, routers=[{"name": "router", "array": [m, n], "degree": 5}], connections=conns)
                    yield f"degenerate:mesh{m}x{n}:{tag}", c


for _n in ("gen_star", "gen_mesh", "gen_mesh_extra", "gen_tree", "gen_torus", "gen_chain_hub", "gen_tree_bypass",
           "gen_overfull", "gen_degree_mesh", "gen_ring_eject", "gen_hub_bypass", "gen_chain_xbar", "gen_tree_manual",
           "gen_partial_side", "gen_name_prefix_routers", "gen_chain_express", "gen_deep_tree", "gen_tree_fan_dirs"):
    if _n in globals():
        globals()[_n] = _retrying(globals()[_n])

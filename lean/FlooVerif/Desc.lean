/-
  The description (YAML) as the Lean side sees it: plain structures, no Json here.
-/
namespace FlooVerif

inductive Algo where | XY | YX | ID | SRC
  deriving Repr, DecidableEq, Inhabited

inductive NetType where | axi | nw
  deriving Repr, DecidableEq, Inhabited

structure ProtDesc where
  name : String
  type : Option String := none     -- "narrow" | "wide"
  dataW : Nat
  addrW : Nat
  idW : Nat
  userW : Nat
  typePrefix : Option String := some "axi"
  direction : Option String := none   -- may be declared; otherwise inferred from use
  deriving Repr, DecidableEq, Inhabited

def ProtDesc.typeName (p : ProtDesc) : String :=
  match p.typePrefix with
  | some pre => pre ++ "_" ++ p.name
  | none => p.name

/-- Raw address range specification (the keys that were given and not null). -/
structure RangeSpec where
  start : Option Int := none
  stop : Option Int := none        -- `end`
  size : Option Int := none
  base : Option Int := none
  idx : Option Int := none
  desc : Option String := none
  deriving Repr, DecidableEq, Inhabited

structure EpDesc where
  name : String
  array : Option (List Nat) := none        -- [n] or [m, n]
  ranges : List RangeSpec := []
  mgr : Option (List String) := none
  sbr : Option (List String) := none
  xyOffset : Option (Int × Int) := none
  deriving Repr, DecidableEq, Inhabited

def EpDesc.isSbr (e : EpDesc) : Bool := e.sbr.isSome
def EpDesc.isMgr (e : EpDesc) : Bool := e.mgr.isSome
def EpDesc.isOnlySbr (e : EpDesc) : Bool := e.isSbr && !e.isMgr
def EpDesc.isOnlyMgr (e : EpDesc) : Bool := e.isMgr && !e.isSbr
def EpDesc.num (e : EpDesc) : Nat :=
  match e.array with
  | none => 1
  | some l => l.foldl (· * ·) 1

structure RtDesc where
  name : String
  array : Option (List Nat) := none
  tree : Option (List Nat) := none
  xyOffset : Option (Int × Int) := none
  autoConnect : Bool := true
  degree : Option Nat := none
  deriving Repr, DecidableEq, Inhabited

structure ConnDesc where
  src : String
  dst : String
  srcRange : Option (List (Int × Int)) := none
  dstRange : Option (List (Int × Int)) := none
  srcIdx : Option (List Int) := none
  dstIdx : Option (List Int) := none
  srcLvl : Option Int := none
  dstLvl : Option Int := none
  srcDir : Option Nat := none
  dstDir : Option Nat := none
  allowMulti : Bool := false
  bidirectional : Bool := true
  deriving Repr, DecidableEq, Inhabited

structure Desc where
  name : String
  netType : NetType
  algo : Algo
  useIdTable : Bool := true
  addrOffsetBits : Option Nat := none      -- as written in the description
  robIdxBits : Nat := 1
  portIdBits : Nat := 1
  numVcIdBits : Nat := 0
  protocols : List ProtDesc
  endpoints : List EpDesc
  routers : List RtDesc
  connections : List ConnDesc
  deriving Repr, DecidableEq, Inhabited

def Desc.addrW (d : Desc) : Nat := (d.protocols.head?.map (·.addrW)).getD 0

end FlooVerif

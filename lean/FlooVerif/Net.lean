/-
  `Net`: the semantic view of the two emitted files — what the RTL is handed.
  Extracted from the `Sv` ASTs by name lookups; every top-level item must be claimed.
-/
import FlooVerif.Sv
namespace FlooVerif
open Sv

inductive IdVal where
  | simple (n : Nat)
  | coord (x y p : Int)
  deriving Repr, DecidableEq, Inhabited

inductive Lit where
  | sized (w : Nat) (base : Char) (digits : String)
  | plain (n : Nat)
  deriving Repr, DecidableEq, Inhabited

def digitVal (c : Char) : Option Nat :=
  if '0' ≤ c ∧ c ≤ '9' then some (c.toNat - '0'.toNat)
  else if 'a' ≤ c ∧ c ≤ 'f' then some (c.toNat - 'a'.toNat + 10)
  else if 'A' ≤ c ∧ c ≤ 'F' then some (c.toNat - 'A'.toNat + 10)
  else none

def baseOf (c : Char) : Option Nat :=
  match c with
  | 'h' | 'H' => some 16
  | 'b' | 'B' => some 2
  | 'd' | 'D' => some 10
  | 'o' | 'O' => some 8
  | _ => none

/-- Value of a digit string in a base, most significant first; `_` skipped.
    `none` on a digit that is not valid in the base. -/
def digitsVal (base : Nat) (ds : List Char) : Option Nat :=
  ds.foldl (fun acc c =>
    if c == '_' then acc else
    match acc, digitVal c with
    | some a, some v => if v < base then some (a * base + v) else none
    | _, _ => none) (some 0)

def Lit.val? : Lit → Option Nat
  | .plain n => some n
  | .sized _ b ds => (baseOf b).bind fun bb => digitsVal bb ds.toList

def Lit.val (l : Lit) : Nat := l.val?.getD 0

/-- A sized literal holds its value in the stated width. -/
def Lit.fits (l : Lit) : Bool :=
  match l with
  | .plain _ => true
  | .sized w _ _ =>
    match l.val? with
    | some v => decide (v < 2 ^ w)
    | none => false

def Lit.numDigits : Lit → Nat
  | .plain _ => 0
  | .sized _ _ ds => (ds.toList.filter (· != '_')).length

structure Rule where
  idx : IdVal
  start : Lit
  stop : Lit
  deriving Repr, DecidableEq, Inhabited

structure EnumT where
  width : Nat
  members : List (String × Nat)
  deriving Repr, DecidableEq, Inhabited

inductive IdType where
  | bits (n : Nat)
  | xy (x y : Nat) (port : Option Nat)
  deriving Repr, DecidableEq, Inhabited

inductive SigRef where
  | whole (s : String)
  | elem (s : String) (i : Nat)
  | zero
  | other
  deriving Repr, DecidableEq, Inhabited

def SigRef.ofExpr : Expr → SigRef
  | .ident s => .whole s
  | .index (.ident s) (.num i) => .elem s i
  | .tick '0' => .zero
  | _ => .other

structure Inst where
  mod : String
  name : String
  params : List (String × Expr)
  binds : List Bind

structure SigDecl where
  ty : String
  len : Option Nat          -- packed array length (hi+1) if declared `[hi:0]`
  name : String
  deriving Repr, DecidableEq, Inhabited

structure Net where
  pkg : Package
  top : Module
  epEnum : EnumT
  samIdxEnum : EnumT
  idType : IdType
  routeBits : Option Nat
  aw : Nat
  samNumRules : Nat
  samDeclared : Bool              -- `Sam` declared as `[SamNumRules-1:0]`
  tableless : Bool := false       -- `use_id_table: false`: one-bit dummy `Sam`, no address map
  sam : List Rule                 -- listing order
  routingTables : Option (List (List Lit))
  routeCfg : List (String × Expr)
  decls : List SigDecl
  assigns : List (SigRef × SigRef)
  insts : List Inst
  localparams : List (String × TypeRef × Expr)     -- of the top module
  pkgParams : List (String × TypeRef × Expr)
  topStructs : List (String × List (TypeRef × String)) := []   -- struct typedefs of the top module

/-! ### helpers on expressions -/

def exprNat? : Expr → Option Nat
  | .num n => some n
  | _ => none

def exprInt? : Expr → Option Int
  | .num n => some n
  | .neg (.num n) => some (-(n : Int))
  | _ => none

def exprLit? : Expr → Option Lit
  | .num n => some (.plain n)
  | .lit w b d => some (.sized w b d)
  | _ => none

def patField (fs : List (Option String × Expr)) (k : String) : Option Expr :=
  (fs.find? (·.1 == some k)).map (·.2)

def exprIdVal? : Expr → Option IdVal
  | .num n => some (.simple n)
  | .cast _ (.num n) => some (.simple n)
  | .pat fs =>
    match (patField fs "x").bind exprInt?, (patField fs "y").bind exprInt? with
    | some x, some y =>
      let p := ((patField fs "port_id").bind exprInt?).getD 0
      some (.coord x y p)
    | _, _ => none
  | _ => none

def exprRule? : Expr → Option Rule
  | .pat fs =>
    match (patField fs "idx").bind exprIdVal?, (patField fs "start_addr").bind exprLit?,
          (patField fs "end_addr").bind exprLit? with
    | some i, some s, some e => some { idx := i, start := s, stop := e }
    | _, _, _ => none
  | _ => none

/-- `[hi:0]` with numeric hi → length hi+1 -/
def dimLen? : List (Expr × Expr) → Option (Option Nat)
  | [] => some none
  | [(.num h, .num 0)] => some (some (h + 1))
  | _ => none

/-- number of bits of a packed dimension `[h:0]`; floogen writes `[-1:0]` for a
    zero-bit quantity, which SystemVerilog reads as the two-bit range -1..0 -/
def dimBits? : Expr × Expr → Option Nat
  | (.num h, .num 0) => some (h + 1)
  | (.neg (.num h), .num 0) => some (h + 1)
  | _ => none

def enumOf? (base : TypeRef) (ms : List (String × Expr)) : Option EnumT := do
  let w ← match base.dims with
    | [d] => dimBits? d
    | [] => some 1
    | _ => none
  let members ← ms.mapM fun (n, v) => do
    let k ← exprNat? v
    pure (n, k)
  pure { width := w, members := members }

def findTypedefEnum (items : List Item) (name : String) : Option EnumT :=
  items.findSome? fun
    | .typedefEnum b ms n => if n == name then enumOf? b ms else none
    | _ => none

def findTypedef (items : List Item) (name : String) : Option TypeRef :=
  items.findSome? fun
    | .typedef t n => if n == name then some t else none
    | _ => none

def findStruct (items : List Item) (name : String) : Option (List (TypeRef × String)) :=
  items.findSome? fun
    | .typedefStruct fs n => if n == name then some fs else none
    | _ => none

def findParam (items : List Item) (name : String) : Option (TypeRef × Expr) :=
  items.findSome? fun
    | .localparam t n v => if n == name then some (t, v) else none
    | _ => none

/-- `logic [h:0]` ↦ h+1, `logic` ↦ 1 -/
def logicBits? (t : TypeRef) : Option Nat :=
  match t.words, t.dims with
  | ["logic"], [d] => dimBits? d
  | ["logic"], [] => some 1
  | _, _ => none

def logicVecBits? (t : TypeRef) : Option Nat :=
  match t.words, t.dims with
  | ["logic"], [d] => dimBits? d
  | _, _ => none

def typeBits? (items : List Item) (name : String) : Option Nat :=
  (findTypedef items name).bind logicBits?

def Net.ofSv (pkg : Package) (top : Module) : Except String Net := do
  let some epEnum := findTypedefEnum pkg.items "ep_id_e" | throw "no ep_id_e"
  let some samIdxEnum := findTypedefEnum pkg.items "sam_idx_e" | throw "no sam_idx_e"
  let idType ←
    match findStruct pkg.items "id_t" with
    | some fs =>
      let fld (n : String) := (fs.find? (·.2 == n)).bind fun (t, _) =>
        match t.words with | [w] => typeBits? pkg.items w | _ => none
      match fld "x", fld "y" with
      | some x, some y => pure (IdType.xy x y (fld "port_id"))
      | _, _ => throw "id_t struct without x/y"
    | none =>
      match typeBits? pkg.items "id_t" with
      | some n => pure (IdType.bits n)
      | none => throw "no id_t"
  let routeBits := (findTypedef pkg.items "route_t").bind logicVecBits?
  -- `use_id_table: false`: the package carries a one-bit dummy `Sam` and no address map
  let tableless := (findParam pkg.items "SamNumRules").isNone && (findParam pkg.items "NumSamRules").isSome &&
    (findStruct pkg.items "sam_rule_t").isNone
  let (aw, samNumRules, samDeclared, sam) ←
    if tableless then
      match findParam pkg.items "Sam" with
      | some (_, .tick '0') => pure (0, 0, true, ([] : List Rule))
      | _ => throw "table-less package without `Sam = '0`"
    else do
      let some (_, samNum) := findParam pkg.items "SamNumRules" | throw "no SamNumRules"
      let some samNumRules := exprNat? samNum | throw "SamNumRules not numeric"
      let some samFields := findStruct pkg.items "sam_rule_t" | throw "no sam_rule_t"
      let aw ←
        match ((samFields.find? (·.2 == "start_addr")).map (·.1)).bind logicVecBits? with
        | some w => pure w
        | none => throw "sam_rule_t.start_addr has no width"
      let some (samTy, samVal) := findParam pkg.items "Sam" | throw "no Sam"
      let sam ←
        match samVal with
        | .pat fs =>
          fs.mapM fun (k, e) =>
            match k, exprRule? e with
            | none, some r => pure r
            | _, _ => throw "bad Sam entry"
        | _ => throw "Sam is not a pattern"
      let samDeclared := samTy.dims.length == 1 &&
        (samTy.dims.head?.map fun (h, l) => h == Expr.sub (.ident "SamNumRules") (.num 1) && l == .num 0) == some true
      pure (aw, samNumRules, samDeclared, sam)
  let routingTables ←
    match findParam pkg.items "RoutingTables" with
    | none => pure none
    | some (_, .pat rows) =>
      let rs ← rows.mapM fun (_, row) =>
        match row with
        | .pat es => es.mapM fun (_, e) =>
            match exprLit? e with
            | some l => pure l
            | none => throw "bad route literal"
        | _ => throw "bad RoutingTables row"
      pure (some rs)
    | some _ => throw "RoutingTables is not a pattern"
  let routeCfg ←
    match findParam pkg.items "RouteCfg" with
    | some (_, .pat fs) => pure (fs.filterMap fun (k, e) => k.map (·, e))
    | _ => throw "no RouteCfg"
  -- top module: every item must be claimed
  let mut decls : List SigDecl := []
  let mut assigns : List (SigRef × SigRef) := []
  let mut insts : List Inst := []
  let mut lps : List (String × TypeRef × Expr) := []
  let mut structs : List (String × List (TypeRef × String)) := []
  for it in top.items do
    match it with
    | .decl t n =>
      match t.words, dimLen? t.dims with
      | [w], some len => decls := decls ++ [{ ty := w, len := len, name := n }]
      | _, _ => throw s!"unsupported declaration of {n}"
    | .assign l r => assigns := assigns ++ [(SigRef.ofExpr l, SigRef.ofExpr r)]
    | .inst m ps n bs => insts := insts ++ [{ mod := m, name := n, params := ps, binds := bs }]
    | .localparam t n v => lps := lps ++ [(n, t, v)]
    | .typedefStruct fs nm => structs := structs ++ [(nm, fs)]
    | _ => throw "unsupported item in top module"
  let pkgParams := pkg.items.filterMap fun
    | .localparam t n v => some (n, t, v)
    | _ => none
  return { pkg, top, epEnum, samIdxEnum, idType, routeBits, aw, samNumRules, samDeclared, tableless, sam,
           routingTables, routeCfg, decls, assigns, insts, localparams := lps, pkgParams,
           topStructs := structs }

end FlooVerif

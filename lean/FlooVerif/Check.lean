/-
  Executable deciders for the per-output part of each property, evaluated on the
  implementation's (or the model's) `Net` together with the description.
  Every decider returns the list of findings (empty = holds).  The theorems relating
  these deciders to the readable specifications are in `Props/`.
-/
import FlooVerif.Hw
import FlooVerif.Expect
namespace FlooVerif
open Hw

structure Finding where
  claim : String       -- sub-claim identifier, stable (used by known_findings.json)
  site : String        -- where (unit / pair / rule)
  detail : String
  deriving Repr, Inhabited

def fnd (claim site detail : String) : Finding := { claim, site, detail }

/-! ## C01 -/
namespace C01

def pow2 (w : Nat) : Nat := 2 ^ w

def ruleLo (n : Net) (r : Rule) : Nat := r.start.val % 2 ^ n.aw
def ruleHi (n : Net) (r : Rule) : Nat := r.stop.val % 2 ^ n.aw

def samMatching (n : Net) (a : Nat) : List Rule := Hw.matching n.aw n.sam a

def ownerId (n : Net) (i : EpInst) : Option IdVal := (Hw.findInst n i.niName).bind (Hw.instId n)

/-- all interval end points: the only places where the match set can change -/
def thresholds (n : Net) (d : Desc) : List Nat :=
  0 :: (n.sam.flatMap (fun r => [ruleLo n r, ruleHi n r]) ++ d.owned.flatMap (fun o => [o.lo, o.hi]))

def insideOk (n : Net) (o : Owned) (p : Nat) : Bool :=
  match samMatching n p with
  | [r] => some r.idx == ownerId n o.inst
  | _ => false

def inOwned (d : Desc) (p : Nat) : Bool := d.owned.any fun o => o.lo ≤ p && p < o.hi

/-- the points at which the decider evaluates the address map for one owned interval -/
def pointsIn (d : Desc) (n : Net) (o : Owned) : List Nat :=
  o.lo :: (thresholds n d).filter (fun t => o.lo ≤ t && t < o.hi)

/-- … and outside every owned interval -/
def pointsOut (d : Desc) (n : Net) : List Nat :=
  (thresholds n d).filter fun t => t < 2 ^ n.aw && !inOwned d t

/-- **the decision**: finitely many evaluations of the hardware's address decoder -/
def holds (d : Desc) (n : Net) : Bool :=
  (d.owned.all fun o => decide (o.hi ≤ 2 ^ n.aw) && (pointsIn d n o).all (insideOk n o)) &&
  ((pointsOut d n).all fun p => (samMatching n p).isEmpty)

def check (d : Desc) (n : Net) : List Finding :=
  let ts := thresholds n d
  let inside := d.owned.flatMap fun o =>
    let pts := o.lo :: ts.filter (fun t => o.lo ≤ t && t < o.hi)
    (if o.hi ≤ 2 ^ n.aw then [] else
      [fnd "sam-range-beyond-address-width" o.inst.niName s!"range {o.rangeIdx} ends at {o.hi} > 2^{n.aw}"]) ++
    pts.filterMap fun p =>
      if insideOk n o p then none else
        some (fnd "sam-owner" o.inst.niName
          s!"address {p} in range {o.rangeIdx} [{o.lo},{o.hi}) matches {(samMatching n p).length} rule(s) / wrong destination")
  let outside := (ts.filter fun t => t < 2 ^ n.aw && !inOwned d t).filterMap fun p =>
    if (samMatching n p).isEmpty then none else
      some (fnd "sam-outside" s!"addr {p}" s!"address {p} outside every declared range matches a rule")
  inside ++ outside

end C01

/-! ## endpoint pairs, shared by C02 C03 C09 C14 -/

def chimneyOf (n : Net) (i : EpInst) : Option Inst := Hw.findInst n i.niName

structure Flow where
  fabric : Fabric
  src : EpInst
  dst : EpInst
  deriving Repr, Inhabited

def fabricName (f : Fabric) : String :=
  if f == reqF then "req" else if f == rspF then "rsp" else "wide"

/-- every (fabric, source, destination) on which a flit can be sent -/
def flows (d : Desc) : List Flow :=
  d.reqPairs.flatMap fun (m, s) =>
    [{ fabric := reqF, src := m, dst := s }, { fabric := rspF, src := s, dst := m }] ++
    (if d.netType == .nw then
      [{ fabric := wideF, src := m, dst := s }, { fabric := wideF, src := s, dst := m }] else [])

def Flow.site (fl : Flow) : String :=
  s!"{fabricName fl.fabric}:{fl.src.niName}->{fl.dst.niName}"

/-- the header the source chimney puts on a flit for `dst` -/
def headerFor (d : Desc) (n : Net) (src dst : Inst) : Option Hdr :=
  match d.algo with
  | .ID =>
    match Hw.instId n dst with
    | some (.simple k) => some (.id k)
    | _ => none
  | .XY | .YX =>
    match Hw.instId n dst with
    | some (.coord x y p) => some (.xy x y p.toNat)
    | _ => none
  | .SRC =>
    match n.routingTables, Hw.bindExpr src "route_table_i", Hw.instId n dst with
    | some rows, some (.index (.ident "RoutingTables") (.ident en)), some (.simple col) =>
      match n.epEnum.members.find? (·.1 == en) with
      | some (_, rowIdx) =>
        let nrows := rows.length
        if rowIdx < nrows then
          let row := rows.getD (nrows - 1 - rowIdx) []
          if col < row.length then
            some (.src (row.getD (row.length - 1 - col) (.plain 0)).val)
          else none
        else none
      | none => none
    | _, _, _ => none

def routeOfFlow (d : Desc) (n : Net) (fl : Flow) : Option (List Step × Outcome) :=
  match chimneyOf n fl.src, chimneyOf n fl.dst with
  | some cs, some cd =>
    match headerFor d n cs cd with
    | some h => some (Hw.route n fl.fabric cs h)
    | none => none
  | _, _ => none

def stepsNodup (steps : List Step) : Bool := (steps.map (·.router)).Nodup

/-- delivery check shared by C02 (ID) and C03 (SRC) -/
def deliveryFindings (claimPrefix : String) (d : Desc) (n : Net) : List Finding :=
  (flows d).filterMap fun fl =>
    match routeOfFlow d n fl with
    | none => some (fnd (claimPrefix ++ "-no-header") fl.site "cannot form header (missing chimney / id / route)")
    | some (steps, out) =>
      match out with
      | .delivered c h =>
        if c != fl.dst.niName then
          some (fnd (claimPrefix ++ "-misdelivered") fl.site s!"delivered to {c}")
        else if !stepsNodup steps then
          some (fnd (claimPrefix ++ "-revisit") fl.site "a router is visited twice")
        else
          match h with
          | .src w => if w != 0 then some (fnd (claimPrefix ++ "-leftover-bits") fl.site s!"unconsumed route bits {w}") else none
          | _ => none
      | .dropped at_ why => some (fnd (claimPrefix ++ "-dropped") fl.site s!"at {at_}: {why}")
      | .outOfFuel => some (fnd (claimPrefix ++ "-loop") fl.site "does not arrive")

/-- the type of the destination field of the flit header (second argument of the header type macro) -/
def hdrDst (n : Net) : Option String :=
  n.pkg.items.findSome? fun
    | .macro nm args =>
      if nm == "`FLOO_TYPEDEF_HDR_T" || nm == "`FLOO_TYPEDEF_VC_HDR_T" then (args[1]?).map (String.intercalate " ")
      else none
    | _ => none

/-- the routers read the destination field of the header as a route word under source routing and as an
    identifier otherwise: the field has to be declared with that type -/
def hdrFindings (claimPrefix : String) (d : Desc) (n : Net) : List Finding :=
  let want := if d.algo == .SRC then "route_t" else "id_t"
  match hdrDst n with
  | some t =>
    if t == want then []
    else [fnd (claimPrefix ++ "-header-field") "hdr_t"
            s!"the destination field of the flit header is declared as {t}, the routers read it as {want}"]
  | none => [fnd (claimPrefix ++ "-header-field") "hdr_t" "no header type declared"]

/-- `Hw.allowed` is the router with its default switches: no loop-back, and under XY no turn from North/South to
    East/West (`NoLoopback`, `XYRouteOpt`; defaults pinned by `HwTie.rtl_shape`).  A router instance that sets one of
    them to something else is not the hardware the walks below execute -/
def routerSwitchFindings (claimPrefix : String) (n : Net) : List Finding :=
  (Hw.routers n).flatMap fun r =>
    r.params.filterMap fun (p, e) =>
      if p == "XYRouteOpt" || p == "NoLoopback" then
        match e with
        | .lit 1 'b' "1" => none
        | .num 1 => none
        | _ => some (fnd (claimPrefix ++ "-router-switch") r.name
                 s!"parameter {p} of the router is not left at its default 1'b1: the loop-back / Y-to-X restriction the route execution relies on is switched off")
      else none

namespace C02
def check (d : Desc) (n : Net) : List Finding :=
  if d.algo == .ID then deliveryFindings "id" d n ++ hdrFindings "id" d n ++ routerSwitchFindings "id" n else []
end C02

namespace C03
def litFindings (n : Net) : List Finding :=
  match n.routingTables, n.routeBits with
  | some rows, some w =>
    (rows.zipIdx.flatMap fun (row, ri) => row.zipIdx.filterMap fun (l, ci) =>
      match l with
      | .sized w' b ds =>
        if w' == w && (b == 'b') && l.numDigits == w && l.fits then none
        else some (fnd "src-word-width" s!"row {ri} col {ci}" s!"literal {w'}'{b}{ds} is not exactly {w} binary digits")
      | .plain _ => some (fnd "src-word-width" s!"row {ri} col {ci}" "unsized route word"))
  | some _, none => [fnd "src-word-width" "route_t" "route_t has no width"]
  | none, _ => [fnd "src-no-table" "RoutingTables" "no RoutingTables emitted"]

def check (d : Desc) (n : Net) : List Finding :=
  if d.algo == .SRC then deliveryFindings "src" d n ++ litFindings n ++ hdrFindings "src" d n ++ routerSwitchFindings "src" n else []
end C03

/-! ## C05 -/
namespace C05

def arrName (r : Inst) (port : String) : Option String := Hw.bindSig r port

/-- what drives element `i` of array `a` (rhs of `assign a[i] = …`) -/
def elemDrivers (n : Net) (a : String) (i : Nat) : List SigRef :=
  n.assigns.filterMap fun
    | (.elem a' j, rhs) => if a' == a && j == i then some rhs else none
    | _ => none

/-- scalar signals driven from element `i` of array `a` -/
def elemReaders (n : Net) (a : String) (i : Nat) : List String :=
  n.assigns.filterMap fun
    | (.whole s, .elem a' j) => if a' == a && j == i then some s else none
    | _ => none

/-- the unit at the far end of an input element: the driver of the signal assigned to it -/
def sigDrivers (n : Net) (s : String) : List String :=
  (n.insts.flatMap fun i => i.binds.filterMap fun
    | .conn p (.ident s') =>
      if s' == s && (p == "floo_req_o" || p == "floo_rsp_o" || p == "floo_wide_o") && Hw.isChimneyMod i.mod
      then some i.name else none
    | _ => none) ++
  (Hw.routers n).flatMap fun r =>
    ["floo_req_o", "floo_rsp_o", "floo_wide_o"].flatMap fun port =>
      match Hw.bindSig r port with
      | none => []
      | some a => n.assigns.filterMap fun
          | (.whole s', .elem a' _) => if s' == s && a' == a then some r.name else none
          | _ => none

def sigReaders (n : Net) (s : String) : List String :=
  (n.insts.flatMap fun i => i.binds.filterMap fun
    | .conn p (.ident s') =>
      if s' == s && (p == "floo_req_i" || p == "floo_rsp_i" || p == "floo_wide_i") && Hw.isChimneyMod i.mod
      then some i.name else none
    | _ => none) ++
  (Hw.routers n).flatMap fun r =>
    ["floo_req_i", "floo_rsp_i", "floo_wide_i"].flatMap fun port =>
      match Hw.bindSig r port with
      | none => []
      | some a => n.assigns.filterMap fun
          | (.elem a' _, .whole s') => if s' == s && a' == a then some r.name else none
          | _ => none

/-- neighbour attached to input element i of `inPort` (none = tied off) -/
inductive Nbr where
  | unit (name : String)
  | tied
  | open_
  | bad (why : String)
  deriving Repr, DecidableEq, Inhabited

def inNbr (n : Net) (r : Inst) (inPort : String) (i : Nat) : Nbr :=
  match arrName r inPort with
  | none => .bad "port not bound"
  | some a =>
    match elemDrivers n a i with
    | [] => .open_
    | [.zero] => .tied
    | [.whole s] =>
      match sigDrivers n s with
      | [u] => .unit u
      | l => .bad s!"signal {s} has {l.length} drivers"
    | _ => .bad "several / unsupported drivers"

def outNbr (n : Net) (r : Inst) (outPort : String) (i : Nat) : Nbr :=
  match arrName r outPort with
  | none => .bad "port not bound"
  | some a =>
    match elemReaders n a i with
    | [] => .open_
    | [s] =>
      match sigReaders n s with
      | [u] => .unit u
      | l => .bad s!"signal {s} has {l.length} readers"
    | _ => .bad "fan-out"

def nbrStr : Nbr → String
  | .unit u => u | .tied => "'0" | .open_ => "open" | .bad w => "BAD(" ++ w ++ ")"

def routerFindings (d : Desc) (n : Net) (r : Inst) : List Finding :=
  let numIn := (Hw.paramNat r "NumInputs").getD 0
  let numOut := (Hw.paramNat r "NumOutputs").getD 0
  let k := max numIn numOut
  (List.range k).flatMap fun i =>
    let reqIn := inNbr n r "floo_req_i" i       -- who sends requests into port i
    let rspOut := outNbr n r "floo_rsp_o" i     -- who receives responses from port i
    let reqOut := outNbr n r "floo_req_o" i
    let rspIn := inNbr n r "floo_rsp_i" i
    let wide := if d.netType == .nw then
        [("wide_in", inNbr n r "floo_wide_i" i), ("wide_out", outNbr n r "floo_wide_o" i)] else []
    let all := [("req_in", reqIn), ("rsp_out", rspOut), ("req_out", reqOut), ("rsp_in", rspIn)] ++ wide
    let site := s!"{r.name}[{i}]"
    let bads := all.filterMap fun (nm, v) =>
      match v with | .bad w => some (fnd "port-wiring" site s!"{nm}: {w}") | _ => none
    if !bads.isEmpty then bads else
    let units := all.filterMap fun (_, v) => match v with | .unit u => some u | _ => none
    let desc := String.intercalate ", " (all.map fun (nm, v) => nm ++ "=" ++ nbrStr v)
    if units.isEmpty then
      -- unused port: inputs tied, outputs open
      let okIn := all.all fun (nm, v) => if nm.endsWith "in" then v == .tied else v == .open_
      if okIn then [] else [fnd "port-half-connected" site desc]
    else if units.length == all.length && units.all (· == units.head!) then []
    else [fnd "port-pairing" site desc]

def signalFindings (n : Net) : List Finding :=
  n.decls.flatMap fun dcl =>
    if dcl.len.isSome then [] else
    let drv := sigDrivers n dcl.name
    let rdr := sigReaders n dcl.name
    (if drv.length == 1 then [] else [fnd "signal-drivers" dcl.name s!"{drv.length} drivers"]) ++
    (if rdr.length == 1 then [] else [fnd "signal-readers" dcl.name s!"{rdr.length} readers"]) ++
    -- the far end is the unit the name says: <src>_to_<dst>_<req|rsp|wide>
    (match drv, rdr with
     | [u], [v] =>
       let expected := [u ++ "_to_" ++ v ++ "_req", u ++ "_to_" ++ v ++ "_rsp", u ++ "_to_" ++ v ++ "_wide"]
       if expected.contains dcl.name then [] else
         [fnd "signal-name" dcl.name s!"driven by {u}, read by {v}"]
     | _, _ => [])

def check (d : Desc) (n : Net) : List Finding :=
  (Hw.routers n).flatMap (routerFindings d n) ++ signalFindings n

end C05

end FlooVerif

/-
  Deciders for C04, C06, C07, C08, C09, C13, C14 (see Check.lean for the conventions).
-/
import FlooVerif.Check
import FlooVerif.Links
namespace FlooVerif
open Hw Sv

/-! ## emitted topology (shared by C04 C06 C09 C14) -/

/-- (router, port, neighbour unit) for every connected port, read off the request fabric -/
def emittedPorts (n : Net) : List (String × Nat × String) :=
  (Hw.routers n).flatMap fun r =>
    let k := max ((Hw.paramNat r "NumInputs").getD 0) ((Hw.paramNat r "NumOutputs").getD 0)
    (List.range k).filterMap fun i =>
      match C05.inNbr n r "floo_req_i" i with
      | .unit u => some (r.name, i, u)
      | _ => none

/-! ## C06 -/
namespace C06

def isRouterName (n : Net) (u : String) : Bool := (Hw.routers n).any (·.name == u)

def check (d : Desc) (n : Net) : List Finding :=
  match d.links with
  | none => [fnd "links-spec" d.name "the description's connections cannot be interpreted"]
  | some links =>
    let ports := emittedPorts n
    -- every described link is there, on the named port
    let missing := links.flatMap fun l =>
      let side (x y : String) (p : Option Nat) : List Finding :=
        if isRouterName n x then
          match ports.filter (fun (r, _, u) => r == x && u == y) with
          | [(_, i, _)] =>
            match p with
            | some q => if i == q then [] else
                [fnd "link-port" s!"{x}<->{y}" s!"attached to port {i} of {x}, described port {q}"]
            | none => []
          | [] => [fnd "link-missing" s!"{x}<->{y}" s!"{x} has no port attached to {y}"]
          | _ => [fnd "link-duplicated" s!"{x}<->{y}" s!"{x} has several ports attached to {y}"]
        else []
      side l.a l.b l.aPort ++ side l.b l.a l.bPort
    -- nothing else is there
    let extra := ports.filterMap fun (r, i, u) =>
      if links.any (fun l => (l.a == r && l.b == u) || (l.b == r && l.a == u)) then none
      else some (fnd "link-extra" s!"{r}[{i}]" s!"attached to {u}, which the description does not connect to {r}")
    -- one network interface per endpoint instance, routers as described
    let chims := (Hw.chimneys n).map (·.name)
    let expChims := d.instances.map (·.niName)
    let niF := (expChims.filter (fun c => (chims.filter (· == c)).length != 1)).map fun c =>
        fnd "ni-count" c s!"{(chims.filter (· == c)).length} network interfaces named {c}"
    let niX := (chims.filter (fun c => !expChims.contains c)).map fun c =>
        fnd "ni-extra" c "network interface without endpoint instance"
    let rts := (Hw.routers n).map (·.name)
    let rtF := (d.routerNodes.filter (fun r => (rts.filter (· == r)).length != 1)).map fun r =>
        fnd "router-count" r s!"{(rts.filter (· == r)).length} routers named {r}"
    let rtX := (rts.filter (fun r => !d.routerNodes.contains r)).map fun r =>
        fnd "router-extra" r "router that the description does not contain"
    -- each network interface hangs on exactly the router ports the description pairs it with
    -- (one, normally; none when two endpoints are wired back to back)
    let niAttach := expChims.filterMap fun c =>
      let exp := (links.filter fun l => (l.a == c && isRouterName n l.b) || (l.b == c && isRouterName n l.a)).length
      let got := (ports.filter (fun (_, _, u) => u == c)).length
      if got == exp && (links.filter fun l => l.a == c || l.b == c).length == 1 then none
      else some (fnd "ni-attachment" c s!"attached to {got} router ports, the description pairs it with {exp} router(s)")
    -- links between two network interfaces
    let niNi := links.flatMap fun l =>
      if !isRouterName n l.a && !isRouterName n l.b then
        match Hw.findInst n l.a, Hw.findInst n l.b with
        | some ca, some cb =>
          (if Hw.inject n reqF ca == some (.chimney l.b) && Hw.inject n reqF cb == some (.chimney l.a) then []
           else [fnd "link-missing" s!"{l.a}<->{l.b}" "the two network interfaces are not wired to each other"])
        | _, _ => [fnd "link-missing" s!"{l.a}<->{l.b}" "missing network interface"]
      else []
    missing ++ extra ++ niF ++ niX ++ rtF ++ rtX ++ niAttach ++ niNi

end C06

/-! ## C07 -/
namespace C07

def idFits (n : Net) (v : IdVal) : Bool :=
  match n.idType, v with
  | .bits k, .simple i => i < 2 ^ k
  | .xy xb yb pb, .coord x y p =>
    0 ≤ x && x < 2 ^ xb && 0 ≤ y && y < 2 ^ yb && 0 ≤ p && p < 2 ^ (pb.getD 0)
  | _, _ => false

def check (d : Desc) (n : Net) : List Finding :=
  let insts := d.instances
  let N := insts.length
  let expEnum := (insts.zipIdx.map fun (i, k) => (i.enumName, k)) ++ [("NumEndpoints", N)]
  let enumF := if n.epEnum.members == expEnum then [] else
    [fnd "ep-enum" "ep_id_e" s!"members {repr n.epEnum.members} expected {repr expEnum}"]
  let ids := insts.map fun i => (i, C01.ownerId n i)
  let missing := ids.filterMap fun (i, v) =>
    if v.isNone then some (fnd "id-missing" i.niName "no identity bound to .id_i") else none
  let fits := ids.filterMap fun (i, v) =>
    match v with
    | some v => if idFits n v then none else some (fnd "id-fit" i.niName s!"identity {repr v} does not fit id_t")
    | none => none
  let vals := ids.filterMap (·.2)
  let distinct := if vals.Nodup then [] else
    (ids.filterMap fun (i, v) =>
      match v with
      | some v => if (vals.filter (· == v)).length > 1 then some (fnd "id-distinct" i.niName s!"identity {repr v} is shared") else none
      | none => none)
  let dense :=
    match d.algo with
    | .ID | .SRC =>
      (ids.zipIdx).filterMap fun ((i, v), k) =>
        if v == some (.simple k) then none else
          some (fnd "id-enum-value" i.niName s!"identity {repr v} but enumeration value {k}")
    | _ =>
      -- XY: router coordinates fit and are pairwise distinct too
      let rids := (Hw.routers n).map fun r => (r.name, Hw.instId n r)
      (rids.filterMap fun (nm, v) =>
        match v with
        | some v => if idFits n v then none else some (fnd "router-id-fit" nm s!"coordinate {repr v} does not fit id_t")
        | none => some (fnd "router-id-missing" nm "no coordinate")) ++
      (let rv := rids.filterMap (·.2)
       if rv.Nodup then [] else [fnd "router-id-distinct" "routers" "two routers share a coordinate"])
  enumF ++ missing ++ fits ++ distinct ++ dense

end C07

/-! ## C13 -/
namespace C13

def cfgNat (n : Net) (k : String) : Option Nat := (n.routeCfg.find? (·.1 == k)).bind fun (_, e) => exprNat? e

def enumWidthOk (e : EnumT) : Bool := e.members.all fun (_, v) => v < 2 ^ e.width

/-- expected name of the address-map index member for (instance, range) -/
def samIdxName (o : Owned) : String :=
  let r := o.inst.ep.ranges.getD o.rangeIdx {}
  let base := o.inst.enumSnake
  let mid := match r.desc with
    | some dsc => "_" ++ dsc
    | none => if o.inst.ep.ranges.length > 1 then "_" ++ toString o.rangeIdx else ""
  snakeToCamel (base ++ mid ++ "_sam_idx")

def arrLen (n : Net) (r : Inst) (port : String) : Option Nat :=
  (Hw.bindSig r port).bind fun a => (n.decls.find? (·.name == a)).bind (·.len)

def check (d : Desc) (n : Net) : List Finding :=
  let S := n.sam.length
  let N := d.instances.length
  let f1 := if n.samNumRules == S then [] else [fnd "sam-num-rules" "SamNumRules" s!"{n.samNumRules} but {S} entries"]
  let f2 := if cfgNat n "NumSamRules" == some S then [] else [fnd "cfg-num-sam-rules" "RouteCfg.NumSamRules" s!"{repr (cfgNat n "NumSamRules")} but {S} entries"]
  let f3 := if n.samIdxEnum.members.length == S then [] else [fnd "sam-idx-count" "sam_idx_e" s!"{n.samIdxEnum.members.length} members but {S} entries"]
  let f4 := if n.samDeclared then [] else [fnd "sam-dims" "Sam" "not declared [SamNumRules-1:0]"]
  -- member k names rule k (packed array: listing position S-1-k)
  let f5 := n.samIdxEnum.members.filterMap fun (nm, k) =>
    match d.owned.find? (fun o => samIdxName o == nm) with
    | none => some (fnd "sam-idx-name" nm "names no declared range")
    | some o =>
      if k < S then
        let r := n.sam.getD (S - 1 - k) default
        if C01.ruleLo n r == o.lo && (C01.ruleHi n r == o.hi % 2 ^ n.aw) then none
        else some (fnd "sam-idx-entry" nm s!"entry {k} of Sam is [{C01.ruleLo n r},{C01.ruleHi n r}) but {nm} denotes [{o.lo},{o.hi})")
      else some (fnd "sam-idx-range" nm s!"value {k} out of range")
  let f6 := (if enumWidthOk n.epEnum then [] else [fnd "enum-width" "ep_id_e" "a member does not fit the enum width"]) ++
            (if enumWidthOk n.samIdxEnum then [] else [fnd "enum-width" "sam_idx_e" "a member does not fit the enum width"])
  let f7 := match n.epEnum.members.find? (·.1 == "NumEndpoints") with
    | some (_, v) => if v == N then [] else [fnd "num-endpoints" "NumEndpoints" s!"{v} but {N} instances"]
    | none => [fnd "num-endpoints" "NumEndpoints" "missing"]
  let f8 :=
    if d.algo == .SRC then
      (match n.routingTables with
       | some rows =>
         (if rows.length == N then [] else [fnd "route-table-rows" "RoutingTables" s!"{rows.length} rows, {N} endpoints"]) ++
         (rows.zipIdx.filterMap fun (row, i) =>
           if row.length == N then none else some (fnd "route-table-cols" s!"row {i}" s!"{row.length} entries, {N} endpoints"))
       | none => [fnd "route-table-rows" "RoutingTables" "missing"]) ++
      (if cfgNat n "NumRoutes" == some N then [] else [fnd "cfg-num-routes" "RouteCfg.NumRoutes" s!"{repr (cfgNat n "NumRoutes")} but {N} endpoints"])
    else []
  let f9 := (Hw.routers n).flatMap fun r =>
    let chk (param port : String) : List Finding :=
      match Hw.paramNat r param, arrLen n r port with
      | some p, some l => if p == l then [] else [fnd "router-port-count" r.name s!".{param}({p}) but array on {port} has {l} elements"]
      | _, _ => [fnd "router-port-count" r.name s!"cannot relate .{param} to {port}"]
    chk "NumInputs" "floo_req_i" ++ chk "NumInputs" "floo_rsp_o" ++ chk "NumOutputs" "floo_req_o" ++
    chk "NumOutputs" "floo_rsp_i" ++ chk "NumRoutes" "floo_req_o" ++
    (if d.netType == .nw then chk "NumInputs" "floo_wide_i" ++ chk "NumOutputs" "floo_wide_o" else []) ++
    (if d.algo == .ID then
      match Hw.routerTable n r, Hw.paramNat r "NumAddrRules" with
      | some t, some k =>
        (if t.length == k then [] else [fnd "router-num-rules" r.name s!".NumAddrRules({k}) but {t.length} entries"]) ++
        (match Hw.bindExpr r "id_route_map_i" with
         | some (.ident m) =>
           match Hw.findLocalparam n (m ++ "NumRules") with
           | some (.num v) => if v == t.length then [] else [fnd "router-num-rules" r.name s!"{m}NumRules = {v} but {t.length} entries"]
           | _ => [fnd "router-num-rules" r.name s!"{m}NumRules missing"]
         | _ => [])
      | _, _ => [fnd "router-num-rules" r.name "no table / NumAddrRules"]
    else [])
  -- without address table (`use_id_table: false`) the package has a dummy `Sam` and nothing to count there
  (if n.tableless then [] else f1 ++ f2 ++ f3 ++ f4 ++ f5) ++ f6 ++ f7 ++ f8 ++ f9

end C13

/-! ## C14 and C09: routes, distances, channel dependencies -/

/-- unit-level edges of a fabric: router → neighbour over each connected output port -/
def fabricEdges (n : Net) (f : Fabric) : List (String × String) :=
  (Hw.routers n).flatMap fun r =>
    let k := (Hw.paramNat r "NumOutputs").getD 0
    (List.range k).filterMap fun p =>
      match Hw.hop n f r p with
      | some (.router r' _) => some (r.name, r')
      | some (.chimney c) => some (r.name, c)
      | none => none

namespace C14

/-- breadth-first distances to `dst` over reversed edges (unverified producer of the potential) -/
def bfsDist (edges : List (String × String)) (dst : String) (fuel : Nat) : List (String × Nat) :=
  let rec go (fuel : Nat) (frontier : List String) (dist : List (String × Nat)) (lvl : Nat) :=
    match fuel with
    | 0 => dist
    | fuel + 1 =>
      if frontier.isEmpty then dist else
      let next := (edges.filterMap fun (u, v) =>
        if frontier.contains v && !(dist.any (·.1 == u)) then some u else none).eraseDups
      go fuel next (dist ++ next.map (·, lvl + 1)) (lvl + 1)
  go fuel [dst] [(dst, 0)] 0

def potOf (pot : List (String × Nat)) (u : String) : Option Nat := (pot.find? (·.1 == u)).map (·.2)

/-- `pot` is a valid lower-bound certificate: pot dst = 0 and pot u ≤ pot v + 1 on every edge
    whose head has a potential (tails without potential cannot reach dst only if no edge leaves
    them into the potential's domain) -/
def potValid (edges : List (String × String)) (pot : List (String × Nat)) (dst : String) : Bool :=
  potOf pot dst == some 0 &&
  edges.all fun (u, v) =>
    match potOf pot v with
    | none => true
    | some dv =>
      match potOf pot u with
      | some du => du ≤ dv + 1
      | none => false

def check (d : Desc) (n : Net) : List Finding :=
  if d.algo != .ID && d.algo != .SRC then [] else
  let fabrics := [reqF, rspF] ++ (if d.netType == .nw then [wideF] else [])
  fabrics.flatMap fun f =>
    let edges := fabricEdges n f
    let fl := (flows d).filter (·.fabric == f)
    let dsts := (fl.map (·.dst.niName)).eraseDups
    dsts.flatMap fun dst =>
      let pot := bfsDist edges dst ((Hw.routers n).length + 2)
      if !potValid edges pot dst then
        [fnd "shortest-certificate" s!"{fabricName f}:{dst}" "distance potential is not valid (harness error)"]
      else
        (fl.filter (·.dst.niName == dst)).filterMap fun flw =>
          match routeOfFlow d n flw with
          | some (steps, .delivered c _) =>
            -- first router on the path
            match steps.head? with
            | none => none
            | some s0 =>
              match potOf pot s0.router with
              | some d0 =>
                -- routers traversed = steps.length; shortest possible = d0 (edges from s0.router to dst).  The count
                -- is the flit's, wherever it ends: a flit for `dst` that leaves the network elsewhere after another
                -- number of routers has not traversed the hop distance between the two either
                if steps.length == d0 then none
                else if c != dst then
                  some (fnd "not-shortest" flw.site s!"{steps.length} routers traversed (leaving at {c}), distance to {dst} is {d0}")
                else some (fnd "not-shortest" flw.site s!"{steps.length} routers traversed, distance {d0}")
              | none => if c != dst then none else some (fnd "shortest-certificate" flw.site "no potential at first router")
          | _ => none   -- a flit that never leaves the network is C02/C03's finding

end C14

namespace C09

abbrev Chan := String × Nat

/-- dependencies between consecutive channels of all routes on a fabric -/
def deps (d : Desc) (n : Net) (f : Fabric) : List (Chan × Chan) :=
  ((flows d).filter (·.fabric == f)).flatMap fun fl =>
    match routeOfFlow d n fl with
    | some (steps, .delivered _ _) =>
      let chans : List Chan := steps.map fun s => (s.router, s.outPort)
      chans.zip (chans.drop 1)
    | _ => []

/-- Kahn-style ranking (unverified producer): repeatedly give rank k to channels all of whose
    predecessors are already ranked -/
def rankChans (chans : List Chan) (deps : List (Chan × Chan)) (fuel : Nat) : List (Chan × Nat) :=
  let rec go (fuel : Nat) (ranked : List (Chan × Nat)) (k : Nat) :=
    match fuel with
    | 0 => ranked
    | fuel + 1 =>
      let ready := chans.filter fun c =>
        !(ranked.any (·.1 == c)) &&
        deps.all fun (a, b) => b != c || ranked.any (·.1 == a)
      if ready.isEmpty then ranked else go fuel (ranked ++ ready.map (·, k)) (k + 1)
  go fuel [] 0

def rankOf (rk : List (Chan × Nat)) (c : Chan) : Option Nat := (rk.find? (·.1 == c)).map (·.2)

/-- the certificate: every dependency strictly increases the rank -/
def rankValid (rk : List (Chan × Nat)) (deps : List (Chan × Chan)) : Bool :=
  deps.all fun (a, b) =>
    match rankOf rk a, rankOf rk b with
    | some ra, some rb => ra < rb
    | _, _ => false

/-- find a cycle among unranked channels (counter-witness), following any unranked predecessor -/
def findCycle (deps : List (Chan × Chan)) (rk : List (Chan × Nat)) (start : Chan) (fuel : Nat) : List Chan :=
  let rec go (fuel : Nat) (cur : Chan) (path : List Chan) :=
    match fuel with
    | 0 => path
    | fuel + 1 =>
      if path.contains cur then cur :: path
      else
        match deps.find? (fun (a, b) => b == cur && (rankOf rk a).isNone) with
        | some (a, _) => go fuel a (cur :: path)
        | none => path
  go fuel start []

/-- the decision per fabric: the computed rank is valid for *all* dependencies of all routes -/
def certOk (d : Desc) (n : Net) (f : Fabric) : Bool :=
  let dp := deps d n f
  let dd := dp.eraseDups
  let chans := (dd.flatMap fun (a, b) => [a, b]).eraseDups
  rankValid (rankChans chans dd (chans.length + 1)) dp

def check (d : Desc) (n : Net) : List Finding :=
  if d.algo != .ID && d.algo != .SRC then [] else
  let fabrics := [reqF, rspF] ++ (if d.netType == .nw then [wideF] else [])
  fabrics.flatMap fun f =>
    if certOk d n f then [] else
      let dp := (deps d n f).eraseDups
      let chans := (dp.flatMap fun (a, b) => [a, b]).eraseDups
      let rk := rankChans chans dp (chans.length + 1)
      match chans.find? (fun c => (rankOf rk c).isNone) with
      | some c =>
        let cyc := findCycle dp rk c (chans.length + 1)
        [fnd "cdg-cycle" (fabricName f) s!"channel dependency cycle through {repr cyc}"]
      | none => [fnd "cdg-certificate" (fabricName f) "rank not valid (harness error)"]

end C09

/-! ## C04 -/
namespace C04

def dirVec (p : Nat) : Int × Int :=
  if p == North then (0, 1) else if p == East then (1, 0) else if p == South then (0, -1)
  else if p == West then (-1, 0) else (0, 0)

def reverseDir (p : Nat) : Nat := if p < 4 then (p + 2) % 4 else p

def coordOf (n : Net) (i : Inst) : Option (Int × Int × Int) :=
  match Hw.instId n i with
  | some (.coord x y p) => some (x, y, p)
  | _ => none

/-- per-port frame condition on one fabric -/
def frameFindings (n : Net) (f : Fabric) : List Finding :=
  (Hw.routers n).flatMap fun r =>
    match coordOf n r with
    | none => [fnd "xy-router-id" r.name "router has no coordinate"]
    | some (x, y, _) =>
      let k := (Hw.paramNat r "NumOutputs").getD 0
      (List.range k).filterMap fun p =>
        match Hw.hop n f r p with
        | none =>
          -- unconnected output is fine if nothing is wired there at all
          if (Hw.outSigs n f r p).isEmpty then none
          else some (fnd "xy-port-wiring" s!"{fabricName f}:{r.name}[{p}]" "not connected to exactly one reader")
        | some (.router r' j) =>
          match (Hw.routers n).find? (·.name == r') with
          | none => some (fnd "xy-port-wiring" s!"{r.name}[{p}]" "unknown router")
          | some ri' =>
            match coordOf n ri' with
            | some (x', y', _) =>
              let (dx, dy) := dirVec p
              if p < 4 && x' == x + dx && y' == y + dy && j == reverseDir p then none
              else some (fnd "xy-frame" s!"{fabricName f}:{r.name}[{p}]"
                s!"({x},{y}) port {p} leads to {r'} at ({x'},{y'}) input {j}")
            | none => some (fnd "xy-router-id" r' "router has no coordinate")
        | some (.chimney c) =>
          match (Hw.findInst n c).bind (coordOf n) with
          | some (cx, cy, cp) =>
            let (dx, dy) := dirVec p
            let ok := if p < 4 then cx == x + dx && cy == y + dy && cp == 0
                      else cx == x && cy == y && cp == (p : Int) - 4
            if ok then none
            else some (fnd "xy-frame" s!"{fabricName f}:{r.name}[{p}]"
              s!"({x},{y}) port {p} leads to {c} with identity ({cx},{cy},{cp})")
          | none => some (fnd "xy-ni-id" c "network interface has no coordinate")

/-- injection side: a chimney's flit enters the router input that its coordinate denotes -/
def injectFindings (n : Net) (f : Fabric) : List Finding :=
  (Hw.chimneys n).filterMap fun c =>
    match coordOf n c, Hw.inject n f c with
    | some (cx, cy, cp), some (.router r j) =>
      match ((Hw.routers n).find? (·.name == r)).bind (coordOf n) with
      | some (x, y, _) =>
        let (dx, dy) := dirVec j
        let ok := if j < 4 then cx == x + dx && cy == y + dy && cp == 0
                  else cx == x && cy == y && cp == (j : Int) - 4
        if ok then none else
          some (fnd "xy-frame-inject" s!"{fabricName f}:{c.name}" s!"identity ({cx},{cy},{cp}) enters {r} at ({x},{y}) on input {j}")
      | none => some (fnd "xy-router-id" r "router has no coordinate")
    | _, some (.chimney _) => some (fnd "xy-port-wiring" c.name "chimney wired to chimney")
    | _, none => some (fnd "xy-port-wiring" s!"{fabricName f}:{c.name}" "output not connected to exactly one reader")
    | none, _ => some (fnd "xy-ni-id" c.name "network interface has no coordinate")

/-- the ideal grid the description denotes: router (i,j) of the array sits at (i,j); walk by
    coordinates only. Units are looked up by coordinate. -/
structure Grid where
  routers : List ((Int × Int) × String)            -- coordinate ↦ router
  eps : List ((Int × Int × Int) × String)          -- identity ↦ network interface

def gridOf (n : Net) : Grid :=
  { routers := (Hw.routers n).filterMap fun r => (coordOf n r).map fun (x, y, _) => ((x, y), r.name),
    eps := (Hw.chimneys n).filterMap fun c => (coordOf n c).map fun id => (id, c.name) }

inductive GOut where
  | delivered (c : String)
  | dropped
  deriving Repr, DecidableEq, Inhabited

/-- ideal walk: at router (x,y), having entered through `inP` -/
def idealWalk (g : Grid) : Nat → (Int × Int) → Nat → (Int × Int × Int) → GOut
  | 0, _, _, _ => .dropped
  | fuel + 1, (x, y), inP, (dx, dy, dp) =>
    let p := Hw.xyDecide x y dx dy dp.toNat
    if !Hw.allowed true inP p then .dropped else
    if p ≥ 4 then
      match g.eps.find? (fun (id, _) => id == (x, y, (p : Int) - 4)) with
      | some (_, c) => .delivered c
      | none => .dropped
    else
      let (vx, vy) := dirVec p
      match g.routers.find? (fun (xy, _) => xy == (x + vx, y + vy)) with
      | some (xy, _) => idealWalk g fuel xy (reverseDir p) (dx, dy, dp)
      | none =>
        match g.eps.find? (fun (id, _) => id == (x + vx, y + vy, 0)) with
        | some (_, c) => .delivered c
        | none => .dropped

/-- where an endpoint with identity `id` injects on the ideal grid -/
def idealStart (g : Grid) (id : Int × Int × Int) : Option ((Int × Int) × Nat) :=
  let (x, y, p) := id
  match g.routers.find? (fun (xy, _) => xy == (x, y)) with
  | some (xy, _) => some (xy, (p + 4).toNat)       -- local port of the router at the same coordinate
  | none =>
    -- boundary endpoint: the unique neighbouring router
    [North, East, South, West].findSome? fun dir =>
      let (vx, vy) := dirVec dir
      match g.routers.find? (fun (xy, _) => xy == (x - vx, y - vy)) with
      | some (xy, _) => some (xy, dir)
      | none => none

def arrayTie (d : Desc) (n : Net) : List Finding :=
  d.routers.flatMap fun r =>
    match r.array with
    | some [m, k] =>
      match (Hw.findInst n (r.name ++ "_0_0")).bind (coordOf n) with
      | none => [fnd "xy-router-id" (r.name ++ "_0_0") "no coordinate"]
      | some (x0, y0, _) =>
        (List.range m).flatMap fun (i : Nat) => (List.range k).filterMap fun (j : Nat) =>
          let nm := r.name ++ "_" ++ toString i ++ "_" ++ toString j
          match (Hw.findInst n nm).bind (coordOf n) with
          | some (x, y, _) =>
            if x == x0 + (i : Int) && y == y0 + (j : Int) then none
            else some (fnd "xy-array-index" nm s!"array element ({i},{j}) has coordinate ({x},{y}), element (0,0) has ({x0},{y0})")
          | none => some (fnd "xy-router-id" nm "no coordinate")
    | _ => []

def check (d : Desc) (n : Net) : List Finding :=
  if d.algo != .XY then [] else
  let fabrics := [reqF, rspF] ++ (if d.netType == .nw then [wideF] else [])
  let frame := fabrics.flatMap fun f => frameFindings n f ++ injectFindings n f
  let g := gridOf n
  let frame := frame ++ hdrFindings "xy" d n ++ routerSwitchFindings "xy" n
  let rdup := if (g.routers.map (·.1)).Nodup then [] else [fnd "xy-coordinate-shared" "routers" "two routers share a coordinate"]
  let edup := if (g.eps.map (·.1)).Nodup then [] else [fnd "xy-coordinate-shared" "endpoints" "two endpoints share an identity"]
  -- lock-step on every flow: emitted walk = ideal walk
  let walks := (flows d).filterMap fun fl =>
    match chimneyOf n fl.src, chimneyOf n fl.dst with
    | some cs, some cd =>
      match coordOf n cs, coordOf n cd with
      | some sid, some did =>
        let ideal := match idealStart g sid with
          | some (xy, inP) => idealWalk g ((Hw.routers n).length + 1) xy inP did
          | none => .dropped
        let real := match Hw.route n fl.fabric cs (.xy did.1 did.2.1 did.2.2.toNat) with
          | (_, .delivered c _) => GOut.delivered c
          | _ => .dropped
        if ideal != real then
          some (fnd "xy-lockstep" fl.site s!"ideal grid: {repr ideal}, emitted netlist: {repr real}")
        else none     -- equal outcomes; a pair the grid cannot serve is not claimed
      | _, _ => some (fnd "xy-ni-id" fl.site "missing coordinate")
    | _, _ => some (fnd "xy-ni-missing" fl.site "missing network interface")
  frame ++ rdup ++ edup ++ arrayTie d n ++ walks

end C04

end FlooVerif

/-
  Model of floogen/model/routing.py: AddrRange (validate_input's five-case match,
  the `ge=0` field constraints, validate_output, set_idx).
-/
import FlooVerif.Desc
namespace FlooVerif

structure AddrRange where
  start : Int
  stop : Int
  size : Int
  base : Option Int := none
  idx : Option Int := none
  desc : Option String := none
  deriving Repr, DecidableEq, Inhabited

inductive RangeErr where
  | invalidSpec        -- no pattern matches / contradictory start,end,size
  | negative           -- start or end below 0 (`Field(ge=0)`)
  | empty              -- start ≥ end
  | noBase             -- set_idx on a range without base
  deriving Repr, DecidableEq, Inhabited

/-- `validate_input`: the mapping patterns in source order; keys whose value is None were removed -/
def normalise (s : RangeSpec) : Except RangeErr (Int × Int × Int) :=
  match s.size, s.base, s.idx, s.start, s.stop with
  | some size, some base, some idx, _, _ => .ok (base + size * idx, base + size * idx + size, size)
  | some size, some base, none, _, _ => .ok (base, base + size, size)
  | some size, none, _, some start, some stop =>
      if stop - start ≠ size then .error .invalidSpec else .ok (start, stop, size)
  | none, _, _, some start, some stop => .ok (start, stop, stop - start)
  | some size, none, _, some start, none => .ok (start, start + size, size)
  | _, _, _, _, _ => .error .invalidSpec

def mkRange (s : RangeSpec) : Except RangeErr AddrRange :=
  match normalise s with
  | .error e => .error e
  | .ok (start, stop, size) =>
    if start < 0 ∨ stop < 0 ∨ (s.base.getD 0) < 0 then .error .negative
    else if start ≥ stop then .error .empty
    else .ok { start, stop, size, base := s.base, idx := s.idx, desc := s.desc }

/-- `set_idx` -/
def AddrRange.setIdx (r : AddrRange) (k : Int) : Except RangeErr AddrRange :=
  match r.base with
  | some b => .ok { r with idx := some k, start := b + r.size * k, stop := b + r.size * k + r.size }
  | none => .error .noBase

end FlooVerif

/-
  Model of floogen/cli.py: main() and render_sources().  Both texts are rendered before either
  file is opened (regenerated fact `Gen.manifestFacts.cliRenderBeforeWrite`), so any error leaves
  no output; the modes are projections of one render.
-/
import FlooVerif.Model.Emit
namespace FlooVerif.Cli
open FlooVerif Lean

inductive Mode where
  | full | onlyPkg | onlyTop | stdout | stdoutOnlyPkg | stdoutOnlyTop
  deriving Repr, DecidableEq, Inhabited

structure Out where
  status : Nat
  files : List (String × List String)      -- file name ↦ token stream
  stdout : List (List String)              -- printed texts (each followed by a line terminator)
  deriving Repr, Inhabited

def pkgName (d : Desc) : String := "floo_" ++ d.name ++ "_noc_pkg.sv"
def topName (d : Desc) : String := "floo_" ++ d.name ++ "_noc.sv"

/-- emission of an already rendered pair, by mode -/
def emit (mode : Mode) (d : Desc) (pkg top : List String) : Out :=
  match mode with
  | .full => { status := 0, files := [(pkgName d, pkg), (topName d, top)], stdout := [] }
  | .onlyPkg => { status := 0, files := [(pkgName d, pkg)], stdout := [] }
  | .onlyTop => { status := 0, files := [(topName d, top)], stdout := [] }
  | .stdout => { status := 0, files := [], stdout := [pkg, top] }
  | .stdoutOnlyPkg => { status := 0, files := [], stdout := [pkg] }
  | .stdoutOnlyTop => { status := 0, files := [], stdout := [top] }

/-- the command on a decoded description -/
def runDesc (mode : Mode) (d : Desc) : Out :=
  match Model.gen d with
  | .error _ => { status := 1, files := [], stdout := [] }
  | .ok (p, m) => emit mode d p.render m.render

/-- the command on the raw description -/
def run (mode : Mode) (j : Json) : Out :=
  match decodeDesc j with
  | .error _ => { status := 1, files := [], stdout := [] }
  | .ok d => runDesc mode d

end FlooVerif.Cli

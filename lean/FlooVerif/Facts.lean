/-
  Shapes of the facts that harness/translate.py regenerates from /repo's sources on every
  run (Tie 1).  The generated files `Gen/*.lean` only contain `def`s of these types.
-/
namespace FlooVerif

/-- a piece of a macro-defined name: literal text or the value of parameter #i -/
inductive NamePiece where
  | lit (s : String)
  | arg (i : Nat)
  deriving Repr, DecidableEq, Inhabited

structure MacroDef where
  name : String                              -- with the backtick, e.g. "`FLOO_TYPEDEF_HDR_T"
  params : List String
  defines : List (List NamePiece)            -- type names the expansion declares (typedef … NAME;)
  calls : List (String × List (List NamePiece))  -- nested macro invocations with argument templates
  deriving Repr, DecidableEq, Inhabited

structure ModulePort where
  dir : String                               -- "input" | "output" | "inout"
  name : String
  deriving Repr, DecidableEq, Inhabited

structure ModuleDef where
  name : String
  file : String                              -- path relative to the repository root
  params : List String
  ports : List ModulePort
  instantiates : List String                 -- module names instantiated in the body
  deriving Repr, DecidableEq, Inhabited

structure EnumDef where
  name : String
  members : List (String × Nat)
  deriving Repr, DecidableEq, Inhabited

structure StructDef where
  name : String
  fields : List String
  deriving Repr, DecidableEq, Inhabited

structure FuncDef where
  name : String
  arity : Nat
  deriving Repr, DecidableEq, Inhabited

structure HwFacts where
  enums : List EnumDef                       -- of floo_pkg
  structs : List StructDef                   -- of floo_pkg
  funcs : List FuncDef                       -- of floo_pkg
  params : List String                       -- localparams of floo_pkg
  macros : List MacroDef                     -- of hw/include/floo_noc/typedef.svh
  modules : List ModuleDef                   -- every module defined under hw/ (not hw/tb, hw/test)
  deriving Repr, Inhabited

structure ManifestEntry where
  target : String                            -- Bender target expression / FuseSoC fileset ("" = always)
  path : String
  deriving Repr, DecidableEq, Inhabited

structure ManifestFacts where
  bender : List ManifestEntry
  benderIncludeDirs : List String
  core : List ManifestEntry
  tracked : List String                      -- `git ls-files` of the working tree (existing files)
  examples : List (String × String) := []    -- shipped example description ↦ its `name:`
  cliNamePatterns : List (String × String) := []   -- output file = prefix ++ name ++ suffix (floogen/cli.py)
  cliRenderBeforeWrite : Bool := false       -- both render calls precede every open()/print() in render_sources
  makeOutDir : String := "generated"         -- default FLOOGEN_OUT_DIR of the Makefile, relative to the repository
  deriving Repr, Inhabited

structure PyFacts where
  xyDirections : List (String × Nat)         -- floogen.model.routing.XYDirections
  xyToCoords : List (Nat × Int × Int)        -- XYDirections.to_coords
  routeAlgo : List (String × String)         -- RouteAlgo name ↦ value
  deriving Repr, Inhabited

end FlooVerif

namespace FlooVerif

/-- arithmetic expressions translated from Python source (util/gen_jobs.py) -/
inductive AExpr where
  | const (n : Nat)
  | var (name : String)
  | add (a b : AExpr)
  | sub (a b : AExpr)
  | mul (a b : AExpr)
  | shl (a b : AExpr)
  | div (a b : AExpr)
  | mod (a b : AExpr)
  deriving Repr, DecidableEq, Inhabited

def AExpr.eval (env : List (String × Nat)) : AExpr → Nat
  | .const n => n
  | .var v => ((env.find? (·.1 == v)).map (·.2)).getD 0
  | .add a b => a.eval env + b.eval env
  | .sub a b => a.eval env - b.eval env
  | .mul a b => a.eval env * b.eval env
  | .shl a b => a.eval env * 2 ^ b.eval env
  | .div a b => a.eval env / b.eval env
  | .mod a b => a.eval env % b.eval env

end FlooVerif

/-
  Model of the rendering layer: floogen/utils.py helpers, RouteMap/RouteTable/Routing render
  methods and the six Mako templates, producing the `Sv` abstract syntax of both files.
-/
import FlooVerif.Model.Route
import FlooVerif.Expect
namespace FlooVerif.Model
open FlooVerif Sv

def ident (s : String) : Expr := .ident s
def num (n : Nat) : Expr := .num n
def intE (i : Int) : Expr := if i < 0 then .neg (.num i.natAbs) else .num i.toNat

/-- `[n-1:0]` as Python renders it for an int `n` (n = 0 gives `[-1:0]`) -/
def dimOf (n : Nat) : Expr × Expr := (intE ((n : Int) - 1), .num 0)
def logicT (n : Nat) : TypeRef := { words := ["logic"], dims := [dimOf n] }
def plainT (w : String) : TypeRef := { words := [w] }
def uintT : TypeRef := { words := ["int", "unsigned"] }

def hexDigits (v : Nat) : String := String.ofList (Nat.toDigits 16 v)
def binDigits (v : Nat) : String := String.ofList (Nat.toDigits 2 v)
def padLeft (s : String) (n : Nat) : String := String.ofList (List.replicate (n - s.length) '0') ++ s
def cdiv (a b : Nat) : Nat := (a + b - 1) / b

/-- python dict insertion: a repeated key keeps its position and takes the new value -/
def dictInsert {β} (m : List (String × β)) (k : String) (v : β) : List (String × β) :=
  if m.any (·.1 == k) then m.map fun (k', v') => if k' == k then (k', v) else (k', v') else m ++ [(k, v)]

/-- `sv_enum_typedef(name, fields_dict)` -/
def enumTypedef (name : String) (fields : List (String × Nat)) : Item :=
  let mx := fields.foldl (fun m (_, v) => max m v) 0
  .typedefEnum (logicT (clog2 (mx + 1))) (fields.map fun (f, v) => (snakeToCamel f, num v)) name

def idExpr (v : IdVal) : Expr :=
  match v with
  | .simple k => num k
  | .coord x y p => .pat [(some "x", intE x), (some "y", intE y), (some "port_id", intE p)]

def algoValue : Algo → String
  | .XY => "XYRouting" | .YX => "YXRouting" | .ID => "IdTable" | .SRC => "SourceRouting"

def boolLit (b : Bool) : Expr := .lit 1 'b' (if b then "1" else "0")

/-! ### package -/

def epEnumItem (d : Desc) (r : Routed) : Item :=
  let fields := r.c.nis.foldl (fun m ni => dictInsert m (niEnumSnake d ni) ni.uid) ([] : List (String × Nat))
  -- sorted by value (stable)
  let sorted := fields.mergeSort fun a b => a.2 ≤ b.2
  enumTypedef "ep_id_e" (dictInsert sorted "num_endpoints" sorted.length)

def samIdxEnumItem (r : Routed) : Item :=
  let fields := r.sam.reverse.zipIdx.foldl (fun m (s, i) => dictInsert m s.name i) ([] : List (String × Nat))
  enumTypedef "sam_idx_e" fields

def routingTypedefs (d : Desc) (r : Routed) : List Item :=
  [Item.typedef (logicT d.robIdxBits) "rob_idx_t"] ++
  (if d.portIdBits > 0 then [Item.typedef (logicT d.portIdBits) "port_id_t"] else []) ++
  (match d.algo, r.xy with
   | .XY, some xy =>
     [.typedef (logicT xy.numXBits) "x_bits_t", .typedef (logicT xy.numYBits) "y_bits_t",
      .typedefStruct ([(plainT "x_bits_t", "x"), (plainT "y_bits_t", "y")] ++
        (if d.portIdBits > 0 then [(plainT "port_id_t", "port_id")] else [])) "id_t",
      .typedef (plainT "logic") "route_t"]
   | .ID, _ => [.typedef (logicT r.numIdBits) "id_t", .typedef (plainT "logic") "route_t"]
   | .SRC, _ => [.typedef (logicT r.numIdBits) "id_t", .typedef (logicT r.numRouteBits) "route_t"]
   | _, _ => []) ++
  (if d.numVcIdBits > 0 then [Item.typedef (logicT d.numVcIdBits) "vc_id_t"] else [])

def addrLit (aw : Nat) (v : Int) : Expr :=
  .lit aw 'h' (padLeft (hexDigits v.toNat) (cdiv aw 4))

def samItems (d : Desc) (r : Routed) : List Item :=
  let aw := d.addrW
  let addrT : TypeRef := { words := ["logic"], dims := [dimOf aw] }
  [Item.localparam uintT "SamNumRules" (num r.sam.length),
   .typedefStruct [(plainT "id_t", "idx"), (addrT, "start_addr"), (addrT, "end_addr")] "sam_rule_t"] ++
  (if r.sam.isEmpty then
     [Item.localparam (plainT "sam_rule_t") "Sam" (.pat [(some "default", num 0)])]
   else
     [Item.localparam { words := ["sam_rule_t"], dims := [(.sub (ident "SamNumRules") (num 1), num 0)] } "Sam"
       (.pat (r.sam.map fun s =>
         (none, Expr.pat [(some "idx", idExpr s.dest), (some "start_addr", addrLit aw s.range.start),
                          (some "end_addr", addrLit aw (s.range.stop % (2 : Int) ^ aw))])))])

/-- `RouteRule.render` -/
def routeLit (numBits : Nat) (rt : Route) : Expr :=
  match rt with
  | none => .lit numBits 'b' (String.ofList (List.replicate numBits '0'))
  | some hops =>
    let str := hops.foldl (fun acc (p, b) => padLeft (binDigits p) b ++ acc) ""
    let used := hops.foldl (fun a (_, b) => a + b) 0
    .lit numBits 'b' (String.ofList (List.replicate (numBits - used) '0') ++ str)

def idKey (v : IdVal) : Nat := match v with | .simple k => k | _ => 0

/-- `RouteTable.sort_and_pad` + `reverse` -/
def sortAndPad (routes : List (NodeId × Route)) : List (NodeId × Route) :=
  let sorted := routes.mergeSort fun a b => idKey a.1 ≤ idKey b.1
  -- `for i, route in enumerate(self.routes): if i != route.id.id: insert(i, empty)`
  let rec pad (l : List (NodeId × Route)) (i : Nat) (fuel : Nat) : List (NodeId × Route) :=
    match fuel, l with
    | 0, l => l
    | _, [] => []
    | fuel + 1, (v, rt) :: rest =>
      if i != idKey v then (IdVal.simple i, none) :: pad ((v, rt) :: rest) (i + 1) fuel
      else (v, rt) :: pad rest (i + 1) fuel
  (pad sorted 0 (sorted.length + (sorted.foldl (fun m x => max m (idKey x.1)) 0) + 1)).reverse

def routingTablesItem (r : Routed) : Item :=
  let sortedNis := (r.routes.mergeSort fun a b => idKey a.1.id ≤ idKey b.1.id).reverse
  let dim : Expr × Expr := (.sub (ident "NumEndpoints") (num 1), num 0)
  .localparam { words := ["route_t"], dims := [dim, dim] } "RoutingTables"
    (.pat (sortedNis.map fun (_, routes) =>
      (none, Expr.pat ((sortAndPad routes).map fun (_, rt) => (none, routeLit r.numRouteBits rt)))))

def routeCfgItem (d : Desc) (r : Routed) : Item :=
  let xyOff := match d.algo, r.xy with | .XY, some xy => xy.addrOffsetBits | _, _ => 0
  let xyOffY := match d.algo, r.xy with | .XY, some xy => xy.addrOffsetBits + xy.numXBits | _, _ => 0
  .localparam (plainT "route_cfg_t") "RouteCfg" (.pat [
    (some "RouteAlgo", ident (algoValue d.algo)),
    (some "UseIdTable", boolLit d.useIdTable),
    (some "XYAddrOffsetX", num xyOff),
    (some "XYAddrOffsetY", num xyOffY),
    (some "IdAddrOffset", num (if d.algo == .ID && !d.useIdTable then d.addrOffsetBits.getD 0 else 0)),
    (some "NumSamRules", num r.sam.length),
    (some "NumRoutes", num (if d.algo == .SRC then r.numEndpoints else 0))])

def protItems (p : ProtDesc) : List Item :=
  let n := p.typeName
  [.typedef (logicT p.addrW) (n ++ "_addr_t"), .typedef (logicT p.dataW) (n ++ "_data_t"),
   .typedef (logicT (p.dataW / 8)) (n ++ "_strb_t"), .typedef (logicT p.idW) (n ++ "_id_t"),
   .typedef (logicT p.userW) (n ++ "_user_t"),
   .macro "`AXI_TYPEDEF_ALL_CT" [[n], [n ++ "_req_t"], [n ++ "_rsp_t"], [n ++ "_addr_t"], [n ++ "_id_t"],
                                 [n ++ "_data_t"], [n ++ "_strb_t"], [n ++ "_user_t"]]]

def findProt (d : Desc) (r : Routed) (kind : Option String) (dir : String) : Option ProtDesc :=
  d.protocols.find? fun p => (kind.isNone || p.type == kind) && directionOf d r.c.dirs p == some dir

def axiCfgItem (name : String) (m s : ProtDesc) : Item :=
  .localparam (plainT "axi_cfg_t") name (.pat [
    (some "AddrWidth", num m.addrW), (some "DataWidth", num m.dataW), (some "UserWidth", num m.userW),
    (some "InIdWidth", num m.idW), (some "OutIdWidth", num s.idW)])

def linkTypedefItems (d : Desc) (r : Routed) : D (List Item) :=
  match d.netType with
  | .nw => do
    let some ni := findProt d r (some "narrow") "input" | throw (.protocol "AttributeError: no narrow input protocol")
    let some no := findProt d r (some "narrow") "output" | throw (.protocol "AttributeError: no narrow output protocol")
    let some wi := findProt d r (some "wide") "input" | throw (.protocol "AttributeError: no wide input protocol")
    let some wo := findProt d r (some "wide") "output" | throw (.protocol "AttributeError: no wide output protocol")
    pure [axiCfgItem "AxiCfgN" ni no, axiCfgItem "AxiCfgW" wi wo,
          .macro "`FLOO_TYPEDEF_NW_CHAN_ALL" [["axi"], ["req"], ["rsp"], ["wide"], [ni.typeName], [wi.typeName],
                                              ["AxiCfgN"], ["AxiCfgW"], ["hdr_t"]],
          .macro "`FLOO_TYPEDEF_NW_LINK_ALL" [["req"], ["rsp"], ["wide"], ["req"], ["rsp"], ["wide"]]]
  | .axi => do
    let some i := findProt d r none "input" | throw (.protocol "AttributeError: no input protocol")
    let some o := findProt d r none "output" | throw (.protocol "AttributeError: no output protocol")
    pure [axiCfgItem "AxiCfg" i o,
          .macro "`FLOO_TYPEDEF_AXI_CHAN_ALL" [["axi"], ["req"], ["rsp"], [i.typeName], ["AxiCfg"], ["hdr_t"]],
          .macro "`FLOO_TYPEDEF_AXI_LINK_ALL" [["req"], ["rsp"], ["req"], ["rsp"]]]

def hdrItem (d : Desc) : Item :=
  let dst := if d.algo == .SRC then "route_t" else "id_t"
  let ch := if d.netType == .axi then "axi_ch_e" else "nw_ch_e"
  if d.numVcIdBits == 0 then .macro "`FLOO_TYPEDEF_HDR_T" [["hdr_t"], [dst], ["id_t"], [ch], ["rob_idx_t"]]
  else .macro "`FLOO_TYPEDEF_VC_HDR_T" [["hdr_t"], [dst], ["id_t"], [ch], ["rob_idx_t"], ["vc_id_t"]]

def emitPackage (d : Desc) (r : Routed) : D Package := do
  let links ← linkTypedefItems d r
  let samPart := if d.useIdTable then samItems d r else
    [Item.localparam uintT "NumSamRules" (num 1), .typedef (plainT "logic") "sam_rule_t",
     .localparam (plainT "sam_rule_t") "Sam" (.tick '0')]
  pure { includes := ["\"axi/typedef.svh\"", "\"floo_noc/typedef.svh\""],
         name := "floo_" ++ d.name ++ "_noc_pkg",
         items := [Item.import_ "floo_pkg", epEnumItem d r, samIdxEnumItem r] ++ routingTypedefs d r ++ samPart ++
           (if d.algo == .SRC then [routingTablesItem r] else []) ++ [routeCfgItem d r] ++
           d.protocols.flatMap protItems ++ [hdrItem d] ++ links }

/-! ### top module -/

def shapeDims (arr : Option (List Nat)) : List (Expr × Expr) :=
  ((arr.getD []).filter (· != 1)).map dimOf

def epPorts (d : Desc) (r : Routed) : D (List Port) := do
  -- one set of ports per endpoint *name*, in order of first appearance among endpoint nodes
  let firsts := (r.c.g.nodesOfKind .endpoint).foldl (fun (acc : List Nat) nd =>
    if acc.contains nd.descIdx then acc else acc ++ [nd.descIdx]) []
  let ps ← firsts.mapM fun k => do
    let ep := d.endpoints.getD k default
    let mk (pn : String) : D (List Port) := do
      let some p := d.protocols.find? (·.name == pn) | throw (.protocol "StopIteration")
      let some dir := directionOf d r.c.dirs p | throw (.protocol "direction not set")
      let inv := if dir == "output" then "input" else "output"
      let base := ep.name ++ "_" ++ p.name
      pure [{ dir := dir, ty := { words := [p.typeName ++ "_req_t"], dims := shapeDims ep.array },
              name := base ++ "_req_" ++ (dir.take 1).toString },
            { dir := inv, ty := { words := [p.typeName ++ "_rsp_t"], dims := shapeDims ep.array },
              name := base ++ "_rsp_" ++ (inv.take 1).toString }]
    let m ← (ep.mgr.getD []).mapM mk
    let s ← (ep.sbr.getD []).mapM mk
    pure (m.flatten ++ s.flatten)
  pure ps.flatten

def linkDecls (d : Desc) (g : Graph) : List Item :=
  g.linkEdges.flatMap fun e =>
    let l := linkOf g e
    [Item.decl (plainT "floo_req_t") l.reqName, .decl (plainT "floo_rsp_t") l.rspName] ++
    (if d.netType == .nw then
      [Item.decl (plainT "floo_wide_t") l.wideName] ++
      (if !l.bidir then [Item.decl (plainT "floo_wide_t") l.wideNameRev] else [])
     else [])

/-- `base_req_i[i][j]` with unit dimensions dropped -/
def portElem (name : String) (arr : Option (List Nat)) (idx : Option (List Nat)) : Expr :=
  match arr, idx with
  | some a, some i =>
    ((i.zip a).filterMap fun (k, dim) => if dim != 1 then some k else none).foldl
      (fun e k => .index e (num k)) (ident name)
  | _, _ => ident name

def lastProt (d : Desc) (names : Option (List String)) (kind : Option String) : Option ProtDesc :=
  ((names.getD []).filterMap fun nm =>
    (d.protocols.find? (·.name == nm)).bind fun p => if kind.isNone || p.type == kind then some p else none).getLast?

def niItems (d : Desc) (r : Routed) (ni : NI) : D (List Item) := do
  let ep := epOf d ni
  let off := r.xy.map fun x => (x.offX, x.offY)
  let idName := ni.name.toUpper ++ "_ID"
  let idItem : Item :=
    if d.algo == .XY then .localparam (plainT "id_t") idName (idExpr (subOffset ni.id off))
    else .localparam (plainT "id_t") idName (.cast "id_t" (idExpr ni.id))
  let srcParams : List (String × Expr) :=
    if d.algo == .SRC then [("route_t", ident "route_t"), ("dst_t", ident "route_t")] else []
  let bus (p : Option ProtDesc) (isMgr : Bool) (pfx : String) : List Bind :=
    match p, isMgr with
    | some p, true =>
      [.conn (pfx ++ "_in_req_i") (portElem (ep.name ++ "_" ++ p.name ++ "_req_i") ep.array ni.arrIdx),
       .conn (pfx ++ "_in_rsp_o") (portElem (ep.name ++ "_" ++ p.name ++ "_rsp_o") ep.array ni.arrIdx)]
    | none, true => [.conn (pfx ++ "_in_req_i") (.tick '0'), .open_ (pfx ++ "_in_rsp_o")]
    | some p, false =>
      [.conn (pfx ++ "_out_req_o") (portElem (ep.name ++ "_" ++ p.name ++ "_req_o") ep.array ni.arrIdx),
       .conn (pfx ++ "_out_rsp_i") (portElem (ep.name ++ "_" ++ p.name ++ "_rsp_i") ep.array ni.arrIdx)]
    | none, false => [.open_ (pfx ++ "_out_req_o"), .conn (pfx ++ "_out_rsp_i") (.tick '0')]
  let routeTable : Expr :=
    if d.algo == .SRC then .index (ident "RoutingTables") (ident (snakeToCamel (niEnumSnake d ni))) else .tick '0'
  let setPorts (s m : Bool) : Expr := .call "set_ports" [ident "ChimneyDefaultCfg", boolLit s, boolLit m]
  let common1 : List Bind := [.implicit "clk_i", .implicit "rst_ni", .implicit "test_enable_i",
                              .conn "sram_cfg_i" (.tick '0')]
  match d.netType with
  | .axi =>
    let some inP := findProt d r none "input" | throw (.protocol "AttributeError: in_prot")
    let some outP := findProt d r none "output" | throw (.protocol "AttributeError: out_prot")
    let mp := lastProt d ep.mgr none
    let sp := lastProt d ep.sbr none
    pure [idItem, .inst "floo_axi_chimney"
      ([("AxiCfg", ident "AxiCfg"), ("ChimneyCfg", setPorts sp.isSome mp.isSome), ("RouteCfg", ident "RouteCfg"),
        ("id_t", ident "id_t"), ("rob_idx_t", ident "rob_idx_t")] ++ srcParams ++
       [("hdr_t", ident "hdr_t"), ("sam_rule_t", ident "sam_rule_t"), ("Sam", ident "Sam"),
        ("axi_in_req_t", ident (inP.typeName ++ "_req_t")), ("axi_in_rsp_t", ident (inP.typeName ++ "_rsp_t")),
        ("axi_out_req_t", ident (outP.typeName ++ "_req_t")), ("axi_out_rsp_t", ident (outP.typeName ++ "_rsp_t")),
        ("floo_req_t", ident "floo_req_t"), ("floo_rsp_t", ident "floo_rsp_t")])
      ni.name
      (common1 ++ bus mp true "axi" ++ bus sp false "axi" ++
       [.conn "id_i" (ident idName), .conn "route_table_i" routeTable,
        .conn "floo_req_o" (ident ni.mgrLink.reqName), .conn "floo_rsp_i" (ident ni.mgrLink.rspName),
        .conn "floo_req_i" (ident ni.sbrLink.reqName), .conn "floo_rsp_o" (ident ni.sbrLink.rspName)])]
  | .nw =>
    let some nIn := findProt d r (some "narrow") "input" | throw (.protocol "AttributeError: narrow_in_prot")
    let some nOut := findProt d r (some "narrow") "output" | throw (.protocol "AttributeError: narrow_out_prot")
    let some wIn := findProt d r (some "wide") "input" | throw (.protocol "AttributeError: wide_in_prot")
    let some wOut := findProt d r (some "wide") "output" | throw (.protocol "AttributeError: wide_out_prot")
    let mn := lastProt d ep.mgr (some "narrow")
    let sn := lastProt d ep.sbr (some "narrow")
    let mw := lastProt d ep.mgr (some "wide")
    let sw := lastProt d ep.sbr (some "wide")
    pure [idItem, .inst "floo_nw_chimney"
      ([("AxiCfgN", ident "AxiCfgN"), ("AxiCfgW", ident "AxiCfgW"),
        ("ChimneyCfgN", setPorts sn.isSome mn.isSome), ("ChimneyCfgW", setPorts sw.isSome mw.isSome),
        ("RouteCfg", ident "RouteCfg"), ("id_t", ident "id_t"), ("rob_idx_t", ident "rob_idx_t")] ++ srcParams ++
       [("hdr_t", ident "hdr_t"), ("sam_rule_t", ident "sam_rule_t"), ("Sam", ident "Sam"),
        ("axi_narrow_in_req_t", ident (nIn.typeName ++ "_req_t")), ("axi_narrow_in_rsp_t", ident (nIn.typeName ++ "_rsp_t")),
        ("axi_narrow_out_req_t", ident (nOut.typeName ++ "_req_t")), ("axi_narrow_out_rsp_t", ident (nOut.typeName ++ "_rsp_t")),
        ("axi_wide_in_req_t", ident (wIn.typeName ++ "_req_t")), ("axi_wide_in_rsp_t", ident (wIn.typeName ++ "_rsp_t")),
        ("axi_wide_out_req_t", ident (wOut.typeName ++ "_req_t")), ("axi_wide_out_rsp_t", ident (wOut.typeName ++ "_rsp_t")),
        ("floo_req_t", ident "floo_req_t"), ("floo_rsp_t", ident "floo_rsp_t"), ("floo_wide_t", ident "floo_wide_t")])
      ni.name
      (common1 ++ bus mn true "axi_narrow" ++ bus sn false "axi_narrow" ++ bus mw true "axi_wide" ++ bus sw false "axi_wide" ++
       [.conn "id_i" (ident idName), .conn "route_table_i" routeTable,
        .conn "floo_req_o" (ident ni.mgrLink.reqName), .conn "floo_rsp_i" (ident ni.mgrLink.rspName),
        .conn "floo_wide_o" (ident ni.mgrLink.wideName),
        .conn "floo_req_i" (ident ni.sbrLink.reqName), .conn "floo_rsp_o" (ident ni.sbrLink.rspName),
        .conn "floo_wide_i" (ident ni.sbrLink.wideName)])]

def elemE (arr : String) (i : Nat) : Expr := .index (ident arr) (num i)

def routerItems (d : Desc) (r : Routed) (rt : Router) : D (List Item) := do
  if rt.incoming.all (·.isNone) then throw (.internal "StopIteration: router without incoming link")
  let nm := rt.name
  let tableItems : List Item :=
    if d.algo == .ID then
      let rules := ((r.tables.find? (·.1 == nm)).map (·.2)).getD []
      let camel := snakeToCamel (nm ++ "_map")
      let idxT : TypeRef := { words := ["logic"], dims := [dimOf (max (clog2 rt.outgoing.length) 1)] }
      [Item.localparam uintT (camel ++ "NumRules") (num rules.length),
       .typedefStruct [(idxT, "idx"), (plainT "id_t", "start_addr"), (plainT "id_t", "end_addr")] (nm ++ "_map_rule_t")] ++
      (if rules.isEmpty then [Item.localparam (plainT (nm ++ "_map_rule_t")) camel (.pat [(some "default", num 0)])]
       else [Item.localparam { words := [nm ++ "_map_rule_t"], dims := [(.sub (ident (camel ++ "NumRules")) (num 1), num 0)] }
         camel (.pat (rules.map fun ru => (none, Expr.pat [(some "idx", num ru.dest), (some "start_addr", intE ru.start),
                    (some "end_addr", intE (ru.stop % (2 : Int) ^ r.numIdBits))])))])
    else []
  let nin := rt.incoming.length
  let nout := rt.outgoing.length
  let arrT (t : String) (n : Nat) : TypeRef := { words := [t], dims := [dimOf n] }
  let decls : List Item :=
    [.decl (arrT "floo_req_t" nin) (nm ++ "_req_in"), .decl (arrT "floo_rsp_t" nin) (nm ++ "_rsp_out"),
     .decl (arrT "floo_req_t" nout) (nm ++ "_req_out"), .decl (arrT "floo_rsp_t" nout) (nm ++ "_rsp_in")] ++
    (if d.netType == .nw then
      [.decl (arrT "floo_wide_t" nin) (nm ++ "_wide_in"), .decl (arrT "floo_wide_t" nout) (nm ++ "_wide_out")] else [])
  let a1 := rt.incoming.zipIdx.map fun (l, i) =>
    Item.assign (elemE (nm ++ "_req_in") i) (match l with | some l => ident l.reqName | none => .tick '0')
  let a2 := rt.incoming.zipIdx.filterMap fun (l, i) =>
    l.map fun l => Item.assign (ident l.rspName) (elemE (nm ++ "_rsp_out") i)
  let a3 := rt.outgoing.zipIdx.filterMap fun (l, i) =>
    l.map fun l => Item.assign (ident l.reqName) (elemE (nm ++ "_req_out") i)
  let a4 := rt.outgoing.zipIdx.map fun (l, i) =>
    Item.assign (elemE (nm ++ "_rsp_in") i) (match l with | some l => ident l.rspName | none => .tick '0')
  let a5 := if d.netType == .nw then rt.incoming.zipIdx.map fun (l, i) =>
    Item.assign (elemE (nm ++ "_wide_in") i) (match l with | some l => ident l.wideName | none => .tick '0') else []
  let a6 := if d.netType == .nw then rt.outgoing.zipIdx.filterMap fun (l, i) =>
    l.map fun l => Item.assign (ident l.wideName) (elemE (nm ++ "_wide_out") i) else []
  let off := r.xy.map fun x => (x.offX, x.offY)
  let idItems : List Item :=
    match d.algo, rt.id with
    | .XY, some v => [.localparam (plainT "id_t") (nm.toUpper ++ "_ID") (idExpr (subOffset v off))]
    | _, _ => []
  let isNw := d.netType == .nw
  let params : List (String × Expr) :=
    (if isNw then [("AxiCfgN", ident "AxiCfgN"), ("AxiCfgW", ident "AxiCfgW")] else [("AxiCfg", ident "AxiCfg")]) ++
    [("RouteAlgo", ident (algoValue d.algo)), ("NumRoutes", num rt.degree), ("NumInputs", num nin),
     ("NumOutputs", num nout), ("InFifoDepth", num 2), ("OutFifoDepth", num 2),
     ("id_t", ident "id_t"), ("hdr_t", ident "hdr_t")] ++
    (if d.algo == .ID then
      [("NumAddrRules", num (((r.tables.find? (·.1 == nm)).map (·.2.length)).getD 0)),
       ("addr_rule_t", ident (nm ++ "_map_rule_t"))] else []) ++
    [("floo_req_t", ident "floo_req_t"), ("floo_rsp_t", ident "floo_rsp_t")] ++
    (if isNw then [("floo_wide_t", ident "floo_wide_t")] else [])
  let binds : List Bind :=
    [.implicit "clk_i", .implicit "rst_ni", .implicit "test_enable_i",
     .conn "id_i" (if d.algo == .XY then ident (nm.toUpper ++ "_ID") else .tick '0'),
     .conn "id_route_map_i" (if d.algo == .ID then ident (camelcaseTpl (nm ++ "_map")) else .tick '0'),
     .conn "floo_req_i" (ident (nm ++ "_req_in")), .conn "floo_rsp_o" (ident (nm ++ "_rsp_out")),
     .conn "floo_req_o" (ident (nm ++ "_req_out")), .conn "floo_rsp_i" (ident (nm ++ "_rsp_in"))] ++
    (if isNw then [.conn "floo_wide_i" (ident (nm ++ "_wide_in")), .conn "floo_wide_o" (ident (nm ++ "_wide_out"))] else [])
  pure (tableItems ++ decls ++ a1 ++ a2 ++ a3 ++ a4 ++ a5 ++ a6 ++ idItems ++
        [.inst (if isNw then "floo_nw_router" else "floo_axi_router") params nm binds])

def emitTop (d : Desc) (r : Routed) : D Module := do
  let ports ← epPorts d r
  let nis ← r.c.nis.mapM (niItems d r)
  let rts ← r.c.routers.mapM (routerItems d r)
  let std (n : String) : Port := { dir := "input", ty := plainT "logic", name := n }
  pure { name := "floo_" ++ d.name ++ "_noc",
         imports := ["floo_pkg", "floo_" ++ d.name ++ "_noc_pkg"],
         ports := [std "clk_i", std "rst_ni", std "test_enable_i"] ++ ports,
         items := linkDecls d r.c.g ++ nis.flatten ++ rts.flatten }

/-- the whole generator: description ↦ (package, top module) or a rejection -/
def genWith (sp : PathOracle) (d : Desc) : D (Package × Module) := do
  validateDesc d
  let g ← createNetwork d
  let c ← compileNetwork d g
  let r ← genRoutingInfo sp d c
  let pkg ← emitPackage d r
  let top ← emitTop d r
  pure (pkg, top)

def gen (d : Desc) : D (Package × Module) := genWith nxBidirBfs d

/-- the generator up to the routing information (what the files are rendered from) -/
def routed (d : Desc) : D Routed := do
  validateDesc d
  let g ← createNetwork d
  let c ← compileNetwork d g
  genRoutingInfo nxBidirBfs d c

/-- hypothesis of `C03M.model_route_unpacks`, decided per description: every hop of every source route takes at
    least one bit (a router on a route has at least two ports) -/
def routeHypB (r : Routed) : Bool :=
  r.routes.all fun (_, rs) => rs.all fun (_, rt) =>
    match rt with
    | some hops => hops.all fun (_, b) => 0 < b
    | none => true

end FlooVerif.Model

/-
  Model of floogen/model/network.py: validators and create_network
  (create_routers, create_endpoints, create_connections).
-/
import FlooVerif.Model.Graph
import FlooVerif.AddrRange
namespace FlooVerif.Model
open FlooVerif

/-- Network-level validators (pydantic field and model validators of Network/EndpointDesc/…) -/
def validateDesc (d : Desc) : D Unit := do
  -- AddrRange validation of every declared range
  for e in d.endpoints do
    for r in e.ranges do
      match mkRange r with
      | .ok _ => pure ()
      | .error _ => throw (.range s!"invalid address range of {e.name}")
    -- check_addr_range: a subordinate needs an address range
    if e.isSbr && e.ranges.isEmpty then
      throw (.range s!"Endpoint {e.name} is a Subordinate and requires an address range")
  -- unique endpoint / router names
  if !(d.endpoints.map (·.name)).Nodup then throw (.names "Endpoint names must be unique")
  if !(d.routers.map (·.name)).Nodup then throw (.names "router names must be unique")
  -- connections
  for c in d.connections do
    -- truthiness: `if self.src_idx and self.src_lvl`
    let truthyIdx (o : Option (List Int)) := match o with | some l => !l.isEmpty | none => false
    let truthyLvl (o : Option Int) := match o with | some l => l != 0 | none => false
    if truthyIdx c.srcIdx && truthyLvl c.srcLvl then throw (.selector "src_idx and src_lvl are mutually exclusive")
    if truthyIdx c.dstIdx && truthyLvl c.dstLvl then throw (.selector "dst_idx and dst_lvl are mutually exclusive")
    if !c.bidirectional then throw (.count "Unidirectional connections are not supported yet.")
  -- validate_protocols
  let distinct (l : List Nat) := l.eraseDups.length
  if distinct (d.protocols.map (·.addrW)) != 1 then throw (.protocol "All protocols must have the same address width")
  match d.netType with
  | .nw =>
    let nar := d.protocols.filter (·.type == some "narrow")
    let wid := d.protocols.filter (·.type == some "wide")
    if distinct (nar.map (·.dataW)) != 1 then throw (.protocol "All `narrow` protocols must have the same data width")
    if distinct (wid.map (·.dataW)) != 1 then throw (.protocol "All `wide` protocols must have the same data width")
    if distinct (nar.map (·.userW)) != 1 then throw (.protocol "All `narrow` protocols must have the same user width")
    if distinct (wid.map (·.userW)) != 1 then throw (.protocol "All `wide` protocols must have the same user width")
    if d.protocols.any (·.type.isNone) then throw (.protocol "Protocols must define `type` for `narrow-wide` networks")
  | .axi =>
    if distinct (d.protocols.map (·.dataW)) != 1 then throw (.protocol "All protocols must have the same data width")
    if distinct (d.protocols.map (·.userW)) != 1 then throw (.protocol "All protocols must have the same user width")

def createRouters (d : Desc) (g : Graph) : D Graph :=
  d.routers.zipIdx.foldlM (fun g (rt, k) =>
    match rt.array, rt.tree with
    | none, none => g.addNode { name := rt.name, kind := .router, descIdx := k }
    | some [m, n], none => g.addNodesAsArray rt.name [m, n] .router k rt.autoConnect
    | some [n], none =>
      -- `case ((m, n), None)` does not match a 1-tuple: falls to `case (None, tree_list)`? no:
      -- (array=(n,), tree=None) matches none of the first three patterns
      let _ := n; throw (.schema "Invalid router description")
    | none, some tree => g.addNodesAsTree rt.name tree k rt.autoConnect (tree.length + 1) 0
    | _, _ => throw (.schema "Invalid router description")) g

def createEndpoints (d : Desc) (g : Graph) : D Graph :=
  d.endpoints.zipIdx.foldlM (fun g (ep, k) => do
    let addProt (g : Graph) (pairs : List (String × String)) : D Graph := do
      let g ← if ep.isSbr then pairs.foldlM (fun g (e, ni) => g.addEdge { src := ni, dst := e, kind := .protocol, hasDirs := false }) g else pure g
      if ep.isMgr then pairs.foldlM (fun g (e, ni) => g.addEdge { src := e, dst := ni, kind := .protocol, hasDirs := false }) g else pure g
    match ep.array with
    | none =>
      let g ← g.addNode { name := ep.name, kind := .endpoint, descIdx := k }
      let g ← g.addNode { name := ep.name ++ "_ni", kind := .ni, descIdx := k }
      addProt g [(ep.name, ep.name ++ "_ni")]
    | some [n] =>
      let g ← g.addNodesAsArray ep.name [n] .endpoint k false
      let g ← g.addNodesAsArray (ep.name ++ "_ni") [n] .ni k false
      let eps ← g.nodesFromRange ep.name [(0, (n : Int) - 1)]
      let nis ← g.nodesFromRange (ep.name ++ "_ni") [(0, (n : Int) - 1)]
      addProt g (eps.zip nis)
    | some [m, n] =>
      let g ← g.addNodesAsArray ep.name [m, n] .endpoint k false
      let g ← g.addNodesAsArray (ep.name ++ "_ni") [m, n] .ni k false
      let eps ← g.nodesFromRange ep.name [(0, (m : Int) - 1), (0, (n : Int) - 1)]
      let nis ← g.nodesFromRange (ep.name ++ "_ni") [(0, (m : Int) - 1), (0, (n : Int) - 1)]
      addProt g (eps.zip nis)
    | some _ => throw (.schema "Invalid endpoint description")) g

/-- Python `str.replace(old, new)`: all non-overlapping occurrences, left to right -/
def strReplace (s old new : String) : String :=
  if old.isEmpty then s else String.intercalate new (s.splitOn old)

def selectNodes (g : Graph) (base : String) (idx : Option (List Int)) (rng : Option (List (Int × Int)))
    (lvl : Option Int) : D (List String) :=
  match idx, rng, lvl with
  | none, none, none => pure [base]
  | some i, none, none => g.nodesFromIdx base i
  | none, some r, none => g.nodesFromRange base r
  | none, none, some l => g.nodesFromLvl base l
  | _, _, _ => throw (.selector "idx, range and lvl are mutually exclusive")

def createConnections (d : Desc) (g : Graph) : D Graph :=
  d.connections.foldlM (fun g c => do
    let srcs ← selectNodes g c.src c.srcIdx c.srcRange c.srcLvl
    let dsts ← selectNodes g c.dst c.dstIdx c.dstRange c.dstLvl
    let niOf (n : String) : D String :=
      match g.findNode n with
      | none => throw (.selector s!"node {n} does not exist")
      | some nd =>
        if nd.kind == .endpoint then
          let ep := d.endpoints.getD nd.descIdx default
          pure (strReplace n ep.name (ep.name ++ "_ni"))
        else pure n
    let srcs ← srcs.mapM niOf
    let dsts ← dsts.mapM niOf
    let ns := srcs.length
    let nd := dsts.length
    let (srcs, dsts) ←
      if ns == nd then pure (srcs, dsts)
      else if c.allowMulti && nd != 0 && ns % nd == 0 && ns > nd then
        pure (srcs, dsts.flatMap fun t => List.replicate (ns / nd) t)
      else if c.allowMulti && ns != 0 && nd % ns == 0 && nd > ns then
        pure (srcs.flatMap fun s => List.replicate (nd / ns) s, dsts)
      else throw (.count "srcs and dsts must have the same length or `allow_multi` must be `True` and lengths must be dividable by each other")
    (srcs.zip dsts).foldlM (fun g (s, t) => do
      let g ← g.addEdge { src := s, dst := t, kind := .link, srcDir := c.srcDir, dstDir := c.dstDir }
      if c.bidirectional then
        g.addEdge { src := t, dst := s, kind := .link, srcDir := c.dstDir, dstDir := c.srcDir }
      else pure g) g) g

def createNetwork (d : Desc) : D Graph := do
  let g ← createRouters d {}
  let g ← createEndpoints d g
  createConnections d g

end FlooVerif.Model

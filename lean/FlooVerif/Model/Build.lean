/-
  Model of floogen/model/network.py: validators and create_network
  (create_routers, create_endpoints, create_connections).
-/
import FlooVerif.Model.Graph
import FlooVerif.AddrRange
namespace FlooVerif.Model
open FlooVerif

def truthyIdx (o : Option (List Int)) : Bool := match o with | some l => !l.isEmpty | none => false
def truthyLvl (o : Option Int) : Bool := match o with | some l => l != 0 | none => false
def distinctCount (l : List Nat) : Nat := l.eraseDups.length

def rangeInvalid (r : RangeSpec) : Bool := match mkRange r with | .ok _ => false | .error _ => true

/-- Network-level validators (pydantic field and model validators of Network/EndpointDesc/…),
    as a chain of decidable conditions; the first that holds rejects the description -/
def validateDesc (d : Desc) : D Unit :=
  -- Routing.check_id_addr_offset (the routing section is validated before the endpoints)
  if d.algo == .ID && !d.useIdTable && d.addrOffsetBits.isNone then
    throw (.schema "`addr_offset_bits` is required for ID routing without `use_id_table`")
  else if d.endpoints.any (fun e => e.ranges.any rangeInvalid) then throw (.range "invalid address range")
  -- check_addr_range: a subordinate needs an address range
  else if d.endpoints.any (fun e => e.isSbr && e.ranges.isEmpty) then
    throw (.range "Endpoint is a Subordinate and requires an address range")
  else if !(d.endpoints.map (·.name)).Nodup then throw (.names "Endpoint names must be unique")
  else if !(d.routers.map (·.name)).Nodup then throw (.names "router names must be unique")
  -- truthiness: `if self.src_idx and self.src_lvl`
  else if d.connections.any (fun c => (truthyIdx c.srcIdx && truthyLvl c.srcLvl) || (truthyIdx c.dstIdx && truthyLvl c.dstLvl)) then
    throw (.selector "idx and lvl are mutually exclusive")
  else if d.connections.any (fun c => !c.bidirectional) then throw (.count "Unidirectional connections are not supported yet.")
  else if distinctCount (d.protocols.map (·.addrW)) != 1 then throw (.protocol "All protocols must have the same address width")
  else match d.netType with
  | .nw =>
    let nar := d.protocols.filter (·.type == some "narrow")
    let wid := d.protocols.filter (·.type == some "wide")
    if distinctCount (nar.map (·.dataW)) != 1 then throw (.protocol "All `narrow` protocols must have the same data width")
    else if distinctCount (wid.map (·.dataW)) != 1 then throw (.protocol "All `wide` protocols must have the same data width")
    else if distinctCount (nar.map (·.userW)) != 1 then throw (.protocol "All `narrow` protocols must have the same user width")
    else if distinctCount (wid.map (·.userW)) != 1 then throw (.protocol "All `wide` protocols must have the same user width")
    else if d.protocols.any (·.type.isNone) then throw (.protocol "Protocols must define `type` for `narrow-wide` networks")
    else pure ()
  | .axi =>
    if distinctCount (d.protocols.map (·.dataW)) != 1 then throw (.protocol "All protocols must have the same data width")
    else if distinctCount (d.protocols.map (·.userW)) != 1 then throw (.protocol "All protocols must have the same user width")
    else pure ()

def createRouters (d : Desc) (g : Graph) : D Graph :=
  d.routers.zipIdx.foldlM (fun g (rt, k) =>
    match rt.array, rt.tree with
    | none, none => g.addNode { name := rt.name, kind := .router, descIdx := k }
    | some [m, n], none => g.addNodesAsArray rt.name [m, n] .router k rt.autoConnect
    | some [n], none =>
      -- `case ((m, n), None)` does not match a 1-tuple: falls to `case (None, tree_list)`? no:
      -- (array=(n,), tree=None) matches none of the first three patterns
      let _ := n; throw (.schema "Invalid router description")
    | none, some tree => g.addNodesAsTree rt.name tree k rt.autoConnect (tree.length + 1) 0
    | _, _ => throw (.schema "Invalid router description")) g

def createEndpoints (d : Desc) (g : Graph) : D Graph :=
  d.endpoints.zipIdx.foldlM (fun g (ep, k) => do
    let addProt (g : Graph) (pairs : List (String × String)) : D Graph := do
      let g ← if ep.isSbr then pairs.foldlM (fun g (e, ni) => g.addEdge { src := ni, dst := e, kind := .protocol, hasDirs := false }) g else pure g
      if ep.isMgr then pairs.foldlM (fun g (e, ni) => g.addEdge { src := e, dst := ni, kind := .protocol, hasDirs := false }) g else pure g
    match ep.array with
    | none =>
      let g ← g.addNode { name := ep.name, kind := .endpoint, descIdx := k }
      let g ← g.addNode { name := ep.name ++ "_ni", kind := .ni, descIdx := k }
      addProt g [(ep.name, ep.name ++ "_ni")]
    | some [n] =>
      let g ← g.addNodesAsArray ep.name [n] .endpoint k false
      let g ← g.addNodesAsArray (ep.name ++ "_ni") [n] .ni k false
      let eps ← g.nodesFromRange ep.name [(0, (n : Int) - 1)]
      let nis ← g.nodesFromRange (ep.name ++ "_ni") [(0, (n : Int) - 1)]
      addProt g (eps.zip nis)
    | some [m, n] =>
      let g ← g.addNodesAsArray ep.name [m, n] .endpoint k false
      let g ← g.addNodesAsArray (ep.name ++ "_ni") [m, n] .ni k false
      let eps ← g.nodesFromRange ep.name [(0, (m : Int) - 1), (0, (n : Int) - 1)]
      let nis ← g.nodesFromRange (ep.name ++ "_ni") [(0, (m : Int) - 1), (0, (n : Int) - 1)]
      addProt g (eps.zip nis)
    | some _ => throw (.schema "Invalid endpoint description")) g

/-- Python `str.replace(old, new)`: all non-overlapping occurrences, left to right -/
def strReplace (s old new : String) : String :=
  if old.isEmpty then s else String.intercalate new (s.splitOn old)

def selectNodes (g : Graph) (base : String) (idx : Option (List Int)) (rng : Option (List (Int × Int)))
    (lvl : Option Int) : D (List String) :=
  match idx, rng, lvl with
  | none, none, none => pure [base]
  | some i, none, none => g.nodesFromIdx base i
  | none, some r, none => g.nodesFromRange base r
  | none, none, some l => g.nodesFromLvl base l
  | _, _, _ => throw (.selector "idx, range and lvl are mutually exclusive")

/-- equal lengths pair up as they are; with `allow_multi` every element of the shorter side is
    repeated so that the lengths match -/
def matchLists (multi : Bool) (srcs dsts : List String) : D (List String × List String) :=
  let ns := srcs.length
  let nd := dsts.length
  if ns == nd then pure (srcs, dsts)
  else if multi && nd != 0 && ns % nd == 0 && ns > nd then
    pure (srcs, dsts.flatMap fun t => List.replicate (ns / nd) t)
  else if multi && ns != 0 && nd % ns == 0 && nd > ns then
    pure (srcs.flatMap fun s => List.replicate (nd / ns) s, dsts)
  else throw (.count "srcs and dsts must have the same length or `allow_multi` must be `True` and lengths must be dividable by each other")

/-- one link (and its reverse) per (source, destination) pair -/
def connectPairs (c : ConnDesc) (pairs : List (String × String)) (g : Graph) : D Graph :=
  pairs.foldlM (fun g (x : String × String) => do
    let g ← g.addEdge { src := x.1, dst := x.2, kind := .link, srcDir := c.srcDir, dstDir := c.dstDir }
    if c.bidirectional then
      g.addEdge { src := x.2, dst := x.1, kind := .link, srcDir := c.dstDir, dstDir := c.srcDir }
    else pure g) g

def createConnections (d : Desc) (g : Graph) : D Graph :=
  d.connections.foldlM (fun g c => do
    let srcs ← selectNodes g c.src c.srcIdx c.srcRange c.srcLvl
    let dsts ← selectNodes g c.dst c.dstIdx c.dstRange c.dstLvl
    let niOf (n : String) : D String :=
      match g.findNode n with
      | none => throw (.selector s!"node {n} does not exist")
      | some nd =>
        if nd.kind == .endpoint then
          let ep := d.endpoints.getD nd.descIdx default
          pure (strReplace n ep.name (ep.name ++ "_ni"))
        else pure n
    let srcs ← srcs.mapM niOf
    let dsts ← dsts.mapM niOf
    let (srcs, dsts) ← matchLists c.allowMulti srcs dsts
    connectPairs c (srcs.zip dsts) g) g

def createNetwork (d : Desc) : D Graph := do
  let g ← createRouters d {}
  let g ← createEndpoints d g
  createConnections d g

end FlooVerif.Model

/-
  Model of floogen/model/graph.py on top of networkx.DiGraph: string-keyed nodes in insertion
  order, edges in insertion order; `edgesOrdered` reproduces networkx's `G.edges` iteration
  (by source node in node order, then by insertion), which is what distinguishes
  `get_edges_to` (ordered by source node) from `get_edges_from` (ordered by insertion).
-/
import FlooVerif.DescJson
namespace FlooVerif.Model

inductive NodeKind where | router | endpoint | ni
  deriving Repr, DecidableEq, Inhabited

structure Node where
  name : String
  kind : NodeKind
  descIdx : Nat                      -- index of the RouterDesc / EndpointDesc it came from
  arrIdx : Option (List Nat) := none
  lvl : Option Nat := none
  deriving Repr, DecidableEq, Inhabited

inductive EdgeKind where | link | protocol
  deriving Repr, DecidableEq, Inhabited

structure Edge where
  src : String
  dst : String
  kind : EdgeKind
  srcDir : Option Nat := none
  dstDir : Option Nat := none
  hasDirs : Bool := true             -- whether src_dir/dst_dir keys exist on the edge at all
  deriving Repr, DecidableEq, Inhabited

structure Graph where
  nodes : List Node := []
  edges : List Edge := []            -- insertion order
  deriving Repr, Inhabited

namespace Graph

def hasNode (g : Graph) (n : String) : Bool := g.nodes.any (·.name == n)
def findNode (g : Graph) (n : String) : Option Node := g.nodes.find? (·.name == n)
def hasEdge (g : Graph) (u v : String) : Bool := g.edges.any fun e => e.src == u && e.dst == v
def findEdge (g : Graph) (u v : String) : Option Edge := g.edges.find? fun e => e.src == u && e.dst == v

def addNode (g : Graph) (n : Node) : D Graph :=
  if g.hasNode n.name then throw (.names s!"Node {n.name} already exists in the graph.")
  else pure { g with nodes := g.nodes ++ [n] }

/-- `Graph.add_edge`; networkx would silently create missing end points, floogen never relies on
    that (every caller has looked the nodes up before), so a missing node is an internal error -/
def addEdge (g : Graph) (e : Edge) : D Graph :=
  if g.hasEdge e.src e.dst then throw (.dupEdge s!"Edge ({e.src}, {e.dst}) already exists in the graph.")
  else if !(g.hasNode e.src && g.hasNode e.dst) then throw (.internal s!"edge ({e.src}, {e.dst}) to a missing node")
  else pure { g with edges := g.edges ++ [e] }

/-- networkx `G.edges` order -/
def edgesOrdered (g : Graph) : List Edge :=
  g.nodes.flatMap fun u => g.edges.filter (·.src == u.name)

def edgesFrom (g : Graph) (n : String) : List Edge := g.edges.filter (·.src == n)
def edgesTo (g : Graph) (n : String) : List Edge := g.edgesOrdered.filter (·.dst == n)
/-- successors in adjacency (insertion) order -/
def succs (g : Graph) (n : String) : List String := (g.edgesFrom n).map (·.dst)
/-- predecessors in the order the incoming edges were inserted -/
def preds (g : Graph) (n : String) : List String := (g.edges.filter (·.dst == n)).map (·.src)

def nodesOfKind (g : Graph) (k : NodeKind) : List Node := g.nodes.filter (·.kind == k)
def linkEdges (g : Graph) : List Edge := g.edgesOrdered.filter (·.kind == .link)
def protEdges (g : Graph) : List Edge := g.edgesOrdered.filter (·.kind == .protocol)

/-! ### selectors (get_nodes_from_range / idx / lvl) -/

def intSuffix (idx : List Int) : String := String.join (idx.map fun i => "_" ++ toString i)

/-- Python `range(start, end + step, step)` with step = +1 if end > start else -1 -/
def pyRange (a b : Int) : List Int :=
  if b > a then (List.range (b - a + 1).toNat).map fun (i : Nat) => a + (i : Int)
  else (List.range (a - b + 1).toNat).map fun (i : Nat) => a - (i : Int)

def checkNode (g : Graph) (nm : String) : D String :=
  if g.hasNode nm then pure nm else throw (.selector s!"Node {nm} does not exist")

def nodesFromRange (g : Graph) (node : String) : List (Int × Int) → D (List String)
  | [] => throw (.selector "Range is empty")
  | [(a, b)] => (pyRange a b).mapM fun i => checkNode g (node ++ "_" ++ toString i)
  | (a, b) :: rest => do
    let parts ← (pyRange a b).mapM fun i => nodesFromRange g (node ++ "_" ++ toString i) rest
    pure parts.flatten

def nodesFromIdx (g : Graph) (node : String) (idx : List Int) : D (List String) :=
  -- f"{node}_{'_'.join(...)}": an empty index list yields a trailing underscore
  (checkNode g (node ++ "_" ++ String.intercalate "_" (idx.map toString))).map fun nm => [nm]

/-- `all(i.isdigit() for i in s.split("_"))` on the characters of `s`; `ne`: the segment read so far is not empty -/
def digitSegs : List Char → Bool → Bool
  | [], ne => ne
  | c :: cs, ne => if c == '_' then ne && digitSegs cs false else c.isDigit && digitSegs cs true

/-- number of `_`-separated segments of a string given by its characters -/
def segCount (cs : List Char) : Nat := (cs.filter (· == '_')).length + 1

/-- a node of the tree `node` that can sit on level `lvl`: the name itself, or the name followed by at most
    `lvl + 1` segments `_<digits>` -/
def inTree (node : String) (lvl : Int) (name : String) : Bool :=
  name == node ||
    ((node ++ "_").toList.isPrefixOf name.toList &&
      (decide ((segCount (name.toList.drop (node ++ "_").toList.length) : Int) ≤ lvl + 1) &&
        digitSegs (name.toList.drop (node ++ "_").toList.length) false))

def nodesFromLvl (g : Graph) (node : String) (lvl : Int) : D (List String) :=
  -- two chained filters: a node of the tree, then `nodes[n].get("lvl") == lvl`
  pure (((g.nodes.filter fun n => inTree node lvl n.name).filter
    fun n => n.lvl.map (fun (l : Nat) => (l : Int)) == some lvl).map (·.name))

/-! ### constructors -/

def addNodesAsArray (g : Graph) (name : String) (array : List Nat) (kind : NodeKind) (descIdx : Nat)
    (connect : Bool) : D Graph :=
  match array with
  | [n] =>
    (List.range n).foldlM (fun g i => do
      let node := name ++ "_" ++ toString i
      let g ← g.addNode { name := node, kind, descIdx, arrIdx := some [i] }
      if i > 0 && connect then
        let prev := name ++ "_" ++ toString (i - 1)
        let g ← g.addEdge { src := node, dst := prev, kind := .link, hasDirs := false }
        g.addEdge { src := prev, dst := node, kind := .link, hasDirs := false }
      else pure g) g
  | [n, m] =>
    (List.range n).foldlM (fun g i =>
      (List.range m).foldlM (fun g j => do
        let node := name ++ "_" ++ toString i ++ "_" ++ toString j
        let g ← g.addNode { name := node, kind, descIdx, arrIdx := some [i, j] }
        let g ← if i > 0 && connect then do
            let w := name ++ "_" ++ toString (i - 1) ++ "_" ++ toString j
            let g ← g.addEdge { src := node, dst := w, kind := .link, srcDir := some 3, dstDir := some 1 }
            g.addEdge { src := w, dst := node, kind := .link, srcDir := some 1, dstDir := some 3 }
          else pure g
        if j > 0 && connect then
          let s := name ++ "_" ++ toString i ++ "_" ++ toString (j - 1)
          let g ← g.addEdge { src := node, dst := s, kind := .link, srcDir := some 2, dstDir := some 0 }
          g.addEdge { src := s, dst := node, kind := .link, srcDir := some 0, dstDir := some 2 }
        else pure g) g) g
  | _ => throw (.internal "Unsupported array")

def addNodesAsTree (g : Graph) (parent : String) (tree : List Nat) (descIdx : Nat) (connect : Bool) :
    Nat → Nat → D Graph
  | 0, _ => pure g      -- fuel
  | fuel + 1, lvl =>
    if lvl == tree.length then pure g else
    (List.range (tree.getD lvl 0)).foldlM (fun g i => do
      let node := parent ++ "_" ++ toString i
      let g ← g.addNode { name := node, kind := .router, descIdx, lvl := some lvl }
      let g ← if connect && lvl > 0 then do
          let g ← g.addEdge { src := parent, dst := node, kind := .link }
          g.addEdge { src := node, dst := parent, kind := .link }
        else pure g
      addNodesAsTree g node tree descIdx connect fuel (lvl + 1)) g

end Graph
end FlooVerif.Model

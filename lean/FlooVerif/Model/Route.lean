/-
  Model of floogen/model/network.py: gen_routing_info (gen_xy_routing_info, gen_router_tables,
  gen_routes, gen_sam).  `networkx.shortest_path` is a parameter `sp`; `nxBidirBfs` is a port
  of networkx 3.6.1 `_bidirectional_pred_succ` / `bidirectional_shortest_path`.
-/
import FlooVerif.Model.Compile
import FlooVerif.Hw
import FlooVerif.RouteMap
import FlooVerif.Expect
namespace FlooVerif.Model
open FlooVerif

abbrev PathOracle := Graph → String → String → Option (List String)

/-! ### networkx bidirectional BFS -/

structure BfsState where
  pred : List (String × Option String)
  succ : List (String × Option String)
  fwd : List String
  rev : List String

def assocHas (m : List (String × Option String)) (k : String) : Bool := m.any (·.1 == k)

/-- neighbours `ws` of the fringe node `v`: enter the unseen ones (with `v` as their parent), stop at the
    first one the other side knows (the inner loop of `_bidirectional_pred_succ`) -/
def expandW (other : List (String × Option String)) (v : String) :
    List String → List (String × Option String) → List String →
      List (String × Option String) × List String × Option String
  | [], own, fr => (own, fr, none)
  | w :: ws, own, fr =>
    let (own, fr) := if !assocHas own w then (own ++ [(w, some v)], fr ++ [w]) else (own, fr)
    if assocHas other w then (own, fr, some w) else expandW other v ws own fr

/-- the fringe nodes `vs` in order -/
def expandV (nb : String → List String) (other : List (String × Option String)) :
    List String → List (String × Option String) → List String →
      List (String × Option String) × List String × Option String
  | [], own, fr => (own, fr, none)
  | v :: vs, own, fr =>
    match expandW other v (nb v) own fr with
    | (own, fr, some w) => (own, fr, some w)
    | (own, fr, none) => expandV nb other vs own fr

/-- one forward level: returns (state, meeting node) -/
def fwdLevel (g : Graph) (st : BfsState) : BfsState × Option String :=
  match expandV g.succs st.succ st.fwd st.pred [] with
  | (pred, fr, hit) => ({ st with pred := pred, fwd := fr }, hit)

def revLevel (g : Graph) (st : BfsState) : BfsState × Option String :=
  match expandV g.preds st.pred st.rev st.succ [] with
  | (succ, fr, hit) => ({ st with succ := succ, rev := fr }, hit)

def bfsLoop (g : Graph) : Nat → BfsState → Option (BfsState × String)
  | 0, _ => none
  | fuel + 1, st =>
    if st.fwd.isEmpty || st.rev.isEmpty then none
    else if st.fwd.length ≤ st.rev.length then
      match fwdLevel g st with
      | (st', some w) => some (st', w)
      | (st', none) => bfsLoop g fuel st'
    else
      match revLevel g st with
      | (st', some w) => some (st', w)
      | (st', none) => bfsLoop g fuel st'

def chase (m : List (String × Option String)) : Nat → String → List String
  | 0, _ => []
  | fuel + 1, w =>
    match (m.find? (·.1 == w)).map (·.2) with
    | some (some nxt) => nxt :: chase m fuel nxt
    | _ => []

def nxBidirBfs : PathOracle := fun g s t =>
  if !(g.hasNode s && g.hasNode t) then none
  else if s == t then some [s]
  else
    match bfsLoop g (2 * g.nodes.length + 2) { pred := [(s, none)], succ := [(t, none)], fwd := [s], rev := [t] } with
    | none => none
    | some (st, w) =>
      let back := chase st.pred (g.nodes.length + 1) w          -- w's predecessors up to s
      let fwd := chase st.succ (g.nodes.length + 1) w           -- w's successors up to t
      some (back.reverse ++ [w] ++ fwd)

/-! ### routing info -/

structure XYInfo where
  numXBits : Nat
  numYBits : Nat
  addrOffsetBits : Nat
  offX : Int
  offY : Int
  deriving Repr, Inhabited

def clog2 (n : Nat) : Nat := Hw.clog2 n

def coordXY (v : IdVal) : Option (Int × Int) :=
  match v with
  | .coord x y _ => some (x, y)
  | _ => none

def listMin (l : List Int) : Option Int := l.foldl (fun acc x => match acc with | none => some x | some m => some (min m x)) none
def listMax (l : List Int) : Option Int := l.foldl (fun acc x => match acc with | none => some x | some m => some (max m x)) none

def epOf (d : Desc) (ni : NI) : EpDesc := d.endpoints.getD ni.epIdx default

def genXyInfo (d : Desc) (c : Compiled) : D XYInfo := do
  let ids := c.nis.map (·.id) ++ c.routers.filterMap (·.id)
  let xs := ids.filterMap fun v => (coordXY v).map (·.1)
  let ys := ids.filterMap fun v => (coordXY v).map (·.2)
  let some minX := listMin xs | throw (.internal "min() of empty sequence")
  let some minY := listMin ys | throw (.internal "min() of empty sequence")
  let some maxX := listMax xs | throw (.internal "max() of empty sequence")
  let some maxY := listMax ys | throw (.internal "max() of empty sequence")
  let sbr := c.nis.filter fun ni => (epOf d ni).isSbr
  if sbr.isEmpty then throw (.internal "max() of empty sequence")
  if sbr.any (·.ranges.isEmpty) then throw (.range "max() of empty sequence: subordinate without range")
  let some maxAddr := listMax (sbr.flatMap fun ni => ni.ranges.map (·.stop)) | throw (.internal "max()")
  pure { numXBits := clog2 (maxX - minX + 1).toNat, numYBits := clog2 (maxY - minY + 1).toNat,
         addrOffsetBits := clog2 maxAddr.toNat, offX := minX, offY := minY }

def indexOfLink (l : List (Option Link)) (x : Link) : Option Nat :=
  let i := l.findIdx (· == some x)
  if i < l.length then some i else none

/-- the rule of one router's ID table for one network interface: its identifier goes out through the port that
    carries the link to the second node of the oracle's path -/
def tableRule (sp : PathOracle) (c : Compiled) (rt : Router) (ni : NI) : D (MapRule Nat) := do
  let some path := sp c.g rt.name ni.name | throw (.unconnected s!"No path between {rt.name} and {ni.name}")
  let some nxt := path[1]? | throw (.internal "IndexError: shortest_path[1]")
  let some e := c.g.findEdge rt.name nxt | throw (.internal "KeyError edge")
  let some idx := indexOfLink rt.outgoing (linkOf c.g e) | throw (.internal "ValueError: not in list")
  let idv ← match ni.id with
    | .simple k => pure (k : Int)
    | _ => throw (.internal "AttributeError: id")
  pure ({ dest := idx, start := idv, stop := idv + 1, size := 1, desc := some ni.name } : MapRule Nat)

/-- per-router ID table before and after `trim` -/
def genRouterTable (sp : PathOracle) (c : Compiled) (rt : Router) : D (List (MapRule Nat)) := do
  let rules ← c.nis.mapM (tableRule sp c rt)
  if !checkNoOverlap rules then throw (.overlap "Overlapping ranges")
  pure (trim rules)

/-- a source route: list of (out port, bits) -/
abbrev Route := Option (List (Nat × Nat))

/-- one hop of a source route: the router `u` leaves through the port that carries its link to `v`; the hop takes
    `clog2(len(rt.outgoing))` bits of the route word -/
def hopPort (c : Compiled) (u v : String) : D (Nat × Nat) := do
  let some e := c.g.findEdge u v | throw (.internal "KeyError edge")
  let some rt := c.routers.find? (·.name == u) | throw (.internal "route through a non-router")
  let some p := indexOfLink rt.outgoing (linkOf c.g e) | throw (.internal "ValueError: not in list")
  pure (p, clog2 rt.outgoing.length)

/-- the hops of a path `[src NI, router₁, …, routerₖ, dst NI]`: one per router -/
def routePorts (c : Compiled) (path : List String) : D (List (Nat × Nat)) :=
  (List.range (path.length - 2)).mapM fun i => hopPort c (path.getD (i + 1) "") (path.getD (i + 2) "")

/-- whether `src` needs no route to `dst` (itself, or both of the same pure role) -/
def noRoute (d : Desc) (src dst : NI) : Bool :=
  src.name == dst.name || ((epOf d src).isOnlyMgr && (epOf d dst).isOnlyMgr) ||
    ((epOf d src).isOnlySbr && (epOf d dst).isOnlySbr)

/-- the route of one pair: `none` where none is needed -/
def routeOf (sp : PathOracle) (d : Desc) (c : Compiled) (src dst : NI) : D Route :=
  if noRoute d src dst then pure none
  else do
    let some path := sp c.g src.name dst.name | throw (.unconnected s!"No path between {src.name} and {dst.name}")
    let ports ← routePorts c path
    pure (some ports)

def routeBits : Route → Nat
  | none => 0
  | some ports => (ports.map (·.2)).sum

def genRoutes (sp : PathOracle) (d : Desc) (c : Compiled) : D (List (NI × List (NodeId × Route)) × Nat) := do
  let out ← c.nis.mapM fun src => do
    let routes ← c.nis.mapM fun dst => do
      let r ← routeOf sp d c src dst
      pure (dst.id, r)
    pure (src, routes)
  -- `route_t` is at least one bit wide, also when no endpoint has anybody to send to
  pure (out, (out.flatMap fun (_, routes) => routes.map fun (_, r) => routeBits r).foldl max 1)

structure SamRule where
  dest : IdVal
  range : AddrRange
  name : String
  deriving Repr, Inhabited

def niEnumSnake (d : Desc) (ni : NI) : String :=
  let ep := epOf d ni
  match ep.array, ni.arrIdx with
  | some [_], some [i] => ep.name ++ "_" ++ toString i
  | some [_, _], some [x, y] => ep.name ++ "_x" ++ toString x ++ "_y" ++ toString y
  | _, _ => ep.name

def subOffset (v : IdVal) (off : Option (Int × Int)) : IdVal :=
  match v, off with
  | .coord x y p, some (ox, oy) => .coord (x - ox) (y - oy) p
  | v, _ => v

/-- the rules of the system address map: subordinate interfaces in reverse order, each with its
    ranges in declaration order -/
def samRules (d : Desc) (c : Compiled) (off : Option (Int × Int)) : List SamRule :=
  ((c.nis.filter fun ni => (epOf d ni).isSbr).reverse).flatMap fun ni =>
    ni.ranges.zipIdx.map fun (r, i) =>
      let nm := niEnumSnake d ni ++
        (match r.desc with
         | some dsc => "_" ++ dsc
         | none => if ni.ranges.length > 1 then "_" ++ toString i else "") ++ "_sam_idx"
      { dest := subOffset ni.id off, range := r, name := nm }

def samAsMap (rules : List SamRule) : List (MapRule Unit) :=
  rules.map fun r => { dest := (), start := r.range.start, stop := r.range.stop, size := r.range.size }

def genSam (d : Desc) (c : Compiled) (off : Option (Int × Int)) : D (List SamRule) :=
  let rules := samRules d c off
  if (rules.any fun r => decide (r.range.stop > (2 : Int) ^ d.addrW)) = true then
    throw (.range "Address range exceeds the address space")
  else if decide ((rules.map fun r => snakeToCamel r.name).Nodup) = false then
    throw (.names "Address map entry name is not unique")
  else if checkNoOverlap (samAsMap rules) = false then throw (.overlap "Overlapping ranges")
  else pure rules

structure Routed where
  c : Compiled
  numEndpoints : Nat
  numIdBits : Nat
  xy : Option XYInfo
  tables : List (String × List (MapRule Nat))          -- ID: per router
  routes : List (NI × List (NodeId × Route))           -- SRC: per NI
  numRouteBits : Nat
  sam : List SamRule
  deriving Inhabited

/-- the member names of `ep_id_e` as the generator writes them -/
def epEnumNames (d : Desc) (c : Compiled) : List String :=
  "NumEndpoints" :: c.nis.map fun ni => snakeToCamel (niEnumSnake d ni)

def genRoutingCore (sp : PathOracle) (d : Desc) (c : Compiled) : D Routed := do
  let N := c.nis.length
  let base : Routed := { c, numEndpoints := N, numIdBits := clog2 N, xy := none, tables := [], routes := [],
                         numRouteBits := 0, sam := [] }
  let r ← match d.algo with
    | .XY => do pure { base with xy := some (← genXyInfo d c) }
    | .ID => do
      let ts ← c.routers.zipIdx.mapM fun (rt, k) => do
        if ((c.routers.take k).map fun q => snakeToCamel (q.name ++ "_map")).contains (snakeToCamel (rt.name ++ "_map")) then
          throw (.names "Routers are called the same in the generated code")
        pure (rt.name, ← genRouterTable sp c rt)
      pure { base with tables := ts }
    | .SRC => do
      let (rs, nb) ← genRoutes sp d c
      pure { base with routes := rs, numRouteBits := nb }
    | .YX => throw (.internal "Routing algorithm YX is not supported yet")
  let off := r.xy.map fun x => (x.offX, x.offY)
  pure { r with sam := ← genSam d c off }

def genRoutingInfo (sp : PathOracle) (d : Desc) (c : Compiled) : D Routed :=
  if c.nis.length == 0 then throw (.internal "No endpoints found in the network")
  -- the endpoints are enumerated by the CamelCase form of their names
  else if decide ((epEnumNames d c).Nodup) = false then
    throw (.names "Endpoints are called the same in the generated code")
  else genRoutingCore sp d c

end FlooVerif.Model

/-
  Model of floogen/model/network.py: compile_network
  (compile_ids, compile_links, compile_endpoints, compile_nis, compile_routers).
-/
import FlooVerif.Model.Build
import FlooVerif.Net
namespace FlooVerif.Model
open FlooVerif

/-- node identity: SimpleId or Coord -/
abbrev NodeId := IdVal

def toCoords (dir : Nat) : D (Int × Int) :=
  match dir with
  | 0 => pure (0, 1) | 1 => pure (1, 0) | 2 => pure (0, -1) | 3 => pure (-1, 0) | 4 => pure (0, 0)
  | _ => throw (.internal "KeyError in XYDirections.to_coords")

structure Ids where
  id : List (String × NodeId)        -- graph.nodes[n]["id"]
  uid : List (String × Nat)          -- graph.nodes[n]["uid"]
  deriving Repr, Inhabited

def Ids.idOf (s : Ids) (n : String) : Option NodeId := (s.id.find? (·.1 == n)).map (·.2)
def Ids.uidOf (s : Ids) (n : String) : Option Nat := (s.uid.find? (·.1 == n)).map (·.2)

def epNiName (d : Desc) (nd : Node) : String :=
  let ep := d.endpoints.getD nd.descIdx default
  strReplace nd.name ep.name (ep.name ++ "_ni")

def compileIds (d : Desc) (g : Graph) : D Ids := do
  let eps := g.nodesOfKind .endpoint
  let uids : List (String × Nat) := eps.zipIdx.flatMap fun (nd, k) => [(nd.name, k), (epNiName d nd, k)]
  match d.algo with
  | .XY =>
    -- routers
    let rids ← (g.nodesOfKind .router).mapM fun nd => do
      match nd.arrIdx with
      | some [x, y] =>
        let off := ((d.routers.getD nd.descIdx default).xyOffset).getD (0, 0)
        pure (nd.name, IdVal.coord ((x : Int) + off.1) ((y : Int) + off.2) 0)
      | _ => throw (.internal s!"router {nd.name} has no 2-D array index")
    -- network interfaces
    let nids ← (g.nodesOfKind .ni).mapM fun nd => do
      let found ← (g.succs nd.name).foldlM (fun (acc : Option (Int × Int)) nb => do
        if acc.isSome then pure acc else
        match ((rids.find? (·.1 == nb)).map (·.2) : Option IdVal) with
        | some (.coord rx ry _) =>
          let some e1 := g.findEdge nd.name nb | throw (.internal "edge vanished")
          if !e1.hasDirs then throw (.internal "KeyError dst_dir")
          match e1.dstDir with
          | some dir => let (vx, vy) ← toCoords dir; pure (some (rx + vx, ry + vy))
          | none =>
            let some e2 := g.findEdge nb nd.name | throw (.internal "KeyError reverse edge")
            match e2.srcDir with
            | some dir => let (vx, vy) ← toCoords dir; pure (some (rx + vx, ry + vy))
            | none => pure none
        | _ => pure none) none
      match found with
      | none => throw (.noDirection s!"Cannot derive the XY coordinate of {nd.name}")
      | some (x, y) =>
        let off := ((d.endpoints.getD nd.descIdx default).xyOffset).getD (0, 0)
        pure (nd.name, IdVal.coord (x + off.1) (y + off.2) 0)
    pure { id := rids ++ nids, uid := uids }
  | .ID | .SRC =>
    pure { id := uids.map fun (n, k) => (n, IdVal.simple k), uid := uids }
  | .YX => throw (.internal "Routing algorithm YX is not supported yet")

structure Link where
  source : String
  dest : String
  bidir : Bool
  deriving Repr, DecidableEq, Inhabited

def Link.reqName (l : Link) : String := l.source ++ "_to_" ++ l.dest ++ "_req"
def Link.rspName (l : Link) : String := l.dest ++ "_to_" ++ l.source ++ "_rsp"
def Link.wideName (l : Link) : String := l.source ++ "_to_" ++ l.dest ++ "_wide"
def Link.wideNameRev (l : Link) : String := l.dest ++ "_to_" ++ l.source ++ "_wide"

def linkOf (g : Graph) (e : Edge) : Link :=
  { source := e.src, dest := e.dst, bidir := g.hasEdge e.dst e.src }

/-- protocol direction inference of compile_endpoints; returns protocol name ↦ direction -/
def inferDirections (d : Desc) (g : Graph) : D (List (String × String)) :=
  (g.nodesOfKind .endpoint).foldlM (fun dirs nd => do
    let ep := d.endpoints.getD nd.descIdx default
    let step (dirs : List (String × String)) (pn : String) (want : String) : D (List (String × String)) := do
      let some p := d.protocols.find? (·.name == pn) | throw (.protocol s!"StopIteration: protocol {pn} not found")
      let cur := match dirs.find? (·.1 == pn) with
        | some (_, v) => some v
        | none => p.direction
      match cur with
      | none => pure (dirs ++ [(pn, want)])
      | some v => if v == want then pure dirs else
          throw (.protocol "Protocol cannot be used for both manager and subordinate")
    let dirs ← (ep.mgr.getD []).foldlM (fun ds pn => step ds pn "input") dirs
    (ep.sbr.getD []).foldlM (fun ds pn => step ds pn "output") dirs) []

def directionOf (d : Desc) (dirs : List (String × String)) (p : ProtDesc) : Option String :=
  match dirs.find? (·.1 == p.name) with
  | some (_, v) => some v
  | none => p.direction

structure NI where
  name : String
  epIdx : Nat
  arrIdx : Option (List Nat)
  id : NodeId
  uid : Nat
  ranges : List AddrRange
  mgrLink : Link          -- first link edge leaving the NI
  sbrLink : Link          -- first link edge entering the NI
  deriving Repr, Inhabited

def reindex (base : List AddrRange) (k : Int) : D (List AddrRange) :=
  base.mapM fun r =>
    match r.setIdx k with
    | .ok a => pure a
    | .error _ => throw (.range "Address range base not set")

def compileNis (d : Desc) (g : Graph) (ids : Ids) : D (List NI) :=
  (g.nodesOfKind .ni).mapM fun nd => do
    let ep := d.endpoints.getD nd.descIdx default
    let base ← ep.ranges.mapM fun r =>
      match mkRange r with
      | .ok a => pure a
      | .error _ => throw (.range "invalid range")
    let some id := ids.idOf nd.name | throw (.internal s!"KeyError id of {nd.name}")
    let some uid := ids.uidOf nd.name | throw (.internal s!"KeyError uid of {nd.name}")
    let ranges ←
      match ep.array, nd.arrIdx with
      | none, _ => pure base
      | some [_], some [i] => if ep.isSbr then reindex base (i : Int) else pure base
      | some [_, n], some [x, y] => if ep.isSbr then reindex base ((x * n + y : Nat) : Int) else pure base
      | _, _ => throw (.schema "Invalid endpoint array description")
    let some mg := ((g.edgesFrom nd.name).filter (·.kind == .link)).head?
      | throw (.unconnected s!"{nd.name} has no link")
    let some sb := ((g.edgesTo nd.name).filter (·.kind == .link)).head?
      | throw (.unconnected s!"{nd.name} has no link")
    pure { name := nd.name, epIdx := nd.descIdx, arrIdx := nd.arrIdx, id, uid, ranges,
           mgrLink := linkOf g mg, sbrLink := linkOf g sb }

structure Router where
  name : String
  incoming : List (Option Link)
  outgoing : List (Option Link)
  degree : Nat
  id : Option NodeId
  deriving Repr, Inhabited

def setSlot {α} (l : List (Option α)) (i : Nat) (v : α) : List (Option α) := l.set i (some v)

/-- fill the free slots, in order, from `pending` -/
def fillFree {α} : List (Option α) → List α → List (Option α) × List α
  | [], pending => ([], pending)
  | some x :: rest, pending => let (r, p) := fillFree rest pending; (some x :: r, p)
  | none :: rest, [] => (none :: rest, [])
  | none :: rest, x :: pending => let (r, p) := fillFree rest pending; (some x :: r, p)

def compileRouters (d : Desc) (g : Graph) (ids : Ids) : D (List Router) :=
  (g.nodesOfKind .router).mapM fun nd => do
    let rt := d.routers.getD nd.descIdx default
    let ins := g.edgesTo nd.name
    let outs := g.edgesFrom nd.name
    if (ins ++ outs).any (fun e => !e.hasDirs) then throw (.internal "KeyError dst_dir")
    let dirIn := ins.filter (·.dstDir.isSome)
    let dirOut := outs.filter (·.srcDir.isSome)
    let nonDirIn := ins.filter (·.dstDir.isNone)
    let numEdges := match rt.degree with
      | some k => k
      | none => dirIn.length + nonDirIn.length
    let incoming ← dirIn.foldlM (fun (acc : List (Option Link)) e => do
      let i := e.dstDir.getD 0
      if i ≥ numEdges then throw (.portConflict "IndexError: list index out of range")
      if (acc.getD i none).isSome then throw (.portConflict s!"Trying to set incoming link #{i} of {nd.name}")
      pure (setSlot acc i (linkOf g e))) (List.replicate numEdges none)
    let outgoing ← dirOut.foldlM (fun (acc : List (Option Link)) e => do
      let i := e.srcDir.getD 0
      if i ≥ numEdges then throw (.portConflict "IndexError: list index out of range")
      if (acc.getD i none).isSome then throw (.portConflict s!"Trying to set outgoing link #{i} of {nd.name}")
      pure (setSlot acc i (linkOf g e))) (List.replicate numEdges none)
    -- undirected: outgoing edges in the order of their incoming counterparts
    let nonDirOut ← nonDirIn.mapM fun e =>
      match g.findEdge e.dst e.src with
      | some r => pure (linkOf g r)
      | none => throw (.internal "KeyError: reverse edge")
    let (incoming, restIn) := fillFree incoming (nonDirIn.map (linkOf g))
    let (outgoing, restOut) := fillFree outgoing nonDirOut
    if !restIn.isEmpty || !restOut.isEmpty then throw (.portConflict "AssertionError: not enough free ports")
    let id ← if d.algo == .XY then
        match ids.idOf nd.name with
        | some v => pure (some v)
        | none => throw (.internal "KeyError id")
      else pure none
    pure { name := nd.name, incoming, outgoing, degree := numEdges, id }

structure Compiled where
  g : Graph
  ids : Ids
  dirs : List (String × String)
  nis : List NI
  routers : List Router
  deriving Inhabited

def compileNetwork (d : Desc) (g : Graph) : D Compiled := do
  let ids ← compileIds d g
  let dirs ← inferDirections d g
  let nis ← compileNis d g ids
  let routers ← compileRouters d g ids
  pure { g, ids, dirs, nis, routers }

end FlooVerif.Model

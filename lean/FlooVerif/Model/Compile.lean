/-
  Model of floogen/model/network.py: compile_network
  (compile_ids, compile_links, compile_endpoints, compile_nis, compile_routers).
-/
import FlooVerif.Model.Build
import FlooVerif.Net
namespace FlooVerif.Model
open FlooVerif

/-- node identity: SimpleId or Coord -/
abbrev NodeId := IdVal

def toCoords (dir : Nat) : D (Int × Int) :=
  match dir with
  | 0 => pure (0, 1) | 1 => pure (1, 0) | 2 => pure (0, -1) | 3 => pure (-1, 0) | 4 => pure (0, 0)
  | _ => throw (.internal "KeyError in XYDirections.to_coords")

structure Ids where
  id : List (String × NodeId)        -- graph.nodes[n]["id"]
  uid : List (String × Nat)          -- graph.nodes[n]["uid"]
  deriving Repr, Inhabited

def Ids.idOf (s : Ids) (n : String) : Option NodeId := (s.id.find? (·.1 == n)).map (·.2)
def Ids.uidOf (s : Ids) (n : String) : Option Nat := (s.uid.find? (·.1 == n)).map (·.2)

def epNiName (d : Desc) (nd : Node) : String :=
  let ep := d.endpoints.getD nd.descIdx default
  strReplace nd.name ep.name (ep.name ++ "_ni")

def compileIds (d : Desc) (g : Graph) : D Ids := do
  let eps := g.nodesOfKind .endpoint
  let uids : List (String × Nat) := eps.zipIdx.flatMap fun (nd, k) => [(nd.name, k), (epNiName d nd, k)]
  match d.algo with
  | .XY =>
    -- routers
    let rids ← (g.nodesOfKind .router).mapM fun nd => do
      match nd.arrIdx with
      | some [x, y] =>
        let off := ((d.routers.getD nd.descIdx default).xyOffset).getD (0, 0)
        pure (nd.name, IdVal.coord ((x : Int) + off.1) ((y : Int) + off.2) 0)
      | _ => throw (.internal s!"router {nd.name} has no 2-D array index")
    -- network interfaces
    let nids ← (g.nodesOfKind .ni).mapM fun nd => do
      let found ← (g.succs nd.name).foldlM (fun (acc : Option (Int × Int)) nb => do
        if acc.isSome then pure acc else
        match ((rids.find? (·.1 == nb)).map (·.2) : Option IdVal) with
        | some (.coord rx ry _) =>
          let some e1 := g.findEdge nd.name nb | throw (.internal "edge vanished")
          if !e1.hasDirs then throw (.internal "KeyError dst_dir")
          match e1.dstDir with
          | some dir => let (vx, vy) ← toCoords dir; pure (some (rx + vx, ry + vy))
          | none =>
            let some e2 := g.findEdge nb nd.name | throw (.internal "KeyError reverse edge")
            match e2.srcDir with
            | some dir => let (vx, vy) ← toCoords dir; pure (some (rx + vx, ry + vy))
            | none => pure none
        | _ => pure none) none
      match found with
      | none => throw (.noDirection s!"Cannot derive the XY coordinate of {nd.name}")
      | some (x, y) =>
        let off := ((d.endpoints.getD nd.descIdx default).xyOffset).getD (0, 0)
        pure (nd.name, IdVal.coord (x + off.1) (y + off.2) 0)
    pure { id := rids ++ nids, uid := uids }
  | .ID | .SRC =>
    pure { id := uids.map fun (n, k) => (n, IdVal.simple k), uid := uids }
  | .YX => throw (.internal "Routing algorithm YX is not supported yet")

structure Link where
  source : String
  dest : String
  bidir : Bool
  deriving Repr, DecidableEq, Inhabited

def Link.reqName (l : Link) : String := l.source ++ "_to_" ++ l.dest ++ "_req"
def Link.rspName (l : Link) : String := l.dest ++ "_to_" ++ l.source ++ "_rsp"
def Link.wideName (l : Link) : String := l.source ++ "_to_" ++ l.dest ++ "_wide"
def Link.wideNameRev (l : Link) : String := l.dest ++ "_to_" ++ l.source ++ "_wide"

def linkOf (g : Graph) (e : Edge) : Link :=
  { source := e.src, dest := e.dst, bidir := g.hasEdge e.dst e.src }

/-- one protocol of one endpoint's manager (`want` = input) or subordinate (output) list: the protocol takes that
    direction unless it already has the other one -/
def dirStep (d : Desc) (dirs : List (String × String)) (pn : String) (want : String) : D (List (String × String)) := do
  let some p := d.protocols.find? (·.name == pn) | throw (.protocol s!"StopIteration: protocol {pn} not found")
  let cur := match dirs.find? (·.1 == pn) with
    | some (_, v) => some v
    | none => p.direction
  match cur with
  | none => pure (dirs ++ [(pn, want)])
  | some v => if v == want then pure dirs else
      throw (.protocol "Protocol cannot be used for both manager and subordinate")

/-- protocol direction inference of compile_endpoints; returns protocol name ↦ direction -/
def inferDirections (d : Desc) (g : Graph) : D (List (String × String)) :=
  (g.nodesOfKind .endpoint).foldlM (fun dirs nd => do
    let ep := d.endpoints.getD nd.descIdx default
    let dirs ← (ep.mgr.getD []).foldlM (fun ds pn => dirStep d ds pn "input") dirs
    (ep.sbr.getD []).foldlM (fun ds pn => dirStep d ds pn "output") dirs) []

def directionOf (d : Desc) (dirs : List (String × String)) (p : ProtDesc) : Option String :=
  match dirs.find? (·.1 == p.name) with
  | some (_, v) => some v
  | none => p.direction

/-- the (kind, direction, id width) of every protocol that has a direction -/
def dirIdWidths (d : Desc) (dirs : List (String × String)) : List ((Option String × String) × Nat) :=
  d.protocols.filterMap fun p =>
    (directionOf d dirs p).map fun dir => ((if d.netType == .nw then p.type else none, dir), p.idW)

/-- the end of compile_endpoints: protocols that share an AXI configuration need one ID width -/
def checkIdWidths (d : Desc) (dirs : List (String × String)) : D Unit :=
  let ws := dirIdWidths d dirs
  if ws.any (fun a => ws.any fun b => a.1 == b.1 && a.2 != b.2) then
    throw (.protocol "All protocols of one direction must have the same ID width")
  else pure ()

structure NI where
  name : String
  epIdx : Nat
  arrIdx : Option (List Nat)
  id : NodeId
  uid : Nat
  ranges : List AddrRange
  mgrLink : Link          -- first link edge leaving the NI
  sbrLink : Link          -- first link edge entering the NI
  deriving Repr, Inhabited

def reindex (base : List AddrRange) (k : Int) : D (List AddrRange) :=
  base.mapM fun r =>
    match r.setIdx k with
    | .ok a => pure a
    | .error _ => throw (.range "Address range base not set")

/-- the ranges of an endpoint description, built once (what every element of an array starts from) -/
def baseRanges (ep : EpDesc) : D (List AddrRange) :=
  ep.ranges.mapM fun r =>
    match mkRange r with
    | .ok a => pure a
    | .error _ => throw (.range "invalid range")

/-- the ranges of the network interface at array position `arrIdx` of endpoint `ep`: element (x, y) of an [m, n]
    array takes slot x·n + y of every based range; single endpoints and pure managers keep the ranges as written -/
def niRanges (ep : EpDesc) (arrIdx : Option (List Nat)) (base : List AddrRange) : D (List AddrRange) :=
  match ep.array, arrIdx with
  | none, _ => pure base
  | some [_], some [i] => if ep.isSbr then reindex base (i : Int) else pure base
  | some [_, n], some [x, y] => if ep.isSbr then reindex base ((x * n + y : Nat) : Int) else pure base
  | _, _ => throw (.schema "Invalid endpoint array description")

def compileNi (d : Desc) (g : Graph) (ids : Ids) (nd : Node) : D NI := do
  let ep := d.endpoints.getD nd.descIdx default
  let base ← baseRanges ep
  let some id := ids.idOf nd.name | throw (.internal s!"KeyError id of {nd.name}")
  let some uid := ids.uidOf nd.name | throw (.internal s!"KeyError uid of {nd.name}")
  let ranges ← niRanges ep nd.arrIdx base
  let some mg := ((g.edgesFrom nd.name).filter (·.kind == .link)).head?
    | throw (.unconnected s!"{nd.name} has no link")
  let some sb := ((g.edgesTo nd.name).filter (·.kind == .link)).head?
    | throw (.unconnected s!"{nd.name} has no link")
  pure { name := nd.name, epIdx := nd.descIdx, arrIdx := nd.arrIdx, id, uid, ranges,
         mgrLink := linkOf g mg, sbrLink := linkOf g sb }

def compileNis (d : Desc) (g : Graph) (ids : Ids) : D (List NI) :=
  (g.nodesOfKind .ni).mapM (compileNi d g ids)

structure Router where
  name : String
  incoming : List (Option Link)
  outgoing : List (Option Link)
  degree : Nat
  id : Option NodeId
  deriving Repr, Inhabited

def setSlot {α} (l : List (Option α)) (i : Nat) (v : α) : List (Option α) := l.set i (some v)

/-- fill the free slots, in order, from `pending` -/
def fillFree {α} : List (Option α) → List α → List (Option α) × List α
  | [], pending => ([], pending)
  | some x :: rest, pending => let (r, p) := fillFree rest pending; (some x :: r, p)
  | none :: rest, [] => (none :: rest, [])
  | none :: rest, x :: pending => let (r, p) := fillFree rest pending; (some x :: r, p)

/-- directed links: each goes to the slot its direction names; out of range or taken is an error -/
def place (n : Nat) (rname : String) : List (Nat × Link) → List (Option Link) → D (List (Option Link))
  | [], acc => pure acc
  | (i, l) :: rest, acc =>
    if i ≥ n then throw (.portConflict "IndexError: list index out of range")
    else if (acc.getD i none).isSome then throw (.portConflict s!"Trying to set link #{i} of {rname}, already taken")
    else place n rname rest (setSlot acc i l)

/-- the outgoing counterpart of an undirected incoming edge -/
def reverseLink (g : Graph) (e : Edge) : D Link :=
  match g.findEdge e.dst e.src with
  | some r => pure (linkOf g r)
  | none => throw (.internal "KeyError: reverse edge")

def routerId (d : Desc) (ids : Ids) (name : String) : D (Option NodeId) :=
  if d.algo == .XY then
    match ids.idOf name with
    | some v => pure (some v)
    | none => throw (.internal "KeyError id")
  else pure none

/-- directed incoming links of a router as (slot, link) -/
def dirInList (g : Graph) (r : String) : List (Nat × Link) :=
  ((g.edgesTo r).filter fun e => e.dstDir.isSome).map fun e => (e.dstDir.getD 0, linkOf g e)
def dirOutList (g : Graph) (r : String) : List (Nat × Link) :=
  ((g.edgesFrom r).filter fun e => e.srcDir.isSome).map fun e => (e.srcDir.getD 0, linkOf g e)
def nonDirIn (g : Graph) (r : String) : List Edge := (g.edgesTo r).filter fun e => e.dstDir.isNone

def numEdgesOf (d : Desc) (g : Graph) (nd : Node) : Nat :=
  match (d.routers.getD nd.descIdx default).degree with
  | some k => k
  | none => (dirInList g nd.name).length + (nonDirIn g nd.name).length

def compileRouter (d : Desc) (g : Graph) (ids : Ids) (nd : Node) : D Router :=
  if ((g.edgesTo nd.name) ++ (g.edgesFrom nd.name)).any (fun e => !e.hasDirs) then throw (.internal "KeyError dst_dir") else
  match place (numEdgesOf d g nd) nd.name (dirInList g nd.name) (List.replicate (numEdgesOf d g nd) none) with
  | .error e => .error e
  | .ok incD =>
  match place (numEdgesOf d g nd) nd.name (dirOutList g nd.name) (List.replicate (numEdgesOf d g nd) none) with
  | .error e => .error e
  | .ok outD =>
  -- undirected: outgoing edges in the order of their incoming counterparts
  match (nonDirIn g nd.name).mapM (reverseLink g) with
  | .error e => .error e
  | .ok nonDirOut =>
    if !(fillFree incD ((nonDirIn g nd.name).map (linkOf g))).2.isEmpty || !(fillFree outD nonDirOut).2.isEmpty then
      throw (.portConflict "AssertionError: not enough free ports")
    else
      match routerId d ids nd.name with
      | .error e => .error e
      | .ok id => .ok { name := nd.name, incoming := (fillFree incD ((nonDirIn g nd.name).map (linkOf g))).1,
                        outgoing := (fillFree outD nonDirOut).1, degree := numEdgesOf d g nd, id }

def compileRouters (d : Desc) (g : Graph) (ids : Ids) : D (List Router) :=
  (g.nodesOfKind .router).mapM (compileRouter d g ids)

/-- graph invariants the slotting theorem (Props/C05Full.lean) assumes; evaluated by the driver on
    the graph of every explored description -/
def pairedGraphB (g : Graph) : Bool :=
  (g.edges.all fun e => e.kind != .link || g.edges.any fun e' =>
    e'.src == e.dst && e'.dst == e.src && e'.srcDir == e.dstDir && e'.dstDir == e.srcDir) &&
  g.edges.all fun e => g.hasNode e.src

def onlyLinksAtRoutersB (g : Graph) : Bool :=
  (g.nodesOfKind .router).all fun nd => g.edges.all fun e => (e.src != nd.name && e.dst != nd.name) || e.kind == .link

structure Compiled where
  g : Graph
  ids : Ids
  dirs : List (String × String)
  nis : List NI
  routers : List Router
  deriving Inhabited

def compileNetwork (d : Desc) (g : Graph) : D Compiled := do
  let ids ← compileIds d g
  let dirs ← inferDirections d g
  checkIdWidths d dirs
  let nis ← compileNis d g ids
  let routers ← compileRouters d g ids
  pure { g, ids, dirs, nis, routers }

end FlooVerif.Model

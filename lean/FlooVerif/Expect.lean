/-
  What a description *denotes*, written from docs/floogen.md and the property statements
  only (no floogen internals): endpoint instances in declaration-then-row-major order, the
  address interval each instance owns, its name in the enumeration, who may talk to whom.
-/
import FlooVerif.Desc
namespace FlooVerif

/-- `utils.snake_to_camel`: split on '_', capitalize each piece (first char upper, rest lower). -/
def capitalize (s : String) : String :=
  match s.toList with
  | [] => ""
  | c :: cs => String.ofList (c.toUpper :: cs.map Char.toLower)

def isDigits (s : String) : Bool := !s.isEmpty && s.toList.all Char.isDigit

/-- `utils.snake_to_camel`: capitalize each `_`-separated piece; the underscore between two
    numeric pieces is kept (so `r_1_10` and `r_11_0` stay different) -/
def snakeToCamel (s : String) : String :=
  let parts := s.splitOn "_"
  let rec go (prev : Option String) : List String → String
    | [] => ""
    | p :: rest =>
      (if (match prev with | some q => isDigits q && isDigits p | none => false) then "_" else "") ++
        capitalize p ++ go (some p) rest
  go none parts

/-- the router templates use the same function since the CamelCase fix -/
def camelcaseTpl (s : String) : String := snakeToCamel s

structure EpInst where
  ep : EpDesc
  k : Nat                 -- row-major position within the endpoint's array
  idx : List Nat          -- multi-index ([] for a single endpoint)
  deriving Repr, DecidableEq, Inhabited

def EpDesc.instances (e : EpDesc) : List EpInst :=
  match e.array with
  | none => [{ ep := e, k := 0, idx := [] }]
  | some [n] => (List.range n).map fun i => { ep := e, k := i, idx := [i] }
  | some [m, n] => (List.range m).flatMap fun i => (List.range n).map fun j =>
      { ep := e, k := i * n + j, idx := [i, j] }
  | some _ => []

def idxSuffix (idx : List Nat) : String :=
  String.join (idx.map fun i => "_" ++ toString i)

/-- instance name of the endpoint's network interface -/
def EpInst.niName (i : EpInst) : String := i.ep.name ++ "_ni" ++ idxSuffix i.idx

def EpInst.epNodeName (i : EpInst) : String := i.ep.name ++ idxSuffix i.idx

/-- E, E_k, E_x<i>_y<j> -/
def EpInst.enumSnake (i : EpInst) : String :=
  match i.idx with
  | [] => i.ep.name
  | [k] => i.ep.name ++ "_" ++ toString k
  | [a, b] => i.ep.name ++ "_x" ++ toString a ++ "_y" ++ toString b
  | _ => i.ep.name

def EpInst.enumName (i : EpInst) : String := snakeToCamel i.enumSnake

def Desc.instances (d : Desc) : List EpInst := d.endpoints.flatMap EpDesc.instances

/-- The half-open interval a range specification denotes for instance `k`
    (array elements need base and size; a single endpoint takes the range as written). -/
def RangeSpec.interval (r : RangeSpec) (isArray : Bool) (k : Nat) : Option (Int × Int) :=
  if isArray then
    match r.base, r.size with
    | some b, some s => some (b + k * s, b + (k + 1) * s)
    | _, _ => none
  else
    match r.base, r.size, r.start, r.stop with
    | some b, some s, _, _ => let st := b + s * (r.idx.getD 0); some (st, st + s)
    | _, _, some st, some en => some (st, en)
    | _, some s, some st, none => some (st, st + s)
    | _, _, _, _ => none

structure Owned where
  inst : EpInst
  rangeIdx : Nat
  lo : Nat
  hi : Nat
  deriving Repr, DecidableEq, Inhabited

/-- all (instance, range) intervals the description declares for subordinate endpoints -/
def Desc.owned (d : Desc) : List Owned :=
  d.instances.flatMap fun i =>
    if i.ep.isSbr then
      (i.ep.ranges.zipIdx).filterMap fun (r, ri) =>
        match r.interval i.ep.array.isSome i.k with
        | some (lo, hi) => if 0 ≤ lo ∧ lo < hi then some { inst := i, rangeIdx := ri, lo := lo.toNat, hi := hi.toNat } else none
        | none => none
    else []

/-- ordered pairs (manager, subordinate) of distinct endpoint instances -/
def Desc.reqPairs (d : Desc) : List (EpInst × EpInst) :=
  d.instances.flatMap fun m =>
    if m.ep.isMgr then
      d.instances.filterMap fun s => if s.ep.isSbr && s != m then some (m, s) else none
    else []

end FlooVerif

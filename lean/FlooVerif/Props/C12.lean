/-
  C12 — structural well-formedness.  The bracket/delimiter checker is a stack machine over the
  token stream; this file proves it sound against the grammar of well-nested token lists, for
  token lists of any length, and that the literal-fit test is exactly "value < 2^width".
-/
import FlooVerif.Check3
namespace FlooVerif.C12
open FlooVerif

/-- well-nested token lists: tokens that are neither opener nor closer, and
    `opener inner closer` groups with the matching closer -/
inductive Dyck : List String → Prop where
  | nil : Dyck []
  | plain (t : String) (ts : List String) :
      closerOf t = none → isCloser t = false → Dyck ts → Dyck (t :: ts)
  | nest (o c : String) (inner rest : List String) :
      closerOf o = some c → Dyck inner → Dyck rest → Dyck (o :: inner ++ c :: rest)

theorem Dyck.append {x y : List String} (hx : Dyck x) (hy : Dyck y) : Dyck (x ++ y) := by
  induction hx with
  | nil => simpa using hy
  | plain t ts h1 h2 _ ih => exact Dyck.plain t _ h1 h2 ih
  | nest o c inner rest h _ _ _ ih2 =>
    have : o :: inner ++ c :: rest ++ y = o :: inner ++ c :: (rest ++ y) := by simp
    rw [this]; exact Dyck.nest o c inner _ h ‹_› ih2

/-- `ts` closes the pending closers of `stack`, innermost first, with well-nested text in between -/
def DyckStack : List String → List String → Prop
  | ts, [] => Dyck ts
  | ts, c :: st => ∃ a b, ts = a ++ c :: b ∧ Dyck a ∧ DyckStack b st

theorem DyckStack.prepend {x b : List String} (hx : Dyck x) :
    ∀ {st}, DyckStack b st → DyckStack (x ++ b) st
  | [], h => Dyck.append hx h
  | c :: st, ⟨a', b', hb, ha', hrest⟩ => ⟨x ++ a', b', by simp [hb], Dyck.append hx ha', hrest⟩

theorem balancedGo_sound : ∀ (ts st : List String), balancedGo ts st = true → DyckStack ts st := by
  intro ts
  induction ts with
  | nil =>
    intro st h
    simp [balancedGo] at h; subst h; exact Dyck.nil
  | cons t ts ih =>
    intro st h
    unfold balancedGo at h
    cases hc : closerOf t with
    | some c =>
      rw [hc] at h; simp only at h
      obtain ⟨a, b, hts, ha, hb⟩ := ih (c :: st) h
      have hgrp : Dyck (t :: a ++ [c]) := by
        have := Dyck.nest t c a [] hc ha Dyck.nil
        simpa using this
      have : t :: ts = (t :: a ++ [c]) ++ b := by simp [hts]
      rw [this]; exact DyckStack.prepend hgrp hb
    | none =>
      rw [hc] at h; simp only at h
      by_cases hcl : isCloser t = true
      · rw [if_pos hcl] at h
        cases st with
        | nil => simp at h
        | cons c rest =>
          simp only at h
          by_cases heq : (c == t) = true
          · rw [if_pos heq] at h
            have : c = t := by simpa using heq
            subst this
            exact ⟨[], ts, rfl, Dyck.nil, ih rest h⟩
          · rw [if_neg heq] at h; cases h
      · rw [if_neg hcl] at h
        have hcl' : isCloser t = false := by simpa using hcl
        have : t :: ts = [t] ++ ts := rfl
        rw [this]
        exact DyckStack.prepend (Dyck.plain t [] hc hcl' Dyck.nil) (ih st h)

/-- **the checker accepts only well-nested token streams** -/
theorem balanced_sound (toks : List String) (h : balanced toks = true) : Dyck toks :=
  balancedGo_sound toks [] h

/-- conversely a stream that closes something that is not open is rejected -/
theorem unbalanced_close (t : String) (ts : List String) (h1 : closerOf t = none) (h2 : isCloser t = true) :
    balanced (t :: ts) = false := by
  simp [balanced, balancedGo, h1, h2]

/-- **literal fit** is exactly: the digits denote a value below 2^width (and are valid digits) -/
theorem lit_fits_iff (w : Nat) (b : Char) (ds : String) :
    (Lit.sized w b ds).fits = true ↔ ∃ v, (Lit.sized w b ds).val? = some v ∧ v < 2 ^ w := by
  simp only [Lit.fits]
  cases (Lit.sized w b ds).val? with
  | none => simp
  | some v => simp

/-! non-vacuity -/
example : balanced ["module", "m", "(", "a", "[", "3", ":", "0", "]", ")", ";", "'{", "x", "}", "endmodule"] = true := by decide
example : balanced ["(", "a", "]"] = false := by decide
example : (Lit.sized 4 'h' "f").fits = true ∧ (Lit.sized 4 'h' "1f").fits = false ∧
    (Lit.sized 3 'b' "0102").fits = false := by decide

end FlooVerif.C12

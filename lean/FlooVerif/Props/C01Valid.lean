/-
  C01 (closing a hypothesis) — every range a compiled network interface carries is a proper window
  (0 ≤ start < stop, stop − start = size): ranges come out of `mkRange` well-formed and re-indexing a based range
  keeps its size.  Hence `C01U.sam_decodes_owner` needs no assumption about the ranges of a compiled network.
-/
import FlooVerif.Props.C08Slot
import FlooVerif.Props.C01U
import FlooVerif.Props.C05Graph
namespace FlooVerif.C01V
open FlooVerif Model

theorem baseRanges_wf (ep : EpDesc) (base : List AddrRange) (h : baseRanges ep = .ok base) :
    ∀ r ∈ base, 0 ≤ r.start ∧ r.start < r.stop ∧ r.stop - r.start = r.size := by
  intro r hr
  unfold baseRanges at h
  obtain ⟨s, _, hs⟩ := C05U.mem_mapM_ok _ _ _ h r hr
  cases hm : mkRange s with
  | error e => simp [hm, throw, throwThe, MonadExceptOf.throw] at hs
  | ok a =>
    simp only [hm, pure, Except.pure, Except.ok.injEq] at hs
    subst hs
    exact C17.mkRange_wf s a hm

theorem forall₂_mem_right {α β : Type} {R : α → β → Prop} {l₁ : List α} {l₂ : List β}
    (h : List.Forall₂ R l₁ l₂) : ∀ y ∈ l₂, ∃ x ∈ l₁, R x y := by
  induction h with
  | nil => intro y hy; cases hy
  | cons hxy _ ih =>
    intro y hy
    rcases List.mem_cons.1 hy with rfl | hy'
    · exact ⟨_, by simp, hxy⟩
    · obtain ⟨x, hx, hr⟩ := ih y hy'
      exact ⟨x, by simp [hx], hr⟩

theorem reindex_wf (base rs : List AddrRange) (k : Nat) (h : reindex base (k : Int) = .ok rs)
    (hb : ∀ r ∈ base, 0 ≤ r.start ∧ r.start < r.stop ∧ r.stop - r.start = r.size)
    (hbase : ∀ r ∈ base, ∀ b, r.base = some b → 0 ≤ b) :
    ∀ r ∈ rs, 0 ≤ r.start ∧ r.start < r.stop ∧ r.stop - r.start = r.size := by
  have hf := C08S.reindex_windows base rs k h
  intro r' hr'
  obtain ⟨r, hr, b, hrb, hs, he, hz⟩ := forall₂_mem_right hf r' hr'
  obtain ⟨_, hlt, hsz⟩ := hb r hr
  have hb0 := hbase r hr b hrb
  have hpos : 0 < r.size := by omega
  have hk : (0 : Int) ≤ (k : Int) := Int.natCast_nonneg k
  have hmul : 0 ≤ (k : Int) * r.size := Int.mul_nonneg hk (by omega)
  refine ⟨by omega, ?_, ?_⟩
  · rw [hs, he]
    have : ((k : Int) + 1) * r.size = (k : Int) * r.size + r.size := by rw [Int.add_mul]; omega
    omega
  · rw [hs, he, hz]
    have : ((k : Int) + 1) * r.size = (k : Int) * r.size + r.size := by rw [Int.add_mul]; omega
    omega

theorem baseRanges_base_nonneg (ep : EpDesc) (base : List AddrRange) (h : baseRanges ep = .ok base) :
    ∀ r ∈ base, ∀ b, r.base = some b → 0 ≤ b := by
  intro r hr b hb
  unfold baseRanges at h
  obtain ⟨s, _, hs⟩ := C05U.mem_mapM_ok _ _ _ h r hr
  cases hm : mkRange s with
  | error e => simp [hm, throw, throwThe, MonadExceptOf.throw] at hs
  | ok a =>
    simp only [hm, pure, Except.pure, Except.ok.injEq] at hs
    subst hs
    exact C17.mkRange_base_nonneg s a hm b hb

/-- **every range of every compiled network interface is a proper, non-negative window** -/
theorem compiled_ranges_valid (d : Desc) (g : Graph) (ids : Ids) (nis : List NI) (h : compileNis d g ids = .ok nis) :
    ∀ ni ∈ nis, ∀ r ∈ ni.ranges, 0 ≤ r.start ∧ r.start < r.stop ∧ r.stop - r.start = r.size := by
  intro ni hni
  obtain ⟨base, hb, hr⟩ := C08S.ni_slot d g ids nis h ni hni
  have hwf := baseRanges_wf _ base hb
  have hbn := baseRanges_base_nonneg _ base hb
  unfold niRanges at hr
  split at hr
  · cases hr; exact hwf
  · split at hr
    · exact reindex_wf base ni.ranges _ hr hwf hbn
    · cases hr; exact hwf
  · split at hr
    · exact reindex_wf base ni.ranges _ hr hwf hbn
    · cases hr; exact hwf
  · cases hr

/-- **C01 for the model, without an assumption on the ranges**: every address inside a range of a subordinate
    interface of a compiled network decodes, in the address map the model emits, to that interface and to nobody else -/
theorem model_sam_decodes_owner (d : Desc) (g : Graph) (c : Compiled) (hc : compileNetwork d g = .ok c)
    (off : Option (Int × Int)) (rules : List SamRule) (h : genSam d c off = .ok rules)
    (ni : NI) (hni : ni ∈ c.nis) (hs : (epOf d ni).isSbr = true) (r : AddrRange) (hr : r ∈ ni.ranges)
    (a : Int) (h1 : r.start ≤ a) (h2 : a < r.stop) :
    ∃ s ∈ rules, s.range = r ∧ s.dest = subOffset ni.id off ∧ C01U.covers s a ∧
      (∀ s' ∈ rules, C01U.covers s' a → s'.range.start = r.start ∧ s'.range.stop = r.stop) ∧
      r.stop ≤ (2 : Int) ^ d.addrW := by
  -- the interfaces of `c` are those `compileNis` returned
  unfold compileNetwork at hc
  obtain ⟨ids, _, hc⟩ := C05G.bind_ok hc
  obtain ⟨dirs, _, hc⟩ := C05G.bind_ok hc
  obtain ⟨_, _, hc⟩ := C05G.bind_ok hc
  obtain ⟨nis, hn, hc⟩ := C05G.bind_ok hc
  obtain ⟨routers, _, hc⟩ := C05G.bind_ok hc
  have hcn : c.nis = nis := by
    have := C05G.pure_ok hc
    rw [← this]
  have hv : ∀ ni ∈ c.nis, ∀ r ∈ ni.ranges, r.start < r.stop := by
    intro ni' hni' r' hr'
    rw [hcn] at hni'
    exact (compiled_ranges_valid d g ids nis hn ni' hni' r' hr').2.1
  exact C01U.sam_decodes_owner d c off rules h hv ni hni hs r hr a h1 h2

end FlooVerif.C01V

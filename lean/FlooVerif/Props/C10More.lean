/-
  C10 — more defect classes, each stated where the generator stops: a duplicated connection, two links on one router
  port (or a port beyond the router's degree), an unconnected endpoint, an array range without base, a range beyond
  the address width, and a name collision between address-map entries.  Each is an error of the component that meets
  it; `Model.gen` is the monadic composition of these components, so the error is the command's (C10.rejected_of_gen_error).
-/
import FlooVerif.Model.Emit
import FlooVerif.Props.C17
import FlooVerif.Props.C05Graph
namespace FlooVerif.C10M
open FlooVerif Model Model.Graph

/-- `mapM` succeeded: every element was mapped -/
theorem mapM_all {α β ε : Type} (f : α → Except ε β) :
    ∀ (l : List α) (res : List β), l.mapM f = .ok res → ∀ x ∈ l, True ∧ ∃ y, f x = .ok y := by
  intro l
  induction l with
  | nil => intro res _ x hx; cases hx
  | cons a as ih =>
    intro res h x hx
    rw [List.mapM_cons] at h
    cases ha : f a with
    | error e => rw [ha] at h; cases h
    | ok v =>
      rw [ha] at h
      cases hm : as.mapM f with
      | error e => rw [hm] at h; cases h
      | ok vs =>
        rcases List.mem_cons.1 hx with rfl | hx'
        · exact ⟨trivial, v, ha⟩
        · exact ih vs hm x hx'

/-- **a duplicated connection**: the second edge between the same two nodes is refused -/
theorem addEdge_duplicate (g : Graph) (e : Edge) (h : g.hasEdge e.src e.dst = true) :
    ∃ err, g.addEdge e = .error err := by
  unfold Graph.addEdge
  rw [if_pos h]
  exact ⟨_, rfl⟩

/-- … so a connection whose first pair is already linked stops `connectPairs` -/
theorem connectPairs_duplicate (c : ConnDesc) (x : String × String) (rest : List (String × String)) (g : Graph)
    (h : g.hasEdge x.1 x.2 = true) : ∃ err, connectPairs c (x :: rest) g = .error err := by
  unfold connectPairs
  obtain ⟨err, he⟩ := addEdge_duplicate g { src := x.1, dst := x.2, kind := .link, srcDir := c.srcDir, dstDir := c.dstDir } h
  refine ⟨err, ?_⟩
  simp only [List.foldlM, bind, Except.bind, he]

/-- **two links on one router port**: a directed link whose slot is taken is refused … -/
theorem place_taken (n : Nat) (rname : String) (i : Nat) (l : Link) (rest : List (Nat × Link))
    (acc : List (Option Link)) (hi : i < n) (ht : (acc.getD i none).isSome = true) :
    ∃ err, place n rname ((i, l) :: rest) acc = .error err := by
  unfold place
  have : ¬ i ≥ n := by omega
  rw [if_neg this, if_pos ht]
  exact ⟨_, rfl⟩

/-- … and so is a port index beyond the router's degree -/
theorem place_out_of_range (n : Nat) (rname : String) (i : Nat) (l : Link) (rest : List (Nat × Link))
    (acc : List (Option Link)) (hi : n ≤ i) : ∃ err, place n rname ((i, l) :: rest) acc = .error err := by
  unfold place
  rw [if_pos hi]
  exact ⟨_, rfl⟩

/-- **an array range without base** cannot be given to the elements of a subordinate array -/
theorem reindex_unbased (rs : List AddrRange) (k : Int) (r : AddrRange) (hr : r ∈ rs) (hb : r.base = none) :
    ∃ err, reindex rs k = .error err := by
  unfold reindex
  induction rs with
  | nil => cases hr
  | cons x xs ih =>
    rw [List.mapM_cons]
    rcases List.mem_cons.1 hr with rfl | hmem
    · rw [C17.setIdx_unbased r k hb]
      exact ⟨_, rfl⟩
    · cases hx : x.setIdx k with
      | error e => exact ⟨_, rfl⟩
      | ok a =>
        obtain ⟨err, he⟩ := ih hmem
        refine ⟨err, ?_⟩
        simp only [bind, Except.bind, pure, Except.pure] at he ⊢
        rw [he]

theorem niRanges_array_unbased (ep : EpDesc) (n i : Nat) (base : List AddrRange) (r : AddrRange)
    (ha : ep.array = some [n]) (hs : ep.isSbr = true) (hr : r ∈ base) (hb : r.base = none) :
    ∃ err, niRanges ep (some [i]) base = .error err := by
  unfold niRanges
  rw [ha]
  simp only [hs, if_true]
  exact reindex_unbased base _ r hr hb

/-- **a range beyond the address width** stops the address map -/
theorem genSam_beyond_width (d : Desc) (c : Compiled) (off : Option (Int × Int)) (r : SamRule)
    (hr : r ∈ samRules d c off) (hbig : r.range.stop > (2 : Int) ^ d.addrW) :
    ∃ err, genSam d c off = .error err := by
  unfold genSam
  have : ((samRules d c off).any fun r => decide (r.range.stop > (2 : Int) ^ d.addrW)) = true :=
    List.any_eq_true.2 ⟨r, hr, by simpa using hbig⟩
  simp only [this, if_true]
  exact ⟨_, rfl⟩

/-- **overlapping ranges** stop the address map (if nothing before it did) -/
theorem genSam_overlap (d : Desc) (c : Compiled) (off : Option (Int × Int))
    (ho : checkNoOverlap (samAsMap (samRules d c off)) = false) : ∃ err, genSam d c off = .error err := by
  unfold genSam
  by_cases h1 : ((samRules d c off).any fun r => decide (r.range.stop > (2 : Int) ^ d.addrW)) = true
  · simp only [h1, if_true]; exact ⟨_, rfl⟩
  simp only [h1, Bool.false_eq_true, if_false]
  by_cases h2 : decide (((samRules d c off).map fun r => snakeToCamel r.name).Nodup) = false
  · simp only [h2, if_true]; exact ⟨_, rfl⟩
  simp only [h2, ho, if_true]
  exact ⟨_, rfl⟩

/-- **an unconnected endpoint**: a network interface without a link leaving it cannot be compiled -/
theorem compileNi_unconnected (d : Desc) (g : Graph) (ids : Ids) (nd : Node)
    (h : ((g.edgesFrom nd.name).filter (·.kind == .link)).head? = none) :
    ∃ err, compileNi d g ids nd = .error err := by
  cases hc : compileNi d g ids nd with
  | error e => exact ⟨e, rfl⟩
  | ok ni =>
    exfalso
    unfold compileNi at hc
    simp only [bind, Except.bind] at hc
    split at hc
    · cases hc
    split at hc
    rotate_left
    · cases hc
    split at hc
    rotate_left
    · cases hc
    split at hc
    · cases hc
    split at hc
    · rename_i mg hmg
      rw [h] at hmg; cases hmg
    · cases hc

/-- … and the whole list of interfaces fails with it -/
theorem compileNis_unconnected (d : Desc) (g : Graph) (ids : Ids) (nd : Node) (hn : nd ∈ g.nodesOfKind .ni)
    (h : ((g.edgesFrom nd.name).filter (·.kind == .link)).head? = none) :
    ∃ err, compileNis d g ids = .error err := by
  cases hc : compileNis d g ids with
  | error e => exact ⟨e, rfl⟩
  | ok nis =>
    exfalso
    unfold compileNis at hc
    obtain ⟨_, y, hi⟩ := mapM_all _ _ _ hc nd hn
    obtain ⟨err, he⟩ := compileNi_unconnected d g ids nd h
    rw [he] at hi; cases hi

/-- **a protocol used for both roles**: once a protocol points one way (by an earlier endpoint or by its own
    `direction`), listing it on the other side of an endpoint is refused -/
theorem dirStep_conflict (d : Desc) (dirs : List (String × String)) (pn want v : String) (p : ProtDesc)
    (hp : d.protocols.find? (·.name == pn) = some p)
    (hcur : (match dirs.find? (·.1 == pn) with | some (_, v) => some v | none => p.direction) = some v)
    (hne : (v == want) = false) : ∃ err, dirStep d dirs pn want = .error err := by
  unfold dirStep
  simp only [hp]
  cases hf : dirs.find? (·.1 == pn) with
  | none =>
    simp only [hf] at hcur ⊢
    rw [hcur]
    simp only [hne, Bool.false_eq_true, if_false]
    exact ⟨_, rfl⟩
  | some pr =>
    obtain ⟨a, b⟩ := pr
    simp only [hf, Option.some.injEq] at hcur ⊢
    subst hcur
    simp only [hne, Bool.false_eq_true, if_false]
    exact ⟨_, rfl⟩

/-- … and a protocol name that no protocol carries is refused as well -/
theorem dirStep_unknown (d : Desc) (dirs : List (String × String)) (pn want : String)
    (hp : d.protocols.find? (·.name == pn) = none) : ∃ err, dirStep d dirs pn want = .error err := by
  unfold dirStep
  simp only [hp]
  exact ⟨_, rfl⟩

end FlooVerif.C10M

/-
  Pinned RTL (written by harness/mk_rtl_pins.py from the tree the semantics was read against):
  the two network interfaces (`floo_axi_chimney`, `floo_nw_chimney`), whole: the deciders read `set_ports(cfg, sbr, mgr)`
as "`EnSbrPort` enables the subordinate side, `EnMgrPort` the manager side, per bus" — which field gates which
generate block is in these files.
-/
import FlooVerif.Gen.RtlFacts
namespace FlooVerif.HwTie
open FlooVerif Rtl Gen

def pin_axiChimney_0 : List String := [
    "`include", "\"common_cells/registers.svh\"", "`include", "\"common_cells/assertions.svh\"", "`include",
    "\"axi/typedef.svh\"", "`include", "\"floo_noc/typedef.svh\"", "module", "floo_axi_chimney", "#", "(",
    "parameter", "floo_pkg", "::", "axi_cfg_t", "AxiCfg", "=", "'0", ",", "parameter", "floo_pkg", "::",
    "chimney_cfg_t", "ChimneyCfg", "=", "floo_pkg", "::", "ChimneyDefaultCfg", ",", "parameter", "floo_pkg",
    "::", "route_cfg_t", "RouteCfg", "=", "floo_pkg", "::", "RouteDefaultCfg", ",", "parameter", "bit",
    "AtopSupport", "=", "1'b1", ",", "parameter", "int", "unsigned", "MaxAtomicTxns", "=", "1", ",",
    "parameter", "type", "id_t", "=", "logic", ",", "parameter", "type", "rob_idx_t", "=", "logic", ",",
    "parameter", "type", "route_t", "=", "logic", ",", "parameter", "type", "dst_t", "=", "id_t", ",",
    "parameter", "type", "hdr_t", "=", "logic", ",", "parameter", "type", "sam_rule_t", "=", "logic", ",",
    "parameter", "sam_rule_t", "[", "RouteCfg", ".", "NumSamRules", "-", "1", ":", "0", "]", "Sam", "=",
    "'0", ",", "parameter", "type", "axi_in_req_t", "=", "logic", ",", "parameter", "type", "axi_in_rsp_t",
    "=", "logic", ",", "parameter", "type", "axi_out_req_t", "=", "logic", ",", "parameter", "type",
    "axi_out_rsp_t", "=", "logic", ",", "parameter", "type", "floo_req_t", "=", "logic", ",", "parameter",
    "type", "floo_rsp_t", "=", "logic", ",", "parameter", "type", "sram_cfg_t", "=", "logic", ")", "(",
    "input", "logic", "clk_i", ",", "input", "logic", "rst_ni", ",", "input", "logic", "test_enable_i", ",",
    "input", "sram_cfg_t", "sram_cfg_i", ",", "input", "axi_in_req_t", "axi_in_req_i", ",", "output",
    "axi_in_rsp_t", "axi_in_rsp_o", ",", "output", "axi_out_req_t", "axi_out_req_o", ",", "input",
    "axi_out_rsp_t", "axi_out_rsp_i", ",", "input", "id_t", "id_i", ",", "input", "route_t", "[", "RouteCfg",
    ".", "NumRoutes", "-", "1", ":", "0", "]", "route_table_i", ",", "output", "floo_req_t", "floo_req_o",
    ","
  ]

def pin_axiChimney_1 : List String := [
    "output", "floo_rsp_t", "floo_rsp_o", ",", "input", "floo_req_t", "floo_req_i", ",", "input",
    "floo_rsp_t", "floo_rsp_i", ")", ";", "import", "floo_pkg", "::", "*", ";", "typedef", "logic", "[",
    "AxiCfg", ".", "AddrWidth", "-", "1", ":", "0", "]", "axi_addr_t", ";", "typedef", "logic", "[",
    "AxiCfg", ".", "InIdWidth", "-", "1", ":", "0", "]", "axi_in_id_t", ";", "typedef", "logic", "[",
    "AxiCfg", ".", "OutIdWidth", "-", "1", ":", "0", "]", "axi_out_id_t", ";", "typedef", "logic", "[",
    "AxiCfg", ".", "UserWidth", "-", "1", ":", "0", "]", "axi_user_t", ";", "typedef", "logic", "[",
    "AxiCfg", ".", "DataWidth", "-", "1", ":", "0", "]", "axi_data_t", ";", "typedef", "logic", "[",
    "AxiCfg", ".", "DataWidth", "/", "8", "-", "1", ":", "0", "]", "axi_strb_t", ";", "`AXI_TYPEDEF_ALL_CT",
    "(", "axi", ",", "axi_req_t", ",", "axi_rsp_t", ",", "axi_addr_t", ",", "axi_in_id_t", ",", "axi_data_t",
    ",", "axi_strb_t", ",", "axi_user_t", ")", "`AXI_TYPEDEF_AW_CHAN_T", "(", "axi_out_aw_chan_t", ",",
    "axi_addr_t", ",", "axi_out_id_t", ",", "axi_user_t", ")", "`FLOO_TYPEDEF_AXI_CHAN_ALL", "(", "axi", ",",
    "req", ",", "rsp", ",", "axi", ",", "AxiCfg", ",", "hdr_t", ")", "axi_req_t", "axi_req_in", ";",
    "axi_rsp_t", "axi_rsp_out", ";", "axi_aw_chan_t", "axi_aw_queue", ";", "axi_ar_chan_t", "axi_ar_queue",
    ";", "logic", "axi_aw_queue_valid_out", ",", "axi_aw_queue_ready_in", ";", "logic",
    "axi_ar_queue_valid_out", ",", "axi_ar_queue_ready_in", ";", "floo_req_chan_t", "[", "AxiW", ":",
    "AxiAr", "]", "floo_req_arb_in", ";", "floo_rsp_chan_t", "[", "AxiB", ":", "AxiR", "]",
    "floo_rsp_arb_in", ";", "logic", "[", "AxiW", ":", "AxiAr", "]", "floo_req_arb_req_in", ",",
    "floo_req_arb_gnt_out", ";", "logic", "[", "AxiB", ":", "AxiR", "]", "floo_rsp_arb_req_in", ",",
    "floo_rsp_arb_gnt_out", ";", "floo_req_chan_t", "floo_req_in"
  ]

def pin_axiChimney_2 : List String := [
    ";", "floo_rsp_chan_t", "floo_rsp_in", ";", "logic", "floo_req_in_valid", ",", "floo_rsp_in_valid", ";",
    "logic", "floo_req_out_ready", ",", "floo_rsp_out_ready", ";", "logic", "[", "NumAxiChannels", "-", "1",
    ":", "0", "]", "axi_valid_in", ",", "axi_ready_out", ";", "floo_axi_aw_flit_t", "floo_axi_aw", ";",
    "floo_axi_w_flit_t", "floo_axi_w", ";", "floo_axi_ar_flit_t", "floo_axi_ar", ";", "floo_axi_b_flit_t",
    "floo_axi_b", ";", "floo_axi_r_flit_t", "floo_axi_r", ";", "axi_aw_chan_t", "axi_unpack_aw", ";",
    "axi_ar_chan_t", "axi_unpack_ar", ";", "axi_w_chan_t", "axi_unpack_w", ";", "axi_b_chan_t",
    "axi_unpack_b", ";", "axi_r_chan_t", "axi_unpack_r", ";", "floo_req_generic_flit_t",
    "unpack_req_generic", ";", "floo_rsp_generic_flit_t", "unpack_rsp_generic", ";", "axi_req_t",
    "meta_buf_req_in", ";", "axi_rsp_t", "meta_buf_rsp_out", ";", "axi_out_req_t", "meta_buf_req_out", ";",
    "axi_out_rsp_t", "meta_buf_rsp_in", ";", "typedef", "enum", "logic", "{", "SelAw", ",", "SelW", "}",
    "aw_w_sel_e", ";", "aw_w_sel_e", "aw_w_sel_q", ",", "aw_w_sel_d", ";", "typedef", "struct", "packed",
    "{", "axi_in_id_t", "id", ";", "hdr_t", "hdr", ";", "}", "meta_buf_t", ";", "dst_t", "[",
    "NumAxiChannels", "-", "1", ":", "0", "]", "dst_id", ";", "dst_t", "axi_aw_id_q", ";", "route_t", "[",
    "NumAxiChannels", "-", "1", ":", "0", "]", "route_out", ";", "id_t", "[", "NumAxiChannels", "-", "1",
    ":", "0", "]", "id_out", ";", "meta_buf_t", "aw_out_hdr_in", ",", "aw_out_hdr_out", ";", "meta_buf_t",
    "ar_out_hdr_in", ",", "ar_out_hdr_out", ";", "if", "(", "ChimneyCfg", ".", "EnMgrPort", ")", "begin",
    ":", "gen_sbr_port", "assign", "axi_req_in", "=", "axi_in_req_i", ";", "assign", "axi_in_rsp_o", "=",
    "axi_rsp_out", ";", "if", "(", "ChimneyCfg", ".", "CutAx", ")", "begin", ":", "gen_ax_cuts",
    "spill_register", "#", "(", ".", "T", "(", "axi_aw_chan_t", ")", ")", "i_aw_queue", "(", ".", "clk_i",
    ",", ".", "rst_ni", ",", ".", "data_i", "(", "axi_in_req_i", ".", "aw", ")", ",", ".", "valid_i"
  ]

def pin_axiChimney_3 : List String := [
    "(", "axi_in_req_i", ".", "aw_valid", ")", ",", ".", "ready_o", "(", "axi_rsp_out", ".", "aw_ready", ")",
    ",", ".", "data_o", "(", "axi_aw_queue", ")", ",", ".", "valid_o", "(", "axi_aw_queue_valid_out", ")",
    ",", ".", "ready_i", "(", "axi_aw_queue_ready_in", ")", ")", ";", "spill_register", "#", "(", ".", "T",
    "(", "axi_ar_chan_t", ")", ")", "i_ar_queue", "(", ".", "clk_i", ",", ".", "rst_ni", ",", ".", "data_i",
    "(", "axi_in_req_i", ".", "ar", ")", ",", ".", "valid_i", "(", "axi_in_req_i", ".", "ar_valid", ")", ",",
    ".", "ready_o", "(", "axi_rsp_out", ".", "ar_ready", ")", ",", ".", "data_o", "(", "axi_ar_queue", ")",
    ",", ".", "valid_o", "(", "axi_ar_queue_valid_out", ")", ",", ".", "ready_i", "(",
    "axi_ar_queue_ready_in", ")", ")", ";", "end", "else", "begin", ":", "gen_no_ax_cuts", "assign",
    "axi_aw_queue", "=", "axi_in_req_i", ".", "aw", ";", "assign", "axi_aw_queue_valid_out", "=",
    "axi_in_req_i", ".", "aw_valid", ";", "assign", "axi_rsp_out", ".", "aw_ready", "=",
    "axi_aw_queue_ready_in", ";", "assign", "axi_ar_queue", "=", "axi_in_req_i", ".", "ar", ";", "assign",
    "axi_ar_queue_valid_out", "=", "axi_in_req_i", ".", "ar_valid", ";", "assign", "axi_rsp_out", ".",
    "ar_ready", "=", "axi_ar_queue_ready_in", ";", "end", "end", "else", "begin", ":", "gen_err_slv_port",
    "axi_err_slv", "#", "(", ".", "AxiIdWidth", "(", "AxiCfg", ".", "InIdWidth", ")", ",", ".", "ATOPs", "(",
    "AtopSupport", ")", ",", ".", "axi_req_t", "(", "axi_in_req_t", ")", ",", ".", "axi_resp_t", "(",
    "axi_in_rsp_t", ")", ")", "i_axi_err_slv", "(", ".", "clk_i", "(", "clk_i", ")", ",", ".", "rst_ni", "(",
    "rst_ni", ")", ",", ".", "test_i", "(", "test_enable_i", ")", ",", ".", "slv_req_i", "(", "axi_in_req_i",
    ")"
  ]

def pin_axiChimney_4 : List String := [
    ",", ".", "slv_resp_o", "(", "axi_in_rsp_o", ")", ")", ";", "assign", "axi_req_in", "=", "'0", ";",
    "assign", "axi_aw_queue", "=", "'0", ";", "assign", "axi_ar_queue", "=", "'0", ";", "assign",
    "axi_aw_queue_valid_out", "=", "1'b0", ";", "assign", "axi_ar_queue_valid_out", "=", "1'b0", ";", "end",
    "if", "(", "ChimneyCfg", ".", "CutRsp", ")", "begin", ":", "gen_rsp_cuts", "spill_register", "#", "(",
    ".", "T", "(", "floo_req_chan_t", ")", ")", "i_data_req_arb", "(", ".", "clk_i", "(", "clk_i", ")", ",",
    ".", "rst_ni", "(", "rst_ni", ")", ",", ".", "data_i", "(", "floo_req_i", ".", "req", ")", ",", ".",
    "valid_i", "(", "floo_req_i", ".", "valid", ")", ",", ".", "ready_o", "(", "floo_req_o", ".", "ready",
    ")", ",", ".", "data_o", "(", "floo_req_in", ")", ",", ".", "valid_o", "(", "floo_req_in_valid", ")",
    ",", ".", "ready_i", "(", "floo_req_out_ready", ")", ")", ";", "spill_register", "#", "(", ".", "T", "(",
    "floo_rsp_chan_t", ")", ")", "i_data_rsp_arb", "(", ".", "clk_i", "(", "clk_i", ")", ",", ".", "rst_ni",
    "(", "rst_ni", ")", ",", ".", "data_i", "(", "floo_rsp_i", ".", "rsp", ")", ",", ".", "valid_i", "(",
    "floo_rsp_i", ".", "valid", ")", ",", ".", "ready_o", "(", "floo_rsp_o", ".", "ready", ")", ",", ".",
    "data_o", "(", "floo_rsp_in", ")", ",", ".", "valid_o", "(", "floo_rsp_in_valid", ")", ",", ".",
    "ready_i", "(", "floo_rsp_out_ready", ")", ")", ";", "end", "else", "begin", ":", "gen_no_rsp_cuts",
    "assign", "floo_req_in", "=", "floo_req_i", ".", "req", ";", "assign", "floo_req_in_valid", "=",
    "floo_req_i", ".", "valid", ";", "assign", "floo_req_o", ".", "ready", "=", "floo_req_out_ready"
  ]

def pin_axiChimney_5 : List String := [
    ";", "assign", "floo_rsp_in", "=", "floo_rsp_i", ".", "rsp", ";", "assign", "floo_rsp_in_valid", "=",
    "floo_rsp_i", ".", "valid", ";", "assign", "floo_rsp_o", ".", "ready", "=", "floo_rsp_out_ready", ";",
    "end", "logic", "aw_out_queue_valid", ",", "aw_out_queue_ready", ";", "axi_out_aw_chan_t",
    "axi_aw_queue_out", ";", "spill_register", "#", "(", ".", "T", "(", "axi_out_aw_chan_t", ")", ")",
    "i_aw_out_queue", "(", ".", "clk_i", "(", "clk_i", ")", ",", ".", "rst_ni", "(", "rst_ni", ")", ",", ".",
    "valid_i", "(", "meta_buf_req_out", ".", "aw_valid", ")", ",", ".", "ready_o", "(", "aw_out_queue_ready",
    ")", ",", ".", "data_i", "(", "meta_buf_req_out", ".", "aw", ")", ",", ".", "valid_o", "(",
    "aw_out_queue_valid", ")", ",", ".", "ready_i", "(", "axi_out_rsp_i", ".", "aw_ready", ")", ",", ".",
    "data_o", "(", "axi_aw_queue_out", ")", ")", ";", "always_comb", "begin", "axi_out_req_o", "=",
    "meta_buf_req_out", ";", "axi_out_req_o", ".", "aw_valid", "=", "aw_out_queue_valid", ";",
    "axi_out_req_o", ".", "aw", "=", "axi_aw_queue_out", ";", "meta_buf_rsp_in", "=", "axi_out_rsp_i", ";",
    "meta_buf_rsp_in", ".", "aw_ready", "=", "aw_out_queue_ready", ";", "end", "axi_b_chan_t",
    "axi_b_rob_out", ",", "axi_b_rob_in", ";", "logic", "aw_rob_req_out", ";", "rob_idx_t", "aw_rob_idx_out",
    ";", "logic", "aw_rob_valid_in", ",", "aw_rob_ready_out", ";", "logic", "aw_rob_valid_out", ",",
    "aw_rob_ready_in", ";", "logic", "b_rob_valid_in", ",", "b_rob_ready_out", ";", "logic",
    "b_rob_valid_out", ",", "b_rob_ready_in", ";", "axi_r_chan_t", "axi_r_rob_out", ",", "axi_r_rob_in", ";",
    "logic", "ar_rob_req_out", ";", "rob_idx_t", "ar_rob_idx_out", ";", "logic", "ar_rob_valid_out", ",",
    "ar_rob_ready_in", ";", "logic", "r_rob_valid_in", ",", "r_rob_ready_out", ";", "logic",
    "r_rob_valid_out", ",", "r_rob_ready_in", ";", "if", "(", "AtopSupport", ")", "begin", ":",
    "gen_atop_support", "assign", "aw_rob_valid_in", "=", "axi_aw_queue_valid_out", "&&", "(",
    "axi_aw_queue", ".", "atop", "=="
  ]

def pin_axiChimney_6 : List String := [
    "axi_pkg", "::", "ATOP_NONE", ")", ";", "assign", "axi_aw_queue_ready_in", "=", "(", "axi_aw_queue", ".",
    "atop", "==", "axi_pkg", "::", "ATOP_NONE", ")", "?", "aw_rob_ready_out", ":", "aw_rob_ready_in", ";",
    "end", "else", "begin", ":", "gen_no_atop_support", "assign", "aw_rob_valid_in", "=",
    "axi_aw_queue_valid_out", ";", "assign", "axi_aw_queue_ready_in", "=", "aw_rob_ready_out", ";",
    "`ASSERT", "(", "NoAtopSupport", ",", "!", "(", "axi_aw_queue_valid_out", "&&", "(", "axi_aw_queue", ".",
    "atop", "!=", "axi_pkg", "::", "ATOP_NONE", ")", ")", ")", "end", "floo_rob_wrapper", "#", "(", ".",
    "RoBType", "(", "ChimneyCfg", ".", "BRoBType", ")", ",", ".", "RoBSize", "(", "ChimneyCfg", ".",
    "BRoBSize", ")", ",", ".", "MaxRoTxnsPerId", "(", "ChimneyCfg", ".", "MaxTxnsPerId", ")", ",", ".",
    "OnlyMetaData", "(", "1'b1", ")", ",", ".", "ax_len_t", "(", "axi_pkg", "::", "len_t", ")", ",", ".",
    "ax_id_t", "(", "axi_in_id_t", ")", ",", ".", "rsp_chan_t", "(", "axi_b_chan_t", ")", ",", ".",
    "rsp_meta_t", "(", "axi_b_chan_t", ")", ",", ".", "rob_idx_t", "(", "rob_idx_t", ")", ",", ".", "dest_t",
    "(", "id_t", ")", ",", ".", "sram_cfg_t", "(", "sram_cfg_t", ")", ")", "i_b_rob", "(", ".", "clk_i", ",",
    ".", "rst_ni", ",", ".", "sram_cfg_i", ",", ".", "ax_valid_i", "(", "aw_rob_valid_in", ")", ",", ".",
    "ax_ready_o", "(", "aw_rob_ready_out", ")", ",", ".", "ax_len_i", "(", "axi_aw_queue", ".", "len", ")",
    ",", ".", "ax_id_i", "(", "axi_aw_queue", ".", "id", ")", ",", ".", "ax_dest_i", "(", "id_out", "[",
    "AxiAw", "]", ")", ",", ".", "ax_valid_o", "(", "aw_rob_valid_out", ")", ",", ".", "ax_ready_i", "(",
    "aw_rob_ready_in", ")", ",", ".", "ax_rob_req_o", "(", "aw_rob_req_out", ")", ","
  ]

def pin_axiChimney_7 : List String := [
    ".", "ax_rob_idx_o", "(", "aw_rob_idx_out", ")", ",", ".", "rsp_valid_i", "(", "b_rob_valid_in", ")",
    ",", ".", "rsp_ready_o", "(", "b_rob_ready_out", ")", ",", ".", "rsp_i", "(", "axi_b_rob_in", ")", ",",
    ".", "rsp_rob_req_i", "(", "floo_rsp_in", ".", "axi_b", ".", "hdr", ".", "rob_req", ")", ",", ".",
    "rsp_rob_idx_i", "(", "floo_rsp_in", ".", "axi_b", ".", "hdr", ".", "rob_idx", ")", ",", ".",
    "rsp_last_i", "(", "1'b1", ")", ",", ".", "rsp_valid_o", "(", "b_rob_valid_out", ")", ",", ".",
    "rsp_ready_i", "(", "b_rob_ready_in", ")", ",", ".", "rsp_o", "(", "axi_b_rob_out", ")", ")", ";",
    "typedef", "struct", "packed", "{", "axi_in_id_t", "id", ";", "axi_user_t", "user", ";", "axi_pkg", "::",
    "resp_t", "resp", ";", "logic", "last", ";", "}", "r_rob_meta_t", ";", "floo_rob_wrapper", "#", "(", ".",
    "RoBType", "(", "ChimneyCfg", ".", "RRoBType", ")", ",", ".", "RoBSize", "(", "ChimneyCfg", ".",
    "RRoBSize", ")", ",", ".", "MaxRoTxnsPerId", "(", "ChimneyCfg", ".", "MaxTxnsPerId", ")", ",", ".",
    "OnlyMetaData", "(", "1'b0", ")", ",", ".", "ax_len_t", "(", "axi_pkg", "::", "len_t", ")", ",", ".",
    "ax_id_t", "(", "axi_in_id_t", ")", ",", ".", "rsp_chan_t", "(", "axi_r_chan_t", ")", ",", ".",
    "rsp_data_t", "(", "axi_data_t", ")", ",", ".", "rsp_meta_t", "(", "r_rob_meta_t", ")", ",", ".",
    "rob_idx_t", "(", "rob_idx_t", ")", ",", ".", "dest_t", "(", "id_t", ")", ",", ".", "sram_cfg_t", "(",
    "sram_cfg_t", ")", ")", "i_r_rob", "(", ".", "clk_i", ",", ".", "rst_ni", ",", ".", "sram_cfg_i", ",",
    ".", "ax_valid_i", "(", "axi_ar_queue_valid_out", ")", ",", ".", "ax_ready_o", "(",
    "axi_ar_queue_ready_in", ")", ","
  ]

def pin_axiChimney_8 : List String := [
    ".", "ax_len_i", "(", "axi_ar_queue", ".", "len", ")", ",", ".", "ax_id_i", "(", "axi_ar_queue", ".",
    "id", ")", ",", ".", "ax_dest_i", "(", "id_out", "[", "AxiAr", "]", ")", ",", ".", "ax_valid_o", "(",
    "ar_rob_valid_out", ")", ",", ".", "ax_ready_i", "(", "ar_rob_ready_in", ")", ",", ".", "ax_rob_req_o",
    "(", "ar_rob_req_out", ")", ",", ".", "ax_rob_idx_o", "(", "ar_rob_idx_out", ")", ",", ".",
    "rsp_valid_i", "(", "r_rob_valid_in", ")", ",", ".", "rsp_ready_o", "(", "r_rob_ready_out", ")", ",",
    ".", "rsp_i", "(", "axi_r_rob_in", ")", ",", ".", "rsp_rob_req_i", "(", "floo_rsp_in", ".", "axi_r", ".",
    "hdr", ".", "rob_req", ")", ",", ".", "rsp_rob_idx_i", "(", "floo_rsp_in", ".", "axi_r", ".", "hdr", ".",
    "rob_idx", ")", ",", ".", "rsp_last_i", "(", "floo_rsp_in", ".", "axi_r", ".", "payload", ".", "last",
    ")", ",", ".", "rsp_valid_o", "(", "r_rob_valid_out", ")", ",", ".", "rsp_ready_i", "(",
    "r_rob_ready_in", ")", ",", ".", "rsp_o", "(", "axi_r_rob_out", ")", ")", ";", "axi_addr_t", "[",
    "NumAxiChannels", "-", "1", ":", "0", "]", "axi_req_addr", ";", "id_t", "[", "NumAxiChannels", "-", "1",
    ":", "0", "]", "axi_rsp_src_id", ";", "assign", "axi_req_addr", "[", "AxiAw", "]", "=", "axi_aw_queue",
    ".", "addr", ";", "assign", "axi_req_addr", "[", "AxiAr", "]", "=", "axi_ar_queue", ".", "addr", ";",
    "assign", "axi_rsp_src_id", "[", "AxiB", "]", "=", "aw_out_hdr_out", ".", "hdr", ".", "src_id", ";",
    "assign", "axi_rsp_src_id", "[", "AxiR", "]", "=", "ar_out_hdr_out", ".", "hdr", ".", "src_id", ";",
    "for", "(", "genvar", "ch", "=", "0", ";", "ch", "<", "NumAxiChannels", ";", "ch", "+", "+"
  ]

def pin_axiChimney_9 : List String := [
    ")", "begin", ":", "gen_route_comp", "localparam", "axi_ch_e", "Ch", "=", "axi_ch_e", "'(", "ch", ")",
    ";", "if", "(", "Ch", "==", "AxiAw", "||", "Ch", "==", "AxiAr", ")", "begin", ":", "gen_req_route_comp",
    "floo_route_comp", "#", "(", ".", "RouteCfg", "(", "RouteCfg", ")", ",", ".", "id_t", "(", "id_t", ")",
    ",", ".", "addr_t", "(", "axi_addr_t", ")", ",", ".", "addr_rule_t", "(", "sam_rule_t", ")", ",", ".",
    "route_t", "(", "route_t", ")", ")", "i_floo_req_route_comp", "(", ".", "clk_i", ",", ".", "rst_ni", ",",
    ".", "route_table_i", ",", ".", "addr_map_i", "(", "Sam", ")", ",", ".", "id_i", "(", "id_t", "'(", "'0",
    ")", ")", ",", ".", "addr_i", "(", "axi_req_addr", "[", "ch", "]", ")", ",", ".", "route_o", "(",
    "route_out", "[", "ch", "]", ")", ",", ".", "id_o", "(", "id_out", "[", "ch", "]", ")", ")", ";", "end",
    "else", "if", "(", "RouteCfg", ".", "RouteAlgo", "==", "floo_pkg", "::", "SourceRouting", "&&", "(",
    "Ch", "==", "AxiB", "||", "Ch", "==", "AxiR", ")", ")", "begin", ":", "gen_rsp_route_comp",
    "floo_route_comp", "#", "(", ".", "RouteCfg", "(", "RouteCfg", ")", ",", ".", "UseIdTable", "(", "1'b0",
    ")", ",", ".", "id_t", "(", "id_t", ")", ",", ".", "addr_t", "(", "axi_addr_t", ")", ",", ".",
    "addr_rule_t", "(", "sam_rule_t", ")", ",", ".", "route_t", "(", "route_t", ")", ")",
    "i_floo_rsp_route_comp", "(", ".", "clk_i", ",", ".", "rst_ni", ",", ".", "route_table_i", ",", ".",
    "addr_i", "(", "'0", ")", ",", ".", "addr_map_i", "(", "'0", ")", ","
  ]

def pin_axiChimney_10 : List String := [
    ".", "id_i", "(", "axi_rsp_src_id", "[", "ch", "]", ")", ",", ".", "route_o", "(", "route_out", "[",
    "ch", "]", ")", ",", ".", "id_o", "(", "id_out", "[", "ch", "]", ")", ")", ";", "end", "end", "if", "(",
    "RouteCfg", ".", "RouteAlgo", "==", "floo_pkg", "::", "SourceRouting", ")", "begin", ":",
    "gen_route_field", "assign", "route_out", "[", "AxiW", "]", "=", "axi_aw_id_q", ";", "assign", "dst_id",
    "=", "route_out", ";", "end", "else", "begin", ":", "gen_dst_field", "assign", "dst_id", "[", "AxiAw",
    "]", "=", "id_out", "[", "AxiAw", "]", ";", "assign", "dst_id", "[", "AxiAr", "]", "=", "id_out", "[",
    "AxiAr", "]", ";", "assign", "dst_id", "[", "AxiB", "]", "=", "aw_out_hdr_out", ".", "hdr", ".",
    "src_id", ";", "assign", "dst_id", "[", "AxiR", "]", "=", "ar_out_hdr_out", ".", "hdr", ".", "src_id",
    ";", "assign", "dst_id", "[", "AxiW", "]", "=", "axi_aw_id_q", ";", "end", "`FFL", "(", "axi_aw_id_q",
    ",", "dst_id", "[", "AxiAw", "]", ",", "axi_aw_queue_valid_out", "&&", "axi_aw_queue_ready_in", ",",
    "'0", ")", "always_comb", "begin", "floo_axi_aw", "=", "'0", ";", "floo_axi_aw", ".", "hdr", ".",
    "rob_req", "=", "aw_rob_req_out", ";", "floo_axi_aw", ".", "hdr", ".", "rob_idx", "=", "aw_rob_idx_out",
    ";", "floo_axi_aw", ".", "hdr", ".", "dst_id", "=", "dst_id", "[", "AxiAw", "]", ";", "floo_axi_aw", ".",
    "hdr", ".", "src_id", "=", "id_i", ";", "floo_axi_aw", ".", "hdr", ".", "last", "=", "1'b0", ";",
    "floo_axi_aw", ".", "hdr", ".", "axi_ch", "=", "AxiAw", ";", "floo_axi_aw", ".", "hdr", ".", "atop", "=",
    "axi_aw_queue", ".", "atop", "!=", "axi_pkg", "::"
  ]

def pin_axiChimney_11 : List String := [
    "ATOP_NONE", ";", "floo_axi_aw", ".", "payload", "=", "axi_aw_queue", ";", "end", "always_comb", "begin",
    "floo_axi_w", "=", "'0", ";", "floo_axi_w", ".", "hdr", ".", "rob_req", "=", "aw_rob_req_out", ";",
    "floo_axi_w", ".", "hdr", ".", "rob_idx", "=", "aw_rob_idx_out", ";", "floo_axi_w", ".", "hdr", ".",
    "dst_id", "=", "dst_id", "[", "AxiW", "]", ";", "floo_axi_w", ".", "hdr", ".", "src_id", "=", "id_i",
    ";", "floo_axi_w", ".", "hdr", ".", "last", "=", "axi_req_in", ".", "w", ".", "last", ";", "floo_axi_w",
    ".", "hdr", ".", "axi_ch", "=", "AxiW", ";", "floo_axi_w", ".", "payload", "=", "axi_req_in", ".", "w",
    ";", "end", "always_comb", "begin", "floo_axi_ar", "=", "'0", ";", "floo_axi_ar", ".", "hdr", ".",
    "rob_req", "=", "ar_rob_req_out", ";", "floo_axi_ar", ".", "hdr", ".", "rob_idx", "=", "ar_rob_idx_out",
    ";", "floo_axi_ar", ".", "hdr", ".", "dst_id", "=", "dst_id", "[", "AxiAr", "]", ";", "floo_axi_ar", ".",
    "hdr", ".", "src_id", "=", "id_i", ";", "floo_axi_ar", ".", "hdr", ".", "last", "=", "1'b1", ";",
    "floo_axi_ar", ".", "hdr", ".", "axi_ch", "=", "AxiAr", ";", "floo_axi_ar", ".", "payload", "=",
    "axi_ar_queue", ";", "end", "always_comb", "begin", "floo_axi_b", "=", "'0", ";", "floo_axi_b", ".",
    "hdr", ".", "rob_req", "=", "aw_out_hdr_out", ".", "hdr", ".", "rob_req", ";", "floo_axi_b", ".", "hdr",
    ".", "rob_idx", "=", "aw_out_hdr_out", ".", "hdr", ".", "rob_idx", ";", "floo_axi_b", ".", "hdr", ".",
    "dst_id", "=", "dst_id", "[", "AxiB", "]", ";", "floo_axi_b", ".", "hdr", ".", "src_id", "=", "id_i",
    ";", "floo_axi_b", ".", "hdr", ".", "last", "=", "1'b1", ";"
  ]

def pin_axiChimney_12 : List String := [
    "floo_axi_b", ".", "hdr", ".", "axi_ch", "=", "AxiB", ";", "floo_axi_b", ".", "hdr", ".", "atop", "=",
    "aw_out_hdr_out", ".", "hdr", ".", "atop", ";", "floo_axi_b", ".", "payload", "=", "meta_buf_rsp_out",
    ".", "b", ";", "floo_axi_b", ".", "payload", ".", "id", "=", "aw_out_hdr_out", ".", "id", ";", "end",
    "always_comb", "begin", "floo_axi_r", "=", "'0", ";", "floo_axi_r", ".", "hdr", ".", "rob_req", "=",
    "ar_out_hdr_out", ".", "hdr", ".", "rob_req", ";", "floo_axi_r", ".", "hdr", ".", "rob_idx", "=",
    "ar_out_hdr_out", ".", "hdr", ".", "rob_idx", ";", "floo_axi_r", ".", "hdr", ".", "dst_id", "=",
    "dst_id", "[", "AxiR", "]", ";", "floo_axi_r", ".", "hdr", ".", "src_id", "=", "id_i", ";", "floo_axi_r",
    ".", "hdr", ".", "last", "=", "1'b1", ";", "floo_axi_r", ".", "hdr", ".", "axi_ch", "=", "AxiR", ";",
    "floo_axi_r", ".", "hdr", ".", "atop", "=", "ar_out_hdr_out", ".", "hdr", ".", "atop", ";", "floo_axi_r",
    ".", "payload", "=", "meta_buf_rsp_out", ".", "r", ";", "floo_axi_r", ".", "payload", ".", "id", "=",
    "ar_out_hdr_out", ".", "id", ";", "end", "always_comb", "begin", "aw_w_sel_d", "=", "aw_w_sel_q", ";",
    "if", "(", "axi_aw_queue_valid_out", "&&", "axi_aw_queue_ready_in", ")", "aw_w_sel_d", "=", "SelW", ";",
    "if", "(", "axi_req_in", ".", "w_valid", "&&", "axi_rsp_out", ".", "w_ready", "&&", "axi_req_in", ".",
    "w", ".", "last", ")", "aw_w_sel_d", "=", "SelAw", ";", "end", "`FF", "(", "aw_w_sel_q", ",",
    "aw_w_sel_d", ",", "SelAw", ")", "assign", "floo_req_arb_req_in", "[", "AxiW", "]", "=", "(",
    "aw_w_sel_q", "==", "SelAw", ")", "&&", "(", "aw_rob_valid_out", "||", "(", "(", "axi_aw_queue", ".",
    "atop"
  ]

def pin_axiChimney_13 : List String := [
    "!=", "axi_pkg", "::", "ATOP_NONE", ")", "&&", "axi_aw_queue_valid_out", ")", ")", "||", "(",
    "aw_w_sel_q", "==", "SelW", ")", "&&", "axi_req_in", ".", "w_valid", ";", "assign",
    "floo_req_arb_req_in", "[", "AxiAr", "]", "=", "ar_rob_valid_out", ";", "assign", "floo_rsp_arb_req_in",
    "[", "AxiB", "]", "=", "meta_buf_rsp_out", ".", "b_valid", ";", "assign", "floo_rsp_arb_req_in", "[",
    "AxiR", "]", "=", "meta_buf_rsp_out", ".", "r_valid", ";", "assign", "aw_rob_ready_in", "=",
    "floo_req_arb_gnt_out", "[", "AxiW", "]", "&&", "(", "aw_w_sel_q", "==", "SelAw", ")", ";", "assign",
    "axi_rsp_out", ".", "w_ready", "=", "floo_req_arb_gnt_out", "[", "AxiW", "]", "&&", "(", "aw_w_sel_q",
    "==", "SelW", ")", ";", "assign", "ar_rob_ready_in", "=", "floo_req_arb_gnt_out", "[", "AxiAr", "]", ";",
    "assign", "floo_req_arb_in", "[", "AxiW", "]", "=", "(", "aw_w_sel_q", "==", "SelAw", ")", "?",
    "floo_axi_aw", ":", "floo_axi_w", ";", "assign", "floo_req_arb_in", "[", "AxiAr", "]", "=",
    "floo_axi_ar", ";", "assign", "floo_rsp_arb_in", "[", "AxiB", "]", "=", "floo_axi_b", ";", "assign",
    "floo_rsp_arb_in", "[", "AxiR", "]", "=", "floo_axi_r", ";", "floo_wormhole_arbiter", "#", "(", ".",
    "NumRoutes", "(", "2", ")", ",", ".", "flit_t", "(", "floo_req_generic_flit_t", ")", ")",
    "i_req_wormhole_arbiter", "(", ".", "clk_i", "(", "clk_i", ")", ",", ".", "rst_ni", "(", "rst_ni", ")",
    ",", ".", "valid_i", "(", "floo_req_arb_req_in", ")", ",", ".", "data_i", "(", "floo_req_arb_in", ")",
    ",", ".", "ready_o", "(", "floo_req_arb_gnt_out", ")", ",", ".", "data_o", "(", "floo_req_o", ".", "req",
    ")", ",", ".", "ready_i", "(", "floo_req_i", ".", "ready", ")", ",", ".", "valid_o", "(", "floo_req_o",
    ".", "valid", ")", ")", ";", "floo_wormhole_arbiter", "#"
  ]

def pin_axiChimney_14 : List String := [
    "(", ".", "NumRoutes", "(", "2", ")", ",", ".", "flit_t", "(", "floo_rsp_generic_flit_t", ")", ")",
    "i_rsp_wormhole_arbiter", "(", ".", "clk_i", "(", "clk_i", ")", ",", ".", "rst_ni", "(", "rst_ni", ")",
    ",", ".", "valid_i", "(", "floo_rsp_arb_req_in", ")", ",", ".", "data_i", "(", "floo_rsp_arb_in", ")",
    ",", ".", "ready_o", "(", "floo_rsp_arb_gnt_out", ")", ",", ".", "data_o", "(", "floo_rsp_o", ".", "rsp",
    ")", ",", ".", "ready_i", "(", "floo_rsp_i", ".", "ready", ")", ",", ".", "valid_o", "(", "floo_rsp_o",
    ".", "valid", ")", ")", ";", "logic", "is_atop_b_rsp", ",", "is_atop_r_rsp", ";", "logic", "b_sel_atop",
    ",", "r_sel_atop", ";", "logic", "b_rob_pending_q", ",", "r_rob_pending_q", ";", "assign",
    "is_atop_b_rsp", "=", "AtopSupport", "&&", "axi_valid_in", "[", "AxiB", "]", "&&", "unpack_rsp_generic",
    ".", "hdr", ".", "atop", ";", "assign", "is_atop_r_rsp", "=", "AtopSupport", "&&", "axi_valid_in", "[",
    "AxiR", "]", "&&", "unpack_rsp_generic", ".", "hdr", ".", "atop", ";", "assign", "b_sel_atop", "=",
    "is_atop_b_rsp", "&&", "!", "b_rob_pending_q", ";", "assign", "r_sel_atop", "=", "is_atop_r_rsp", "&&",
    "!", "r_rob_pending_q", ";", "assign", "axi_unpack_aw", "=", "floo_req_in", ".", "axi_aw", ".",
    "payload", ";", "assign", "axi_unpack_w", "=", "floo_req_in", ".", "axi_w", ".", "payload", ";",
    "assign", "axi_unpack_ar", "=", "floo_req_in", ".", "axi_ar", ".", "payload", ";", "assign",
    "axi_unpack_r", "=", "floo_rsp_in", ".", "axi_r", ".", "payload", ";", "assign", "axi_unpack_b", "=",
    "floo_rsp_in", ".", "axi_b", ".", "payload", ";", "assign", "unpack_req_generic", "=", "floo_req_in",
    ".", "generic", ";", "assign", "unpack_rsp_generic", "=", "floo_rsp_in", ".", "generic", ";", "assign",
    "axi_valid_in", "[", "AxiAw", "]", "=", "floo_req_in_valid", "&&"
  ]

def pin_axiChimney_15 : List String := [
    "(", "unpack_req_generic", ".", "hdr", ".", "axi_ch", "==", "AxiAw", ")", ";", "assign", "axi_valid_in",
    "[", "AxiW", "]", "=", "floo_req_in_valid", "&&", "(", "unpack_req_generic", ".", "hdr", ".", "axi_ch",
    "==", "AxiW", ")", ";", "assign", "axi_valid_in", "[", "AxiAr", "]", "=", "floo_req_in_valid", "&&", "(",
    "unpack_req_generic", ".", "hdr", ".", "axi_ch", "==", "AxiAr", ")", ";", "assign", "axi_valid_in", "[",
    "AxiB", "]", "=", "ChimneyCfg", ".", "EnMgrPort", "&&", "floo_rsp_in_valid", "&&", "(",
    "unpack_rsp_generic", ".", "hdr", ".", "axi_ch", "==", "AxiB", ")", ";", "assign", "axi_valid_in", "[",
    "AxiR", "]", "=", "ChimneyCfg", ".", "EnMgrPort", "&&", "floo_rsp_in_valid", "&&", "(",
    "unpack_rsp_generic", ".", "hdr", ".", "axi_ch", "==", "AxiR", ")", ";", "assign", "axi_ready_out", "[",
    "AxiAw", "]", "=", "meta_buf_rsp_out", ".", "aw_ready", ";", "assign", "axi_ready_out", "[", "AxiW", "]",
    "=", "meta_buf_rsp_out", ".", "w_ready", ";", "assign", "axi_ready_out", "[", "AxiAr", "]", "=",
    "meta_buf_rsp_out", ".", "ar_ready", ";", "assign", "axi_ready_out", "[", "AxiB", "]", "=",
    "b_rob_ready_out", "||", "b_sel_atop", "&&", "axi_req_in", ".", "b_ready", ";", "assign",
    "axi_ready_out", "[", "AxiR", "]", "=", "r_rob_ready_out", "||", "r_sel_atop", "&&", "axi_req_in", ".",
    "r_ready", ";", "assign", "floo_req_out_ready", "=", "axi_ready_out", "[", "unpack_req_generic", ".",
    "hdr", ".", "axi_ch", "]", ";", "assign", "floo_rsp_out_ready", "=", "axi_ready_out", "[",
    "unpack_rsp_generic", ".", "hdr", ".", "axi_ch", "]", ";", "assign", "meta_buf_req_in", "=", "'{", "aw",
    ":", "axi_unpack_aw", ",", "aw_valid", ":", "axi_valid_in", "[", "AxiAw", "]", ",", "w", ":",
    "axi_unpack_w", ",", "w_valid", ":", "axi_valid_in", "[", "AxiW", "]", ",", "b_ready", ":"
  ]

def pin_axiChimney_16 : List String := [
    "floo_rsp_arb_gnt_out", "[", "AxiB", "]", ",", "ar", ":", "axi_unpack_ar", ",", "ar_valid", ":",
    "axi_valid_in", "[", "AxiAr", "]", ",", "r_ready", ":", "floo_rsp_arb_gnt_out", "[", "AxiR", "]", "}",
    ";", "assign", "b_rob_valid_in", "=", "axi_valid_in", "[", "AxiB", "]", "&&", "!", "is_atop_b_rsp", ";",
    "assign", "r_rob_valid_in", "=", "axi_valid_in", "[", "AxiR", "]", "&&", "!", "is_atop_r_rsp", ";",
    "assign", "axi_rsp_out", ".", "b_valid", "=", "b_rob_valid_out", "||", "is_atop_b_rsp", ";", "assign",
    "axi_rsp_out", ".", "r_valid", "=", "r_rob_valid_out", "||", "is_atop_r_rsp", ";", "assign",
    "b_rob_ready_in", "=", "axi_req_in", ".", "b_ready", "&&", "!", "b_sel_atop", ";", "assign",
    "r_rob_ready_in", "=", "axi_req_in", ".", "r_ready", "&&", "!", "r_sel_atop", ";", "assign",
    "axi_b_rob_in", "=", "axi_unpack_b", ";", "assign", "axi_r_rob_in", "=", "axi_unpack_r", ";", "assign",
    "axi_rsp_out", ".", "b", "=", "(", "b_sel_atop", ")", "?", "axi_unpack_b", ":", "axi_b_rob_out", ";",
    "assign", "axi_rsp_out", ".", "r", "=", "(", "r_sel_atop", ")", "?", "axi_unpack_r", ":",
    "axi_r_rob_out", ";", "logic", "is_atop", ",", "atop_has_r_rsp", ";", "assign", "is_atop", "=",
    "AtopSupport", "&&", "axi_valid_in", "[", "AxiAw", "]", "&&", "(", "axi_unpack_aw", ".", "atop", "!=",
    "axi_pkg", "::", "ATOP_NONE", ")", ";", "assign", "atop_has_r_rsp", "=", "AtopSupport", "&&",
    "axi_valid_in", "[", "AxiAw", "]", "&&", "axi_unpack_aw", ".", "atop", "[", "axi_pkg", "::",
    "ATOP_R_RESP", "]", ";", "assign", "aw_out_hdr_in", "=", "'{", "id", ":", "axi_unpack_aw", ".", "id",
    ",", "hdr", ":", "unpack_req_generic", ".", "hdr", "}", ";", "assign", "ar_out_hdr_in", "=", "'{", "id",
    ":", "(", "is_atop", "&&", "atop_has_r_rsp", ")", "?", "axi_unpack_aw", ".", "id", ":", "axi_unpack_ar",
    ".", "id"
  ]

def pin_axiChimney_17 : List String := [
    ",", "hdr", ":", "unpack_req_generic", ".", "hdr", "}", ";", "if", "(", "ChimneyCfg", ".", "EnSbrPort",
    ")", "begin", ":", "gen_mgr_port", "floo_meta_buffer", "#", "(", ".", "InIdWidth", "(", "AxiCfg", ".",
    "InIdWidth", ")", ",", ".", "OutIdWidth", "(", "AxiCfg", ".", "OutIdWidth", ")", ",", ".", "MaxTxns",
    "(", "ChimneyCfg", ".", "MaxTxns", ")", ",", ".", "MaxUniqueIds", "(", "ChimneyCfg", ".", "MaxUniqueIds",
    ")", ",", ".", "AtopSupport", "(", "AtopSupport", ")", ",", ".", "MaxAtomicTxns", "(", "MaxAtomicTxns",
    ")", ",", ".", "buf_t", "(", "meta_buf_t", ")", ",", ".", "axi_in_req_t", "(", "axi_in_req_t", ")", ",",
    ".", "axi_in_rsp_t", "(", "axi_in_rsp_t", ")", ",", ".", "axi_out_req_t", "(", "axi_out_req_t", ")", ",",
    ".", "axi_out_rsp_t", "(", "axi_out_rsp_t", ")", ")", "i_floo_meta_buffer", "(", ".", "clk_i", ",", ".",
    "rst_ni", ",", ".", "test_enable_i", ",", ".", "axi_req_i", "(", "meta_buf_req_in", ")", ",", ".",
    "axi_rsp_o", "(", "meta_buf_rsp_out", ")", ",", ".", "axi_req_o", "(", "meta_buf_req_out", ")", ",", ".",
    "axi_rsp_i", "(", "meta_buf_rsp_in", ")", ",", ".", "aw_buf_i", "(", "aw_out_hdr_in", ")", ",", ".",
    "ar_buf_i", "(", "ar_out_hdr_in", ")", ",", ".", "r_buf_o", "(", "ar_out_hdr_out", ")", ",", ".",
    "b_buf_o", "(", "aw_out_hdr_out", ")", ")", ";", "end", "else", "begin", ":", "gen_no_mgr_port",
    "axi_err_slv", "#", "(", ".", "AxiIdWidth", "(", "AxiCfg", ".", "InIdWidth", ")", ",", ".", "ATOPs", "(",
    "AtopSupport", ")", ",", ".", "axi_req_t", "(", "axi_in_req_t", ")", ",", ".", "axi_resp_t", "(",
    "axi_in_rsp_t", ")", ")", "i_axi_err_slv", "(", ".", "clk_i", "(", "clk_i", ")", ",", ".", "rst_ni", "(",
    "rst_ni"
  ]

def pin_axiChimney_18 : List String := [
    ")", ",", ".", "test_i", "(", "test_enable_i", ")", ",", ".", "slv_req_i", "(", "meta_buf_req_in", ")",
    ",", ".", "slv_resp_o", "(", "meta_buf_rsp_out", ")", ")", ";", "assign", "meta_buf_req_out", "=", "'0",
    ";", "assign", "ar_out_hdr_out", "=", "'0", ";", "assign", "aw_out_hdr_out", "=", "'0", ";", "end",
    "`FF", "(", "b_rob_pending_q", ",", "b_rob_valid_out", "&&", "!", "b_rob_ready_in", "&&", "!",
    "is_atop_b_rsp", ",", "'0", ")", "`FF", "(", "r_rob_pending_q", ",", "r_rob_valid_out", "&&", "!",
    "r_rob_ready_in", "&&", "!", "is_atop_r_rsp", ",", "'0", ")", "`ASSERT_INIT", "(", "ToSmallIdWidth", ",",
    "1", "+", "AtopSupport", "*", "MaxAtomicTxns", "<=", "2", "*", "*", "AxiCfg", ".", "OutIdWidth", ")",
    "`ASSERT_INIT", "(", "NoMgrPortRobType", ",", "ChimneyCfg", ".", "EnMgrPort", "||", "(", "ChimneyCfg",
    ".", "BRoBType", "==", "NoRoB", "&&", "ChimneyCfg", ".", "RRoBType", "==", "NoRoB", ")", ")", "`ASSERT",
    "(", "NoMgrPortBResponse", ",", "ChimneyCfg", ".", "EnMgrPort", "||", "!", "(", "floo_rsp_in_valid",
    "&&", "(", "unpack_rsp_generic", ".", "hdr", ".", "axi_ch", "==", "AxiB", ")", ")", ")", "`ASSERT", "(",
    "NoMgrPortRResponse", ",", "ChimneyCfg", ".", "EnMgrPort", "||", "!", "(", "floo_rsp_in_valid", "&&",
    "(", "unpack_rsp_generic", ".", "hdr", ".", "axi_ch", "==", "AxiR", ")", ")", ")", "`ASSERT", "(",
    "NoSbrPortAwRequest", ",", "ChimneyCfg", ".", "EnSbrPort", "||", "!", "(", "floo_req_in_valid", "&&",
    "(", "unpack_req_generic", ".", "hdr", ".", "axi_ch", "==", "AxiAw", ")", ")", ")", "`ASSERT", "(",
    "NoSbrPortArRequest", ",", "ChimneyCfg", ".", "EnSbrPort", "||", "!", "(", "floo_req_in_valid", "&&",
    "(", "unpack_req_generic", ".", "hdr", ".", "axi_ch", "==", "AxiAr", ")", ")", ")", "`ASSERT", "(",
    "NoSbrPortWRequest", ","
  ]

def pin_axiChimney_19 : List String := [
    "ChimneyCfg", ".", "EnSbrPort", "||", "!", "(", "floo_req_in_valid", "&&", "(", "unpack_req_generic",
    ".", "hdr", ".", "axi_ch", "==", "AxiW", ")", ")", ")", "endmodule"
  ]

def pin_axiChimney : List String := pin_axiChimney_0 ++ pin_axiChimney_1 ++ pin_axiChimney_2 ++ pin_axiChimney_3 ++ pin_axiChimney_4 ++ pin_axiChimney_5 ++ pin_axiChimney_6 ++ pin_axiChimney_7 ++ pin_axiChimney_8 ++ pin_axiChimney_9 ++ pin_axiChimney_10 ++ pin_axiChimney_11 ++ pin_axiChimney_12 ++ pin_axiChimney_13 ++ pin_axiChimney_14 ++ pin_axiChimney_15 ++ pin_axiChimney_16 ++ pin_axiChimney_17 ++ pin_axiChimney_18 ++ pin_axiChimney_19


set_option maxRecDepth 400000 in
/-- the tokens of this part of the working tree's RTL are the pinned ones -/
theorem axiChimney_pinned : rtlFacts.axiChimney = pin_axiChimney := by
  decide +kernel

def pin_nwChimney_0 : List String := [
    "`include", "\"common_cells/registers.svh\"", "`include", "\"common_cells/assertions.svh\"", "`include",
    "\"axi/typedef.svh\"", "`include", "\"floo_noc/typedef.svh\"", "module", "floo_nw_chimney", "#", "(",
    "parameter", "floo_pkg", "::", "axi_cfg_t", "AxiCfgN", "=", "'0", ",", "parameter", "floo_pkg", "::",
    "axi_cfg_t", "AxiCfgW", "=", "'0", ",", "parameter", "floo_pkg", "::", "chimney_cfg_t", "ChimneyCfgN",
    "=", "floo_pkg", "::", "ChimneyDefaultCfg", ",", "parameter", "floo_pkg", "::", "chimney_cfg_t",
    "ChimneyCfgW", "=", "floo_pkg", "::", "ChimneyDefaultCfg", ",", "parameter", "floo_pkg", "::",
    "route_cfg_t", "RouteCfg", "=", "floo_pkg", "::", "RouteDefaultCfg", ",", "parameter", "bit",
    "AtopSupport", "=", "1'b1", ",", "parameter", "int", "unsigned", "MaxAtomicTxns", "=", "1", ",",
    "parameter", "type", "id_t", "=", "logic", ",", "parameter", "type", "rob_idx_t", "=", "logic", ",",
    "parameter", "type", "route_t", "=", "logic", ",", "parameter", "type", "dst_t", "=", "id_t", ",",
    "parameter", "type", "hdr_t", "=", "logic", ",", "parameter", "type", "sam_rule_t", "=", "logic", ",",
    "parameter", "sam_rule_t", "[", "RouteCfg", ".", "NumSamRules", "-", "1", ":", "0", "]", "Sam", "=",
    "'0", ",", "parameter", "type", "axi_narrow_in_req_t", "=", "logic", ",", "parameter", "type",
    "axi_narrow_in_rsp_t", "=", "logic", ",", "parameter", "type", "axi_narrow_out_req_t", "=", "logic", ",",
    "parameter", "type", "axi_narrow_out_rsp_t", "=", "logic", ",", "parameter", "type", "axi_wide_in_req_t",
    "=", "logic", ",", "parameter", "type", "axi_wide_in_rsp_t", "=", "logic", ",", "parameter", "type",
    "axi_wide_out_req_t", "=", "logic", ",", "parameter", "type", "axi_wide_out_rsp_t", "=", "logic", ",",
    "parameter", "type", "floo_req_t", "=", "logic", ",", "parameter", "type", "floo_rsp_t", "=", "logic",
    ",", "parameter", "type", "floo_wide_t", "=", "logic", ",", "parameter", "type", "sram_cfg_t", "=",
    "logic", ")", "(", "input", "logic", "clk_i", ",", "input"
  ]

def pin_nwChimney_1 : List String := [
    "logic", "rst_ni", ",", "input", "logic", "test_enable_i", ",", "input", "sram_cfg_t", "sram_cfg_i", ",",
    "input", "axi_narrow_in_req_t", "axi_narrow_in_req_i", ",", "output", "axi_narrow_in_rsp_t",
    "axi_narrow_in_rsp_o", ",", "output", "axi_narrow_out_req_t", "axi_narrow_out_req_o", ",", "input",
    "axi_narrow_out_rsp_t", "axi_narrow_out_rsp_i", ",", "input", "axi_wide_in_req_t", "axi_wide_in_req_i",
    ",", "output", "axi_wide_in_rsp_t", "axi_wide_in_rsp_o", ",", "output", "axi_wide_out_req_t",
    "axi_wide_out_req_o", ",", "input", "axi_wide_out_rsp_t", "axi_wide_out_rsp_i", ",", "input", "id_t",
    "id_i", ",", "input", "route_t", "[", "RouteCfg", ".", "NumRoutes", "-", "1", ":", "0", "]",
    "route_table_i", ",", "output", "floo_req_t", "floo_req_o", ",", "output", "floo_rsp_t", "floo_rsp_o",
    ",", "output", "floo_wide_t", "floo_wide_o", ",", "input", "floo_req_t", "floo_req_i", ",", "input",
    "floo_rsp_t", "floo_rsp_i", ",", "input", "floo_wide_t", "floo_wide_i", ")", ";", "import", "floo_pkg",
    "::", "*", ";", "typedef", "logic", "[", "AxiCfgN", ".", "AddrWidth", "-", "1", ":", "0", "]",
    "axi_addr_t", ";", "typedef", "logic", "[", "AxiCfgN", ".", "InIdWidth", "-", "1", ":", "0", "]",
    "axi_narrow_in_id_t", ";", "typedef", "logic", "[", "AxiCfgN", ".", "OutIdWidth", "-", "1", ":", "0",
    "]", "axi_narrow_out_id_t", ";", "typedef", "logic", "[", "AxiCfgN", ".", "UserWidth", "-", "1", ":",
    "0", "]", "axi_narrow_user_t", ";", "typedef", "logic", "[", "AxiCfgN", ".", "DataWidth", "-", "1", ":",
    "0", "]", "axi_narrow_data_t", ";", "typedef", "logic", "[", "AxiCfgN", ".", "DataWidth", "/", "8", "-",
    "1", ":", "0", "]", "axi_narrow_strb_t", ";", "typedef", "logic", "[", "AxiCfgW", ".", "InIdWidth", "-",
    "1", ":", "0", "]", "axi_wide_in_id_t", ";", "typedef", "logic", "[", "AxiCfgW", ".", "OutIdWidth", "-",
    "1", ":", "0", "]", "axi_wide_out_id_t", ";", "typedef", "logic", "[", "AxiCfgW"
  ]

def pin_nwChimney_2 : List String := [
    ".", "UserWidth", "-", "1", ":", "0", "]", "axi_wide_user_t", ";", "typedef", "logic", "[", "AxiCfgW",
    ".", "DataWidth", "-", "1", ":", "0", "]", "axi_wide_data_t", ";", "typedef", "logic", "[", "AxiCfgW",
    ".", "DataWidth", "/", "8", "-", "1", ":", "0", "]", "axi_wide_strb_t", ";", "`AXI_TYPEDEF_ALL_CT", "(",
    "axi_narrow", ",", "axi_narrow_req_t", ",", "axi_narrow_rsp_t", ",", "axi_addr_t", ",",
    "axi_narrow_in_id_t", ",", "axi_narrow_data_t", ",", "axi_narrow_strb_t", ",", "axi_narrow_user_t", ")",
    "`AXI_TYPEDEF_ALL_CT", "(", "axi_wide", ",", "axi_wide_req_t", ",", "axi_wide_rsp_t", ",", "axi_addr_t",
    ",", "axi_wide_in_id_t", ",", "axi_wide_data_t", ",", "axi_wide_strb_t", ",", "axi_wide_user_t", ")",
    "`AXI_TYPEDEF_AW_CHAN_T", "(", "axi_wide_out_aw_chan_t", ",", "axi_addr_t", ",", "axi_wide_out_id_t",
    ",", "axi_wide_user_t", ")", "`AXI_TYPEDEF_AW_CHAN_T", "(", "axi_narrow_out_aw_chan_t", ",",
    "axi_addr_t", ",", "axi_narrow_out_id_t", ",", "axi_narrow_user_t", ")", "`FLOO_TYPEDEF_NW_CHAN_ALL",
    "(", "axi", ",", "req", ",", "rsp", ",", "wide", ",", "axi_narrow", ",", "axi_wide", ",", "AxiCfgN", ",",
    "AxiCfgW", ",", "hdr_t", ")", "axi_narrow_req_t", "axi_narrow_req_in", ";", "axi_narrow_rsp_t",
    "axi_narrow_rsp_out", ";", "axi_wide_req_t", "axi_wide_req_in", ";", "axi_wide_rsp_t",
    "axi_wide_rsp_out", ";", "axi_narrow_aw_chan_t", "axi_narrow_aw_queue", ";", "axi_narrow_ar_chan_t",
    "axi_narrow_ar_queue", ";", "axi_wide_aw_chan_t", "axi_wide_aw_queue", ";", "axi_wide_ar_chan_t",
    "axi_wide_ar_queue", ";", "logic", "axi_narrow_aw_queue_valid_out", ",", "axi_narrow_aw_queue_ready_in",
    ";", "logic", "axi_narrow_ar_queue_valid_out", ",", "axi_narrow_ar_queue_ready_in", ";", "logic",
    "axi_wide_aw_queue_valid_out", ",", "axi_wide_aw_queue_ready_in", ";", "logic",
    "axi_wide_ar_queue_valid_out", ",", "axi_wide_ar_queue_ready_in", ";", "floo_req_chan_t", "[", "WideAr",
    ":", "NarrowAw", "]", "floo_req_arb_in", ";", "floo_rsp_chan_t", "[", "WideB", ":", "NarrowB", "]",
    "floo_rsp_arb_in", ";", "floo_wide_chan_t", "[", "WideR", ":", "WideAw", "]", "floo_wide_arb_in", ";",
    "logic", "[", "WideAr", ":", "NarrowAw", "]", "floo_req_arb_req_in", ",", "floo_req_arb_gnt_out", ";",
    "logic", "[", "WideB", ":", "NarrowB", "]", "floo_rsp_arb_req_in", ",", "floo_rsp_arb_gnt_out"
  ]

def pin_nwChimney_3 : List String := [
    ";", "logic", "[", "WideR", ":", "WideAw", "]", "floo_wide_arb_req_in", ",", "floo_wide_arb_gnt_out",
    ";", "floo_req_chan_t", "floo_req_in", ";", "floo_rsp_chan_t", "floo_rsp_in", ";", "floo_wide_chan_t",
    "floo_wide_in", ";", "logic", "floo_req_in_valid", ",", "floo_rsp_in_valid", ",", "floo_wide_in_valid",
    ";", "logic", "floo_req_out_ready", ",", "floo_rsp_out_ready", ",", "floo_wide_out_ready", ";", "logic",
    "[", "NumNWAxiChannels", "-", "1", ":", "0", "]", "axi_valid_in", ",", "axi_ready_out", ";",
    "floo_axi_narrow_aw_flit_t", "floo_narrow_aw", ";", "floo_axi_narrow_ar_flit_t", "floo_narrow_ar", ";",
    "floo_axi_narrow_w_flit_t", "floo_narrow_w", ";", "floo_axi_narrow_b_flit_t", "floo_narrow_b", ";",
    "floo_axi_narrow_r_flit_t", "floo_narrow_r", ";", "floo_axi_wide_aw_flit_t", "floo_wide_aw", ";",
    "floo_axi_wide_ar_flit_t", "floo_wide_ar", ";", "floo_axi_wide_w_flit_t", "floo_wide_w", ";",
    "floo_axi_wide_b_flit_t", "floo_wide_b", ";", "floo_axi_wide_r_flit_t", "floo_wide_r", ";", "typedef",
    "enum", "logic", "{", "SelAw", ",", "SelW", "}", "aw_w_sel_e", ";", "aw_w_sel_e", "narrow_aw_w_sel_q",
    ",", "narrow_aw_w_sel_d", ";", "aw_w_sel_e", "wide_aw_w_sel_q", ",", "wide_aw_w_sel_d", ";",
    "axi_narrow_aw_chan_t", "axi_narrow_unpack_aw", ";", "axi_narrow_w_chan_t", "axi_narrow_unpack_w", ";",
    "axi_narrow_b_chan_t", "axi_narrow_unpack_b", ";", "axi_narrow_ar_chan_t", "axi_narrow_unpack_ar", ";",
    "axi_narrow_r_chan_t", "axi_narrow_unpack_r", ";", "axi_wide_aw_chan_t", "axi_wide_unpack_aw", ";",
    "axi_wide_w_chan_t", "axi_wide_unpack_w", ";", "axi_wide_b_chan_t", "axi_wide_unpack_b", ";",
    "axi_wide_ar_chan_t", "axi_wide_unpack_ar", ";", "axi_wide_r_chan_t", "axi_wide_unpack_r", ";",
    "floo_req_generic_flit_t", "floo_req_unpack_generic", ";", "floo_rsp_generic_flit_t",
    "floo_rsp_unpack_generic", ";", "floo_wide_generic_flit_t", "floo_wide_unpack_generic", ";",
    "axi_narrow_in_req_t", "axi_narrow_meta_buf_req_in", ";", "axi_narrow_in_rsp_t",
    "axi_narrow_meta_buf_rsp_out", ";", "axi_narrow_out_req_t", "axi_narrow_meta_buf_req_out", ";",
    "axi_narrow_out_rsp_t", "axi_narrow_meta_buf_rsp_in", ";", "axi_wide_in_req_t",
    "axi_wide_meta_buf_req_in", ";", "axi_wide_in_rsp_t", "axi_wide_meta_buf_rsp_out", ";",
    "axi_wide_out_req_t", "axi_wide_meta_buf_req_out", ";", "axi_wide_out_rsp_t", "axi_wide_meta_buf_rsp_in",
    ";", "typedef", "struct", "packed", "{", "axi_narrow_in_id_t", "id", ";", "hdr_t", "hdr", ";", "}",
    "narrow_meta_buf_t", ";", "typedef", "struct", "packed", "{", "axi_wide_in_id_t", "id", ";", "hdr_t",
    "hdr", ";", "}", "wide_meta_buf_t", ";", "dst_t", "[", "NumNWAxiChannels", "-", "1", ":", "0", "]",
    "dst_id", ";", "dst_t", "narrow_aw_id_q", ",", "wide_aw_id_q", ";"
  ]

def pin_nwChimney_4 : List String := [
    "route_t", "[", "NumNWAxiChannels", "-", "1", ":", "0", "]", "route_out", ";", "id_t", "[",
    "NumNWAxiChannels", "-", "1", ":", "0", "]", "id_out", ";", "narrow_meta_buf_t", "narrow_aw_buf_hdr_in",
    ",", "narrow_aw_buf_hdr_out", ";", "narrow_meta_buf_t", "narrow_ar_buf_hdr_in", ",",
    "narrow_ar_buf_hdr_out", ";", "wide_meta_buf_t", "wide_aw_buf_hdr_in", ",", "wide_aw_buf_hdr_out", ";",
    "wide_meta_buf_t", "wide_ar_buf_hdr_in", ",", "wide_ar_buf_hdr_out", ";", "if", "(", "ChimneyCfgN", ".",
    "EnMgrPort", ")", "begin", ":", "gen_narrow_sbr_port", "assign", "axi_narrow_req_in", "=",
    "axi_narrow_in_req_i", ";", "assign", "axi_narrow_in_rsp_o", "=", "axi_narrow_rsp_out", ";", "if", "(",
    "ChimneyCfgN", ".", "CutAx", ")", "begin", ":", "gen_ax_cuts", "spill_register", "#", "(", ".", "T", "(",
    "axi_narrow_aw_chan_t", ")", ")", "i_narrow_aw_queue", "(", ".", "clk_i", ",", ".", "rst_ni", ",", ".",
    "data_i", "(", "axi_narrow_in_req_i", ".", "aw", ")", ",", ".", "valid_i", "(", "axi_narrow_in_req_i",
    ".", "aw_valid", ")", ",", ".", "ready_o", "(", "axi_narrow_rsp_out", ".", "aw_ready", ")", ",", ".",
    "data_o", "(", "axi_narrow_aw_queue", ")", ",", ".", "valid_o", "(", "axi_narrow_aw_queue_valid_out",
    ")", ",", ".", "ready_i", "(", "axi_narrow_aw_queue_ready_in", ")", ")", ";", "spill_register", "#", "(",
    ".", "T", "(", "axi_narrow_ar_chan_t", ")", ")", "i_narrow_ar_queue", "(", ".", "clk_i", ",", ".",
    "rst_ni", ",", ".", "data_i", "(", "axi_narrow_in_req_i", ".", "ar", ")", ",", ".", "valid_i", "(",
    "axi_narrow_in_req_i", ".", "ar_valid", ")", ",", ".", "ready_o", "(", "axi_narrow_rsp_out", ".",
    "ar_ready", ")", ",", ".", "data_o", "(", "axi_narrow_ar_queue", ")", ",", ".", "valid_o", "(",
    "axi_narrow_ar_queue_valid_out", ")", ",", ".", "ready_i", "(", "axi_narrow_ar_queue_ready_in", ")", ")",
    ";", "end", "else", "begin", ":", "gen_ax_no_cuts", "assign", "axi_narrow_aw_queue", "=",
    "axi_narrow_in_req_i", ".", "aw", ";"
  ]

def pin_nwChimney_5 : List String := [
    "assign", "axi_narrow_aw_queue_valid_out", "=", "axi_narrow_in_req_i", ".", "aw_valid", ";", "assign",
    "axi_narrow_rsp_out", ".", "aw_ready", "=", "axi_narrow_aw_queue_ready_in", ";", "assign",
    "axi_narrow_ar_queue", "=", "axi_narrow_in_req_i", ".", "ar", ";", "assign",
    "axi_narrow_ar_queue_valid_out", "=", "axi_narrow_in_req_i", ".", "ar_valid", ";", "assign",
    "axi_narrow_rsp_out", ".", "ar_ready", "=", "axi_narrow_ar_queue_ready_in", ";", "end", "end", "else",
    "begin", ":", "gen_narrow_err_slv_port", "axi_err_slv", "#", "(", ".", "AxiIdWidth", "(", "AxiCfgN", ".",
    "InIdWidth", ")", ",", ".", "ATOPs", "(", "AtopSupport", ")", ",", ".", "axi_req_t", "(",
    "axi_narrow_in_req_t", ")", ",", ".", "axi_resp_t", "(", "axi_narrow_in_rsp_t", ")", ")",
    "i_axi_err_slv", "(", ".", "clk_i", "(", "clk_i", ")", ",", ".", "rst_ni", "(", "rst_ni", ")", ",", ".",
    "test_i", "(", "test_enable_i", ")", ",", ".", "slv_req_i", "(", "axi_narrow_in_req_i", ")", ",", ".",
    "slv_resp_o", "(", "axi_narrow_in_rsp_o", ")", ")", ";", "assign", "axi_narrow_req_in", "=", "'0", ";",
    "assign", "axi_narrow_aw_queue", "=", "'0", ";", "assign", "axi_narrow_ar_queue", "=", "'0", ";",
    "assign", "axi_narrow_aw_queue_valid_out", "=", "1'b0", ";", "assign", "axi_narrow_ar_queue_valid_out",
    "=", "1'b0", ";", "end", "if", "(", "ChimneyCfgW", ".", "EnMgrPort", ")", "begin", ":",
    "gen_wide_sbr_port", "assign", "axi_wide_req_in", "=", "axi_wide_in_req_i", ";", "assign",
    "axi_wide_in_rsp_o", "=", "axi_wide_rsp_out", ";", "if", "(", "ChimneyCfgW", ".", "CutAx", ")", "begin",
    ":", "gen_ax_cuts", "spill_register", "#", "(", ".", "T", "(", "axi_wide_aw_chan_t", ")", ")",
    "i_wide_aw_queue", "(", ".", "clk_i", ",", ".", "rst_ni", ",", ".", "data_i", "(", "axi_wide_in_req_i",
    ".", "aw", ")", ",", ".", "valid_i", "(", "axi_wide_in_req_i", ".", "aw_valid", ")", ",", ".", "ready_o",
    "(", "axi_wide_rsp_out", ".", "aw_ready", ")", ",", ".", "data_o"
  ]

def pin_nwChimney_6 : List String := [
    "(", "axi_wide_aw_queue", ")", ",", ".", "valid_o", "(", "axi_wide_aw_queue_valid_out", ")", ",", ".",
    "ready_i", "(", "axi_wide_aw_queue_ready_in", ")", ")", ";", "spill_register", "#", "(", ".", "T", "(",
    "axi_wide_ar_chan_t", ")", ")", "i_wide_ar_queue", "(", ".", "clk_i", ",", ".", "rst_ni", ",", ".",
    "data_i", "(", "axi_wide_in_req_i", ".", "ar", ")", ",", ".", "valid_i", "(", "axi_wide_in_req_i", ".",
    "ar_valid", ")", ",", ".", "ready_o", "(", "axi_wide_rsp_out", ".", "ar_ready", ")", ",", ".", "data_o",
    "(", "axi_wide_ar_queue", ")", ",", ".", "valid_o", "(", "axi_wide_ar_queue_valid_out", ")", ",", ".",
    "ready_i", "(", "axi_wide_ar_queue_ready_in", ")", ")", ";", "end", "else", "begin", ":",
    "gen_ax_no_cuts", "assign", "axi_wide_aw_queue", "=", "axi_wide_in_req_i", ".", "aw", ";", "assign",
    "axi_wide_aw_queue_valid_out", "=", "axi_wide_in_req_i", ".", "aw_valid", ";", "assign",
    "axi_wide_rsp_out", ".", "aw_ready", "=", "axi_wide_aw_queue_ready_in", ";", "assign",
    "axi_wide_ar_queue", "=", "axi_wide_in_req_i", ".", "ar", ";", "assign", "axi_wide_ar_queue_valid_out",
    "=", "axi_wide_in_req_i", ".", "ar_valid", ";", "assign", "axi_wide_rsp_out", ".", "ar_ready", "=",
    "axi_wide_ar_queue_ready_in", ";", "end", "end", "else", "begin", ":", "gen_wide_err_slv_port",
    "axi_err_slv", "#", "(", ".", "AxiIdWidth", "(", "AxiCfgW", ".", "InIdWidth", ")", ",", ".", "ATOPs",
    "(", "AtopSupport", ")", ",", ".", "axi_req_t", "(", "axi_wide_in_req_t", ")", ",", ".", "axi_resp_t",
    "(", "axi_wide_in_rsp_t", ")", ")", "i_axi_err_slv", "(", ".", "clk_i", "(", "clk_i", ")", ",", ".",
    "rst_ni", "(", "rst_ni", ")", ",", ".", "test_i", "(", "test_enable_i", ")", ",", ".", "slv_req_i", "(",
    "axi_wide_in_req_i", ")", ",", ".", "slv_resp_o", "(", "axi_wide_in_rsp_o", ")", ")", ";", "assign",
    "axi_wide_req_in", "=", "'0", ";", "assign", "axi_wide_aw_queue", "="
  ]

def pin_nwChimney_7 : List String := [
    "'0", ";", "assign", "axi_wide_ar_queue", "=", "'0", ";", "assign", "axi_wide_aw_queue_valid_out", "=",
    "1'b0", ";", "assign", "axi_wide_ar_queue_valid_out", "=", "1'b0", ";", "end", "if", "(", "ChimneyCfgN",
    ".", "CutRsp", "&&", "ChimneyCfgW", ".", "CutRsp", ")", "begin", ":", "gen_rsp_cuts", "spill_register",
    "#", "(", ".", "T", "(", "floo_req_chan_t", ")", ")", "i_narrow_data_req_arb", "(", ".", "clk_i", ",",
    ".", "rst_ni", ",", ".", "data_i", "(", "floo_req_i", ".", "req", ")", ",", ".", "valid_i", "(",
    "floo_req_i", ".", "valid", ")", ",", ".", "ready_o", "(", "floo_req_o", ".", "ready", ")", ",", ".",
    "data_o", "(", "floo_req_in", ")", ",", ".", "valid_o", "(", "floo_req_in_valid", ")", ",", ".",
    "ready_i", "(", "floo_req_out_ready", ")", ")", ";", "spill_register", "#", "(", ".", "T", "(",
    "floo_rsp_chan_t", ")", ")", "i_narrow_data_rsp_arb", "(", ".", "clk_i", ",", ".", "rst_ni", ",", ".",
    "data_i", "(", "floo_rsp_i", ".", "rsp", ")", ",", ".", "valid_i", "(", "floo_rsp_i", ".", "valid", ")",
    ",", ".", "ready_o", "(", "floo_rsp_o", ".", "ready", ")", ",", ".", "data_o", "(", "floo_rsp_in", ")",
    ",", ".", "valid_o", "(", "floo_rsp_in_valid", ")", ",", ".", "ready_i", "(", "floo_rsp_out_ready", ")",
    ")", ";", "spill_register", "#", "(", ".", "T", "(", "floo_wide_chan_t", ")", ")", "i_wide_data_req_arb",
    "(", ".", "clk_i", ",", ".", "rst_ni", ",", ".", "data_i", "(", "floo_wide_i", ".", "wide", ")", ",",
    ".", "valid_i", "(", "floo_wide_i", ".", "valid", ")", ",", ".", "ready_o", "(", "floo_wide_o", ".",
    "ready", ")", ",", ".", "data_o", "(", "floo_wide_in", ")", ",", ".", "valid_o"
  ]

def pin_nwChimney_8 : List String := [
    "(", "floo_wide_in_valid", ")", ",", ".", "ready_i", "(", "floo_wide_out_ready", ")", ")", ";", "end",
    "else", "begin", ":", "gen_no_rsp_cuts", "assign", "floo_req_in", "=", "floo_req_i", ".", "req", ";",
    "assign", "floo_rsp_in", "=", "floo_rsp_i", ".", "rsp", ";", "assign", "floo_wide_in", "=",
    "floo_wide_i", ".", "wide", ";", "assign", "floo_req_in_valid", "=", "floo_req_i", ".", "valid", ";",
    "assign", "floo_rsp_in_valid", "=", "floo_rsp_i", ".", "valid", ";", "assign", "floo_wide_in_valid", "=",
    "floo_wide_i", ".", "valid", ";", "assign", "floo_req_o", ".", "ready", "=", "floo_req_out_ready", ";",
    "assign", "floo_rsp_o", ".", "ready", "=", "floo_rsp_out_ready", ";", "assign", "floo_wide_o", ".",
    "ready", "=", "floo_wide_out_ready", ";", "end", "logic", "narrow_aw_out_queue_valid", ",",
    "narrow_aw_out_queue_ready", ";", "logic", "wide_aw_out_queue_valid", ",", "wide_aw_out_queue_ready",
    ";", "axi_narrow_out_aw_chan_t", "axi_narrow_aw_queue_out", ";", "axi_wide_out_aw_chan_t",
    "axi_wide_aw_queue_out", ";", "spill_register", "#", "(", ".", "T", "(", "axi_narrow_out_aw_chan_t", ")",
    ")", "i_aw_narrow_out_queue", "(", ".", "clk_i", "(", "clk_i", ")", ",", ".", "rst_ni", "(", "rst_ni",
    ")", ",", ".", "valid_i", "(", "axi_narrow_meta_buf_req_out", ".", "aw_valid", ")", ",", ".", "ready_o",
    "(", "narrow_aw_out_queue_ready", ")", ",", ".", "data_i", "(", "axi_narrow_meta_buf_req_out", ".", "aw",
    ")", ",", ".", "valid_o", "(", "narrow_aw_out_queue_valid", ")", ",", ".", "ready_i", "(",
    "axi_narrow_out_rsp_i", ".", "aw_ready", ")", ",", ".", "data_o", "(", "axi_narrow_aw_queue_out", ")",
    ")", ";", "spill_register", "#", "(", ".", "T", "(", "axi_wide_out_aw_chan_t", ")", ")",
    "i_aw_out_queue", "(", ".", "clk_i", "(", "clk_i", ")", ",", ".", "rst_ni", "(", "rst_ni", ")", ",", ".",
    "valid_i", "(", "axi_wide_meta_buf_req_out", ".", "aw_valid", ")", ",", ".", "ready_o", "(",
    "wide_aw_out_queue_ready", ")", ",", "."
  ]

def pin_nwChimney_9 : List String := [
    "data_i", "(", "axi_wide_meta_buf_req_out", ".", "aw", ")", ",", ".", "valid_o", "(",
    "wide_aw_out_queue_valid", ")", ",", ".", "ready_i", "(", "axi_wide_out_rsp_i", ".", "aw_ready", ")",
    ",", ".", "data_o", "(", "axi_wide_aw_queue_out", ")", ")", ";", "always_comb", "begin",
    "axi_narrow_out_req_o", "=", "axi_narrow_meta_buf_req_out", ";", "axi_narrow_out_req_o", ".", "aw_valid",
    "=", "narrow_aw_out_queue_valid", ";", "axi_narrow_out_req_o", ".", "aw", "=", "axi_narrow_aw_queue_out",
    ";", "axi_narrow_meta_buf_rsp_in", "=", "axi_narrow_out_rsp_i", ";", "axi_narrow_meta_buf_rsp_in", ".",
    "aw_ready", "=", "narrow_aw_out_queue_ready", ";", "axi_wide_out_req_o", "=",
    "axi_wide_meta_buf_req_out", ";", "axi_wide_out_req_o", ".", "aw_valid", "=", "wide_aw_out_queue_valid",
    ";", "axi_wide_out_req_o", ".", "aw", "=", "axi_wide_aw_queue_out", ";", "axi_wide_meta_buf_rsp_in", "=",
    "axi_wide_out_rsp_i", ";", "axi_wide_meta_buf_rsp_in", ".", "aw_ready", "=", "wide_aw_out_queue_ready",
    ";", "end", "axi_narrow_b_chan_t", "axi_narrow_b_rob_out", ",", "axi_narrow_b_rob_in", ";", "logic",
    "narrow_aw_rob_req_out", ";", "rob_idx_t", "narrow_aw_rob_idx_out", ";", "logic",
    "narrow_aw_rob_valid_out", ",", "narrow_aw_rob_ready_in", ";", "logic", "narrow_aw_rob_valid_in", ",",
    "narrow_aw_rob_ready_out", ";", "logic", "narrow_b_rob_valid_in", ",", "narrow_b_rob_ready_out", ";",
    "logic", "narrow_b_rob_valid_out", ",", "narrow_b_rob_ready_in", ";", "axi_wide_b_chan_t",
    "axi_wide_b_rob_out", ",", "axi_wide_b_rob_in", ";", "logic", "wide_aw_rob_req_out", ";", "rob_idx_t",
    "wide_aw_rob_idx_out", ";", "logic", "wide_aw_rob_valid_out", ",", "wide_aw_rob_ready_in", ";", "logic",
    "wide_b_rob_valid_in", ",", "wide_b_rob_ready_out", ";", "logic", "wide_b_rob_valid_out", ",",
    "wide_b_rob_ready_in", ";", "axi_narrow_r_chan_t", "axi_narrow_r_rob_out", ",", "axi_narrow_r_rob_in",
    ";", "logic", "narrow_ar_rob_req_out", ";", "rob_idx_t", "narrow_ar_rob_idx_out", ";", "logic",
    "narrow_ar_rob_valid_out", ",", "narrow_ar_rob_ready_in", ";", "logic", "narrow_r_rob_valid_in", ",",
    "narrow_r_rob_ready_out", ";", "logic", "narrow_r_rob_valid_out", ",", "narrow_r_rob_ready_in", ";",
    "axi_wide_r_chan_t", "axi_wide_r_rob_out", ",", "axi_wide_r_rob_in", ";", "logic", "wide_ar_rob_req_out",
    ";", "rob_idx_t", "wide_ar_rob_idx_out", ";", "logic", "wide_ar_rob_valid_out", ",",
    "wide_ar_rob_ready_in", ";", "logic", "wide_r_rob_valid_in", ",", "wide_r_rob_ready_out", ";", "logic",
    "wide_r_rob_valid_out", ",", "wide_r_rob_ready_in", ";", "logic", "narrow_b_rob_rob_req", ";", "logic",
    "narrow_b_rob_last", ";", "rob_idx_t", "narrow_b_rob_rob_idx"
  ]

def pin_nwChimney_10 : List String := [
    ";", "assign", "narrow_b_rob_rob_req", "=", "floo_rsp_in", ".", "narrow_b", ".", "hdr", ".", "rob_req",
    ";", "assign", "narrow_b_rob_rob_idx", "=", "floo_rsp_in", ".", "narrow_b", ".", "hdr", ".", "rob_idx",
    ";", "assign", "narrow_b_rob_last", "=", "floo_rsp_in", ".", "narrow_b", ".", "hdr", ".", "last", ";",
    "if", "(", "AtopSupport", ")", "begin", ":", "gen_atop_support", "assign", "narrow_aw_rob_valid_in", "=",
    "axi_narrow_aw_queue_valid_out", "&&", "(", "axi_narrow_aw_queue", ".", "atop", "==", "axi_pkg", "::",
    "ATOP_NONE", ")", ";", "assign", "axi_narrow_aw_queue_ready_in", "=", "(", "axi_narrow_aw_queue", ".",
    "atop", "==", "axi_pkg", "::", "ATOP_NONE", ")", "?", "narrow_aw_rob_ready_out", ":",
    "narrow_aw_rob_ready_in", ";", "end", "else", "begin", ":", "gen_no_atop_support", "assign",
    "narrow_aw_rob_valid_in", "=", "axi_narrow_aw_queue_valid_out", ";", "assign",
    "axi_narrow_aw_queue_ready_in", "=", "narrow_aw_rob_ready_in", ";", "`ASSERT", "(", "NoAtopSupport", ",",
    "!", "(", "axi_narrow_aw_queue_valid_out", "&&", "(", "axi_narrow_aw_queue", ".", "atop", "!=",
    "axi_pkg", "::", "ATOP_NONE", ")", ")", ")", "end", "floo_rob_wrapper", "#", "(", ".", "RoBType", "(",
    "ChimneyCfgN", ".", "BRoBType", ")", ",", ".", "RoBSize", "(", "ChimneyCfgN", ".", "BRoBSize", ")", ",",
    ".", "MaxRoTxnsPerId", "(", "ChimneyCfgN", ".", "MaxTxnsPerId", ")", ",", ".", "OnlyMetaData", "(",
    "1'b1", ")", ",", ".", "ax_len_t", "(", "axi_pkg", "::", "len_t", ")", ",", ".", "ax_id_t", "(",
    "axi_narrow_in_id_t", ")", ",", ".", "rsp_chan_t", "(", "axi_narrow_b_chan_t", ")", ",", ".",
    "rsp_meta_t", "(", "axi_narrow_b_chan_t", ")", ",", ".", "rob_idx_t", "(", "rob_idx_t", ")", ",", ".",
    "dest_t", "(", "id_t", ")", ",", ".", "sram_cfg_t", "(", "sram_cfg_t", ")", ")", "i_narrow_b_rob", "(",
    ".", "clk_i", ",", ".", "rst_ni", ",", ".", "sram_cfg_i", ",", ".", "ax_valid_i", "(",
    "narrow_aw_rob_valid_in"
  ]

def pin_nwChimney_11 : List String := [
    ")", ",", ".", "ax_ready_o", "(", "narrow_aw_rob_ready_out", ")", ",", ".", "ax_len_i", "(",
    "axi_narrow_aw_queue", ".", "len", ")", ",", ".", "ax_id_i", "(", "axi_narrow_aw_queue", ".", "id", ")",
    ",", ".", "ax_dest_i", "(", "id_out", "[", "NarrowAw", "]", ")", ",", ".", "ax_valid_o", "(",
    "narrow_aw_rob_valid_out", ")", ",", ".", "ax_ready_i", "(", "narrow_aw_rob_ready_in", ")", ",", ".",
    "ax_rob_req_o", "(", "narrow_aw_rob_req_out", ")", ",", ".", "ax_rob_idx_o", "(",
    "narrow_aw_rob_idx_out", ")", ",", ".", "rsp_valid_i", "(", "narrow_b_rob_valid_in", ")", ",", ".",
    "rsp_ready_o", "(", "narrow_b_rob_ready_out", ")", ",", ".", "rsp_i", "(", "axi_narrow_b_rob_in", ")",
    ",", ".", "rsp_rob_req_i", "(", "narrow_b_rob_rob_req", ")", ",", ".", "rsp_rob_idx_i", "(",
    "narrow_b_rob_rob_idx", ")", ",", ".", "rsp_last_i", "(", "narrow_b_rob_last", ")", ",", ".",
    "rsp_valid_o", "(", "narrow_b_rob_valid_out", ")", ",", ".", "rsp_ready_i", "(", "narrow_b_rob_ready_in",
    ")", ",", ".", "rsp_o", "(", "axi_narrow_b_rob_out", ")", ")", ";", "logic", "wide_b_rob_rob_req", ";",
    "logic", "wide_b_rob_last", ";", "rob_idx_t", "wide_b_rob_rob_idx", ";", "assign", "wide_b_rob_rob_req",
    "=", "floo_rsp_in", ".", "wide_b", ".", "hdr", ".", "rob_req", ";", "assign", "wide_b_rob_rob_idx", "=",
    "floo_rsp_in", ".", "wide_b", ".", "hdr", ".", "rob_idx", ";", "assign", "wide_b_rob_last", "=",
    "floo_rsp_in", ".", "wide_b", ".", "hdr", ".", "last", ";", "floo_rob_wrapper", "#", "(", ".", "RoBType",
    "(", "ChimneyCfgW", ".", "BRoBType", ")", ",", ".", "RoBSize", "(", "ChimneyCfgW", ".", "BRoBSize", ")",
    ",", ".", "MaxRoTxnsPerId", "(", "ChimneyCfgW", ".", "MaxTxnsPerId", ")", ",", ".", "OnlyMetaData", "(",
    "1'b1", ")", ",", ".", "ax_len_t", "(", "axi_pkg", "::", "len_t", ")", ",", ".", "ax_id_t", "(",
    "axi_wide_in_id_t", ")"
  ]

def pin_nwChimney_12 : List String := [
    ",", ".", "rsp_chan_t", "(", "axi_wide_b_chan_t", ")", ",", ".", "rsp_meta_t", "(", "axi_wide_b_chan_t",
    ")", ",", ".", "rob_idx_t", "(", "rob_idx_t", ")", ",", ".", "dest_t", "(", "id_t", ")", ",", ".",
    "sram_cfg_t", "(", "sram_cfg_t", ")", ")", "i_wide_b_rob", "(", ".", "clk_i", ",", ".", "rst_ni", ",",
    ".", "sram_cfg_i", ",", ".", "ax_valid_i", "(", "axi_wide_aw_queue_valid_out", ")", ",", ".",
    "ax_ready_o", "(", "axi_wide_aw_queue_ready_in", ")", ",", ".", "ax_len_i", "(", "axi_wide_aw_queue",
    ".", "len", ")", ",", ".", "ax_id_i", "(", "axi_wide_aw_queue", ".", "id", ")", ",", ".", "ax_dest_i",
    "(", "id_out", "[", "WideAw", "]", ")", ",", ".", "ax_valid_o", "(", "wide_aw_rob_valid_out", ")", ",",
    ".", "ax_ready_i", "(", "wide_aw_rob_ready_in", ")", ",", ".", "ax_rob_req_o", "(",
    "wide_aw_rob_req_out", ")", ",", ".", "ax_rob_idx_o", "(", "wide_aw_rob_idx_out", ")", ",", ".",
    "rsp_valid_i", "(", "wide_b_rob_valid_in", ")", ",", ".", "rsp_ready_o", "(", "wide_b_rob_ready_out",
    ")", ",", ".", "rsp_i", "(", "axi_wide_b_rob_in", ")", ",", ".", "rsp_rob_req_i", "(",
    "wide_b_rob_rob_req", ")", ",", ".", "rsp_rob_idx_i", "(", "wide_b_rob_rob_idx", ")", ",", ".",
    "rsp_last_i", "(", "wide_b_rob_last", ")", ",", ".", "rsp_valid_o", "(", "wide_b_rob_valid_out", ")",
    ",", ".", "rsp_ready_i", "(", "wide_b_rob_ready_in", ")", ",", ".", "rsp_o", "(", "axi_wide_b_rob_out",
    ")", ")", ";", "typedef", "struct", "packed", "{", "axi_narrow_in_id_t", "id", ";", "axi_narrow_user_t",
    "user", ";", "axi_pkg", "::", "resp_t", "resp", ";", "logic", "last", ";", "}", "narrow_r_rob_meta_t",
    ";", "typedef", "struct", "packed", "{", "axi_wide_in_id_t", "id", ";", "axi_wide_user_t", "user", ";",
    "axi_pkg", "::", "resp_t", "resp", ";", "logic", "last", ";", "}", "wide_r_rob_meta_t", ";"
  ]

def pin_nwChimney_13 : List String := [
    "logic", "narrow_r_rob_rob_req", ";", "logic", "narrow_r_rob_last", ";", "rob_idx_t",
    "narrow_r_rob_rob_idx", ";", "assign", "narrow_r_rob_rob_req", "=", "floo_rsp_in", ".", "narrow_r", ".",
    "hdr", ".", "rob_req", ";", "assign", "narrow_r_rob_rob_idx", "=", "floo_rsp_in", ".", "narrow_r", ".",
    "hdr", ".", "rob_idx", ";", "assign", "narrow_r_rob_last", "=", "floo_rsp_in", ".", "narrow_r", ".",
    "payload", ".", "last", ";", "floo_rob_wrapper", "#", "(", ".", "RoBType", "(", "ChimneyCfgN", ".",
    "RRoBType", ")", ",", ".", "RoBSize", "(", "ChimneyCfgN", ".", "RRoBSize", ")", ",", ".",
    "MaxRoTxnsPerId", "(", "ChimneyCfgN", ".", "MaxTxnsPerId", ")", ",", ".", "OnlyMetaData", "(", "1'b0",
    ")", ",", ".", "ax_len_t", "(", "axi_pkg", "::", "len_t", ")", ",", ".", "ax_id_t", "(",
    "axi_narrow_in_id_t", ")", ",", ".", "rsp_chan_t", "(", "axi_narrow_r_chan_t", ")", ",", ".",
    "rsp_data_t", "(", "axi_narrow_data_t", ")", ",", ".", "rsp_meta_t", "(", "narrow_r_rob_meta_t", ")",
    ",", ".", "rob_idx_t", "(", "rob_idx_t", ")", ",", ".", "dest_t", "(", "id_t", ")", ",", ".",
    "sram_cfg_t", "(", "sram_cfg_t", ")", ")", "i_narrow_r_rob", "(", ".", "clk_i", ",", ".", "rst_ni", ",",
    ".", "sram_cfg_i", ",", ".", "ax_valid_i", "(", "axi_narrow_ar_queue_valid_out", ")", ",", ".",
    "ax_ready_o", "(", "axi_narrow_ar_queue_ready_in", ")", ",", ".", "ax_len_i", "(", "axi_narrow_ar_queue",
    ".", "len", ")", ",", ".", "ax_id_i", "(", "axi_narrow_ar_queue", ".", "id", ")", ",", ".", "ax_dest_i",
    "(", "id_out", "[", "NarrowAr", "]", ")", ",", ".", "ax_valid_o", "(", "narrow_ar_rob_valid_out", ")",
    ",", ".", "ax_ready_i", "(", "narrow_ar_rob_ready_in", ")", ",", ".", "ax_rob_req_o", "(",
    "narrow_ar_rob_req_out", ")", ",", ".", "ax_rob_idx_o", "(", "narrow_ar_rob_idx_out", ")", ",", ".",
    "rsp_valid_i", "("
  ]

def pin_nwChimney_14 : List String := [
    "narrow_r_rob_valid_in", ")", ",", ".", "rsp_ready_o", "(", "narrow_r_rob_ready_out", ")", ",", ".",
    "rsp_i", "(", "axi_narrow_r_rob_in", ")", ",", ".", "rsp_rob_req_i", "(", "narrow_r_rob_rob_req", ")",
    ",", ".", "rsp_rob_idx_i", "(", "narrow_r_rob_rob_idx", ")", ",", ".", "rsp_last_i", "(",
    "narrow_r_rob_last", ")", ",", ".", "rsp_valid_o", "(", "narrow_r_rob_valid_out", ")", ",", ".",
    "rsp_ready_i", "(", "narrow_r_rob_ready_in", ")", ",", ".", "rsp_o", "(", "axi_narrow_r_rob_out", ")",
    ")", ";", "logic", "wide_r_rob_rob_req", ";", "logic", "wide_r_rob_last", ";", "rob_idx_t",
    "wide_r_rob_rob_idx", ";", "assign", "wide_r_rob_rob_req", "=", "floo_wide_in", ".", "wide_r", ".",
    "hdr", ".", "rob_req", ";", "assign", "wide_r_rob_rob_idx", "=", "floo_wide_in", ".", "wide_r", ".",
    "hdr", ".", "rob_idx", ";", "assign", "wide_r_rob_last", "=", "floo_wide_in", ".", "wide_r", ".",
    "payload", ".", "last", ";", "floo_rob_wrapper", "#", "(", ".", "RoBType", "(", "ChimneyCfgW", ".",
    "RRoBType", ")", ",", ".", "RoBSize", "(", "ChimneyCfgW", ".", "RRoBSize", ")", ",", ".",
    "MaxRoTxnsPerId", "(", "ChimneyCfgW", ".", "MaxTxnsPerId", ")", ",", ".", "OnlyMetaData", "(", "1'b0",
    ")", ",", ".", "ax_len_t", "(", "axi_pkg", "::", "len_t", ")", ",", ".", "ax_id_t", "(",
    "axi_wide_in_id_t", ")", ",", ".", "rsp_chan_t", "(", "axi_wide_r_chan_t", ")", ",", ".", "rsp_data_t",
    "(", "axi_wide_data_t", ")", ",", ".", "rsp_meta_t", "(", "wide_r_rob_meta_t", ")", ",", ".",
    "rob_idx_t", "(", "rob_idx_t", ")", ",", ".", "dest_t", "(", "id_t", ")", ",", ".", "sram_cfg_t", "(",
    "sram_cfg_t", ")", ")", "i_wide_r_rob", "(", ".", "clk_i", ",", ".", "rst_ni", ",", ".", "sram_cfg_i",
    ",", ".", "ax_valid_i", "(", "axi_wide_ar_queue_valid_out", ")", ",", ".", "ax_ready_o", "(",
    "axi_wide_ar_queue_ready_in", ")", ","
  ]

def pin_nwChimney_15 : List String := [
    ".", "ax_len_i", "(", "axi_wide_ar_queue", ".", "len", ")", ",", ".", "ax_id_i", "(",
    "axi_wide_ar_queue", ".", "id", ")", ",", ".", "ax_dest_i", "(", "id_out", "[", "WideAr", "]", ")", ",",
    ".", "ax_valid_o", "(", "wide_ar_rob_valid_out", ")", ",", ".", "ax_ready_i", "(",
    "wide_ar_rob_ready_in", ")", ",", ".", "ax_rob_req_o", "(", "wide_ar_rob_req_out", ")", ",", ".",
    "ax_rob_idx_o", "(", "wide_ar_rob_idx_out", ")", ",", ".", "rsp_valid_i", "(", "wide_r_rob_valid_in",
    ")", ",", ".", "rsp_ready_o", "(", "wide_r_rob_ready_out", ")", ",", ".", "rsp_i", "(",
    "axi_wide_r_rob_in", ")", ",", ".", "rsp_rob_req_i", "(", "wide_r_rob_rob_req", ")", ",", ".",
    "rsp_rob_idx_i", "(", "wide_r_rob_rob_idx", ")", ",", ".", "rsp_last_i", "(", "wide_r_rob_last", ")",
    ",", ".", "rsp_valid_o", "(", "wide_r_rob_valid_out", ")", ",", ".", "rsp_ready_i", "(",
    "wide_r_rob_ready_in", ")", ",", ".", "rsp_o", "(", "axi_wide_r_rob_out", ")", ")", ";", "axi_addr_t",
    "[", "NumNWAxiChannels", "-", "1", ":", "0", "]", "axi_req_addr", ";", "id_t", "[", "NumNWAxiChannels",
    "-", "1", ":", "0", "]", "axi_rsp_src_id", ";", "assign", "axi_req_addr", "[", "NarrowAw", "]", "=",
    "axi_narrow_aw_queue", ".", "addr", ";", "assign", "axi_req_addr", "[", "NarrowAr", "]", "=",
    "axi_narrow_ar_queue", ".", "addr", ";", "assign", "axi_req_addr", "[", "WideAw", "]", "=",
    "axi_wide_aw_queue", ".", "addr", ";", "assign", "axi_req_addr", "[", "WideAr", "]", "=",
    "axi_wide_ar_queue", ".", "addr", ";", "assign", "axi_rsp_src_id", "[", "NarrowB", "]", "=",
    "narrow_aw_buf_hdr_out", ".", "hdr", ".", "src_id", ";", "assign", "axi_rsp_src_id", "[", "NarrowR", "]",
    "=", "narrow_ar_buf_hdr_out", ".", "hdr", ".", "src_id", ";", "assign", "axi_rsp_src_id", "[", "WideB",
    "]", "=", "wide_aw_buf_hdr_out", ".", "hdr", ".", "src_id", ";"
  ]

def pin_nwChimney_16 : List String := [
    "assign", "axi_rsp_src_id", "[", "WideR", "]", "=", "wide_ar_buf_hdr_out", ".", "hdr", ".", "src_id",
    ";", "for", "(", "genvar", "ch", "=", "0", ";", "ch", "<", "NumNWAxiChannels", ";", "ch", "+", "+", ")",
    "begin", ":", "gen_route_comp", "localparam", "nw_ch_e", "Ch", "=", "nw_ch_e", "'(", "ch", ")", ";",
    "if", "(", "Ch", "==", "NarrowAw", "||", "Ch", "==", "NarrowAr", "||", "Ch", "==", "WideAw", "||", "Ch",
    "==", "WideAr", ")", "begin", ":", "gen_req_route_comp", "floo_route_comp", "#", "(", ".", "RouteCfg",
    "(", "RouteCfg", ")", ",", ".", "id_t", "(", "id_t", ")", ",", ".", "addr_t", "(", "axi_addr_t", ")",
    ",", ".", "addr_rule_t", "(", "sam_rule_t", ")", ",", ".", "route_t", "(", "route_t", ")", ")",
    "i_floo_req_route_comp", "(", ".", "clk_i", ",", ".", "rst_ni", ",", ".", "route_table_i", ",", ".",
    "addr_map_i", "(", "Sam", ")", ",", ".", "id_i", "(", "id_t", "'(", "'0", ")", ")", ",", ".", "addr_i",
    "(", "axi_req_addr", "[", "ch", "]", ")", ",", ".", "route_o", "(", "route_out", "[", "ch", "]", ")",
    ",", ".", "id_o", "(", "id_out", "[", "ch", "]", ")", ")", ";", "end", "else", "if", "(", "RouteCfg",
    ".", "RouteAlgo", "==", "floo_pkg", "::", "SourceRouting", "&&", "(", "Ch", "==", "NarrowB", "||", "Ch",
    "==", "NarrowR", "||", "Ch", "==", "WideB", "||", "Ch", "==", "WideR", ")", ")", "begin", ":",
    "gen_rsp_route_comp", "floo_route_comp", "#", "(", ".", "RouteCfg", "(", "RouteCfg", ")", ",", ".",
    "UseIdTable", "(", "1'b0", ")", ",", ".", "id_t", "(", "id_t", ")"
  ]

def pin_nwChimney_17 : List String := [
    ",", ".", "addr_t", "(", "axi_addr_t", ")", ",", ".", "addr_rule_t", "(", "sam_rule_t", ")", ",", ".",
    "route_t", "(", "route_t", ")", ")", "i_floo_rsp_route_comp", "(", ".", "clk_i", ",", ".", "rst_ni", ",",
    ".", "route_table_i", ",", ".", "addr_i", "(", "'0", ")", ",", ".", "addr_map_i", "(", "'0", ")", ",",
    ".", "id_i", "(", "axi_rsp_src_id", "[", "ch", "]", ")", ",", ".", "route_o", "(", "route_out", "[",
    "ch", "]", ")", ",", ".", "id_o", "(", "id_out", "[", "ch", "]", ")", ")", ";", "end", "end", "if", "(",
    "RouteCfg", ".", "RouteAlgo", "==", "floo_pkg", "::", "SourceRouting", ")", "begin", ":",
    "gen_route_field", "assign", "route_out", "[", "NarrowW", "]", "=", "narrow_aw_id_q", ";", "assign",
    "route_out", "[", "WideW", "]", "=", "wide_aw_id_q", ";", "assign", "dst_id", "=", "route_out", ";",
    "end", "else", "begin", ":", "gen_dst_field", "assign", "dst_id", "[", "NarrowAw", "]", "=", "id_out",
    "[", "NarrowAw", "]", ";", "assign", "dst_id", "[", "NarrowAr", "]", "=", "id_out", "[", "NarrowAr", "]",
    ";", "assign", "dst_id", "[", "WideAw", "]", "=", "id_out", "[", "WideAw", "]", ";", "assign", "dst_id",
    "[", "WideAr", "]", "=", "id_out", "[", "WideAr", "]", ";", "assign", "dst_id", "[", "NarrowB", "]", "=",
    "narrow_aw_buf_hdr_out", ".", "hdr", ".", "src_id", ";", "assign", "dst_id", "[", "NarrowR", "]", "=",
    "narrow_ar_buf_hdr_out", ".", "hdr", ".", "src_id", ";", "assign", "dst_id", "[", "WideB", "]", "=",
    "wide_aw_buf_hdr_out", ".", "hdr", ".", "src_id", ";", "assign", "dst_id", "[", "WideR", "]", "=",
    "wide_ar_buf_hdr_out", ".", "hdr"
  ]

def pin_nwChimney_18 : List String := [
    ".", "src_id", ";", "assign", "dst_id", "[", "NarrowW", "]", "=", "narrow_aw_id_q", ";", "assign",
    "dst_id", "[", "WideW", "]", "=", "wide_aw_id_q", ";", "end", "`FFL", "(", "narrow_aw_id_q", ",",
    "dst_id", "[", "NarrowAw", "]", ",", "axi_narrow_aw_queue_valid_out", "&&",
    "axi_narrow_aw_queue_ready_in", ",", "'0", ")", "`FFL", "(", "wide_aw_id_q", ",", "dst_id", "[",
    "WideAw", "]", ",", "axi_wide_aw_queue_valid_out", "&&", "axi_wide_aw_queue_ready_in", ",", "'0", ")",
    "always_comb", "begin", "floo_narrow_aw", "=", "'0", ";", "floo_narrow_aw", ".", "hdr", ".", "rob_req",
    "=", "narrow_aw_rob_req_out", ";", "floo_narrow_aw", ".", "hdr", ".", "rob_idx", "=", "rob_idx_t", "'(",
    "narrow_aw_rob_idx_out", ")", ";", "floo_narrow_aw", ".", "hdr", ".", "dst_id", "=", "dst_id", "[",
    "NarrowAw", "]", ";", "floo_narrow_aw", ".", "hdr", ".", "src_id", "=", "id_i", ";", "floo_narrow_aw",
    ".", "hdr", ".", "last", "=", "1'b0", ";", "floo_narrow_aw", ".", "hdr", ".", "axi_ch", "=", "NarrowAw",
    ";", "floo_narrow_aw", ".", "hdr", ".", "atop", "=", "axi_narrow_aw_queue", ".", "atop", "!=", "axi_pkg",
    "::", "ATOP_NONE", ";", "floo_narrow_aw", ".", "payload", "=", "axi_narrow_aw_queue", ";", "end",
    "always_comb", "begin", "floo_narrow_w", "=", "'0", ";", "floo_narrow_w", ".", "hdr", ".", "rob_req",
    "=", "narrow_aw_rob_req_out", ";", "floo_narrow_w", ".", "hdr", ".", "rob_idx", "=", "rob_idx_t", "'(",
    "narrow_aw_rob_idx_out", ")", ";", "floo_narrow_w", ".", "hdr", ".", "dst_id", "=", "dst_id", "[",
    "NarrowW", "]", ";", "floo_narrow_w", ".", "hdr", ".", "src_id", "=", "id_i", ";", "floo_narrow_w", ".",
    "hdr", ".", "last", "=", "axi_narrow_req_in", ".", "w", ".", "last", ";", "floo_narrow_w", ".", "hdr",
    ".", "axi_ch", "=", "NarrowW", ";", "floo_narrow_w", ".", "payload", "=", "axi_narrow_req_in"
  ]

def pin_nwChimney_19 : List String := [
    ".", "w", ";", "end", "always_comb", "begin", "floo_narrow_ar", "=", "'0", ";", "floo_narrow_ar", ".",
    "hdr", ".", "rob_req", "=", "narrow_ar_rob_req_out", ";", "floo_narrow_ar", ".", "hdr", ".", "rob_idx",
    "=", "rob_idx_t", "'(", "narrow_ar_rob_idx_out", ")", ";", "floo_narrow_ar", ".", "hdr", ".", "dst_id",
    "=", "dst_id", "[", "NarrowAr", "]", ";", "floo_narrow_ar", ".", "hdr", ".", "src_id", "=", "id_i", ";",
    "floo_narrow_ar", ".", "hdr", ".", "last", "=", "1'b1", ";", "floo_narrow_ar", ".", "hdr", ".", "axi_ch",
    "=", "NarrowAr", ";", "floo_narrow_ar", ".", "payload", "=", "axi_narrow_ar_queue", ";", "end",
    "always_comb", "begin", "floo_narrow_b", "=", "'0", ";", "floo_narrow_b", ".", "hdr", ".", "rob_req",
    "=", "narrow_aw_buf_hdr_out", ".", "hdr", ".", "rob_req", ";", "floo_narrow_b", ".", "hdr", ".",
    "rob_idx", "=", "rob_idx_t", "'(", "narrow_aw_buf_hdr_out", ".", "hdr", ".", "rob_idx", ")", ";",
    "floo_narrow_b", ".", "hdr", ".", "dst_id", "=", "dst_id", "[", "NarrowB", "]", ";", "floo_narrow_b",
    ".", "hdr", ".", "src_id", "=", "id_i", ";", "floo_narrow_b", ".", "hdr", ".", "last", "=", "1'b1", ";",
    "floo_narrow_b", ".", "hdr", ".", "axi_ch", "=", "NarrowB", ";", "floo_narrow_b", ".", "hdr", ".",
    "atop", "=", "narrow_aw_buf_hdr_out", ".", "hdr", ".", "atop", ";", "floo_narrow_b", ".", "payload", "=",
    "axi_narrow_meta_buf_rsp_out", ".", "b", ";", "floo_narrow_b", ".", "payload", ".", "id", "=",
    "narrow_aw_buf_hdr_out", ".", "id", ";", "end", "always_comb", "begin", "floo_narrow_r", "=", "'0", ";",
    "floo_narrow_r", ".", "hdr", ".", "rob_req", "=", "narrow_ar_buf_hdr_out", ".", "hdr", ".", "rob_req",
    ";", "floo_narrow_r", ".", "hdr", ".", "rob_idx", "=", "rob_idx_t", "'(", "narrow_ar_buf_hdr_out", ".",
    "hdr", "."
  ]

def pin_nwChimney_20 : List String := [
    "rob_idx", ")", ";", "floo_narrow_r", ".", "hdr", ".", "dst_id", "=", "dst_id", "[", "NarrowR", "]", ";",
    "floo_narrow_r", ".", "hdr", ".", "src_id", "=", "id_i", ";", "floo_narrow_r", ".", "hdr", ".", "axi_ch",
    "=", "NarrowR", ";", "floo_narrow_r", ".", "hdr", ".", "last", "=", "1'b1", ";", "floo_narrow_r", ".",
    "hdr", ".", "atop", "=", "narrow_ar_buf_hdr_out", ".", "hdr", ".", "atop", ";", "floo_narrow_r", ".",
    "payload", "=", "axi_narrow_meta_buf_rsp_out", ".", "r", ";", "floo_narrow_r", ".", "payload", ".", "id",
    "=", "narrow_ar_buf_hdr_out", ".", "id", ";", "end", "always_comb", "begin", "floo_wide_aw", "=", "'0",
    ";", "floo_wide_aw", ".", "hdr", ".", "rob_req", "=", "wide_aw_rob_req_out", ";", "floo_wide_aw", ".",
    "hdr", ".", "rob_idx", "=", "rob_idx_t", "'(", "wide_aw_rob_idx_out", ")", ";", "floo_wide_aw", ".",
    "hdr", ".", "dst_id", "=", "dst_id", "[", "WideAw", "]", ";", "floo_wide_aw", ".", "hdr", ".", "src_id",
    "=", "id_i", ";", "floo_wide_aw", ".", "hdr", ".", "last", "=", "1'b0", ";", "floo_wide_aw", ".", "hdr",
    ".", "axi_ch", "=", "WideAw", ";", "floo_wide_aw", ".", "payload", "=", "axi_wide_aw_queue", ";", "end",
    "always_comb", "begin", "floo_wide_w", "=", "'0", ";", "floo_wide_w", ".", "hdr", ".", "rob_req", "=",
    "wide_aw_rob_req_out", ";", "floo_wide_w", ".", "hdr", ".", "rob_idx", "=", "rob_idx_t", "'(",
    "wide_aw_rob_idx_out", ")", ";", "floo_wide_w", ".", "hdr", ".", "dst_id", "=", "dst_id", "[", "WideW",
    "]", ";", "floo_wide_w", ".", "hdr", ".", "src_id", "=", "id_i", ";", "floo_wide_w", ".", "hdr", ".",
    "last", "=", "axi_wide_req_in", ".", "w", ".", "last", ";", "floo_wide_w", ".", "hdr", ".", "axi_ch",
    "=", "WideW", ";"
  ]

def pin_nwChimney_21 : List String := [
    "floo_wide_w", ".", "payload", "=", "axi_wide_req_in", ".", "w", ";", "end", "always_comb", "begin",
    "floo_wide_ar", "=", "'0", ";", "floo_wide_ar", ".", "hdr", ".", "rob_req", "=", "wide_ar_rob_req_out",
    ";", "floo_wide_ar", ".", "hdr", ".", "rob_idx", "=", "rob_idx_t", "'(", "wide_ar_rob_idx_out", ")", ";",
    "floo_wide_ar", ".", "hdr", ".", "dst_id", "=", "dst_id", "[", "WideAr", "]", ";", "floo_wide_ar", ".",
    "hdr", ".", "src_id", "=", "id_i", ";", "floo_wide_ar", ".", "hdr", ".", "last", "=", "1'b1", ";",
    "floo_wide_ar", ".", "hdr", ".", "axi_ch", "=", "WideAr", ";", "floo_wide_ar", ".", "payload", "=",
    "axi_wide_ar_queue", ";", "end", "always_comb", "begin", "floo_wide_b", "=", "'0", ";", "floo_wide_b",
    ".", "hdr", ".", "rob_req", "=", "wide_aw_buf_hdr_out", ".", "hdr", ".", "rob_req", ";", "floo_wide_b",
    ".", "hdr", ".", "rob_idx", "=", "rob_idx_t", "'(", "wide_aw_buf_hdr_out", ".", "hdr", ".", "rob_idx",
    ")", ";", "floo_wide_b", ".", "hdr", ".", "dst_id", "=", "dst_id", "[", "WideB", "]", ";", "floo_wide_b",
    ".", "hdr", ".", "src_id", "=", "id_i", ";", "floo_wide_b", ".", "hdr", ".", "last", "=", "1'b1", ";",
    "floo_wide_b", ".", "hdr", ".", "axi_ch", "=", "WideB", ";", "floo_wide_b", ".", "payload", "=",
    "axi_wide_meta_buf_rsp_out", ".", "b", ";", "floo_wide_b", ".", "payload", ".", "id", "=",
    "wide_aw_buf_hdr_out", ".", "id", ";", "end", "always_comb", "begin", "floo_wide_r", "=", "'0", ";",
    "floo_wide_r", ".", "hdr", ".", "rob_req", "=", "wide_ar_buf_hdr_out", ".", "hdr", ".", "rob_req", ";",
    "floo_wide_r", ".", "hdr", ".", "rob_idx", "=", "rob_idx_t", "'(", "wide_ar_buf_hdr_out", ".", "hdr",
    ".", "rob_idx", ")", ";", "floo_wide_r", ".", "hdr", "."
  ]

def pin_nwChimney_22 : List String := [
    "dst_id", "=", "dst_id", "[", "WideR", "]", ";", "floo_wide_r", ".", "hdr", ".", "src_id", "=", "id_i",
    ";", "floo_wide_r", ".", "hdr", ".", "axi_ch", "=", "WideR", ";", "floo_wide_r", ".", "hdr", ".", "last",
    "=", "1'b1", ";", "floo_wide_r", ".", "payload", "=", "axi_wide_meta_buf_rsp_out", ".", "r", ";",
    "floo_wide_r", ".", "payload", ".", "id", "=", "wide_ar_buf_hdr_out", ".", "id", ";", "end",
    "always_comb", "begin", "narrow_aw_w_sel_d", "=", "narrow_aw_w_sel_q", ";", "wide_aw_w_sel_d", "=",
    "wide_aw_w_sel_q", ";", "if", "(", "axi_narrow_aw_queue_valid_out", "&&", "axi_narrow_aw_queue_ready_in",
    ")", "begin", "narrow_aw_w_sel_d", "=", "SelW", ";", "end", "if", "(", "axi_narrow_req_in", ".",
    "w_valid", "&&", "axi_narrow_rsp_out", ".", "w_ready", "&&", "axi_narrow_req_in", ".", "w", ".", "last",
    ")", "begin", "narrow_aw_w_sel_d", "=", "SelAw", ";", "end", "if", "(", "axi_wide_aw_queue_valid_out",
    "&&", "axi_wide_aw_queue_ready_in", ")", "begin", "wide_aw_w_sel_d", "=", "SelW", ";", "end", "if", "(",
    "axi_wide_req_in", ".", "w_valid", "&&", "axi_wide_rsp_out", ".", "w_ready", "&&", "axi_wide_req_in",
    ".", "w", ".", "last", ")", "begin", "wide_aw_w_sel_d", "=", "SelAw", ";", "end", "end", "`FF", "(",
    "narrow_aw_w_sel_q", ",", "narrow_aw_w_sel_d", ",", "SelAw", ")", "`FF", "(", "wide_aw_w_sel_q", ",",
    "wide_aw_w_sel_d", ",", "SelAw", ")", "assign", "floo_req_arb_req_in", "[", "NarrowW", "]", "=", "(",
    "narrow_aw_w_sel_q", "==", "SelAw", ")", "&&", "(", "narrow_aw_rob_valid_out", "||", "(", "(",
    "axi_narrow_aw_queue", ".", "atop", "!=", "axi_pkg", "::", "ATOP_NONE", ")", "&&",
    "axi_narrow_aw_queue_valid_out", ")", ")", "||", "(", "narrow_aw_w_sel_q", "==", "SelW", ")", "&&",
    "axi_narrow_req_in", ".", "w_valid", ";", "assign", "floo_req_arb_req_in", "[", "NarrowAw", "]", "=",
    "1'b0", ";", "assign", "floo_req_arb_req_in", "[", "NarrowAr", "]", "=", "narrow_ar_rob_valid_out"
  ]

def pin_nwChimney_23 : List String := [
    ";", "assign", "floo_req_arb_req_in", "[", "WideAr", "]", "=", "wide_ar_rob_valid_out", ";", "assign",
    "floo_rsp_arb_req_in", "[", "NarrowB", "]", "=", "axi_narrow_meta_buf_rsp_out", ".", "b_valid", ";",
    "assign", "floo_rsp_arb_req_in", "[", "NarrowR", "]", "=", "axi_narrow_meta_buf_rsp_out", ".", "r_valid",
    ";", "assign", "floo_rsp_arb_req_in", "[", "WideB", "]", "=", "axi_wide_meta_buf_rsp_out", ".",
    "b_valid", ";", "assign", "floo_wide_arb_req_in", "[", "WideW", "]", "=", "(", "wide_aw_w_sel_q", "==",
    "SelAw", ")", "&&", "wide_aw_rob_valid_out", "||", "(", "wide_aw_w_sel_q", "==", "SelW", ")", "&&",
    "axi_wide_req_in", ".", "w_valid", ";", "assign", "floo_wide_arb_req_in", "[", "WideAw", "]", "=",
    "1'b0", ";", "assign", "floo_wide_arb_req_in", "[", "WideR", "]", "=", "axi_wide_meta_buf_rsp_out", ".",
    "r_valid", ";", "assign", "narrow_aw_rob_ready_in", "=", "floo_req_arb_gnt_out", "[", "NarrowW", "]",
    "&&", "(", "narrow_aw_w_sel_q", "==", "SelAw", ")", ";", "assign", "axi_narrow_rsp_out", ".", "w_ready",
    "=", "floo_req_arb_gnt_out", "[", "NarrowW", "]", "&&", "(", "narrow_aw_w_sel_q", "==", "SelW", ")", ";",
    "assign", "narrow_ar_rob_ready_in", "=", "floo_req_arb_gnt_out", "[", "NarrowAr", "]", ";", "assign",
    "wide_aw_rob_ready_in", "=", "floo_wide_arb_gnt_out", "[", "WideW", "]", "&&", "(", "wide_aw_w_sel_q",
    "==", "SelAw", ")", ";", "assign", "axi_wide_rsp_out", ".", "w_ready", "=", "floo_wide_arb_gnt_out", "[",
    "WideW", "]", "&&", "(", "wide_aw_w_sel_q", "==", "SelW", ")", ";", "assign", "wide_ar_rob_ready_in",
    "=", "floo_req_arb_gnt_out", "[", "WideAr", "]", ";", "assign", "floo_req_arb_in", "[", "NarrowAw", "]",
    "=", "'0", ";", "assign", "floo_req_arb_in", "[", "NarrowW", "]", "=", "(", "narrow_aw_w_sel_q", "==",
    "SelAw", ")", "?", "floo_narrow_aw", ":", "floo_narrow_w", ";", "assign", "floo_req_arb_in", "[",
    "NarrowAr", "]", ".", "narrow_ar", "=", "floo_narrow_ar", ";", "assign", "floo_req_arb_in", "[",
    "WideAr", "]", ".", "wide_ar", "=", "floo_wide_ar"
  ]

def pin_nwChimney_24 : List String := [
    ";", "assign", "floo_rsp_arb_in", "[", "NarrowB", "]", ".", "narrow_b", "=", "floo_narrow_b", ";",
    "assign", "floo_rsp_arb_in", "[", "NarrowR", "]", ".", "narrow_r", "=", "floo_narrow_r", ";", "assign",
    "floo_rsp_arb_in", "[", "WideB", "]", ".", "wide_b", "=", "floo_wide_b", ";", "assign",
    "floo_wide_arb_in", "[", "WideAw", "]", "=", "'0", ";", "assign", "floo_wide_arb_in", "[", "WideW", "]",
    "=", "(", "wide_aw_w_sel_q", "==", "SelAw", ")", "?", "floo_wide_aw", ":", "floo_wide_w", ";", "assign",
    "floo_wide_arb_in", "[", "WideR", "]", ".", "wide_r", "=", "floo_wide_r", ";", "floo_wormhole_arbiter",
    "#", "(", ".", "NumRoutes", "(", "4", ")", ",", ".", "flit_t", "(", "floo_req_generic_flit_t", ")", ")",
    "i_req_wormhole_arbiter", "(", ".", "clk_i", ",", ".", "rst_ni", ",", ".", "valid_i", "(",
    "floo_req_arb_req_in", ")", ",", ".", "data_i", "(", "floo_req_arb_in", ")", ",", ".", "ready_o", "(",
    "floo_req_arb_gnt_out", ")", ",", ".", "data_o", "(", "floo_req_o", ".", "req", ")", ",", ".", "ready_i",
    "(", "floo_req_i", ".", "ready", ")", ",", ".", "valid_o", "(", "floo_req_o", ".", "valid", ")", ")",
    ";", "floo_wormhole_arbiter", "#", "(", ".", "NumRoutes", "(", "3", ")", ",", ".", "flit_t", "(",
    "floo_rsp_generic_flit_t", ")", ")", "i_rsp_wormhole_arbiter", "(", ".", "clk_i", ",", ".", "rst_ni",
    ",", ".", "valid_i", "(", "floo_rsp_arb_req_in", ")", ",", ".", "data_i", "(", "floo_rsp_arb_in", ")",
    ",", ".", "ready_o", "(", "floo_rsp_arb_gnt_out", ")", ",", ".", "data_o", "(", "floo_rsp_o", ".", "rsp",
    ")", ",", ".", "ready_i", "(", "floo_rsp_i", ".", "ready", ")", ",", ".", "valid_o", "(", "floo_rsp_o",
    ".", "valid", ")", ")", ";", "floo_wormhole_arbiter", "#", "("
  ]

def pin_nwChimney_25 : List String := [
    ".", "NumRoutes", "(", "3", ")", ",", ".", "flit_t", "(", "floo_wide_generic_flit_t", ")", ")",
    "i_wide_wormhole_arbiter", "(", ".", "clk_i", ",", ".", "rst_ni", ",", ".", "valid_i", "(",
    "floo_wide_arb_req_in", ")", ",", ".", "data_i", "(", "floo_wide_arb_in", ")", ",", ".", "ready_o", "(",
    "floo_wide_arb_gnt_out", ")", ",", ".", "data_o", "(", "floo_wide_o", ".", "wide", ")", ",", ".",
    "ready_i", "(", "floo_wide_i", ".", "ready", ")", ",", ".", "valid_o", "(", "floo_wide_o", ".", "valid",
    ")", ")", ";", "logic", "is_atop_b_rsp", ",", "is_atop_r_rsp", ";", "logic", "b_sel_atop", ",",
    "r_sel_atop", ";", "logic", "b_rob_pending_q", ",", "r_rob_pending_q", ";", "assign", "is_atop_b_rsp",
    "=", "AtopSupport", "&&", "axi_valid_in", "[", "NarrowB", "]", "&&", "floo_rsp_unpack_generic", ".",
    "hdr", ".", "atop", ";", "assign", "is_atop_r_rsp", "=", "AtopSupport", "&&", "axi_valid_in", "[",
    "NarrowR", "]", "&&", "floo_rsp_unpack_generic", ".", "hdr", ".", "atop", ";", "assign", "b_sel_atop",
    "=", "is_atop_b_rsp", "&&", "!", "b_rob_pending_q", ";", "assign", "r_sel_atop", "=", "is_atop_r_rsp",
    "&&", "!", "r_rob_pending_q", ";", "assign", "axi_narrow_unpack_aw", "=", "floo_req_in", ".",
    "narrow_aw", ".", "payload", ";", "assign", "axi_narrow_unpack_w", "=", "floo_req_in", ".", "narrow_w",
    ".", "payload", ";", "assign", "axi_narrow_unpack_ar", "=", "floo_req_in", ".", "narrow_ar", ".",
    "payload", ";", "assign", "axi_narrow_unpack_r", "=", "floo_rsp_in", ".", "narrow_r", ".", "payload",
    ";", "assign", "axi_narrow_unpack_b", "=", "floo_rsp_in", ".", "narrow_b", ".", "payload", ";", "assign",
    "axi_wide_unpack_aw", "=", "floo_wide_in", ".", "wide_aw", ".", "payload", ";", "assign",
    "axi_wide_unpack_w", "=", "floo_wide_in", ".", "wide_w", ".", "payload", ";", "assign",
    "axi_wide_unpack_ar", "=", "floo_req_in", ".", "wide_ar", ".", "payload", ";", "assign",
    "axi_wide_unpack_r"
  ]

def pin_nwChimney_26 : List String := [
    "=", "floo_wide_in", ".", "wide_r", ".", "payload", ";", "assign", "axi_wide_unpack_b", "=",
    "floo_rsp_in", ".", "wide_b", ".", "payload", ";", "assign", "floo_req_unpack_generic", "=",
    "floo_req_in", ".", "generic", ";", "assign", "floo_rsp_unpack_generic", "=", "floo_rsp_in", ".",
    "generic", ";", "assign", "floo_wide_unpack_generic", "=", "floo_wide_in", ".", "generic", ";", "assign",
    "axi_valid_in", "[", "NarrowAw", "]", "=", "floo_req_in_valid", "&&", "(", "floo_req_unpack_generic",
    ".", "hdr", ".", "axi_ch", "==", "NarrowAw", ")", ";", "assign", "axi_valid_in", "[", "NarrowW", "]",
    "=", "floo_req_in_valid", "&&", "(", "floo_req_unpack_generic", ".", "hdr", ".", "axi_ch", "==",
    "NarrowW", ")", ";", "assign", "axi_valid_in", "[", "NarrowAr", "]", "=", "floo_req_in_valid", "&&", "(",
    "floo_req_unpack_generic", ".", "hdr", ".", "axi_ch", "==", "NarrowAr", ")", ";", "assign",
    "axi_valid_in", "[", "WideAr", "]", "=", "floo_req_in_valid", "&&", "(", "floo_req_unpack_generic", ".",
    "hdr", ".", "axi_ch", "==", "WideAr", ")", ";", "assign", "axi_valid_in", "[", "NarrowB", "]", "=",
    "ChimneyCfgN", ".", "EnMgrPort", "&&", "floo_rsp_in_valid", "&&", "(", "floo_rsp_unpack_generic", ".",
    "hdr", ".", "axi_ch", "==", "NarrowB", ")", ";", "assign", "axi_valid_in", "[", "NarrowR", "]", "=",
    "ChimneyCfgN", ".", "EnMgrPort", "&&", "floo_rsp_in_valid", "&&", "(", "floo_rsp_unpack_generic", ".",
    "hdr", ".", "axi_ch", "==", "NarrowR", ")", ";", "assign", "axi_valid_in", "[", "WideB", "]", "=",
    "ChimneyCfgW", ".", "EnMgrPort", "&&", "floo_rsp_in_valid", "&&", "(", "floo_rsp_unpack_generic", ".",
    "hdr", ".", "axi_ch", "==", "WideB", ")", ";", "assign", "axi_valid_in", "[", "WideAw", "]", "=",
    "floo_wide_in_valid", "&&", "(", "floo_wide_unpack_generic", ".", "hdr", ".", "axi_ch", "==", "WideAw",
    ")", ";", "assign", "axi_valid_in", "[", "WideW", "]", "=", "floo_wide_in_valid"
  ]

def pin_nwChimney_27 : List String := [
    "&&", "(", "floo_wide_unpack_generic", ".", "hdr", ".", "axi_ch", "==", "WideW", ")", ";", "assign",
    "axi_valid_in", "[", "WideR", "]", "=", "ChimneyCfgW", ".", "EnMgrPort", "&&", "floo_wide_in_valid",
    "&&", "(", "floo_wide_unpack_generic", ".", "hdr", ".", "axi_ch", "==", "WideR", ")", ";", "assign",
    "axi_ready_out", "[", "NarrowAw", "]", "=", "axi_narrow_meta_buf_rsp_out", ".", "aw_ready", ";",
    "assign", "axi_ready_out", "[", "NarrowW", "]", "=", "axi_narrow_meta_buf_rsp_out", ".", "w_ready", ";",
    "assign", "axi_ready_out", "[", "NarrowAr", "]", "=", "axi_narrow_meta_buf_rsp_out", ".", "ar_ready",
    ";", "assign", "axi_ready_out", "[", "NarrowB", "]", "=", "narrow_b_rob_ready_out", "||", "b_sel_atop",
    "&&", "axi_narrow_req_in", ".", "b_ready", ";", "assign", "axi_ready_out", "[", "NarrowR", "]", "=",
    "narrow_r_rob_ready_out", "||", "r_sel_atop", "&&", "axi_narrow_req_in", ".", "r_ready", ";", "assign",
    "axi_ready_out", "[", "WideAw", "]", "=", "axi_wide_meta_buf_rsp_out", ".", "aw_ready", ";", "assign",
    "axi_ready_out", "[", "WideW", "]", "=", "axi_wide_meta_buf_rsp_out", ".", "w_ready", ";", "assign",
    "axi_ready_out", "[", "WideAr", "]", "=", "axi_wide_meta_buf_rsp_out", ".", "ar_ready", ";", "assign",
    "axi_ready_out", "[", "WideB", "]", "=", "wide_b_rob_ready_out", ";", "assign", "axi_ready_out", "[",
    "WideR", "]", "=", "wide_r_rob_ready_out", ";", "assign", "floo_req_out_ready", "=", "axi_ready_out",
    "[", "floo_req_unpack_generic", ".", "hdr", ".", "axi_ch", "]", ";", "assign", "floo_rsp_out_ready", "=",
    "axi_ready_out", "[", "floo_rsp_unpack_generic", ".", "hdr", ".", "axi_ch", "]", ";", "assign",
    "floo_wide_out_ready", "=", "axi_ready_out", "[", "floo_wide_unpack_generic", ".", "hdr", ".", "axi_ch",
    "]", ";", "assign", "axi_narrow_meta_buf_req_in", "=", "'{", "aw", ":", "axi_narrow_unpack_aw", ",",
    "aw_valid", ":", "axi_valid_in", "[", "NarrowAw", "]", ",", "w", ":", "axi_narrow_unpack_w", ",",
    "w_valid", ":", "axi_valid_in", "[", "NarrowW", "]", ",", "b_ready"
  ]

def pin_nwChimney_28 : List String := [
    ":", "floo_rsp_arb_gnt_out", "[", "NarrowB", "]", ",", "ar", ":", "axi_narrow_unpack_ar", ",",
    "ar_valid", ":", "axi_valid_in", "[", "NarrowAr", "]", ",", "r_ready", ":", "floo_rsp_arb_gnt_out", "[",
    "NarrowR", "]", "}", ";", "assign", "axi_wide_meta_buf_req_in", "=", "'{", "aw", ":",
    "axi_wide_unpack_aw", ",", "aw_valid", ":", "axi_valid_in", "[", "WideAw", "]", ",", "w", ":",
    "axi_wide_unpack_w", ",", "w_valid", ":", "axi_valid_in", "[", "WideW", "]", ",", "b_ready", ":",
    "floo_rsp_arb_gnt_out", "[", "WideB", "]", ",", "ar", ":", "axi_wide_unpack_ar", ",", "ar_valid", ":",
    "axi_valid_in", "[", "WideAr", "]", ",", "r_ready", ":", "floo_wide_arb_gnt_out", "[", "WideR", "]", "}",
    ";", "assign", "narrow_b_rob_valid_in", "=", "axi_valid_in", "[", "NarrowB", "]", "&&", "!",
    "is_atop_b_rsp", ";", "assign", "narrow_r_rob_valid_in", "=", "axi_valid_in", "[", "NarrowR", "]", "&&",
    "!", "is_atop_r_rsp", ";", "assign", "axi_narrow_rsp_out", ".", "b_valid", "=", "narrow_b_rob_valid_out",
    "||", "is_atop_b_rsp", ";", "assign", "axi_narrow_rsp_out", ".", "r_valid", "=",
    "narrow_r_rob_valid_out", "||", "is_atop_r_rsp", ";", "assign", "narrow_b_rob_ready_in", "=",
    "axi_narrow_req_in", ".", "b_ready", "&&", "!", "b_sel_atop", ";", "assign", "narrow_r_rob_ready_in",
    "=", "axi_narrow_req_in", ".", "r_ready", "&&", "!", "r_sel_atop", ";", "assign", "wide_b_rob_valid_in",
    "=", "axi_valid_in", "[", "WideB", "]", ";", "assign", "wide_r_rob_valid_in", "=", "axi_valid_in", "[",
    "WideR", "]", ";", "assign", "axi_wide_rsp_out", ".", "b_valid", "=", "wide_b_rob_valid_out", ";",
    "assign", "axi_wide_rsp_out", ".", "r_valid", "=", "wide_r_rob_valid_out", ";", "assign",
    "wide_b_rob_ready_in", "=", "axi_wide_req_in", ".", "b_ready", ";", "assign", "wide_r_rob_ready_in", "=",
    "axi_wide_req_in", ".", "r_ready", ";", "assign", "axi_narrow_b_rob_in", "=", "axi_narrow_unpack_b", ";",
    "assign", "axi_narrow_r_rob_in", "=", "axi_narrow_unpack_r", ";", "assign", "axi_narrow_rsp_out", ".",
    "b", "=", "(", "b_sel_atop", ")", "?"
  ]

def pin_nwChimney_29 : List String := [
    "axi_narrow_unpack_b", ":", "axi_narrow_b_rob_out", ";", "assign", "axi_narrow_rsp_out", ".", "r", "=",
    "(", "r_sel_atop", ")", "?", "axi_narrow_unpack_r", ":", "axi_narrow_r_rob_out", ";", "assign",
    "axi_wide_b_rob_in", "=", "axi_wide_unpack_b", ";", "assign", "axi_wide_r_rob_in", "=",
    "axi_wide_unpack_r", ";", "assign", "axi_wide_rsp_out", ".", "b", "=", "axi_wide_b_rob_out", ";",
    "assign", "axi_wide_rsp_out", ".", "r", "=", "axi_wide_r_rob_out", ";", "logic", "is_atop", ",",
    "atop_has_r_rsp", ";", "assign", "is_atop", "=", "AtopSupport", "&&", "axi_valid_in", "[", "NarrowAw",
    "]", "&&", "(", "axi_narrow_unpack_aw", ".", "atop", "!=", "axi_pkg", "::", "ATOP_NONE", ")", ";",
    "assign", "atop_has_r_rsp", "=", "AtopSupport", "&&", "axi_valid_in", "[", "NarrowAw", "]", "&&",
    "axi_narrow_unpack_aw", ".", "atop", "[", "axi_pkg", "::", "ATOP_R_RESP", "]", ";", "assign",
    "narrow_aw_buf_hdr_in", "=", "'{", "id", ":", "axi_narrow_unpack_aw", ".", "id", ",", "hdr", ":",
    "floo_req_unpack_generic", ".", "hdr", "}", ";", "assign", "narrow_ar_buf_hdr_in", "=", "'{", "id", ":",
    "(", "is_atop", "&&", "atop_has_r_rsp", ")", "?", "axi_narrow_unpack_aw", ".", "id", ":",
    "axi_narrow_unpack_ar", ".", "id", ",", "hdr", ":", "floo_req_unpack_generic", ".", "hdr", "}", ";",
    "assign", "wide_aw_buf_hdr_in", "=", "'{", "id", ":", "axi_wide_unpack_aw", ".", "id", ",", "hdr", ":",
    "floo_wide_unpack_generic", ".", "hdr", "}", ";", "assign", "wide_ar_buf_hdr_in", "=", "'{", "id", ":",
    "axi_wide_unpack_ar", ".", "id", ",", "hdr", ":", "floo_req_unpack_generic", ".", "hdr", "}", ";", "if",
    "(", "ChimneyCfgN", ".", "EnSbrPort", ")", "begin", ":", "gen_narrow_mgr_port", "floo_meta_buffer", "#",
    "(", ".", "InIdWidth", "(", "AxiCfgN", ".", "InIdWidth", ")", ",", ".", "OutIdWidth", "(", "AxiCfgN",
    ".", "OutIdWidth", ")", ",", ".", "MaxTxns", "(", "ChimneyCfgN", ".", "MaxTxns", ")", ",", "."
  ]

def pin_nwChimney_30 : List String := [
    "MaxUniqueIds", "(", "ChimneyCfgN", ".", "MaxUniqueIds", ")", ",", ".", "AtopSupport", "(",
    "AtopSupport", ")", ",", ".", "MaxAtomicTxns", "(", "MaxAtomicTxns", ")", ",", ".", "buf_t", "(",
    "narrow_meta_buf_t", ")", ",", ".", "axi_in_req_t", "(", "axi_narrow_in_req_t", ")", ",", ".",
    "axi_in_rsp_t", "(", "axi_narrow_in_rsp_t", ")", ",", ".", "axi_out_req_t", "(", "axi_narrow_out_req_t",
    ")", ",", ".", "axi_out_rsp_t", "(", "axi_narrow_out_rsp_t", ")", ")", "i_narrow_meta_buffer", "(", ".",
    "clk_i", ",", ".", "rst_ni", ",", ".", "test_enable_i", ",", ".", "axi_req_i", "(",
    "axi_narrow_meta_buf_req_in", ")", ",", ".", "axi_rsp_o", "(", "axi_narrow_meta_buf_rsp_out", ")", ",",
    ".", "axi_req_o", "(", "axi_narrow_meta_buf_req_out", ")", ",", ".", "axi_rsp_i", "(",
    "axi_narrow_meta_buf_rsp_in", ")", ",", ".", "aw_buf_i", "(", "narrow_aw_buf_hdr_in", ")", ",", ".",
    "ar_buf_i", "(", "narrow_ar_buf_hdr_in", ")", ",", ".", "r_buf_o", "(", "narrow_ar_buf_hdr_out", ")",
    ",", ".", "b_buf_o", "(", "narrow_aw_buf_hdr_out", ")", ")", ";", "end", "else", "begin", ":",
    "gen_no_narrow_mgr_port", "axi_err_slv", "#", "(", ".", "AxiIdWidth", "(", "AxiCfgN", ".", "InIdWidth",
    ")", ",", ".", "ATOPs", "(", "AtopSupport", ")", ",", ".", "axi_req_t", "(", "axi_narrow_req_t", ")",
    ",", ".", "axi_resp_t", "(", "axi_narrow_rsp_t", ")", ")", "i_axi_err_slv", "(", ".", "clk_i", "(",
    "clk_i", ")", ",", ".", "rst_ni", "(", "rst_ni", ")", ",", ".", "test_i", "(", "test_enable_i", ")", ",",
    ".", "slv_req_i", "(", "axi_narrow_meta_buf_req_in", ")", ",", ".", "slv_resp_o", "(",
    "axi_narrow_meta_buf_rsp_out", ")", ")", ";", "assign", "axi_narrow_meta_buf_req_out", "=", "'0", ";",
    "assign", "narrow_ar_buf_hdr_out", "=", "'0", ";", "assign", "narrow_aw_buf_hdr_out", "=", "'0", ";",
    "end", "if", "(", "ChimneyCfgW", ".", "EnSbrPort", ")", "begin", ":"
  ]

def pin_nwChimney_31 : List String := [
    "gen_wide_mgr_port", "floo_meta_buffer", "#", "(", ".", "InIdWidth", "(", "AxiCfgW", ".", "InIdWidth",
    ")", ",", ".", "OutIdWidth", "(", "AxiCfgW", ".", "OutIdWidth", ")", ",", ".", "MaxTxns", "(",
    "ChimneyCfgW", ".", "MaxTxns", ")", ",", ".", "MaxUniqueIds", "(", "ChimneyCfgW", ".", "MaxUniqueIds",
    ")", ",", ".", "AtopSupport", "(", "1'b0", ")", ",", ".", "MaxAtomicTxns", "(", "'0", ")", ",", ".",
    "buf_t", "(", "wide_meta_buf_t", ")", ",", ".", "axi_in_req_t", "(", "axi_wide_in_req_t", ")", ",", ".",
    "axi_in_rsp_t", "(", "axi_wide_in_rsp_t", ")", ",", ".", "axi_out_req_t", "(", "axi_wide_out_req_t", ")",
    ",", ".", "axi_out_rsp_t", "(", "axi_wide_out_rsp_t", ")", ")", "i_wide_meta_buffer", "(", ".", "clk_i",
    ",", ".", "rst_ni", ",", ".", "test_enable_i", ",", ".", "axi_req_i", "(", "axi_wide_meta_buf_req_in",
    ")", ",", ".", "axi_rsp_o", "(", "axi_wide_meta_buf_rsp_out", ")", ",", ".", "axi_req_o", "(",
    "axi_wide_meta_buf_req_out", ")", ",", ".", "axi_rsp_i", "(", "axi_wide_meta_buf_rsp_in", ")", ",", ".",
    "aw_buf_i", "(", "wide_aw_buf_hdr_in", ")", ",", ".", "ar_buf_i", "(", "wide_ar_buf_hdr_in", ")", ",",
    ".", "r_buf_o", "(", "wide_ar_buf_hdr_out", ")", ",", ".", "b_buf_o", "(", "wide_aw_buf_hdr_out", ")",
    ")", ";", "end", "else", "begin", ":", "gen_no_wide_mgr_port", "axi_err_slv", "#", "(", ".",
    "AxiIdWidth", "(", "AxiCfgW", ".", "InIdWidth", ")", ",", ".", "ATOPs", "(", "1'b1", ")", ",", ".",
    "axi_req_t", "(", "axi_wide_in_req_t", ")", ",", ".", "axi_resp_t", "(", "axi_wide_in_rsp_t", ")", ")",
    "i_axi_err_slv", "(", ".", "clk_i", "(", "clk_i", ")", ",", ".", "rst_ni", "(", "rst_ni", ")", ",", ".",
    "test_i", "(", "test_enable_i", ")", ",", ".", "slv_req_i", "(", "axi_wide_meta_buf_req_in", ")", ",",
    ".", "slv_resp_o"
  ]

def pin_nwChimney_32 : List String := [
    "(", "axi_wide_meta_buf_rsp_out", ")", ")", ";", "assign", "axi_wide_meta_buf_req_out", "=", "'0", ";",
    "assign", "wide_ar_buf_hdr_out", "=", "'0", ";", "assign", "wide_aw_buf_hdr_out", "=", "'0", ";", "end",
    "`FF", "(", "b_rob_pending_q", ",", "narrow_b_rob_valid_out", "&&", "!", "narrow_b_rob_ready_in", "&&",
    "!", "is_atop_b_rsp", ",", "'0", ")", "`FF", "(", "r_rob_pending_q", ",", "narrow_r_rob_valid_out", "&&",
    "!", "narrow_r_rob_ready_in", "&&", "!", "is_atop_r_rsp", ",", "'0", ")", "`ASSERT_INIT", "(",
    "AddrWidthMatch", ",", "AxiCfgN", ".", "AddrWidth", "==", "AxiCfgW", ".", "AddrWidth", ")",
    "`ASSERT_INIT", "(", "CutRspMatch", ",", "ChimneyCfgN", ".", "CutRsp", "==", "ChimneyCfgW", ".",
    "CutRsp", ")", "`ASSERT_INIT", "(", "ToSmallIdWidth", ",", "1", "+", "AtopSupport", "*", "MaxAtomicTxns",
    "<=", "2", "*", "*", "AxiCfgN", ".", "OutIdWidth", ")", "`ASSERT_INIT", "(", "NoNarrowMgrPortRobType",
    ",", "ChimneyCfgN", ".", "EnMgrPort", "||", "(", "ChimneyCfgN", ".", "BRoBType", "==", "floo_pkg", "::",
    "NoRoB", "&&", "ChimneyCfgN", ".", "RRoBType", "==", "floo_pkg", "::", "NoRoB", ")", ")", "`ASSERT_INIT",
    "(", "NoWideMgrPortRobType", ",", "ChimneyCfgW", ".", "EnMgrPort", "||", "(", "ChimneyCfgW", ".",
    "BRoBType", "==", "floo_pkg", "::", "NoRoB", "&&", "ChimneyCfgW", ".", "RRoBType", "==", "floo_pkg",
    "::", "NoRoB", ")", ")", "`ASSERT", "(", "NarrowReqOutStableValid", ",", "floo_req_o", ".", "valid",
    "&&", "!", "floo_req_i", ".", "ready", "|", "=", ">", "floo_req_o", ".", "valid", ")", "`ASSERT", "(",
    "NarrowReqInStableValid", ",", "floo_req_i", ".", "valid", "&&", "!", "floo_req_o", ".", "ready", "|",
    "=", ">", "floo_req_i", ".", "valid", ")", "`ASSERT", "(", "NarrowRspOutStableValid", ",", "floo_rsp_o",
    ".", "valid", "&&", "!", "floo_rsp_i", ".", "ready", "|", "=", ">", "floo_rsp_o", ".", "valid", ")",
    "`ASSERT"
  ]

def pin_nwChimney_33 : List String := [
    "(", "NarrowRspInStableValid", ",", "floo_rsp_i", ".", "valid", "&&", "!", "floo_rsp_o", ".", "ready",
    "|", "=", ">", "floo_rsp_i", ".", "valid", ")", "`ASSERT", "(", "WideOutStableValid", ",", "floo_wide_o",
    ".", "valid", "&&", "!", "floo_wide_i", ".", "ready", "|", "=", ">", "floo_wide_o", ".", "valid", ")",
    "`ASSERT", "(", "WideStableValid", ",", "floo_wide_i", ".", "valid", "&&", "!", "floo_wide_o", ".",
    "ready", "|", "=", ">", "floo_wide_i", ".", "valid", ")", "`ASSERT", "(", "NoNarrowMgrPortBResponse",
    ",", "ChimneyCfgN", ".", "EnMgrPort", "||", "!", "(", "floo_rsp_in_valid", "&&", "(",
    "floo_rsp_unpack_generic", ".", "hdr", ".", "axi_ch", "==", "NarrowB", ")", ")", ")", "`ASSERT", "(",
    "NoNarrowMgrPortRResponse", ",", "ChimneyCfgN", ".", "EnMgrPort", "||", "!", "(", "floo_rsp_in_valid",
    "&&", "(", "floo_rsp_unpack_generic", ".", "hdr", ".", "axi_ch", "==", "NarrowR", ")", ")", ")",
    "`ASSERT", "(", "NoWideMgrPortBResponse", ",", "ChimneyCfgW", ".", "EnMgrPort", "||", "!", "(",
    "floo_rsp_in_valid", "&&", "(", "floo_rsp_unpack_generic", ".", "hdr", ".", "axi_ch", "==", "WideB", ")",
    ")", ")", "`ASSERT", "(", "NoWideMgrPortRResponse", ",", "ChimneyCfgW", ".", "EnMgrPort", "||", "!", "(",
    "floo_wide_in_valid", "&&", "(", "floo_wide_unpack_generic", ".", "hdr", ".", "axi_ch", "==", "WideR",
    ")", ")", ")", "`ASSERT", "(", "NoNarrowSbrPortAwRequest", ",", "ChimneyCfgN", ".", "EnSbrPort", "||",
    "!", "(", "floo_req_in_valid", "&&", "(", "floo_req_unpack_generic", ".", "hdr", ".", "axi_ch", "==",
    "NarrowAw", ")", ")", ")", "`ASSERT", "(", "NoNarrowSbrPortArRequest", ",", "ChimneyCfgN", ".",
    "EnSbrPort", "||", "!", "(", "floo_req_in_valid", "&&", "(", "floo_req_unpack_generic", ".", "hdr", ".",
    "axi_ch", "==", "NarrowAr", ")", ")", ")", "`ASSERT", "(", "NoNarrowSbrPortWRequest", ",", "ChimneyCfgN",
    "."
  ]

def pin_nwChimney_34 : List String := [
    "EnSbrPort", "||", "!", "(", "floo_req_in_valid", "&&", "(", "floo_req_unpack_generic", ".", "hdr", ".",
    "axi_ch", "==", "NarrowW", ")", ")", ")", "`ASSERT", "(", "NoWideSbrPortAwRequest", ",", "ChimneyCfgW",
    ".", "EnSbrPort", "||", "!", "(", "floo_req_in_valid", "&&", "(", "floo_req_unpack_generic", ".", "hdr",
    ".", "axi_ch", "==", "WideAw", ")", ")", ")", "`ASSERT", "(", "NoWideSbrPortArRequest", ",",
    "ChimneyCfgW", ".", "EnSbrPort", "||", "!", "(", "floo_req_in_valid", "&&", "(",
    "floo_req_unpack_generic", ".", "hdr", ".", "axi_ch", "==", "WideAr", ")", ")", ")", "`ASSERT", "(",
    "NoWideSbrPortWRequest", ",", "ChimneyCfgW", ".", "EnSbrPort", "||", "!", "(", "floo_wide_in_valid",
    "&&", "(", "floo_wide_unpack_generic", ".", "hdr", ".", "axi_ch", "==", "WideW", ")", ")", ")",
    "endmodule"
  ]

def pin_nwChimney : List String := pin_nwChimney_0 ++ pin_nwChimney_1 ++ pin_nwChimney_2 ++ pin_nwChimney_3 ++ pin_nwChimney_4 ++ pin_nwChimney_5 ++ pin_nwChimney_6 ++ pin_nwChimney_7 ++ pin_nwChimney_8 ++ pin_nwChimney_9 ++ pin_nwChimney_10 ++ pin_nwChimney_11 ++ pin_nwChimney_12 ++ pin_nwChimney_13 ++ pin_nwChimney_14 ++ pin_nwChimney_15 ++ pin_nwChimney_16 ++ pin_nwChimney_17 ++ pin_nwChimney_18 ++ pin_nwChimney_19 ++ pin_nwChimney_20 ++ pin_nwChimney_21 ++ pin_nwChimney_22 ++ pin_nwChimney_23 ++ pin_nwChimney_24 ++ pin_nwChimney_25 ++ pin_nwChimney_26 ++ pin_nwChimney_27 ++ pin_nwChimney_28 ++ pin_nwChimney_29 ++ pin_nwChimney_30 ++ pin_nwChimney_31 ++ pin_nwChimney_32 ++ pin_nwChimney_33 ++ pin_nwChimney_34


set_option maxRecDepth 400000 in
/-- the tokens of this part of the working tree's RTL are the pinned ones -/
theorem nwChimney_pinned : rtlFacts.nwChimney = pin_nwChimney := by
  decide +kernel

end FlooVerif.HwTie

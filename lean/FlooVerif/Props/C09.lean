/-
  C09 — the channel-dependency graph of the emitted routes is acyclic.
  The decider accepts only when it holds a rank that strictly increases along every dependency;
  this file proves that such a rank excludes every cycle, for graphs of any size.
-/
import FlooVerif.Check2
import FlooVerif.Lemmas.Paths
namespace FlooVerif.C09
open FlooVerif

/-- the dependency relation of a list of consecutive-channel pairs -/
def depRel (deps : List (Chan × Chan)) (a b : Chan) : Prop := (a, b) ∈ deps

/-- **a valid rank certificate proves the dependency graph acyclic** -/
theorem acyclic_of_rankValid (rk : List (Chan × Nat)) (deps : List (Chan × Chan))
    (h : rankValid rk deps = true) : Acyclic (depRel deps) := by
  apply acyclic_of_rank (depRel deps) (fun c => (rankOf rk c).getD 0)
  intro a b hab
  unfold rankValid at h
  have := List.all_eq_true.1 h (a, b) hab
  simp only at this
  cases ha : rankOf rk a with
  | none => rw [ha] at this; simp at this
  | some ra =>
    cases hb : rankOf rk b with
    | none => rw [ha, hb] at this; simp at this
    | some rb => rw [ha, hb] at this; simpa using this

/-- **C09 on one explored output**: if the decider accepts, no cycle of channels exists among the
    dependencies induced by all routes of that fabric -/
theorem acyclic_of_certOk (d : Desc) (n : Net) (f : Hw.Fabric) (h : certOk d n f = true) :
    Acyclic (depRel (deps d n f)) :=
  acyclic_of_rankValid _ _ h

/-- a negative verdict needs a real cycle: a closed walk is incompatible with any valid rank -/
theorem no_rank_of_cycle (deps : List (Chan × Chan)) (c : Chan) (hc : Reach (depRel deps) c c) :
    ∀ rk, rankValid rk deps = false := by
  intro rk
  cases h : rankValid rk deps with
  | false => rfl
  | true => exact absurd hc (acyclic_of_rankValid rk deps h c)

/-! non-vacuity: a two-dependency chain has a valid rank; a two-cycle has none -/
example : rankValid [(("a", 0), 0), (("b", 1), 1), (("c", 0), 2)]
    [((("a", 0) : Chan), (("b", 1) : Chan)), (("b", 1), ("c", 0))] = true := by decide
example : Reach (depRel [((("a", 0) : Chan), (("b", 1) : Chan)), (("b", 1), ("a", 0))]) ("a", 0) ("a", 0) :=
  .step (b := ("b", 1)) (by simp [depRel]) (.single (by simp [depRel]))

end FlooVerif.C09

/-
  C06 (generator side) — a router tree gets exactly parent–child links: every router the tree
  constructor creates below the root level is linked, in both directions and without a port
  direction, to the node whose name it extends by one index; for every tree shape.
-/
import FlooVerif.Props.C04U
namespace FlooVerif.C06T
open FlooVerif Model Model.Graph C05G C04U

/-- an undirected link edge from `a` to `b` -/
def HasLinkU (g : Graph) (a b : String) : Prop :=
  ∃ e ∈ g.edges, e.src = a ∧ e.dst = b ∧ e.kind = .link ∧ e.srcDir = none ∧ e.dstDir = none

theorem hasLinkU_mono {g g' : Graph} (h : EdgesGrow g g') {a b : String} (hl : HasLinkU g a b) :
    HasLinkU g' a b := by
  obtain ⟨e, he, rest⟩ := hl; exact ⟨e, eg_mem h he, rest⟩

/-- a node below the root level hangs on its parent -/
def Child (g : Graph) (nd : Node) : Prop :=
  ∀ l, nd.lvl = some l → 0 < l →
    ∃ (p : String) (i : Nat), nd.name = p ++ "_" ++ toString i ∧ HasLinkU g p nd.name ∧ HasLinkU g nd.name p

structure Ext (g g' : Graph) : Prop where
  nodes : ∃ ns, g'.nodes = g.nodes ++ ns ∧ ∀ nd ∈ ns, Child g' nd
  edges : EdgesGrow g g'

theorem ext_refl (g : Graph) : Ext g g := ⟨⟨[], by simp, by simp⟩, eg_refl g⟩

theorem child_mono {g g' : Graph} (h : EdgesGrow g g') {nd : Node} (hc : Child g nd) : Child g' nd := by
  intro l hl hpos
  obtain ⟨p, i, hn, h1, h2⟩ := hc l hl hpos
  exact ⟨p, i, hn, hasLinkU_mono h h1, hasLinkU_mono h h2⟩

theorem ext_trans {a b c : Graph} (h1 : Ext a b) (h2 : Ext b c) : Ext a c := by
  obtain ⟨⟨n1, e1, c1⟩, g1⟩ := h1
  obtain ⟨⟨n2, e2, c2⟩, g2⟩ := h2
  refine ⟨⟨n1 ++ n2, by rw [e2, e1, List.append_assoc], ?_⟩, eg_trans g1 g2⟩
  intro nd hnd
  rcases List.mem_append.1 hnd with h | h
  · exact child_mono g2 (c1 nd h)
  · exact c2 nd h

/-- **the tree constructor links every node below the root level to its parent** -/
theorem tree_ext (tree : List Nat) (k : Nat) :
    ∀ (fuel : Nat) (g g' : Graph) (parent : String) (lvl : Nat),
      g.addNodesAsTree parent tree k true fuel lvl = .ok g' → Ext g g' := by
  intro fuel
  induction fuel with
  | zero => intro g g' parent lvl h; unfold Graph.addNodesAsTree at h; rw [← pure_ok h]; exact ext_refl g
  | succ fuel ih =>
    intro g g' parent lvl h
    unfold Graph.addNodesAsTree at h
    by_cases hl : (lvl == tree.length) = true
    · rw [if_pos hl] at h; rw [← pure_ok h]; exact ext_refl g
    rw [if_neg hl] at h
    refine foldlM_inv (fun gc => Ext g gc) _ ?_ _ g g' (ext_refl g) h
    intro gc i gd hgc hstep
    refine ext_trans hgc ?_
    obtain ⟨g1, h1, h2⟩ := bind_ok hstep
    obtain ⟨_, hg1⟩ := addNode_ok h1
    by_cases hc : (true && decide (lvl > 0)) = true
    · simp only [hc, if_true] at h2
      obtain ⟨g2, h3, h4⟩ := bind_ok h2
      obtain ⟨g3, h5, h6⟩ := bind_ok h4
      obtain ⟨e3, m3⟩ := eg_addEdge h3
      obtain ⟨e5, m5⟩ := eg_addEdge h5
      have hrec := ih g3 gd _ _ h6
      refine ext_trans ?_ hrec
      obtain ⟨_, _, hg2⟩ := addEdge_ok h3
      obtain ⟨_, _, hg3⟩ := addEdge_ok h5
      refine ⟨⟨[_], by rw [hg3, hg2, hg1], ?_⟩, eg_trans (eg_addNode h1) (eg_trans e3 e5)⟩
      intro nd hnd l _ _
      simp only [List.mem_singleton] at hnd; subst hnd
      exact ⟨parent, i, rfl, ⟨_, eg_mem e5 m3, rfl, rfl, rfl, rfl, rfl⟩, ⟨_, m5, rfl, rfl, rfl, rfl, rfl⟩⟩
    · simp only [hc, if_false, pure_bind, Bool.false_eq_true] at h2
      have hrec := ih g1 gd _ _ h2
      refine ext_trans ?_ hrec
      refine ⟨⟨[_], by rw [hg1], ?_⟩, eg_addNode h1⟩
      intro nd hnd l hlv hpos
      simp only [List.mem_singleton] at hnd; subst hnd
      simp only [Option.some.injEq] at hlv
      subst hlv
      simp [hpos] at hc

end FlooVerif.C06T

/-
  C11 — generated code binds only what the shipped RTL and macros offer.  Instance theorems over
  the facts regenerated from hw/*.sv, floo_pkg.sv, typedef.svh and floogen/model/routing.py on every
  run: if a port, parameter, macro, record field or enum member is renamed or removed in the RTL,
  these no longer build.
-/
import FlooVerif.Check4
import FlooVerif.Gen.HwFacts
import FlooVerif.Gen.PyFacts
namespace FlooVerif.C11
open FlooVerif

/-- every module, parameter and port the templates bind exists, and every input is bound -/
theorem hw_offers_bindings : hwOffers Gen.hwFacts = true := by decide +kernel

/-- every macro the package template invokes exists with that number of arguments -/
theorem hw_offers_macros : hwMacros Gen.hwFacts = true := by decide +kernel

/-- floo_pkg declares the record fields, helper and enum members the generator uses, and the
    generator's compass numbering and unit vectors equal the hardware's -/
theorem pkg_names_and_directions : hwPkgNames Gen.hwFacts Gen.pyFacts = true := by decide +kernel

/-- what membership in the table means, spelled out (so the `decide`d Boolean is not opaque) -/
theorem hwOffers_spec (hw : HwFacts) (h : hwOffers hw = true) :
    ∀ u ∈ templateUses, ∃ m ∈ hw.modules, m.name = u.mod ∧ (∀ p ∈ u.params, p ∈ m.params) ∧
      (∀ p ∈ u.ports, ∃ mp ∈ m.ports, mp.name = p) ∧
      (∀ mp ∈ m.ports, mp.dir = "input" → mp.name ∈ u.ports) := by
  intro u hu
  unfold hwOffers at h
  have := List.all_eq_true.1 h u hu
  cases hf : hw.modules.find? (·.name == u.mod) with
  | none => simp [hf] at this
  | some m =>
    simp only [hf, Bool.and_eq_true, List.all_eq_true, List.any_eq_true] at this
    obtain ⟨⟨h1, h2⟩, h3⟩ := this
    refine ⟨m, List.mem_of_find?_eq_some hf, by simpa using List.find?_some hf, ?_, ?_, ?_⟩
    · intro p hp; simpa using h1 p hp
    · intro p hp; obtain ⟨mp, hmp, he⟩ := h2 p hp; exact ⟨mp, hmp, by simpa using he⟩
    · intro mp hmp hd
      have := h3 mp hmp
      simp only [Bool.or_eq_true, bne_iff_ne, ne_eq] at this
      rcases this with h | h
      · exact absurd hd h
      · simpa using h

end FlooVerif.C11

/-
  C07 (generator level) — identities under ID / source routing equal the enumeration value, are
  dense 0..N-1 in endpoint node order, and fit clog2(N) bits; for every graph, whatever its size.
-/
import FlooVerif.Model.Compile
import FlooVerif.Props.C03
namespace FlooVerif.C07U
open FlooVerif Model

/-- under ID and SRC the routing identity of every node is its unique id (enumeration value) -/
theorem id_eq_uid (d : Desc) (g : Graph) (ids : Ids) (halgo : d.algo = .ID ∨ d.algo = .SRC)
    (h : compileIds d g = .ok ids) :
    ids.id = ids.uid.map fun (n, k) => (n, IdVal.simple k) := by
  unfold compileIds at h
  rcases halgo with ha | ha <;> rw [ha] at h <;> simp only [pure, Except.pure] at h <;>
    · cases h; rfl

theorem idOf_eq (d : Desc) (g : Graph) (ids : Ids) (halgo : d.algo = .ID ∨ d.algo = .SRC)
    (h : compileIds d g = .ok ids) (n : String) :
    ids.idOf n = (ids.uidOf n).map IdVal.simple := by
  unfold Ids.idOf Ids.uidOf
  rw [id_eq_uid d g ids halgo h]
  induction ids.uid with
  | nil => rfl
  | cons x xs ih =>
    obtain ⟨m, k⟩ := x
    simp only [List.map_cons, List.find?_cons]
    by_cases hm : (m == n) = true
    · simp [hm]
    · simp only [hm]; exact ih

private theorem dense_aux (f : Node → String) (g' : Node → String) :
    ∀ (eps : List Node) (s : Nat),
      (((eps.zipIdx s).flatMap fun (x : Node × Nat) => [(f x.1, x.2), (g' x.1, x.2)]).map (·.2)) =
      (List.range' s eps.length).flatMap fun k => [k, k] := by
  intro eps
  induction eps with
  | nil => intro s; simp
  | cons x xs ih =>
    intro s
    simp only [List.zipIdx_cons, List.flatMap_cons, List.map_append, List.map_cons, List.map_nil,
      List.length_cons, List.range'_succ, List.cons_append, List.nil_append]
    rw [ih (s + 1)]

/-- the unique ids handed out are 0, 0, 1, 1, …: endpoint node k and its interface both get k -/
theorem uids_dense (d : Desc) (g : Graph) (ids : Ids) (halgo : d.algo = .ID ∨ d.algo = .SRC)
    (h : compileIds d g = .ok ids) :
    ids.uid.map (·.2) = (List.range (g.nodesOfKind .endpoint).length).flatMap fun k => [k, k] := by
  unfold compileIds at h
  rcases halgo with ha | ha <;> rw [ha] at h <;> simp only [pure, Except.pure] at h <;>
    · cases h
      simp only
      rw [List.range_eq_range']
      exact dense_aux (fun nd => nd.name) (fun nd => epNiName d nd) _ 0

/-- every identity k < N fits the emitted `id_t` of clog2(N) bits -/
theorem id_fits (N k : Nat) (h : k < N) : k < 2 ^ Hw.clog2 N := C03.port_fits N k h

end FlooVerif.C07U

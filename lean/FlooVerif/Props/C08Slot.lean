import FlooVerif.Model.Emit
import FlooVerif.Props.C05Full
import FlooVerif.Props.C17
import Mathlib.Data.List.Forall2
namespace FlooVerif.C08S
open FlooVerif Model

/-- what `compileNi` leaves in a network interface -/
theorem compileNi_spec (d : Desc) (g : Graph) (ids : Ids) (nd : Node) (ni : NI) (h : compileNi d g ids nd = .ok ni) :
    ni.name = nd.name ∧ ni.epIdx = nd.descIdx ∧ ni.arrIdx = nd.arrIdx ∧
    ∃ base, baseRanges (d.endpoints.getD nd.descIdx default) = .ok base ∧
      niRanges (d.endpoints.getD nd.descIdx default) nd.arrIdx base = .ok ni.ranges := by
  unfold compileNi at h
  simp only [bind, Except.bind] at h
  split at h
  · cases h
  rename_i base hb
  split at h
  rotate_left
  · cases h
  split at h
  rotate_left
  · cases h
  split at h
  · cases h
  rename_i rs hr
  split at h
  rotate_left
  · cases h
  split at h
  rotate_left
  · cases h
  cases h
  exact ⟨rfl, rfl, rfl, base, hb, hr⟩

/-- `mapM` relates input and output element by element -/
theorem mapM_forall₂ {α β ε : Type} (f : α → Except ε β) :
    ∀ (l : List α) (res : List β), l.mapM f = .ok res → List.Forall₂ (fun x y => f x = .ok y) l res := by
  intro l
  induction l with
  | nil => intro res h; simp [pure, Except.pure] at h; subst h; exact .nil
  | cons x xs ih =>
    intro res h
    rw [List.mapM_cons] at h
    cases hx : f x with
    | error e => rw [hx] at h; cases h
    | ok v =>
      rw [hx] at h
      cases hm : xs.mapM f with
      | error e => rw [hm] at h; cases h
      | ok vs =>
        rw [hm] at h; cases h
        exact .cons hx (ih vs hm)

/-- **every network interface of an accepted description carries the ranges of its own array position**:
    the interface built for node `nd` keeps the node's array index (the one its port element is bound by,
    `portElem … ep.array ni.arrIdx` in `Model/Emit.lean`) and its ranges are `niRanges` of that same index -/
theorem ni_slot (d : Desc) (g : Graph) (ids : Ids) (nis : List NI) (h : compileNis d g ids = .ok nis)
    (ni : NI) (hni : ni ∈ nis) :
    ∃ base, baseRanges (d.endpoints.getD ni.epIdx default) = .ok base ∧
      niRanges (d.endpoints.getD ni.epIdx default) ni.arrIdx base = .ok ni.ranges := by
  obtain ⟨nd, _, hf⟩ := C05U.mem_mapM_ok _ _ _ h ni hni
  obtain ⟨_, he, ha, base, hb, hr⟩ := compileNi_spec d g ids nd ni hf
  exact ⟨base, he ▸ hb, he ▸ ha ▸ hr⟩

/-- re-indexing a list of based ranges to slot `k`: range by range `[base + k·size, base + (k+1)·size)` -/
theorem reindex_windows (base rs : List AddrRange) (k : Int) (h : reindex base k = .ok rs) :
    List.Forall₂ (fun r r' => ∃ b, r.base = some b ∧ r'.start = b + k * r.size ∧ r'.stop = b + (k + 1) * r.size ∧
      r'.size = r.size) base rs := by
  unfold reindex at h
  refine List.Forall₂.imp ?_ (mapM_forall₂ _ _ _ h)
  intro r r' hr
  cases hb : r.base with
  | none =>
    rw [C17.setIdx_unbased r k hb] at hr
    cases hr
  | some b =>
    obtain ⟨r2, h2, hs, he, hz, _, _⟩ := C17.setIdx_spec r b k hb
    rw [h2] at hr
    cases hr
    exact ⟨b, rfl, hs, he, hz⟩

/-- **element [x][y] of an [m, n] subordinate array owns address slot x·n + y of every range** -/
theorem slot_2d (d : Desc) (g : Graph) (ids : Ids) (nis : List NI) (h : compileNis d g ids = .ok nis)
    (ni : NI) (hni : ni ∈ nis) (m n x y : Nat)
    (harr : (d.endpoints.getD ni.epIdx default).array = some [m, n]) (hidx : ni.arrIdx = some [x, y])
    (hs : (d.endpoints.getD ni.epIdx default).isSbr = true) :
    ∃ base, baseRanges (d.endpoints.getD ni.epIdx default) = .ok base ∧
      List.Forall₂ (fun r r' => ∃ b, r.base = some b ∧ r'.start = b + ((x * n + y : Nat) : Int) * r.size ∧
        r'.stop = b + (((x * n + y : Nat) : Int) + 1) * r.size ∧ r'.size = r.size) base ni.ranges := by
  obtain ⟨base, hb, hr⟩ := ni_slot d g ids nis h ni hni
  refine ⟨base, hb, ?_⟩
  unfold niRanges at hr
  rw [harr, hidx] at hr
  simp only [hs, if_true] at hr
  exact reindex_windows base ni.ranges _ hr

/-- … and element [i] of a 1-D subordinate array owns slot i -/
theorem slot_1d (d : Desc) (g : Graph) (ids : Ids) (nis : List NI) (h : compileNis d g ids = .ok nis)
    (ni : NI) (hni : ni ∈ nis) (m i : Nat)
    (harr : (d.endpoints.getD ni.epIdx default).array = some [m]) (hidx : ni.arrIdx = some [i])
    (hs : (d.endpoints.getD ni.epIdx default).isSbr = true) :
    ∃ base, baseRanges (d.endpoints.getD ni.epIdx default) = .ok base ∧
      List.Forall₂ (fun r r' => ∃ b, r.base = some b ∧ r'.start = b + (i : Int) * r.size ∧
        r'.stop = b + ((i : Int) + 1) * r.size ∧ r'.size = r.size) base ni.ranges := by
  obtain ⟨base, hb, hr⟩ := ni_slot d g ids nis h ni hni
  refine ⟨base, hb, ?_⟩
  unfold niRanges at hr
  rw [harr, hidx] at hr
  simp only [hs, if_true] at hr
  exact reindex_windows base ni.ranges _ hr

/-- a single endpoint keeps its ranges as written -/
theorem slot_single (d : Desc) (g : Graph) (ids : Ids) (nis : List NI) (h : compileNis d g ids = .ok nis)
    (ni : NI) (hni : ni ∈ nis) (harr : (d.endpoints.getD ni.epIdx default).array = none) :
    baseRanges (d.endpoints.getD ni.epIdx default) = .ok ni.ranges := by
  obtain ⟨base, hb, hr⟩ := ni_slot d g ids nis h ni hni
  unfold niRanges at hr
  rw [harr] at hr
  cases hr
  exact hb

end FlooVerif.C08S

/-
  Correctness of the bidirectional breadth-first search the model uses as `networkx.shortest_path`
  (a port of networkx 3.6.1 `_bidirectional_pred_succ`): on every graph whose edges join existing
  nodes it returns a path, that path is a shortest one, and it returns one whenever a path exists.
  This discharges the shortest-path contract (`C02U.SPContract`) that the delivery and minimality
  theorems of C02 / C14 assume of the path oracle, for the oracle the model actually runs.
-/
import FlooVerif.Lemmas.Walks
import FlooVerif.Model.Route
import FlooVerif.Props.C02U
namespace FlooVerif.Bfs
open FlooVerif Model Walks C02U

abbrev Assoc := List (String × Option String)

def keys (m : Assoc) : List String := m.map (·.1)

theorem assocHas_iff {m : Assoc} {k : String} : assocHas m k = true ↔ k ∈ keys m := by
  unfold assocHas keys
  simp only [List.any_eq_true, beq_iff_eq, List.mem_map]

theorem assocHas_false_iff {m : Assoc} {k : String} : assocHas m k = false ↔ k ∉ keys m := by
  rw [← assocHas_iff]; cases assocHas m k <;> simp

@[simp] theorem keys_append (a b : Assoc) : keys (a ++ b) = keys a ++ keys b := by simp [keys]
@[simp] theorem keys_single (w : String) (p : Option String) : keys [(w, p)] = [w] := rfl

/-! ### one level of the search, for either direction -/

variable {E : String → String → Prop}

/-- the search tree of one side: every entry but the root points one step towards the root -/
structure TreeOK (E : String → String → Prop) (root : String) (m : Assoc) : Prop where
  nodup : (keys m).Nodup
  root_mem : (root, none) ∈ m
  none_root : ∀ w, (w, none) ∈ m → w = root
  parent : ∀ w v, (w, some v) ∈ m → v ∈ keys m ∧ E v w ∧ ∃ d, Dist E root v d ∧ Dist E root w (d + 1)

/-- between two levels: the tree holds exactly the ball of radius `k`, the fringe is its sphere -/
structure SideInv (E : String → String → Prop) (root : String) (m : Assoc) (k : Nat) (fr : List String) : Prop where
  tree : TreeOK E root m
  ball : ∀ x, x ∈ keys m ↔ ∃ d, d ≤ k ∧ Dist E root x d
  fringe : ∀ x, x ∈ fr ↔ Dist E root x k

/-- while level `k + 1` is being built on top of `m0` -/
structure Part (E : String → String → Prop) (root : String) (m0 : Assoc) (k : Nat) (own : Assoc) (fr : List String) : Prop where
  ext : ∃ add : Assoc, own = m0 ++ add ∧ keys add = fr ∧
    ∀ w p, (w, p) ∈ add → ∃ v, p = some v ∧ Dist E root v k ∧ E v w ∧ Dist E root w (k + 1)
  nodup : (keys own).Nodup

theorem part_start {root : String} {m0 : Assoc} {k : Nat} (h : (keys m0).Nodup) : Part E root m0 k m0 [] :=
  ⟨⟨[], by simp, rfl, by simp⟩, h⟩

theorem part_keys_mono {root : String} {m0 own : Assoc} {k : Nat} {fr : List String} (h : Part E root m0 k own fr) :
    ∀ x, x ∈ keys m0 → x ∈ keys own := by
  obtain ⟨add, rfl, _, _⟩ := h.ext
  intro x hx; simp [hx]

theorem part_keys {root : String} {m0 own : Assoc} {k : Nat} {fr : List String} (h : Part E root m0 k own fr) :
    keys own = keys m0 ++ fr := by
  obtain ⟨add, rfl, hk, _⟩ := h.ext
  simp [hk]

/-- entering one neighbour -/
theorem part_add {root : String} {m0 own : Assoc} {k : Nat} {fr : List String} {v w : String}
    (hball : ∀ x, x ∈ keys m0 ↔ ∃ d, d ≤ k ∧ Dist E root x d)
    (h : Part E root m0 k own fr) (hv : Dist E root v k) (e : E v w) (hnew : w ∉ keys own) :
    Part E root m0 k (own ++ [(w, some v)]) (fr ++ [w]) := by
  have hd : Dist E root w (k + 1) := by
    obtain ⟨d, hdle, hdist⟩ := dist_exists (k + 1) (walk_snoc hv.1 e)
    have hnot : ¬ d ≤ k := by
      intro hle
      exact hnew (part_keys_mono h w ((hball w).2 ⟨d, hle, hdist⟩))
    have : d = k + 1 := by omega
    rw [this] at hdist; exact hdist
  obtain ⟨add, hown, hk, hadd⟩ := h.ext
  refine ⟨⟨add ++ [(w, some v)], by rw [hown, List.append_assoc], by simp [hk], ?_⟩, ?_⟩
  · intro w' p hm
    rcases List.mem_append.1 hm with hm | hm
    · exact hadd w' p hm
    · simp only [List.mem_singleton, Prod.mk.injEq] at hm
      obtain ⟨rfl, rfl⟩ := hm
      exact ⟨v, rfl, hv, e, hd⟩
  · rw [keys_append, keys_single]
    exact List.nodup_append.2 ⟨h.nodup, by simp, by
      intro a ha b hb
      simp only [List.mem_singleton] at hb
      subst hb
      intro hab; subst hab; exact hnew ha⟩

/-- what `expandW` guarantees -/
theorem expandW_spec {root : String} {m0 other : Assoc} {k : Nat} {v : String}
    (hball : ∀ x, x ∈ keys m0 ↔ ∃ d, d ≤ k ∧ Dist E root x d) (hv : Dist E root v k) :
    ∀ (ws : List String) (own : Assoc) (fr : List String), (∀ w ∈ ws, E v w) → Part E root m0 k own fr →
      (∀ x ∈ keys own, x ∉ keys other) →
      match expandW other v ws own fr with
      | (own', fr', none) => Part E root m0 k own' fr' ∧ (∀ w ∈ ws, w ∈ keys own') ∧
          (∀ x ∈ keys own, x ∈ keys own') ∧ (∀ x ∈ keys own', x ∉ keys other)
      | (own', fr', some w) => Part E root m0 k own' fr' ∧ w ∈ fr' ∧ w ∈ keys other := by
  intro ws
  induction ws with
  | nil => intro own fr _ hp hdis; simp only [expandW]; exact ⟨hp, by simp, fun x hx => hx, hdis⟩
  | cons w ws ih =>
    intro own fr hE hp hdis
    have e : E v w := hE w List.mem_cons_self
    have hE' : ∀ w' ∈ ws, E v w' := fun w' hw' => hE w' (List.mem_cons_of_mem _ hw')
    unfold expandW
    by_cases hin : assocHas own w = true
    · -- already known on this side, hence not on the other one
      have hk : w ∈ keys own := assocHas_iff.1 hin
      have hno : assocHas other w = false := assocHas_false_iff.2 (hdis w hk)
      simp only [hin, Bool.not_true, Bool.false_eq_true, if_false, hno]
      have := ih own fr hE' hp hdis
      revert this
      cases hres : expandW other v ws own fr with
      | mk own' rest =>
        cases rest with
        | mk fr' hit =>
          cases hit with
          | none =>
            rintro ⟨h1, h2, h3, h4⟩
            exact ⟨h1, fun x hx => by
              rcases List.mem_cons.1 hx with rfl | hx
              · exact h3 _ hk
              · exact h2 x hx, h3, h4⟩
          | some w' => exact fun h => h
    · have hnk : w ∉ keys own := assocHas_false_iff.1 (by simpa using hin)
      have hin' : assocHas own w = false := by simpa using hin
      have hp' := part_add hball hp hv e hnk
      simp only [hin', Bool.not_false, if_true]
      by_cases ho : assocHas other w = true
      · simp only [ho, if_true]
        exact ⟨hp', by simp, assocHas_iff.1 ho⟩
      · have ho' : assocHas other w = false := by simpa using ho
        simp only [ho', Bool.false_eq_true, if_false]
        have hdis' : ∀ x ∈ keys (own ++ [(w, some v)]), x ∉ keys other := by
          intro x hx
          rw [keys_append, keys_single] at hx
          rcases List.mem_append.1 hx with hx | hx
          · exact hdis x hx
          · simp only [List.mem_singleton] at hx; subst hx; exact assocHas_false_iff.1 ho'
        have := ih (own ++ [(w, some v)]) (fr ++ [w]) hE' hp' hdis'
        revert this
        cases hres : expandW other v ws (own ++ [(w, some v)]) (fr ++ [w]) with
        | mk own' rest =>
          cases rest with
          | mk fr' hit =>
            cases hit with
            | none =>
              rintro ⟨h1, h2, h3, h4⟩
              refine ⟨h1, fun x hx => ?_, fun x hx => h3 x (by simp [hx]), h4⟩
              rcases List.mem_cons.1 hx with rfl | hx
              · exact h3 _ (by simp)
              · exact h2 x hx
            | some w' => exact fun h => h

/-- what `expandV` guarantees -/
theorem expandV_spec {root : String} {m0 other : Assoc} {k : Nat} {nb : String → List String}
    (hnb : ∀ v w, w ∈ nb v ↔ E v w)
    (hball : ∀ x, x ∈ keys m0 ↔ ∃ d, d ≤ k ∧ Dist E root x d) :
    ∀ (vs : List String) (own : Assoc) (fr : List String), (∀ v ∈ vs, Dist E root v k) → Part E root m0 k own fr →
      (∀ x ∈ keys own, x ∉ keys other) →
      match expandV nb other vs own fr with
      | (own', fr', none) => Part E root m0 k own' fr' ∧ (∀ v ∈ vs, ∀ w, E v w → w ∈ keys own') ∧
          (∀ x ∈ keys own, x ∈ keys own') ∧ (∀ x ∈ keys own', x ∉ keys other)
      | (own', fr', some w) => Part E root m0 k own' fr' ∧ w ∈ fr' ∧ w ∈ keys other := by
  intro vs
  induction vs with
  | nil => intro own fr _ hp hdis; simp only [expandV]; exact ⟨hp, by simp, fun x hx => hx, hdis⟩
  | cons v vs ih =>
    intro own fr hvs hp hdis
    have hv := hvs v List.mem_cons_self
    have hvs' : ∀ v' ∈ vs, Dist E root v' k := fun v' h => hvs v' (List.mem_cons_of_mem _ h)
    have hw := expandW_spec (other := other) hball hv (nb v) own fr (fun w hw => (hnb v w).1 hw) hp hdis
    unfold expandV
    revert hw
    cases hres : expandW other v (nb v) own fr with
    | mk own1 rest =>
      cases rest with
      | mk fr1 hit =>
        cases hit with
        | some w => exact fun h => h
        | none =>
          rintro ⟨hp1, hcov1, hmono1, hdis1⟩
          simp only
          have := ih own1 fr1 hvs' hp1 hdis1
          revert this
          cases hres2 : expandV nb other vs own1 fr1 with
          | mk own2 rest2 =>
            cases rest2 with
            | mk fr2 hit2 =>
              cases hit2 with
              | some w => exact fun h => h
              | none =>
                rintro ⟨hp2, hcov2, hmono2, hdis2⟩
                refine ⟨hp2, ?_, fun x hx => hmono2 x (hmono1 x hx), hdis2⟩
                intro v' hv' w e
                rcases List.mem_cons.1 hv' with rfl | hv'
                · exact hmono2 w (hcov1 w ((hnb _ w).2 e))
                · exact hcov2 v' hv' w e

/-- a tree under construction is a tree -/
theorem tree_of_part {root : String} {m0 own : Assoc} {k : Nat} {fr : List String}
    (ht : TreeOK E root m0) (hball : ∀ x, x ∈ keys m0 ↔ ∃ d, d ≤ k ∧ Dist E root x d)
    (hp : Part E root m0 k own fr) : TreeOK E root own := by
  obtain ⟨add, hown, hk, hadd⟩ := hp.ext
  refine ⟨hp.nodup, by rw [hown]; exact List.mem_append_left _ ht.root_mem, ?_, ?_⟩
  · intro w hw
    rw [hown] at hw
    rcases List.mem_append.1 hw with hw | hw
    · exact ht.none_root w hw
    · obtain ⟨v, hv, _⟩ := hadd w none hw; cases hv
  · intro w v hw
    rw [hown] at hw
    rcases List.mem_append.1 hw with hw | hw
    · obtain ⟨h1, h2, h3⟩ := ht.parent w v hw
      exact ⟨part_keys_mono hp v h1, h2, h3⟩
    · obtain ⟨v', hv', hd, e, hd'⟩ := hadd w (some v) hw
      cases hv'
      exact ⟨part_keys_mono hp v ((hball v).2 ⟨k, Nat.le_refl _, hd⟩), e, k, hd, hd'⟩

theorem part_fringe_dist {root : String} {m0 own : Assoc} {k : Nat} {fr : List String}
    (hp : Part E root m0 k own fr) : ∀ x ∈ fr, Dist E root x (k + 1) := by
  obtain ⟨add, _, hk, hadd⟩ := hp.ext
  intro x hx
  rw [← hk] at hx
  obtain ⟨⟨x', p⟩, hm, rfl⟩ := List.mem_map.1 hx
  obtain ⟨v, _, _, _, hd⟩ := hadd x' p hm
  exact hd

/-- **one level**: either the two searches meet in a node of the new sphere, or the invariant holds
    one level further out -/
theorem level_spec {root : String} {m other : Assoc} {k : Nat} {fr : List String} {nb : String → List String}
    (hnb : ∀ v w, w ∈ nb v ↔ E v w) (hinv : SideInv E root m k fr) (hdis : ∀ x ∈ keys m, x ∉ keys other) :
    match expandV nb other fr m [] with
    | (own', fr', none) => SideInv E root own' (k + 1) fr' ∧ (∀ x ∈ keys own', x ∉ keys other)
    | (own', _, some w) => TreeOK E root own' ∧ w ∈ keys own' ∧ Dist E root w (k + 1) ∧ w ∈ keys other ∧
        (∀ x ∈ keys m, x ∈ keys own') := by
  have hv := expandV_spec (other := other) hnb hinv.ball fr m [] (fun v hv => (hinv.fringe v).1 hv)
    (part_start hinv.tree.nodup) hdis
  revert hv
  cases hres : expandV nb other fr m [] with
  | mk own' rest =>
    cases rest with
    | mk fr' hit =>
      cases hit with
      | some w =>
        rintro ⟨hp, hw, hwo⟩
        refine ⟨tree_of_part hinv.tree hinv.ball hp, ?_, part_fringe_dist hp w hw, hwo, part_keys_mono hp⟩
        rw [part_keys hp]; exact List.mem_append_right _ hw
      | none =>
        rintro ⟨hp, hcov, _, hdis'⟩
        refine ⟨⟨tree_of_part hinv.tree hinv.ball hp, ?_, ?_⟩, hdis'⟩
        · intro x
          rw [part_keys hp]
          constructor
          · intro hx
            rcases List.mem_append.1 hx with hx | hx
            · obtain ⟨d, hd, hdist⟩ := (hinv.ball x).1 hx
              exact ⟨d, by omega, hdist⟩
            · exact ⟨k + 1, Nat.le_refl _, part_fringe_dist hp x hx⟩
          · rintro ⟨d, hd, hdist⟩
            by_cases hle : d ≤ k
            · exact List.mem_append_left _ ((hinv.ball x).2 ⟨d, hle, hdist⟩)
            · have hd1 : d = k + 1 := by omega
              subst hd1
              obtain ⟨b, hb, e⟩ := dist_pred hdist
              have := hcov b ((hinv.fringe b).2 hb) x e
              rw [part_keys hp] at this
              exact this
        · intro x
          constructor
          · exact part_fringe_dist hp x
          · intro hdist
            obtain ⟨b, hb, e⟩ := dist_pred hdist
            have hx := hcov b ((hinv.fringe b).2 hb) x e
            rw [part_keys hp] at hx
            rcases List.mem_append.1 hx with hx | hx
            · obtain ⟨d, hd, hdist'⟩ := (hinv.ball x).1 hx
              have := dist_unique hdist hdist'
              omega
            · exact hx

/-! ### the loop -/

/-- the edge relation of a graph -/
def Edge (g : Graph) (u v : String) : Prop := v ∈ g.succs u
/-- … and its reverse -/
def EdgeR (g : Graph) (u v : String) : Prop := Edge g v u

theorem mem_succs {g : Graph} {u v : String} : v ∈ g.succs u ↔ ∃ e ∈ g.edges, e.src = u ∧ e.dst = v := by
  unfold Graph.succs Graph.edgesFrom
  simp only [List.mem_map, List.mem_filter, beq_iff_eq]
  constructor
  · rintro ⟨e, ⟨he, hs⟩, hd⟩; exact ⟨e, he, hs, hd⟩
  · rintro ⟨e, he, hs, hd⟩; exact ⟨e, ⟨he, hs⟩, hd⟩

theorem mem_preds {g : Graph} {u v : String} : u ∈ g.preds v ↔ ∃ e ∈ g.edges, e.src = u ∧ e.dst = v := by
  unfold Graph.preds
  simp only [List.mem_map, List.mem_filter, beq_iff_eq]
  constructor
  · rintro ⟨e, ⟨he, hd⟩, hs⟩; exact ⟨e, he, hs, hd⟩
  · rintro ⟨e, he, hs, hd⟩; exact ⟨e, ⟨he, hd⟩, hs⟩

theorem nb_succs (g : Graph) : ∀ v w, w ∈ g.succs v ↔ Edge g v w := fun _ _ => Iff.rfl
theorem nb_preds (g : Graph) : ∀ v w, w ∈ g.preds v ↔ EdgeR g v w := by
  intro v w
  unfold EdgeR Edge
  rw [mem_preds, mem_succs]

/-- the loop invariant -/
structure LInv (g : Graph) (s t : String) (st : BfsState) (kf kr : Nat) : Prop where
  fwd : SideInv (Edge g) s st.pred kf st.fwd
  rev : SideInv (EdgeR g) t st.succ kr st.rev
  dis : ∀ x ∈ keys st.pred, x ∉ keys st.succ

/-- what a successful search has found -/
structure Met (g : Graph) (s t : String) (st : BfsState) (w : String) : Prop where
  tf : TreeOK (Edge g) s st.pred
  tr : TreeOK (EdgeR g) t st.succ
  wf : w ∈ keys st.pred
  wr : w ∈ keys st.succ
  best : ∃ a b, Dist (Edge g) s w a ∧ Dist (EdgeR g) t w b ∧ ∀ L, Walk (Edge g) L s t → a + b ≤ L

/-- no walk is shorter than the two radii together while the balls are disjoint -/
theorem radii_bound {g : Graph} {s t : String} {st : BfsState} {kf kr : Nat} (h : LInv g s t st kf kr) :
    ∀ L, Walk (Edge g) L s t → kf + kr + 1 ≤ L := by
  intro L hw
  obtain ⟨d, hdL, hd⟩ := dist_exists L hw
  have htroot : t ∈ keys st.succ := by
    have := h.rev.tree.root_mem
    exact List.mem_map.2 ⟨(t, none), this, rfl⟩
  by_cases hle : d ≤ kf
  · exact absurd htroot (h.dis t ((h.fwd.ball t).2 ⟨d, hle, hd⟩))
  · by_cases hle2 : d ≤ kf + kr
    · -- the node at distance kf on a shortest walk lies in both balls
      have hsplit : d = kf + (d - kf) := by omega
      have hw' := hd.1
      rw [hsplit] at hw'
      obtain ⟨x, w1, w2⟩ := walk_split kf hw'
      have hdx : Dist (Edge g) s x kf := dist_prefix (j := d - kf) (by rw [← hsplit]; exact hd) w1 w2
      have hx1 : x ∈ keys st.pred := (h.fwd.ball x).2 ⟨kf, Nat.le_refl _, hdx⟩
      obtain ⟨d', hd'le, hd'⟩ := dist_exists (d - kf) (walk_rev w2)
      have hx2 : x ∈ keys st.succ := (h.rev.ball x).2 ⟨d', by omega, hd'⟩
      exact absurd hx2 (h.dis x hx1)
    · omega

theorem no_walk_of_empty_fwd {g : Graph} {s t : String} {st : BfsState} {kf kr : Nat} (h : LInv g s t st kf kr)
    (he : st.fwd = []) : ∀ L, ¬ Walk (Edge g) L s t := by
  intro L hw
  have hb := radii_bound h L hw
  obtain ⟨d, hdL, hd⟩ := dist_exists L hw
  have hdb := radii_bound h d hd.1
  have hsplit : d = kf + (d - kf) := by omega
  have hw' := hd.1
  rw [hsplit] at hw'
  obtain ⟨x, w1, w2⟩ := walk_split kf hw'
  have hdx : Dist (Edge g) s x kf := dist_prefix (j := d - kf) (by rw [← hsplit]; exact hd) w1 w2
  have := (h.fwd.fringe x).2 hdx
  rw [he] at this; cases this

theorem no_walk_of_empty_rev {g : Graph} {s t : String} {st : BfsState} {kf kr : Nat} (h : LInv g s t st kf kr)
    (he : st.rev = []) : ∀ L, ¬ Walk (Edge g) L s t := by
  intro L hw
  obtain ⟨d, hdL, hd⟩ := dist_exists L hw
  have hdb := radii_bound h d hd.1
  have hsplit : d = (d - kr) + kr := by omega
  have hw' := hd.1
  rw [hsplit] at hw'
  obtain ⟨x, w1, w2⟩ := walk_split (d - kr) hw'
  have hdx : Dist (Edge g) x t kr := dist_suffix (i := d - kr) (by rw [← hsplit]; exact hd) w1 w2
  have hdx' : Dist (EdgeR g) t x kr := by
    refine ⟨walk_rev hdx.1, ?_⟩
    intro j hj
    have : Walk (Edge g) j x t := by
      have := walk_rev hj
      exact this
    exact hdx.2 j this
  have := (h.rev.fringe x).2 hdx'
  rw [he] at this; cases this

theorem root_key {E : String → String → Prop} {root : String} {m : Assoc} (h : TreeOK E root m) : root ∈ keys m :=
  List.mem_map.2 ⟨(root, none), h.root_mem, rfl⟩

/-- one forward level from a state satisfying the invariant -/
theorem fwd_step {g : Graph} {s t : String} {st : BfsState} {kf kr : Nat} (h : LInv g s t st kf kr) :
    match fwdLevel g st with
    | (st', some w) => Met g s t st' w
    | (st', none) => LInv g s t st' (kf + 1) kr := by
  have hl := level_spec (other := st.succ) (nb_succs g) h.fwd h.dis
  unfold fwdLevel
  revert hl
  cases hres : expandV g.succs st.succ st.fwd st.pred [] with
  | mk own' rest =>
    cases rest with
    | mk fr' hit =>
      cases hit with
      | some w =>
        rintro ⟨ht, hw, hd, hwo, _⟩
        obtain ⟨b, hb, hdb⟩ := (h.rev.ball w).1 hwo
        refine ⟨ht, h.rev.tree, hw, hwo, kf + 1, b, hd, hdb, ?_⟩
        intro L hL
        have := radii_bound h L hL
        omega
      | none =>
        rintro ⟨hs, hdis⟩
        exact ⟨hs, h.rev, hdis⟩

/-- one reverse level -/
theorem rev_step {g : Graph} {s t : String} {st : BfsState} {kf kr : Nat} (h : LInv g s t st kf kr) :
    match revLevel g st with
    | (st', some w) => Met g s t st' w
    | (st', none) => LInv g s t st' kf (kr + 1) := by
  have hdis : ∀ x ∈ keys st.succ, x ∉ keys st.pred := fun x hx hp => h.dis x hp hx
  have hl := level_spec (other := st.pred) (nb_preds g) h.rev hdis
  unfold revLevel
  revert hl
  cases hres : expandV g.preds st.pred st.rev st.succ [] with
  | mk own' rest =>
    cases rest with
    | mk fr' hit =>
      cases hit with
      | some w =>
        rintro ⟨ht, hw, hd, hwo, _⟩
        obtain ⟨a, ha, hda⟩ := (h.fwd.ball w).1 hwo
        refine ⟨h.fwd.tree, ht, hwo, hw, a, kr + 1, hda, hd, ?_⟩
        intro L hL
        have := radii_bound h L hL
        omega
      | none =>
        rintro ⟨hs, hdis'⟩
        exact ⟨h.fwd, hs, fun x hx hp => hdis' x hp hx⟩

/-- **the loop only stops with a meeting node on a shortest connection** -/
theorem loop_met {g : Graph} {s t : String} :
    ∀ (fuel : Nat) (st : BfsState) (kf kr : Nat) (st' : BfsState) (w : String), LInv g s t st kf kr →
      bfsLoop g fuel st = some (st', w) → Met g s t st' w := by
  intro fuel
  induction fuel with
  | zero => intro st kf kr st' w _ h; simp [bfsLoop] at h
  | succ fuel ih =>
    intro st kf kr st' w hinv h
    unfold bfsLoop at h
    by_cases he : (st.fwd.isEmpty || st.rev.isEmpty) = true
    · rw [if_pos he] at h; cases h
    rw [if_neg he] at h
    by_cases hd : st.fwd.length ≤ st.rev.length
    · rw [if_pos hd] at h
      have hs := fwd_step hinv
      revert hs h
      cases hres : fwdLevel g st with
      | mk st1 hit =>
        cases hit with
        | some w1 =>
          intro h hs
          simp only [Option.some.injEq, Prod.mk.injEq] at h
          obtain ⟨rfl, rfl⟩ := h
          exact hs
        | none => intro h hs; exact ih st1 _ _ st' w hs h
    · rw [if_neg hd] at h
      have hs := rev_step hinv
      revert hs h
      cases hres : revLevel g st with
      | mk st1 hit =>
        cases hit with
        | some w1 =>
          intro h hs
          simp only [Option.some.injEq, Prod.mk.injEq] at h
          obtain ⟨rfl, rfl⟩ := h
          exact hs
        | none => intro h hs; exact ih st1 _ _ st' w hs h

/-- the start state -/
theorem linv_init (g : Graph) (s t : String) (hne : s ≠ t) :
    LInv g s t { pred := [(s, none)], succ := [(t, none)], fwd := [s], rev := [t] } 0 0 := by
  have side : ∀ (E : String → String → Prop) (r : String), SideInv E r [(r, none)] 0 [r] := by
    intro E r
    refine ⟨⟨by simp [keys], by simp, ?_, ?_⟩, ?_, ?_⟩
    · intro w hw; simp at hw; exact hw
    · intro w v hw; simp at hw
    · intro x
      simp only [keys, List.map_cons, List.map_nil, List.mem_singleton]
      constructor
      · rintro rfl; exact ⟨0, Nat.le_refl _, dist_self _⟩
      · rintro ⟨d, hd, hdist⟩
        have : d = 0 := by omega
        subst this
        exact (walk_zero hdist.1).symm
    · intro x
      simp only [List.mem_singleton]
      constructor
      · rintro rfl; exact dist_self _
      · intro hdist; exact (walk_zero hdist.1).symm
  refine ⟨side _ s, side _ t, ?_⟩
  intro x hx
  simp only [keys, List.map_cons, List.map_nil, List.mem_singleton] at hx ⊢
  subst hx; exact hne

/-! ### from the two trees to a path -/

theorem chain_snoc {E : String → String → Prop} : ∀ (l : List String) (a b : String),
    Chain E (l ++ [a]) → E a b → Chain E (l ++ [a] ++ [b]) := by
  intro l
  induction l with
  | nil => intro a b _ e; exact ⟨e, trivial⟩
  | cons x xs ih =>
    intro a b h e
    cases xs with
    | nil => exact ⟨h.1, e, trivial⟩
    | cons y ys =>
      exact ⟨h.1, ih a b h.2 e⟩

theorem chain_join {E : String → String → Prop} : ∀ (l1 : List String) (w : String) (l2 : List String),
    Chain E (l1 ++ [w]) → Chain E (w :: l2) → Chain E (l1 ++ [w] ++ l2) := by
  intro l1
  induction l1 with
  | nil => intro w l2 _ h2; simpa using h2
  | cons x xs ih =>
    intro w l2 h1 h2
    cases xs with
    | nil => exact ⟨h1.1, by simpa using h2⟩
    | cons y ys => exact ⟨h1.1, ih w l2 h1.2 h2⟩

/-- reversing a chain of the flipped relation -/
theorem chain_reverse {E : String → String → Prop} : ∀ (l : List String) (w : String),
    Chain (fun a b => E b a) (w :: l) → Chain E (l.reverse ++ [w]) := by
  intro l
  induction l with
  | nil => intro w _; trivial
  | cons x xs ih =>
    intro w h
    have h1 := ih x h.2
    have := chain_snoc (E := E) xs.reverse x w h1 h.1
    simpa using this

theorem find_of_mem {m : Assoc} (hnd : (keys m).Nodup) {w : String} {p : Option String} (h : (w, p) ∈ m) :
    m.find? (·.1 == w) = some (w, p) := by
  induction m with
  | nil => cases h
  | cons x xs ih =>
    simp only [keys, List.map_cons, List.nodup_cons] at hnd
    rcases List.mem_cons.1 h with rfl | h
    · simp [List.find?]
    · have hne : x.1 ≠ w := by
        intro heq
        exact hnd.1 (by rw [heq]; exact List.mem_map.2 ⟨(w, p), h, rfl⟩)
      have hb : (x.1 == w) = false := by simpa using hne
      rw [List.find?_cons, hb]
      exact ih hnd.2 h

/-- following the parent entries from `w` leads to the root along edges, in `Dist` many steps -/
theorem chase_spec {E : String → String → Prop} {root : String} {m : Assoc} (ht : TreeOK E root m) :
    ∀ (d fuel : Nat) (w : String), Dist E root w d → w ∈ keys m → d ≤ fuel →
      Chain (fun a b => E b a) (w :: chase m fuel w) ∧ (w :: chase m fuel w).getLast? = some root ∧
      (chase m fuel w).length = d := by
  intro d
  induction d with
  | zero =>
    intro fuel w hd hw _
    have hwr : w = root := (walk_zero hd.1).symm
    obtain ⟨⟨w', p⟩, hm, hw'⟩ := List.mem_map.1 hw
    simp only at hw'; subst hw'
    have hp : p = none := by
      cases p with
      | none => rfl
      | some v =>
        obtain ⟨_, _, d', _, hd2⟩ := ht.parent _ v hm
        have := dist_unique hd hd2
        omega
    subst hp
    cases fuel with
    | zero => simp [chase, hwr, Chain]
    | succ f =>
      have hf := find_of_mem ht.nodup hm
      subst hwr
      simp only [chase, hf, Option.map_some]
      exact ⟨trivial, rfl, rfl⟩
  | succ d ih =>
    intro fuel w hd hw hfuel
    obtain ⟨⟨w', p⟩, hm, hw'⟩ := List.mem_map.1 hw
    simp only at hw'; subst hw'
    cases p with
    | none =>
      have := ht.none_root _ hm
      subst this
      have := dist_unique hd (dist_self (E := E) w')
      omega
    | some v =>
      obtain ⟨hv, e, d', hdv, hdw⟩ := ht.parent _ v hm
      have hd' : d' = d := by have := dist_unique hd hdw; omega
      subst hd'
      cases fuel with
      | zero => omega
      | succ f =>
        have hf := find_of_mem ht.nodup hm
        obtain ⟨c1, c2, c3⟩ := ih f v hdv hv (by omega)
        simp only [chase, hf, Option.map_some]
        refine ⟨⟨e, c1⟩, ?_, by simp [c3]⟩
        rw [List.getLast?_cons_cons]; exact c2

/-! ### counting: distances stay below the number of nodes -/

/-- the ancestors of a key: as many different keys as its distance, plus itself -/
theorem anc_list {E : String → String → Prop} {root : String} {m : Assoc} (ht : TreeOK E root m) :
    ∀ (d : Nat) (w : String), w ∈ keys m → Dist E root w d →
      ∃ l : List String, l.Nodup ∧ (∀ x ∈ l, x ∈ keys m ∧ ∃ d', d' ≤ d ∧ Dist E root x d') ∧ l.length = d + 1 := by
  intro d
  induction d with
  | zero =>
    intro w hw hd
    exact ⟨[w], by simp, by
      intro x hx; simp only [List.mem_singleton] at hx; subst hx
      exact ⟨hw, 0, Nat.le_refl _, hd⟩, rfl⟩
  | succ d ih =>
    intro w hw hd
    obtain ⟨⟨w', p⟩, hm, hw'⟩ := List.mem_map.1 hw
    simp only at hw'; subst hw'
    cases p with
    | none =>
      have := ht.none_root _ hm
      subst this
      have := dist_unique hd (dist_self (E := E) w')
      omega
    | some v =>
      obtain ⟨hv, _, d', hdv, hdw⟩ := ht.parent _ v hm
      have hd' : d' = d := by have := dist_unique hd hdw; omega
      subst hd'
      obtain ⟨l, hnd, hl, hlen⟩ := ih v hv hdv
      refine ⟨w' :: l, List.nodup_cons.2 ⟨?_, hnd⟩, ?_, by simp [hlen]⟩
      · intro hin
        obtain ⟨_, d'', hle, hdd⟩ := hl w' hin
        have := dist_unique hd hdd
        omega
      · intro x hx
        rcases List.mem_cons.1 hx with rfl | hx
        · exact ⟨hw, d' + 1, Nat.le_refl _, hd⟩
        · obtain ⟨h1, d'', hle, hdd⟩ := hl x hx
          exact ⟨h1, d'', by omega, hdd⟩

theorem dist_lt_keys {E : String → String → Prop} {root : String} {m : Assoc} (ht : TreeOK E root m)
    {d : Nat} {w : String} (hw : w ∈ keys m) (hd : Dist E root w d) : d + 1 ≤ (keys m).length := by
  obtain ⟨l, hnd, hl, hlen⟩ := anc_list ht d w hw hd
  rw [← hlen]
  exact List.Nodup.length_le_of_subset hnd (fun x hx => (hl x hx).1)

/-- every edge joins existing nodes -/
def Closed (g : Graph) : Prop := ∀ e ∈ g.edges, g.hasNode e.src = true ∧ g.hasNode e.dst = true

def names (g : Graph) : List String := g.nodes.map (·.name)

theorem hasNode_iff_names {g : Graph} {x : String} : g.hasNode x = true ↔ x ∈ names g := by
  unfold Graph.hasNode names
  simp only [List.any_eq_true, beq_iff_eq, List.mem_map]

theorem walk_nodes {g : Graph} (hc : Closed g) : ∀ {k : Nat} {a b : String}, Walk (Edge g) k a b →
    g.hasNode a = true → g.hasNode b = true := by
  intro k
  induction k with
  | zero => intro a b h ha; cases h; exact ha
  | succ k ih =>
    intro a b h ha
    cases h with
    | cons e w =>
      obtain ⟨ed, hed, _, hdst⟩ := mem_succs.1 e
      exact ih w (by rw [← hdst]; exact (hc ed hed).2)

theorem walkR_nodes {g : Graph} (hc : Closed g) : ∀ {k : Nat} {a b : String}, Walk (EdgeR g) k a b →
    g.hasNode a = true → g.hasNode b = true := by
  intro k
  induction k with
  | zero => intro a b h ha; cases h; exact ha
  | succ k ih =>
    intro a b h ha
    cases h with
    | cons e w =>
      obtain ⟨ed, hed, hsrc, _⟩ := mem_succs.1 e
      exact ih w (by rw [← hsrc]; exact (hc ed hed).1)

theorem key_dist {E : String → String → Prop} {root : String} {m : Assoc} (ht : TreeOK E root m) :
    ∀ x ∈ keys m, ∃ d, Dist E root x d := by
  intro x hx
  obtain ⟨⟨x', p⟩, hm, hx'⟩ := List.mem_map.1 hx
  simp only at hx'; subst hx'
  cases p with
  | none => have := ht.none_root _ hm; subst this; exact ⟨0, dist_self _⟩
  | some v => obtain ⟨_, _, d, _, hd⟩ := ht.parent _ v hm; exact ⟨d + 1, hd⟩

theorem keys_le_nodes_f {g : Graph} (hc : Closed g) {s : String} (hs : g.hasNode s = true) {m : Assoc}
    (ht : TreeOK (Edge g) s m) : ∀ x ∈ keys m, x ∈ names g := by
  intro x hx
  obtain ⟨d, hd⟩ := key_dist ht x hx
  exact hasNode_iff_names.1 (walk_nodes hc hd.1 hs)

theorem keys_le_nodes_r {g : Graph} (hc : Closed g) {t : String} (htn : g.hasNode t = true) {m : Assoc}
    (ht : TreeOK (EdgeR g) t m) : ∀ x ∈ keys m, x ∈ names g := by
  intro x hx
  obtain ⟨d, hd⟩ := key_dist ht x hx
  exact hasNode_iff_names.1 (walkR_nodes hc hd.1 htn)

/-- while both fringes are inhabited the two radii stay well below the number of nodes -/
theorem radii_lt_nodes {g : Graph} (hc : Closed g) {s t : String} (hs : g.hasNode s = true) (htn : g.hasNode t = true)
    {st : BfsState} {kf kr : Nat} (h : LInv g s t st kf kr) (hf : st.fwd ≠ []) (hr : st.rev ≠ []) :
    kf + kr + 2 ≤ g.nodes.length := by
  obtain ⟨x, hx⟩ := List.exists_mem_of_ne_nil _ hf
  obtain ⟨y, hy⟩ := List.exists_mem_of_ne_nil _ hr
  have hdx := (h.fwd.fringe x).1 hx
  have hdy := (h.rev.fringe y).1 hy
  have h1 := dist_lt_keys h.fwd.tree ((h.fwd.ball x).2 ⟨kf, Nat.le_refl _, hdx⟩) hdx
  have h2 := dist_lt_keys h.rev.tree ((h.rev.ball y).2 ⟨kr, Nat.le_refl _, hdy⟩) hdy
  have hnd : (keys st.pred ++ keys st.succ).Nodup :=
    List.nodup_append.2 ⟨h.fwd.tree.nodup, h.rev.tree.nodup, fun a ha b hb hab => h.dis a ha (hab ▸ hb)⟩
  have hsub : ∀ z ∈ keys st.pred ++ keys st.succ, z ∈ names g := by
    intro z hz
    rcases List.mem_append.1 hz with hz | hz
    · exact keys_le_nodes_f hc hs h.fwd.tree z hz
    · exact keys_le_nodes_r hc htn h.rev.tree z hz
  have := List.Nodup.length_le_of_subset hnd hsub
  simp only [List.length_append, names, List.length_map] at this
  omega

/-- **completeness of the loop**: with enough fuel, no result means no connection -/
theorem loop_none {g : Graph} (hc : Closed g) {s t : String} (hs : g.hasNode s = true) (htn : g.hasNode t = true) :
    ∀ (fuel : Nat) (st : BfsState) (kf kr : Nat), LInv g s t st kf kr → g.nodes.length ≤ fuel + kf + kr →
      bfsLoop g fuel st = none → ∀ L, ¬ Walk (Edge g) L s t := by
  intro fuel
  induction fuel with
  | zero =>
    intro st kf kr hinv hn _
    by_cases hf : st.fwd = []
    · exact no_walk_of_empty_fwd hinv hf
    · by_cases hr : st.rev = []
      · exact no_walk_of_empty_rev hinv hr
      · have := radii_lt_nodes hc hs htn hinv hf hr
        omega
  | succ fuel ih =>
    intro st kf kr hinv hn h
    unfold bfsLoop at h
    by_cases he : (st.fwd.isEmpty || st.rev.isEmpty) = true
    · simp only [Bool.or_eq_true, List.isEmpty_iff] at he
      rcases he with he | he
      · exact no_walk_of_empty_fwd hinv he
      · exact no_walk_of_empty_rev hinv he
    rw [if_neg he] at h
    by_cases hd : st.fwd.length ≤ st.rev.length
    · rw [if_pos hd] at h
      have hs' := fwd_step hinv
      revert hs' h
      cases hres : fwdLevel g st with
      | mk st1 hit =>
        cases hit with
        | some w1 => intro h _; cases h
        | none => intro h hs'; exact ih st1 _ _ hs' (by omega) h
    · rw [if_neg hd] at h
      have hs' := rev_step hinv
      revert hs' h
      cases hres : revLevel g st with
      | mk st1 hit =>
        cases hit with
        | some w1 => intro h _; cases h
        | none => intro h hs'; exact ih st1 _ _ hs' (by omega) h

/-! ### the oracle -/

theorem walk_of_chain {E : String → String → Prop} : ∀ (q : List String) (a b : String),
    Chain E q → q.head? = some a → q.getLast? = some b → Walk E (q.length - 1) a b := by
  intro q
  induction q with
  | nil => intro a b h; cases h
  | cons x xs ih =>
    intro a b hc hh hl
    simp only [List.head?_cons, Option.some.injEq] at hh
    subst hh
    cases xs with
    | nil =>
      simp only [List.getLast?_singleton, Option.some.injEq] at hl
      subst hl; exact .nil _
    | cons y ys =>
      have := ih y b hc.2 rfl (by rw [List.getLast?_cons_cons] at hl; exact hl)
      simp only [List.length_cons, Nat.add_sub_cancel] at this ⊢
      exact .cons hc.1 this

theorem walk_of_isPath {E : String → String → Prop} {q : List String} {a b : String} (h : IsPath E q a b) :
    Walk E (q.length - 1) a b := walk_of_chain q a b h.chain h.head h.last

/-- **the search returns a shortest path**, on every graph whose edges join existing nodes -/
theorem bfs_sound {g : Graph} (hc : Closed g) {s t : String} {p : List String} (h : nxBidirBfs g s t = some p) :
    IsPath (Edge g) p s t ∧ ∀ q, IsPath (Edge g) q s t → p.length ≤ q.length := by
  unfold nxBidirBfs at h
  by_cases hn : (!(g.hasNode s && g.hasNode t)) = true
  · rw [if_pos hn] at h; cases h
  rw [if_neg hn] at h
  have hnodes : g.hasNode s = true ∧ g.hasNode t = true := by
    cases h1 : g.hasNode s <;> cases h2 : g.hasNode t <;> simp [h1, h2] at hn ⊢
  by_cases hst : (s == t) = true
  · rw [if_pos hst] at h
    have : s = t := by simpa using hst
    subst this
    cases h
    refine ⟨⟨trivial, rfl, rfl⟩, ?_⟩
    intro q hq
    cases q with
    | nil => exact absurd hq.chain (by simp [Chain])
    | cons x xs => simp
  rw [if_neg hst] at h
  have hne : s ≠ t := by simpa using hst
  cases hloop : bfsLoop g (2 * g.nodes.length + 2)
      { pred := [(s, none)], succ := [(t, none)], fwd := [s], rev := [t] } with
  | none => rw [hloop] at h; cases h
  | some res =>
    obtain ⟨st, w⟩ := res
    rw [hloop] at h
    simp only [Option.some.injEq] at h
    have hmet := loop_met _ _ 0 0 st w (linv_init g s t hne) hloop
    obtain ⟨a, b, hda, hdb, hbest⟩ := hmet.best
    have ha : a ≤ g.nodes.length + 1 := by
      have h1 := dist_lt_keys hmet.tf hmet.wf hda
      have h2 := List.Nodup.length_le_of_subset hmet.tf.nodup (keys_le_nodes_f hc hnodes.1 hmet.tf)
      simp only [names, List.length_map] at h2
      omega
    have hb : b ≤ g.nodes.length + 1 := by
      have h1 := dist_lt_keys hmet.tr hmet.wr hdb
      have h2 := List.Nodup.length_le_of_subset hmet.tr.nodup (keys_le_nodes_r hc hnodes.2 hmet.tr)
      simp only [names, List.length_map] at h2
      omega
    obtain ⟨c1, l1, n1⟩ := chase_spec hmet.tf a _ w hda hmet.wf ha
    obtain ⟨c2, l2, n2⟩ := chase_spec hmet.tr b _ w hdb hmet.wr hb
    have hchainB : Chain (Edge g) ((chase st.pred (g.nodes.length + 1) w).reverse ++ [w]) := chain_reverse _ _ c1
    have hchainF : Chain (Edge g) (w :: chase st.succ (g.nodes.length + 1) w) := c2
    have hchain := chain_join _ _ _ hchainB hchainF
    subst h
    refine ⟨⟨hchain, ?_, ?_⟩, ?_⟩
    · -- head
      cases hb' : (chase st.pred (g.nodes.length + 1) w).reverse with
      | nil =>
        have : chase st.pred (g.nodes.length + 1) w = [] := by simpa using hb'
        rw [this] at l1
        simp only [List.getLast?_singleton, Option.some.injEq] at l1
        simp [l1]
      | cons x xs =>
        have hl : (w :: chase st.pred (g.nodes.length + 1) w).getLast? = some s := l1
        have : (chase st.pred (g.nodes.length + 1) w).getLast? = some x := by
          rw [← List.head?_reverse, hb']; rfl
        have hne' : chase st.pred (g.nodes.length + 1) w ≠ [] := by
          intro hnil; rw [hnil] at hb'; cases hb'
        obtain ⟨y, ys, hy⟩ := List.exists_cons_of_ne_nil hne'
        rw [hy, List.getLast?_cons_cons, ← hy, this] at hl
        simp only [Option.some.injEq] at hl
        simp [hl]
    · -- last
      have : ((chase st.pred (g.nodes.length + 1) w).reverse ++ [w] ++ chase st.succ (g.nodes.length + 1) w) =
          (chase st.pred (g.nodes.length + 1) w).reverse ++ (w :: chase st.succ (g.nodes.length + 1) w) := by simp
      rw [this, List.getLast?_append_of_ne_nil _ (by simp)]
      exact l2
    · intro q hq
      have hw := walk_of_isPath hq
      have := hbest _ hw
      have hq1 : 1 ≤ q.length := by
        cases q with
        | nil => exact absurd hq.chain (by simp [Chain])
        | cons x xs => simp
      simp only [List.length_append, List.length_reverse, List.length_cons, List.length_nil, n1, n2]
      omega

/-- **… and it finds one whenever there is one** -/
theorem bfs_complete {g : Graph} (hc : Closed g) {s t : String} (hs : g.hasNode s = true) (ht : g.hasNode t = true)
    (h : nxBidirBfs g s t = none) : ∀ q, ¬ IsPath (Edge g) q s t := by
  intro q hq
  unfold nxBidirBfs at h
  have hn : (!(g.hasNode s && g.hasNode t)) = false := by simp [hs, ht]
  rw [hn] at h
  simp only [Bool.false_eq_true, if_false] at h
  by_cases hst : (s == t) = true
  · rw [if_pos hst] at h; cases h
  rw [if_neg hst] at h
  have hne : s ≠ t := by simpa using hst
  cases hloop : bfsLoop g (2 * g.nodes.length + 2)
      { pred := [(s, none)], succ := [(t, none)], fwd := [s], rev := [t] } with
  | some res => rw [hloop] at h; cases h
  | none =>
    exact loop_none hc hs ht _ _ 0 0 (linv_init g s t hne) (by omega) hloop _ (walk_of_isPath hq)

/-! ### the contract the routing theorems assume -/

theorem edge_nodes {g : Graph} (hc : Closed g) {u v : String} (e : Edge g u v) :
    g.hasNode u = true ∧ g.hasNode v = true := by
  obtain ⟨ed, hed, hs, hd⟩ := mem_succs.1 e
  rw [← hs, ← hd]; exact hc ed hed

/-- **`nxBidirBfs` satisfies the shortest-path contract** towards every node of a closed graph -/
theorem spContract {g : Graph} (hc : Closed g) {dst : String} (hd : g.hasNode dst = true) :
    SPContract (Edge g) (fun a => nxBidirBfs g a dst) dst where
  sound := fun a p h => (bfs_sound hc h).1
  minimal := fun a p q h hq => (bfs_sound hc h).2 q hq
  complete := by
    intro a q hq
    have ha : g.hasNode a = true := by
      cases q with
      | nil => exact absurd hq.chain (by simp [Chain])
      | cons x xs =>
        have hx : x = a := by simpa using hq.head
        subst hx
        cases xs with
        | nil =>
          have : x = dst := by simpa using hq.last
          subst this; exact hd
        | cons y ys => exact (edge_nodes hc hq.chain.1).1
    cases hres : nxBidirBfs g a dst with
    | some p => exact ⟨p, rfl⟩
    | none => exact absurd hq (bfs_complete hc ha hd hres q)

end FlooVerif.Bfs

/-
  C18 / C07 (generator side) — the names of array elements determine their index: two elements of
  one array have different node names unless their indices agree (decimal rendering is injective
  and contains no underscore, so `name_i_j` splits uniquely).  Hence the array constructor never
  meets a clash inside its own array, and a selection by index addresses exactly one element.
-/
import Std.Data.String.ToNat
namespace FlooVerif.C18N

theorem toString_nat_inj {a b : Nat} (h : toString a = toString b) : a = b := Nat.repr_injective h

theorem no_underscore (n : Nat) : '_' ∉ (toString n).toList := by
  show '_' ∉ (Nat.repr n).toList
  rw [Nat.toList_repr]; exact Nat.underscore_not_in_toDigits

/-- a list is split at its first underscore in only one way -/
theorem split_unique : ∀ (a a' b b' : List Char), '_' ∉ a → '_' ∉ a' →
    a ++ '_' :: b = a' ++ '_' :: b' → a = a' ∧ b = b' := by
  intro a
  induction a with
  | nil =>
    intro a' b b' _ h2 h
    cases a' with
    | nil => simpa using h
    | cons c cs => simp at h; exact absurd (h.1 ▸ List.mem_cons_self) h2
  | cons x xs ih =>
    intro a' b b' h1 h2 h
    cases a' with
    | nil => simp at h; exact absurd (h.1 ▸ List.mem_cons_self) h1
    | cons c cs =>
      simp only [List.cons_append, List.cons.injEq] at h
      obtain ⟨hx, hrest⟩ := h
      obtain ⟨e1, e2⟩ := ih cs b b' (fun hm => h1 (List.mem_cons_of_mem _ hm))
        (fun hm => h2 (List.mem_cons_of_mem _ hm)) hrest
      exact ⟨by rw [hx, e1], e2⟩

/-- **one-dimensional arrays**: `name_i = name_j → i = j` -/
theorem name1_inj (name : String) {i j : Nat}
    (h : name ++ "_" ++ toString i = name ++ "_" ++ toString j) : i = j := by
  have := String.toList_inj.2 h
  simp only [String.toList_append, List.append_assoc, List.append_cancel_left_eq] at this
  exact toString_nat_inj (String.toList_inj.1 this)

/-- **two-dimensional arrays**: `name_i_j = name_i'_j' → i = i' ∧ j = j'` -/
theorem name2_inj (name : String) {i j i' j' : Nat}
    (h : name ++ "_" ++ toString i ++ "_" ++ toString j = name ++ "_" ++ toString i' ++ "_" ++ toString j') :
    i = i' ∧ j = j' := by
  have := String.toList_inj.2 h
  simp only [String.toList_append, List.append_assoc, List.append_cancel_left_eq] at this
  have hu : ("_" : String).toList = ['_'] := rfl
  rw [hu] at this
  obtain ⟨e1, e2⟩ := split_unique _ _ _ _ (no_underscore i) (no_underscore i') this
  exact ⟨toString_nat_inj (String.toList_inj.1 e1), toString_nat_inj (String.toList_inj.1 e2)⟩

example : ("r" ++ "_" ++ toString 1 ++ "_" ++ toString 10) ≠ ("r" ++ "_" ++ toString 11 ++ "_" ++ toString 0) := by
  intro h; have := name2_inj "r" h; omega

end FlooVerif.C18N

/-
  C09 (generator level, trees) — on a tree of routers (network interfaces as leaves) ANY set of routes
  that never visit a node twice — in particular shortest paths, whatever the tie-breaking — induces an
  acyclic channel-dependency graph: the rank "D − depth while climbing, D + depth while descending"
  strictly increases along every route.  Trees of any depth and fan-out.
-/
import FlooVerif.Lemmas.Paths
namespace FlooVerif.C09U
open FlooVerif

variable {α : Type} [DecidableEq α]

/-- a rooted forest: every node has at most one parent, one level up -/
structure Tree (α : Type) where
  parent : α → Option α
  depth : α → Nat
  depth_parent : ∀ x p, parent x = some p → depth p + 1 = depth x

/-- a channel is a directed link between a node and its parent, in either direction -/
def IsLink (t : Tree α) (u v : α) : Prop := t.parent u = some v ∨ t.parent v = some u

/-- rank of the channel u → v -/
def rank (t : Tree α) (D : Nat) (u v : α) : Nat :=
  if t.parent u = some v then D - t.depth u else D + t.depth v

/-- **two consecutive channels of a route that does not return to the node it came from**: the rank
    strictly increases -/
theorem rank_step (t : Tree α) (D : Nat) (u v w : α) (hD : t.depth u ≤ D ∧ t.depth v ≤ D)
    (huv : IsLink t u v) (hvw : IsLink t v w) (hne : u ≠ w) :
    rank t D u v < rank t D v w := by
  unfold rank
  rcases huv with hup | hdown
  · -- climbing u → v
    have d1 := t.depth_parent u v hup
    rw [if_pos hup]
    rcases hvw with hup2 | hdown2
    · have d2 := t.depth_parent v w hup2
      rw [if_pos hup2]; omega
    · by_cases hc : t.parent v = some w
      · have d2 := t.depth_parent v w hc
        rw [if_pos hc]; omega
      · rw [if_neg hc]
        have d2 := t.depth_parent w v hdown2
        omega
  · -- descending u → v (u is the parent of v)
    have d1 := t.depth_parent v u hdown
    have hnotup : t.parent u ≠ some v := by
      intro h; have := t.depth_parent u v h; omega
    rw [if_neg hnotup]
    rcases hvw with hup2 | hdown2
    · -- v → w climbing: w is v's parent = u, excluded
      rw [hdown] at hup2
      exact absurd (Option.some.inj hup2) hne
    · have hc : t.parent v ≠ some w := by
        intro h; rw [hdown] at h; exact hne (Option.some.inj h)
      rw [if_neg hc]
      have d2 := t.depth_parent w v hdown2
      omega

/-- the dependencies of a set of routes: consecutive channels (u→v, v→w) of some route -/
def Dep (routes : List (List α)) (c c' : α × α) : Prop :=
  ∃ r ∈ routes, ∃ pre post, r = pre ++ [c.1, c.2, c'.2] ++ post ∧ c.2 = c'.1

/-- **acyclicity on trees**: routes over tree links that never return to the node they just left
    (a fortiori routes without repeated nodes) have an acyclic channel-dependency graph -/
theorem tree_acyclic (t : Tree α) (D : Nat) (routes : List (List α))
    (hD : ∀ r ∈ routes, ∀ x ∈ r, t.depth x ≤ D)
    (hlinks : ∀ r ∈ routes, ∀ pre u v post, r = pre ++ [u, v] ++ post → IsLink t u v)
    (hnoret : ∀ r ∈ routes, ∀ pre u v w post, r = pre ++ [u, v, w] ++ post → u ≠ w) :
    Acyclic (Dep routes) := by
  apply acyclic_of_rank (Dep routes) (fun c => rank t D c.1 c.2)
  rintro ⟨u, v⟩ ⟨v', w⟩ ⟨r, hr, pre, post, hrw, hv⟩
  simp only at hv hrw ⊢
  subst hv
  have hmem : ∀ x, x ∈ [u, v, w] → x ∈ r := by
    intro x hx; rw [hrw]; simp only [List.mem_append]; exact Or.inl (Or.inr hx)
  exact rank_step t D u v w ⟨hD r hr u (hmem u (by simp)), hD r hr v (hmem v (by simp))⟩
    (hlinks r hr pre u v ([w] ++ post) (by rw [hrw]; simp))
    (hlinks r hr (pre ++ [u]) v w post (by rw [hrw]; simp))
    (hnoret r hr pre u v w post hrw)

/-- a route without repeated nodes never returns to the node it just left -/
theorem noret_of_nodup (r : List α) (h : r.Nodup) (pre : List α) (u v w : α) (post : List α)
    (hr : r = pre ++ [u, v, w] ++ post) : u ≠ w := by
  intro he
  subst hr
  have := (List.nodup_append.1 (List.nodup_append.1 h).1).2.1
  subst he
  simp [List.nodup_cons] at this

end FlooVerif.C09U

namespace FlooVerif.C09U
open FlooVerif

/-! ### meshes: a turn model (partial: the routes networkx picks are *checked* to obey it) -/

inductive Dir where | N | E | S | W
  deriving Repr, DecidableEq, Inhabited

/-- a mesh channel: the link leaving router (x, y) in direction d; coordinates bounded by M -/
structure MChan where
  x : Nat
  y : Nat
  d : Dir
  deriving Repr, DecidableEq, Inhabited

def moveTo (c : MChan) : Int × Int :=
  match c.d with
  | .N => (c.x, (c.y : Int) + 1) | .E => ((c.x : Int) + 1, c.y)
  | .S => (c.x, (c.y : Int) - 1) | .W => ((c.x : Int) - 1, c.y)

/-- turns of the "west first, east last" discipline: keep going, or W→N, W→S, N→E, S→E -/
def allowedTurn (a b : Dir) : Bool :=
  a == b || (a == .W && (b == .N || b == .S)) || ((a == .N || a == .S) && b == .E)

/-- consecutive channels of a route: the second leaves the router the first leads to -/
def Follows (a b : MChan) : Prop := moveTo a = ((b.x : Int), (b.y : Int)) ∧ allowedTurn a.d b.d = true

/-- rank: all West channels first (by decreasing x), then North/South (by progress in y), then East -/
def mrank (M : Nat) (c : MChan) : Nat :=
  match c.d with
  | .W => M - c.x
  | .N => (M + 1) + c.y
  | .S => (M + 1) + (M - c.y)
  | .E => 2 * (M + 1) + c.x

/-- **turn-model acyclicity**: on a mesh of any size, routes whose consecutive channels obey the
    discipline have an acyclic channel-dependency graph -/
theorem turn_model_acyclic (M : Nat) (R : MChan → MChan → Prop)
    (hR : ∀ a b, R a b → Follows a b ∧ a.x ≤ M ∧ a.y ≤ M ∧ b.x ≤ M ∧ b.y ≤ M) : Acyclic R := by
  apply acyclic_of_rank R (mrank M)
  intro a b hab
  obtain ⟨⟨hmove, hturn⟩, hax, hay, hbx, hby⟩ := hR a b hab
  unfold moveTo at hmove
  unfold allowedTurn at hturn
  unfold mrank
  cases ha : a.d <;> cases hb : b.d <;> simp [ha, hb] at hturn hmove ⊢ <;> omega

end FlooVerif.C09U

/-
  C19 — traffic jobs only address memory that the shipped mesh descriptions map.
  Universally quantified over burst lengths (any wide length up to MEM_SIZE), burst counts, the
  random draw of `uniform`, all tiles and all patterns.  The base-address expressions and constants
  are regenerated from util/gen_jobs.py and the endpoint ranges from the *_mesh_* examples on every
  run, so these theorems are re-proved against the current sources.
-/
import FlooVerif.Jobs
namespace FlooVerif.C19
open FlooVerif Jobs

abbrev Eps := List (String × List Nat × Nat × Nat)

/-- [a, a+len) lies inside the range of one endpoint instance -/
def inSomeRange (eps : Eps) (a len : Nat) : Bool :=
  eps.any fun (_, arr, base, size) =>
    (List.range (arr.foldl (· * ·) 1)).any fun k => decide (base + k * size ≤ a) && decide (a + len ≤ base + (k + 1) * size)

theorem inSomeRange_mono (eps : Eps) (a L len : Nat) (h : inSomeRange eps a L = true) (hl : len ≤ L) :
    inSomeRange eps a len = true := by
  unfold inSomeRange at *
  simp only [List.any_eq_true, Bool.and_eq_true, decide_eq_true_eq] at *
  obtain ⟨e, he, k, hk, h1, h2⟩ := h
  exact ⟨e, he, k, hk, h1, by omega⟩

def allTiles : List (Nat × Nat) := (List.range NX).flatMap fun x => (List.range NY).map fun y => (x, y)

def detTraffic : List Traffic :=
  [.hbm, .onehop, .bitComplement, .bitReverse, .bitRotation, .neighbor, .shuffle, .transpose, .tornado,
   .hotspotBoundary, .hotspot, .matmul]

/-- a whole MEM_SIZE window starting at the target lies in one mapped range -/
def targetOk (eps : Eps) (t : Target) : Bool := inSomeRange eps t.addr MEM

/-- finite part, decided by the kernel on the regenerated facts: every tile's local address and
    every external target of every deterministic pattern (and of every possible uniform draw) is the
    start of a mapped window, in every shipped mesh example -/
def finiteOk : Bool :=
  Gen.meshExamples.all fun (_, eps) =>
    (allTiles.all fun (x, y) =>
      targetOk eps (.tile x y) && targetOk eps (.hbm y) && targetOk eps .zero &&
      detTraffic.all fun t => (accesses t x y 0 true).all fun a => targetOk eps a.ext) &&
    inSomeRange eps 0 0

theorem finite_ok : finiteOk = true := by decide +kernel

/-- lengths never exceed the wide length -/
theorem access_len_le (t : Traffic) (x y wl : Nat) (r : Bool) :
    ∀ a ∈ accesses t x y wl r, a.len ≤ wl := by
  intro a ha
  cases t <;> simp only [accesses] at ha
  all_goals first
    | (simp at ha; subst ha; simp)
    | (split at ha <;> simp at ha <;> subst ha <;> simp)
    | (split at ha <;> (try split at ha) <;> simp at ha <;> subst ha <;> simp)
    | skip
  -- matmul
  simp only [List.mem_append, List.mem_cons, List.mem_map, List.mem_range, List.not_mem_nil, or_false] at ha
  rcases ha with (rfl | ⟨i, _, rfl⟩) | rfl
  · exact Nat.div_le_self _ _
  · exact Nat.le_trans (Nat.div_le_self _ _) (Nat.div_le_self _ _)
  · exact Nat.div_le_self _ _

/-- targets do not depend on lengths or direction -/
theorem access_targets (t : Traffic) (x y wl : Nat) (r : Bool) :
    (accesses t x y wl r).map (·.ext) = (accesses t x y 0 true).map (·.ext) := by
  cases t <;> simp only [accesses] <;> (try split) <;> (try split) <;> simp [Function.comp_def]

/-- **every job of every tile, pattern, direction and burst setting stays inside one mapped range**,
    in every shipped mesh example -/
theorem jobs_in_range (ex : String) (eps : Eps) (hex : (ex, eps) ∈ Gen.meshExamples)
    (t : Traffic) (ht : t ∈ detTraffic ∨ ∃ rx ry, t = .uniform rx ry ∧ rx < NX ∧ ry < NY)
    (x y : Nat) (hx : x < NX) (hy : y < NY) (wl : Nat) (hwl : wl ≤ MEM) (r : Bool) (bursts : Nat) :
    ∀ j ∈ jobsOfTile t x y wl r bursts,
      inSomeRange eps j.src j.len = true ∧ inSomeRange eps j.dst j.len = true := by
  have hfin := finite_ok
  unfold finiteOk at hfin
  have hex' := List.all_eq_true.1 hfin (ex, eps) hex
  simp only [Bool.and_eq_true] at hex'
  obtain ⟨htiles, hzero⟩ := hex'
  have tileMem : ∀ a b, a < NX → b < NY → (a, b) ∈ allTiles := by
    intro a b ha hb
    unfold allTiles
    exact List.mem_flatMap.2 ⟨a, List.mem_range.2 ha, List.mem_map.2 ⟨b, List.mem_range.2 hb, rfl⟩⟩
  have hxy := List.all_eq_true.1 htiles (x, y) (tileMem x y hx hy)
  simp only [Bool.and_eq_true] at hxy
  obtain ⟨⟨⟨hloc, _⟩, hz⟩, hdet⟩ := hxy
  -- every external target is ok
  have hext : ∀ a ∈ accesses t x y wl r, targetOk eps a.ext = true := by
    intro a ha
    rcases ht with ht | ⟨rx, ry, rfl, hrx, hry⟩
    · have h1 := List.all_eq_true.1 hdet t ht
      have hmem : a.ext ∈ (accesses t x y 0 true).map (·.ext) := by
        rw [← access_targets t x y wl r]; exact List.mem_map.2 ⟨a, ha, rfl⟩
      obtain ⟨a', ha', he⟩ := List.mem_map.1 hmem
      rw [← he]; exact List.all_eq_true.1 h1 a' ha'
    · simp [accesses] at ha; subst ha
      have := List.all_eq_true.1 htiles (rx, ry) (tileMem rx ry hrx hry)
      simp only [Bool.and_eq_true] at this
      exact this.1.1.1
  -- the local address is ok
  have hlocal : inSomeRange eps (localAddr t x y) MEM = true := by
    unfold localAddr
    cases t <;> simp only <;> first
      | exact hloc
      | (split
         · exact hloc
         · exact hz)
  intro j hj
  unfold jobsOfTile at hj
  obtain ⟨_, _, hj'⟩ := List.mem_flatMap.1 hj
  obtain ⟨a, ha, rfl⟩ := List.mem_map.1 hj'
  have hlen : a.len ≤ MEM := Nat.le_trans (access_len_le t x y wl r a ha) hwl
  have hE := inSomeRange_mono eps _ _ _ (hext a ha) hlen
  have hL := inSomeRange_mono eps _ _ _ hlocal hlen
  cases hr : a.isRead <;> simp [hr] <;> exact ⟨by first | exact hE | exact hL, by first | exact hL | exact hE⟩

/-- **base addresses**: tile (x,y) ↦ start of cluster (x,y)'s range, channel c ↦ start of hbm c -/
theorem base_addresses : Gen.meshExamples.all (fun (_, eps) =>
    match eps.find? (·.1 == "cluster"), eps.find? (·.1 == "hbm") with
    | some (_, [_, cols], cb, cs), some (_, [_], hb, hs) =>
      (allTiles.all fun (x, y) => xyAddr x y == cb + (x * cols + y) * cs) &&
      ((List.range NY).all fun c => hbmAddr c == hb + c * hs)
    | _, _ => false) = true := by decide +kernel

end FlooVerif.C19

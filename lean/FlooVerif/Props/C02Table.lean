/-
  C02 (generator side) — what a router's ID table says: for every network interface, decoding its identifier in the
  table the model emits for router `rt` (after `trim`) yields the index of the output port of `rt` that carries the
  link to the second node of the oracle's path from `rt` to that interface.
-/
import FlooVerif.Model.Emit
import FlooVerif.Props.C16
import FlooVerif.Props.C03Model
namespace FlooVerif.C02T
open FlooVerif Model C16

/-- in an overlap-free table the covering rule decides -/
theorem decode_of_mem {δ : Type} (t : List (MapRule δ)) (hot : OverlapFree t) (r : MapRule δ) (hr : r ∈ t)
    (i : Int) (hc : r.covers i) : decode t i = some r.dest := by
  unfold decode
  cases hf : t.find? (fun r => decide (r.covers i)) with
  | none =>
    have := List.find?_eq_none.1 hf r hr
    simp at this; exact absurd hc this
  | some r' =>
    have hr' := List.mem_of_find?_eq_some hf
    have hc' : r'.covers i := by simpa using List.find?_some hf
    by_cases he : r' = r
    · simp [he]
    · have := pairwise_forall_ne (fun h => disjoint_symm h) hot r' hr' r hr he
      unfold MapRule.disjoint at this; unfold MapRule.covers at hc hc'; omega

theorem tableRule_spec (sp : PathOracle) (c : Compiled) (rt : Router) (ni : NI) (r : MapRule Nat)
    (h : tableRule sp c rt ni = .ok r) :
    ∃ path nxt e k, sp c.g rt.name ni.name = some path ∧ path[1]? = some nxt ∧
      c.g.findEdge rt.name nxt = some e ∧ ni.id = .simple k ∧
      rt.outgoing[r.dest]? = some (some (linkOf c.g e)) ∧ r.start = (k : Int) ∧ r.stop = (k : Int) + 1 := by
  unfold tableRule at h
  split at h
  rotate_left
  · cases h
  rename_i path hp
  split at h
  rotate_left
  · cases h
  rename_i nxt hn
  split at h
  rotate_left
  · cases h
  rename_i e he
  split at h
  rotate_left
  · cases h
  rename_i idx hi
  cases hid : ni.id with
  | simple k =>
    simp only [hid, bind, Except.bind, pure, Except.pure, Except.ok.injEq] at h
    subst h
    exact ⟨path, nxt, e, k, hp, hn, he, rfl, (C03M.indexOfLink_spec _ _ _ hi).2, rfl, rfl⟩
  | coord x y p =>
    simp [hid, bind, Except.bind, throw, throwThe, MonadExceptOf.throw] at h

/-- **what the emitted ID table of a router says**: for every network interface, its identifier decodes (in the
    table after `trim`) to the port of this router that carries the link to the next node on the oracle's path -/
theorem model_table_decodes (sp : PathOracle) (c : Compiled) (rt : Router) (table : List (MapRule Nat))
    (h : genRouterTable sp c rt = .ok table) (ni : NI) (hni : ni ∈ c.nis) :
    ∃ path nxt e k p, sp c.g rt.name ni.name = some path ∧ path[1]? = some nxt ∧
      c.g.findEdge rt.name nxt = some e ∧ ni.id = .simple k ∧
      rt.outgoing[p]? = some (some (linkOf c.g e)) ∧ decode table (k : Int) = some p := by
  unfold genRouterTable at h
  simp only [bind, Except.bind] at h
  split at h
  · cases h
  rename_i rules hr
  by_cases hc : (!checkNoOverlap rules) = true
  · simp [hc, throw, throwThe, MonadExceptOf.throw] at h
  simp only [hc, Bool.false_eq_true, if_false, pure, Except.pure, Except.ok.injEq] at h
  subst h
  obtain ⟨hlen, hidx⟩ := C03M.mapM_length _ _ _ hr
  -- every rule covers exactly one identifier
  have hv : AllValid rules := by
    intro r hrm
    obtain ⟨x, _, hx⟩ := C05U.mem_mapM_ok _ _ _ hr r hrm
    obtain ⟨_, _, _, k, _, _, _, _, _, hs, he⟩ := tableRule_spec sp c rt x r hx
    unfold MapRule.valid; omega
  have ho : OverlapFree rules := (checkNoOverlap_iff hv).1 (by simpa using hc)
  obtain ⟨i, hi, rfl⟩ := List.getElem_of_mem hni
  have hi' : i < rules.length := by omega
  have hri := hidx i hi hi'
  obtain ⟨path, nxt, e, k, hp, hn, he, hk, hout, hs, hst⟩ := tableRule_spec sp c rt _ _ hri
  refine ⟨path, nxt, e, k, rules[i].dest, hp, hn, he, hk, hout, ?_⟩
  rw [trim_decode_eq rules hv ho]
  exact decode_of_mem rules ho rules[i] (List.getElem_mem hi') k (by unfold MapRule.covers; omega)

end FlooVerif.C02T

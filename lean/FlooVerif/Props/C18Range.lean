import FlooVerif.Props.C18Tree
namespace FlooVerif.C18T
open FlooVerif Model Model.Graph C18

/-- the names a range selection enumerates are the specification's: the cartesian product of the inclusive index
    sequences, first dimension outermost, each tuple appended as `_<i>` segments -/
theorem cartNames_eq_cartesian (rng : List (Int × Int)) :
    ∀ node : String, cartNames node rng =
      (cartesian (rng.map fun ab => seqIncl ab.1 ab.2)).map fun t => node ++ intSuffix t := by
  induction rng with
  | nil => intro node; simp [cartNames, cartesian, intSuffix_nil]
  | cons ab rest ih =>
    obtain ⟨a, b⟩ := ab
    intro node
    simp only [cartNames, List.map_cons, cartesian, List.map_flatMap, List.map_map]
    rw [pyRange_eq_seqIncl]
    refine flatMap_congr' _ _ _ ?_
    intro i _
    rw [ih]
    apply List.map_congr_left
    intro t _
    simp only [Function.comp, intSuffix_cons]
    simp [String.append_assoc]

/-- **a range selection whose nodes all exist returns what the expected-topology function of C06 lists** -/
theorem range_selection_agrees (g : Graph) (d : Desc) (node : String) (rng : List (Int × Int)) (hne : rng ≠ [])
    (hall : ∀ nm ∈ cartNames node rng, g.hasNode nm = true) :
    (nodesFromRange g node rng).toOption = d.select node none (some rng) none := by
  rw [range_product g rng node hne hall]
  unfold Desc.select
  have : rng.isEmpty = false := by cases rng <;> simp_all
  simp only [this, Bool.false_eq_true, if_false, Except.toOption]
  rw [cartNames_eq_cartesian]

theorem intercalate_suffix (x : Int) (xs : List Int) :
    "_" ++ String.intercalate "_" ((x :: xs).map toString) = intSuffix (x :: xs) := by
  induction xs generalizing x with
  | nil => simp [String.intercalate_singleton, intSuffix_cons, intSuffix_nil]
  | cons y ys ih =>
    rw [intSuffix_cons, ← ih y]
    simp only [List.map_cons, String.intercalate_cons_cons]
    simp [String.append_assoc]

/-- **an index selection of an existing node returns what the expected-topology function of C06 lists** -/
theorem idx_selection_agrees (g : Graph) (d : Desc) (node : String) (x : Int) (xs : List Int)
    (h : g.hasNode (node ++ intSuffix (x :: xs)) = true) :
    (nodesFromIdx g node (x :: xs)).toOption = d.select node (some (x :: xs)) none none := by
  have hname : node ++ "_" ++ String.intercalate "_" ((x :: xs).map toString) = node ++ intSuffix (x :: xs) := by
    rw [String.append_assoc, intercalate_suffix]
  have := (idx_spec g node (x :: xs)).1
  simp only [hname] at this
  rw [this h]
  simp [Desc.select, Except.toOption]

end FlooVerif.C18T

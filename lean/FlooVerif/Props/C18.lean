/-
  C18 — node selectors.  Model: Model/Graph.lean (get_nodes_from_range / idx / lvl).
  For every graph and every range list (any number of dimensions, any bounds, ascending, descending
  or equal): the result is exactly the cartesian product of the per-dimension index sequences, first
  dimension outermost — if all addressed nodes exist; otherwise it is an error, never a shorter list.
-/
import FlooVerif.Model.Graph
import FlooVerif.Links
namespace FlooVerif.C18
open FlooVerif Model Model.Graph

/-- the addressed names: cartesian product, first dimension outermost, each dimension from its
    first to its second bound -/
def cartNames (node : String) : List (Int × Int) → List String
  | [] => [node]
  | (a, b) :: rest => (pyRange a b).flatMap fun i => cartNames (node ++ "_" ++ toString i) rest

theorem checkNode_ok (g : Graph) (nm : String) (h : g.hasNode nm = true) : checkNode g nm = .ok nm := by
  unfold checkNode; rw [if_pos h]; rfl

theorem checkNode_err (g : Graph) (nm : String) (h : g.hasNode nm = false) : ∃ e, checkNode g nm = .error e := by
  unfold checkNode; rw [if_neg (by simp [h])]; exact ⟨_, rfl⟩

/-! ### `mapM` in `Except` -/

theorem mapM_ok {α β ε : Type} (f : α → Except ε β) (g : α → β) :
    ∀ (l : List α), (∀ x ∈ l, f x = .ok (g x)) → l.mapM f = .ok (l.map g) := by
  intro l
  induction l with
  | nil => intro _; rfl
  | cons x xs ih =>
    intro h
    rw [List.mapM_cons, h x (by simp), ih (fun y hy => h y (by simp [hy]))]
    rfl

theorem mapM_error {α β ε : Type} (f : α → Except ε β) :
    ∀ (l : List α), (∃ x ∈ l, ∃ e, f x = .error e) → ∃ e, l.mapM f = .error e := by
  intro l
  induction l with
  | nil => rintro ⟨x, hx, _⟩; cases hx
  | cons x xs ih =>
    rintro ⟨y, hy, e, he⟩
    rw [List.mapM_cons]
    cases hfx : f x with
    | error e' => exact ⟨e', rfl⟩
    | ok v =>
      rcases List.mem_cons.1 hy with rfl | hy'
      · rw [hfx] at he; cases he
      · obtain ⟨e'', he''⟩ := ih ⟨y, hy', e, he⟩
        exact ⟨e'', by simp [he'', bind, Except.bind]⟩

/-- **all addressed nodes exist ⇒ exactly the cartesian product, in row-major order** -/
theorem range_product (g : Graph) :
    ∀ (rng : List (Int × Int)) (node : String), rng ≠ [] →
      (∀ nm ∈ cartNames node rng, g.hasNode nm = true) →
      nodesFromRange g node rng = .ok (cartNames node rng) := by
  intro rng
  induction rng with
  | nil => intro node h; exact absurd rfl h
  | cons ab rest ih =>
    obtain ⟨a, b⟩ := ab
    intro node _ hall
    cases rest with
    | nil =>
      simp only [nodesFromRange, cartNames]
      have : (pyRange a b).flatMap (fun i => [node ++ "_" ++ toString i]) =
          (pyRange a b).map (fun i => node ++ "_" ++ toString i) := by
        induction pyRange a b <;> simp_all
      rw [this]
      apply mapM_ok
      intro i hi
      exact checkNode_ok g _ (hall (node ++ "_" ++ toString i) (by
        simp only [cartNames]; exact List.mem_flatMap.2 ⟨i, hi, by simp⟩))
    | cons cd rest' =>
      have hm := mapM_ok (fun i => nodesFromRange g (node ++ "_" ++ toString i) (cd :: rest'))
        (fun i => cartNames (node ++ "_" ++ toString i) (cd :: rest')) (pyRange a b) (by
          intro i hi
          apply ih _ (by simp)
          intro nm hnm
          exact hall nm (by simp only [cartNames]; exact List.mem_flatMap.2 ⟨i, hi, hnm⟩))
      simp only [nodesFromRange, hm, cartNames, bind, Except.bind, pure, Except.pure]
      rw [List.flatMap_def]

/-- **an addressed node that does not exist ⇒ an error, never a shorter list** -/
theorem range_error (g : Graph) :
    ∀ (rng : List (Int × Int)) (node : String),
      (∃ nm ∈ cartNames node rng, g.hasNode nm = false) → rng ≠ [] →
      ∃ e, nodesFromRange g node rng = .error e := by
  intro rng
  induction rng with
  | nil => intro node _ h; exact absurd rfl h
  | cons ab rest ih =>
    obtain ⟨a, b⟩ := ab
    intro node hex _
    obtain ⟨nm, hnm, hno⟩ := hex
    simp only [cartNames] at hnm
    obtain ⟨i, hi, hnm'⟩ := List.mem_flatMap.1 hnm
    cases rest with
    | nil =>
      simp only [cartNames, List.mem_singleton] at hnm'
      subst hnm'
      simp only [nodesFromRange]
      apply mapM_error
      obtain ⟨e, he⟩ := checkNode_err g _ hno
      exact ⟨i, hi, e, he⟩
    | cons cd rest' =>
      obtain ⟨e, he⟩ := ih (node ++ "_" ++ toString i) ⟨nm, hnm', hno⟩ (by simp)
      obtain ⟨e', he'⟩ := mapM_error (fun i => nodesFromRange g (node ++ "_" ++ toString i) (cd :: rest'))
        (pyRange a b) ⟨i, hi, e, he⟩
      refine ⟨e', ?_⟩
      simp only [nodesFromRange, bind, Except.bind]
      rw [he']

/-- an empty range list is an error -/
theorem range_empty (g : Graph) (node : String) : ∃ e, nodesFromRange g node [] = .error e := ⟨_, rfl⟩

/-- Python's `range(start, end ± 1, ±1)` is the inclusive sequence from the first to the second
    bound, ascending or descending (a single element when they are equal) -/
theorem pyRange_eq_seqIncl (a b : Int) : pyRange a b = seqIncl a b := by
  unfold pyRange seqIncl
  by_cases h : b > a
  · have h' : a ≤ b := Int.le_of_lt h
    simp only [h, h', if_true]
    congr 1
    have : (b - a + 1).toNat = (b - a).toNat.succ := by omega
    rw [this]
  · by_cases he : a = b
    · subst he; simp
    · have h' : ¬ a ≤ b := by omega
      simp only [h, h', if_false]
      congr 1
      have : (a - b + 1).toNat = (a - b).toNat.succ := by omega
      rw [this]

theorem pyRange_length (a b : Int) : (pyRange a b).length = (a - b).natAbs + 1 := by
  unfold pyRange
  split <;> simp <;> omega

/-- selecting by index returns that one node, or an error -/
theorem idx_spec (g : Graph) (node : String) (idx : List Int) :
    let nm := node ++ "_" ++ String.intercalate "_" (idx.map toString)
    (g.hasNode nm = true → nodesFromIdx g node idx = .ok [nm]) ∧
    (g.hasNode nm = false → ∃ e, nodesFromIdx g node idx = .error e) := by
  simp only [nodesFromIdx]
  constructor
  · intro h; rw [checkNode_ok g _ h]; rfl
  · intro h; obtain ⟨e, he⟩ := checkNode_err g _ h; exact ⟨e, by rw [he]; rfl⟩

/-- selecting by level returns the nodes of that level of the named tree, in creation order (never an error, and
    never a node of another tree or unit whose name merely starts with the same characters) -/
theorem lvl_spec (g : Graph) (node : String) (lvl : Int) :
    nodesFromLvl g node lvl = .ok (((g.nodes.filter fun n => inTree node lvl n.name).filter
      (fun n => n.lvl.map (fun (l : Nat) => (l : Int)) == some lvl)).map (·.name)) := rfl

/-- a name that continues the tree's name with anything but `_` is not a node of the tree (`r2_0` for tree `r`) -/
theorem not_inTree_of_next (node name : String) (lvl : Int) (c : Char) (rest : List Char) (hc : c ≠ '_')
    (hn : name.toList = node.toList ++ c :: rest) : inTree node lvl name = false := by
  unfold inTree
  have h1 : (name == node) = false := by
    rw [beq_eq_false_iff_ne]
    intro h
    rw [h] at hn
    have := congrArg List.length hn
    simp at this
  have h2 : (node ++ "_").toList.isPrefixOf name.toList = false := by
    rw [hn, String.toList_append]
    have : "_".toList = ['_'] := rfl
    rw [this, Bool.eq_false_iff]
    intro hp
    rw [List.isPrefixOf_iff_prefix] at hp
    obtain ⟨t, ht⟩ := hp
    rw [List.append_assoc] at ht
    have := List.append_cancel_left ht
    simp only [List.singleton_append, List.cons.injEq] at this
    exact hc this.1.symm
  rw [h1, h2]; rfl

/-! non-vacuity -/
example : inTree "r" 1 "r_0_12" = true ∧ inTree "r" 0 "r2_0" = false ∧ inTree "r" 3 "r_cfg" = false ∧ inTree "rt" 0 "rt" = true ∧
    inTree "r" 2 "r_" = false ∧ inTree "r" 0 "r_1_0" = false ∧ inTree "r" 1 "r_1_0" = true := by decide
example : cartNames "r" [(0, 1), (2, 1)] = ["r_0_2", "r_0_1", "r_1_2", "r_1_1"] := by decide
example : pyRange 2 0 = [2, 1, 0] ∧ pyRange 1 1 = [1] ∧ pyRange (-1) 1 = [-1, 0, 1] := by decide

end FlooVerif.C18

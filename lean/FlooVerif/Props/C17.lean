/-
  C17 — address ranges are well-formed under every accepted construction.
  Property theorems only; the model is FlooVerif/AddrRange.lean.
-/
import FlooVerif.AddrRange
namespace FlooVerif.C17

/-- every accepted construction: 0 ≤ start < end and end − start = size -/
theorem mkRange_wf (s : RangeSpec) (r : AddrRange) (h : mkRange s = .ok r) :
    0 ≤ r.start ∧ r.start < r.stop ∧ r.stop - r.start = r.size := by
  unfold mkRange at h
  split at h
  · cases h
  · rename_i start stop size hn
    split at h
    · cases h
    · split at h
      · cases h
      · cases h
        simp only
        have hsz : stop - start = size := by
          unfold normalise at hn
          split at hn <;> try (cases hn)
          all_goals first
            | omega
            | (split at hn <;> cases hn <;> omega)
        omega

/-- start = base + idx·size whenever base and size are both specified (idx defaults to 0) -/
theorem mkRange_based (s : RangeSpec) (r : AddrRange) (h : mkRange s = .ok r)
    (b sz : Int) (hb : s.base = some b) (hs : s.size = some sz) :
    r.start = b + (s.idx.getD 0) * sz ∧ r.size = sz ∧ r.base = some b := by
  unfold mkRange at h
  split at h
  · cases h
  · rename_i start stop size hn
    split at h
    · cases h
    · split at h
      · cases h
      · cases h
        simp only
        unfold normalise at hn
        rw [hb, hs] at hn
        cases hi : s.idx with
        | none => rw [hi] at hn; simp at hn; obtain ⟨h1, _, h3⟩ := hn; subst h1 h3; simp [hb]
        | some i => rw [hi] at hn; simp at hn; obtain ⟨h1, _, h3⟩ := hn; subst h1 h3
                    simp [hb, Int.mul_comm]

/-- re-indexing a based range to element k gives [base+k·size, base+(k+1)·size), size unchanged -/
theorem setIdx_spec (r : AddrRange) (b : Int) (k : Int) (hb : r.base = some b) :
    ∃ r', r.setIdx k = .ok r' ∧ r'.start = b + k * r.size ∧ r'.stop = b + (k + 1) * r.size ∧
      r'.size = r.size ∧ r'.base = some b ∧ r'.idx = some k := by
  unfold AddrRange.setIdx
  rw [hb]
  refine ⟨_, rfl, ?_, ?_, rfl, by simp [hb], rfl⟩
  · simp [Int.mul_comm]
  · simp; rw [Int.add_mul, Int.mul_comm]; omega

/-- re-indexing a range without base is an error -/
theorem setIdx_unbased (r : AddrRange) (k : Int) (hb : r.base = none) :
    r.setIdx k = .error .noBase := by
  unfold AddrRange.setIdx; rw [hb]

/-- contradictory specifications (start, end and size that do not agree, no base) are rejected -/
theorem rejects_contradictory (s : RangeSpec) (st en sz : Int)
    (h1 : s.start = some st) (h2 : s.stop = some en) (h3 : s.size = some sz) (h4 : s.base = none)
    (hne : en - st ≠ sz) : ∃ e, mkRange s = .error e := by
  unfold mkRange normalise
  rw [h1, h2, h3, h4]
  simp [hne]

/-- empty or inverted ranges are rejected, whatever way they were specified -/
theorem rejects_empty (s : RangeSpec) (start stop size : Int)
    (hn : normalise s = .ok (start, stop, size)) (he : stop ≤ start) :
    ∃ e, mkRange s = .error e := by
  unfold mkRange
  rw [hn]
  simp only
  by_cases hneg : start < 0 ∨ stop < 0 ∨ s.base.getD 0 < 0
  · exact ⟨_, by rw [if_pos hneg]⟩
  · rw [if_neg hneg, if_pos (by omega : start ≥ stop)]; exact ⟨_, rfl⟩

/-- negative bounds are rejected, and so is a negative base (a range built on it may itself be non-negative —
    `{base: -4096, size: 4096, idx: 1}` is `[0, 4096)` — but its element 0 is not) -/
theorem rejects_negative (s : RangeSpec) (start stop size : Int)
    (hn : normalise s = .ok (start, stop, size)) (hneg : start < 0 ∨ stop < 0 ∨ s.base.getD 0 < 0) :
    mkRange s = .error .negative := by
  unfold mkRange
  rw [hn]
  simp only
  rw [if_pos hneg]

/-- the base an accepted range carries is not negative: re-indexing it to any element k ≥ 0 stays in the
    address space's non-negative half -/
theorem mkRange_base_nonneg (s : RangeSpec) (r : AddrRange) (h : mkRange s = .ok r) (b : Int)
    (hb : r.base = some b) : 0 ≤ b := by
  unfold mkRange at h
  split at h
  · cases h
  · rename_i start stop size hn
    split at h
    · cases h
    · rename_i hneg
      split at h
      · cases h
      · cases h
        simp only at hb
        rw [hb] at hneg
        simp only [Option.getD_some] at hneg
        omega

/-- a specification that names neither (base,size) nor two of start/end/size is rejected -/
theorem rejects_underspecified (s : RangeSpec)
    (h : (s.size = none ∧ (s.start = none ∨ s.stop = none)) ∨ (s.base = none ∧ s.start = none)) :
    ∃ e, mkRange s = .error e := by
  unfold mkRange normalise
  rcases h with ⟨h1, h2 | h2⟩ | ⟨h1, h2⟩
  · rw [h1, h2]; cases s.stop <;> cases s.base <;> cases s.idx <;> exact ⟨_, rfl⟩
  · rw [h1, h2]; cases s.start <;> cases s.base <;> cases s.idx <;> exact ⟨_, rfl⟩
  · rw [h1, h2]; cases s.size <;> cases s.stop <;> cases s.idx <;> exact ⟨_, rfl⟩

/-! non-vacuity: concrete accepted and re-indexed ranges -/
example : mkRange { base := some 0x1000, size := some 0x100, idx := some 3 } =
    .ok { start := 0x1300, stop := 0x1400, size := 0x100, base := some 0x1000, idx := some 3 } := by rfl
example : mkRange { start := some 5, stop := some 8 } = .ok { start := 5, stop := 8, size := 3 } := by rfl
example : mkRange { start := some 5, stop := some 8, size := some 2 } = .error .invalidSpec := by rfl
example : mkRange { start := some 8, size := some 0 } = .error .empty := by rfl
example : (AddrRange.setIdx { start := 0, stop := 4, size := 4, base := some 16 } 2) =
    .ok { start := 24, stop := 28, size := 4, base := some 16, idx := some 2 } := by rfl

end FlooVerif.C17

/-
  The tie between the hand-written hardware semantics (Hw.lean) and the RTL it was read from: the decision
  blocks of hw/floo_route_select.sv, regenerated as trees on every run (Gen/RtlFacts.lean), compute exactly
  `Hw.xyDecide` and `Hw.srcPop`, for all inputs; the remaining fragments (ID-table branch, the instantiation
  and route masking in floo_router, the look-ups of floo_route_comp) are the token sequences Hw.lean was
  written against.  A change of that RTL breaks one of these theorems.
-/
import FlooVerif.Gen.RtlFacts
import FlooVerif.Hw
namespace FlooVerif.HwTie
open FlooVerif Rtl Hw Gen

/-- what the names of the XY branch stand for: destination (`id_in`), own coordinate (`xy_id_i`), destination
    port, and the members of `route_direction_e` -/
def envXY (cx cy dx dy : Int) (port : Nat) : Env XyName
  | .id_in_x => some dx | .id_in_y => some dy
  | .xy_id_i_x => some cx | .xy_id_i_y => some cy
  | .channel_i_hdr_dst_id_port_id => some port
  | .North => some North | .East => some East | .South => some South | .West => some West | .Eject => some Eject
  | .route_sel_id => none | .route_sel => none

/-- **floo_route_select, XY branch = `Hw.xyDecide`**, for every own coordinate, destination and port -/
theorem xy_agrees (cx cy dx dy : Int) (port : Nat) :
    execList (envXY cx cy dx dy port) rtlXy .route_sel_id = some ((xyDecide cx cy dx dy port : Nat) : Int) := by
  simp only [rtlXy, execList, exec, eval, evalOp, envXY, xyDecide, b2i]
  by_cases hx : dx = cx <;> by_cases hy : dy = cy <;> by_cases hyl : dy < cy <;> by_cases hxl : dx < cx <;>
    simp [hx, hy, hyl, hxl, North, East, South, West, Eject, Env.set_same, Env.set_ne, envXY]

end FlooVerif.HwTie

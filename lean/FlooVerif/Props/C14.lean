/-
  C14 — emitted routes are shortest paths.  The decider compares the hop count of each route
  with a distance potential on the emitted topology; this file proves that a valid potential
  bounds *every* walk from below, for graphs of any size.
-/
import FlooVerif.Check2
import FlooVerif.Lemmas.Paths
namespace FlooVerif.C14
open FlooVerif

def edgeRel (edges : List (String × String)) (a b : String) : Prop := (a, b) ∈ edges

/-- **a valid potential is a lower bound on the length of every walk to `dst`** -/
theorem lower_bound_of_potValid (edges : List (String × String)) (pot : List (String × Nat))
    (dst : String) (h : potValid edges pot dst = true) :
    ∀ a n, PathLen (edgeRel edges) a dst n → ∃ da, potOf pot a = some da ∧ da ≤ n := by
  unfold potValid at h
  simp only [Bool.and_eq_true, beq_iff_eq] at h
  apply potential_lower_bound (edgeRel edges) (potOf pot) dst
  · intro a b hab db hb
    have := List.all_eq_true.1 h.2 (a, b) hab
    simp only [hb] at this
    cases ha : potOf pot a with
    | none => rw [ha] at this; simp at this
    | some da => rw [ha] at this; exact ⟨da, rfl, by simpa using this⟩
  · exact h.1

/-- **C14 on one route**: if the route crosses `k` routers and the checked potential of its first
    router is `k`, no walk over emitted links from that router to the destination is shorter -/
theorem route_is_shortest (edges : List (String × String)) (pot : List (String × Nat))
    (dst r0 : String) (k : Nat) (h : potValid edges pot dst = true) (hk : potOf pot r0 = some k) :
    ∀ n, PathLen (edgeRel edges) r0 dst n → k ≤ n := by
  intro n p
  obtain ⟨da, ha, hle⟩ := lower_bound_of_potValid edges pot dst h r0 n p
  rw [hk] at ha; cases ha; exact hle

/-- a negative verdict: a strictly shorter walk refutes minimality of a `k`-router route -/
theorem not_shortest_of_shorter (edges : List (String × String)) (r0 dst : String) (k n : Nat)
    (_p : PathLen (edgeRel edges) r0 dst n) (hlt : n < k) :
    ¬ (∀ m, PathLen (edgeRel edges) r0 dst m → k ≤ m) := by
  intro hall; have := hall n _p; omega

/-! non-vacuity -/
example : potValid [("r0", "r1"), ("r1", "c"), ("r0", "r2"), ("r2", "r1")]
    [("c", 0), ("r1", 1), ("r0", 2), ("r2", 2)] "c" = true := by decide

end FlooVerif.C14

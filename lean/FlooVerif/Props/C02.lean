/-
  C02 — table-based routing delivers.  Two kinds of theorem:
  (G) about the hardware walk over an emitted netlist (`Hw.walk`): the verdict does not depend on
      the fuel the decider happens to use, and a walk that never repeats a router is short;
  (U) about any next-hop function that descends a distance potential (what per-router tables built
      from shortest paths are): it arrives, in exactly `φ src` hops, never visiting a node twice —
      on graphs of any size.
-/
import FlooVerif.Hw
import Mathlib.Data.List.Nodup
import Mathlib.Data.List.Range
namespace FlooVerif.C02
open FlooVerif Hw

/-! ### (U) next hops that descend a potential -/

/-- follow `next` for `n` steps -/
def iter {α : Type} (next : α → Option α) : Nat → α → Option α
  | 0, a => some a
  | n + 1, a => (next a).bind (iter next n)

/-- the nodes visited by following `next` for `n` steps (start included) -/
def trace {α : Type} (next : α → Option α) : Nat → α → List α
  | 0, a => [a]
  | n + 1, a => a :: (match next a with | some b => trace next n b | none => [])

/-- **arrival**: if every node with positive potential has a next hop whose potential is exactly
    one less, then from any node the destination set (potential 0) is reached after exactly
    `φ a` hops -/
theorem arrives_of_potential {α : Type} (next : α → Option α) (φ : α → Nat)
    (h : ∀ a, φ a ≠ 0 → ∃ b, next a = some b ∧ φ b + 1 = φ a) :
    ∀ n a, φ a = n → ∃ t, iter next n a = some t ∧ φ t = 0 := by
  intro n
  induction n with
  | zero => intro a ha; exact ⟨a, rfl, ha⟩
  | succ n ih =>
    intro a ha
    obtain ⟨b, hb, hφ⟩ := h a (by omega)
    obtain ⟨t, ht, h0⟩ := ih b (by omega)
    exact ⟨t, by simp [iter, hb, ht], h0⟩

/-- **no revisits**: the potentials along the walk are strictly decreasing, hence all visited
    nodes are pairwise distinct -/
theorem trace_potentials {α : Type} (next : α → Option α) (φ : α → Nat)
    (h : ∀ a, φ a ≠ 0 → ∃ b, next a = some b ∧ φ b + 1 = φ a) :
    ∀ n a, φ a = n → (trace next n a).map φ = (List.range (n + 1)).reverse := by
  intro n
  induction n with
  | zero => intro a ha; simp [trace, ha]
  | succ n ih =>
    intro a ha
    obtain ⟨b, hb, hφ⟩ := h a (by omega)
    have := ih b (by omega)
    simp only [trace, hb, List.map_cons, this]
    rw [List.range_succ (n := n + 1), List.reverse_append]
    simp [ha]

theorem trace_nodup {α : Type} (next : α → Option α) (φ : α → Nat)
    (h : ∀ a, φ a ≠ 0 → ∃ b, next a = some b ∧ φ b + 1 = φ a) (a : α) :
    (trace next (φ a) a).Nodup := by
  have hm := trace_potentials next φ h (φ a) a rfl
  have : ((trace next (φ a) a).map φ).Nodup := by
    rw [hm]; exact List.nodup_reverse.2 List.nodup_range
  exact List.Nodup.of_map φ this

/-! ### (G) the hardware walk -/

/-- more fuel never changes a walk that ended (delivered or dropped) -/
theorem walk_fuel_mono (n : Net) (f : Fabric) :
    ∀ (k : Nat) (w : Where) (h : Hdr) (acc : List Step) (res : List Step × Outcome),
      walk n f k w h acc = res → res.2 ≠ .outOfFuel → ∀ k', k ≤ k' → walk n f k' w h acc = res := by
  intro k
  induction k with
  | zero =>
    intro w h acc res hw hne k' _
    cases w with
    | chimney c => cases k' <;> simpa [walk] using hw
    | router r j => simp [walk] at hw; subst hw; simp at hne
  | succ k ih =>
    intro w h acc res hw hne k' hk
    cases w with
    | chimney c => cases k' <;> simpa [walk] using hw
    | router rn j =>
      obtain ⟨k'', rfl⟩ : ∃ k'', k' = k'' + 1 := ⟨k' - 1, by omega⟩
      simp only [walk] at hw ⊢
      cases hf : (routers n).find? (·.name == rn) with
      | none => simp only [hf] at hw ⊢; exact hw
      | some r =>
        simp only [hf] at hw ⊢
        cases hd : routeDecide n r h with
        | none => simp only [hd] at hw ⊢; exact hw
        | some ph =>
          obtain ⟨p, h'⟩ := ph
          simp only [hd] at hw ⊢
          by_cases hal : (!allowed h.isXY j p) = true
          · rw [if_pos hal] at hw ⊢; exact hw
          · rw [if_neg hal] at hw ⊢
            cases hh : hop n f r p with
            | none => simp only [hh] at hw ⊢; exact hw
            | some w' =>
              simp only [hh] at hw ⊢
              exact ih _ _ _ _ hw hne k'' (by omega)

/-! non-vacuity of the potential theorem: a 3-node line 2 → 1 → 0 -/
example : ∃ t, iter (fun a : Nat => if a = 0 then none else some (a - 1)) 2 2 = some t ∧ id t = 0 :=
  arrives_of_potential _ id (by
    intro a ha
    have : a ≠ 0 := ha
    exact ⟨a - 1, by simp [this], by simp only [id]; omega⟩) 2 2 rfl

end FlooVerif.C02

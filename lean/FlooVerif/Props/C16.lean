/-
  C16 — routing-table compaction never changes what the table decodes.
  Model: RouteMap.lean (`trim`); helper lemmas: Lemmas/RouteMapLemmas.lean.
-/
import FlooVerif.Lemmas.RouteMapLemmas
namespace FlooVerif.C16
open List FlooVerif

variable {δ : Type} [DecidableEq δ]

/-- every rule of the group of destination `d` carries destination `d` -/
private theorem group_dest {l : List (MapRule δ)} {d : δ} :
    ∀ r ∈ mergeAdj (sortRules (l.filter (·.dest = d))), r.dest = d := by
  intro r hr
  obtain ⟨r0, hr0, _, hd⟩ := mergeAdj_mem_start r hr
  have := mem_sortRules.1 hr0
  simp at this
  rw [← hd]; exact this.2

private theorem group_valid {l : List (MapRule δ)} (hv : AllValid l) (d : δ) :
    AllValid (l.filter (·.dest = d)) := fun r hr => hv r (mem_filter.1 hr).1

private theorem group_overlapFree {l : List (MapRule δ)} (ho : OverlapFree l) (d : δ) :
    OverlapFree (l.filter (·.dest = d)) := Pairwise.filter _ ho

/-- **compaction preserves, per port, exactly which identifiers are covered** -/
theorem trim_covers_iff (l : List (MapRule δ)) (hv : AllValid l) (ho : OverlapFree l) (d : δ) (i : Int) :
    (∃ r ∈ trim l, r.dest = d ∧ r.covers i) ↔ (∃ r ∈ l, r.dest = d ∧ r.covers i) := by
  unfold trim
  constructor
  · rintro ⟨r, hr, hd, hc⟩
    obtain ⟨d', hd', hr'⟩ := mem_flatMap.1 hr
    have hdd : r.dest = d' := group_dest r hr'
    have := (mergeAdj_covers (fun r hr => group_valid hv d' r (mem_sortRules.1 hr))
      (ordered_sortRules (group_valid hv d') (group_overlapFree ho d')) i).1 ⟨r, hr', hc⟩
    obtain ⟨r0, hr0, hc0⟩ := this
    have hm := mem_filter.1 (mem_sortRules.1 hr0)
    refine ⟨r0, hm.1, ?_, hc0⟩
    have : r0.dest = d' := by simpa using hm.2
    rw [this, ← hdd, hd]
  · rintro ⟨r0, hr0, hd, hc⟩
    have hmem : d ∈ destsOf l := mem_destsOf.2 ⟨r0, hr0, hd⟩
    have hr0' : r0 ∈ sortRules (l.filter (·.dest = d)) :=
      mem_sortRules.2 (mem_filter.2 ⟨hr0, by simpa using hd⟩)
    obtain ⟨r, hr, hcr⟩ := (mergeAdj_covers (fun r hr => group_valid hv d r (mem_sortRules.1 hr))
      (ordered_sortRules (group_valid hv d) (group_overlapFree ho d)) i).2 ⟨r0, hr0', hc⟩
    exact ⟨r, mem_flatMap.2 ⟨d, hmem, hr⟩, group_dest r hr, hcr⟩

theorem trim_valid (l : List (MapRule δ)) (hv : AllValid l) (ho : OverlapFree l) : AllValid (trim l) := by
  intro r hr
  unfold trim at hr
  obtain ⟨d, _, hr'⟩ := mem_flatMap.1 hr
  exact mergeAdj_valid (fun r hr => group_valid hv d r (mem_sortRules.1 hr))
    (ordered_sortRules (group_valid hv d) (group_overlapFree ho d)) r hr'

/-- two valid rules that are not disjoint share a point -/
private theorem common_point {a b : MapRule δ} (va : a.valid) (vb : b.valid)
    (h : ¬ MapRule.disjoint a b) : ∃ i, a.covers i ∧ b.covers i := by
  unfold MapRule.valid at va vb
  unfold MapRule.disjoint at h
  by_cases hs : a.start ≤ b.start
  · exact ⟨b.start, ⟨hs, by omega⟩, ⟨Int.le_refl _, vb⟩⟩
  · exact ⟨a.start, ⟨Int.le_refl _, va⟩, ⟨by omega, by omega⟩⟩

/-- **the compacted table is overlap-free** -/
theorem trim_overlap_free (l : List (MapRule δ)) (hv : AllValid l) (ho : OverlapFree l) :
    OverlapFree (trim l) := by
  unfold OverlapFree trim
  rw [pairwise_flatMap]
  refine ⟨?_, ?_⟩
  · intro d _
    exact ordered_overlapFree ((mergeAdj_strict (fun r hr => group_valid hv d r (mem_sortRules.1 hr))
      (ordered_sortRules (group_valid hv d) (group_overlapFree ho d))).imp (fun h => Int.le_of_lt h))
  · refine (nodup_destsOf l).imp_of_mem ?_
    intro d1 d2 h1 h2 hne x hx y hy
    apply Decidable.byContradiction
    intro hnd
    have vx := trim_valid l hv ho x (by unfold trim; exact mem_flatMap.2 ⟨d1, h1, hx⟩)
    have vy := trim_valid l hv ho y (by unfold trim; exact mem_flatMap.2 ⟨d2, h2, hy⟩)
    obtain ⟨i, cx, cy⟩ := common_point vx vy hnd
    have ex := (trim_covers_iff l hv ho d1 i).1
      ⟨x, by unfold trim; exact mem_flatMap.2 ⟨d1, h1, hx⟩, group_dest x hx, cx⟩
    have ey := (trim_covers_iff l hv ho d2 i).1
      ⟨y, by unfold trim; exact mem_flatMap.2 ⟨d2, h2, hy⟩, group_dest y hy, cy⟩
    obtain ⟨x0, hx0, dx0, cx0⟩ := ex
    obtain ⟨y0, hy0, dy0, cy0⟩ := ey
    have hne0 : x0 ≠ y0 := by intro h; rw [h] at dx0; exact hne (dx0.symm.trans dy0)
    have := pairwise_forall_ne (fun h => disjoint_symm h) ho x0 hx0 y0 hy0 hne0
    unfold MapRule.disjoint at this
    unfold MapRule.covers at cx0 cy0
    omega

/-- **each rule's size equals end minus start** -/
theorem trim_sizes (l : List (MapRule δ)) (hs : SizesOk l) : SizesOk (trim l) := by
  intro r hr
  unfold trim at hr
  obtain ⟨d, _, hr'⟩ := mem_flatMap.1 hr
  exact mergeAdj_sizes (fun r hr => hs r (mem_filter.1 (mem_sortRules.1 hr)).1) r hr'

/-- **no two touching rules with the same port survive** -/
theorem trim_no_touching (l : List (MapRule δ)) (hv : AllValid l) (ho : OverlapFree l) :
    ∀ x ∈ trim l, ∀ y ∈ trim l, x.dest = y.dest → x.stop ≠ y.start := by
  intro x hx y hy hd
  have vx := trim_valid l hv ho x hx
  have vy := trim_valid l hv ho y hy
  unfold trim at hx hy
  obtain ⟨d1, _, hx'⟩ := mem_flatMap.1 hx
  obtain ⟨d2, _, hy'⟩ := mem_flatMap.1 hy
  have e1 := group_dest x hx'
  have e2 := group_dest y hy'
  have : d1 = d2 := by rw [← e1, ← e2, hd]
  subst this
  have hs := mergeAdj_strict (fun r hr => group_valid hv d1 r (mem_sortRules.1 hr))
      (ordered_sortRules (group_valid hv d1) (group_overlapFree ho d1))
  unfold MapRule.valid at vx vy
  rcases pairwise_trichotomy hs x hx' y hy' with rfl | h | h <;> omega

/-- **compaction maps every identifier to the same port, or to no port, as before** -/
theorem trim_decode_eq (l : List (MapRule δ)) (hv : AllValid l) (ho : OverlapFree l) (i : Int) :
    decode (trim l) i = decode l i := by
  have hot := trim_overlap_free l hv ho
  -- uniqueness of the covering rule in an overlap-free table
  have uniq : ∀ (t : List (MapRule δ)), OverlapFree t → ∀ d, decode t i = some d ↔
      ∃ r ∈ t, r.dest = d ∧ r.covers i := by
    intro t hot d
    unfold decode
    constructor
    · intro h
      cases hf : t.find? (fun r => decide (r.covers i)) with
      | none => rw [hf] at h; cases h
      | some r =>
        rw [hf] at h; simp at h
        exact ⟨r, mem_of_find?_eq_some hf, h, by simpa using find?_some hf⟩
    · rintro ⟨r, hr, hd, hc⟩
      cases hf : t.find? (fun r => decide (r.covers i)) with
      | none =>
        have := find?_eq_none.1 hf r hr
        simp at this; exact absurd hc this
      | some r' =>
        have hr' := mem_of_find?_eq_some hf
        have hc' : r'.covers i := by simpa using find?_some hf
        by_cases he : r' = r
        · simp [he, hd]
        · have := pairwise_forall_ne (fun h => disjoint_symm h) hot r' hr' r hr he
          unfold MapRule.disjoint at this; unfold MapRule.covers at hc hc'; omega
  cases h : decode l i with
  | some d =>
    exact (uniq _ hot d).2 ((trim_covers_iff l hv ho d i).2 ((uniq _ ho d).1 h))
  | none =>
    cases h' : decode (trim l) i with
    | none => rfl
    | some d =>
      have := (uniq _ ho d).2 ((trim_covers_iff l hv ho d i).1 ((uniq _ hot d).1 h'))
      rw [h] at this; cases this

/-! non-vacuity: a concrete overlap-free table with touching same-port rules in shuffled order -/
def exTable : List (MapRule Nat) :=
  [⟨1, 4, 6, 2, none⟩, ⟨0, 0, 2, 2, none⟩, ⟨1, 2, 4, 2, none⟩, ⟨0, 7, 8, 1, none⟩]

theorem exTable_ok : AllValid exTable ∧ OverlapFree exTable := by
  unfold AllValid OverlapFree exTable MapRule.valid MapRule.disjoint; simp
/-- (the kernel cannot unfold the well-founded `mergeSort`, so the instance is shown through the theorems) -/
example : decode (trim exTable) 3 = some 1 ∧ decode (trim exTable) 6 = none := by
  rw [trim_decode_eq _ exTable_ok.1 exTable_ok.2, trim_decode_eq _ exTable_ok.1 exTable_ok.2]; decide
example : checkNoOverlap exTable = true := (checkNoOverlap_iff exTable_ok.1).2 exTable_ok.2

end FlooVerif.C16

/-
  C02 / C14 (generator level, graph form) — per-router next hops taken from shortest paths deliver,
  along a shortest path, without revisiting a node: for every graph of any size and for EVERY path
  oracle that satisfies the shortest-path contract (so the result does not depend on how networkx
  breaks ties).  This is what `gen_router_tables` relies on: each router stores, per destination, the
  second node of `shortest_path(router, destination)`.
-/
import FlooVerif.Props.C02
namespace FlooVerif.C02U
open FlooVerif C02

variable {α : Type}

/-- consecutive nodes are joined by edges -/
def Chain (E : α → α → Prop) : List α → Prop
  | [] => False
  | [_] => True
  | x :: y :: rest => E x y ∧ Chain E (y :: rest)

structure IsPath (E : α → α → Prop) (p : List α) (a b : α) : Prop where
  chain : Chain E p
  head : p.head? = some a
  last : p.getLast? = some b

/-- the contract assumed of `networkx.shortest_path(G, ·, dst)` -/
structure SPContract (E : α → α → Prop) (sp : α → Option (List α)) (dst : α) : Prop where
  sound : ∀ a p, sp a = some p → IsPath E p a dst
  minimal : ∀ a p q, sp a = some p → IsPath E q a dst → p.length ≤ q.length
  complete : ∀ a q, IsPath E q a dst → ∃ p, sp a = some p

/-- the table entry of node `a` for destination `dst`: second node of the path -/
def nextHop (sp : α → Option (List α)) (a : α) : Option α :=
  match sp a with
  | some (_ :: y :: _) => some y
  | _ => none

theorem tail_isPath {E : α → α → Prop} {a y dst : α} {rest : List α}
    (h : IsPath E (a :: y :: rest) a dst) : IsPath E (y :: rest) y dst :=
  ⟨h.chain.2, rfl, by simpa [List.getLast?_cons_cons] using h.last⟩

theorem cons_isPath {E : α → α → Prop} {a y dst : α} {q : List α}
    (he : E a y) (h : IsPath E q y dst) : IsPath E (a :: q) a dst := by
  cases q with
  | nil => exact absurd h.chain (by simp [Chain])
  | cons x xs =>
    have hx : x = y := by simpa using h.head
    subst hx
    exact ⟨⟨he, h.chain⟩, rfl, by simpa [List.getLast?_cons_cons] using h.last⟩

/-- **optimal substructure**: the path the oracle returns from the next hop is exactly one shorter -/
theorem next_is_closer {E : α → α → Prop} {sp : α → Option (List α)} {dst : α}
    (hc : SPContract E sp dst) {a y : α} {rest : List α} (hp : sp a = some (a :: y :: rest)) :
    ∃ p', sp y = some p' ∧ p'.length + 1 = (a :: y :: rest).length := by
  have hpath := hc.sound a _ hp
  have htail := tail_isPath hpath
  obtain ⟨p', hp'⟩ := hc.complete y _ htail
  refine ⟨p', hp', ?_⟩
  have h1 : p'.length ≤ (y :: rest).length := hc.minimal y p' _ hp' htail
  have h2 : (a :: y :: rest).length ≤ (a :: p').length :=
    hc.minimal a _ _ hp (cons_isPath hpath.chain.1 (hc.sound y p' hp'))
  simp only [List.length_cons] at *
  omega

/-- the oracle's path from `a` starts at `a` -/
theorem sp_head {E : α → α → Prop} {sp : α → Option (List α)} {dst : α}
    (hc : SPContract E sp dst) {a : α} {p : List α} (hp : sp a = some p) : ∃ t, p = a :: t := by
  have := (hc.sound a p hp)
  cases p with
  | nil => exact absurd this.chain (by simp [Chain])
  | cons x xs => exact ⟨xs, by have := this.head; simp at this; rw [this]⟩

/-- **delivery**: following the table entries from any node from which `dst` is reachable arrives at
    `dst` after exactly (length of the oracle's path − 1) hops -/
theorem tables_deliver {E : α → α → Prop} {sp : α → Option (List α)} {dst : α}
    (hc : SPContract E sp dst) :
    ∀ (n : Nat) (a : α) (p : List α), sp a = some p → p.length = n + 1 →
      iter (nextHop sp) n a = some dst := by
  intro n
  induction n with
  | zero =>
    intro a p hp hl
    obtain ⟨t, rfl⟩ := sp_head hc hp
    have : t = [] := by cases t <;> simp_all
    subst this
    have := (hc.sound a _ hp).last
    simp at this
    simp [iter, this]
  | succ n ih =>
    intro a p hp hl
    obtain ⟨t, rfl⟩ := sp_head hc hp
    cases t with
    | nil => simp at hl
    | cons y rest =>
      obtain ⟨p', hp', hlen⟩ := next_is_closer hc hp
      have hn : nextHop sp a = some y := by unfold nextHop; rw [hp]
      simp only [iter, hn, Option.bind_some]
      exact ih y p' hp' (by simp only [List.length_cons] at hl hlen; omega)

/-- **minimality (C14)**: no walk from `a` to `dst` has fewer nodes than the route taken -/
theorem route_is_minimal {E : α → α → Prop} {sp : α → Option (List α)} {dst : α}
    (hc : SPContract E sp dst) (a : α) (p : List α) (hp : sp a = some p) :
    ∀ q, IsPath E q a dst → p.length ≤ q.length := fun q hq => hc.minimal a p q hp hq

/-- **no node is visited twice**: the remaining distance strictly decreases at every hop -/
theorem remaining_decreases {E : α → α → Prop} {sp : α → Option (List α)} {dst : α}
    (hc : SPContract E sp dst) (a y : α) (hn : nextHop sp a = some y) :
    ∃ p p', sp a = some p ∧ sp y = some p' ∧ p'.length + 1 = p.length := by
  unfold nextHop at hn
  cases hp : sp a with
  | none => simp [hp] at hn
  | some p =>
    obtain ⟨t, rfl⟩ := sp_head hc hp
    cases t with
    | nil => simp [hp] at hn
    | cons y' rest =>
      simp [hp] at hn; subst hn
      obtain ⟨p', hp', hl⟩ := next_is_closer hc hp
      exact ⟨_, p', rfl, hp', hl⟩

/-! non-vacuity: on the line 0 – 1 – 2 the obvious oracle satisfies the contract towards 0 -/
example : iter (nextHop (fun a : Nat => some ((List.range (a + 1)).reverse))) 2 2 = some 0 := by decide

end FlooVerif.C02U

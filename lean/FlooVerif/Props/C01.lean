/-
  C01 — the system address map decodes every declared address to its owning endpoint.
  `C01.holds` evaluates the hardware's decoder at finitely many points (interval end points);
  this file proves that this decides the statement for *every* address of the 2^aw space.
-/
import FlooVerif.Check
namespace FlooVerif.C01
open FlooVerif

/-- The property on one emitted output, quantified over all addresses: every address of an owned
    interval matches exactly one rule whose destination is the identity configured on the owner's
    network interface (`insideOk`), owned intervals lie inside the address space, and every other
    address matches no rule. -/
def Spec (d : Desc) (n : Net) : Prop :=
  (∀ o ∈ d.owned, o.hi ≤ 2 ^ n.aw ∧ ∀ a, o.lo ≤ a → a < o.hi → insideOk n o a = true) ∧
  (∀ a, a < 2 ^ n.aw → inOwned d a = false → samMatching n a = [])

/-- largest threshold not above `a` (0 if none) -/
def maxBelow : List Nat → Nat → Nat
  | [], _ => 0
  | t :: ts, a => if t ≤ a ∧ maxBelow ts a < t then t else maxBelow ts a

theorem maxBelow_le (T : List Nat) (a : Nat) : maxBelow T a ≤ a := by
  induction T with
  | nil => simp [maxBelow]
  | cons t ts ih => unfold maxBelow; split <;> omega

theorem le_maxBelow (T : List Nat) (a : Nat) : ∀ t ∈ T, t ≤ a → t ≤ maxBelow T a := by
  induction T with
  | nil => intro t ht; cases ht
  | cons t0 ts ih =>
    intro t ht hta
    unfold maxBelow
    rcases List.mem_cons.1 ht with rfl | h
    · split <;> omega
    · have := ih t h hta
      split <;> omega

theorem maxBelow_mem (T : List Nat) (a : Nat) : maxBelow T a ∈ T ∨ maxBelow T a = 0 := by
  induction T with
  | nil => right; rfl
  | cons t ts ih =>
    unfold maxBelow
    split
    · left; exact List.mem_cons_self
    · rcases ih with h | h
      · left; exact List.mem_cons_of_mem _ h
      · right; exact h

/-- comparisons against thresholds cannot tell `a` from `maxBelow T a` -/
theorem cmp_stable (T : List Nat) (a t : Nat) (ht : t ∈ T) :
    (t ≤ a ↔ t ≤ maxBelow T a) ∧ (a < t ↔ maxBelow T a < t) := by
  have h1 := maxBelow_le T a
  have h2 := le_maxBelow T a t ht
  constructor
  · constructor
    · exact h2
    · intro h; omega
  · constructor
    · intro h; omega
    · intro h
      apply Decidable.byContradiction
      intro hn
      have := h2 (by omega)
      omega

theorem lo_mem (d : Desc) (n : Net) (r : Rule) (hr : r ∈ n.sam) : ruleLo n r ∈ thresholds n d := by
  unfold thresholds
  refine List.mem_cons_of_mem _ (List.mem_append_left _ ?_)
  exact List.mem_flatMap.2 ⟨r, hr, by simp⟩

theorem hi_mem (d : Desc) (n : Net) (r : Rule) (hr : r ∈ n.sam) : ruleHi n r ∈ thresholds n d := by
  unfold thresholds
  refine List.mem_cons_of_mem _ (List.mem_append_left _ ?_)
  exact List.mem_flatMap.2 ⟨r, hr, by simp⟩

theorem olo_mem (d : Desc) (n : Net) (o : Owned) (ho : o ∈ d.owned) : o.lo ∈ thresholds n d := by
  unfold thresholds
  refine List.mem_cons_of_mem _ (List.mem_append_right _ ?_)
  exact List.mem_flatMap.2 ⟨o, ho, by simp⟩

theorem ohi_mem (d : Desc) (n : Net) (o : Owned) (ho : o ∈ d.owned) : o.hi ∈ thresholds n d := by
  unfold thresholds
  refine List.mem_cons_of_mem _ (List.mem_append_right _ ?_)
  exact List.mem_flatMap.2 ⟨o, ho, by simp⟩

theorem zero_mem (d : Desc) (n : Net) : 0 ∈ thresholds n d := by
  unfold thresholds; exact List.mem_cons_self

theorem maxBelow_mem_thresholds (d : Desc) (n : Net) (a : Nat) :
    maxBelow (thresholds n d) a ∈ thresholds n d := by
  rcases maxBelow_mem (thresholds n d) a with h | h
  · exact h
  · rw [h]; exact zero_mem d n

/-- the set of matching rules is the same at `a` and at the threshold below it -/
theorem matching_stable (d : Desc) (n : Net) (a : Nat) :
    samMatching n a = samMatching n (maxBelow (thresholds n d) a) := by
  unfold samMatching Hw.matching
  apply List.filter_congr
  intro r hr
  unfold Hw.ruleMatches
  have hl := cmp_stable (thresholds n d) a _ (lo_mem d n r hr)
  have hh := cmp_stable (thresholds n d) a _ (hi_mem d n r hr)
  unfold ruleLo at hl; unfold ruleHi at hh
  simp only
  rw [Bool.eq_iff_iff]
  simp only [Bool.and_eq_true, Bool.or_eq_true, decide_eq_true_eq, beq_iff_eq]
  rw [hl.1, hh.2]

theorem inOwned_stable (d : Desc) (n : Net) (a : Nat) :
    inOwned d a = inOwned d (maxBelow (thresholds n d) a) := by
  unfold inOwned
  rw [Bool.eq_iff_iff]
  simp only [List.any_eq_true, Bool.and_eq_true, decide_eq_true_eq]
  constructor
  · rintro ⟨o, ho, h1, h2⟩
    exact ⟨o, ho, (cmp_stable _ a _ (olo_mem d n o ho)).1.1 h1, (cmp_stable _ a _ (ohi_mem d n o ho)).2.1 h2⟩
  · rintro ⟨o, ho, h1, h2⟩
    exact ⟨o, ho, (cmp_stable _ a _ (olo_mem d n o ho)).1.2 h1, (cmp_stable _ a _ (ohi_mem d n o ho)).2.2 h2⟩

theorem insideOk_stable (d : Desc) (n : Net) (o : Owned) (a : Nat) :
    insideOk n o a = insideOk n o (maxBelow (thresholds n d) a) := by
  unfold insideOk; rw [matching_stable d n a]

/-- **the finite evaluation decides the statement for every address** -/
theorem holds_iff_spec (d : Desc) (n : Net) : holds d n = true ↔ Spec d n := by
  unfold holds Spec
  simp only [Bool.and_eq_true, List.all_eq_true, decide_eq_true_eq]
  constructor
  · rintro ⟨hin, hout⟩
    refine ⟨?_, ?_⟩
    · intro o ho
      obtain ⟨hfit, hpts⟩ := hin o ho
      refine ⟨hfit, ?_⟩
      intro a h1 h2
      rw [insideOk_stable d n o a]
      apply hpts
      unfold pointsIn
      refine List.mem_cons_of_mem _ (List.mem_filter.2 ⟨maxBelow_mem_thresholds d n a, ?_⟩)
      simp only [Bool.and_eq_true, decide_eq_true_eq]
      exact ⟨(cmp_stable _ a _ (olo_mem d n o ho)).1.1 h1, (cmp_stable _ a _ (ohi_mem d n o ho)).2.1 h2⟩
    · intro a ha hno
      rw [matching_stable d n a]
      have := hout (maxBelow (thresholds n d) a) (by
        unfold pointsOut
        refine List.mem_filter.2 ⟨maxBelow_mem_thresholds d n a, ?_⟩
        simp only [Bool.and_eq_true, decide_eq_true_eq, Bool.not_eq_true']
        exact ⟨Nat.lt_of_le_of_lt (maxBelow_le _ a) ha, by rw [← inOwned_stable d n a]; exact hno⟩)
      simpa using this
  · rintro ⟨hin, hout⟩
    refine ⟨?_, ?_⟩
    · intro o ho
      obtain ⟨hfit, hall⟩ := hin o ho
      refine ⟨hfit, ?_⟩
      intro p hp
      unfold pointsIn at hp
      rcases List.mem_cons.1 hp with rfl | h
      · by_cases hv : o.lo < o.hi
        · exact hall _ (Nat.le_refl _) hv
        · -- an owned interval is never empty (construction of `Desc.owned`)
          exfalso
          unfold Desc.owned at ho
          obtain ⟨i, _, hi⟩ := List.mem_flatMap.1 ho
          split at hi
          · obtain ⟨⟨r, ri⟩, _, hr⟩ := List.mem_filterMap.1 hi
            simp only at hr
            split at hr
            · split at hr
              · cases hr; simp only at hv; omega
              · cases hr
            · cases hr
          · cases hi
      · have := (List.mem_filter.1 h).2
        simp only [Bool.and_eq_true, decide_eq_true_eq] at this
        exact hall p this.1 this.2
    · intro p hp
      unfold pointsOut at hp
      have := (List.mem_filter.1 hp).2
      simp only [Bool.and_eq_true, decide_eq_true_eq, Bool.not_eq_true'] at this
      rw [hout p this.1 this.2]; rfl

end FlooVerif.C01

/-
  C06 — the pairing of source and destination selections (`pairing_agrees`).  The specification (`pairUp`, written
  from docs/floogen.md: "contiguous grouping") and the model of create_connections (duplicate each
  element of the shorter side k times, then zip) agree for all selections.
-/
import FlooVerif.Links
import FlooVerif.Model.Build
namespace FlooVerif.C06U
open FlooVerif

/-- element i of "every element repeated k times" is element i / k -/
theorem getD_flatMap_replicate (k : Nat) (hk : 0 < k) :
    ∀ (l : List String) (i : Nat), i < l.length * k →
      (l.flatMap fun t => List.replicate k t).getD i "" = l.getD (i / k) "" := by
  intro l
  induction l with
  | nil => intro i h; simp at h
  | cons x xs ih =>
    intro i h
    simp only [List.flatMap_cons]
    by_cases hi : i < k
    · rw [List.getD_eq_getElem?_getD, List.getElem?_append_left (by simpa using hi)]
      simp [Nat.div_eq_of_lt hi, hi]
    · have hi' : k ≤ i := Nat.le_of_not_lt hi
      rw [List.getD_eq_getElem?_getD, List.getElem?_append_right (by simpa using hi')]
      simp only [List.length_replicate]
      have hdiv : i / k = (i - k) / k + 1 := by
        have : i = (i - k) + k := by omega
        rw [this, Nat.add_div_right _ hk]; simp
      rw [hdiv, List.getD_cons_succ, ← ih (i - k) (by simp [Nat.succ_mul] at h; omega),
        List.getD_eq_getElem?_getD]

/-- **k sources per destination**: zipping the sources with the destinations, each repeated k times,
    pairs source i with destination i / k -/
theorem zip_replicate_eq (srcs dsts : List String) (k : Nat) (hk : 0 < k)
    (hlen : srcs.length = dsts.length * k) :
    srcs.zip (dsts.flatMap fun t => List.replicate k t) =
      srcs.zipIdx.map fun (s, i) => (s, dsts.getD (i / k) "") := by
  apply List.ext_getElem
  · simp [hlen, List.length_flatMap, List.map_const', List.sum_replicate_nat]
  · intro i h1 h2
    simp only [List.getElem_zip, List.getElem_map, List.getElem_zipIdx, Nat.zero_add]
    congr 1
    have hi : i < dsts.length * k := by simp at h2; omega
    have := getD_flatMap_replicate k hk dsts i hi
    rw [List.getD_eq_getElem?_getD] at this
    rw [← this, List.getElem?_eq_getElem (by
      simp [List.length_flatMap, List.map_const', List.sum_replicate_nat]; exact hi)]
    rfl

theorem zip_replicate_eq' (srcs dsts : List String) (k : Nat) (hk : 0 < k)
    (hlen : dsts.length = srcs.length * k) :
    (srcs.flatMap fun s => List.replicate k s).zip dsts =
      dsts.zipIdx.map fun (t, i) => (srcs.getD (i / k) "", t) := by
  apply List.ext_getElem
  · simp [hlen, List.length_flatMap, List.map_const', List.sum_replicate_nat]
  · intro i h1 h2
    simp only [List.getElem_zip, List.getElem_map, List.getElem_zipIdx, Nat.zero_add]
    congr 1
    have hi : i < srcs.length * k := by simp at h2; omega
    have := getD_flatMap_replicate k hk srcs i hi
    rw [List.getD_eq_getElem?_getD] at this
    rw [← this, List.getElem?_eq_getElem (by
      simp [List.length_flatMap, List.map_const', List.sum_replicate_nat]; exact hi)]
    rfl

/-- **the generator pairs sources and destinations exactly as the specification says**, for all
    selections: same pairs in the same order, and an error exactly where the specification has none -/
theorem pairing_agrees (multi : Bool) (srcs dsts : List String) :
    (match Model.matchLists multi srcs dsts with
     | .ok (a, b) => some (a.zip b)
     | .error _ => none) = pairUp srcs dsts multi := by
  unfold Model.matchLists pairUp
  simp only
  by_cases c1 : (srcs.length == dsts.length) = true
  · simp [c1, pure, Except.pure]
  rw [if_neg c1, if_neg c1]
  by_cases c2 : (multi && dsts.length != 0 && srcs.length % dsts.length == 0 && decide (srcs.length > dsts.length)) = true
  · rw [if_pos c2, if_pos c2]
    simp only [pure, Except.pure]
    congr 1
    simp only [Bool.and_eq_true, bne_iff_ne, ne_eq, beq_iff_eq, decide_eq_true_eq] at c2
    obtain ⟨⟨⟨_, hnd⟩, hmod⟩, hgt⟩ := c2
    have hk : 0 < srcs.length / dsts.length := Nat.div_pos (Nat.le_of_lt hgt) (Nat.pos_of_ne_zero hnd)
    exact zip_replicate_eq srcs dsts _ hk (by
      have := Nat.div_add_mod srcs.length dsts.length
      rw [hmod, Nat.add_zero] at this; exact this.symm)
  rw [if_neg c2, if_neg c2]
  by_cases c3 : (multi && srcs.length != 0 && dsts.length % srcs.length == 0 && decide (dsts.length > srcs.length)) = true
  · rw [if_pos c3, if_pos c3]
    simp only [pure, Except.pure]
    congr 1
    simp only [Bool.and_eq_true, bne_iff_ne, ne_eq, beq_iff_eq, decide_eq_true_eq] at c3
    obtain ⟨⟨⟨_, hns⟩, hmod⟩, hgt⟩ := c3
    have hk : 0 < dsts.length / srcs.length := Nat.div_pos (Nat.le_of_lt hgt) (Nat.pos_of_ne_zero hns)
    exact zip_replicate_eq' srcs dsts _ hk (by
      have := Nat.div_add_mod dsts.length srcs.length
      rw [hmod, Nat.add_zero] at this; exact this.symm)
  rw [if_neg c3, if_neg c3]
  rfl
/-! non-vacuity -/
example : pairUp ["a", "b", "c", "d"] ["x", "y"] true = some [("a", "x"), ("b", "x"), ("c", "y"), ("d", "y")] := by decide
example : pairUp ["a", "b", "c"] ["x", "y"] true = none := by decide

end FlooVerif.C06U

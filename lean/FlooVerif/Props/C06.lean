/-
  C06 — the pairing of source and destination selections.  The specification (`pairUp`, written
  from docs/floogen.md: "contiguous grouping") and the model of create_connections (duplicate each
  element of the shorter side k times, then zip) agree for all selections.
-/
import FlooVerif.Links
import FlooVerif.Model.Build
namespace FlooVerif.C06U
open FlooVerif

/-- element i of "every element repeated k times" is element i / k -/
theorem getD_flatMap_replicate (k : Nat) (hk : 0 < k) :
    ∀ (l : List String) (i : Nat), i < l.length * k →
      (l.flatMap fun t => List.replicate k t).getD i "" = l.getD (i / k) "" := by
  intro l
  induction l with
  | nil => intro i h; simp at h
  | cons x xs ih =>
    intro i h
    simp only [List.flatMap_cons]
    by_cases hi : i < k
    · rw [List.getD_eq_getElem?_getD, List.getElem?_append_left (by simpa using hi)]
      simp [Nat.div_eq_of_lt hi, hi]
    · have hi' : k ≤ i := Nat.le_of_not_lt hi
      rw [List.getD_eq_getElem?_getD, List.getElem?_append_right (by simpa using hi')]
      simp only [List.length_replicate]
      have hdiv : i / k = (i - k) / k + 1 := by
        have : i = (i - k) + k := by omega
        rw [this, Nat.add_div_right _ hk]; simp
      rw [hdiv, List.getD_cons_succ, ← ih (i - k) (by simp [Nat.succ_mul] at h; omega),
        List.getD_eq_getElem?_getD]

/-- **k sources per destination**: zipping the sources with the destinations, each repeated k times,
    pairs source i with destination i / k -/
theorem zip_replicate_eq (srcs dsts : List String) (k : Nat) (hk : 0 < k)
    (hlen : srcs.length = dsts.length * k) :
    srcs.zip (dsts.flatMap fun t => List.replicate k t) =
      srcs.zipIdx.map fun (s, i) => (s, dsts.getD (i / k) "") := by
  apply List.ext_getElem
  · simp [hlen, List.length_flatMap, List.map_const', List.sum_replicate_nat]
  · intro i h1 h2
    simp only [List.getElem_zip, List.getElem_map, List.getElem_zipIdx, Nat.zero_add]
    congr 1
    have hi : i < dsts.length * k := by simp at h2; omega
    have := getD_flatMap_replicate k hk dsts i hi
    rw [List.getD_eq_getElem?_getD] at this
    rw [← this, List.getElem?_eq_getElem (by
      simp [List.length_flatMap, List.map_const', List.sum_replicate_nat]; exact hi)]
    rfl

/-! non-vacuity -/
example : pairUp ["a", "b", "c", "d"] ["x", "y"] true = some [("a", "x"), ("b", "x"), ("c", "y"), ("d", "y")] := by decide
example : pairUp ["a", "b", "c"] ["x", "y"] true = none := by decide

end FlooVerif.C06U

/-
  C05 (generator level) — the slotting of router links (model of compile_routers after the repair):
  the "fill the free slots in order" step keeps incoming and outgoing slots paired, for any number
  of ports and links.
-/
import FlooVerif.Model.Compile
namespace FlooVerif.C05U
open FlooVerif Model

/-- two slot lists are paired: both free, or both taken by related links -/
inductive SlotsRel {α β : Type} (R : α → β → Prop) : List (Option α) → List (Option β) → Prop where
  | nil : SlotsRel R [] []
  | free {as bs} : SlotsRel R as bs → SlotsRel R (none :: as) (none :: bs)
  | taken {a b as bs} : R a b → SlotsRel R as bs → SlotsRel R (some a :: as) (some b :: bs)

inductive ListRel {α β : Type} (R : α → β → Prop) : List α → List β → Prop where
  | nil : ListRel R [] []
  | cons {a b as bs} : R a b → ListRel R as bs → ListRel R (a :: as) (b :: bs)

/-- **filling free slots preserves the pairing**: if the directed links already occupy the same
    indices with paired links and the pending undirected links are paired position by position
    (outgoing taken "in the order of their incoming counterparts"), the result is paired again and
    the same number of links is left over on both sides -/
theorem fillFree_paired {α β : Type} (R : α → β → Prop) :
    ∀ (sa : List (Option α)) (sb : List (Option β)) (pa : List α) (pb : List β),
      SlotsRel R sa sb → ListRel R pa pb →
      SlotsRel R (fillFree sa pa).1 (fillFree sb pb).1 ∧ ListRel R (fillFree sa pa).2 (fillFree sb pb).2 := by
  intro sa sb pa pb hs
  induction hs generalizing pa pb with
  | nil => intro hp; exact ⟨.nil, hp⟩
  | free _ ih =>
    intro hp
    cases hp with
    | nil => simp only [fillFree]; exact ⟨.free ‹_›, .nil⟩
    | cons hr hrest =>
      simp only [fillFree]
      obtain ⟨h1, h2⟩ := ih _ _ hrest
      exact ⟨.taken hr h1, h2⟩
  | taken hr _ ih =>
    intro hp
    simp only [fillFree]
    obtain ⟨h1, h2⟩ := ih _ _ hp
    exact ⟨.taken hr h1, h2⟩

/-- a link and its counterpart in the opposite direction: same two units -/
def Counterpart (i o : Link) : Prop := i.source = o.dest ∧ i.dest = o.source

/-- paired slot lists attach the same neighbour to input i and output i -/
theorem paired_same_neighbour (sa sb : List (Option Link)) (h : SlotsRel Counterpart sa sb) (i : Nat) :
    (sa.getD i none).map (·.source) = (sb.getD i none).map (·.dest) := by
  induction h generalizing i with
  | nil => simp
  | free _ ih => cases i <;> simp; exact ih _
  | taken hr _ ih => cases i <;> simp [hr.1]; exact ih _

/-! non-vacuity: the star with connections declared in reverse order -/
example : (fillFree [none, none] [(⟨"m_ni", "r", true⟩ : Link), ⟨"a_ni", "r", true⟩]).1 =
    [some ⟨"m_ni", "r", true⟩, some ⟨"a_ni", "r", true⟩] := by decide

end FlooVerif.C05U

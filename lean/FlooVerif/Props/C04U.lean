/-
  C04 (generator side) — the wiring of an auto-connected router array *is* the grid: for every size
  m × n, the array constructor links element (i, j) to (i-1, j) through its West port and to
  (i, j-1) through its South port (and back through East / North), i.e. every link leaves a
  router through the port whose `move` lands on the neighbour's index.  Together with
  `C04.dor_reaches` (the hardware decision walks such a grid to the destination) this is the
  size-independent half of C04; the emitted text is tied to it by the per-instance check.
-/
import FlooVerif.Props.C04
import FlooVerif.Props.C05Graph
namespace FlooVerif.C04U
open FlooVerif Model Model.Graph C05G

/-- `g'` has the edges of `g` followed by more edges -/
def EdgesGrow (g g' : Graph) : Prop := ∃ ex, g'.edges = g.edges ++ ex

theorem eg_refl (g : Graph) : EdgesGrow g g := ⟨[], by simp⟩
theorem eg_trans {a b c : Graph} (h1 : EdgesGrow a b) (h2 : EdgesGrow b c) : EdgesGrow a c := by
  obtain ⟨x, hx⟩ := h1; obtain ⟨y, hy⟩ := h2
  exact ⟨x ++ y, by rw [hy, hx, List.append_assoc]⟩
theorem eg_mem {g g' : Graph} (h : EdgesGrow g g') {e : Edge} (he : e ∈ g.edges) : e ∈ g'.edges := by
  obtain ⟨x, hx⟩ := h; rw [hx]; exact List.mem_append_left _ he
theorem eg_addNode {g g' : Graph} {n : Node} (h : g.addNode n = .ok g') : EdgesGrow g g' := by
  obtain ⟨_, rfl⟩ := addNode_ok h; exact eg_refl _
theorem eg_addEdge {g g' : Graph} {e : Edge} (h : g.addEdge e = .ok g') : EdgesGrow g g' ∧ e ∈ g'.edges := by
  obtain ⟨_, _, rfl⟩ := addEdge_ok h; exact ⟨⟨[e], rfl⟩, by simp⟩

/-- a fold whose steps only add edges, each step establishing a fact that more edges cannot undo -/
theorem fold_collect {ι : Type} (Q : ι → Graph → Prop)
    (hmono : ∀ x g g', EdgesGrow g g' → Q x g → Q x g') (f : Graph → ι → D Graph)
    (hf : ∀ g x g1, f g x = .ok g1 → EdgesGrow g g1 ∧ Q x g1) :
    ∀ (l : List ι) (g g' : Graph), l.foldlM f g = .ok g' → EdgesGrow g g' ∧ ∀ x ∈ l, Q x g' := by
  intro l
  induction l with
  | nil =>
    intro g g' h
    simp [List.foldlM, pure, Except.pure] at h; subst h
    exact ⟨eg_refl g, by simp⟩
  | cons x xs ih =>
    intro g g' h
    simp only [List.foldlM] at h
    obtain ⟨g1, h1, h2⟩ := bind_ok h
    obtain ⟨e1, q1⟩ := hf g x g1 h1
    obtain ⟨e2, q2⟩ := ih g1 g' h2
    refine ⟨eg_trans e1 e2, ?_⟩
    intro y hy
    rcases List.mem_cons.1 hy with rfl | hy
    · exact hmono _ _ _ e2 q1
    · exact q2 y hy

/-- name of element (i, j) -/
def nm (name : String) (i j : Nat) : String := name ++ "_" ++ toString i ++ "_" ++ toString j

/-- `g` links `a` to `b`, leaving `a` through port `p` and entering `b` through port `q` -/
def HasLink (g : Graph) (a b : String) (p q : Nat) : Prop :=
  ∃ e ∈ g.edges, e.src = a ∧ e.dst = b ∧ e.kind = .link ∧ e.srcDir = some p ∧ e.dstDir = some q

theorem hasLink_mono {g g' : Graph} (h : EdgesGrow g g') {a b : String} {p q : Nat}
    (hl : HasLink g a b p q) : HasLink g' a b p q := by
  obtain ⟨e, he, rest⟩ := hl; exact ⟨e, eg_mem h he, rest⟩

/-- what element (i, j) is wired to when the array is built -/
def Wired (name : String) (i j : Nat) (g : Graph) : Prop :=
  (0 < i → HasLink g (nm name i j) (nm name (i - 1) j) Hw.West Hw.East ∧
           HasLink g (nm name (i - 1) j) (nm name i j) Hw.East Hw.West) ∧
  (0 < j → HasLink g (nm name i j) (nm name i (j - 1)) Hw.South Hw.North ∧
           HasLink g (nm name i (j - 1)) (nm name i j) Hw.North Hw.South)

/-- **the auto-connected array is the grid**, for every m and n -/
theorem array_is_grid (g g' : Graph) (name : String) (m n : Nat) (kind : NodeKind) (k : Nat)
    (h : g.addNodesAsArray name [m, n] kind k true = .ok g') :
    ∀ i < m, ∀ j < n, Wired name i j g' := by
  unfold Graph.addNodesAsArray at h
  have hw : ∀ i j g g', EdgesGrow g g' → Wired name i j g → Wired name i j g' := by
    intro i j g g' hg ⟨w1, w2⟩
    exact ⟨fun hi => ⟨hasLink_mono hg (w1 hi).1, hasLink_mono hg (w1 hi).2⟩,
           fun hj => ⟨hasLink_mono hg (w2 hj).1, hasLink_mono hg (w2 hj).2⟩⟩
  have := fold_collect (fun i g => ∀ j < n, Wired name i j g) (fun i g g' hg q j hj => hw i j g g' hg (q j hj))
    _ ?_ _ g g' h
  · exact fun i hi j hj => this.2 i (List.mem_range.2 hi) j hj
  · intro g i g1 h1
    have := fold_collect (fun j g => Wired name i j g) (fun j g g' hg q => hw i j g g' hg q) _ ?_ _ g g1 h1
    · exact ⟨this.1, fun j hj => this.2 j (List.mem_range.2 hj)⟩
    · intro g j g2 h2
      obtain ⟨ga, ha, h2⟩ := bind_ok h2
      have ega := eg_addNode ha
      -- the South/North pair, from any graph
      have hjp : ∀ gb gc : Graph,
          (if (decide (j > 0) && true) = true then
            (do let g ← gb.addEdge { src := name ++ "_" ++ toString i ++ "_" ++ toString j,
                                     dst := name ++ "_" ++ toString i ++ "_" ++ toString (j - 1),
                                     kind := .link, srcDir := some 2, dstDir := some 0 }
                g.addEdge { src := name ++ "_" ++ toString i ++ "_" ++ toString (j - 1),
                            dst := name ++ "_" ++ toString i ++ "_" ++ toString j,
                            kind := .link, srcDir := some 0, dstDir := some 2 })
           else pure gb) = .ok gc →
          EdgesGrow gb gc ∧ (0 < j → HasLink gc (nm name i j) (nm name i (j - 1)) Hw.South Hw.North ∧
            HasLink gc (nm name i (j - 1)) (nm name i j) Hw.North Hw.South) := by
        intro gb gc hh
        by_cases cj : (decide (j > 0) && true) = true
        · rw [if_pos cj] at hh
          obtain ⟨gd, hd, he⟩ := bind_ok hh
          obtain ⟨e1, m1⟩ := eg_addEdge hd
          obtain ⟨e2, m2⟩ := eg_addEdge he
          exact ⟨eg_trans e1 e2, fun _ =>
            ⟨⟨_, eg_mem e2 m1, rfl, rfl, rfl, rfl, rfl⟩, ⟨_, m2, rfl, rfl, rfl, rfl, rfl⟩⟩⟩
        · rw [if_neg cj] at hh
          rw [← pure_ok hh]
          exact ⟨eg_refl _, fun hj => by simp [hj] at cj⟩
      by_cases ci : (decide (i > 0) && true) = true
      · simp only [ci, if_true] at h2
        obtain ⟨gb, hb, h2⟩ := bind_ok h2
        obtain ⟨gc, hc, h2⟩ := bind_ok h2
        obtain ⟨e1, m1⟩ := eg_addEdge hb
        obtain ⟨e2, m2⟩ := eg_addEdge hc
        obtain ⟨e3, wj⟩ := hjp gc g2 h2
        refine ⟨eg_trans ega (eg_trans e1 (eg_trans e2 e3)), fun _ => ?_, wj⟩
        exact ⟨⟨_, eg_mem e3 (eg_mem e2 m1), rfl, rfl, rfl, rfl, rfl⟩, ⟨_, eg_mem e3 m2, rfl, rfl, rfl, rfl, rfl⟩⟩
      · simp only [ci, if_false, pure_bind, Bool.false_eq_true] at h2
        obtain ⟨e3, wj⟩ := hjp ga g2 h2
        exact ⟨eg_trans ega e3, fun hi => by simp [hi] at ci, wj⟩

/-- every array link leaves element (i, j) through the port whose `move` lands on the index of the
    element it reaches: West → (i-1, j), South → (i, j-1), East → (i+1, j), North → (i, j+1) -/
theorem wiring_agrees_with_move (i j : Nat) :
    (0 < i → C04.move i j Hw.West = (((i - 1 : Nat) : Int), (j : Int)) ∧
             C04.move ((i - 1 : Nat) : Int) j Hw.East = ((i : Int), (j : Int))) ∧
    (0 < j → C04.move i j Hw.South = ((i : Int), ((j - 1 : Nat) : Int)) ∧
             C04.move i ((j - 1 : Nat) : Int) Hw.North = ((i : Int), (j : Int))) := by
  refine ⟨fun hi => ?_, fun hj => ?_⟩
  · simp only [C04.move, Hw.West, Hw.East, Hw.North, Hw.South]
    refine ⟨by simp; omega, by simp; omega⟩
  · simp only [C04.move, Hw.West, Hw.East, Hw.North, Hw.South]
    refine ⟨by simp; omega, by simp; omega⟩

end FlooVerif.C04U

/-
  Tie of `Hw.allowed` to the route masking of hw/floo_router.sv: the two conditions under which the router
  masks a route from input `in_route` to output `out_route` (regenerated as expressions on every run),
  with the parameters at their defaults (`NoLoopback = 1`, `XYRouteOpt = 1`: `rtl_shape` pins the defaults),
  hold exactly when `Hw.allowed` says no.
-/
import FlooVerif.Gen.RtlFacts
import FlooVerif.Hw
namespace FlooVerif.HwTie
open FlooVerif Rtl Hw Gen

def envMask (xy : Bool) (inP outP : Nat) : Env MaskName
  | .in_route => some inP | .out_route => some outP
  | .NoLoopback => some 1 | .XYRouteOpt => some 1
  | .XYRouting => some 2 | .RouteAlgo => some (if xy then 2 else 0)
  | .South => some South | .North => some North | .East => some East | .West => some West

/-- **floo_router masks a route exactly when `Hw.allowed` forbids it** -/
theorem mask_agrees (xy : Bool) (inP outP : Nat) :
    (eval (envMask xy inP outP) rtlMaskLoop = some 1 ∨ eval (envMask xy inP outP) rtlMaskXY = some 1) ↔
      allowed xy inP outP = false := by
  simp only [rtlMaskLoop, rtlMaskXY, eval, evalOp, envMask, b2i, allowed]
  by_cases h1 : inP = outP <;> by_cases h2 : inP = 2 <;> by_cases h3 : inP = 0 <;> by_cases h4 : outP = 1 <;>
    by_cases h5 : outP = 3 <;> cases xy <;> simp [h1, h2, h3, h4, h5, North, East, South, West] <;> omega

end FlooVerif.HwTie

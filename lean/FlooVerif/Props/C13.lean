/-
  C13 (generator level) — emitted counts equal the sizes of what they size, for every description:
  facts about the rendering model (Model/Emit.lean), which reproduces floogen token for token.
-/
import FlooVerif.Model.Emit
namespace FlooVerif.C13U
open FlooVerif Model Sv

/-- number of entries of an emitted `'{…}` pattern -/
def patLen : Expr → Option Nat
  | .pat fs => some fs.length
  | _ => none

/-- `SamNumRules`, the number of `Sam` entries and `Sam`'s declared dimension agree -/
theorem sam_count (d : Desc) (r : Routed) (hne : r.sam ≠ []) :
    ∃ structDef samVal,
      samItems d r = [Item.localparam uintT "SamNumRules" (.num r.sam.length), structDef,
        Item.localparam { words := ["sam_rule_t"], dims := [(.sub (.ident "SamNumRules") (.num 1), .num 0)] } "Sam" samVal] ∧
      patLen samVal = some r.sam.length := by
  unfold samItems
  have : r.sam.isEmpty = false := by cases h : r.sam with | nil => exact absurd h hne | cons _ _ => rfl
  simp only [this]
  exact ⟨_, _, rfl, by simp [patLen, Model.num, Model.ident]⟩

/-- the routing configuration record stores the same count -/
theorem cfg_num_sam_rules (d : Desc) (r : Routed) :
    ∃ fs, routeCfgItem d r = Item.localparam (plainT "route_cfg_t") "RouteCfg" (.pat fs) ∧
      patField fs "NumSamRules" = some (.num r.sam.length) ∧
      patField fs "NumRoutes" = some (.num (if d.algo == .SRC then r.numEndpoints else 0)) := by
  unfold routeCfgItem
  exact ⟨_, rfl, by simp [patField, Model.num], by simp [patField, Model.num]⟩

/-- router parameters are the lengths of the slot lists they size (same expression, by construction) -/
theorem router_counts (d : Desc) (r : Routed) (rt : Router) (items : List Item)
    (h : routerItems d r rt = .ok items) :
    ∃ params binds modName, Item.inst modName params rt.name binds ∈ items ∧
      (params.find? (·.1 == "NumInputs")).map (·.2) = some (.num rt.incoming.length) ∧
      (params.find? (·.1 == "NumOutputs")).map (·.2) = some (.num rt.outgoing.length) ∧
      (params.find? (·.1 == "NumRoutes")).map (·.2) = some (.num rt.degree) := by
  unfold routerItems at h
  simp only [bind, Except.bind, pure, Except.pure] at h
  split at h
  · cases h
  · cases h
    refine ⟨_, _, _, List.mem_append_right _ (List.mem_singleton.2 rfl), ?_, ?_, ?_⟩ <;>
    · cases d.netType <;> simp [Model.num, Model.ident]

end FlooVerif.C13U

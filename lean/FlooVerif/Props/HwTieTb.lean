/-
  Pinned RTL (written by harness/mk_rtl_pins.py from the tree the semantics was read against):
  how the mesh testbenches derive the job file and the memory window of the DMA node at (x, y): the statements
mentioning `Index`, `JobId`, `MemBaseAddr` and the generate loops around them.
-/
import FlooVerif.Gen.RtlFacts
namespace FlooVerif.HwTie
open FlooVerif Rtl Gen

def pin_tbJobs_0 : List String := [
    "tb_floo_axi_mesh.sv", "for", "(", "genvar", "x", "=", "0", ";", "x", "+", "+", ")", "begin", ":",
    "gen_x", "for", "(", "genvar", "y", "=", "0", ";", "localparam", "int", "unsigned", "Index", "=", "x",
    "*", "NumY", "+", "y", ";", "localparam", "addr_t", "MemBaseAddr", "=", "Sam", "[", "ClusterX0Y0", "+",
    "Index", "]", ".", "start_addr", ";", "floo_dma_test_node", "#", "(", ".", "TA", "(", "ApplTime", ")",
    ",", ".", "TT", "(", "TestTime", ")", ",", ".", "AxiCfg", "(", "axi_cfg_swap_iw", "(", "AxiCfg", ")",
    ")", ",", ".", "MemBaseAddr", "(", "MemBaseAddr", ")", ",", ".", "MemSize", "(", "MemSize", ")", ",",
    ".", "NumAxInFlight", "(", "2", "*", "floo_test_pkg", "::", "ChimneyCfg", ".", "MaxTxnsPerId", ")", ",",
    ".", "axi_in_req_t", "(", "axi_out_req_t", ")", ",", ".", "axi_in_rsp_t", "(", "axi_out_rsp_t", ")", ",",
    ".", "axi_out_req_t", "(", "axi_in_req_t", ")", ",", ".", "axi_out_rsp_t", "(", "axi_in_rsp_t", ")", ",",
    ".", "JobId", "(", "Index", ")", ")", "i_dma_node", "(", ".", "clk_i", "(", "clk", ")", ",", ".",
    "rst_ni", "(", "rst_n", ")", ",", ".", "axi_in_req_i", "(", "cluster_out_req", "[", "x", "]", "[", "y",
    "]", ")", ",", ".", "axi_in_rsp_o", "(", "cluster_out_rsp", "[", "x", "]", "[", "y", "]", ")", ",", ".",
    "axi_out_req_o", "(", "cluster_in_req", "[", "x", "]", "[", "y", "]", ")", ",", ".", "axi_out_rsp_i",
    "(", "cluster_in_rsp", "[", "x", "]", "[", "y", "]", ")", ",", ".", "end_of_sim_o", "(", "end_of_sim",
    "[", "x", "]", "[", "y", "]", ")", ")", ";"
  ]


def pin_tbJobs_1_0 : List String := [
    "tb_floo_nw_mesh.sv", "for", "(", "genvar", "x", "=", "0", ";", "x", "+", "+", ")", "begin", ":",
    "gen_x", "for", "(", "genvar", "y", "=", "0", ";", "localparam", "int", "unsigned", "Index", "=", "x",
    "*", "NumY", "+", "y", ";", "localparam", "addr_t", "MemBaseAddr", "=", "Sam", "[", "ClusterX0Y0", "+",
    "Index", "]", ".", "start_addr", ";", "floo_dma_test_node", "#", "(", ".", "TA", "(", "ApplTime", ")",
    ",", ".", "TT", "(", "TestTime", ")", ",", ".", "AxiCfg", "(", "axi_cfg_swap_iw", "(", "AxiCfgN", ")",
    ")", ",", ".", "MemBaseAddr", "(", "MemBaseAddr", ")", ",", ".", "MemSize", "(", "MemSize", ")", ",",
    ".", "NumAxInFlight", "(", "2", "*", "floo_test_pkg", "::", "ChimneyCfg", ".", "MaxTxnsPerId", ")", ",",
    ".", "axi_in_req_t", "(", "axi_narrow_out_req_t", ")", ",", ".", "axi_in_rsp_t", "(",
    "axi_narrow_out_rsp_t", ")", ",", ".", "axi_out_req_t", "(", "axi_narrow_in_req_t", ")", ",", ".",
    "axi_out_rsp_t", "(", "axi_narrow_in_rsp_t", ")", ",", ".", "JobId", "(", "100", "+", "Index", ")", ")",
    "i_narrow_dma_node", "(", ".", "clk_i", "(", "clk", ")", ",", ".", "rst_ni", "(", "rst_n", ")", ",", ".",
    "axi_in_req_i", "(", "cluster_narrow_out_req", "[", "x", "]", "[", "y", "]", ")", ",", ".",
    "axi_in_rsp_o", "(", "cluster_narrow_out_rsp", "[", "x", "]", "[", "y", "]", ")", ",", ".",
    "axi_out_req_o", "(", "cluster_narrow_in_req", "[", "x", "]", "[", "y", "]", ")", ",", ".",
    "axi_out_rsp_i", "(", "cluster_narrow_in_rsp", "[", "x", "]", "[", "y", "]", ")", ",", ".",
    "end_of_sim_o", "(", "end_of_sim", "[", "x", "]", "[", "y", "]", "[", "0"
  ]

def pin_tbJobs_1_1 : List String := [
    "]", ")", ")", ";", "floo_dma_test_node", "#", "(", ".", "TA", "(", "ApplTime", ")", ",", ".", "TT", "(",
    "TestTime", ")", ",", ".", "AxiCfg", "(", "axi_cfg_swap_iw", "(", "AxiCfgW", ")", ")", ",", ".",
    "MemBaseAddr", "(", "MemBaseAddr", ")", ",", ".", "MemSize", "(", "MemSize", ")", ",", ".",
    "NumAxInFlight", "(", "2", "*", "floo_test_pkg", "::", "ChimneyCfg", ".", "MaxTxnsPerId", ")", ",", ".",
    "axi_in_req_t", "(", "axi_wide_out_req_t", ")", ",", ".", "axi_in_rsp_t", "(", "axi_wide_out_rsp_t", ")",
    ",", ".", "axi_out_req_t", "(", "axi_wide_in_req_t", ")", ",", ".", "axi_out_rsp_t", "(",
    "axi_wide_in_rsp_t", ")", ",", ".", "JobId", "(", "Index", ")", ")", "i_wide_dma_node", "(", ".",
    "clk_i", "(", "clk", ")", ",", ".", "rst_ni", "(", "rst_n", ")", ",", ".", "axi_in_req_i", "(",
    "cluster_wide_out_req", "[", "x", "]", "[", "y", "]", ")", ",", ".", "axi_in_rsp_o", "(",
    "cluster_wide_out_rsp", "[", "x", "]", "[", "y", "]", ")", ",", ".", "axi_out_req_o", "(",
    "cluster_wide_in_req", "[", "x", "]", "[", "y", "]", ")", ",", ".", "axi_out_rsp_i", "(",
    "cluster_wide_in_rsp", "[", "x", "]", "[", "y", "]", ")", ",", ".", "end_of_sim_o", "(", "end_of_sim",
    "[", "x", "]", "[", "y", "]", "[", "1", "]", ")", ")", ";"
  ]

def pin_tbJobs_1 : List String := pin_tbJobs_1_0 ++ pin_tbJobs_1_1


def pin_tbJobs : List (List String) := [pin_tbJobs_0, pin_tbJobs_1]

/-- the tokens of this part of the working tree's RTL are the pinned ones -/
theorem tbJobs_pinned : rtlFacts.tbJobs = pin_tbJobs := by
  decide +kernel

end FlooVerif.HwTie

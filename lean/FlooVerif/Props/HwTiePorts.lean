/-
  Pinned RTL (written by harness/mk_rtl_pins.py from the tree the semantics was read against):
  `floo_pkg::set_ports` (what the `EnSbrPort`/`EnMgrPort` bits of a chimney configuration mean) and every statement
of the two chimneys that reads or writes the source or destination identity of a flit.
-/
import FlooVerif.Gen.RtlFacts
namespace FlooVerif.HwTie
open FlooVerif Rtl Gen

def pin_setPorts : List String := [
    "function", "automatic", "chimney_cfg_t", "set_ports", "(", "chimney_cfg_t", "cfg", ",", "bit", "en_sbr",
    ",", "bit", "en_mgr", ")", ";", "cfg", ".", "EnSbrPort", "=", "en_sbr", ";", "cfg", ".", "EnMgrPort",
    "=", "en_mgr", ";", "return", "cfg", ";", "endfunction"
  ]


/-- the tokens of this part of the working tree's RTL are the pinned ones -/
theorem setPorts_pinned : rtlFacts.setPorts = pin_setPorts := by
  decide +kernel

def pin_chimneyIds_0_0 : List String := [
    "floo_axi_chimney.sv", "0", "]", "dst_id", ";", "0", "]", "route_out", ";", "0", "]", "id_out", ";",
    "floo_rob_wrapper", "#", "(", ".", "RoBType", "(", "ChimneyCfg", ".", "BRoBType", ")", ",", ".",
    "RoBSize", "(", "ChimneyCfg", ".", "BRoBSize", ")", ",", ".", "MaxRoTxnsPerId", "(", "ChimneyCfg", ".",
    "MaxTxnsPerId", ")", ",", ".", "OnlyMetaData", "(", "1'b1", ")", ",", ".", "ax_len_t", "(", "axi_pkg",
    "::", "len_t", ")", ",", ".", "ax_id_t", "(", "axi_in_id_t", ")", ",", ".", "rsp_chan_t", "(",
    "axi_b_chan_t", ")", ",", ".", "rsp_meta_t", "(", "axi_b_chan_t", ")", ",", ".", "rob_idx_t", "(",
    "rob_idx_t", ")", ",", ".", "dest_t", "(", "id_t", ")", ",", ".", "sram_cfg_t", "(", "sram_cfg_t", ")",
    ")", "i_b_rob", "(", ".", "clk_i", ",", ".", "rst_ni", ",", ".", "sram_cfg_i", ",", ".", "ax_valid_i",
    "(", "aw_rob_valid_in", ")", ",", ".", "ax_ready_o", "(", "aw_rob_ready_out", ")", ",", ".", "ax_len_i",
    "(", "axi_aw_queue", ".", "len", ")", ",", ".", "ax_id_i", "(", "axi_aw_queue", ".", "id", ")", ",", ".",
    "ax_dest_i", "(", "id_out", "[", "AxiAw", "]", ")", ",", ".", "ax_valid_o", "(", "aw_rob_valid_out", ")",
    ",", ".", "ax_ready_i", "(", "aw_rob_ready_in", ")", ",", ".", "ax_rob_req_o", "(", "aw_rob_req_out",
    ")", ",", ".", "ax_rob_idx_o", "(", "aw_rob_idx_out", ")", ",", ".", "rsp_valid_i", "(",
    "b_rob_valid_in", ")", ",", ".", "rsp_ready_o", "(", "b_rob_ready_out", ")", ",", ".", "rsp_i", "(",
    "axi_b_rob_in", ")", ",", ".", "rsp_rob_req_i", "(", "floo_rsp_in", ".", "axi_b", ".", "hdr", ".",
    "rob_req", ")", ",", ".", "rsp_rob_idx_i", "(", "floo_rsp_in", ".", "axi_b", ".", "hdr"
  ]

def pin_chimneyIds_0_1 : List String := [
    ".", "rob_idx", ")", ",", ".", "rsp_last_i", "(", "1'b1", ")", ",", ".", "rsp_valid_o", "(",
    "b_rob_valid_out", ")", ",", ".", "rsp_ready_i", "(", "b_rob_ready_in", ")", ",", ".", "rsp_o", "(",
    "axi_b_rob_out", ")", ")", ";", "floo_rob_wrapper", "#", "(", ".", "RoBType", "(", "ChimneyCfg", ".",
    "RRoBType", ")", ",", ".", "RoBSize", "(", "ChimneyCfg", ".", "RRoBSize", ")", ",", ".",
    "MaxRoTxnsPerId", "(", "ChimneyCfg", ".", "MaxTxnsPerId", ")", ",", ".", "OnlyMetaData", "(", "1'b0",
    ")", ",", ".", "ax_len_t", "(", "axi_pkg", "::", "len_t", ")", ",", ".", "ax_id_t", "(", "axi_in_id_t",
    ")", ",", ".", "rsp_chan_t", "(", "axi_r_chan_t", ")", ",", ".", "rsp_data_t", "(", "axi_data_t", ")",
    ",", ".", "rsp_meta_t", "(", "r_rob_meta_t", ")", ",", ".", "rob_idx_t", "(", "rob_idx_t", ")", ",", ".",
    "dest_t", "(", "id_t", ")", ",", ".", "sram_cfg_t", "(", "sram_cfg_t", ")", ")", "i_r_rob", "(", ".",
    "clk_i", ",", ".", "rst_ni", ",", ".", "sram_cfg_i", ",", ".", "ax_valid_i", "(",
    "axi_ar_queue_valid_out", ")", ",", ".", "ax_ready_o", "(", "axi_ar_queue_ready_in", ")", ",", ".",
    "ax_len_i", "(", "axi_ar_queue", ".", "len", ")", ",", ".", "ax_id_i", "(", "axi_ar_queue", ".", "id",
    ")", ",", ".", "ax_dest_i", "(", "id_out", "[", "AxiAr", "]", ")", ",", ".", "ax_valid_o", "(",
    "ar_rob_valid_out", ")", ",", ".", "ax_ready_i", "(", "ar_rob_ready_in", ")", ",", ".", "ax_rob_req_o",
    "(", "ar_rob_req_out", ")", ",", ".", "ax_rob_idx_o", "(", "ar_rob_idx_out", ")", ",", ".",
    "rsp_valid_i", "(", "r_rob_valid_in", ")", ",", ".", "rsp_ready_o", "(", "r_rob_ready_out", ")", ",",
    ".", "rsp_i", "(", "axi_r_rob_in"
  ]

def pin_chimneyIds_0_2 : List String := [
    ")", ",", ".", "rsp_rob_req_i", "(", "floo_rsp_in", ".", "axi_r", ".", "hdr", ".", "rob_req", ")", ",",
    ".", "rsp_rob_idx_i", "(", "floo_rsp_in", ".", "axi_r", ".", "hdr", ".", "rob_idx", ")", ",", ".",
    "rsp_last_i", "(", "floo_rsp_in", ".", "axi_r", ".", "payload", ".", "last", ")", ",", ".",
    "rsp_valid_o", "(", "r_rob_valid_out", ")", ",", ".", "rsp_ready_i", "(", "r_rob_ready_in", ")", ",",
    ".", "rsp_o", "(", "axi_r_rob_out", ")", ")", ";", "0", "]", "axi_rsp_src_id", ";", "assign",
    "axi_rsp_src_id", "[", "AxiB", "]", "=", "aw_out_hdr_out", ".", "hdr", ".", "src_id", ";", "assign",
    "axi_rsp_src_id", "[", "AxiR", "]", "=", "ar_out_hdr_out", ".", "hdr", ".", "src_id", ";",
    "gen_req_route_comp", "floo_route_comp", "#", "(", ".", "RouteCfg", "(", "RouteCfg", ")", ",", ".",
    "id_t", "(", "id_t", ")", ",", ".", "addr_t", "(", "axi_addr_t", ")", ",", ".", "addr_rule_t", "(",
    "sam_rule_t", ")", ",", ".", "route_t", "(", "route_t", ")", ")", "i_floo_req_route_comp", "(", ".",
    "clk_i", ",", ".", "rst_ni", ",", ".", "route_table_i", ",", ".", "addr_map_i", "(", "Sam", ")", ",",
    ".", "id_i", "(", "id_t", "'(", "'0", ")", ")", ",", ".", "addr_i", "(", "axi_req_addr", "[", "ch", "]",
    ")", ",", ".", "route_o", "(", "route_out", "[", "ch", "]", ")", ",", ".", "id_o", "(", "id_out", "[",
    "ch", "]", ")", ")", ";", "gen_rsp_route_comp", "floo_route_comp", "#", "(", ".", "RouteCfg", "(",
    "RouteCfg", ")", ",", ".", "UseIdTable", "(", "1'b0", ")", ",", ".", "id_t", "(", "id_t", ")", ",", ".",
    "addr_t", "(", "axi_addr_t", ")"
  ]

def pin_chimneyIds_0_3 : List String := [
    ",", ".", "addr_rule_t", "(", "sam_rule_t", ")", ",", ".", "route_t", "(", "route_t", ")", ")",
    "i_floo_rsp_route_comp", "(", ".", "clk_i", ",", ".", "rst_ni", ",", ".", "route_table_i", ",", ".",
    "addr_i", "(", "'0", ")", ",", ".", "addr_map_i", "(", "'0", ")", ",", ".", "id_i", "(",
    "axi_rsp_src_id", "[", "ch", "]", ")", ",", ".", "route_o", "(", "route_out", "[", "ch", "]", ")", ",",
    ".", "id_o", "(", "id_out", "[", "ch", "]", ")", ")", ";", "gen_route_field", "assign", "route_out", "[",
    "AxiW", "]", "=", "axi_aw_id_q", ";", "assign", "dst_id", "=", "route_out", ";", "gen_dst_field",
    "assign", "dst_id", "[", "AxiAw", "]", "=", "id_out", "[", "AxiAw", "]", ";", "assign", "dst_id", "[",
    "AxiAr", "]", "=", "id_out", "[", "AxiAr", "]", ";", "assign", "dst_id", "[", "AxiB", "]", "=",
    "aw_out_hdr_out", ".", "hdr", ".", "src_id", ";", "assign", "dst_id", "[", "AxiR", "]", "=",
    "ar_out_hdr_out", ".", "hdr", ".", "src_id", ";", "assign", "dst_id", "[", "AxiW", "]", "=",
    "axi_aw_id_q", ";", "floo_axi_aw", "=", "'0", ";", "floo_axi_aw", ".", "hdr", ".", "dst_id", "=",
    "dst_id", "[", "AxiAw", "]", ";", "floo_axi_aw", ".", "hdr", ".", "src_id", "=", "id_i", ";",
    "floo_axi_w", ".", "hdr", ".", "dst_id", "=", "dst_id", "[", "AxiW", "]", ";", "floo_axi_w", ".", "hdr",
    ".", "src_id", "=", "id_i", ";", "floo_axi_ar", ".", "hdr", ".", "dst_id", "=", "dst_id", "[", "AxiAr",
    "]", ";", "floo_axi_ar", ".", "hdr", ".", "src_id", "=", "id_i", ";", "floo_axi_b", ".", "hdr", ".",
    "dst_id", "="
  ]

def pin_chimneyIds_0_4 : List String := [
    "dst_id", "[", "AxiB", "]", ";", "floo_axi_b", ".", "hdr", ".", "src_id", "=", "id_i", ";", "floo_axi_r",
    ".", "hdr", ".", "dst_id", "=", "dst_id", "[", "AxiR", "]", ";", "floo_axi_r", ".", "hdr", ".", "src_id",
    "=", "id_i", ";"
  ]

def pin_chimneyIds_0 : List String := pin_chimneyIds_0_0 ++ pin_chimneyIds_0_1 ++ pin_chimneyIds_0_2 ++ pin_chimneyIds_0_3 ++ pin_chimneyIds_0_4


def pin_chimneyIds_1_0 : List String := [
    "floo_nw_chimney.sv", "0", "]", "dst_id", ";", "0", "]", "route_out", ";", "0", "]", "id_out", ";",
    "floo_rob_wrapper", "#", "(", ".", "RoBType", "(", "ChimneyCfgN", ".", "BRoBType", ")", ",", ".",
    "RoBSize", "(", "ChimneyCfgN", ".", "BRoBSize", ")", ",", ".", "MaxRoTxnsPerId", "(", "ChimneyCfgN", ".",
    "MaxTxnsPerId", ")", ",", ".", "OnlyMetaData", "(", "1'b1", ")", ",", ".", "ax_len_t", "(", "axi_pkg",
    "::", "len_t", ")", ",", ".", "ax_id_t", "(", "axi_narrow_in_id_t", ")", ",", ".", "rsp_chan_t", "(",
    "axi_narrow_b_chan_t", ")", ",", ".", "rsp_meta_t", "(", "axi_narrow_b_chan_t", ")", ",", ".",
    "rob_idx_t", "(", "rob_idx_t", ")", ",", ".", "dest_t", "(", "id_t", ")", ",", ".", "sram_cfg_t", "(",
    "sram_cfg_t", ")", ")", "i_narrow_b_rob", "(", ".", "clk_i", ",", ".", "rst_ni", ",", ".", "sram_cfg_i",
    ",", ".", "ax_valid_i", "(", "narrow_aw_rob_valid_in", ")", ",", ".", "ax_ready_o", "(",
    "narrow_aw_rob_ready_out", ")", ",", ".", "ax_len_i", "(", "axi_narrow_aw_queue", ".", "len", ")", ",",
    ".", "ax_id_i", "(", "axi_narrow_aw_queue", ".", "id", ")", ",", ".", "ax_dest_i", "(", "id_out", "[",
    "NarrowAw", "]", ")", ",", ".", "ax_valid_o", "(", "narrow_aw_rob_valid_out", ")", ",", ".",
    "ax_ready_i", "(", "narrow_aw_rob_ready_in", ")", ",", ".", "ax_rob_req_o", "(", "narrow_aw_rob_req_out",
    ")", ",", ".", "ax_rob_idx_o", "(", "narrow_aw_rob_idx_out", ")", ",", ".", "rsp_valid_i", "(",
    "narrow_b_rob_valid_in", ")", ",", ".", "rsp_ready_o", "(", "narrow_b_rob_ready_out", ")", ",", ".",
    "rsp_i", "(", "axi_narrow_b_rob_in", ")", ",", ".", "rsp_rob_req_i", "(", "narrow_b_rob_rob_req", ")",
    ",", ".", "rsp_rob_idx_i", "(", "narrow_b_rob_rob_idx", ")", ",", ".", "rsp_last_i", "(",
    "narrow_b_rob_last", ")", ",", ".", "rsp_valid_o"
  ]

def pin_chimneyIds_1_1 : List String := [
    "(", "narrow_b_rob_valid_out", ")", ",", ".", "rsp_ready_i", "(", "narrow_b_rob_ready_in", ")", ",", ".",
    "rsp_o", "(", "axi_narrow_b_rob_out", ")", ")", ";", "floo_rob_wrapper", "#", "(", ".", "RoBType", "(",
    "ChimneyCfgW", ".", "BRoBType", ")", ",", ".", "RoBSize", "(", "ChimneyCfgW", ".", "BRoBSize", ")", ",",
    ".", "MaxRoTxnsPerId", "(", "ChimneyCfgW", ".", "MaxTxnsPerId", ")", ",", ".", "OnlyMetaData", "(",
    "1'b1", ")", ",", ".", "ax_len_t", "(", "axi_pkg", "::", "len_t", ")", ",", ".", "ax_id_t", "(",
    "axi_wide_in_id_t", ")", ",", ".", "rsp_chan_t", "(", "axi_wide_b_chan_t", ")", ",", ".", "rsp_meta_t",
    "(", "axi_wide_b_chan_t", ")", ",", ".", "rob_idx_t", "(", "rob_idx_t", ")", ",", ".", "dest_t", "(",
    "id_t", ")", ",", ".", "sram_cfg_t", "(", "sram_cfg_t", ")", ")", "i_wide_b_rob", "(", ".", "clk_i", ",",
    ".", "rst_ni", ",", ".", "sram_cfg_i", ",", ".", "ax_valid_i", "(", "axi_wide_aw_queue_valid_out", ")",
    ",", ".", "ax_ready_o", "(", "axi_wide_aw_queue_ready_in", ")", ",", ".", "ax_len_i", "(",
    "axi_wide_aw_queue", ".", "len", ")", ",", ".", "ax_id_i", "(", "axi_wide_aw_queue", ".", "id", ")", ",",
    ".", "ax_dest_i", "(", "id_out", "[", "WideAw", "]", ")", ",", ".", "ax_valid_o", "(",
    "wide_aw_rob_valid_out", ")", ",", ".", "ax_ready_i", "(", "wide_aw_rob_ready_in", ")", ",", ".",
    "ax_rob_req_o", "(", "wide_aw_rob_req_out", ")", ",", ".", "ax_rob_idx_o", "(", "wide_aw_rob_idx_out",
    ")", ",", ".", "rsp_valid_i", "(", "wide_b_rob_valid_in", ")", ",", ".", "rsp_ready_o", "(",
    "wide_b_rob_ready_out", ")", ",", ".", "rsp_i", "(", "axi_wide_b_rob_in", ")", ",", ".", "rsp_rob_req_i",
    "(", "wide_b_rob_rob_req", ")", ",", ".", "rsp_rob_idx_i", "(", "wide_b_rob_rob_idx", ")", ",", ".",
    "rsp_last_i", "(", "wide_b_rob_last"
  ]

def pin_chimneyIds_1_2 : List String := [
    ")", ",", ".", "rsp_valid_o", "(", "wide_b_rob_valid_out", ")", ",", ".", "rsp_ready_i", "(",
    "wide_b_rob_ready_in", ")", ",", ".", "rsp_o", "(", "axi_wide_b_rob_out", ")", ")", ";",
    "floo_rob_wrapper", "#", "(", ".", "RoBType", "(", "ChimneyCfgN", ".", "RRoBType", ")", ",", ".",
    "RoBSize", "(", "ChimneyCfgN", ".", "RRoBSize", ")", ",", ".", "MaxRoTxnsPerId", "(", "ChimneyCfgN", ".",
    "MaxTxnsPerId", ")", ",", ".", "OnlyMetaData", "(", "1'b0", ")", ",", ".", "ax_len_t", "(", "axi_pkg",
    "::", "len_t", ")", ",", ".", "ax_id_t", "(", "axi_narrow_in_id_t", ")", ",", ".", "rsp_chan_t", "(",
    "axi_narrow_r_chan_t", ")", ",", ".", "rsp_data_t", "(", "axi_narrow_data_t", ")", ",", ".",
    "rsp_meta_t", "(", "narrow_r_rob_meta_t", ")", ",", ".", "rob_idx_t", "(", "rob_idx_t", ")", ",", ".",
    "dest_t", "(", "id_t", ")", ",", ".", "sram_cfg_t", "(", "sram_cfg_t", ")", ")", "i_narrow_r_rob", "(",
    ".", "clk_i", ",", ".", "rst_ni", ",", ".", "sram_cfg_i", ",", ".", "ax_valid_i", "(",
    "axi_narrow_ar_queue_valid_out", ")", ",", ".", "ax_ready_o", "(", "axi_narrow_ar_queue_ready_in", ")",
    ",", ".", "ax_len_i", "(", "axi_narrow_ar_queue", ".", "len", ")", ",", ".", "ax_id_i", "(",
    "axi_narrow_ar_queue", ".", "id", ")", ",", ".", "ax_dest_i", "(", "id_out", "[", "NarrowAr", "]", ")",
    ",", ".", "ax_valid_o", "(", "narrow_ar_rob_valid_out", ")", ",", ".", "ax_ready_i", "(",
    "narrow_ar_rob_ready_in", ")", ",", ".", "ax_rob_req_o", "(", "narrow_ar_rob_req_out", ")", ",", ".",
    "ax_rob_idx_o", "(", "narrow_ar_rob_idx_out", ")", ",", ".", "rsp_valid_i", "(", "narrow_r_rob_valid_in",
    ")", ",", ".", "rsp_ready_o", "(", "narrow_r_rob_ready_out", ")", ",", ".", "rsp_i", "(",
    "axi_narrow_r_rob_in", ")", ",", ".", "rsp_rob_req_i", "(", "narrow_r_rob_rob_req", ")", ","
  ]

def pin_chimneyIds_1_3 : List String := [
    ".", "rsp_rob_idx_i", "(", "narrow_r_rob_rob_idx", ")", ",", ".", "rsp_last_i", "(", "narrow_r_rob_last",
    ")", ",", ".", "rsp_valid_o", "(", "narrow_r_rob_valid_out", ")", ",", ".", "rsp_ready_i", "(",
    "narrow_r_rob_ready_in", ")", ",", ".", "rsp_o", "(", "axi_narrow_r_rob_out", ")", ")", ";",
    "floo_rob_wrapper", "#", "(", ".", "RoBType", "(", "ChimneyCfgW", ".", "RRoBType", ")", ",", ".",
    "RoBSize", "(", "ChimneyCfgW", ".", "RRoBSize", ")", ",", ".", "MaxRoTxnsPerId", "(", "ChimneyCfgW", ".",
    "MaxTxnsPerId", ")", ",", ".", "OnlyMetaData", "(", "1'b0", ")", ",", ".", "ax_len_t", "(", "axi_pkg",
    "::", "len_t", ")", ",", ".", "ax_id_t", "(", "axi_wide_in_id_t", ")", ",", ".", "rsp_chan_t", "(",
    "axi_wide_r_chan_t", ")", ",", ".", "rsp_data_t", "(", "axi_wide_data_t", ")", ",", ".", "rsp_meta_t",
    "(", "wide_r_rob_meta_t", ")", ",", ".", "rob_idx_t", "(", "rob_idx_t", ")", ",", ".", "dest_t", "(",
    "id_t", ")", ",", ".", "sram_cfg_t", "(", "sram_cfg_t", ")", ")", "i_wide_r_rob", "(", ".", "clk_i", ",",
    ".", "rst_ni", ",", ".", "sram_cfg_i", ",", ".", "ax_valid_i", "(", "axi_wide_ar_queue_valid_out", ")",
    ",", ".", "ax_ready_o", "(", "axi_wide_ar_queue_ready_in", ")", ",", ".", "ax_len_i", "(",
    "axi_wide_ar_queue", ".", "len", ")", ",", ".", "ax_id_i", "(", "axi_wide_ar_queue", ".", "id", ")", ",",
    ".", "ax_dest_i", "(", "id_out", "[", "WideAr", "]", ")", ",", ".", "ax_valid_o", "(",
    "wide_ar_rob_valid_out", ")", ",", ".", "ax_ready_i", "(", "wide_ar_rob_ready_in", ")", ",", ".",
    "ax_rob_req_o", "(", "wide_ar_rob_req_out", ")", ",", ".", "ax_rob_idx_o", "(", "wide_ar_rob_idx_out",
    ")", ",", ".", "rsp_valid_i", "(", "wide_r_rob_valid_in", ")", ",", ".", "rsp_ready_o", "(",
    "wide_r_rob_ready_out", ")", ",", ".", "rsp_i"
  ]

def pin_chimneyIds_1_4 : List String := [
    "(", "axi_wide_r_rob_in", ")", ",", ".", "rsp_rob_req_i", "(", "wide_r_rob_rob_req", ")", ",", ".",
    "rsp_rob_idx_i", "(", "wide_r_rob_rob_idx", ")", ",", ".", "rsp_last_i", "(", "wide_r_rob_last", ")",
    ",", ".", "rsp_valid_o", "(", "wide_r_rob_valid_out", ")", ",", ".", "rsp_ready_i", "(",
    "wide_r_rob_ready_in", ")", ",", ".", "rsp_o", "(", "axi_wide_r_rob_out", ")", ")", ";", "0", "]",
    "axi_rsp_src_id", ";", "assign", "axi_rsp_src_id", "[", "NarrowB", "]", "=", "narrow_aw_buf_hdr_out",
    ".", "hdr", ".", "src_id", ";", "assign", "axi_rsp_src_id", "[", "NarrowR", "]", "=",
    "narrow_ar_buf_hdr_out", ".", "hdr", ".", "src_id", ";", "assign", "axi_rsp_src_id", "[", "WideB", "]",
    "=", "wide_aw_buf_hdr_out", ".", "hdr", ".", "src_id", ";", "assign", "axi_rsp_src_id", "[", "WideR",
    "]", "=", "wide_ar_buf_hdr_out", ".", "hdr", ".", "src_id", ";", "gen_req_route_comp", "floo_route_comp",
    "#", "(", ".", "RouteCfg", "(", "RouteCfg", ")", ",", ".", "id_t", "(", "id_t", ")", ",", ".", "addr_t",
    "(", "axi_addr_t", ")", ",", ".", "addr_rule_t", "(", "sam_rule_t", ")", ",", ".", "route_t", "(",
    "route_t", ")", ")", "i_floo_req_route_comp", "(", ".", "clk_i", ",", ".", "rst_ni", ",", ".",
    "route_table_i", ",", ".", "addr_map_i", "(", "Sam", ")", ",", ".", "id_i", "(", "id_t", "'(", "'0", ")",
    ")", ",", ".", "addr_i", "(", "axi_req_addr", "[", "ch", "]", ")", ",", ".", "route_o", "(", "route_out",
    "[", "ch", "]", ")", ",", ".", "id_o", "(", "id_out", "[", "ch", "]", ")", ")", ";",
    "gen_rsp_route_comp", "floo_route_comp", "#", "(", ".", "RouteCfg", "(", "RouteCfg", ")", ",", ".",
    "UseIdTable", "(", "1'b0", ")", ",", ".", "id_t", "("
  ]

def pin_chimneyIds_1_5 : List String := [
    "id_t", ")", ",", ".", "addr_t", "(", "axi_addr_t", ")", ",", ".", "addr_rule_t", "(", "sam_rule_t", ")",
    ",", ".", "route_t", "(", "route_t", ")", ")", "i_floo_rsp_route_comp", "(", ".", "clk_i", ",", ".",
    "rst_ni", ",", ".", "route_table_i", ",", ".", "addr_i", "(", "'0", ")", ",", ".", "addr_map_i", "(",
    "'0", ")", ",", ".", "id_i", "(", "axi_rsp_src_id", "[", "ch", "]", ")", ",", ".", "route_o", "(",
    "route_out", "[", "ch", "]", ")", ",", ".", "id_o", "(", "id_out", "[", "ch", "]", ")", ")", ";",
    "gen_route_field", "assign", "route_out", "[", "NarrowW", "]", "=", "narrow_aw_id_q", ";", "assign",
    "route_out", "[", "WideW", "]", "=", "wide_aw_id_q", ";", "assign", "dst_id", "=", "route_out", ";",
    "gen_dst_field", "assign", "dst_id", "[", "NarrowAw", "]", "=", "id_out", "[", "NarrowAw", "]", ";",
    "assign", "dst_id", "[", "NarrowAr", "]", "=", "id_out", "[", "NarrowAr", "]", ";", "assign", "dst_id",
    "[", "WideAw", "]", "=", "id_out", "[", "WideAw", "]", ";", "assign", "dst_id", "[", "WideAr", "]", "=",
    "id_out", "[", "WideAr", "]", ";", "assign", "dst_id", "[", "NarrowB", "]", "=", "narrow_aw_buf_hdr_out",
    ".", "hdr", ".", "src_id", ";", "assign", "dst_id", "[", "NarrowR", "]", "=", "narrow_ar_buf_hdr_out",
    ".", "hdr", ".", "src_id", ";", "assign", "dst_id", "[", "WideB", "]", "=", "wide_aw_buf_hdr_out", ".",
    "hdr", ".", "src_id", ";", "assign", "dst_id", "[", "WideR", "]", "=", "wide_ar_buf_hdr_out", ".", "hdr",
    ".", "src_id", ";", "assign", "dst_id", "[", "NarrowW", "]", "=", "narrow_aw_id_q", ";", "assign",
    "dst_id", "[", "WideW", "]"
  ]

def pin_chimneyIds_1_6 : List String := [
    "=", "wide_aw_id_q", ";", "floo_narrow_aw", "=", "'0", ";", "floo_narrow_aw", ".", "hdr", ".", "dst_id",
    "=", "dst_id", "[", "NarrowAw", "]", ";", "floo_narrow_aw", ".", "hdr", ".", "src_id", "=", "id_i", ";",
    "floo_narrow_w", ".", "hdr", ".", "dst_id", "=", "dst_id", "[", "NarrowW", "]", ";", "floo_narrow_w",
    ".", "hdr", ".", "src_id", "=", "id_i", ";", "floo_narrow_ar", ".", "hdr", ".", "dst_id", "=", "dst_id",
    "[", "NarrowAr", "]", ";", "floo_narrow_ar", ".", "hdr", ".", "src_id", "=", "id_i", ";",
    "floo_narrow_b", ".", "hdr", ".", "dst_id", "=", "dst_id", "[", "NarrowB", "]", ";", "floo_narrow_b",
    ".", "hdr", ".", "src_id", "=", "id_i", ";", "floo_narrow_r", ".", "hdr", ".", "dst_id", "=", "dst_id",
    "[", "NarrowR", "]", ";", "floo_narrow_r", ".", "hdr", ".", "src_id", "=", "id_i", ";", "floo_wide_aw",
    ".", "hdr", ".", "dst_id", "=", "dst_id", "[", "WideAw", "]", ";", "floo_wide_aw", ".", "hdr", ".",
    "src_id", "=", "id_i", ";", "floo_wide_w", ".", "hdr", ".", "dst_id", "=", "dst_id", "[", "WideW", "]",
    ";", "floo_wide_w", ".", "hdr", ".", "src_id", "=", "id_i", ";", "floo_wide_ar", ".", "hdr", ".",
    "dst_id", "=", "dst_id", "[", "WideAr", "]", ";", "floo_wide_ar", ".", "hdr", ".", "src_id", "=", "id_i",
    ";", "floo_wide_b", ".", "hdr", ".", "dst_id", "=", "dst_id", "[", "WideB", "]", ";", "floo_wide_b", ".",
    "hdr", ".", "src_id", "=", "id_i", ";", "floo_wide_r", ".", "hdr", ".", "dst_id", "=", "dst_id", "[",
    "WideR", "]", ";", "floo_wide_r", ".", "hdr", ".", "src_id", "=", "id_i", ";"
  ]

def pin_chimneyIds_1 : List String := pin_chimneyIds_1_0 ++ pin_chimneyIds_1_1 ++ pin_chimneyIds_1_2 ++ pin_chimneyIds_1_3 ++ pin_chimneyIds_1_4 ++ pin_chimneyIds_1_5 ++ pin_chimneyIds_1_6


def pin_chimneyIds : List (List String) := [pin_chimneyIds_0, pin_chimneyIds_1]

/-- the tokens of this part of the working tree's RTL are the pinned ones -/
theorem chimneyIds_pinned : rtlFacts.chimneyIds = pin_chimneyIds := by
  decide +kernel

end FlooVerif.HwTie

/-
  Pinned RTL (written by harness/mk_rtl_pins.py from the tree the semantics was read against):
  the two wrappers that build an AXI (narrow-wide) router out of single-channel routers: requests and
responses travel through separate `floo_router`s whose ports are wired index by index, which is what lets the
deciders treat one generated router instance as one switch with `NumRoutes` bidirectional ports.
-/
import FlooVerif.Gen.RtlFacts
namespace FlooVerif.HwTie
open FlooVerif Rtl Gen

def pin_axiRouter_0 : List String := [
    "`include", "\"axi/typedef.svh\"", "`include", "\"floo_noc/typedef.svh\"", "module", "floo_axi_router",
    "#", "(", "parameter", "floo_pkg", "::", "axi_cfg_t", "AxiCfg", "=", "'0", ",", "parameter", "floo_pkg",
    "::", "route_algo_e", "RouteAlgo", "=", "floo_pkg", "::", "XYRouting", ",", "parameter", "int",
    "unsigned", "NumRoutes", "=", "0", ",", "parameter", "int", "unsigned", "NumInputs", "=", "NumRoutes",
    ",", "parameter", "int", "unsigned", "NumOutputs", "=", "NumRoutes", ",", "parameter", "int", "unsigned",
    "InFifoDepth", "=", "0", ",", "parameter", "int", "unsigned", "OutFifoDepth", "=", "0", ",", "parameter",
    "bit", "XYRouteOpt", "=", "1'b1", ",", "parameter", "type", "id_t", "=", "logic", ",", "parameter",
    "type", "hdr_t", "=", "logic", ",", "parameter", "int", "unsigned", "NumAddrRules", "=", "0", ",",
    "parameter", "type", "addr_rule_t", "=", "logic", ",", "parameter", "type", "floo_req_t", "=", "logic",
    ",", "parameter", "type", "floo_rsp_t", "=", "logic", ")", "(", "input", "logic", "clk_i", ",", "input",
    "logic", "rst_ni", ",", "input", "logic", "test_enable_i", ",", "input", "id_t", "id_i", ",", "input",
    "addr_rule_t", "[", "NumAddrRules", "-", "1", ":", "0", "]", "id_route_map_i", ",", "input",
    "floo_req_t", "[", "NumInputs", "-", "1", ":", "0", "]", "floo_req_i", ",", "input", "floo_rsp_t", "[",
    "NumOutputs", "-", "1", ":", "0", "]", "floo_rsp_i", ",", "output", "floo_req_t", "[", "NumOutputs", "-",
    "1", ":", "0", "]", "floo_req_o", ",", "output", "floo_rsp_t", "[", "NumInputs", "-", "1", ":", "0", "]",
    "floo_rsp_o", ")", ";", "typedef", "logic", "[", "AxiCfg", ".", "AddrWidth", "-", "1", ":", "0", "]",
    "axi_addr_t", ";", "typedef", "logic", "[", "AxiCfg", ".", "InIdWidth", "-", "1", ":", "0"
  ]

def pin_axiRouter_1 : List String := [
    "]", "axi_in_id_t", ";", "typedef", "logic", "[", "AxiCfg", ".", "UserWidth", "-", "1", ":", "0", "]",
    "axi_user_t", ";", "typedef", "logic", "[", "AxiCfg", ".", "DataWidth", "-", "1", ":", "0", "]",
    "axi_data_t", ";", "typedef", "logic", "[", "AxiCfg", ".", "DataWidth", "/", "8", "-", "1", ":", "0",
    "]", "axi_strb_t", ";", "`AXI_TYPEDEF_ALL_CT", "(", "axi", ",", "axi_req_t", ",", "axi_rsp_t", ",",
    "axi_addr_t", ",", "axi_in_id_t", ",", "axi_data_t", ",", "axi_strb_t", ",", "axi_user_t", ")",
    "`FLOO_TYPEDEF_AXI_CHAN_ALL", "(", "axi", ",", "req", ",", "rsp", ",", "axi", ",", "AxiCfg", ",",
    "hdr_t", ")", "floo_req_chan_t", "[", "NumInputs", "-", "1", ":", "0", "]", "req_in", ";",
    "floo_rsp_chan_t", "[", "NumInputs", "-", "1", ":", "0", "]", "rsp_out", ";", "floo_req_chan_t", "[",
    "NumOutputs", "-", "1", ":", "0", "]", "req_out", ";", "floo_rsp_chan_t", "[", "NumOutputs", "-", "1",
    ":", "0", "]", "rsp_in", ";", "logic", "[", "NumInputs", "-", "1", ":", "0", "]", "req_valid_in", ",",
    "req_ready_out", ";", "logic", "[", "NumInputs", "-", "1", ":", "0", "]", "rsp_valid_out", ",",
    "rsp_ready_in", ";", "logic", "[", "NumOutputs", "-", "1", ":", "0", "]", "req_valid_out", ",",
    "req_ready_in", ";", "logic", "[", "NumOutputs", "-", "1", ":", "0", "]", "rsp_valid_in", ",",
    "rsp_ready_out", ";", "for", "(", "genvar", "i", "=", "0", ";", "i", "<", "NumInputs", ";", "i", "+",
    "+", ")", "begin", ":", "gen_chimney_req", "assign", "req_valid_in", "[", "i", "]", "=", "floo_req_i",
    "[", "i", "]", ".", "valid", ";", "assign", "floo_req_o", "[", "i", "]"
  ]

def pin_axiRouter_2 : List String := [
    ".", "ready", "=", "req_ready_out", "[", "i", "]", ";", "assign", "req_in", "[", "i", "]", "=",
    "floo_req_i", "[", "i", "]", ".", "req", ";", "assign", "floo_rsp_o", "[", "i", "]", ".", "valid", "=",
    "rsp_valid_out", "[", "i", "]", ";", "assign", "rsp_ready_in", "[", "i", "]", "=", "floo_rsp_i", "[",
    "i", "]", ".", "ready", ";", "assign", "floo_rsp_o", "[", "i", "]", ".", "rsp", "=", "rsp_out", "[", "i",
    "]", ";", "end", "for", "(", "genvar", "i", "=", "0", ";", "i", "<", "NumOutputs", ";", "i", "+", "+",
    ")", "begin", ":", "gen_chimney_rsp", "assign", "floo_req_o", "[", "i", "]", ".", "valid", "=",
    "req_valid_out", "[", "i", "]", ";", "assign", "req_ready_in", "[", "i", "]", "=", "floo_req_i", "[",
    "i", "]", ".", "ready", ";", "assign", "floo_req_o", "[", "i", "]", ".", "req", "=", "req_out", "[", "i",
    "]", ";", "assign", "rsp_valid_in", "[", "i", "]", "=", "floo_rsp_i", "[", "i", "]", ".", "valid", ";",
    "assign", "floo_rsp_o", "[", "i", "]", ".", "ready", "=", "rsp_ready_out", "[", "i", "]", ";", "assign",
    "rsp_in", "[", "i", "]", "=", "floo_rsp_i", "[", "i", "]", ".", "rsp", ";", "end", "floo_router", "#",
    "(", ".", "NumPhysChannels", "(", "1", ")", ",", ".", "NumVirtChannels", "(", "1", ")", ",", ".",
    "NumInput", "(", "NumInputs", ")", ",", ".", "NumOutput", "(", "NumOutputs", ")", ",", ".", "flit_t",
    "(", "floo_req_generic_flit_t", ")", ",", ".", "InFifoDepth", "(", "InFifoDepth", ")", ",", ".",
    "OutFifoDepth", "("
  ]

def pin_axiRouter_3 : List String := [
    "OutFifoDepth", ")", ",", ".", "RouteAlgo", "(", "RouteAlgo", ")", ",", ".", "XYRouteOpt", "(",
    "XYRouteOpt", ")", ",", ".", "id_t", "(", "id_t", ")", ",", ".", "NumAddrRules", "(", "NumAddrRules",
    ")", ",", ".", "addr_rule_t", "(", "addr_rule_t", ")", ")", "i_req_floo_router", "(", ".", "clk_i", ",",
    ".", "rst_ni", ",", ".", "test_enable_i", ",", ".", "xy_id_i", "(", "id_i", ")", ",", ".",
    "id_route_map_i", ",", ".", "valid_i", "(", "req_valid_in", ")", ",", ".", "ready_o", "(",
    "req_ready_out", ")", ",", ".", "data_i", "(", "req_in", ")", ",", ".", "valid_o", "(", "req_valid_out",
    ")", ",", ".", "ready_i", "(", "req_ready_in", ")", ",", ".", "data_o", "(", "req_out", ")", ")", ";",
    "floo_router", "#", "(", ".", "NumPhysChannels", "(", "1", ")", ",", ".", "NumVirtChannels", "(", "1",
    ")", ",", ".", "NumInput", "(", "NumInputs", ")", ",", ".", "NumOutput", "(", "NumOutputs", ")", ",",
    ".", "InFifoDepth", "(", "InFifoDepth", ")", ",", ".", "OutFifoDepth", "(", "OutFifoDepth", ")", ",",
    ".", "RouteAlgo", "(", "RouteAlgo", ")", ",", ".", "XYRouteOpt", "(", "XYRouteOpt", ")", ",", ".",
    "flit_t", "(", "floo_rsp_generic_flit_t", ")", ",", ".", "id_t", "(", "id_t", ")", ",", ".",
    "NumAddrRules", "(", "NumAddrRules", ")", ",", ".", "addr_rule_t", "(", "addr_rule_t", ")", ")",
    "i_rsp_floo_router", "(", ".", "clk_i", ",", ".", "rst_ni", ",", ".", "test_enable_i", ",", ".",
    "xy_id_i", "(", "id_i", ")", ",", ".", "id_route_map_i", ",", ".", "valid_i", "(", "rsp_valid_in", ")",
    ",", ".", "ready_o", "(", "rsp_ready_out", ")", ",", ".", "data_i", "("
  ]

def pin_axiRouter_4 : List String := [
    "rsp_in", ")", ",", ".", "valid_o", "(", "rsp_valid_out", ")", ",", ".", "ready_i", "(", "rsp_ready_in",
    ")", ",", ".", "data_o", "(", "rsp_out", ")", ")", ";", "endmodule"
  ]

def pin_axiRouter : List String := pin_axiRouter_0 ++ pin_axiRouter_1 ++ pin_axiRouter_2 ++ pin_axiRouter_3 ++ pin_axiRouter_4


/-- the tokens of this part of the working tree's RTL are the pinned ones -/
theorem axiRouter_pinned : rtlFacts.axiRouter = pin_axiRouter := by
  decide +kernel

def pin_nwRouter_0 : List String := [
    "`include", "\"axi/typedef.svh\"", "`include", "\"floo_noc/typedef.svh\"", "module", "floo_nw_router",
    "#", "(", "parameter", "floo_pkg", "::", "axi_cfg_t", "AxiCfgN", "=", "'0", ",", "parameter", "floo_pkg",
    "::", "axi_cfg_t", "AxiCfgW", "=", "'0", ",", "parameter", "floo_pkg", "::", "route_algo_e", "RouteAlgo",
    "=", "floo_pkg", "::", "XYRouting", ",", "parameter", "int", "unsigned", "NumRoutes", "=", "0", ",",
    "parameter", "int", "unsigned", "NumInputs", "=", "NumRoutes", ",", "parameter", "int", "unsigned",
    "NumOutputs", "=", "NumRoutes", ",", "parameter", "int", "unsigned", "InFifoDepth", "=", "0", ",",
    "parameter", "int", "unsigned", "OutFifoDepth", "=", "0", ",", "parameter", "bit", "XYRouteOpt", "=",
    "1'b1", ",", "parameter", "type", "id_t", "=", "logic", ",", "parameter", "type", "hdr_t", "=", "logic",
    ",", "parameter", "int", "unsigned", "NumAddrRules", "=", "0", ",", "parameter", "type", "addr_rule_t",
    "=", "logic", ",", "parameter", "type", "floo_req_t", "=", "logic", ",", "parameter", "type",
    "floo_rsp_t", "=", "logic", ",", "parameter", "type", "floo_wide_t", "=", "logic", ")", "(", "input",
    "logic", "clk_i", ",", "input", "logic", "rst_ni", ",", "input", "logic", "test_enable_i", ",", "input",
    "id_t", "id_i", ",", "input", "addr_rule_t", "[", "NumAddrRules", "-", "1", ":", "0", "]",
    "id_route_map_i", ",", "input", "floo_req_t", "[", "NumInputs", "-", "1", ":", "0", "]", "floo_req_i",
    ",", "input", "floo_rsp_t", "[", "NumOutputs", "-", "1", ":", "0", "]", "floo_rsp_i", ",", "output",
    "floo_req_t", "[", "NumOutputs", "-", "1", ":", "0", "]", "floo_req_o", ",", "output", "floo_rsp_t", "[",
    "NumInputs", "-", "1", ":", "0", "]", "floo_rsp_o", ",", "input", "floo_wide_t", "[", "NumRoutes", "-",
    "1", ":", "0", "]", "floo_wide_i"
  ]

def pin_nwRouter_1 : List String := [
    ",", "output", "floo_wide_t", "[", "NumRoutes", "-", "1", ":", "0", "]", "floo_wide_o", ")", ";",
    "typedef", "logic", "[", "AxiCfgN", ".", "AddrWidth", "-", "1", ":", "0", "]", "axi_addr_t", ";",
    "typedef", "logic", "[", "AxiCfgN", ".", "InIdWidth", "-", "1", ":", "0", "]", "axi_narrow_in_id_t", ";",
    "typedef", "logic", "[", "AxiCfgN", ".", "UserWidth", "-", "1", ":", "0", "]", "axi_narrow_user_t", ";",
    "typedef", "logic", "[", "AxiCfgN", ".", "DataWidth", "-", "1", ":", "0", "]", "axi_narrow_data_t", ";",
    "typedef", "logic", "[", "AxiCfgN", ".", "DataWidth", "/", "8", "-", "1", ":", "0", "]",
    "axi_narrow_strb_t", ";", "typedef", "logic", "[", "AxiCfgW", ".", "InIdWidth", "-", "1", ":", "0", "]",
    "axi_wide_in_id_t", ";", "typedef", "logic", "[", "AxiCfgW", ".", "UserWidth", "-", "1", ":", "0", "]",
    "axi_wide_user_t", ";", "typedef", "logic", "[", "AxiCfgW", ".", "DataWidth", "-", "1", ":", "0", "]",
    "axi_wide_data_t", ";", "typedef", "logic", "[", "AxiCfgW", ".", "DataWidth", "/", "8", "-", "1", ":",
    "0", "]", "axi_wide_strb_t", ";", "`AXI_TYPEDEF_ALL_CT", "(", "axi_narrow", ",", "axi_narrow_req_t", ",",
    "axi_narrow_rsp_t", ",", "axi_addr_t", ",", "axi_narrow_in_id_t", ",", "axi_narrow_data_t", ",",
    "axi_narrow_strb_t", ",", "axi_narrow_user_t", ")", "`AXI_TYPEDEF_ALL_CT", "(", "axi_wide", ",",
    "axi_wide_req_t", ",", "axi_wide_rsp_t", ",", "axi_addr_t", ",", "axi_wide_in_id_t", ",",
    "axi_wide_data_t", ",", "axi_wide_strb_t", ",", "axi_wide_user_t", ")", "`FLOO_TYPEDEF_NW_CHAN_ALL", "(",
    "axi", ",", "req", ",", "rsp", ",", "wide", ",", "axi_narrow", ",", "axi_wide", ",", "AxiCfgN", ",",
    "AxiCfgW", ",", "hdr_t", ")", "floo_req_chan_t", "[", "NumInputs", "-", "1", ":", "0", "]", "req_in",
    ";"
  ]

def pin_nwRouter_2 : List String := [
    "floo_rsp_chan_t", "[", "NumInputs", "-", "1", ":", "0", "]", "rsp_out", ";", "floo_req_chan_t", "[",
    "NumOutputs", "-", "1", ":", "0", "]", "req_out", ";", "floo_rsp_chan_t", "[", "NumOutputs", "-", "1",
    ":", "0", "]", "rsp_in", ";", "floo_wide_chan_t", "[", "NumRoutes", "-", "1", ":", "0", "]", "wide_in",
    ",", "wide_out", ";", "logic", "[", "NumInputs", "-", "1", ":", "0", "]", "req_valid_in", ",",
    "req_ready_out", ";", "logic", "[", "NumInputs", "-", "1", ":", "0", "]", "rsp_valid_out", ",",
    "rsp_ready_in", ";", "logic", "[", "NumOutputs", "-", "1", ":", "0", "]", "req_valid_out", ",",
    "req_ready_in", ";", "logic", "[", "NumOutputs", "-", "1", ":", "0", "]", "rsp_valid_in", ",",
    "rsp_ready_out", ";", "logic", "[", "NumRoutes", "-", "1", ":", "0", "]", "wide_valid_in", ",",
    "wide_valid_out", ";", "logic", "[", "NumRoutes", "-", "1", ":", "0", "]", "wide_ready_in", ",",
    "wide_ready_out", ";", "for", "(", "genvar", "i", "=", "0", ";", "i", "<", "NumInputs", ";", "i", "+",
    "+", ")", "begin", ":", "gen_chimney_req", "assign", "req_valid_in", "[", "i", "]", "=", "floo_req_i",
    "[", "i", "]", ".", "valid", ";", "assign", "floo_req_o", "[", "i", "]", ".", "ready", "=",
    "req_ready_out", "[", "i", "]", ";", "assign", "req_in", "[", "i", "]", "=", "floo_req_i", "[", "i", "]",
    ".", "req", ";", "assign", "floo_rsp_o", "[", "i", "]", ".", "valid", "=", "rsp_valid_out", "[", "i",
    "]", ";", "assign", "rsp_ready_in", "[", "i", "]", "=", "floo_rsp_i", "[", "i", "]", ".", "ready", ";",
    "assign", "floo_rsp_o", "["
  ]

def pin_nwRouter_3 : List String := [
    "i", "]", ".", "rsp", "=", "rsp_out", "[", "i", "]", ";", "end", "for", "(", "genvar", "i", "=", "0",
    ";", "i", "<", "NumOutputs", ";", "i", "+", "+", ")", "begin", ":", "gen_chimney_rsp", "assign",
    "floo_req_o", "[", "i", "]", ".", "valid", "=", "req_valid_out", "[", "i", "]", ";", "assign",
    "req_ready_in", "[", "i", "]", "=", "floo_req_i", "[", "i", "]", ".", "ready", ";", "assign",
    "floo_req_o", "[", "i", "]", ".", "req", "=", "req_out", "[", "i", "]", ";", "assign", "rsp_valid_in",
    "[", "i", "]", "=", "floo_rsp_i", "[", "i", "]", ".", "valid", ";", "assign", "floo_rsp_o", "[", "i",
    "]", ".", "ready", "=", "rsp_ready_out", "[", "i", "]", ";", "assign", "rsp_in", "[", "i", "]", "=",
    "floo_rsp_i", "[", "i", "]", ".", "rsp", ";", "end", "for", "(", "genvar", "i", "=", "0", ";", "i", "<",
    "NumRoutes", ";", "i", "+", "+", ")", "begin", ":", "gen_chimney_wide", "assign", "wide_valid_in", "[",
    "i", "]", "=", "floo_wide_i", "[", "i", "]", ".", "valid", ";", "assign", "floo_wide_o", "[", "i", "]",
    ".", "ready", "=", "wide_ready_out", "[", "i", "]", ";", "assign", "wide_in", "[", "i", "]", "=",
    "floo_wide_i", "[", "i", "]", ".", "wide", ";", "assign", "floo_wide_o", "[", "i", "]", ".", "valid",
    "=", "wide_valid_out", "[", "i", "]", ";", "assign", "wide_ready_in", "[", "i", "]", "=", "floo_wide_i",
    "[", "i", "]", ".", "ready", ";", "assign", "floo_wide_o", "[", "i", "]", ".", "wide", "=", "wide_out"
  ]

def pin_nwRouter_4 : List String := [
    "[", "i", "]", ";", "end", "floo_router", "#", "(", ".", "NumPhysChannels", "(", "1", ")", ",", ".",
    "NumVirtChannels", "(", "1", ")", ",", ".", "NumInput", "(", "NumInputs", ")", ",", ".", "NumOutput",
    "(", "NumOutputs", ")", ",", ".", "flit_t", "(", "floo_req_generic_flit_t", ")", ",", ".", "InFifoDepth",
    "(", "InFifoDepth", ")", ",", ".", "OutFifoDepth", "(", "OutFifoDepth", ")", ",", ".", "RouteAlgo", "(",
    "RouteAlgo", ")", ",", ".", "XYRouteOpt", "(", "XYRouteOpt", ")", ",", ".", "id_t", "(", "id_t", ")",
    ",", ".", "NumAddrRules", "(", "NumAddrRules", ")", ",", ".", "addr_rule_t", "(", "addr_rule_t", ")",
    ")", "i_req_floo_router", "(", ".", "clk_i", ",", ".", "rst_ni", ",", ".", "test_enable_i", ",", ".",
    "xy_id_i", "(", "id_i", ")", ",", ".", "id_route_map_i", ",", ".", "valid_i", "(", "req_valid_in", ")",
    ",", ".", "ready_o", "(", "req_ready_out", ")", ",", ".", "data_i", "(", "req_in", ")", ",", ".",
    "valid_o", "(", "req_valid_out", ")", ",", ".", "ready_i", "(", "req_ready_in", ")", ",", ".", "data_o",
    "(", "req_out", ")", ")", ";", "floo_router", "#", "(", ".", "NumPhysChannels", "(", "1", ")", ",", ".",
    "NumVirtChannels", "(", "1", ")", ",", ".", "NumInput", "(", "NumInputs", ")", ",", ".", "NumOutput",
    "(", "NumOutputs", ")", ",", ".", "InFifoDepth", "(", "InFifoDepth", ")", ",", ".", "OutFifoDepth", "(",
    "OutFifoDepth", ")", ",", ".", "RouteAlgo", "(", "RouteAlgo", ")", ",", ".", "XYRouteOpt", "(",
    "XYRouteOpt", ")", ",", ".", "flit_t", "(", "floo_rsp_generic_flit_t", ")", ",", ".", "id_t", "(",
    "id_t", ")", ","
  ]

def pin_nwRouter_5 : List String := [
    ".", "NumAddrRules", "(", "NumAddrRules", ")", ",", ".", "addr_rule_t", "(", "addr_rule_t", ")", ")",
    "i_rsp_floo_router", "(", ".", "clk_i", ",", ".", "rst_ni", ",", ".", "test_enable_i", ",", ".",
    "xy_id_i", "(", "id_i", ")", ",", ".", "id_route_map_i", ",", ".", "valid_i", "(", "rsp_valid_in", ")",
    ",", ".", "ready_o", "(", "rsp_ready_out", ")", ",", ".", "data_i", "(", "rsp_in", ")", ",", ".",
    "valid_o", "(", "rsp_valid_out", ")", ",", ".", "ready_i", "(", "rsp_ready_in", ")", ",", ".", "data_o",
    "(", "rsp_out", ")", ")", ";", "floo_router", "#", "(", ".", "NumPhysChannels", "(", "1", ")", ",", ".",
    "NumVirtChannels", "(", "1", ")", ",", ".", "NumRoutes", "(", "NumRoutes", ")", ",", ".", "flit_t", "(",
    "floo_wide_generic_flit_t", ")", ",", ".", "InFifoDepth", "(", "InFifoDepth", ")", ",", ".",
    "OutFifoDepth", "(", "OutFifoDepth", ")", ",", ".", "RouteAlgo", "(", "RouteAlgo", ")", ",", ".",
    "XYRouteOpt", "(", "XYRouteOpt", ")", ",", ".", "id_t", "(", "id_t", ")", ",", ".", "NumAddrRules", "(",
    "NumAddrRules", ")", ",", ".", "addr_rule_t", "(", "addr_rule_t", ")", ")", "i_wide_req_floo_router",
    "(", ".", "clk_i", ",", ".", "rst_ni", ",", ".", "test_enable_i", ",", ".", "xy_id_i", "(", "id_i", ")",
    ",", ".", "id_route_map_i", ",", ".", "valid_i", "(", "wide_valid_in", ")", ",", ".", "ready_o", "(",
    "wide_ready_out", ")", ",", ".", "data_i", "(", "wide_in", ")", ",", ".", "valid_o", "(",
    "wide_valid_out", ")", ",", ".", "ready_i", "(", "wide_ready_in", ")", ",", ".", "data_o", "(",
    "wide_out", ")", ")", ";", "endmodule"
  ]

def pin_nwRouter : List String := pin_nwRouter_0 ++ pin_nwRouter_1 ++ pin_nwRouter_2 ++ pin_nwRouter_3 ++ pin_nwRouter_4 ++ pin_nwRouter_5


/-- the tokens of this part of the working tree's RTL are the pinned ones -/
theorem nwRouter_pinned : rtlFacts.nwRouter = pin_nwRouter := by
  decide +kernel

end FlooVerif.HwTie

/-
  C12 (generator side) — no enumeration member is declared twice: whenever the routing information
  of a description is built, the CamelCase names of its endpoint instances are pairwise different
  and different from `NumEndpoints`, and the CamelCase names of the address-map entries are
  pairwise different — for every description, whatever its size.
-/
import FlooVerif.Model.Route
import FlooVerif.Props.C01U
namespace FlooVerif.C12U
open FlooVerif Model

theorem ep_enum_names_distinct (sp : PathOracle) (d : Desc) (c : Compiled) (r : Routed)
    (h : genRoutingInfo sp d c = .ok r) : (epEnumNames d c).Nodup := by
  unfold genRoutingInfo at h
  by_cases hn : (c.nis.length == 0) = true
  · rw [if_pos hn] at h; cases h
  rw [if_neg hn] at h
  by_cases hd : decide ((epEnumNames d c).Nodup) = false
  · rw [if_pos hd] at h; cases h
  · simpa using hd

/-- in particular no two endpoint instances share a member name, and none is `NumEndpoints` -/
theorem ep_enum_member_unique (sp : PathOracle) (d : Desc) (c : Compiled) (r : Routed)
    (h : genRoutingInfo sp d c = .ok r) :
    (c.nis.map fun ni => snakeToCamel (niEnumSnake d ni)).Nodup ∧
    ∀ ni ∈ c.nis, snakeToCamel (niEnumSnake d ni) ≠ "NumEndpoints" := by
  have := ep_enum_names_distinct sp d c r h
  unfold epEnumNames at this
  rw [List.nodup_cons] at this
  refine ⟨this.2, fun ni hni heq => this.1 ?_⟩
  rw [← heq]; exact List.mem_map.2 ⟨ni, hni, rfl⟩

/-- the member names of `sam_idx_e` -/
theorem sam_idx_names_distinct (d : Desc) (c : Compiled) (off : Option (Int × Int)) (rules : List SamRule)
    (h : genSam d c off = .ok rules) : (rules.map fun s => snakeToCamel s.name).Nodup :=
  (C01U.genSam_ok d c off rules h).2.2.2

end FlooVerif.C12U

/-
  C20 — package manifests name only existing files and cover what generated code needs.
  `closed_covers_reachable` is the generic part (any instantiation graph); `manifests_ok` is the
  instance over the facts regenerated from Bender.yml, floo_noc.core, `git ls-files`, hw/ and the
  shipped examples on every run.
-/
import FlooVerif.Check4
import FlooVerif.Gen.HwFacts
import FlooVerif.Gen.ManifestFacts
namespace FlooVerif.C20
open FlooVerif

/-- module `b` is instantiated (directly) by module `a`, both defined in this repository
    (`find?`: the definition of `a`, module names being unique — checked by `namesUnique`) -/
def Instantiates (hw : HwFacts) (a b : String) : Prop :=
  ∃ m, hw.modules.find? (·.name == a) = some m ∧ b ∈ localInst hw m

inductive Needed (hw : HwFacts) : String → Prop where
  | root {n} : n ∈ roots → Needed hw n
  | step {a b} : Needed hw a → Instantiates hw a b → Needed hw b

/-- **a set that contains the roots and is closed under instantiation contains every module the
    generated networks need, however deep the hierarchy** -/
theorem closed_covers_reachable (hw : HwFacts) (s : List String) (h : closedSet hw s = true) :
    ∀ n, Needed hw n → n ∈ s := by
  unfold closedSet at h
  simp only [Bool.and_eq_true, List.all_eq_true] at h
  intro n hn
  induction hn with
  | root hr => simpa using h.1 _ hr
  | step _ hi ih =>
    obtain ⟨m, hf, hb⟩ := hi
    have := h.2 _ ih
    simp only [hf, List.all_eq_true] at this
    simpa using this _ hb

/-- hence: if the decider accepts, every needed module is defined in a file that both manifests list,
    and every listed file exists or is the file a shipped example named like its target generates -/
theorem holds_spec (mf : ManifestFacts) (hw : HwFacts) (h : holds mf hw = true) :
    (∀ e ∈ mf.bender ++ mf.core, e.path ∈ mf.tracked ∨ generatedFor mf e = true) ∧
    (∀ n, Needed hw n → ∃ f, fileOf hw n = some f ∧ (∃ e ∈ mf.bender, e.path = f) ∧ (∃ e ∈ mf.core, e.path = f)) := by
  unfold holds at h
  simp only [Bool.and_eq_true] at h
  obtain ⟨⟨⟨hc, hent⟩, hb⟩, hcore⟩ := h
  refine ⟨?_, ?_⟩
  · intro e he
    have := List.all_eq_true.1 hent e he
    unfold entryOk at this
    simpa using this
  · intro n hn
    have hmem := closed_covers_reachable hw _ hc n hn
    unfold listedIn at hb hcore
    have h1 := List.all_eq_true.1 hb n hmem
    have h2 := List.all_eq_true.1 hcore n hmem
    cases hf : fileOf hw n with
    | none => simp [hf] at h1
    | some f =>
      simp only [hf, List.any_eq_true, beq_iff_eq] at h1 h2
      exact ⟨f, rfl, h1, h2⟩

/-- **the instance**: both manifests of the current tree -/
theorem manifests_ok : holds Gen.manifestFacts Gen.hwFacts = true := by decide +kernel

end FlooVerif.C20

/-
  The RTL fragments Hw.lean was written against, token by token (see HwTie.lean).
-/
import FlooVerif.Gen.RtlFacts
import FlooVerif.Hw
namespace FlooVerif.HwTie
open FlooVerif Rtl Hw Gen

/-! ### the fragments Hw.lean was written against, token by token

`Hw.decideId` reads `gen_id_table` as "decode `hdr.dst_id` with `addr_decode` over `id_route_map_i`, the index is the
output port"; `Hw.allowed` reads the masking in floo_router as "no loop-back; under XY no turn from North/South
to East/West"; `Hw.srcPop` relies on `RouteSelWidth = $clog2(NumRoutes)` with `.NumRoutes(NumOutput)`;
the request destination and the source route come out of floo_route_comp as `Hw.lean` / `Check*.lean` assume
(`addr_decode` over `addr_map_i`; `route_table_i[id_o]`); the chimneys hand the request address to the first
and the requester's identity to the second `floo_route_comp` (`chimneyComp`). -/

def pin_xyRest : List String := [
    "id_t", "id_in", ";", "assign", "id_in", "=", "id_t", "'(", "channel_i", ".", "hdr", ".", "dst_id", ")",
    ";", "assign", "channel_o", "=", "channel_i", ";"
  ]

def pin_routeSelWidth : List String := [
    "$clog2", "(", "NumRoutes", ")"
  ]

def pin_idBlock : List String := [
    "logic", "[", "RouteSelWidth", "-", "1", ":", "0", "]", "id_table_result", ";", "assign", "channel_o",
    "=", "channel_i", ";", "addr_decode", "#", "(", ".", "NoIndices", "(", "NumRoutes", ")", ",", ".",
    "NoRules", "(", "NumAddrRules", ")", ",", ".", "addr_t", "(", "id_t", ")", ",", ".", "rule_t", "(",
    "addr_rule_t", ")", ",", ".", "Napot", "(", "0", ")", ")", "i_id_decode", "(", ".", "addr_i", "(",
    "channel_i", ".", "hdr", ".", "dst_id", ")", ",", ".", "addr_map_i", "(", "id_route_map_i", ")", ",",
    ".", "idx_o", "(", "id_table_result", ")", ",", ".", "dec_valid_o", "(", ")", ",", ".", "dec_error_o",
    "(", ")", ",", ".", "default_idx_i", "(", "'0", ")", ",", ".", "en_default_idx_i", "(", "'0", ")", ")",
    ";", "always_comb", "begin", ":", "proc_route_sel", "route_sel_id", "=", "id_table_result", ";",
    "route_sel", "=", "'0", ";", "route_sel", "[", "id_table_result", "]", "=", "1'b1", ";", "end"
  ]

def pin_routerSelect : List String := [
    "floo_route_select", "#", "(", ".", "NumRoutes", "(", "NumOutput", ")", ",", ".", "flit_t", "(",
    "flit_t", ")", ",", ".", "RouteAlgo", "(", "RouteAlgo", ")", ",", ".", "IdWidth", "(", "IdWidth", ")",
    ",", ".", "id_t", "(", "id_t", ")", ",", ".", "NumAddrRules", "(", "NumAddrRules", ")", ",", ".",
    "addr_rule_t", "(", "addr_rule_t", ")", ")", "i_route_select", "(", ".", "clk_i", ",", ".", "rst_ni",
    ",", ".", "test_enable_i", ",", ".", "xy_id_i", "(", "xy_id_i", ")", ",", ".", "id_route_map_i", "(",
    "id_route_map_i", ")", ",", ".", "channel_i", "(", "in_data", "[", "in_route", "]", "[", "v_chan", "]",
    ")", ",", ".", "valid_i", "(", "in_valid", "[", "in_route", "]", "[", "v_chan", "]", ")", ",", ".",
    "ready_i", "(", "in_ready", "[", "in_route", "]", "[", "v_chan", "]", ")", ",", ".", "channel_o", "(",
    "in_routed_data", "[", "in_route", "]", "[", "v_chan", "]", ")", ",", ".", "route_sel_o", "(",
    "route_mask", "[", "in_route", "]", "[", "v_chan", "]", ")", ",", ".", "route_sel_id_o", "(", ")", ")",
    ";"
  ]

def pin_routerMask : List String := [
    "localparam", "int", "unsigned", "NumInputLimited", "=", "NoLoopback", "?", "NumInput", "-", "1", ":",
    "NumInput", ";", "logic", "[", "NumOutput", "-", "1", ":", "0", "]", "[", "NumVirtChannels", "-", "1",
    ":", "0", "]", "[", "NumInputLimited", "-", "1", ":", "0", "]", "masked_valid", ",", "masked_ready", ";",
    "logic", "[", "NumInput", "-", "1", ":", "0", "]", "[", "NumVirtChannels", "-", "1", ":", "0", "]", "[",
    "NumOutput", "-", "1", ":", "0", "]", "masked_all_ready", ";", "flit_t", "[", "NumOutput", "-", "1", ":",
    "0", "]", "[", "NumVirtChannels", "-", "1", ":", "0", "]", "[", "NumInputLimited", "-", "1", ":", "0",
    "]", "masked_data", ";", "for", "(", "genvar", "in_route", "=", "0", ";", "in_route", "<", "NumInput",
    ";", "in_route", "+", "+", ")", "begin", ":", "gen_hs_input", "for", "(", "genvar", "v_chan", "=", "0",
    ";", "v_chan", "<", "NumVirtChannels", ";", "v_chan", "+", "+", ")", "begin", ":", "gen_hs_virt", "for",
    "(", "genvar", "out_route", "=", "0", ";", "out_route", "<", "NumOutput", ";", "out_route", "+", "+",
    ")", "begin", ":", "gen_hs_output", "localparam", "int", "unsigned", "ModInRoute", "=", "in_route", "<",
    "out_route", "&&", "NoLoopback", "?", "in_route", ":", "in_route", "-", "1", ";", "if", "(", "in_route",
    "==", "out_route", "&&", "NoLoopback", ")", "begin", ":", "gen_inout_identical", "assign",
    "masked_all_ready", "[", "in_route", "]", "[", "v_chan", "]", "[", "out_route", "]", "=", "'0", ";",
    "end", "else", "if", "(", "(", "RouteAlgo", "==", "XYRouting", ")", "&&", "XYRouteOpt", "&&", "(",
    "in_route", "==", "South", "||", "in_route", "==", "North", ")", "&&", "(", "out_route", "==", "East",
    "||", "out_route", "==", "West", ")", ")", "begin", ":", "gen_xy_opt", "assign", "masked_all_ready", "[",
    "in_route", "]", "[", "v_chan", "]", "[", "out_route", "]", "=", "'0", ";", "assign", "masked_valid",
    "[", "out_route", "]", "[", "v_chan", "]", "[", "ModInRoute", "]", "=", "'0", ";", "assign",
    "masked_data", "[", "out_route", "]", "[", "v_chan", "]", "[", "ModInRoute", "]", "=", "'0", ";", "end",
    "else", "begin", ":", "gen_default", "assign", "masked_all_ready", "[", "in_route", "]", "[", "v_chan",
    "]", "[", "out_route", "]", "=", "masked_ready", "[", "out_route", "]", "[", "v_chan", "]", "[",
    "ModInRoute", "]", ";", "assign", "masked_valid", "[", "out_route", "]", "[", "v_chan", "]", "[",
    "ModInRoute", "]", "=", "in_valid", "[", "in_route", "]", "[", "v_chan", "]", "&", "route_mask", "[",
    "in_route", "]", "[", "v_chan", "]", "[", "out_route", "]", ";", "assign", "masked_data", "[",
    "out_route", "]", "[", "v_chan", "]", "[", "ModInRoute", "]", "=", "in_routed_data", "[", "in_route",
    "]", "[", "v_chan", "]", ";", "end"
  ]

def pin_compCond : List String := [
    "if", "(", "UseIdTable", "&&", "(", "(", "RouteCfg", ".", "RouteAlgo", "==", "IdTable", ")", "||", "(",
    "RouteCfg", ".", "RouteAlgo", "==", "XYRouting", ")", "||", "(", "RouteCfg", ".", "RouteAlgo", "==",
    "SourceRouting", ")", ")", ")"
  ]

def pin_compTable : List String := [
    "logic", "dec_error", ";", "localparam", "int", "unsigned", "MaxPossibleId", "=", "1", "<<", "$bits",
    "(", "id_o", ")", ";", "addr_decode", "#", "(", ".", "NoIndices", "(", "MaxPossibleId", ")", ",", ".",
    "NoRules", "(", "RouteCfg", ".", "NumSamRules", ")", ",", ".", "addr_t", "(", "addr_t", ")", ",", ".",
    "rule_t", "(", "addr_rule_t", ")", ",", ".", "idx_t", "(", "id_t", ")", ")", "i_addr_dst_decode", "(",
    ".", "addr_i", "(", "addr_i", ")", ",", ".", "addr_map_i", "(", "addr_map_i", ")", ",", ".", "idx_o",
    "(", "id_o", ")", ",", ".", "dec_valid_o", "(", ")", ",", ".", "dec_error_o", "(", "dec_error", ")", ",",
    ".", "en_default_idx_i", "(", "1'b0", ")", ",", ".", "default_idx_i", "(", "'0", ")", ")", ";",
    "`ASSERT", "(", "DecodeError", ",", "!", "dec_error", ")"
  ]

def pin_compRoute : List String := [
    "assign", "route_o", "=", "(", "UseIdTable", ")", "?", "route_table_i", "[", "id_o", "]", ":",
    "route_table_i", "[", "id_i", "]", ";"
  ]

def pin_branches : List (List String) := [[
      "(", "RouteAlgo", "==", "IdTable", ")"
    ], [
      "(", "RouteAlgo", "==", "SourceRouting", ")"
    ], [
      "(", "RouteAlgo", "==", "XYRouting", ")"
    ]]
def pin_routerDefaults : List String := [
    "parameter", "bit", "XYRouteOpt", "=", "1'b1", "parameter", "bit", "NoLoopback", "=", "1'b1"
  ]

def pin_chimneyComp : List (List String) := [[
      "floo_axi_chimney.sv", "floo_route_comp", "#", "(", ".", "RouteCfg", "(", "RouteCfg", ")", ",", ".",
      "id_t", "(", "id_t", ")", ",", ".", "addr_t", "(", "axi_addr_t", ")", ",", ".", "addr_rule_t", "(",
      "sam_rule_t", ")", ",", ".", "route_t", "(", "route_t", ")", ")", "i_floo_req_route_comp", "(", ".",
      "clk_i", ",", ".", "rst_ni", ",", ".", "route_table_i", ",", ".", "addr_map_i", "(", "Sam", ")", ",",
      ".", "id_i", "(", "id_t", "'(", "'0", ")", ")", ",", ".", "addr_i", "(", "axi_req_addr", "[", "ch",
      "]", ")", ",", ".", "route_o", "(", "route_out", "[", "ch", "]", ")", ",", ".", "id_o", "(", "id_out",
      "[", "ch", "]", ")", ")", ";"
    ], [
      "floo_axi_chimney.sv", "floo_route_comp", "#", "(", ".", "RouteCfg", "(", "RouteCfg", ")", ",", ".",
      "UseIdTable", "(", "1'b0", ")", ",", ".", "id_t", "(", "id_t", ")", ",", ".", "addr_t", "(",
      "axi_addr_t", ")", ",", ".", "addr_rule_t", "(", "sam_rule_t", ")", ",", ".", "route_t", "(",
      "route_t", ")", ")", "i_floo_rsp_route_comp", "(", ".", "clk_i", ",", ".", "rst_ni", ",", ".",
      "route_table_i", ",", ".", "addr_i", "(", "'0", ")", ",", ".", "addr_map_i", "(", "'0", ")", ",", ".",
      "id_i", "(", "axi_rsp_src_id", "[", "ch", "]", ")", ",", ".", "route_o", "(", "route_out", "[", "ch",
      "]", ")", ",", ".", "id_o", "(", "id_out", "[", "ch", "]", ")", ")", ";"
    ], [
      "floo_nw_chimney.sv", "floo_route_comp", "#", "(", ".", "RouteCfg", "(", "RouteCfg", ")", ",", ".",
      "id_t", "(", "id_t", ")", ",", ".", "addr_t", "(", "axi_addr_t", ")", ",", ".", "addr_rule_t", "(",
      "sam_rule_t", ")", ",", ".", "route_t", "(", "route_t", ")", ")", "i_floo_req_route_comp", "(", ".",
      "clk_i", ",", ".", "rst_ni", ",", ".", "route_table_i", ",", ".", "addr_map_i", "(", "Sam", ")", ",",
      ".", "id_i", "(", "id_t", "'(", "'0", ")", ")", ",", ".", "addr_i", "(", "axi_req_addr", "[", "ch",
      "]", ")", ",", ".", "route_o", "(", "route_out", "[", "ch", "]", ")", ",", ".", "id_o", "(", "id_out",
      "[", "ch", "]", ")", ")", ";"
    ], [
      "floo_nw_chimney.sv", "floo_route_comp", "#", "(", ".", "RouteCfg", "(", "RouteCfg", ")", ",", ".",
      "UseIdTable", "(", "1'b0", ")", ",", ".", "id_t", "(", "id_t", ")", ",", ".", "addr_t", "(",
      "axi_addr_t", ")", ",", ".", "addr_rule_t", "(", "sam_rule_t", ")", ",", ".", "route_t", "(",
      "route_t", ")", ")", "i_floo_rsp_route_comp", "(", ".", "clk_i", ",", ".", "rst_ni", ",", ".",
      "route_table_i", ",", ".", "addr_i", "(", "'0", ")", ",", ".", "addr_map_i", "(", "'0", ")", ",", ".",
      "id_i", "(", "axi_rsp_src_id", "[", "ch", "]", ")", ",", ".", "route_o", "(", "route_out", "[", "ch",
      "]", ")", ",", ".", "id_o", "(", "id_out", "[", "ch", "]", ")", ")", ";"
    ]]

theorem rtl_shape :
    rtlFacts.xyRest = pin_xyRest ∧ rtlFacts.routeSelWidth = pin_routeSelWidth ∧ rtlFacts.branches = pin_branches ∧
    rtlFacts.idBlock = pin_idBlock ∧ rtlFacts.routerSelect = pin_routerSelect ∧ rtlFacts.routerMask = pin_routerMask ∧
    rtlFacts.compCond = pin_compCond ∧ rtlFacts.compTable = pin_compTable ∧ rtlFacts.compRoute = pin_compRoute ∧
    rtlFacts.routerDefaults = pin_routerDefaults ∧ rtlFacts.chimneyComp = pin_chimneyComp := by
  decide +kernel

end FlooVerif.HwTie

/-
  C03 — source routes: the packing of a hop list into a route word (model of RouteRule.render:
  first hop in the least significant bits, each hop `bits` wide) is inverted exactly by the
  hardware's consumption (floo_route_select: take `RouteSelWidth` LSBs, shift right), for hop
  lists of any length and any mixture of per-router widths; nothing but zeros is left over.
-/
import FlooVerif.Hw
namespace FlooVerif.C03

/-- value of the rendered route word: Σ portᵢ · 2^(bits₀+…+bitsᵢ₋₁) -/
def pack : List (Nat × Nat) → Nat
  | [] => 0
  | (p, b) :: rest => p + 2 ^ b * pack rest

/-- what the routers along the path do, one after the other: pop `bits` LSBs -/
def popAll : List Nat → Nat → List Nat × Nat
  | [], w => ([], w)
  | b :: bs, w => let (ps, r) := popAll bs (w / 2 ^ b); (w % 2 ^ b :: ps, r)

/-- **pack/unpack**: every router reads exactly the port that was packed for it; zero remains -/
theorem pack_unpack (route : List (Nat × Nat)) (h : ∀ pb ∈ route, pb.1 < 2 ^ pb.2) :
    popAll (route.map (·.2)) (pack route) = (route.map (·.1), 0) := by
  induction route with
  | nil => rfl
  | cons pb rest ih =>
    obtain ⟨p, b⟩ := pb
    have hp : p < 2 ^ b := h (p, b) (by simp)
    have ih' := ih (fun x hx => h x (by simp [hx]))
    simp only [List.map_cons, pack, popAll]
    have hpos : 0 < 2 ^ b := Nat.two_pow_pos b
    have h1 : (p + 2 ^ b * pack rest) / 2 ^ b = pack rest := by
      rw [Nat.add_mul_div_left _ _ hpos, Nat.div_eq_of_lt hp, Nat.zero_add]
    have h2 : (p + 2 ^ b * pack rest) % 2 ^ b = p := by
      rw [Nat.add_mul_mod_self_left, Nat.mod_eq_of_lt hp]
    rw [h1, h2, ih']

/-- the word fits the sum of the hop widths (so it fits `route_t`, whose width is the maximum
    of these sums over all routes) -/
theorem pack_lt (route : List (Nat × Nat)) (h : ∀ pb ∈ route, pb.1 < 2 ^ pb.2) :
    pack route < 2 ^ (route.map (·.2)).sum := by
  induction route with
  | nil => simp [pack]
  | cons pb rest ih =>
    obtain ⟨p, b⟩ := pb
    have hp : p < 2 ^ b := h (p, b) (by simp)
    have ih' := ih (fun x hx => h x (by simp [hx]))
    simp only [List.map_cons, List.sum_cons, pack, Nat.pow_add]
    have : 2 ^ b * pack rest + 2 ^ b ≤ 2 ^ b * 2 ^ (rest.map (·.2)).sum := by
      have := Nat.mul_le_mul_left (2 ^ b) (Nat.succ_le_of_lt ih')
      rw [Nat.mul_succ] at this; exact this
    omega

/-- a port number below the router's port count fits `clog2(port count)` bits — the width both
    floogen (`clog2(len(rt.outgoing))`) and the hardware (`$clog2(NumRoutes)`) use -/
theorem port_fits (numOut p : Nat) (h : p < numOut) : p < 2 ^ Hw.clog2 numOut := by
  unfold Hw.clog2
  split
  · omega
  · rename_i hn
    have := Nat.lt_log2_self (n := numOut - 1)
    omega

/-- the hardware's `srcPop` is one step of `popAll` -/
theorem srcPop_eq (numOut w : Nat) :
    Hw.srcPop numOut w = (w % 2 ^ Hw.clog2 numOut, w / 2 ^ Hw.clog2 numOut) := rfl

/-! non-vacuity: a 3-hop route over routers with 5, 2 and 5 ports -/
example : popAll [3, 1, 3] (pack [(4, 3), (1, 1), (2, 3)]) = ([4, 1, 2], 0) := by decide
example : pack [(4, 3), (1, 1), (2, 3)] = 0b0101100 := by decide

end FlooVerif.C03

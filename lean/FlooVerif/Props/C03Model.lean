/-
  C03 (generator side) — the source routes the model computes, written down as route words and consumed by the
  routers hop by hop, select at every router exactly the output port that carries the link to the next node of the
  oracle's path; nothing is left of the word after the last router.

  `hopPort_spec`     what one hop is: the index of the link u→v in u's outgoing list, `clog2(len(outgoing))` bits wide
  `routePorts_spec`  one such hop per router of the path, in path order
  `routeLit_value`   the binary literal `RouteRule.render` writes has the value `C03.pack hops` and `numBits` digits
  `model_route_unpacks`  `popAll` (the chain of `Hw.srcPop`s) of that value returns the ports of the hops and 0
-/
import FlooVerif.Model.Emit
import FlooVerif.Props.C03
import FlooVerif.Props.C05Full
namespace FlooVerif.C03M
open FlooVerif Model

/-! ### one hop -/

theorem indexOfLink_spec (l : List (Option Link)) (x : Link) (p : Nat) (h : indexOfLink l x = some p) :
    p < l.length ∧ l[p]? = some (some x) := by
  unfold indexOfLink at h
  simp only [] at h
  split at h
  · rename_i hlt
    cases h
    refine ⟨hlt, ?_⟩
    have := List.findIdx_getElem (w := hlt)
    rw [List.getElem?_eq_getElem hlt]
    simp only [beq_iff_eq] at this
    rw [this]
  · cases h

theorem hopPort_spec (c : Compiled) (u v : String) (p nb : Nat) (h : hopPort c u v = .ok (p, nb)) :
    ∃ e rt, c.g.findEdge u v = some e ∧ rt ∈ c.routers ∧ (rt.name == u) = true ∧
      rt.outgoing[p]? = some (some (linkOf c.g e)) ∧ p < rt.outgoing.length ∧
      nb = Hw.clog2 rt.outgoing.length ∧ p < 2 ^ nb := by
  unfold hopPort at h
  split at h
  rotate_left
  · cases h
  rename_i e he
  split at h
  rotate_left
  · cases h
  rename_i rt hrt
  split at h
  rotate_left
  · cases h
  rename_i q hq
  simp only [pure, Except.pure, Except.ok.injEq, Prod.mk.injEq] at h
  obtain ⟨rfl, rfl⟩ := h
  obtain ⟨hlt, hget⟩ := indexOfLink_spec _ _ _ hq
  have hname : (rt.name == u) = true := by
    have := List.find?_some hrt
    simpa using this
  exact ⟨e, rt, he, List.mem_of_find?_eq_some hrt, hname, hget, hlt, rfl, C03.port_fits _ _ hlt⟩

/-! ### all hops of a path -/

theorem mapM_length {α β ε : Type} (f : α → Except ε β) :
    ∀ (l : List α) (res : List β), l.mapM f = .ok res → res.length = l.length ∧
      ∀ i (hi : i < l.length) (hr : i < res.length), f l[i] = .ok res[i] := by
  intro l
  induction l with
  | nil => intro res h; simp [pure, Except.pure] at h; subst h; simp
  | cons x xs ih =>
    intro res h
    rw [List.mapM_cons] at h
    cases hx : f x with
    | error e => rw [hx] at h; cases h
    | ok v =>
      rw [hx] at h
      cases hm : xs.mapM f with
      | error e => rw [hm] at h; cases h
      | ok vs =>
        rw [hm] at h; cases h
        obtain ⟨hl, hi⟩ := ih vs hm
        refine ⟨by simp [hl], ?_⟩
        intro i h1 h2
        cases i with
        | zero => simpa using hx
        | succ j => simpa using hi j (by simpa using h1) (by simpa using h2)

theorem routePorts_spec (c : Compiled) (path : List String) (ports : List (Nat × Nat))
    (h : routePorts c path = .ok ports) :
    ports.length = path.length - 2 ∧
    ∀ i (hi : i < ports.length), hopPort c (path.getD (i + 1) "") (path.getD (i + 2) "") = .ok ports[i] := by
  unfold routePorts at h
  obtain ⟨hl, hi⟩ := mapM_length _ _ _ h
  refine ⟨by simpa using hl, ?_⟩
  intro i h1
  have := hi i (by simpa [hl] using h1) h1
  simpa using this

/-- every hop fits its field -/
theorem routePorts_fit (c : Compiled) (path : List String) (ports : List (Nat × Nat))
    (h : routePorts c path = .ok ports) : ∀ pb ∈ ports, pb.1 < 2 ^ pb.2 := by
  obtain ⟨_, hi⟩ := routePorts_spec c path ports h
  intro pb hpb
  obtain ⟨i, hlt, rfl⟩ := List.getElem_of_mem hpb
  obtain ⟨_, _, _, _, _, _, _, _, hfit⟩ := hopPort_spec c _ _ _ _ (hi i hlt)
  exact hfit

/-! ### the literal -/

/-- value of a string of binary digits -/
def binValue (cs : List Char) : Nat := Nat.ofDigitChars 2 cs 0

theorem ofDigitChars_init (b : Nat) (l : List Char) (init : Nat) :
    Nat.ofDigitChars b l init = b ^ l.length * init + Nat.ofDigitChars b l 0 := by
  induction l generalizing init with
  | nil => simp
  | cons hd tl ih =>
    rw [Nat.ofDigitChars_cons, Nat.ofDigitChars_cons, ih, ih (init := b * 0 + (hd.toNat - '0'.toNat))]
    simp only [List.length_cons, Nat.pow_succ, Nat.mul_zero, Nat.zero_add, Nat.mul_add]
    rw [Nat.mul_assoc, Nat.add_assoc]

theorem binValue_append (l m : List Char) : binValue (l ++ m) = 2 ^ m.length * binValue l + binValue m := by
  unfold binValue
  rw [Nat.ofDigitChars_append, ofDigitChars_init]

theorem binValue_zeros (n : Nat) : binValue (List.replicate n '0') = 0 := by
  unfold binValue; simp

/-- a field: `p` in exactly `b` binary digits (`f"{p:0{b}b}"`), for `p < 2^b`, `b > 0` -/
def field (p b : Nat) : List Char := List.replicate (b - (Nat.toDigits 2 p).length) '0' ++ Nat.toDigits 2 p

theorem field_length (p b : Nat) (hp : p < 2 ^ b) (hb : 0 < b) : (field p b).length = b := by
  have := (Nat.length_toDigits_le_iff (b := 2) (n := p) (k := b) (by omega) hb).2 hp
  unfold field
  simp only [List.length_append, List.length_replicate]
  omega

theorem field_value (p b : Nat) : binValue (field p b) = p := by
  unfold field
  rw [binValue_append, binValue_zeros]
  simp [binValue, Nat.ofDigitChars_toDigits]

/-- the digits of a hop list, last hop first (what the `foldl` of `routeLit` builds) -/
def hopDigits : List (Nat × Nat) → List Char
  | [] => []
  | (p, b) :: rest => hopDigits rest ++ field p b

theorem hopDigits_value (hops : List (Nat × Nat)) (h : ∀ pb ∈ hops, pb.1 < 2 ^ pb.2 ∧ 0 < pb.2) :
    binValue (hopDigits hops) = C03.pack hops ∧ (hopDigits hops).length = (hops.map (·.2)).sum := by
  induction hops with
  | nil => simp [hopDigits, C03.pack, binValue]
  | cons pb rest ih =>
    obtain ⟨p, b⟩ := pb
    obtain ⟨hp, hb⟩ := h (p, b) (by simp)
    obtain ⟨iv, il⟩ := ih (fun x hx => h x (by simp [hx]))
    simp only [hopDigits, C03.pack, List.map_cons, List.sum_cons]
    rw [binValue_append, field_length p b hp hb, field_value, iv]
    refine ⟨by omega, ?_⟩
    simp only [List.length_append, field_length p b hp hb, il]
    omega

theorem padLeft_toList (p b : Nat) : (padLeft (binDigits p) b).toList = field p b := by
  unfold padLeft binDigits field
  simp [String.toList_append, String.length_ofList]

theorem foldl_digits (hops : List (Nat × Nat)) (acc : String) :
    (hops.foldl (fun acc (pb : Nat × Nat) => padLeft (binDigits pb.1) pb.2 ++ acc) acc).toList =
      hopDigits hops ++ acc.toList := by
  induction hops generalizing acc with
  | nil => simp [hopDigits]
  | cons pb rest ih =>
    obtain ⟨p, b⟩ := pb
    simp only [List.foldl_cons, hopDigits]
    rw [ih, String.toList_append, padLeft_toList]
    simp

theorem foldl_bits (hops : List (Nat × Nat)) (a : Nat) :
    hops.foldl (fun a (pb : Nat × Nat) => a + pb.2) a = a + (hops.map (·.2)).sum := by
  induction hops generalizing a with
  | nil => simp
  | cons pb rest ih => simp only [List.foldl_cons, List.map_cons, List.sum_cons, ih]; omega

/-- digits of the literal `routeLit` writes -/
def litDigits : Sv.Expr → List Char
  | .lit _ _ s => s.toList
  | _ => []

/-- **the route literal is the packed word, in `numBits` digits** -/
theorem routeLit_value (numBits : Nat) (hops : List (Nat × Nat))
    (h : ∀ pb ∈ hops, pb.1 < 2 ^ pb.2 ∧ 0 < pb.2) (hfit : (hops.map (·.2)).sum ≤ numBits) :
    binValue (litDigits (routeLit numBits (some hops))) = C03.pack hops ∧
    (litDigits (routeLit numBits (some hops))).length = numBits := by
  obtain ⟨hv, hl⟩ := hopDigits_value hops h
  have hd := foldl_digits hops ""
  have hb := foldl_bits hops 0
  simp only [routeLit, litDigits, String.toList_append, String.toList_ofList]
  rw [hd, hb]
  simp only [String.toList_empty, List.append_nil, Nat.zero_add]
  constructor
  · rw [binValue_append, binValue_zeros, hv]; simp
  · simp only [List.length_append, List.length_replicate, hl]; omega

/-- **C03 for the model**: the literal written for the route along `path`, consumed by the routers of the path one
    after the other (`popAll` = the chain of `Hw.srcPop`, `C03.srcPop_eq`), hands every router the index of the
    output port that carries its link to the next node of the path, and nothing is left over -/
theorem model_route_unpacks (c : Compiled) (path : List String) (ports : List (Nat × Nat)) (numBits : Nat)
    (h : routePorts c path = .ok ports) (hpos : ∀ pb ∈ ports, 0 < pb.2) (hfit : (ports.map (·.2)).sum ≤ numBits) :
    C03.popAll (ports.map (·.2)) (binValue (litDigits (routeLit numBits (some ports)))) = (ports.map (·.1), 0) ∧
    (litDigits (routeLit numBits (some ports))).length = numBits ∧
    ports.length = path.length - 2 ∧
    ∀ i (hi : i < ports.length), ∃ e rt, c.g.findEdge (path.getD (i + 1) "") (path.getD (i + 2) "") = some e ∧
      rt ∈ c.routers ∧ (rt.name == path.getD (i + 1) "") = true ∧
      rt.outgoing[ports[i].1]? = some (some (linkOf c.g e)) ∧ ports[i].2 = Hw.clog2 rt.outgoing.length := by
  have hf := routePorts_fit c path ports h
  obtain ⟨hv, hl⟩ := routeLit_value numBits ports (fun pb hpb => ⟨hf pb hpb, hpos pb hpb⟩) hfit
  obtain ⟨hlen, hi⟩ := routePorts_spec c path ports h
  refine ⟨by rw [hv]; exact C03.pack_unpack ports hf, hl, hlen, ?_⟩
  intro i hlt
  obtain ⟨e, rt, he, hm, hn, hg, _, hnb, _⟩ := hopPort_spec c _ _ _ _ (hi i hlt)
  exact ⟨e, rt, he, hm, hn, hg, hnb⟩

/-! ### `route_t` is wide enough for every route -/

theorem le_foldl_max (l : List Nat) (init x : Nat) (h : x ∈ l ∨ x ≤ init) : x ≤ l.foldl max init := by
  induction l generalizing init with
  | nil => rcases h with h | h; cases h; simpa using h
  | cons y ys ih =>
    simp only [List.foldl_cons]
    apply ih
    rcases h with h | h
    · rcases List.mem_cons.1 h with rfl | h
      · exact Or.inr (Nat.le_max_right _ _)
      · exact Or.inl h
    · exact Or.inr (Nat.le_trans h (Nat.le_max_left _ _))

/-- the width `gen_routes` reports covers the hop widths of every route it returns -/
theorem genRoutes_bits_cover (sp : PathOracle) (d : Desc) (c : Compiled)
    (out : List (NI × List (NodeId × Route))) (nb : Nat) (h : genRoutes sp d c = .ok (out, nb))
    (src : NI) (routes : List (NodeId × Route)) (hs : (src, routes) ∈ out)
    (id : NodeId) (r : Route) (hr : (id, r) ∈ routes) : routeBits r ≤ nb := by
  unfold genRoutes at h
  simp only [bind, Except.bind] at h
  split at h
  · cases h
  rename_i o ho
  simp only [pure, Except.pure, Except.ok.injEq, Prod.mk.injEq] at h
  obtain ⟨rfl, rfl⟩ := h
  apply le_foldl_max
  left
  simp only [List.mem_flatMap, List.mem_map]
  exact ⟨(src, routes), hs, (id, r), hr, rfl⟩

/-- `route_t` is at least one bit wide, whatever the routes need (fix 2c0b8b9: also when no route exists or every
    route takes zero bits, as between two endpoints that are wired to each other without a router) -/
theorem genRoutes_bits_pos (sp : PathOracle) (d : Desc) (c : Compiled)
    (out : List (NI × List (NodeId × Route))) (nb : Nat) (h : genRoutes sp d c = .ok (out, nb)) : 1 ≤ nb := by
  unfold genRoutes at h
  simp only [bind, Except.bind] at h
  split at h
  · cases h
  simp only [pure, Except.pure, Except.ok.injEq, Prod.mk.injEq] at h
  obtain ⟨_, rfl⟩ := h
  exact le_foldl_max _ 1 1 (Or.inr (Nat.le_refl 1))

/-! non-vacuity of the literal lemma: hops (4, 3 bits), (1, 1 bit), (2, 3 bits) in a 9-bit route_t -/
example : litDigits (routeLit 9 (some [(4, 3), (1, 1), (2, 3)])) = "000101100".toList := by decide
example : binValue "000101100".toList = C03.pack [(4, 3), (1, 1), (2, 3)] := by decide

end FlooVerif.C03M

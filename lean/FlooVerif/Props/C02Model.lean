/-
  C02 / C14 (generator side, closing the gap) — for every description the validators accept, the
  graph `create_network` builds is closed (every edge joins existing nodes), so the path oracle the
  model runs (`nxBidirBfs`, the port of networkx's bidirectional search) satisfies the
  shortest-path contract towards every node.  Hence, with no assumption left about the oracle:
  following the second node of the oracle's path from router to router arrives at the destination
  after exactly |path| − 1 hops (C02), and no walk in the graph is shorter than the route (C14).
-/
import FlooVerif.Props.Bfs
import FlooVerif.Props.C05Graph
namespace FlooVerif.C02M
open FlooVerif Model C02U Bfs

theorem closed_of_inv {g : Graph} (hi : C05G.Inv g) : Closed g := fun e he => hi.nodes e he

/-- the graph of every accepted description is closed -/
theorem createNetwork_closed (d : Desc) (hv : validateDesc d = .ok ()) (hpos : C05G.PosArrays d)
    (g : Graph) (hg : createNetwork d = .ok g) : Closed g :=
  closed_of_inv (C05G.createNetwork_inv d (C05G.bidirectional_of_valid d hv) hpos g hg)

/-- **the model's oracle meets the contract** on the graph of every accepted description -/
theorem model_oracle_contract (d : Desc) (hv : validateDesc d = .ok ()) (hpos : C05G.PosArrays d)
    (g : Graph) (hg : createNetwork d = .ok g) (dst : String) (hd : g.hasNode dst = true) :
    SPContract (Edge g) (fun a => nxBidirBfs g a dst) dst :=
  spContract (createNetwork_closed d hv hpos g hg) hd

/-- **C02 for the model, unconditionally**: the next hops taken from the oracle's paths deliver -/
theorem model_tables_deliver (d : Desc) (hv : validateDesc d = .ok ()) (hpos : C05G.PosArrays d)
    (g : Graph) (hg : createNetwork d = .ok g) (dst : String) (hd : g.hasNode dst = true)
    (n : Nat) (a : String) (p : List String) (hp : nxBidirBfs g a dst = some p) (hl : p.length = n + 1) :
    C02.iter (nextHop (fun a => nxBidirBfs g a dst)) n a = some dst :=
  tables_deliver (model_oracle_contract d hv hpos g hg dst hd) n a p hp hl

/-- **C14 for the model, unconditionally**: the route is a shortest path of the graph -/
theorem model_route_minimal (d : Desc) (hv : validateDesc d = .ok ()) (hpos : C05G.PosArrays d)
    (g : Graph) (hg : createNetwork d = .ok g) (dst : String) (hd : g.hasNode dst = true)
    (a : String) (p : List String) (hp : nxBidirBfs g a dst = some p) :
    IsPath (Edge g) p a dst ∧ ∀ q, IsPath (Edge g) q a dst → p.length ≤ q.length :=
  bfs_sound (createNetwork_closed d hv hpos g hg) hp

/-- and a route exists whenever the destination can be reached at all (otherwise floogen stops with
    `NetworkXNoPath`, which the model reports as `unconnected`) -/
theorem model_route_exists (d : Desc) (hv : validateDesc d = .ok ()) (hpos : C05G.PosArrays d)
    (g : Graph) (hg : createNetwork d = .ok g) (a dst : String) (ha : g.hasNode a = true) (hd : g.hasNode dst = true)
    (q : List String) (hq : IsPath (Edge g) q a dst) : ∃ p, nxBidirBfs g a dst = some p := by
  cases h : nxBidirBfs g a dst with
  | some p => exact ⟨p, rfl⟩
  | none => exact absurd hq (bfs_complete (createNetwork_closed d hv hpos g hg) ha hd h q)

end FlooVerif.C02M

/-
  C13 (generator side) — entry k of the address map is the rule that the index enumeration names
  k: when the rule names are pairwise different (which `gen_sam` establishes, `C12U`), the
  enumeration `sam_idx_e` lists the rules in reverse order of the `Sam` pattern with the values
  0, 1, 2, …; SystemVerilog assigns the leftmost element of `'{…}` to the highest index of
  `Sam [SamNumRules-1:0]`, so `Sam[k]` is the rule whose enumeration value is k.
-/
import FlooVerif.Props.C13
import FlooVerif.Props.C12U
import Mathlib.Data.List.Nodup
namespace FlooVerif.C13U
open FlooVerif Model Sv

theorem dictInsert_fresh {β : Type} (m : List (String × β)) (k : String) (v : β)
    (h : k ∉ m.map (·.1)) : dictInsert m k v = m ++ [(k, v)] := by
  unfold dictInsert
  have : m.any (·.1 == k) = false := by
    cases hb : m.any (·.1 == k) with
    | false => rfl
    | true =>
      obtain ⟨x, hx, hk⟩ := List.any_eq_true.1 hb
      exact absurd (List.mem_map.2 ⟨x, hx, by simpa using hk⟩) h
  simp [this]

/-- building a dictionary from pairwise different keys keeps every pair, in order -/
theorem dict_of_nodup {β : Type} :
    ∀ (l : List (String × β)) (m : List (String × β)), ((m ++ l).map (·.1)).Nodup →
      l.foldl (fun m (p : String × β) => dictInsert m p.1 p.2) m = m ++ l := by
  intro l
  induction l with
  | nil => intro m _; simp
  | cons p ps ih =>
    intro m hnd
    simp only [List.foldl_cons]
    have hfresh : p.1 ∉ m.map (·.1) := by
      intro hin
      rw [List.map_append, List.map_cons] at hnd
      have := (List.nodup_append.1 hnd).2.2
      exact this p.1 hin p.1 (by simp) rfl
    rw [dictInsert_fresh m p.1 p.2 hfresh]
    have : (m ++ [p] ++ ps) = m ++ p :: ps := by simp
    rw [ih (m ++ [p]) (by rw [this]; exact hnd), this]

/-- **the index enumeration numbers the rules of `Sam` from the right**: member k of `sam_idx_e`
    carries the name of the k-th rule counted from the end of the `Sam` pattern, with value k -/
theorem sam_idx_enumerates (r : Routed) (hnd : (r.sam.map (·.name)).Nodup) :
    ∃ ty, samIdxEnumItem r =
      .typedefEnum ty (r.sam.reverse.zipIdx.map fun (s, i) => (snakeToCamel s.name, Model.num i)) "sam_idx_e" := by
  have hkeys : (r.sam.reverse.zipIdx.map fun (x : SamRule × Nat) => (x.1.name, x.2)).map (·.1) =
      r.sam.reverse.map (·.name) := by
    rw [List.map_map]
    have : ((fun (x : String × Nat) => x.1) ∘ fun (x : SamRule × Nat) => (x.1.name, x.2)) =
        (fun (s : SamRule) => s.name) ∘ (fun (x : SamRule × Nat) => x.1) := rfl
    rw [this, ← List.map_map, List.zipIdx_map_fst]
  have hfold : r.sam.reverse.zipIdx.foldl (fun m (x : SamRule × Nat) => dictInsert m x.1.name x.2)
      ([] : List (String × Nat)) = r.sam.reverse.zipIdx.map fun (x : SamRule × Nat) => (x.1.name, x.2) := by
    have h1 : r.sam.reverse.zipIdx.foldl (fun m (x : SamRule × Nat) => dictInsert m x.1.name x.2) ([] : List (String × Nat)) =
        (r.sam.reverse.zipIdx.map fun (x : SamRule × Nat) => (x.1.name, x.2)).foldl
          (fun m (p : String × Nat) => dictInsert m p.1 p.2) [] := by
      rw [List.foldl_map]
    rw [h1, dict_of_nodup _ [] ?_]
    · simp
    · rw [List.nil_append, hkeys, List.map_reverse]
      exact List.nodup_reverse.2 hnd
  have hsame : samIdxEnumItem r = enumTypedef "sam_idx_e"
      (r.sam.reverse.zipIdx.foldl (fun m (x : SamRule × Nat) => dictInsert m x.1.name x.2) []) := rfl
  rw [hsame, hfold]
  unfold enumTypedef
  dsimp only
  exact ⟨_, by rw [List.map_map]; rfl⟩

/-- the hypothesis is what `gen_sam` guarantees -/
theorem names_nodup_of_genSam (d : Desc) (c : Compiled) (off : Option (Int × Int)) (rules : List SamRule)
    (h : genSam d c off = .ok rules) : (rules.map (·.name)).Nodup := by
  have := C12U.sam_idx_names_distinct d c off rules h
  have h2 : (rules.map fun s => snakeToCamel s.name) = (rules.map (·.name)).map snakeToCamel := by simp
  rw [h2] at this
  exact List.Nodup.of_map _ this

end FlooVerif.C13U

/-
  C06 (generator side) — "no more and no less" for one connection entry: when `create_connections`
  has paired the two selections, it adds exactly one link and its reverse per pair, in order, with
  the ports the entry names — nothing else changes in the graph.  With `C06U.pairing_agrees` (the
  pairs are the specification's) this is the model-level statement of C06 for connection entries.
-/
import FlooVerif.Props.C05Graph
namespace FlooVerif.C06C
open FlooVerif Model Model.Graph C05G

def fwdEdge (c : ConnDesc) (p : String × String) : Edge :=
  { src := p.1, dst := p.2, kind := .link, srcDir := c.srcDir, dstDir := c.dstDir }
def revEdge (c : ConnDesc) (p : String × String) : Edge :=
  { src := p.2, dst := p.1, kind := .link, srcDir := c.dstDir, dstDir := c.srcDir }

/-- **exactly two edges per pair, nothing else** -/
theorem connectPairs_edges (c : ConnDesc) (hb : c.bidirectional = true) :
    ∀ (pairs : List (String × String)) (g g' : Graph), connectPairs c pairs g = .ok g' →
      g'.edges = g.edges ++ pairs.flatMap (fun p => [fwdEdge c p, revEdge c p]) ∧ g'.nodes = g.nodes := by
  intro pairs
  induction pairs with
  | nil =>
    intro g g' h
    unfold connectPairs at h
    simp only [List.foldlM, pure, Except.pure] at h
    cases h; simp
  | cons p ps ih =>
    intro g g' h
    unfold connectPairs at h
    simp only [List.foldlM] at h
    obtain ⟨g2, h1, h2⟩ := bind_ok h
    obtain ⟨g1, ha, hbb⟩ := bind_ok h1
    rw [if_pos hb] at hbb
    obtain ⟨_, _, rfl⟩ := addEdge_ok ha
    obtain ⟨_, _, rfl⟩ := addEdge_ok hbb
    have := ih _ g' (by unfold connectPairs; exact h2)
    obtain ⟨he, hn⟩ := this
    refine ⟨?_, hn⟩
    rw [he]
    simp [fwdEdge, revEdge, List.flatMap_cons]

/-- in particular every pair is linked in both directions with the named ports -/
theorem connectPairs_links (c : ConnDesc) (hb : c.bidirectional = true) (pairs : List (String × String))
    (g g' : Graph) (h : connectPairs c pairs g = .ok g') :
    ∀ p ∈ pairs, fwdEdge c p ∈ g'.edges ∧ revEdge c p ∈ g'.edges := by
  intro p hp
  obtain ⟨he, _⟩ := connectPairs_edges c hb pairs g g' h
  rw [he]
  constructor
  · exact List.mem_append_right _ (List.mem_flatMap.2 ⟨p, hp, by simp⟩)
  · exact List.mem_append_right _ (List.mem_flatMap.2 ⟨p, hp, by simp⟩)

/-- and an edge that was not there before belongs to one of the pairs -/
theorem connectPairs_only (c : ConnDesc) (hb : c.bidirectional = true) (pairs : List (String × String))
    (g g' : Graph) (h : connectPairs c pairs g = .ok g') :
    ∀ e ∈ g'.edges, e ∈ g.edges ∨ ∃ p ∈ pairs, e = fwdEdge c p ∨ e = revEdge c p := by
  intro e he
  obtain ⟨hedges, _⟩ := connectPairs_edges c hb pairs g g' h
  rw [hedges] at he
  rcases List.mem_append.1 he with he | he
  · exact Or.inl he
  · obtain ⟨p, hp, hm⟩ := List.mem_flatMap.1 he
    simp only [List.mem_cons, List.mem_nil_iff, or_false] at hm
    exact Or.inr ⟨p, hp, hm⟩

end FlooVerif.C06C

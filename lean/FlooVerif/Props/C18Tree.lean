/-
  C18 (tree levels, in full) — for the graph the tree constructor builds, selecting level L of the tree returns
  exactly the routers `<name>_<i0>_…_<iL>` for all index tuples below the fan-outs, first index outermost, whatever
  else lives in the graph (as long as no other node is named like a node of this tree).

  `tree_nodes`       the constructor appends the nodes `treeNodes` (depth-first) and nothing else
  `level_of_tree`    filtering `treeNodes` by level and taking names gives `prodNames` (the cartesian product order)
  `tree_inTree`      every node of the tree is recognised by `inTree`
  `lvl_select_tree`  hence `nodesFromLvl` on the built graph = `prodNames name (tree.take (L+1))`; none beyond the depth
-/
import FlooVerif.Props.C05Graph
import FlooVerif.Props.C18
import FlooVerif.Links
namespace FlooVerif.C18T
open FlooVerif Model Model.Graph C05G

/-- the nodes the tree constructor creates below `parent` from level `lvl` on, in creation (depth-first) order -/
def treeNodes (k : Nat) (tree : List Nat) : Nat → String → Nat → List Node
  | 0, _, _ => []
  | fuel + 1, parent, lvl =>
    if lvl == tree.length then [] else
    (List.range (tree.getD lvl 0)).flatMap fun i =>
      ({ name := parent ++ "_" ++ toString i, kind := .router, descIdx := k, lvl := some lvl } : Node) ::
        treeNodes k tree fuel (parent ++ "_" ++ toString i) (lvl + 1)

/-- names `<parent>_<i0>_…` for all index tuples below `dims`, first index outermost -/
def prodNames (parent : String) : List Nat → List String
  | [] => [parent]
  | d :: ds => (List.range d).flatMap fun i => prodNames (parent ++ "_" ++ toString i) ds

/-! ### the constructor appends exactly `treeNodes` -/

theorem foldlM_nodes {α : Type} (f : Graph → α → D Graph) (F : α → List Node)
    (hstep : ∀ g x g', f g x = .ok g' → g'.nodes = g.nodes ++ F x) :
    ∀ (l : List α) (g g' : Graph), l.foldlM f g = .ok g' → g'.nodes = g.nodes ++ l.flatMap F := by
  intro l
  induction l with
  | nil => intro g g' h; simp [List.foldlM, pure, Except.pure] at h; subst h; simp
  | cons x xs ih =>
    intro g g' h
    simp only [List.foldlM] at h
    obtain ⟨g1, h1, h2⟩ := bind_ok h
    rw [ih g1 g' h2, hstep g x g1 h1]
    simp [List.flatMap_cons]

theorem tree_nodes (tree : List Nat) (k : Nat) (c : Bool) :
    ∀ (fuel : Nat) (g g' : Graph) (parent : String) (lvl : Nat),
      g.addNodesAsTree parent tree k c fuel lvl = .ok g' → g'.nodes = g.nodes ++ treeNodes k tree fuel parent lvl := by
  intro fuel
  induction fuel with
  | zero => intro g g' parent lvl h; unfold Graph.addNodesAsTree at h; rw [← pure_ok h]; simp [treeNodes]
  | succ fuel ih =>
    intro g g' parent lvl h
    unfold Graph.addNodesAsTree at h
    unfold treeNodes
    by_cases hl : (lvl == tree.length) = true
    · rw [if_pos hl] at h; rw [← pure_ok h, if_pos hl]; simp
    rw [if_neg hl] at h
    rw [if_neg hl]
    refine foldlM_nodes _ _ ?_ _ g g' h
    intro gc i gd hstep
    obtain ⟨g1, h1, h2⟩ := bind_ok hstep
    obtain ⟨_, hg1⟩ := addNode_ok h1
    by_cases hc : (c && decide (lvl > 0)) = true
    · simp only [hc, if_true] at h2
      obtain ⟨g2, h3, h4⟩ := bind_ok h2
      obtain ⟨g3, h5, h6⟩ := bind_ok h4
      obtain ⟨_, _, hg2⟩ := addEdge_ok h3
      obtain ⟨_, _, hg3⟩ := addEdge_ok h5
      rw [ih g3 gd _ _ h6, hg3, hg2, hg1]
      simp
    · simp only [hc, if_false, pure_bind, Bool.false_eq_true] at h2
      rw [ih g1 gd _ _ h2, hg1]
      simp

/-! ### the nodes of one level, in product order -/

def atLevel (L : Nat) (n : Node) : Bool := n.lvl == some L

theorem filter_map_flatMap {α β γ : Type} (l : List α) (f : α → List β) (p : β → Bool) (g : β → γ) :
    ((l.flatMap f).filter p).map g = l.flatMap fun x => ((f x).filter p).map g := by
  induction l with
  | nil => simp
  | cons x xs ih => simp [List.flatMap_cons, List.filter_append, ih]

theorem flatMap_congr' {α β : Type} (l : List α) (f g : α → List β) (h : ∀ x ∈ l, f x = g x) :
    l.flatMap f = l.flatMap g := by
  induction l with
  | nil => rfl
  | cons x xs ih =>
    simp only [List.flatMap_cons]
    rw [h x (by simp), ih (fun y hy => h y (by simp [hy]))]

/-- below level `L` there is nothing of level `L` -/
theorem level_above (k : Nat) (tree : List Nat) (L : Nat) :
    ∀ (fuel : Nat) (parent : String) (lvl : Nat), L < lvl →
      ((treeNodes k tree fuel parent lvl).filter (atLevel L)).map (·.name) = [] := by
  intro fuel
  induction fuel with
  | zero => intro parent lvl _; simp [treeNodes]
  | succ fuel ih =>
    intro parent lvl hlt
    unfold treeNodes
    by_cases hl : (lvl == tree.length) = true
    · rw [if_pos hl]; simp
    rw [if_neg hl, filter_map_flatMap]
    simp only [List.flatMap_eq_nil_iff]
    intro i _
    have hne : atLevel L { name := parent ++ "_" ++ toString i, kind := .router, descIdx := k, lvl := some lvl } = false := by
      simp [atLevel]; omega
    rw [List.filter_cons, hne]
    simpa using ih _ (lvl + 1) (by omega)

/-- **level `L` of the tree, read off the constructor's nodes, is the product of the index ranges** -/
theorem level_of_tree (k : Nat) (tree : List Nat) (L : Nat) (hL : L < tree.length) :
    ∀ (fuel : Nat) (parent : String) (lvl : Nat), lvl ≤ L → L - lvl < fuel →
      ((treeNodes k tree fuel parent lvl).filter (atLevel L)).map (·.name) =
        prodNames parent ((tree.drop lvl).take (L - lvl + 1)) := by
  intro fuel
  induction fuel with
  | zero => intro parent lvl _ h; omega
  | succ fuel ih =>
    intro parent lvl hle hfuel
    have hlt : lvl < tree.length := by omega
    unfold treeNodes
    have hl : ¬ (lvl == tree.length) = true := by simp; omega
    rw [if_neg hl, filter_map_flatMap]
    have hdrop : tree.drop lvl = tree[lvl] :: tree.drop (lvl + 1) := List.drop_eq_getElem_cons hlt
    have hget : tree.getD lvl 0 = tree[lvl] := by simp [List.getD, List.getElem?_eq_getElem hlt]
    rw [hdrop, hget]
    simp only [List.take_succ_cons, prodNames]
    refine flatMap_congr' _ _ _ ?_
    intro i _
    by_cases heq : lvl = L
    · subst heq
      have hin : atLevel lvl { name := parent ++ "_" ++ toString i, kind := .router, descIdx := k, lvl := some lvl } = true := by
        simp [atLevel]
      rw [List.filter_cons, hin]
      simp only [if_true, List.map_cons, Nat.sub_self, List.take_zero, prodNames]
      have := level_above k tree lvl fuel (parent ++ "_" ++ toString i) (lvl + 1) (by omega)
      rw [this]
    · have hne : atLevel L { name := parent ++ "_" ++ toString i, kind := .router, descIdx := k, lvl := some lvl } = false := by
        simp [atLevel]; omega
      rw [List.filter_cons, hne]
      simp only [Bool.false_eq_true, if_false]
      have := ih (parent ++ "_" ++ toString i) (lvl + 1) (by omega) (by omega)
      rw [this]
      have : L - lvl = (L - (lvl + 1)) + 1 := by omega
      rw [this]

/-- beyond the depth of the tree there is no level -/
theorem level_beyond (k : Nat) (tree : List Nat) (L : Nat) (hL : tree.length ≤ L) :
    ∀ (fuel : Nat) (parent : String) (lvl : Nat),
      ((treeNodes k tree fuel parent lvl).filter (atLevel L)).map (·.name) = [] := by
  intro fuel
  induction fuel with
  | zero => intro parent lvl; simp [treeNodes]
  | succ fuel ih =>
    intro parent lvl
    unfold treeNodes
    by_cases hl : (lvl == tree.length) = true
    · rw [if_pos hl]; simp
    rw [if_neg hl, filter_map_flatMap]
    simp only [List.flatMap_eq_nil_iff]
    intro i hi
    have hlt : lvl < tree.length := by
      rcases Nat.lt_or_ge lvl tree.length with h | h
      · exact h
      · exfalso
        have : tree.getD lvl 0 = 0 := by simp [List.getD, List.getElem?_eq_none h]
        rw [this] at hi; simp at hi
    have hne : atLevel L { name := parent ++ "_" ++ toString i, kind := .router, descIdx := k, lvl := some lvl } = false := by
      simp [atLevel]; omega
    rw [List.filter_cons, hne]
    simpa using ih _ (lvl + 1)

/-! ### every node of the tree is recognised by `inTree` at its own level -/

/-- a sequence of `k` segments `_<digits>` -/
inductive GoodSfx : Nat → List Char → Prop
  | nil : GoodSfx 0 []
  | seg (k : Nat) (ds rest : List Char) : ds ≠ [] → (∀ c ∈ ds, c.isDigit = true) → GoodSfx k rest →
      GoodSfx (k + 1) ('_' :: (ds ++ rest))

theorem goodSfx_append {a b : List Char} {m n : Nat} (ha : GoodSfx m a) (hb : GoodSfx n b) : GoodSfx (m + n) (a ++ b) := by
  induction ha with
  | nil => simpa using hb
  | seg k ds rest hne hd _ ih =>
    have h1 : '_' :: (ds ++ rest) ++ b = '_' :: (ds ++ (rest ++ b)) := by simp
    have h2 : k + 1 + n = (k + n) + 1 := by omega
    rw [h1, h2]
    exact GoodSfx.seg (k + n) ds (rest ++ b) hne hd ih

theorem not_underscore_of_digit {c : Char} (h : c.isDigit = true) : (c == '_') = false := by
  rw [beq_eq_false_iff_ne]
  intro hc
  subst hc
  simp [Char.isDigit] at h

theorem digitSegs_digits (ds rest : List Char) (ne : Bool) (hd : ∀ c ∈ ds, c.isDigit = true) :
    digitSegs (ds ++ rest) ne = digitSegs rest (ne || !ds.isEmpty) := by
  induction ds generalizing ne with
  | nil => simp
  | cons c cs ih =>
    have hc := hd c (by simp)
    simp only [List.cons_append, digitSegs, not_underscore_of_digit hc, hc, Bool.true_and, Bool.false_eq_true, if_false]
    rw [ih true (fun x hx => hd x (by simp [hx]))]
    simp

theorem digitSegs_good {k : Nat} {rest : List Char} (h : GoodSfx k rest) : digitSegs rest true = true := by
  induction h with
  | nil => rfl
  | seg k ds rest' hne hd _ ih =>
    simp only [digitSegs, beq_self_eq_true, if_true, Bool.true_and]
    rw [digitSegs_digits ds rest' false hd]
    have : (!ds.isEmpty) = true := by cases ds <;> simp_all
    simpa [this] using ih

/-- underscores in `k` good segments: exactly `k` -/
theorem underscores_good {k : Nat} {cs : List Char} (h : GoodSfx k cs) : (cs.filter (· == '_')).length = k := by
  induction h with
  | nil => rfl
  | seg k ds rest _ hd _ ih =>
    have hds : ds.filter (· == '_') = [] := by
      rw [List.filter_eq_nil_iff]
      intro c hc
      simp [not_underscore_of_digit (hd c hc)]
    simp [List.filter_cons, List.filter_append, hds, ih]

theorem inTree_of_sfx (root name : String) (k : Nat) (lvl : Int) (sfx : List Char) (hs : GoodSfx k sfx) (hk : 0 < k)
    (hl : (k : Int) ≤ lvl + 1) (hn : name.toList = root.toList ++ sfx) : inTree root lvl name = true := by
  cases hs with
  | nil => omega
  | seg k' ds rest hdne hd hrest =>
    unfold inTree
    have hp : (root ++ "_").toList = root.toList ++ ['_'] := by simp [String.toList_append]
    have hpre : (root ++ "_").toList.isPrefixOf name.toList = true := by
      rw [List.isPrefixOf_iff_prefix, hp, hn]
      exact ⟨ds ++ rest, by simp⟩
    have hdrop : name.toList.drop (root ++ "_").toList.length = ds ++ rest := by
      rw [hp, hn]
      have : root.toList ++ '_' :: (ds ++ rest) = (root.toList ++ ['_']) ++ (ds ++ rest) := by simp
      rw [this, List.drop_left]
    have hcount : segCount (ds ++ rest) = k' + 1 := by
      unfold segCount
      have hds : ds.filter (· == '_') = [] := by
        rw [List.filter_eq_nil_iff]
        intro c hc
        simp [not_underscore_of_digit (hd c hc)]
      rw [List.filter_append, hds, List.nil_append, underscores_good hrest]
    rw [hpre, hdrop, digitSegs_digits ds rest false hd, hcount]
    have : (!ds.isEmpty) = true := by cases ds <;> simp_all
    simp [this, digitSegs_good hrest]
    right
    omega

/-- the characters of `"_" ++ toString i` are one good segment -/
theorem goodSfx_index (i : Nat) : GoodSfx 1 ('_' :: (toString i).toList) := by
  have h := GoodSfx.seg 0 (Nat.toDigits 10 i) [] Nat.toDigits_ne_nil
    (fun c hc => Nat.isDigit_of_mem_toDigits (by decide) (by decide) hc) GoodSfx.nil
  have ht : (toString i).toList = Nat.toDigits 10 i := by
    rw [Nat.toString_eq_ofList_toDigits, String.toList_ofList]
  rw [ht]
  simpa using h

/-- every node the constructor creates under a parent whose name is `root` plus `lvl` good segments is `root` plus
    (its own level + 1) good segments -/
theorem tree_names (k : Nat) (tree : List Nat) (root : String) :
    ∀ (fuel : Nat) (parent : String) (lvl : Nat) (sfx : List Char), GoodSfx lvl sfx →
      parent.toList = root.toList ++ sfx →
      ∀ n ∈ treeNodes k tree fuel parent lvl, ∃ l s, n.lvl = some l ∧ GoodSfx (l + 1) s ∧ n.name.toList = root.toList ++ s := by
  intro fuel
  induction fuel with
  | zero => intro parent lvl sfx _ _ n hn; simp [treeNodes] at hn
  | succ fuel ih =>
    intro parent lvl sfx hs hp n hn
    unfold treeNodes at hn
    by_cases hl : (lvl == tree.length) = true
    · rw [if_pos hl] at hn; cases hn
    rw [if_neg hl] at hn
    obtain ⟨i, _, hmem⟩ := List.mem_flatMap.1 hn
    have hchild : (parent ++ "_" ++ toString i).toList = root.toList ++ (sfx ++ '_' :: (toString i).toList) := by
      simp [String.toList_append, hp]
    have hgood : GoodSfx (lvl + 1) (sfx ++ '_' :: (toString i).toList) := goodSfx_append hs (goodSfx_index i)
    rcases List.mem_cons.1 hmem with rfl | hrec
    · exact ⟨lvl, _, rfl, hgood, hchild⟩
    · exact ih _ (lvl + 1) _ hgood hchild n hrec

/-- a node of the tree that is on level `L` is recognised when level `L` is asked for -/
theorem tree_inTree (k : Nat) (tree : List Nat) (root : String) (fuel : Nat) (L : Nat) :
    ∀ n ∈ treeNodes k tree fuel root 0, atLevel L n = true → inTree root (L : Int) n.name = true := by
  intro n hn hat
  obtain ⟨l, s, hl, hs, hname⟩ := tree_names k tree root fuel root 0 [] GoodSfx.nil (by simp) n hn
  have : l = L := by
    unfold atLevel at hat
    rw [hl] at hat
    simpa using hat
  subst this
  exact inTree_of_sfx root n.name (l + 1) (l : Int) s hs (by omega) (by omega) hname

/-! ### the level selector on the built graph -/

theorem atLevel_cast (L : Nat) (n : Node) :
    (n.lvl.map (fun (l : Nat) => (l : Int)) == some (L : Int)) = atLevel L n := by
  unfold atLevel
  cases n.lvl with
  | none => rfl
  | some l =>
    simp only [Option.map_some]
    by_cases h : l = L
    · subst h; simp
    · have : ((l : Int) == (L : Int)) = false := by
        rw [beq_eq_false_iff_ne]; intro hc; exact h (by exact_mod_cast hc)
      simp [h, this]

theorem filter_filter_of_imp {α : Type} (l : List α) (p q : α → Bool) (h : ∀ x ∈ l, q x = true → p x = true) :
    (l.filter p).filter q = l.filter q := by
  induction l with
  | nil => rfl
  | cons x xs ih =>
    have ih' := ih (fun y hy => h y (by simp [hy]))
    by_cases hq : q x = true
    · have hp := h x (by simp) hq
      simp [List.filter_cons, hp, hq, ih']
    · by_cases hp : p x = true
      · simp [List.filter_cons, hp, hq, ih']
      · simp [List.filter_cons, hp, hq, ih']

/-- **selecting level `L` of tree `nm`** in any graph that holds the constructor's nodes for it — among whatever
    was there before (`pre`) and came after (`post`), as long as none of that is named like a node of this tree that
    could sit on level `L` — returns the routers `<nm>_<i0>_…_<iL>` for all index tuples below the fan-outs, first
    index outermost; beyond the depth of the tree, nothing -/
theorem lvl_select_in (G : Graph) (nm : String) (tree : List Nat) (k fuel : Nat) (pre post : List Node) (L : Nat)
    (hG : G.nodes = pre ++ treeNodes k tree fuel nm 0 ++ post) (hfuel : tree.length ≤ fuel)
    (hpre : ∀ n ∈ pre, inTree nm (L : Int) n.name = false) (hpost : ∀ n ∈ post, inTree nm (L : Int) n.name = false) :
    nodesFromLvl G nm (L : Int) =
      .ok (if L < tree.length then prodNames nm (tree.take (L + 1)) else []) := by
  rw [C18.lvl_spec, hG]
  congr 1
  simp only [List.filter_append, List.map_append]
  have hnil : ∀ l : List Node, (∀ n ∈ l, inTree nm (L : Int) n.name = false) →
      l.filter (fun n => inTree nm (L : Int) n.name) = [] := by
    intro l hl
    rw [List.filter_eq_nil_iff]
    intro n hn; simp [hl n hn]
  rw [hnil pre hpre, hnil post hpost]
  simp only [List.filter_nil, List.map_nil, List.nil_append, List.append_nil]
  have h3 : ((treeNodes k tree fuel nm 0).filter (fun n => inTree nm (L : Int) n.name)).filter
        (fun n => n.lvl.map (fun (l : Nat) => (l : Int)) == some (L : Int)) =
      (treeNodes k tree fuel nm 0).filter (atLevel L) := by
    have hc : (fun (n : Node) => n.lvl.map (fun (l : Nat) => (l : Int)) == some (L : Int)) = atLevel L := by
      funext n; exact atLevel_cast L n
    rw [hc]
    exact filter_filter_of_imp _ _ _ (fun n hn hat => tree_inTree k tree nm fuel L n hn hat)
  rw [h3]
  by_cases hL : L < tree.length
  · rw [if_pos hL, level_of_tree k tree L hL fuel nm 0 (by omega) (by omega)]
    simp
  · rw [if_neg hL, level_beyond k tree L (by omega) fuel nm 0]

/-- … in particular right after the constructor ran -/
theorem lvl_select_tree (g g' : Graph) (nm : String) (tree : List Nat) (k : Nat) (c : Bool) (fuel : Nat) (L : Nat)
    (h : g.addNodesAsTree nm tree k c fuel 0 = .ok g') (hfuel : tree.length ≤ fuel)
    (hfree : ∀ n ∈ g.nodes, inTree nm (L : Int) n.name = false) :
    nodesFromLvl g' nm (L : Int) =
      .ok (if L < tree.length then prodNames nm (tree.take (L + 1)) else []) :=
  lvl_select_in g' nm tree k fuel g.nodes [] L (by rw [tree_nodes tree k c fuel g g' nm 0 h]; simp) hfuel hfree
    (by intro n hn; cases hn)

/-- a second tree called `<nm>_<j>` does not disturb the selection: none of its nodes can sit on the level asked for
    (a node of its level `l` carries `l + 2` segments after `nm`, a router of level `l` of `nm` at most `l + 1`) -/
theorem other_tree_excluded (nm : String) (L : Nat) (name : String) (m : Nat) (sfx : List Char) (hs : GoodSfx m sfx)
    (hm : L + 1 < m) (hn : name.toList = nm.toList ++ sfx) : inTree nm (L : Int) name = false := by
  cases hs with
  | nil => omega
  | seg k' ds rest hdne hd hrest =>
    unfold inTree
    have hne : (name == nm) = false := by
      rw [beq_eq_false_iff_ne]
      intro h
      rw [h] at hn
      have := congrArg List.length hn
      simp at this
    have hp : (nm ++ "_").toList = nm.toList ++ ['_'] := by simp [String.toList_append]
    have hdrop : name.toList.drop (nm ++ "_").toList.length = ds ++ rest := by
      rw [hp, hn]
      have : nm.toList ++ '_' :: (ds ++ rest) = (nm.toList ++ ['_']) ++ (ds ++ rest) := by simp
      rw [this, List.drop_left]
    have hcount : segCount (ds ++ rest) = k' + 1 := by
      unfold segCount
      have hds : ds.filter (· == '_') = [] := by
        rw [List.filter_eq_nil_iff]
        intro c hc
        simp [not_underscore_of_digit (hd c hc)]
      rw [List.filter_append, hds, List.nil_append, underscores_good hrest]
    rw [hne, hdrop, hcount]
    simp
    intro _ hle
    omega

/-! ### the specification side of C06 names the same routers -/

theorem foldl_append_init (l : List String) (a : String) :
    l.foldl (fun r s => r ++ s) a = a ++ l.foldl (fun r s => r ++ s) "" := by
  induction l generalizing a with
  | nil => simp
  | cons x xs ih =>
    simp only [List.foldl_cons]
    rw [ih (a ++ x), ih ("" ++ x)]
    simp [String.append_assoc]

theorem intSuffix_cons (x : Int) (t : List Int) : intSuffix (x :: t) = "_" ++ toString x ++ intSuffix t := by
  simp only [intSuffix, String.join, List.map_cons, List.foldl_cons, String.empty_append]
  exact foldl_append_init _ _

theorem intSuffix_nil : intSuffix [] = "" := rfl

/-- `prodNames` is the specification's enumeration: the cartesian product of the index ranges, first dimension
    outermost, each tuple appended to the name as `_<i>` segments -/
theorem prodNames_eq_cartesian (dims : List Nat) :
    ∀ parent : String, prodNames parent dims =
      (cartesian (dims.map fun n => (List.range n).map Int.ofNat)).map fun t => parent ++ intSuffix t := by
  induction dims with
  | nil => intro parent; simp [prodNames, cartesian, intSuffix_nil]
  | cons d ds ih =>
    intro parent
    simp only [prodNames, List.map_cons, cartesian, List.flatMap_map, List.map_flatMap, List.map_map]
    refine flatMap_congr' _ _ _ ?_
    intro i _
    rw [ih]
    apply List.map_congr_left
    intro t _
    simp only [Function.comp, intSuffix_cons]
    have : toString (Int.ofNat i) = toString i := rfl
    rw [this]
    simp [String.append_assoc]

/-- the routers the specification of C06 (`Desc.lvlNodes`) expects at a level of the one tree called `nm` -/
theorem lvlNodes_single (d : Desc) (nm : String) (r : RtDesc) (tree : List Nat) (pre post : List RtDesc)
    (hd : d.routers = pre ++ r :: post) (hn : r.name = nm) (ht : r.tree = some tree)
    (hpre : ∀ x ∈ pre, (x.name == nm) = false) (hpost : ∀ x ∈ post, (x.name == nm) = false) (L : Nat) :
    d.lvlNodes nm (L : Int) = if L < tree.length then prodNames nm (tree.take (L + 1)) else [] := by
  unfold Desc.lvlNodes
  rw [hd]
  rw [List.flatMap_append, List.flatMap_cons]
  have hz : ∀ (F : RtDesc → List String) (l : List RtDesc), (∀ x ∈ l, F x = []) → l.flatMap F = [] :=
    fun F l h => List.flatMap_eq_nil_iff.2 h
  rw [hz _ pre (by intro x hx; simp [hpre x hx]), hz _ post (by intro x hx; simp [hpost x hx])]
  simp only [List.nil_append, List.append_nil, hn, beq_self_eq_true, if_true, ht, Int.toNat_natCast]
  have h0 : (0 : Int) ≤ (L : Int) := Int.natCast_nonneg L
  by_cases hL : L < tree.length
  · rw [if_pos ⟨h0, hL⟩, if_pos hL, prodNames_eq_cartesian]
  · rw [if_neg (fun h => hL h.2), if_neg hL]

/-- **the model's level selection is the specification's**: on any graph holding the constructor's nodes for the one
    tree called `nm` (and nothing else named like them), `get_nodes_from_lvl` returns exactly the routers the
    expected-topology function of C06 lists for that level, in the same order -/
theorem level_selection_agrees (G : Graph) (d : Desc) (nm : String) (r : RtDesc) (tree : List Nat) (k fuel : Nat)
    (pre post : List Node) (rpre rpost : List RtDesc) (L : Nat)
    (hG : G.nodes = pre ++ treeNodes k tree fuel nm 0 ++ post) (hfuel : tree.length ≤ fuel)
    (hpre : ∀ n ∈ pre, inTree nm (L : Int) n.name = false) (hpost : ∀ n ∈ post, inTree nm (L : Int) n.name = false)
    (hd : d.routers = rpre ++ r :: rpost) (hn : r.name = nm) (ht : r.tree = some tree)
    (hrpre : ∀ x ∈ rpre, (x.name == nm) = false) (hrpost : ∀ x ∈ rpost, (x.name == nm) = false) :
    nodesFromLvl G nm (L : Int) = .ok (d.lvlNodes nm (L : Int)) := by
  rw [lvl_select_in G nm tree k fuel pre post L hG hfuel hpre hpost,
      lvlNodes_single d nm r tree rpre rpost hd hn ht hrpre hrpost L]

/-! non-vacuity: tree [1, 2] named `r` next to a tree `r2` -/
example : prodNames "r" [1, 2] = ["r_0_0", "r_0_1"] := by decide
example : prodNames "r" ([2, 3].take 1) = ["r_0", "r_1"] := by decide

end FlooVerif.C18T

/-
  C05 (generator level, complete for the router side) — for EVERY graph in which link edges come in
  reverse pairs with swapped directions (what create_routers / create_connections build) and every
  router node: if the model of compile_routers accepts, input slot i and output slot i of the router
  hold a link and its counterpart (same neighbour) or are both free.  Any number of ports, any mix of
  directed and undirected links, any declaration order.
-/
import FlooVerif.Props.C05
namespace FlooVerif.C05U
open FlooVerif Model List

/-! ### `place` -/

theorem place_length (n : Nat) (nm : String) :
    ∀ (es : List (Nat × Link)) (acc res : List (Option Link)),
      place n nm es acc = .ok res → res.length = acc.length := by
  intro es
  induction es with
  | nil => intro acc res h; simp [place, pure, Except.pure] at h; subst h; rfl
  | cons x xs ih =>
    obtain ⟨i, l⟩ := x
    intro acc res h
    unfold place at h
    split at h
    · cases h
    · split at h
      · cases h
      · have := ih _ _ h
        simpa [setSlot] using this

/-- keys are pairwise distinct, in range, and their slots were free -/
theorem place_keys (n : Nat) (nm : String) :
    ∀ (es : List (Nat × Link)) (acc res : List (Option Link)), acc.length = n →
      place n nm es acc = .ok res →
      (es.map (·.1)).Nodup ∧ ∀ j ∈ es.map (·.1), j < n ∧ acc.getD j none = none := by
  intro es
  induction es with
  | nil => intro acc res _ _; simp
  | cons x xs ih =>
    obtain ⟨i, l⟩ := x
    intro acc res hlen h
    unfold place at h
    split at h
    · cases h
    · rename_i hi
      split at h
      · cases h
      · rename_i hfree
        obtain ⟨hnd, hall⟩ := ih _ _ (by simp [setSlot, hlen]) h
        have hi' : i < n := Nat.lt_of_not_le hi
        have hfree' : acc.getD i none = none := by
          cases hv : acc.getD i none <;> simp_all
        have hnotin : i ∉ xs.map (·.1) := by
          intro hmem
          have := (hall i hmem).2
          have hil : i < acc.length := by omega
          simp [setSlot, List.getD_eq_getElem?_getD, hil] at this
        refine ⟨by simp only [List.map_cons]; exact List.nodup_cons.2 ⟨hnotin, hnd⟩, ?_⟩
        intro j hj
        simp only [List.map_cons, List.mem_cons] at hj
        rcases hj with rfl | hj
        · exact ⟨hi', hfree'⟩
        · obtain ⟨hjn, hjf⟩ := hall j hj
          refine ⟨hjn, ?_⟩
          have hne : j ≠ i := by intro he; subst he; exact hnotin hj
          simpa [setSlot, List.getD_eq_getElem?_getD, List.getElem?_set, Ne.symm hne] using hjf

/-- what ends up in each slot -/
theorem place_spec (n : Nat) (nm : String) :
    ∀ (es : List (Nat × Link)) (acc res : List (Option Link)), acc.length = n →
      place n nm es acc = .ok res →
      ∀ j, (∃ l, (j, l) ∈ es ∧ res.getD j none = some l) ∨
           ((∀ l, (j, l) ∉ es) ∧ res.getD j none = acc.getD j none) := by
  intro es
  induction es with
  | nil =>
    intro acc res _ h j
    simp [place, pure, Except.pure] at h; subst h
    exact Or.inr ⟨fun l => List.not_mem_nil, rfl⟩
  | cons x xs ih =>
    obtain ⟨i, l⟩ := x
    intro acc res hlen h j
    unfold place at h
    split at h
    · cases h
    · rename_i hi
      split at h
      · cases h
      · have hi' : i < n := Nat.lt_of_not_le hi
        rcases ih (setSlot acc i l) res (by simp [setSlot, hlen]) h j with ⟨l', hl', hr⟩ | ⟨hno, hr⟩
        · exact Or.inl ⟨l', List.mem_cons_of_mem _ hl', hr⟩
        · by_cases hji : j = i
          · subst hji
            refine Or.inl ⟨l, List.mem_cons_self, ?_⟩
            rw [hr]
            simp [setSlot, List.getD_eq_getElem?_getD, List.getElem?_set, hlen, hi']
          · refine Or.inr ⟨?_, ?_⟩
            · intro l' hl'
              rcases List.mem_cons.1 hl' with he | hm
              · exact hji (by cases he; rfl)
              · exact hno l' hm
            · rw [hr]
              simp [setSlot, List.getD_eq_getElem?_getD, List.getElem?_set, Ne.symm hji]

theorem key_unique {es : List (Nat × Link)} (hnd : (es.map (·.1)).Nodup) {j : Nat} {l l' : Link}
    (h1 : (j, l) ∈ es) (h2 : (j, l') ∈ es) : l = l' := by
  induction es with
  | nil => cases h1
  | cons x xs ih =>
    have hn := List.nodup_cons.1 (show (x.1 :: xs.map (·.1)).Nodup from hnd)
    rcases List.mem_cons.1 h1 with e1 | m1 <;> rcases List.mem_cons.1 h2 with e2 | m2
    · rw [← e1] at e2; cases e2; rfl
    · exfalso; apply hn.1; rw [← e1]; exact List.mem_map.2 ⟨(j, l'), m2, rfl⟩
    · exfalso; apply hn.1; rw [← e2]; exact List.mem_map.2 ⟨(j, l), m1, rfl⟩
    · exact ih hn.2 m1 m2

/-! ### from pointwise facts to paired slot lists -/

def OptRel {α β : Type} (R : α → β → Prop) : Option α → Option β → Prop
  | none, none => True
  | some a, some b => R a b
  | _, _ => False

theorem slotsRel_of_pointwise {α β : Type} (R : α → β → Prop) :
    ∀ (a : List (Option α)) (b : List (Option β)), a.length = b.length →
      (∀ j, OptRel R (a.getD j none) (b.getD j none)) → SlotsRel R a b := by
  intro a
  induction a with
  | nil => intro b hl _; cases b with | nil => exact .nil | cons _ _ => simp at hl
  | cons x xs ih =>
    intro b hl hp
    cases b with
    | nil => simp at hl
    | cons y ys =>
      have h0 := hp 0
      have hrest := ih ys (by simpa using hl) (fun j => by simpa using hp (j + 1))
      simp only [List.getD_cons_zero] at h0
      cases x <;> cases y <;> simp [OptRel] at h0
      · exact .free hrest
      · exact .taken h0 hrest

/-! ### the graph invariant and the theorem -/

/-- link edges come in reverse pairs with swapped directions; every edge starts at an existing node -/
structure PairedGraph (g : Graph) : Prop where
  rev : ∀ e ∈ g.edges, e.kind = .link →
    ∃ e' ∈ g.edges, e'.src = e.dst ∧ e'.dst = e.src ∧ e'.srcDir = e.dstDir ∧ e'.dstDir = e.srcDir
  nodes : ∀ e ∈ g.edges, g.hasNode e.src = true

theorem pairedGraph_of_B (g : Graph) (h : pairedGraphB g = true) : PairedGraph g := by
  unfold pairedGraphB at h
  simp only [Bool.and_eq_true, List.all_eq_true] at h
  refine ⟨?_, fun e he => h.2 e he⟩
  intro e he hk
  have := h.1 e he
  simp only [Bool.or_eq_true, bne_iff_ne, ne_eq, List.any_eq_true, Bool.and_eq_true, beq_iff_eq] at this
  rcases this with hne | ⟨e', he', ⟨⟨⟨h1, h2⟩, h3⟩, h4⟩⟩
  · exact absurd hk hne
  · exact ⟨e', he', h1, h2, h3, h4⟩

/-- only link edges touch the router `r` (protocol edges join an endpoint and its interface) -/
def OnlyLinksAt (g : Graph) (r : String) : Prop :=
  ∀ e ∈ g.edges, (e.src = r ∨ e.dst = r) → e.kind = .link

theorem onlyLinks_of_B (g : Graph) (h : onlyLinksAtRoutersB g = true) :
    ∀ nd ∈ g.nodesOfKind .router, OnlyLinksAt g nd.name := by
  unfold onlyLinksAtRoutersB at h
  intro nd hnd e he hor
  have := List.all_eq_true.1 (List.all_eq_true.1 h nd hnd) e he
  simp only [Bool.or_eq_true, Bool.and_eq_true, bne_iff_ne, ne_eq, beq_iff_eq] at this
  rcases this with ⟨h1, h2⟩ | hk
  · rcases hor with h | h
    · exact absurd h h1
    · exact absurd h h2
  · exact hk

theorem mem_edgesFrom {g : Graph} {r : String} {e : Edge} : e ∈ g.edgesFrom r ↔ e ∈ g.edges ∧ e.src = r := by
  unfold Graph.edgesFrom; simp [List.mem_filter]

theorem mem_edgesTo {g : Graph} (hp : PairedGraph g) {r : String} {e : Edge} :
    e ∈ g.edgesTo r ↔ e ∈ g.edges ∧ e.dst = r := by
  unfold Graph.edgesTo Graph.edgesOrdered
  simp only [List.mem_filter, List.mem_flatMap, beq_iff_eq]
  constructor
  · rintro ⟨⟨u, _, he, _⟩, hd⟩; exact ⟨he, hd⟩
  · rintro ⟨he, hd⟩
    have hn := hp.nodes e he
    unfold Graph.hasNode at hn
    obtain ⟨u, hu, hname⟩ := List.any_eq_true.1 hn
    exact ⟨⟨u, hu, he, by simpa using (by simpa using hname : u.name = e.src).symm⟩, hd⟩

theorem linkOf_counterpart (g : Graph) (e e' : Edge) (h1 : e'.src = e.dst) (h2 : e'.dst = e.src) :
    Counterpart (linkOf g e) (linkOf g e') := by
  unfold Counterpart linkOf; exact ⟨h2.symm, h1.symm⟩

theorem findEdge_spec {g : Graph} {u v : String} {r : Edge} (h : g.findEdge u v = some r) :
    r ∈ g.edges ∧ r.src = u ∧ r.dst = v := by
  unfold Graph.findEdge at h
  have hm := List.mem_of_find?_eq_some h
  have hp := List.find?_some h
  simp only [Bool.and_eq_true, beq_iff_eq] at hp
  exact ⟨hm, hp.1, hp.2⟩

theorem mapM_reverse_rel (g : Graph) :
    ∀ (es : List Edge) (outs : List Link), es.mapM (reverseLink g) = .ok outs →
      ListRel Counterpart (es.map (linkOf g)) outs := by
  intro es
  induction es with
  | nil => intro outs h; simp [pure, Except.pure] at h; subst h; exact .nil
  | cons e rest ih =>
    intro outs h
    rw [List.mapM_cons] at h
    cases hr : reverseLink g e with
    | error err => rw [hr] at h; cases h
    | ok l =>
      rw [hr] at h
      cases hm : rest.mapM (reverseLink g) with
      | error err => rw [hm] at h; cases h
      | ok ls =>
        rw [hm] at h
        cases h
        refine .cons ?_ (ih ls hm)
        unfold reverseLink at hr
        cases hf : g.findEdge e.dst e.src with
        | none => rw [hf] at hr; cases hr
        | some r =>
          rw [hf] at hr; cases hr
          obtain ⟨_, hs, hd⟩ := findEdge_spec hf
          exact linkOf_counterpart g e r hs hd

/-- **the repaired slotting pairs every port**: the theorem about one router -/
theorem router_paired (d : Desc) (g : Graph) (ids : Ids) (nd : Node) (r : Router)
    (hp : PairedGraph g) (hl : OnlyLinksAt g nd.name) (h : compileRouter d g ids nd = .ok r) :
    SlotsRel Counterpart r.incoming r.outgoing := by
  unfold compileRouter at h
  split at h
  · cases h
  · generalize numEdgesOf d g nd = n at h
    cases hin : place n nd.name (dirInList g nd.name) (List.replicate n none) with
    | error e => rw [hin] at h; cases h
    | ok incD =>
      rw [hin] at h; simp only at h
      cases hout : place n nd.name (dirOutList g nd.name) (List.replicate n none) with
      | error e => rw [hout] at h; cases h
      | ok outD =>
        rw [hout] at h; simp only at h
        cases hrev : (nonDirIn g nd.name).mapM (reverseLink g) with
        | error e => rw [hrev] at h; cases h
        | ok nonDirOut =>
          rw [hrev] at h; simp only at h
          split at h
          · cases h
          · cases hid : routerId d ids nd.name with
            | error e => rw [hid] at h; cases h
            | ok id =>
              rw [hid] at h; cases h
              simp only
              -- directed phase
              have hdir : SlotsRel Counterpart incD outD := by
                apply slotsRel_of_pointwise
                · rw [place_length _ _ _ _ _ hin, place_length _ _ _ _ _ hout]
                · intro j
                  have kout := place_keys _ _ _ _ _ (by simp) hout
                  have sin := place_spec _ _ _ _ _ (by simp) hin j
                  have sout := place_spec _ _ _ _ _ (by simp) hout j
                  rcases sin with ⟨li, hli, hri⟩ | ⟨hnoi, hri⟩
                  · -- an incoming directed edge sits in slot j: so does its reverse
                    unfold dirInList at hli
                    obtain ⟨e, he, heq⟩ := List.mem_map.1 hli
                    have hef := List.mem_filter.1 he
                    have hem := (mem_edgesTo hp).1 hef.1
                    obtain ⟨e', he', hs', hd', hsd, _⟩ := hp.rev e hem.1 (hl e hem.1 (Or.inr hem.2))
                    have hdj : e.dstDir = some j := by
                      have h1 : e.dstDir.getD 0 = j := congrArg Prod.fst heq
                      have h2 : e.dstDir.isSome = true := hef.2
                      cases hdd : e.dstDir with
                      | none => rw [hdd] at h2; cases h2
                      | some v => rw [hdd] at h1; simp at h1; rw [h1]
                    have he'out : (j, linkOf g e') ∈ dirOutList g nd.name := by
                      unfold dirOutList
                      refine List.mem_map.2 ⟨e', List.mem_filter.2 ⟨mem_edgesFrom.2 ⟨he', by rw [hs', hem.2]⟩, ?_⟩, ?_⟩
                      · rw [hsd, hdj]; rfl
                      · rw [hsd, hdj]; rfl
                    rcases sout with ⟨lo, hlo, hro⟩ | ⟨hnoo, _⟩
                    · have hlo' : lo = linkOf g e' := key_unique kout.1 hlo he'out
                      have hli' : linkOf g e = li := congrArg Prod.snd heq
                      rw [hri, hro, hlo', ← hli']
                      exact linkOf_counterpart g e e' hs' hd'
                    · exact absurd he'out (hnoo _)
                  · -- no incoming directed edge for slot j: then no outgoing one either
                    rcases sout with ⟨lo, hlo, hro⟩ | ⟨_, hro⟩
                    · exfalso
                      unfold dirOutList at hlo
                      obtain ⟨e', he', heq⟩ := List.mem_map.1 hlo
                      have hef := List.mem_filter.1 he'
                      have hem := mem_edgesFrom.1 hef.1
                      obtain ⟨e, he, hs, hd, _, hdd⟩ := hp.rev e' hem.1 (hl e' hem.1 (Or.inl hem.2))
                      have hsj : e'.srcDir = some j := by
                        have h1 : e'.srcDir.getD 0 = j := congrArg Prod.fst heq
                        have h2 : e'.srcDir.isSome = true := hef.2
                        cases hss : e'.srcDir with
                        | none => rw [hss] at h2; cases h2
                        | some v => rw [hss] at h1; simp at h1; rw [h1]
                      apply hnoi (linkOf g e)
                      unfold dirInList
                      refine List.mem_map.2 ⟨e, List.mem_filter.2 ⟨(mem_edgesTo hp).2 ⟨he, by rw [hd, hem.2]⟩, ?_⟩, ?_⟩
                      · rw [hdd, hsj]; rfl
                      · rw [hdd, hsj]; rfl
                    · rw [hri, hro]
                      cases hg : (List.replicate n (none : Option Link)).getD j none with
                      | none => trivial
                      | some v =>
                        exfalso
                        rw [List.getD_eq_getElem?_getD] at hg
                        by_cases hjn : j < n
                        · simp [List.getElem?_replicate, hjn] at hg
                        · simp [List.getElem?_replicate, hjn] at hg
              -- undirected phase
              exact (fillFree_paired Counterpart incD outD _ _ hdir (mapM_reverse_rel g _ _ hrev)).1

/-- membership in the result of `mapM` -/
theorem mem_mapM_ok {α β ε : Type} (f : α → Except ε β) :
    ∀ (l : List α) (res : List β), l.mapM f = .ok res → ∀ y ∈ res, ∃ x ∈ l, f x = .ok y := by
  intro l
  induction l with
  | nil => intro res h y hy; simp [pure, Except.pure] at h; subst h; cases hy
  | cons x xs ih =>
    intro res h y hy
    rw [List.mapM_cons] at h
    cases hx : f x with
    | error e => rw [hx] at h; cases h
    | ok v =>
      rw [hx] at h
      cases hm : xs.mapM f with
      | error e => rw [hm] at h; cases h
      | ok vs =>
        rw [hm] at h; cases h
        rcases List.mem_cons.1 hy with rfl | hy'
        · exact ⟨x, by simp, hx⟩
        · obtain ⟨x', hx', hfx⟩ := ih vs hm y hy'
          exact ⟨x', by simp [hx'], hfx⟩

/-- **every router the generator emits has all its ports paired**, and hence attaches the same
    neighbour to input i and output i, for every i -/
theorem routers_paired (d : Desc) (g : Graph) (ids : Ids) (rs : List Router)
    (hp : PairedGraph g) (hl : ∀ nd ∈ g.nodesOfKind .router, OnlyLinksAt g nd.name)
    (h : compileRouters d g ids = .ok rs) :
    ∀ r ∈ rs, SlotsRel Counterpart r.incoming r.outgoing ∧
      ∀ i, (r.incoming.getD i none).map (·.source) = (r.outgoing.getD i none).map (·.dest) := by
  intro r hr
  obtain ⟨nd, hmem, hnd⟩ := mem_mapM_ok _ _ _ h r hr
  have := router_paired d g ids nd r hp (hl nd hmem) hnd
  exact ⟨this, paired_same_neighbour _ _ this⟩

end FlooVerif.C05U

/-
  C06 (generator side) — every link the specification (`Links.lean`, written from the
  documentation) demands inside an auto-connected m × n router array is present in the graph the
  array constructor builds, with the demanded ports on both ends and in both directions; for
  every m and n.
-/
import FlooVerif.Links
import FlooVerif.Props.C04U
namespace FlooVerif.C06G
open FlooVerif Model Model.Graph C04U

theorem spec_autolinks_in_graph (r : RtDesc) (m n : Nat) (harr : r.array = some [m, n]) (htree : r.tree = none)
    (hauto : r.autoConnect = true) (g g' : Graph) (kind : NodeKind) (k : Nat)
    (h : g.addNodesAsArray r.name [m, n] kind k true = .ok g') :
    ∀ l ∈ r.autoLinks, ∃ p q, l.aPort = some p ∧ l.bPort = some q ∧
      HasLink g' l.a l.b p q ∧ HasLink g' l.b l.a q p := by
  intro l hl
  have hgrid := array_is_grid g g' r.name m n kind k h
  unfold RtDesc.autoLinks at hl
  simp only [hauto, Bool.not_true, Bool.false_eq_true, if_false, harr, htree] at hl
  obtain ⟨i, hi, hl⟩ := List.mem_flatMap.1 hl
  obtain ⟨j, hj, hl⟩ := List.mem_flatMap.1 hl
  have hi' := List.mem_range.1 hi
  have hj' := List.mem_range.1 hj
  rcases List.mem_append.1 hl with hl | hl
  · by_cases c : i + 1 < m
    · rw [if_pos c] at hl
      simp only [List.mem_singleton] at hl; subst hl
      have := (hgrid (i + 1) c j hj').1 (Nat.succ_pos i)
      simp only [Nat.add_sub_cancel] at this
      exact ⟨dirE, dirW, rfl, rfl, this.2, this.1⟩
    · rw [if_neg c] at hl; cases hl
  · by_cases c : j + 1 < n
    · rw [if_pos c] at hl
      simp only [List.mem_singleton] at hl; subst hl
      have := (hgrid i hi' (j + 1) c).2 (Nat.succ_pos j)
      simp only [Nat.add_sub_cancel] at this
      exact ⟨dirN, dirS, rfl, rfl, this.2, this.1⟩
    · rw [if_neg c] at hl; cases hl

end FlooVerif.C06G

/-
  Pinned RTL (written by harness/mk_rtl_pins.py from the tree the semantics was read against):
  the three modules that execute a route, whole: `floo_route_select` (decision per routing algorithm),
`floo_router` (what is connected to it, masking, arbitration) and `floo_route_comp` (destination and route look-up
in the network interface).  `Hw.lean` reads them as: nothing but the pinned decision blocks decides the output
port, and nothing between the ports of the router and `floo_route_select` changes the table or the flit.
-/
import FlooVerif.Gen.RtlFacts
namespace FlooVerif.HwTie
open FlooVerif Rtl Gen

def pin_selectAll_0 : List String := [
    "`include", "\"common_cells/registers.svh\"", "module", "floo_route_select", "import", "floo_pkg", "::",
    "*", ";", "#", "(", "parameter", "int", "unsigned", "NumRoutes", "=", "0", ",", "parameter", "type",
    "flit_t", "=", "logic", ",", "parameter", "route_algo_e", "RouteAlgo", "=", "IdTable", ",", "parameter",
    "bit", "LockRouting", "=", "1'b1", ",", "parameter", "int", "unsigned", "IdWidth", "=", "0", ",",
    "parameter", "int", "unsigned", "NumAddrRules", "=", "0", ",", "parameter", "type", "addr_rule_t", "=",
    "logic", ",", "parameter", "type", "id_t", "=", "logic", "[", "IdWidth", "-", "1", ":", "0", "]", ",",
    "parameter", "int", "unsigned", "RouteSelWidth", "=", "$clog2", "(", "NumRoutes", ")", ")", "(", "input",
    "logic", "clk_i", ",", "input", "logic", "rst_ni", ",", "input", "logic", "test_enable_i", ",", "input",
    "id_t", "xy_id_i", ",", "input", "addr_rule_t", "[", "NumAddrRules", "-", "1", ":", "0", "]",
    "id_route_map_i", ",", "input", "flit_t", "channel_i", ",", "input", "logic", "valid_i", ",", "input",
    "logic", "ready_i", ",", "output", "flit_t", "channel_o", ",", "output", "logic", "[", "NumRoutes", "-",
    "1", ":", "0", "]", "route_sel_o", ",", "output", "logic", "[", "RouteSelWidth", "-", "1", ":", "0", "]",
    "route_sel_id_o", ")", ";", "logic", "[", "NumRoutes", "-", "1", ":", "0", "]", "route_sel", ";",
    "logic", "[", "RouteSelWidth", "-", "1", ":", "0", "]", "route_sel_id", ";", "if", "(", "RouteAlgo",
    "==", "IdTable", ")", "begin", ":", "gen_id_table", "logic", "[", "RouteSelWidth", "-", "1", ":", "0",
    "]", "id_table_result", ";", "assign", "channel_o", "=", "channel_i", ";", "addr_decode", "#", "(", ".",
    "NoIndices", "(", "NumRoutes", ")", ",", "."
  ]

def pin_selectAll_1 : List String := [
    "NoRules", "(", "NumAddrRules", ")", ",", ".", "addr_t", "(", "id_t", ")", ",", ".", "rule_t", "(",
    "addr_rule_t", ")", ",", ".", "Napot", "(", "0", ")", ")", "i_id_decode", "(", ".", "addr_i", "(",
    "channel_i", ".", "hdr", ".", "dst_id", ")", ",", ".", "addr_map_i", "(", "id_route_map_i", ")", ",",
    ".", "idx_o", "(", "id_table_result", ")", ",", ".", "dec_valid_o", "(", ")", ",", ".", "dec_error_o",
    "(", ")", ",", ".", "default_idx_i", "(", "'0", ")", ",", ".", "en_default_idx_i", "(", "'0", ")", ")",
    ";", "always_comb", "begin", ":", "proc_route_sel", "route_sel_id", "=", "id_table_result", ";",
    "route_sel", "=", "'0", ";", "route_sel", "[", "id_table_result", "]", "=", "1'b1", ";", "end", "end",
    "else", "if", "(", "RouteAlgo", "==", "SourceRouting", ")", "begin", ":", "gen_consumption",
    "always_comb", "begin", ":", "proc_route_sel", "route_sel_id", "=", "channel_i", ".", "hdr", ".",
    "dst_id", "[", "RouteSelWidth", "-", "1", ":", "0", "]", ";", "route_sel", "=", "'0", ";", "route_sel",
    "[", "route_sel_id", "]", "=", "1'b1", ";", "channel_o", "=", "channel_i", ";", "channel_o", ".", "hdr",
    ".", "dst_id", "=", "channel_i", ".", "hdr", ".", "dst_id", ">>", "RouteSelWidth", ";", "end", "end",
    "else", "if", "(", "RouteAlgo", "==", "XYRouting", ")", "begin", ":", "gen_xy_routing", "id_t", "id_in",
    ";", "assign", "id_in", "=", "id_t", "'(", "channel_i", ".", "hdr", ".", "dst_id", ")", ";",
    "always_comb", "begin", ":", "proc_route_sel", "route_sel_id", "=", "East", ";", "if", "(", "id_in", ".",
    "x", "==", "xy_id_i", ".", "x", "&&", "id_in", ".", "y", "==", "xy_id_i", "."
  ]

def pin_selectAll_2 : List String := [
    "y", ")", "begin", "route_sel_id", "=", "Eject", "+", "channel_i", ".", "hdr", ".", "dst_id", ".",
    "port_id", ";", "end", "else", "if", "(", "id_in", ".", "x", "==", "xy_id_i", ".", "x", ")", "begin",
    "if", "(", "id_in", ".", "y", "<", "xy_id_i", ".", "y", ")", "begin", "route_sel_id", "=", "South", ";",
    "end", "else", "begin", "route_sel_id", "=", "North", ";", "end", "end", "else", "begin", "if", "(",
    "id_in", ".", "x", "<", "xy_id_i", ".", "x", ")", "begin", "route_sel_id", "=", "West", ";", "end",
    "else", "begin", "route_sel_id", "=", "East", ";", "end", "end", "route_sel", "=", "'0", ";",
    "route_sel", "[", "route_sel_id", "]", "=", "1'b1", ";", "end", "assign", "channel_o", "=", "channel_i",
    ";", "end", "else", "begin", ":", "gen_err", "initial", "begin", "$fatal", "(", "1", ",",
    "\"Routing algorithm unknown\"", ")", ";", "end", "end", "if", "(", "LockRouting", ")", "begin", ":",
    "gen_lock", "logic", "locked_route_d", ",", "locked_route_q", ";", "always_comb", "begin",
    "locked_route_d", "=", "locked_route_q", ";", "if", "(", "ready_i", "&&", "valid_i", ")", "begin",
    "locked_route_d", "=", "~", "channel_i", ".", "hdr", ".", "last", ";", "end", "end", "logic", "[",
    "NumRoutes", "-", "1", ":", "0", "]", "route_sel_q", ";", "logic", "[", "RouteSelWidth", "-", "1", ":",
    "0", "]", "route_sel_id_q", ";", "assign", "route_sel_o", "=", "locked_route_q", "?", "route_sel_q", ":",
    "route_sel", ";", "assign", "route_sel_id_o", "=", "locked_route_q", "?", "route_sel_id_q", ":",
    "route_sel_id", ";", "`FF", "(", "locked_route_q", ",", "locked_route_d", ",", "'0", ")", "`FFL", "(",
    "route_sel_q", ",", "route_sel", ",", "~"
  ]

def pin_selectAll_3 : List String := [
    "locked_route_q", ",", "'0", ")", "`FFL", "(", "route_sel_id_q", ",", "route_sel_id", ",", "~",
    "locked_route_q", ",", "'0", ")", "`ifndef", "TARGET_SYNTHESIS", "always", "@", "(", "posedge", "clk_i",
    ")", "begin", "if", "(", "ready_i", "&&", "valid_i", "&&", "locked_route_q", "&&", "(", "(",
    "route_sel_id_q", "!=", "route_sel_id", ")", "||", "(", "route_sel_q", "!=", "route_sel", ")", ")", ")",
    "$warning", "(", "\"Mismatch in route selection!\"", ")", ";", "end", "`endif", "end", "else", "begin",
    ":", "gen_no_lock", "assign", "route_sel_o", "=", "route_sel", ";", "assign", "route_sel_id_o", "=",
    "route_sel_id", ";", "end", "endmodule"
  ]

def pin_selectAll : List String := pin_selectAll_0 ++ pin_selectAll_1 ++ pin_selectAll_2 ++ pin_selectAll_3


/-- the tokens of this part of the working tree's RTL are the pinned ones -/
theorem selectAll_pinned : rtlFacts.selectAll = pin_selectAll := by
  decide +kernel

def pin_routerAll_0 : List String := [
    "`include", "\"common_cells/assertions.svh\"", "module", "floo_router", "import", "floo_pkg", "::", "*",
    ";", "#", "(", "parameter", "int", "unsigned", "NumRoutes", "=", "0", ",", "parameter", "int",
    "unsigned", "NumVirtChannels", "=", "0", ",", "parameter", "int", "unsigned", "NumPhysChannels", "=",
    "1", ",", "parameter", "type", "flit_t", "=", "logic", ",", "parameter", "int", "unsigned",
    "InFifoDepth", "=", "0", ",", "parameter", "int", "unsigned", "OutFifoDepth", "=", "0", ",", "parameter",
    "route_algo_e", "RouteAlgo", "=", "IdTable", ",", "parameter", "int", "unsigned", "IdWidth", "=", "0",
    ",", "parameter", "type", "id_t", "=", "logic", "[", "IdWidth", "-", "1", ":", "0", "]", ",",
    "parameter", "int", "unsigned", "NumAddrRules", "=", "1", ",", "parameter", "type", "addr_rule_t", "=",
    "logic", ",", "parameter", "int", "unsigned", "NumInput", "=", "NumRoutes", ",", "parameter", "int",
    "unsigned", "NumOutput", "=", "NumRoutes", ",", "parameter", "bit", "XYRouteOpt", "=", "1'b1", ",",
    "parameter", "bit", "NoLoopback", "=", "1'b1", ")", "(", "input", "logic", "clk_i", ",", "input",
    "logic", "rst_ni", ",", "input", "logic", "test_enable_i", ",", "input", "id_t", "xy_id_i", ",", "input",
    "addr_rule_t", "[", "NumAddrRules", "-", "1", ":", "0", "]", "id_route_map_i", ",", "input", "logic",
    "[", "NumInput", "-", "1", ":", "0", "]", "[", "NumVirtChannels", "-", "1", ":", "0", "]", "valid_i",
    ",", "output", "logic", "[", "NumInput", "-", "1", ":", "0", "]", "[", "NumVirtChannels", "-", "1", ":",
    "0", "]", "ready_o", ",", "input", "flit_t", "[", "NumInput", "-", "1", ":", "0", "]", "[",
    "NumPhysChannels", "-", "1", ":", "0", "]", "data_i", ",", "output"
  ]

def pin_routerAll_1 : List String := [
    "logic", "[", "NumOutput", "-", "1", ":", "0", "]", "[", "NumVirtChannels", "-", "1", ":", "0", "]",
    "valid_o", ",", "input", "logic", "[", "NumOutput", "-", "1", ":", "0", "]", "[", "NumVirtChannels", "-",
    "1", ":", "0", "]", "ready_i", ",", "output", "flit_t", "[", "NumOutput", "-", "1", ":", "0", "]", "[",
    "NumPhysChannels", "-", "1", ":", "0", "]", "data_o", ")", ";", "flit_t", "[", "NumInput", "-", "1", ":",
    "0", "]", "[", "NumVirtChannels", "-", "1", ":", "0", "]", "in_data", ",", "in_routed_data", ";",
    "logic", "[", "NumInput", "-", "1", ":", "0", "]", "[", "NumVirtChannels", "-", "1", ":", "0", "]",
    "in_valid", ",", "in_ready", ";", "logic", "[", "NumInput", "-", "1", ":", "0", "]", "[",
    "NumVirtChannels", "-", "1", ":", "0", "]", "[", "NumOutput", "-", "1", ":", "0", "]", "route_mask", ";",
    "for", "(", "genvar", "in_route", "=", "0", ";", "in_route", "<", "NumInput", ";", "in_route", "+", "+",
    ")", "begin", ":", "gen_input", "for", "(", "genvar", "v_chan", "=", "0", ";", "v_chan", "<",
    "NumVirtChannels", ";", "v_chan", "+", "+", ")", "begin", ":", "gen_virt_input", "logic", "[",
    "cf_math_pkg", "::", "idx_width", "(", "NumPhysChannels", ")", "-", "1", ":", "0", "]",
    "in_phys_channel", ";", "if", "(", "NumPhysChannels", "==", "1", ")", "begin", ":", "gen_single_phys",
    "assign", "in_phys_channel", "=", "'0", ";", "end", "else", "if", "(", "NumPhysChannels", "==",
    "NumVirtChannels", ")", "begin", ":", "gen_virt_eq_phys", "assign", "in_phys_channel", "=", "v_chan",
    ";", "end", "else", "begin"
  ]

def pin_routerAll_2 : List String := [
    ":", "gen_odd_phys", "$fatal", "(", "1", ",", "\"unimplemented\"", ")", ";", "end", "(", "*", "ungroup",
    "*", ")", "stream_fifo_optimal_wrap", "#", "(", ".", "Depth", "(", "InFifoDepth", ")", ",", ".",
    "type_t", "(", "flit_t", ")", ")", "i_stream_fifo", "(", ".", "clk_i", "(", "clk_i", ")", ",", ".",
    "rst_ni", "(", "rst_ni", ")", ",", ".", "testmode_i", "(", "test_enable_i", ")", ",", ".", "flush_i",
    "(", "1'b0", ")", ",", ".", "usage_o", "(", ")", ",", ".", "data_i", "(", "data_i", "[", "in_route", "]",
    "[", "in_phys_channel", "]", ")", ",", ".", "valid_i", "(", "valid_i", "[", "in_route", "]", "[",
    "v_chan", "]", ")", ",", ".", "ready_o", "(", "ready_o", "[", "in_route", "]", "[", "v_chan", "]", ")",
    ",", ".", "data_o", "(", "in_data", "[", "in_route", "]", "[", "v_chan", "]", ")", ",", ".", "valid_o",
    "(", "in_valid", "[", "in_route", "]", "[", "v_chan", "]", ")", ",", ".", "ready_i", "(", "in_ready",
    "[", "in_route", "]", "[", "v_chan", "]", ")", ")", ";", "floo_route_select", "#", "(", ".", "NumRoutes",
    "(", "NumOutput", ")", ",", ".", "flit_t", "(", "flit_t", ")", ",", ".", "RouteAlgo", "(", "RouteAlgo",
    ")", ",", ".", "IdWidth", "(", "IdWidth", ")", ",", ".", "id_t", "(", "id_t", ")", ",", ".",
    "NumAddrRules", "(", "NumAddrRules", ")", ",", ".", "addr_rule_t", "(", "addr_rule_t", ")", ")",
    "i_route_select", "(", ".", "clk_i", ",", ".", "rst_ni", ",", ".", "test_enable_i", ",", ".", "xy_id_i",
    "(", "xy_id_i", ")", ",", ".", "id_route_map_i", "(", "id_route_map_i"
  ]

def pin_routerAll_3 : List String := [
    ")", ",", ".", "channel_i", "(", "in_data", "[", "in_route", "]", "[", "v_chan", "]", ")", ",", ".",
    "valid_i", "(", "in_valid", "[", "in_route", "]", "[", "v_chan", "]", ")", ",", ".", "ready_i", "(",
    "in_ready", "[", "in_route", "]", "[", "v_chan", "]", ")", ",", ".", "channel_o", "(", "in_routed_data",
    "[", "in_route", "]", "[", "v_chan", "]", ")", ",", ".", "route_sel_o", "(", "route_mask", "[",
    "in_route", "]", "[", "v_chan", "]", ")", ",", ".", "route_sel_id_o", "(", ")", ")", ";", "end", "end",
    "localparam", "int", "unsigned", "NumInputLimited", "=", "NoLoopback", "?", "NumInput", "-", "1", ":",
    "NumInput", ";", "logic", "[", "NumOutput", "-", "1", ":", "0", "]", "[", "NumVirtChannels", "-", "1",
    ":", "0", "]", "[", "NumInputLimited", "-", "1", ":", "0", "]", "masked_valid", ",", "masked_ready", ";",
    "logic", "[", "NumInput", "-", "1", ":", "0", "]", "[", "NumVirtChannels", "-", "1", ":", "0", "]", "[",
    "NumOutput", "-", "1", ":", "0", "]", "masked_all_ready", ";", "flit_t", "[", "NumOutput", "-", "1", ":",
    "0", "]", "[", "NumVirtChannels", "-", "1", ":", "0", "]", "[", "NumInputLimited", "-", "1", ":", "0",
    "]", "masked_data", ";", "for", "(", "genvar", "in_route", "=", "0", ";", "in_route", "<", "NumInput",
    ";", "in_route", "+", "+", ")", "begin", ":", "gen_hs_input", "for", "(", "genvar", "v_chan", "=", "0",
    ";", "v_chan", "<", "NumVirtChannels", ";", "v_chan", "+", "+", ")", "begin", ":", "gen_hs_virt", "for",
    "(", "genvar", "out_route", "=", "0", ";"
  ]

def pin_routerAll_4 : List String := [
    "out_route", "<", "NumOutput", ";", "out_route", "+", "+", ")", "begin", ":", "gen_hs_output",
    "localparam", "int", "unsigned", "ModInRoute", "=", "in_route", "<", "out_route", "&&", "NoLoopback",
    "?", "in_route", ":", "in_route", "-", "1", ";", "if", "(", "in_route", "==", "out_route", "&&",
    "NoLoopback", ")", "begin", ":", "gen_inout_identical", "assign", "masked_all_ready", "[", "in_route",
    "]", "[", "v_chan", "]", "[", "out_route", "]", "=", "'0", ";", "end", "else", "if", "(", "(",
    "RouteAlgo", "==", "XYRouting", ")", "&&", "XYRouteOpt", "&&", "(", "in_route", "==", "South", "||",
    "in_route", "==", "North", ")", "&&", "(", "out_route", "==", "East", "||", "out_route", "==", "West",
    ")", ")", "begin", ":", "gen_xy_opt", "assign", "masked_all_ready", "[", "in_route", "]", "[", "v_chan",
    "]", "[", "out_route", "]", "=", "'0", ";", "assign", "masked_valid", "[", "out_route", "]", "[",
    "v_chan", "]", "[", "ModInRoute", "]", "=", "'0", ";", "assign", "masked_data", "[", "out_route", "]",
    "[", "v_chan", "]", "[", "ModInRoute", "]", "=", "'0", ";", "end", "else", "begin", ":", "gen_default",
    "assign", "masked_all_ready", "[", "in_route", "]", "[", "v_chan", "]", "[", "out_route", "]", "=",
    "masked_ready", "[", "out_route", "]", "[", "v_chan", "]", "[", "ModInRoute", "]", ";", "assign",
    "masked_valid", "[", "out_route", "]", "[", "v_chan", "]", "[", "ModInRoute", "]", "=", "in_valid", "[",
    "in_route", "]", "[", "v_chan", "]", "&", "route_mask", "[", "in_route", "]", "[", "v_chan", "]", "[",
    "out_route", "]", ";", "assign", "masked_data", "[", "out_route", "]", "[", "v_chan", "]", "[",
    "ModInRoute", "]"
  ]

def pin_routerAll_5 : List String := [
    "=", "in_routed_data", "[", "in_route", "]", "[", "v_chan", "]", ";", "end", "end", "assign", "in_ready",
    "[", "in_route", "]", "[", "v_chan", "]", "=", "|", "(", "masked_all_ready", "[", "in_route", "]", "[",
    "v_chan", "]", "&", "route_mask", "[", "in_route", "]", "[", "v_chan", "]", ")", ";", "end", "end",
    "flit_t", "[", "NumOutput", "-", "1", ":", "0", "]", "[", "NumVirtChannels", "-", "1", ":", "0", "]",
    "out_data", ",", "out_buffered_data", ";", "logic", "[", "NumOutput", "-", "1", ":", "0", "]", "[",
    "NumVirtChannels", "-", "1", ":", "0", "]", "out_valid", ",", "out_ready", ";", "logic", "[",
    "NumOutput", "-", "1", ":", "0", "]", "[", "NumVirtChannels", "-", "1", ":", "0", "]",
    "out_buffered_valid", ",", "out_buffered_ready", ";", "for", "(", "genvar", "out_route", "=", "0", ";",
    "out_route", "<", "NumOutput", ";", "out_route", "+", "+", ")", "begin", ":", "gen_output", "for", "(",
    "genvar", "v_chan", "=", "0", ";", "v_chan", "<", "NumVirtChannels", ";", "v_chan", "+", "+", ")",
    "begin", ":", "gen_virt_output", "floo_wormhole_arbiter", "#", "(", ".", "NumRoutes", "(",
    "NumInputLimited", ")", ",", ".", "flit_t", "(", "flit_t", ")", ")", "i_wormhole_arbiter", "(", ".",
    "clk_i", ",", ".", "rst_ni", ",", ".", "valid_i", "(", "masked_valid", "[", "out_route", "]", "[",
    "v_chan", "]", ")", ",", ".", "ready_o", "(", "masked_ready", "[", "out_route", "]", "[", "v_chan", "]",
    ")", ",", ".", "data_i", "(", "masked_data", "[", "out_route", "]", "[", "v_chan", "]", ")", ",", ".",
    "valid_o", "(", "out_valid", "[", "out_route", "]"
  ]

def pin_routerAll_6 : List String := [
    "[", "v_chan", "]", ")", ",", ".", "ready_i", "(", "out_ready", "[", "out_route", "]", "[", "v_chan",
    "]", ")", ",", ".", "data_o", "(", "out_data", "[", "out_route", "]", "[", "v_chan", "]", ")", ")", ";",
    "if", "(", "OutFifoDepth", ">", "0", ")", "begin", ":", "gen_out_fifo", "(", "*", "ungroup", "*", ")",
    "stream_fifo_optimal_wrap", "#", "(", ".", "Depth", "(", "OutFifoDepth", ")", ",", ".", "type_t", "(",
    "flit_t", ")", ")", "i_stream_fifo", "(", ".", "clk_i", "(", "clk_i", ")", ",", ".", "rst_ni", "(",
    "rst_ni", ")", ",", ".", "testmode_i", "(", "test_enable_i", ")", ",", ".", "flush_i", "(", "1'b0", ")",
    ",", ".", "usage_o", "(", ")", ",", ".", "data_i", "(", "out_data", "[", "out_route", "]", "[", "v_chan",
    "]", ")", ",", ".", "valid_i", "(", "out_valid", "[", "out_route", "]", "[", "v_chan", "]", ")", ",",
    ".", "ready_o", "(", "out_ready", "[", "out_route", "]", "[", "v_chan", "]", ")", ",", ".", "data_o",
    "(", "out_buffered_data", "[", "out_route", "]", "[", "v_chan", "]", ")", ",", ".", "valid_o", "(",
    "out_buffered_valid", "[", "out_route", "]", "[", "v_chan", "]", ")", ",", ".", "ready_i", "(",
    "out_buffered_ready", "[", "out_route", "]", "[", "v_chan", "]", ")", ")", ";", "end", "else", "begin",
    ":", "gen_no_out_fifo", "assign", "out_buffered_data", "[", "out_route", "]", "[", "v_chan", "]", "=",
    "out_data", "[", "out_route", "]", "[", "v_chan", "]", ";", "assign", "out_buffered_valid", "[",
    "out_route", "]", "[", "v_chan", "]", "=", "out_valid", "[", "out_route", "]", "[", "v_chan"
  ]

def pin_routerAll_7 : List String := [
    "]", ";", "assign", "out_ready", "[", "out_route", "]", "[", "v_chan", "]", "=", "out_buffered_ready",
    "[", "out_route", "]", "[", "v_chan", "]", ";", "end", "end", "floo_vc_arbiter", "#", "(", ".",
    "NumVirtChannels", "(", "NumVirtChannels", ")", ",", ".", "flit_t", "(", "flit_t", ")", ",", ".",
    "NumPhysChannels", "(", "NumPhysChannels", ")", ")", "i_vc_arbiter", "(", ".", "clk_i", ",", ".",
    "rst_ni", ",", ".", "valid_i", "(", "out_buffered_valid", "[", "out_route", "]", ")", ",", ".",
    "ready_o", "(", "out_buffered_ready", "[", "out_route", "]", ")", ",", ".", "data_i", "(",
    "out_buffered_data", "[", "out_route", "]", ")", ",", ".", "ready_i", "(", "ready_i", "[", "out_route",
    "]", ")", ",", ".", "valid_o", "(", "valid_o", "[", "out_route", "]", ")", ",", ".", "data_o", "(",
    "data_o", "[", "out_route", "]", ")", ")", ";", "end", "for", "(", "genvar", "i", "=", "0", ";", "i",
    "<", "NumInput", ";", "i", "+", "+", ")", "begin", ":", "gen_input_assert", "for", "(", "genvar", "v",
    "=", "0", ";", "v", "<", "NumVirtChannels", ";", "v", "+", "+", ")", "begin", ":", "gen_virt_assert",
    "`ASSERT", "(", "StableValidIn", ",", "valid_i", "[", "i", "]", "[", "v", "]", "&&", "!", "ready_o", "[",
    "i", "]", "[", "v", "]", "|", "=", ">", "$stable", "(", "valid_i", "[", "i", "]", "[", "v", "]", ")",
    ")", "end", "end", "for", "(", "genvar", "o", "=", "0", ";", "o", "<", "NumOutput", ";", "o", "+", "+",
    ")", "begin", ":", "gen_output_assert", "for", "(", "genvar", "v"
  ]

def pin_routerAll_8 : List String := [
    "=", "0", ";", "v", "<", "NumVirtChannels", ";", "v", "+", "+", ")", "begin", ":", "gen_virt_assert",
    "`ASSERT", "(", "StableValidOut", ",", "valid_o", "[", "o", "]", "[", "v", "]", "&&", "!", "ready_i",
    "[", "o", "]", "[", "v", "]", "|", "=", ">", "$stable", "(", "valid_o", "[", "o", "]", "[", "v", "]",
    ")", ")", "end", "end", "if", "(", "(", "RouteAlgo", "==", "XYRouting", ")", "&&", "XYRouteOpt", ")",
    "begin", ":", "gen_xy_opt_assert", "for", "(", "genvar", "v", "=", "0", ";", "v", "<", "NumVirtChannels",
    ";", "v", "+", "+", ")", "begin", ":", "gen_virt", "`ASSERT", "(", "XYDirectionNotAllowed", ",", "!",
    "(", "in_valid", "[", "South", "]", "[", "v", "]", "&&", "route_mask", "[", "South", "]", "[", "v", "]",
    "[", "East", "]", ")", "&&", "!", "(", "in_valid", "[", "South", "]", "[", "v", "]", "&&", "route_mask",
    "[", "South", "]", "[", "v", "]", "[", "West", "]", ")", "&&", "!", "(", "in_valid", "[", "North", "]",
    "[", "v", "]", "&&", "route_mask", "[", "North", "]", "[", "v", "]", "[", "East", "]", ")", "&&", "!",
    "(", "in_valid", "[", "North", "]", "[", "v", "]", "&&", "route_mask", "[", "North", "]", "[", "v", "]",
    "[", "West", "]", ")", ")", "end", "end", "endmodule"
  ]

def pin_routerAll : List String := pin_routerAll_0 ++ pin_routerAll_1 ++ pin_routerAll_2 ++ pin_routerAll_3 ++ pin_routerAll_4 ++ pin_routerAll_5 ++ pin_routerAll_6 ++ pin_routerAll_7 ++ pin_routerAll_8


/-- the tokens of this part of the working tree's RTL are the pinned ones -/
theorem routerAll_pinned : rtlFacts.routerAll = pin_routerAll := by
  decide +kernel

def pin_compAll_0 : List String := [
    "`include", "\"common_cells/assertions.svh\"", "module", "floo_route_comp", "import", "floo_pkg", "::",
    "*", ";", "#", "(", "parameter", "floo_pkg", "::", "route_cfg_t", "RouteCfg", "=", "'0", ",",
    "parameter", "bit", "UseIdTable", "=", "RouteCfg", ".", "UseIdTable", ",", "parameter", "type", "id_t",
    "=", "logic", ",", "parameter", "type", "addr_t", "=", "logic", ",", "parameter", "type", "route_t", "=",
    "logic", ",", "parameter", "type", "addr_rule_t", "=", "logic", ")", "(", "input", "logic", "clk_i", ",",
    "input", "logic", "rst_ni", ",", "input", "id_t", "id_i", ",", "input", "addr_t", "addr_i", ",", "input",
    "addr_rule_t", "[", "RouteCfg", ".", "NumSamRules", "-", "1", ":", "0", "]", "addr_map_i", ",", "input",
    "route_t", "[", "RouteCfg", ".", "NumRoutes", "-", "1", ":", "0", "]", "route_table_i", ",", "output",
    "route_t", "route_o", ",", "output", "id_t", "id_o", ")", ";", "if", "(", "UseIdTable", "&&", "(", "(",
    "RouteCfg", ".", "RouteAlgo", "==", "IdTable", ")", "||", "(", "RouteCfg", ".", "RouteAlgo", "==",
    "XYRouting", ")", "||", "(", "RouteCfg", ".", "RouteAlgo", "==", "SourceRouting", ")", ")", ")", "begin",
    ":", "gen_table_routing", "logic", "dec_error", ";", "localparam", "int", "unsigned", "MaxPossibleId",
    "=", "1", "<<", "$bits", "(", "id_o", ")", ";", "addr_decode", "#", "(", ".", "NoIndices", "(",
    "MaxPossibleId", ")", ",", ".", "NoRules", "(", "RouteCfg", ".", "NumSamRules", ")", ",", ".", "addr_t",
    "(", "addr_t", ")", ",", ".", "rule_t", "(", "addr_rule_t", ")", ",", ".", "idx_t", "(", "id_t", ")",
    ")", "i_addr_dst_decode", "(", ".", "addr_i", "(", "addr_i", ")", ",", ".", "addr_map_i", "(",
    "addr_map_i", ")", ","
  ]

def pin_compAll_1 : List String := [
    ".", "idx_o", "(", "id_o", ")", ",", ".", "dec_valid_o", "(", ")", ",", ".", "dec_error_o", "(",
    "dec_error", ")", ",", ".", "en_default_idx_i", "(", "1'b0", ")", ",", ".", "default_idx_i", "(", "'0",
    ")", ")", ";", "`ASSERT", "(", "DecodeError", ",", "!", "dec_error", ")", "end", "else", "if", "(",
    "RouteCfg", ".", "RouteAlgo", "==", "XYRouting", ")", "begin", ":", "gen_xy_bits_routing", "assign",
    "id_o", ".", "port_id", "=", "'0", ";", "assign", "id_o", ".", "x", "=", "addr_i", "[", "RouteCfg", ".",
    "XYAddrOffsetX", "+", ":", "$bits", "(", "id_o", ".", "x", ")", "]", ";", "assign", "id_o", ".", "y",
    "=", "addr_i", "[", "RouteCfg", ".", "XYAddrOffsetY", "+", ":", "$bits", "(", "id_o", ".", "y", ")", "]",
    ";", "end", "else", "if", "(", "RouteCfg", ".", "RouteAlgo", "==", "IdTable", ")", "begin", ":",
    "gen_id_bits_routing", "assign", "id_o", "=", "addr_i", "[", "RouteCfg", ".", "IdAddrOffset", "+", ":",
    "$bits", "(", "id_o", ")", "]", ";", "end", "else", "if", "(", "RouteCfg", ".", "RouteAlgo", "==",
    "SourceRouting", ")", "begin", ":", "gen_source_routing", "end", "else", "begin", ":", "gen_error",
    "$fatal", "(", "1", ",", "\"Routing algorithm not implemented\"", ")", ";", "end", "if", "(", "RouteCfg",
    ".", "RouteAlgo", "==", "SourceRouting", ")", "begin", ":", "gen_route", "assign", "route_o", "=", "(",
    "UseIdTable", ")", "?", "route_table_i", "[", "id_o", "]", ":", "route_table_i", "[", "id_i", "]", ";",
    "end", "else", "begin", ":", "gen_no_route", "assign", "route_o", "=", "'0", ";", "end", "endmodule"
  ]

def pin_compAll : List String := pin_compAll_0 ++ pin_compAll_1


/-- the tokens of this part of the working tree's RTL are the pinned ones -/
theorem compAll_pinned : rtlFacts.compAll = pin_compAll := by
  decide +kernel

end FlooVerif.HwTie

/-
  C05 (graph side) — the graph `create_network` builds satisfies the invariants the slotting
  theorem (`C05U.routers_paired`) assumes, for every description the validators accept:
  link edges come in reverse pairs with swapped directions, every edge joins existing nodes, node
  names are unique, and protocol edges never touch a router.  Proved by induction over the
  construction (routers, endpoints, connections), whatever the sizes.
-/
import FlooVerif.Props.C05Full
import FlooVerif.Props.C10
namespace FlooVerif.C05G
open FlooVerif Model Model.Graph

/-- `e'` is `e` reversed, directions swapped -/
def IsRev (e e' : Edge) : Prop :=
  e'.src = e.dst ∧ e'.dst = e.src ∧ e'.srcDir = e.dstDir ∧ e'.dstDir = e.srcDir

/-- every node called `nm` is not a router -/
def NotRouter (g : Graph) (nm : String) : Prop := ∀ nd ∈ g.nodes, nd.name = nm → nd.kind ≠ .router

structure Inv (g : Graph) : Prop where
  rev : ∀ e ∈ g.edges, e.kind = .link → ∃ e' ∈ g.edges, IsRev e e'
  nodes : ∀ e ∈ g.edges, g.hasNode e.src = true ∧ g.hasNode e.dst = true
  prot : ∀ e ∈ g.edges, e.kind = .protocol → NotRouter g e.src ∧ NotRouter g e.dst

theorem inv_empty : Inv {} := ⟨by simp, by simp, by simp⟩

theorem hasNode_iff {g : Graph} {nm : String} : g.hasNode nm = true ↔ ∃ nd ∈ g.nodes, nd.name = nm := by
  unfold Graph.hasNode; simp

/-! ### the three primitive steps -/

theorem addNode_ok {g g' : Graph} {n : Node} (h : g.addNode n = .ok g') :
    g.hasNode n.name = false ∧ g' = { g with nodes := g.nodes ++ [n] } := by
  unfold Graph.addNode at h
  by_cases c : g.hasNode n.name = true
  · rw [if_pos c] at h; cases h
  · rw [if_neg c] at h; cases h; exact ⟨by simpa using c, rfl⟩

theorem addEdge_ok {g g' : Graph} {e : Edge} (h : g.addEdge e = .ok g') :
    g.hasNode e.src = true ∧ g.hasNode e.dst = true ∧ g' = { g with edges := g.edges ++ [e] } := by
  unfold Graph.addEdge at h
  by_cases c : g.hasEdge e.src e.dst = true
  · rw [if_pos c] at h; cases h
  rw [if_neg c] at h
  by_cases c2 : (!(g.hasNode e.src && g.hasNode e.dst)) = true
  · rw [if_pos c2] at h; cases h
  rw [if_neg c2] at h; cases h
  have c3 : (g.hasNode e.src && g.hasNode e.dst) = true := by
    cases hb : (g.hasNode e.src && g.hasNode e.dst) with
    | true => rfl
    | false => rw [hb] at c2; exact absurd rfl c2
  rw [Bool.and_eq_true] at c3
  exact ⟨c3.1, c3.2, rfl⟩

theorem hasNode_mono_nodes {g : Graph} {ns : List Node} {es : List Edge} {nm : String}
    (h : g.hasNode nm = true) : ({ nodes := g.nodes ++ ns, edges := es } : Graph).hasNode nm = true := by
  rw [hasNode_iff] at h ⊢
  obtain ⟨nd, hnd, hn⟩ := h
  exact ⟨nd, List.mem_append_left _ hnd, hn⟩

theorem inv_addNode {g g' : Graph} {n : Node} (hi : Inv g) (h : g.addNode n = .ok g') : Inv g' := by
  obtain ⟨hf, rfl⟩ := addNode_ok h
  refine ⟨hi.rev, ?_, ?_⟩
  · intro e he
    obtain ⟨h1, h2⟩ := hi.nodes e he
    exact ⟨hasNode_mono_nodes h1, hasNode_mono_nodes h2⟩
  · intro e he hk
    obtain ⟨p1, p2⟩ := hi.prot e he hk
    obtain ⟨h1, h2⟩ := hi.nodes e he
    constructor
    · intro nd hnd hname
      rcases List.mem_append.1 hnd with hnd | hnd
      · exact p1 nd hnd hname
      · simp only [List.mem_singleton] at hnd; subst hnd
        rw [hname] at hf; rw [hf] at h1; cases h1
    · intro nd hnd hname
      rcases List.mem_append.1 hnd with hnd | hnd
      · exact p2 nd hnd hname
      · simp only [List.mem_singleton] at hnd; subst hnd
        rw [hname] at hf; rw [hf] at h2; cases h2

/-- adding a link edge and its reverse keeps the invariant -/
theorem inv_addPair {g g1 g2 : Graph} {e e' : Edge} (hi : Inv g) (hk : e.kind = .link) (hk' : e'.kind = .link)
    (hr : IsRev e e') (h1 : g.addEdge e = .ok g1) (h2 : g1.addEdge e' = .ok g2) : Inv g2 := by
  obtain ⟨hs, hd, rfl⟩ := addEdge_ok h1
  obtain ⟨_, _, rfl⟩ := addEdge_ok h2
  have hn : ∀ nm, g.hasNode nm = true →
      ({ nodes := g.nodes, edges := g.edges ++ [e] ++ [e'] } : Graph).hasNode nm = true := fun nm h => h
  refine ⟨?_, ?_, ?_⟩
  · intro x hx hxk
    simp only [List.mem_append, List.mem_singleton] at hx
    rcases hx with (hx | rfl) | rfl
    · obtain ⟨x', hx', hrx⟩ := hi.rev x hx hxk
      exact ⟨x', by simp [hx'], hrx⟩
    · exact ⟨e', by simp, hr⟩
    · refine ⟨e, by simp, ?_⟩
      obtain ⟨a, b, c, d⟩ := hr
      exact ⟨b.symm, a.symm, d.symm, c.symm⟩
  · intro x hx
    simp only [List.mem_append, List.mem_singleton] at hx
    rcases hx with (hx | rfl) | rfl
    · exact hi.nodes x hx
    · exact ⟨hs, hd⟩
    · rw [hr.1, hr.2.1]; exact ⟨hd, hs⟩
  · intro x hx hxk
    simp only [List.mem_append, List.mem_singleton] at hx
    rcases hx with (hx | rfl) | rfl
    · exact hi.prot x hx hxk
    · rw [hk] at hxk; cases hxk
    · rw [hk'] at hxk; cases hxk

/-- adding a protocol edge between two nodes that are not routers keeps the invariant -/
theorem inv_addProt {g g' : Graph} {e : Edge} (hi : Inv g) (hk : e.kind = .protocol)
    (hs : NotRouter g e.src) (hd : NotRouter g e.dst) (h : g.addEdge e = .ok g') : Inv g' := by
  obtain ⟨h1, h2, rfl⟩ := addEdge_ok h
  refine ⟨?_, ?_, ?_⟩
  · intro x hx hxk
    simp only [List.mem_append, List.mem_singleton] at hx
    rcases hx with hx | rfl
    · obtain ⟨x', hx', hrx⟩ := hi.rev x hx hxk
      exact ⟨x', by simp [hx'], hrx⟩
    · rw [hk] at hxk; cases hxk
  · intro x hx
    simp only [List.mem_append, List.mem_singleton] at hx
    rcases hx with hx | rfl
    · exact hi.nodes x hx
    · exact ⟨h1, h2⟩
  · intro x hx hxk
    simp only [List.mem_append, List.mem_singleton] at hx
    rcases hx with hx | rfl
    · exact hi.prot x hx hxk
    · exact ⟨hs, hd⟩

/-! ### folds in the error monad -/

theorem foldlM_inv {α : Type} (P : Graph → Prop) (f : Graph → α → D Graph)
    (hstep : ∀ g x g', P g → f g x = .ok g' → P g') :
    ∀ (l : List α) (g g' : Graph), P g → l.foldlM f g = .ok g' → P g' := by
  intro l
  induction l with
  | nil => intro g g' hp h; simp [List.foldlM, pure, Except.pure] at h; subst h; exact hp
  | cons x xs ih =>
    intro g g' hp h
    simp only [List.foldlM, bind, Except.bind] at h
    cases hx : f g x with
    | error e => rw [hx] at h; cases h
    | ok g1 => rw [hx] at h; exact ih g1 g' (hstep g x g1 hp hx) h

theorem foldlM_inv_mem {α : Type} (P : Graph → Prop) (f : Graph → α → D Graph) :
    ∀ (l : List α), (∀ g x g', x ∈ l → P g → f g x = .ok g' → P g') →
      ∀ (g g' : Graph), P g → l.foldlM f g = .ok g' → P g' := by
  intro l
  induction l with
  | nil => intro _ g g' hp h; simp [List.foldlM, pure, Except.pure] at h; subst h; exact hp
  | cons x xs ih =>
    intro hstep g g' hp h
    simp only [List.foldlM, bind, Except.bind] at h
    cases hx : f g x with
    | error e => rw [hx] at h; cases h
    | ok g1 =>
      rw [hx] at h
      exact ih (fun g y g' hy => hstep g y g' (List.mem_cons_of_mem _ hy)) g1 g'
        (hstep g x g1 List.mem_cons_self hp hx) h

theorem bind_ok {α β : Type} {x : D α} {f : α → D β} {b : β} (h : (x >>= f) = .ok b) :
    ∃ a, x = .ok a ∧ f a = .ok b := by
  cases x with
  | error e => simp [bind, Except.bind] at h
  | ok a => exact ⟨a, rfl, by simpa [bind, Except.bind] using h⟩

theorem pure_ok {α : Type} {a b : α} (h : (pure a : D α) = .ok b) : a = b := by
  simp [pure, Except.pure] at h; exact h

/-- an optional link pair (the `if … && connect then … else pure g` of the array constructors) -/
theorem inv_optPair {g g' : Graph} {c : Bool} {e e' : Edge} (hi : Inv g) (hk : e.kind = .link)
    (hk' : e'.kind = .link) (hr : IsRev e e')
    (h : (if c = true then (do let g ← g.addEdge e; g.addEdge e') else pure g) = .ok g') : Inv g' := by
  by_cases hc : c = true
  · rw [if_pos hc] at h
    obtain ⟨g1, h1, h2⟩ := bind_ok h
    exact inv_addPair hi hk hk' hr h1 h2
  · rw [if_neg hc] at h; rw [← pure_ok h]; exact hi

/-! ### routers -/

theorem inv_array (g g' : Graph) (name : String) (array : List Nat) (kind : NodeKind) (k : Nat) (connect : Bool)
    (hi : Inv g) (h : g.addNodesAsArray name array kind k connect = .ok g') : Inv g' := by
  unfold Graph.addNodesAsArray at h
  split at h
  · -- one dimension
    refine foldlM_inv Inv _ ?_ _ g g' hi h
    intro g i g' hi h
    obtain ⟨g1, h1, h2⟩ := bind_ok h
    have hi1 := inv_addNode hi h1
    exact inv_optPair (c := (decide (i > 0) && connect)) hi1 rfl rfl ⟨rfl, rfl, rfl, rfl⟩ (by simpa using h2)
  · -- two dimensions
    refine foldlM_inv Inv _ ?_ _ g g' hi h
    intro g i g' hi h
    refine foldlM_inv Inv _ ?_ _ g g' hi h
    intro g j g' hi h
    obtain ⟨g1, h1, h2⟩ := bind_ok h
    have hi1 := inv_addNode hi h1
    have hjp : ∀ ga gb : Graph, Inv ga →
        (if (decide (j > 0) && connect) = true then
          (do let g ← ga.addEdge { src := name ++ "_" ++ toString i ++ "_" ++ toString j,
                                   dst := name ++ "_" ++ toString i ++ "_" ++ toString (j - 1),
                                   kind := .link, srcDir := some 2, dstDir := some 0 }
              g.addEdge { src := name ++ "_" ++ toString i ++ "_" ++ toString (j - 1),
                          dst := name ++ "_" ++ toString i ++ "_" ++ toString j,
                          kind := .link, srcDir := some 0, dstDir := some 2 })
         else pure ga) = .ok gb → Inv gb := fun ga gb hia hh =>
      inv_optPair hia rfl rfl ⟨rfl, rfl, rfl, rfl⟩ hh
    by_cases hc : (decide (i > 0) && connect) = true
    · simp only [hc, if_true] at h2
      obtain ⟨g2, h3, h4⟩ := bind_ok h2
      obtain ⟨g3, h5, h6⟩ := bind_ok h4
      exact hjp g3 g' (inv_addPair hi1 rfl rfl ⟨rfl, rfl, rfl, rfl⟩ h3 h5) h6
    · simp only [hc, if_false, pure_bind, Bool.false_eq_true] at h2
      exact hjp g1 g' hi1 h2
  · cases h

theorem inv_tree (tree : List Nat) (k : Nat) (connect : Bool) :
    ∀ (fuel : Nat) (g g' : Graph) (parent : String) (lvl : Nat), Inv g →
      g.addNodesAsTree parent tree k connect fuel lvl = .ok g' → Inv g' := by
  intro fuel
  induction fuel with
  | zero => intro g g' parent lvl hi h; unfold Graph.addNodesAsTree at h; rw [← pure_ok h]; exact hi
  | succ fuel ih =>
    intro g g' parent lvl hi h
    unfold Graph.addNodesAsTree at h
    by_cases hl : (lvl == tree.length) = true
    · rw [if_pos hl] at h; rw [← pure_ok h]; exact hi
    rw [if_neg hl] at h
    refine foldlM_inv Inv _ ?_ _ g g' hi h
    intro g i g' hi h
    obtain ⟨g1, h1, h2⟩ := bind_ok h
    have hi1 := inv_addNode hi h1
    by_cases hc : (connect && decide (lvl > 0)) = true
    · simp only [hc, if_true] at h2
      obtain ⟨g2, h3, h4⟩ := bind_ok h2
      obtain ⟨g3, h5, h6⟩ := bind_ok h4
      exact ih g3 g' _ _ (inv_addPair hi1 rfl rfl ⟨rfl, rfl, rfl, rfl⟩ h3 h5) h6
    · simp only [hc, if_false, pure_bind, Bool.false_eq_true] at h2
      exact ih g1 g' _ _ hi1 h2

theorem inv_createRouters (d : Desc) (g g' : Graph) (hi : Inv g) (h : createRouters d g = .ok g') : Inv g' := by
  unfold createRouters at h
  refine foldlM_inv Inv _ ?_ _ g g' hi h
  intro g x g' hi h
  obtain ⟨rt, k⟩ := x
  simp only at h
  split at h
  · exact inv_addNode hi h
  · exact inv_array _ _ _ _ _ _ _ hi h
  · cases h
  · exact inv_tree _ _ _ _ _ _ _ _ hi h
  · cases h

/-- the inner loop of `create_connections`: one link pair per (source, destination) -/
theorem inv_connectPairs (c : ConnDesc) (hb : c.bidirectional = true) (pairs : List (String × String))
    (g g' : Graph) (hi : Inv g) (h : connectPairs c pairs g = .ok g') : Inv g' := by
  unfold connectPairs at h
  refine foldlM_inv Inv _ ?_ _ g g' hi h
  intro g x g' hi h
  obtain ⟨g1, h1, h2⟩ := bind_ok h
  rw [if_pos hb] at h2
  exact inv_addPair hi rfl rfl ⟨rfl, rfl, rfl, rfl⟩ h1 h2

theorem inv_createConnections (d : Desc) (hb : ∀ c ∈ d.connections, c.bidirectional = true)
    (g g' : Graph) (hi : Inv g) (h : createConnections d g = .ok g') : Inv g' := by
  unfold createConnections at h
  refine foldlM_inv_mem Inv _ d.connections ?_ g g' hi h
  intro g c g1 hc hi h1
  obtain ⟨srcs, _, h1⟩ := bind_ok h1
  obtain ⟨dsts, _, h1⟩ := bind_ok h1
  obtain ⟨srcs', _, h1⟩ := bind_ok h1
  obtain ⟨dsts', _, h1⟩ := bind_ok h1
  obtain ⟨⟨a, b⟩, _, h1⟩ := bind_ok h1
  exact inv_connectPairs c (hb c hc) _ g g1 hi h1

/-! ### endpoints: protocol edges only join nodes that are not routers -/

/-- `g'` has the nodes of `g` followed by nodes that are not routers -/
def Grows (g g' : Graph) : Prop := ∃ new, g'.nodes = g.nodes ++ new ∧ ∀ nd ∈ new, nd.kind ≠ .router

theorem grows_refl (g : Graph) : Grows g g := ⟨[], by simp, by simp⟩

theorem grows_trans {a b c : Graph} (h1 : Grows a b) (h2 : Grows b c) : Grows a c := by
  obtain ⟨n1, e1, k1⟩ := h1
  obtain ⟨n2, e2, k2⟩ := h2
  refine ⟨n1 ++ n2, by rw [e2, e1, List.append_assoc], ?_⟩
  intro nd hnd
  rcases List.mem_append.1 hnd with h | h
  · exact k1 nd h
  · exact k2 nd h

theorem grows_addNode {g g' : Graph} {n : Node} (h : g.addNode n = .ok g') (hk : n.kind ≠ .router) :
    Grows g g' ∧ g.hasNode n.name = false := by
  obtain ⟨hf, rfl⟩ := addNode_ok h
  exact ⟨⟨[n], rfl, by simpa using hk⟩, hf⟩

theorem fresh_of_grows {g g' : Graph} {s : String} (hg : Grows g g') (h : g'.hasNode s = false) :
    g.hasNode s = false := by
  cases hs : g.hasNode s with
  | false => rfl
  | true =>
    obtain ⟨new, e, _⟩ := hg
    obtain ⟨nd, hnd, hn⟩ := hasNode_iff.1 hs
    have : g'.hasNode s = true := hasNode_iff.2 ⟨nd, by rw [e]; exact List.mem_append_left _ hnd, hn⟩
    rw [this] at h; cases h

theorem notRouter_of_grows {g g' : Graph} {s : String} (hg : Grows g g') (h : NotRouter g s) :
    NotRouter g' s := by
  obtain ⟨new, e, k⟩ := hg
  intro nd hnd hn
  rw [e] at hnd
  rcases List.mem_append.1 hnd with h' | h'
  · exact h nd h' hn
  · exact k nd h'

theorem notRouter_new {g g' : Graph} {s : String} (hg : Grows g g') (h : g.hasNode s = false) :
    NotRouter g' s := by
  refine notRouter_of_grows hg ?_
  intro nd hnd hn
  have : g.hasNode s = true := hasNode_iff.2 ⟨nd, hnd, hn⟩
  rw [this] at h; cases h

/-- a fold whose every step adds non-router nodes under names that were free -/
theorem fold_fresh {ι : Type} (Nm : ι → String → Prop) (f : Graph → ι → D Graph)
    (hf : ∀ g i g1, f g i = .ok g1 → Grows g g1 ∧ ∀ s, Nm i s → g.hasNode s = false) :
    ∀ (l : List ι) (g g' : Graph), l.foldlM f g = .ok g' →
      Grows g g' ∧ ∀ i ∈ l, ∀ s, Nm i s → g.hasNode s = false := by
  intro l
  induction l with
  | nil =>
    intro g g' h
    simp [List.foldlM, pure, Except.pure] at h; subst h
    exact ⟨grows_refl g, by simp⟩
  | cons x xs ih =>
    intro g g' h
    simp only [List.foldlM] at h
    obtain ⟨g1, h1, h2⟩ := bind_ok h
    obtain ⟨hg1, hfr1⟩ := hf g x g1 h1
    obtain ⟨hg2, hfr2⟩ := ih g1 g' h2
    refine ⟨grows_trans hg1 hg2, ?_⟩
    intro i hi s hs
    rcases List.mem_cons.1 hi with rfl | hi
    · exact hfr1 s hs
    · exact fresh_of_grows hg1 (hfr2 i hi s hs)

/-- a one-dimensional array of non-router nodes without links: which names it takes -/
theorem array1_fresh (g g' : Graph) (name : String) (n : Nat) (kind : NodeKind) (k : Nat)
    (hk : kind ≠ .router) (h : g.addNodesAsArray name [n] kind k false = .ok g') :
    Grows g g' ∧ ∀ i < n, g.hasNode (name ++ "_" ++ toString i) = false := by
  unfold Graph.addNodesAsArray at h
  simp only [Bool.and_false, Bool.false_eq_true, if_false] at h
  have := fold_fresh (fun i s => s = name ++ "_" ++ toString i) _ ?_ _ g g' h
  · exact ⟨this.1, fun i hi => this.2 i (List.mem_range.2 hi) _ rfl⟩
  · intro g i g1 h1
    obtain ⟨g2, h2, h3⟩ := bind_ok h1
    rw [← pure_ok h3]
    obtain ⟨hg, hfr⟩ := grows_addNode h2 hk
    exact ⟨hg, fun s hs => by rw [hs]; exact hfr⟩

theorem array2_fresh (g g' : Graph) (name : String) (m n : Nat) (kind : NodeKind) (k : Nat)
    (hk : kind ≠ .router) (h : g.addNodesAsArray name [m, n] kind k false = .ok g') :
    Grows g g' ∧ ∀ i < m, ∀ j < n, g.hasNode (name ++ "_" ++ toString i ++ "_" ++ toString j) = false := by
  unfold Graph.addNodesAsArray at h
  simp only [Bool.and_false, Bool.false_eq_true, if_false] at h
  have := fold_fresh (fun i s => ∃ j < n, s = name ++ "_" ++ toString i ++ "_" ++ toString j) _ ?_ _ g g' h
  · exact ⟨this.1, fun i hi j hj => this.2 i (List.mem_range.2 hi) _ ⟨j, hj, rfl⟩⟩
  · intro g i g1 h1
    have := fold_fresh (fun j s => s = name ++ "_" ++ toString i ++ "_" ++ toString j) _ ?_ _ g g1 h1
    · refine ⟨this.1, ?_⟩
      rintro s ⟨j, hj, rfl⟩
      exact this.2 j (List.mem_range.2 hj) _ rfl
    · intro g j g2 h2
      obtain ⟨g3, h3, h4⟩ := bind_ok h2
      simp only [pure_bind] at h4
      rw [← pure_ok h4]
      obtain ⟨hg, hfr⟩ := grows_addNode h3 hk
      exact ⟨hg, fun s hs => by rw [hs]; exact hfr⟩

theorem pyRange_mem (n : Nat) (hn : 0 < n) : ∀ x ∈ pyRange 0 ((n : Int) - 1), ∃ i < n, x = (Int.ofNat i) := by
  intro x hx
  unfold pyRange at hx
  by_cases c : (n : Int) - 1 > 0
  · rw [if_pos c] at hx
    obtain ⟨i, hi, rfl⟩ := List.mem_map.1 hx
    refine ⟨i, ?_, by simp⟩
    have := List.mem_range.1 hi
    omega
  · rw [if_neg c] at hx
    obtain ⟨i, hi, rfl⟩ := List.mem_map.1 hx
    have := List.mem_range.1 hi
    have hi0 : i = 0 := by omega
    subst hi0
    exact ⟨0, hn, by simp⟩

theorem checkNode_ok {g : Graph} {nm x : String} (h : checkNode g nm = .ok x) : x = nm := by
  unfold checkNode at h
  by_cases c : g.hasNode nm = true
  · rw [if_pos c] at h; exact (pure_ok h).symm
  · rw [if_neg c] at h; cases h

theorem range1_names (g : Graph) (base : String) (n : Nat) (hn : 0 < n) (names : List String)
    (h : g.nodesFromRange base [(0, (n : Int) - 1)] = .ok names) :
    ∀ s ∈ names, ∃ i < n, s = base ++ "_" ++ toString i := by
  unfold Graph.nodesFromRange at h
  intro s hs
  obtain ⟨x, hx, hc⟩ := C05U.mem_mapM_ok _ _ _ h s hs
  obtain ⟨i, hi, rfl⟩ := pyRange_mem n hn x hx
  exact ⟨i, hi, checkNode_ok hc⟩

theorem range2_names (g : Graph) (base : String) (m n : Nat) (hm : 0 < m) (hn : 0 < n) (names : List String)
    (h : g.nodesFromRange base [(0, (m : Int) - 1), (0, (n : Int) - 1)] = .ok names) :
    ∀ s ∈ names, ∃ i < m, ∃ j < n, s = base ++ "_" ++ toString i ++ "_" ++ toString j := by
  unfold Graph.nodesFromRange at h
  obtain ⟨parts, hp, hflat⟩ := bind_ok h
  have hnames := pure_ok hflat
  intro s hs
  rw [← hnames] at hs
  obtain ⟨part, hpart, hsp⟩ := List.mem_flatten.1 hs
  obtain ⟨x, hx, hc⟩ := C05U.mem_mapM_ok _ _ _ hp part hpart
  obtain ⟨i, hi, rfl⟩ := pyRange_mem m hm x hx
  obtain ⟨j, hj, hsj⟩ := range1_names g _ n hn part hc s hsp
  exact ⟨i, hi, j, hj, hsj⟩

theorem notRouter_congr {g g' : Graph} {s : String} (h : g'.nodes = g.nodes) (hn : NotRouter g s) :
    NotRouter g' s := by
  intro nd hnd; rw [h] at hnd; exact hn nd hnd

/-- a fold of protocol edges over (endpoint, interface) pairs -/
theorem inv_protFold (mk : String → String → Edge) (hmk : ∀ a b, (mk a b).kind = .protocol)
    (hends : ∀ a b, ((mk a b).src = a ∧ (mk a b).dst = b) ∨ ((mk a b).src = b ∧ (mk a b).dst = a)) :
    ∀ (pairs : List (String × String)) (g g' : Graph), Inv g →
      (∀ p ∈ pairs, NotRouter g p.1 ∧ NotRouter g p.2) →
      pairs.foldlM (fun g (p : String × String) => g.addEdge (mk p.1 p.2)) g = .ok g' →
      Inv g' ∧ g'.nodes = g.nodes := by
  intro pairs
  induction pairs with
  | nil => intro g g' hi _ h; simp [List.foldlM, pure, Except.pure] at h; subst h; exact ⟨hi, rfl⟩
  | cons p ps ih =>
    intro g g' hi hnr h
    simp only [List.foldlM] at h
    obtain ⟨g1, h1, h2⟩ := bind_ok h
    obtain ⟨na, nb⟩ := hnr p List.mem_cons_self
    have hsd : NotRouter g (mk p.1 p.2).src ∧ NotRouter g (mk p.1 p.2).dst := by
      rcases hends p.1 p.2 with ⟨e1, e2⟩ | ⟨e1, e2⟩
      · rw [e1, e2]; exact ⟨na, nb⟩
      · rw [e1, e2]; exact ⟨nb, na⟩
    have hi1 := inv_addProt hi (hmk _ _) hsd.1 hsd.2 h1
    have hn1 : g1.nodes = g.nodes := by obtain ⟨_, _, rfl⟩ := addEdge_ok h1; rfl
    obtain ⟨hi2, hn2⟩ := ih g1 g' hi1
      (fun q hq => ⟨notRouter_congr hn1 (hnr q (List.mem_cons_of_mem _ hq)).1,
                    notRouter_congr hn1 (hnr q (List.mem_cons_of_mem _ hq)).2⟩) h2
    exact ⟨hi2, hn2.trans hn1⟩

/-- the `addProt` block of `create_endpoints` -/
theorem inv_addProtBlock (isSbr isMgr : Bool) (pairs : List (String × String)) (g g' : Graph) (hi : Inv g)
    (hnr : ∀ p ∈ pairs, NotRouter g p.1 ∧ NotRouter g p.2)
    (h : (if isSbr = true then do
            let g ← List.foldlM (fun (g : Graph) (x : String × String) =>
              g.addEdge { src := x.snd, dst := x.fst, kind := EdgeKind.protocol, hasDirs := false }) g pairs
            if isMgr = true then
              List.foldlM (fun (g : Graph) (x : String × String) =>
                g.addEdge { src := x.fst, dst := x.snd, kind := EdgeKind.protocol, hasDirs := false }) g pairs
            else pure g
          else do
            let g ← pure g
            if isMgr = true then
              List.foldlM (fun (g : Graph) (x : String × String) =>
                g.addEdge { src := x.fst, dst := x.snd, kind := EdgeKind.protocol, hasDirs := false }) g pairs
            else pure g) = .ok g') : Inv g' := by
  have hA := inv_protFold (fun a b => { src := b, dst := a, kind := EdgeKind.protocol, hasDirs := false })
    (fun _ _ => rfl) (fun _ _ => Or.inr ⟨rfl, rfl⟩) pairs
  have hB := inv_protFold (fun a b => { src := a, dst := b, kind := EdgeKind.protocol, hasDirs := false })
    (fun _ _ => rfl) (fun _ _ => Or.inl ⟨rfl, rfl⟩) pairs
  have hsecond : ∀ ga gb : Graph, Inv ga → (∀ p ∈ pairs, NotRouter ga p.1 ∧ NotRouter ga p.2) →
      (if isMgr = true then
          List.foldlM (fun (g : Graph) (x : String × String) =>
            g.addEdge { src := x.fst, dst := x.snd, kind := EdgeKind.protocol, hasDirs := false }) ga pairs
        else pure ga) = .ok gb → Inv gb := by
    intro ga gb hia hn hh
    by_cases cm : isMgr = true
    · rw [if_pos cm] at hh; exact (hB ga gb hia hn hh).1
    · rw [if_neg cm] at hh; rw [← pure_ok hh]; exact hia
  by_cases cs : isSbr = true
  · rw [if_pos cs] at h
    obtain ⟨g1, h1, h2⟩ := bind_ok h
    obtain ⟨hi1, hn1⟩ := hA g g1 hi hnr h1
    exact hsecond g1 g' hi1
      (fun p hp => ⟨notRouter_congr hn1 (hnr p hp).1, notRouter_congr hn1 (hnr p hp).2⟩) h2
  · rw [if_neg cs] at h
    simp only [pure_bind] at h
    exact hsecond g g' hi hnr h

/-- array sizes are positive (an array of zero endpoints has no instance) -/
def PosArrays (d : Desc) : Prop := ∀ ep ∈ d.endpoints, ∀ a, ep.array = some a → ∀ n ∈ a, 0 < n

theorem inv_createEndpoints (d : Desc) (hpos : PosArrays d) (g g' : Graph) (hi : Inv g)
    (h : createEndpoints d g = .ok g') : Inv g' := by
  unfold createEndpoints at h
  refine foldlM_inv_mem Inv _ d.endpoints.zipIdx ?_ g g' hi h
  intro g x g' hx hi h
  obtain ⟨ep, k⟩ := x
  have hep : ep ∈ d.endpoints := (List.mem_zipIdx_iff_getElem?.1 hx) |> fun hh => List.mem_of_getElem? (by simpa using hh)
  dsimp only at h
  split at h
  · -- a single endpoint
    obtain ⟨g1, h1, h⟩ := bind_ok h
    obtain ⟨g2, h2, h⟩ := bind_ok h
    obtain ⟨gr1, fr1⟩ := grows_addNode h1 (by simp)
    obtain ⟨gr2, fr2⟩ := grows_addNode h2 (by simp)
    have hi2 := inv_addNode (inv_addNode hi h1) h2
    refine inv_addProtBlock _ _ _ g2 g' hi2 ?_ h
    intro p hp
    simp only [List.mem_singleton] at hp; subst hp
    exact ⟨notRouter_new (grows_trans gr1 gr2) fr1, notRouter_new (grows_trans gr1 gr2) (fresh_of_grows gr1 fr2)⟩
  · -- a one-dimensional array
    rename_i n harr
    have hn : 0 < n := hpos ep hep _ harr n (by simp)
    obtain ⟨g1, h1, h⟩ := bind_ok h
    obtain ⟨g2, h2, h⟩ := bind_ok h
    obtain ⟨eps, h3, h⟩ := bind_ok h
    obtain ⟨nis, h4, h⟩ := bind_ok h
    obtain ⟨gr1, fr1⟩ := array1_fresh g g1 _ n _ k (by simp) h1
    obtain ⟨gr2, fr2⟩ := array1_fresh g1 g2 _ n _ k (by simp) h2
    have hi2 := inv_array _ _ _ _ _ _ _ (inv_array _ _ _ _ _ _ _ hi h1) h2
    refine inv_addProtBlock _ _ _ g2 g' hi2 ?_ h
    intro p hp
    have hp1 := (List.of_mem_zip hp).1
    have hp2 := (List.of_mem_zip hp).2
    obtain ⟨i, hi', e1⟩ := range1_names g2 _ n hn eps h3 _ hp1
    obtain ⟨j, hj', e2⟩ := range1_names g2 _ n hn nis h4 _ hp2
    rw [e1, e2]
    exact ⟨notRouter_new (grows_trans gr1 gr2) (fr1 i hi'),
           notRouter_new (grows_trans gr1 gr2) (fresh_of_grows gr1 (fr2 j hj'))⟩
  · -- a two-dimensional array
    rename_i m n harr
    have hm : 0 < m := hpos ep hep _ harr m (by simp)
    have hn : 0 < n := hpos ep hep _ harr n (by simp)
    obtain ⟨g1, h1, h⟩ := bind_ok h
    obtain ⟨g2, h2, h⟩ := bind_ok h
    obtain ⟨eps, h3, h⟩ := bind_ok h
    obtain ⟨nis, h4, h⟩ := bind_ok h
    obtain ⟨gr1, fr1⟩ := array2_fresh g g1 _ m n _ k (by simp) h1
    obtain ⟨gr2, fr2⟩ := array2_fresh g1 g2 _ m n _ k (by simp) h2
    have hi2 := inv_array _ _ _ _ _ _ _ (inv_array _ _ _ _ _ _ _ hi h1) h2
    refine inv_addProtBlock _ _ _ g2 g' hi2 ?_ h
    intro p hp
    have hp1 := (List.of_mem_zip hp).1
    have hp2 := (List.of_mem_zip hp).2
    obtain ⟨i, hi', j, hj', e1⟩ := range2_names g2 _ m n hm hn eps h3 _ hp1
    obtain ⟨i2, hi2', j2, hj2', e2⟩ := range2_names g2 _ m n hm hn nis h4 _ hp2
    rw [e1, e2]
    exact ⟨notRouter_new (grows_trans gr1 gr2) (fr1 i hi' j hj'),
           notRouter_new (grows_trans gr1 gr2) (fresh_of_grows gr1 (fr2 i2 hi2' j2 hj2'))⟩
  · cases h

/-! ### the theorems -/

/-- **the graph `create_network` builds satisfies the invariant**, for every description with
    bidirectional connections and non-empty arrays -/
theorem createNetwork_inv (d : Desc) (hb : ∀ c ∈ d.connections, c.bidirectional = true) (hpos : PosArrays d)
    (g : Graph) (h : createNetwork d = .ok g) : Inv g := by
  unfold createNetwork at h
  obtain ⟨g1, h1, h⟩ := bind_ok h
  obtain ⟨g2, h2, h⟩ := bind_ok h
  exact inv_createConnections d hb g2 g
    (inv_createEndpoints d hpos g1 g2 (inv_createRouters d {} g1 inv_empty h1) h2) h

theorem pairedGraph_of_inv {g : Graph} (hi : Inv g) : C05U.PairedGraph g :=
  ⟨fun e he hk => by obtain ⟨e', he', hr⟩ := hi.rev e he hk; exact ⟨e', he', hr⟩,
   fun e he => (hi.nodes e he).1⟩

theorem onlyLinks_of_inv {g : Graph} (hi : Inv g) :
    ∀ nd ∈ g.nodesOfKind .router, C05U.OnlyLinksAt g nd.name := by
  intro nd hnd e he hor
  unfold Graph.nodesOfKind at hnd
  obtain ⟨hmem, hkind⟩ := List.mem_filter.1 hnd
  have hk : nd.kind = .router := by simpa using hkind
  cases hek : e.kind with
  | link => rfl
  | protocol =>
    obtain ⟨p1, p2⟩ := hi.prot e he hek
    rcases hor with h | h
    · exact absurd hk (p1 nd hmem h.symm)
    · exact absurd hk (p2 nd hmem h.symm)

/-- the validators reject unidirectional connections -/
theorem bidirectional_of_valid (d : Desc) (hv : validateDesc d = .ok ()) :
    ∀ c ∈ d.connections, c.bidirectional = true := by
  intro c hc
  have := (C10.validate_ok d hv).2.2.2.2.1
  cases hb : c.bidirectional with
  | true => rfl
  | false =>
    have hany : d.connections.any (fun c => !c.bidirectional) = true :=
      List.any_eq_true.2 ⟨c, hc, by simp [hb]⟩
    rw [hany] at this; cases this

/-- **every router of every accepted description has all its ports paired** (input i and output i
    attach the same neighbour) — no hypothesis about the graph is left: it is what
    `create_network` builds -/
theorem generated_routers_paired (d : Desc) (hpos : PosArrays d) (hv : validateDesc d = .ok ())
    (g : Graph) (hg : createNetwork d = .ok g) (c : Compiled) (hc : compileNetwork d g = .ok c) :
    ∀ r ∈ c.routers, C05U.SlotsRel C05U.Counterpart r.incoming r.outgoing ∧
      ∀ i, (r.incoming.getD i none).map (·.source) = (r.outgoing.getD i none).map (·.dest) := by
  have hi := createNetwork_inv d (bidirectional_of_valid d hv) hpos g hg
  unfold compileNetwork at hc
  obtain ⟨ids, _, hc⟩ := bind_ok hc
  obtain ⟨dirs, _, hc⟩ := bind_ok hc
  obtain ⟨_, _, hc⟩ := bind_ok hc
  obtain ⟨nis, _, hc⟩ := bind_ok hc
  obtain ⟨rs, hrs, hc⟩ := bind_ok hc
  have := pure_ok hc
  subst this
  exact C05U.routers_paired d g ids rs (pairedGraph_of_inv hi) (onlyLinks_of_inv hi) hrs

end FlooVerif.C05G

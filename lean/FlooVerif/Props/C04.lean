/-
  C04 — XY routing.  (1) Lock-step: if every step of the walk over the emitted netlist is matched by
  the step on the ideal grid (the per-port frame condition the decider checks), the two walks
  have the same outcome — by induction on the number of steps, for grids of any size.
  (2) The hardware's decision (`Hw.xyDecide`, floo_route_select) is dimension-ordered: on a grid it
  moves along x until the column matches, then along y, then ejects; the distance to the
  destination drops by one per hop and no Y→X turn (banned by floo_router) is ever requested.
-/
import FlooVerif.Hw
namespace FlooVerif.C04
open FlooVerif Hw

/-! ### (1) lock-step simulation -/

/-- a walk as a state machine: a step either continues in a new state or ends with a result -/
def run {σ ρ : Type} (step : σ → σ ⊕ ρ) (timeout : ρ) : Nat → σ → ρ
  | 0, _ => timeout
  | n + 1, s => match step s with
    | .inl s' => run step timeout n s'
    | .inr r => r

/-- **lock-step**: `abs` maps netlist states (router instance, input port, header) to grid states
    (coordinate, input port, header); if it commutes with one step, it commutes with whole walks -/
theorem lockstep {σ τ ρ : Type} (stepC : σ → σ ⊕ ρ) (stepA : τ → τ ⊕ ρ) (abs : σ → τ) (timeout : ρ)
    (h : ∀ s, stepA (abs s) = (stepC s).map abs id) :
    ∀ n s, run stepA timeout n (abs s) = run stepC timeout n s := by
  intro n
  induction n with
  | zero => intro s; rfl
  | succ n ih =>
    intro s
    simp only [run, h s]
    cases stepC s with
    | inl s' => simpa [Sum.map] using ih s'
    | inr r => simp [Sum.map]

/-! ### (2) the hardware decision is dimension-ordered routing -/

def dist (cx cy dx dy : Int) : Nat := (dx - cx).natAbs + (dy - cy).natAbs

/-- coordinate reached through output port `p` -/
def move (cx cy : Int) (p : Nat) : Int × Int :=
  if p = North then (cx, cy + 1) else if p = East then (cx + 1, cy)
  else if p = South then (cx, cy - 1) else if p = West then (cx - 1, cy) else (cx, cy)

/-- at the destination the flit ejects on the addressed local port -/
theorem eject_at_destination (cx cy : Int) (port : Nat) :
    xyDecide cx cy cx cy port = Eject + port := by
  simp [xyDecide]

/-- away from the destination the decision is a compass direction that brings the flit one step
    closer: first along x (East/West), and only when the column matches along y (North/South) -/
theorem step_closer (cx cy dx dy : Int) (port : Nat) (hne : ¬ (dx = cx ∧ dy = cy)) :
    let p := xyDecide cx cy dx dy port
    p < 4 ∧ dist (move cx cy p).1 (move cx cy p).2 dx dy + 1 = dist cx cy dx dy ∧
    ((p = North ∨ p = South) → dx = cx) := by
  simp only [xyDecide, if_neg hne]
  by_cases hx : dx = cx
  · have hy : dy ≠ cy := fun h => hne ⟨hx, h⟩
    simp only [if_pos hx]
    by_cases hlt : dy < cy
    · simp only [if_pos hlt, South, North, East, West, move, dist]
      refine ⟨by omega, ?_, fun _ => hx⟩
      simp; omega
    · simp only [if_neg hlt, South, North, East, West, move, dist]
      refine ⟨by omega, ?_, fun _ => hx⟩
      simp; omega
  · simp only [if_neg hx]
    by_cases hlt : dx < cx
    · simp only [if_pos hlt, South, North, East, West, move, dist]
      refine ⟨by omega, ?_, ?_⟩
      · simp; omega
      · intro h; omega
    · simp only [if_neg hlt, South, North, East, West, move, dist]
      refine ⟨by omega, ?_, ?_⟩
      · simp; omega
      · intro h; omega

/-- in the destination's column the decision is never East or West … -/
theorem column_decision (cx cy dy : Int) (port : Nat) :
    xyDecide cx cy cx dy port ≠ East ∧ xyDecide cx cy cx dy port ≠ West := by
  unfold xyDecide
  by_cases h : dy = cy
  · simp [h, Eject, East, West]; omega
  · simp only [h, and_false, if_false, if_true]
    split <;> simp [North, South, East, West]

/-- … and a move along y is only requested in that column and stays in it: so after a Y move the
    next decision is again Y or an ejection.  A Y→X turn, which `floo_router` blocks, never occurs. -/
theorem no_y_to_x_turn (cx cy dx dy : Int) (port : Nat)
    (hp : xyDecide cx cy dx dy port = North ∨ xyDecide cx cy dx dy port = South) :
    dx = cx ∧ (move cx cy (xyDecide cx cy dx dy port)).1 = cx := by
  have hx : dx = cx := by
    by_cases hne : dx = cx ∧ dy = cy
    · exact hne.1
    · exact (step_closer cx cy dx dy port hne).2.2 hp
  refine ⟨hx, ?_⟩
  rcases hp with hp | hp <;> rw [hp] <;> simp [move, North, South, East, West]

/-- the loop-back and turn restrictions of `floo_router` never block a dimension-ordered route:
    entering from the West/East (or a local port) any continuation is allowed, entering from
    North/South only North/South/eject continuations are, and those are the only ones requested -/
theorem allowed_y_continuation (inP outP : Nat) (hin : inP = North ∨ inP = South)
    (hout : outP ≠ East ∧ outP ≠ West) (hne : inP ≠ outP) : allowed true inP outP = true := by
  unfold allowed
  rcases hin with h | h <;> subst h <;> simp [North, South, East, West] at * <;> omega

/-- **dimension-ordered routing delivers on a full grid**: following the hardware's decision from
    any coordinate reaches the destination coordinate after exactly `dist` hops (then ejects) -/
theorem dor_reaches (dx dy : Int) (port : Nat) :
    ∀ k cx cy, dist cx cy dx dy = k →
      ∃ path : List (Int × Int), path.length = k + 1 ∧ path.head? = some (cx, cy) ∧
        path.getLast? = some (dx, dy) ∧
        ∀ i, i + 1 < path.length →
          path[i + 1]? = (path[i]?).map fun c => move c.1 c.2 (xyDecide c.1 c.2 dx dy port) := by
  intro k
  induction k with
  | zero =>
    intro cx cy h
    have : dx = cx ∧ dy = cy := by unfold dist at h; omega
    refine ⟨[(cx, cy)], rfl, rfl, by simp [this.1, this.2], ?_⟩
    intro i hi; simp at hi
  | succ k ih =>
    intro cx cy h
    have hne : ¬ (dx = cx ∧ dy = cy) := by intro ⟨h1, h2⟩; subst h1 h2; simp [dist] at h
    have hs := step_closer cx cy dx dy port hne
    simp only at hs
    obtain ⟨path, hl, hh, hlast, hstep⟩ :=
      ih (move cx cy (xyDecide cx cy dx dy port)).1 (move cx cy (xyDecide cx cy dx dy port)).2 (by omega)
    refine ⟨(cx, cy) :: path, by simp [hl], rfl, ?_, ?_⟩
    · cases path with
      | nil => simp at hl
      | cons a t => simpa using hlast
    · intro i hi
      cases i with
      | zero =>
        cases path with
        | nil => simp at hl
        | cons a t => simp at hh; simp [hh]
      | succ i =>
        have := hstep i (by simpa using hi)
        simpa using this

/-! non-vacuity -/
example : xyDecide 0 0 2 1 0 = East ∧ xyDecide 2 0 2 1 0 = North ∧ xyDecide 2 1 2 1 1 = Eject + 1 := by decide
example : allowed true North East = false ∧ allowed true West North = true ∧ allowed false 2 2 = false := by decide

end FlooVerif.C04

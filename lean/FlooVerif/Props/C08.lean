/-
  C08 (generator level) — the element index used in a network interface's port binding drops
  exactly the dimensions the port declaration drops (the unit dimensions), so the binding always has
  as many index levels as the port has packed dimensions: for arrays of any shape.
-/
import FlooVerif.Model.Emit
namespace FlooVerif.C08U
open FlooVerif Model Sv

def indexDepth : Expr → Nat
  | .index e _ => indexDepth e + 1
  | _ => 0

theorem depth_foldl (l : List Nat) (e : Expr) :
    indexDepth (l.foldl (fun e k => Expr.index e (Model.num k)) e) = indexDepth e + l.length := by
  induction l generalizing e with
  | nil => simp
  | cons x xs ih => simp only [List.foldl_cons, ih, indexDepth, List.length_cons]; omega

theorem kept_length : ∀ (idx arr : List Nat), idx.length = arr.length →
    ((idx.zip arr).filterMap fun (k, dim) => if dim != 1 then some k else none).length = (arr.filter (· != 1)).length := by
  intro idx
  induction idx with
  | nil => intro arr h; cases arr <;> simp_all
  | cons i is ih =>
    intro arr h
    cases arr with
    | nil => simp at h
    | cons a as =>
      simp only [List.zip_cons_cons, List.filterMap_cons, List.filter_cons]
      have := ih as (by simpa using h)
      by_cases ha : (a != 1) = true
      · simp only [ha, if_true, List.length_cons, this]
      · simp only [ha, Bool.false_eq_true, if_false, this]

/-- **binding depth = number of declared dimensions** -/
theorem portElem_depth (name : String) (arr idx : List Nat) (h : idx.length = arr.length) :
    indexDepth (portElem name (some arr) (some idx)) = (shapeDims (some arr)).length := by
  unfold portElem shapeDims
  simp only [Option.getD_some, List.length_map]
  rw [depth_foldl, kept_length idx arr h]
  simp [indexDepth, Model.ident]

/-- a single endpoint is bound without index and declared without dimension -/
theorem portElem_single (name : String) : portElem name none none = .ident name ∧ shapeDims none = [] := by
  simp [portElem, shapeDims, Model.ident]

example : portElem "e_p_req_i" (some [1, 3]) (some [0, 2]) = .index (.ident "e_p_req_i") (.num 2) := by rfl
example : shapeDims (some [1, 3]) = [(.num 2, .num 0)] := by rfl

end FlooVerif.C08U

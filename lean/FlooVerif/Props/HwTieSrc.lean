/-
  Tie of Hw.srcPop to the source-routing branch of hw/floo_route_select.sv (see HwTie.lean).
-/
import FlooVerif.Gen.RtlFacts
import FlooVerif.Hw
namespace FlooVerif.HwTie
open FlooVerif Rtl Hw Gen

/-- the source-routing branch reads the route word and the width of this router's field -/
def envSRC (dst w : Nat) : Env SrcName
  | .channel_i_hdr_dst_id => some dst
  | .RouteSelWidth => some w
  | _ => none

/-- **floo_route_select, source-routing branch = `Hw.srcPop`**: the low `RouteSelWidth` bits select the
    port, the rest, shifted right, travels on -/
theorem src_agrees (dst w : Nat) :
    execList (envSRC dst w) rtlSrc .route_sel_id = some ((dst % 2 ^ w : Nat) : Int) ∧
    execList (envSRC dst w) rtlSrc .channel_o_hdr_dst_id = some ((dst / 2 ^ w : Nat) : Int) := by
  simp only [rtlSrc, execList, exec, eval, evalOp, envSRC]
  constructor
  · simp [Env.set_same, Env.set_ne, envSRC]
  · simp [Env.set_same, Env.set_ne, envSRC]

/-- with `Hw.srcPop`: the field is `$clog2(NumRoutes)` wide and the router passes its number of outputs -/
theorem src_is_srcPop (numOut route : Nat) :
    execList (envSRC route (clog2 numOut)) rtlSrc .route_sel_id = some (((srcPop numOut route).1 : Nat) : Int) ∧
    execList (envSRC route (clog2 numOut)) rtlSrc .channel_o_hdr_dst_id = some (((srcPop numOut route).2 : Nat) : Int) := by
  unfold srcPop; exact src_agrees route (clog2 numOut)

end FlooVerif.HwTie

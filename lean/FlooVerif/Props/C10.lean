/-
  C10 — invalid descriptions are rejected and leave no output (model level).  One theorem per defect
  class that the validators catch, each for every description whatever its size; the defect classes
  that are only caught deep in the pipeline (overlap: see C01U.overlap_rejected; selector, count,
  port-conflict, unconnected, missing direction) are decided by correspondence on the injected stream.
-/
import FlooVerif.Cli
import FlooVerif.Props.C17
namespace FlooVerif.C10
open FlooVerif Model Cli

/-- a validator error rejects the description -/
theorem gen_error_of_validate (sp : PathOracle) (d : Desc) (e : Err) (h : validateDesc d = .error e) :
    genWith sp d = .error e := by
  unfold genWith
  simp [h, bind, Except.bind]

/-- **nothing is written when the command fails** -/
theorem no_output_on_error (mode : Mode) (j : Lean.Json) (h : (run mode j).status ≠ 0) :
    (run mode j).files = [] ∧ (run mode j).stdout = [] := by
  unfold run runDesc at *
  cases hd : decodeDesc j with
  | error e => simp [hd]
  | ok d =>
    simp only [hd] at h ⊢
    cases hg : Model.gen d with
    | error e => simp [hg]
    | ok pm => simp only [hg] at h; cases mode <;> simp [emit] at h

theorem rejected_of_gen_error (mode : Mode) (d : Desc) (e : Err) (h : Model.gen d = .error e) :
    (runDesc mode d).status ≠ 0 ∧ (runDesc mode d).files = [] := by
  unfold runDesc; rw [h]; exact ⟨Nat.succ_ne_zero 0, rfl⟩

/-- what an accepting validator run establishes (the first seven conditions, in source order) -/
theorem validate_ok (d : Desc) (h : validateDesc d = .ok ()) :
    d.endpoints.any (fun e => e.ranges.any rangeInvalid) = false ∧
    d.endpoints.any (fun e => e.isSbr && e.ranges.isEmpty) = false ∧
    (d.endpoints.map (·.name)).Nodup ∧ (d.routers.map (·.name)).Nodup ∧
    d.connections.any (fun c => !c.bidirectional) = false ∧
    distinctCount (d.protocols.map (·.addrW)) = 1 := by
  unfold validateDesc at h
  by_cases c0 : (d.algo == .ID && !d.useIdTable && d.addrOffsetBits.isNone) = true
  · rw [if_pos c0] at h; cases h
  rw [if_neg c0] at h
  by_cases c1 : (d.endpoints.any (fun e => e.ranges.any rangeInvalid)) = true
  · rw [if_pos c1] at h; cases h
  rw [if_neg c1] at h
  by_cases c2 : (d.endpoints.any (fun e => e.isSbr && e.ranges.isEmpty)) = true
  · rw [if_pos c2] at h; cases h
  rw [if_neg c2] at h
  by_cases c3 : (!decide (d.endpoints.map (·.name)).Nodup) = true
  · rw [if_pos c3] at h; cases h
  rw [if_neg c3] at h
  by_cases c4 : (!decide (d.routers.map (·.name)).Nodup) = true
  · rw [if_pos c4] at h; cases h
  rw [if_neg c4] at h
  by_cases c5 : (d.connections.any (fun c => (truthyIdx c.srcIdx && truthyLvl c.srcLvl) || (truthyIdx c.dstIdx && truthyLvl c.dstLvl))) = true
  · rw [if_pos c5] at h; cases h
  rw [if_neg c5] at h
  by_cases c6 : (d.connections.any (fun c => !c.bidirectional)) = true
  · rw [if_pos c6] at h; cases h
  rw [if_neg c6] at h
  by_cases c7 : (distinctCount (d.protocols.map (·.addrW)) != 1) = true
  · rw [if_pos c7] at h; cases h
  exact ⟨by simpa using c1, by simpa using c2, by simpa using c3, by simpa using c4, by simpa using c6, by simpa using c7⟩

theorem error_of_not_ok (d : Desc) (h : validateDesc d ≠ .ok ()) : ∃ e, Model.gen d = .error e := by
  cases hv : validateDesc d with
  | error e => exact ⟨e, gen_error_of_validate _ d e hv⟩
  | ok u => cases u; exact absurd hv h

/-- **an empty, inverted, contradictory, negative or under-specified address range is rejected** -/
theorem reject_invalid_range (d : Desc) (ep : EpDesc) (r : RangeSpec) (hep : ep ∈ d.endpoints)
    (hr : r ∈ ep.ranges) (hbad : ∃ e, mkRange r = .error e) : ∃ e, Model.gen d = .error e := by
  apply error_of_not_ok
  intro hok
  have := (validate_ok d hok).1
  have hany : d.endpoints.any (fun e => e.ranges.any rangeInvalid) = true := by
    refine List.any_eq_true.2 ⟨ep, hep, List.any_eq_true.2 ⟨r, hr, ?_⟩⟩
    obtain ⟨e, he⟩ := hbad
    unfold rangeInvalid; rw [he]
  rw [hany] at this; cases this

/-- in particular start ≥ end (any way it was specified) -/
theorem reject_empty_range (d : Desc) (ep : EpDesc) (r : RangeSpec) (hep : ep ∈ d.endpoints)
    (hr : r ∈ ep.ranges) (st en sz : Int) (hn : normalise r = .ok (st, en, sz)) (he : en ≤ st) :
    ∃ e, Model.gen d = .error e :=
  reject_invalid_range d ep r hep hr (C17.rejects_empty r st en sz hn he)

/-- … and start, end, size that contradict each other -/
theorem reject_contradictory_range (d : Desc) (ep : EpDesc) (r : RangeSpec) (hep : ep ∈ d.endpoints)
    (hr : r ∈ ep.ranges) (st en sz : Int) (h1 : r.start = some st) (h2 : r.stop = some en)
    (h3 : r.size = some sz) (h4 : r.base = none) (hne : en - st ≠ sz) : ∃ e, Model.gen d = .error e :=
  reject_invalid_range d ep r hep hr (C17.rejects_contradictory r st en sz h1 h2 h3 h4 hne)

/-- **a subordinate without a range is rejected** -/
theorem reject_sbr_without_range (d : Desc) (ep : EpDesc) (hep : ep ∈ d.endpoints)
    (hs : ep.isSbr = true) (hr : ep.ranges = []) : ∃ e, Model.gen d = .error e := by
  apply error_of_not_ok
  intro hok
  have := (validate_ok d hok).2.1
  have hany : d.endpoints.any (fun e => e.isSbr && e.ranges.isEmpty) = true :=
    List.any_eq_true.2 ⟨ep, hep, by simp [hs, hr]⟩
  rw [hany] at this; cases this

/-- **ID routing without address table and without `addr_offset_bits` is rejected** -/
theorem reject_tableless_id_without_offset (sp : PathOracle) (d : Desc) (ha : d.algo = .ID)
    (ht : d.useIdTable = false) (ho : d.addrOffsetBits = none) : ∃ e, genWith sp d = .error e := by
  refine ⟨.schema "`addr_offset_bits` is required for ID routing without `use_id_table`",
    gen_error_of_validate sp d _ ?_⟩
  unfold validateDesc
  rw [if_pos (by simp [ha, ht, ho])]
  rfl

/-- **duplicate endpoint names are rejected** -/
theorem reject_duplicate_endpoint_names (d : Desc) (h : ¬ (d.endpoints.map (·.name)).Nodup) :
    ∃ e, Model.gen d = .error e :=
  error_of_not_ok d fun hok => h (validate_ok d hok).2.2.1

/-- **duplicate router names are rejected** -/
theorem reject_duplicate_router_names (d : Desc) (h : ¬ (d.routers.map (·.name)).Nodup) :
    ∃ e, Model.gen d = .error e :=
  error_of_not_ok d fun hok => h (validate_ok d hok).2.2.2.1

/-- **a unidirectional connection is rejected** -/
theorem reject_unidirectional (d : Desc) (c : ConnDesc) (hc : c ∈ d.connections) (hu : c.bidirectional = false) :
    ∃ e, Model.gen d = .error e := by
  apply error_of_not_ok
  intro hok
  have := (validate_ok d hok).2.2.2.2.1
  have hany : d.connections.any (fun c => !c.bidirectional) = true := List.any_eq_true.2 ⟨c, hc, by simp [hu]⟩
  rw [hany] at this; cases this

/-- **protocols with different address widths are rejected** -/
theorem reject_addr_width_mismatch (d : Desc) (h : distinctCount (d.protocols.map (·.addrW)) ≠ 1) :
    ∃ e, Model.gen d = .error e :=
  error_of_not_ok d fun hok => h (validate_ok d hok).2.2.2.2.2

/-- **source and destination counts that differ without multi-connection are an error** -/
theorem matchLists_count_mismatch (srcs dsts : List String) (h : srcs.length ≠ dsts.length) :
    ∃ e, matchLists false srcs dsts = .error e := by
  unfold matchLists
  have c1 : (srcs.length == dsts.length) = false := by simpa using h
  simp only [c1, Bool.false_and, Bool.false_eq_true, if_false]
  exact ⟨_, rfl⟩

/-- **with multi-connection, counts that do not divide evenly are an error** -/
theorem matchLists_not_dividing (srcs dsts : List String) (h : srcs.length ≠ dsts.length)
    (h1 : srcs.length % dsts.length ≠ 0 ∨ dsts.length = 0) (h2 : dsts.length % srcs.length ≠ 0 ∨ srcs.length = 0) :
    ∃ e, matchLists true srcs dsts = .error e := by
  unfold matchLists
  have c1 : (srcs.length == dsts.length) = false := by simpa using h
  have c2 : (true && dsts.length != 0 && srcs.length % dsts.length == 0 && decide (srcs.length > dsts.length)) = false := by
    rcases h1 with h1 | h1
    · have : (srcs.length % dsts.length == 0) = false := by simpa using h1
      simp [this]
    · simp [h1]
  have c3 : (true && srcs.length != 0 && dsts.length % srcs.length == 0 && decide (dsts.length > srcs.length)) = false := by
    rcases h2 with h2 | h2
    · have : (dsts.length % srcs.length == 0) = false := by simpa using h2
      simp [this]
    · simp [h2]
  simp only [c1, c2, c3, Bool.false_eq_true, if_false]
  exact ⟨_, rfl⟩

/-- when the pairing succeeds both sides have the same length: no link is dropped or invented -/
theorem matchLists_ok_lengths (multi : Bool) (srcs dsts a b : List String)
    (h : matchLists multi srcs dsts = .ok (a, b)) : a.length = b.length ∧ a.length = max srcs.length dsts.length := by
  unfold matchLists at h
  by_cases c1 : (srcs.length == dsts.length) = true
  · simp only [c1, if_true, pure, Except.pure] at h
    cases h
    have : srcs.length = dsts.length := by simpa using c1
    exact ⟨this, by omega⟩
  simp only [c1, Bool.false_eq_true, if_false] at h
  by_cases c2 : (multi && dsts.length != 0 && srcs.length % dsts.length == 0 && decide (srcs.length > dsts.length)) = true
  · simp only [c2, if_true, pure, Except.pure] at h
    cases h
    simp only [Bool.and_eq_true, bne_iff_ne, ne_eq, beq_iff_eq, decide_eq_true_eq] at c2
    obtain ⟨⟨⟨_, hnd⟩, hmod⟩, hgt⟩ := c2
    have hlen : (dsts.flatMap fun t => List.replicate (srcs.length / dsts.length) t).length = srcs.length := by
      simp only [List.length_flatMap, List.length_replicate, List.map_const', List.sum_replicate_nat]
      have := Nat.div_add_mod srcs.length dsts.length
      rw [hmod, Nat.add_zero] at this
      exact this
    exact ⟨hlen.symm, by omega⟩
  simp only [c2, Bool.false_eq_true, if_false] at h
  by_cases c3 : (multi && srcs.length != 0 && dsts.length % srcs.length == 0 && decide (dsts.length > srcs.length)) = true
  · simp only [c3, if_true, pure, Except.pure] at h
    cases h
    simp only [Bool.and_eq_true, bne_iff_ne, ne_eq, beq_iff_eq, decide_eq_true_eq] at c3
    obtain ⟨⟨⟨_, hns⟩, hmod⟩, hgt⟩ := c3
    have hlen : (srcs.flatMap fun t => List.replicate (dsts.length / srcs.length) t).length = dsts.length := by
      simp only [List.length_flatMap, List.length_replicate, List.map_const', List.sum_replicate_nat]
      have := Nat.div_add_mod dsts.length srcs.length
      rw [hmod, Nat.add_zero] at this
      exact this
    exact ⟨hlen, by omega⟩
  simp only [c3, Bool.false_eq_true, if_false] at h
  cases h

end FlooVerif.C10

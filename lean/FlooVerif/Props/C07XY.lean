/-
  C07 (generator level, XY) — after the global offset every router and network-interface coordinate
  is non-negative and below 2^bits of the emitted x/y widths: for every set of coordinates, i.e. for
  arrays of any size, partial endpoint coverage, boundary attachments on any side.
-/
import FlooVerif.Model.Route
import FlooVerif.Props.C03
namespace FlooVerif.C07U
open FlooVerif Model

theorem foldl_min_le (l : List Int) :
    ∀ (acc : Option Int) (m : Int),
      l.foldl (fun acc x => match acc with | none => some x | some m => some (min m x)) acc = some m →
      (∀ a, acc = some a → m ≤ a) ∧ ∀ x ∈ l, m ≤ x := by
  induction l with
  | nil => intro acc m h; simp at h; subst h; exact ⟨fun a ha => by cases ha; exact Int.le_refl _, fun x hx => by cases hx⟩
  | cons y ys ih =>
    intro acc m h
    simp only [List.foldl_cons] at h
    cases acc with
    | none =>
      obtain ⟨h1, h2⟩ := ih (some y) m h
      refine ⟨fun a ha => (by cases ha), ?_⟩
      intro x hx
      rcases List.mem_cons.1 hx with rfl | hx'
      · exact h1 _ rfl
      · exact h2 x hx'
    | some a0 =>
      obtain ⟨h1, h2⟩ := ih (some (min a0 y)) m h
      have := h1 _ rfl
      refine ⟨fun a ha => by cases ha; exact Int.le_trans this (Int.min_le_left _ _), ?_⟩
      intro x hx
      rcases List.mem_cons.1 hx with rfl | hx'
      · exact Int.le_trans this (Int.min_le_right _ _)
      · exact h2 x hx'

theorem foldl_max_ge (l : List Int) :
    ∀ (acc : Option Int) (m : Int),
      l.foldl (fun acc x => match acc with | none => some x | some m => some (max m x)) acc = some m →
      (∀ a, acc = some a → a ≤ m) ∧ ∀ x ∈ l, x ≤ m := by
  induction l with
  | nil => intro acc m h; simp at h; subst h; exact ⟨fun a ha => by cases ha; exact Int.le_refl _, fun x hx => by cases hx⟩
  | cons y ys ih =>
    intro acc m h
    simp only [List.foldl_cons] at h
    cases acc with
    | none =>
      obtain ⟨h1, h2⟩ := ih (some y) m h
      refine ⟨fun a ha => (by cases ha), ?_⟩
      intro x hx
      rcases List.mem_cons.1 hx with rfl | hx'
      · exact h1 _ rfl
      · exact h2 x hx'
    | some a0 =>
      obtain ⟨h1, h2⟩ := ih (some (max a0 y)) m h
      have := h1 _ rfl
      refine ⟨fun a ha => by cases ha; exact Int.le_trans (Int.le_max_left _ _) this, ?_⟩
      intro x hx
      rcases List.mem_cons.1 hx with rfl | hx'
      · exact Int.le_trans (Int.le_max_right _ _) this
      · exact h2 x hx'

theorem listMin_le (l : List Int) (m : Int) (h : listMin l = some m) : ∀ x ∈ l, m ≤ x :=
  (foldl_min_le l none m h).2

theorem listMax_ge (l : List Int) (m : Int) (h : listMax l = some m) : ∀ x ∈ l, x ≤ m :=
  (foldl_max_ge l none m h).2

/-- **offset-subtracted coordinates fit**: a value between the minimum and the maximum of the
    coordinates, minus the minimum, is ≥ 0 and below 2^clog2(max − min + 1) -/
theorem coord_fits (lo hi v : Int) (h1 : lo ≤ v) (h2 : v ≤ hi) :
    0 ≤ v - lo ∧ (v - lo).toNat < 2 ^ Hw.clog2 ((hi - lo + 1).toNat) := by
  refine ⟨by omega, ?_⟩
  apply C03.port_fits
  omega

/-- the XY bounds `gen_xy_routing_info` computes cover every router and every network interface:
    all their coordinates, after subtracting the offset, are representable -/
theorem xy_ids_fit (d : Desc) (c : Compiled) (xy : XYInfo) (h : genXyInfo d c = .ok xy) :
    ∀ v ∈ c.nis.map (·.id) ++ c.routers.filterMap (·.id), ∀ x y, coordXY v = some (x, y) →
      0 ≤ x - xy.offX ∧ (x - xy.offX).toNat < 2 ^ xy.numXBits ∧
      0 ≤ y - xy.offY ∧ (y - xy.offY).toNat < 2 ^ xy.numYBits := by
  unfold genXyInfo at h
  simp only [bind, Except.bind, pure, Except.pure] at h
  generalize hids : c.nis.map (·.id) ++ c.routers.filterMap (·.id) = ids at h
  cases hminx : listMin (ids.filterMap fun v => (coordXY v).map (·.1)) with
  | none => simp [hminx] at h
  | some minX =>
    cases hminy : listMin (ids.filterMap fun v => (coordXY v).map (·.2)) with
    | none => simp [hminx, hminy] at h
    | some minY =>
      cases hmaxx : listMax (ids.filterMap fun v => (coordXY v).map (·.1)) with
      | none => simp [hminx, hminy, hmaxx] at h
      | some maxX =>
        cases hmaxy : listMax (ids.filterMap fun v => (coordXY v).map (·.2)) with
        | none => simp [hminx, hminy, hmaxx, hmaxy] at h
        | some maxY =>
          simp only [hminx, hminy, hmaxx, hmaxy] at h
          split at h
          · cases h
          · split at h
            · cases h
            · cases hma : listMax (List.flatMap (fun ni => List.map (fun x => x.stop) ni.ranges)
                (List.filter (fun ni => (epOf d ni).isSbr) c.nis)) with
              | none => simp [hma] at h
              | some ma =>
                simp only [hma] at h
                cases h
                intro v hv x y hxy
                have hx : x ∈ ids.filterMap fun v => (coordXY v).map (·.1) :=
                  List.mem_filterMap.2 ⟨v, hv, by simp [hxy]⟩
                have hy : y ∈ ids.filterMap fun v => (coordXY v).map (·.2) :=
                  List.mem_filterMap.2 ⟨v, hv, by simp [hxy]⟩
                have a := coord_fits minX maxX x (listMin_le _ _ hminx x hx) (listMax_ge _ _ hmaxx x hx)
                have b := coord_fits minY maxY y (listMin_le _ _ hminy y hy) (listMax_ge _ _ hmaxy y hy)
                exact ⟨a.1, a.2, b.1, b.2⟩

end FlooVerif.C07U

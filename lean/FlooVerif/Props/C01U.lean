/-
  C01 (generator level) — for every description, whatever its size: if the model of gen_sam accepts,
  every address of every range of every subordinate network interface is covered by exactly one
  rule of the address map, that rule carries this interface's identity (offset-subtracted), every
  rule lies inside the 2^aw address space; overlapping expanded ranges are rejected.
-/
import FlooVerif.Model.Route
import FlooVerif.Lemmas.RouteMapLemmas
namespace FlooVerif.C01U
open FlooVerif Model List

def covers (s : SamRule) (a : Int) : Prop := s.range.start ≤ a ∧ a < s.range.stop

/-- the address-map rule that `gen_sam` creates for range number `i` of interface `ni` -/
theorem rule_exists (d : Desc) (c : Compiled) (off : Option (Int × Int)) (ni : NI)
    (hni : ni ∈ c.nis) (hs : (epOf d ni).isSbr = true) (r : AddrRange) (hr : r ∈ ni.ranges) :
    ∃ s ∈ samRules d c off, s.range = r ∧ s.dest = subOffset ni.id off := by
  unfold samRules
  obtain ⟨i, hi, hget⟩ := List.getElem_of_mem hr
  refine ⟨_, mem_flatMap.2 ⟨ni, ?_, mem_map.2 ⟨(r, i), ?_, rfl⟩⟩, rfl, rfl⟩
  · exact mem_reverse.2 (mem_filter.2 ⟨hni, hs⟩)
  · rw [List.mem_zipIdx_iff_getElem?]
    simp [hget, hi]

/-- every rule of the map stems from a range of a subordinate interface -/
theorem rule_origin (d : Desc) (c : Compiled) (off : Option (Int × Int)) (s : SamRule)
    (hs : s ∈ samRules d c off) :
    ∃ ni ∈ c.nis, (epOf d ni).isSbr = true ∧ s.range ∈ ni.ranges ∧ s.dest = subOffset ni.id off := by
  unfold samRules at hs
  obtain ⟨ni, hni, hs'⟩ := mem_flatMap.1 hs
  obtain ⟨⟨r, i⟩, hri, rfl⟩ := mem_map.1 hs'
  have hm := mem_filter.1 (mem_reverse.1 hni)
  refine ⟨ni, hm.1, hm.2, ?_, rfl⟩
  have := List.mem_zipIdx_iff_getElem?.1 hri
  simp at this
  exact List.mem_of_getElem? this

theorem genSam_ok (d : Desc) (c : Compiled) (off : Option (Int × Int)) (rules : List SamRule)
    (h : genSam d c off = .ok rules) :
    rules = samRules d c off ∧ checkNoOverlap (samAsMap rules) = true ∧
    (∀ s ∈ rules, s.range.stop ≤ (2 : Int) ^ d.addrW) ∧
    (rules.map fun r => snakeToCamel r.name).Nodup := by
  unfold genSam at h
  simp only at h
  by_cases h1 : ((samRules d c off).any fun r => decide (r.range.stop > (2 : Int) ^ d.addrW)) = true
  · rw [if_pos h1] at h; cases h
  rw [if_neg h1] at h
  by_cases h0 : (decide ((samRules d c off).map fun r => snakeToCamel r.name).Nodup) = false
  · rw [if_pos h0] at h; cases h
  rw [if_neg h0] at h
  by_cases h2 : checkNoOverlap (samAsMap (samRules d c off)) = false
  · rw [if_pos h2] at h; cases h
  rw [if_neg h2] at h
  cases h
  refine ⟨rfl, by simpa using h2, ?_, by simpa using h0⟩
  intro s hs
  simp only [List.any_eq_true, decide_eq_true_eq, not_exists, not_and] at h1
  have := h1 s hs
  omega

/-- **overlapping expanded ranges are rejected** (for well-formed ranges) -/
theorem overlap_rejected (d : Desc) (c : Compiled) (off : Option (Int × Int))
    (hv : AllValid (samAsMap (samRules d c off)))
    (hov : ¬ OverlapFree (samAsMap (samRules d c off))) : ∃ e, genSam d c off = .error e := by
  unfold genSam
  simp only
  split
  · exact ⟨_, rfl⟩
  · split
    · exact ⟨_, rfl⟩
    · have : checkNoOverlap (samAsMap (samRules d c off)) = false := by
        cases hc : checkNoOverlap (samAsMap (samRules d c off)) with
        | false => rfl
        | true => exact absurd ((checkNoOverlap_iff hv).1 hc) hov
      rw [if_pos this]; exact ⟨_, rfl⟩

/-- **every address of a declared range decodes to exactly one rule, the owner's** -/
theorem sam_decodes_owner (d : Desc) (c : Compiled) (off : Option (Int × Int)) (rules : List SamRule)
    (h : genSam d c off = .ok rules)
    (hv : ∀ ni ∈ c.nis, ∀ r ∈ ni.ranges, r.start < r.stop)
    (ni : NI) (hni : ni ∈ c.nis) (hs : (epOf d ni).isSbr = true) (r : AddrRange) (hr : r ∈ ni.ranges)
    (a : Int) (h1 : r.start ≤ a) (h2 : a < r.stop) :
    ∃ s ∈ rules, s.range = r ∧ s.dest = subOffset ni.id off ∧ covers s a ∧
      (∀ s' ∈ rules, covers s' a → s'.range.start = r.start ∧ s'.range.stop = r.stop) ∧
      r.stop ≤ (2 : Int) ^ d.addrW := by
  obtain ⟨hrules, hno, hfit, _⟩ := genSam_ok d c off rules h
  subst hrules
  obtain ⟨s, hsm, hsr, hsd⟩ := rule_exists d c off ni hni hs r hr
  refine ⟨s, hsm, hsr, hsd, by unfold covers; rw [hsr]; exact ⟨h1, h2⟩, ?_, by rw [← hsr]; exact hfit s hsm⟩
  intro s' hs' hc'
  -- both rules are members of the overlap-free map, and both cover `a`
  have hvalid : AllValid (samAsMap (samRules d c off)) := by
    intro m hm
    unfold samAsMap at hm
    obtain ⟨t, ht, rfl⟩ := mem_map.1 hm
    obtain ⟨ni', hni', _, hr', _⟩ := rule_origin d c off t ht
    exact hv ni' hni' _ hr'
  have hof := (checkNoOverlap_iff hvalid).1 hno
  let m : MapRule Unit := { dest := (), start := s.range.start, stop := s.range.stop, size := s.range.size }
  let m' : MapRule Unit := { dest := (), start := s'.range.start, stop := s'.range.stop, size := s'.range.size }
  have hm : m ∈ samAsMap (samRules d c off) := mem_map.2 ⟨s, hsm, rfl⟩
  have hm' : m' ∈ samAsMap (samRules d c off) := mem_map.2 ⟨s', hs', rfl⟩
  by_cases heq : m' = m
  · have e1 : s'.range.start = s.range.start := congrArg MapRule.start heq
    have e2 : s'.range.stop = s.range.stop := congrArg MapRule.stop heq
    rw [e1, e2, hsr]; exact ⟨rfl, rfl⟩
  · have := pairwise_forall_ne (fun h => disjoint_symm h) hof m' hm' m hm heq
    unfold MapRule.disjoint at this
    unfold covers at hc'
    simp only [m, m'] at this
    rw [hsr] at this
    omega

end FlooVerif.C01U

/-
  C15 — determinism and CLI modes (model level).  The model of the command is a pure function of the
  raw description and the mode; the package-only / top-only / stdout modes are projections of the
  full run; decoding a mapping does not depend on the order of its keys.  What lives in the Python
  runtime (hash seeds, working directory, byte identity) is covered by the correspondence runs only.
-/
import FlooVerif.Cli
namespace FlooVerif.C15
open FlooVerif Cli Lean

/-- a generation history: descriptions generated earlier in the same process -/
abbrev Hist := List (Mode × Json)

/-- the command as a step of a process that remembers its history -/
def step (h : Hist) (inp : Mode × Json) : Hist × Out := (h ++ [inp], run inp.1 inp.2)

/-- **the result does not depend on what was generated before** -/
theorem out_independent_of_history (h₁ h₂ : Hist) (inp : Mode × Json) :
    (step h₁ inp).2 = (step h₂ inp).2 := rfl

/-- **the modes are views of one result**: each file a partial mode writes is the file of that name
    of the full run, and the printed texts are the full run's file contents in order -/
theorem mode_views (j : Json) :
    (∀ f ∈ (run .onlyPkg j).files, f ∈ (run .full j).files) ∧
    (∀ f ∈ (run .onlyTop j).files, f ∈ (run .full j).files) ∧
    (run .stdout j).stdout = (run .full j).files.map (·.2) ∧
    (run .stdoutOnlyPkg j).stdout = (run .onlyPkg j).files.map (·.2) ∧
    (run .stdoutOnlyTop j).stdout = (run .onlyTop j).files.map (·.2) ∧
    (∀ m, (run m j).status = (run .full j).status) := by
  unfold run runDesc
  cases decodeDesc j with
  | error e => simp
  | ok d =>
    simp only
    cases Model.gen d with
    | error e => simp
    | ok pm => simp [emit]; intro m; cases m <;> rfl

/-- the full run writes exactly the two files named after the description -/
theorem full_files (d : Desc) (p : Sv.Package) (m : Sv.Module) (h : Model.gen d = .ok (p, m)) :
    (runDesc .full d).files = [("floo_" ++ d.name ++ "_noc_pkg.sv", p.render), ("floo_" ++ d.name ++ "_noc.sv", m.render)] := by
  unfold runDesc; rw [h]; rfl

/-- **key order does not matter**: looking a key up in a mapping gives the same value for every
    permutation of its (pairwise distinct) keys -/
theorem getOpt_perm (kvs kvs' : List (String × Json)) (hp : kvs.Perm kvs')
    (hnd : (kvs.map (·.1)).Nodup) (k : String) : getOpt kvs k = getOpt kvs' k := by
  unfold getOpt
  have key : ∀ (l : List (String × Json)), (l.map (·.1)).Nodup → ∀ v, (k, v) ∈ l → l.find? (·.1 == k) = some (k, v) := by
    intro l
    induction l with
    | nil => intro _ v h; cases h
    | cons x xs ih =>
      intro hn v hm
      have hn' := List.nodup_cons.1 (show (x.1 :: xs.map (·.1)).Nodup from hn)
      simp only [List.find?_cons]
      by_cases hx : (x.1 == k) = true
      · have hk : x.1 = k := by simpa using hx
        rcases List.mem_cons.1 hm with rfl | h
        · simp
        · exfalso
          apply hn'.1
          rw [hk]; exact List.mem_map.2 ⟨(k, v), h, rfl⟩
      · rcases List.mem_cons.1 hm with rfl | h
        · simp at hx
        · simp only [hx]; exact ih hn'.2 v h
  have hnd' : (kvs'.map (·.1)).Nodup := (hp.map _).nodup_iff.1 hnd
  cases hf : kvs.find? (·.1 == k) with
  | none =>
    have hnone : kvs'.find? (·.1 == k) = none := by
      rw [List.find?_eq_none] at hf ⊢
      intro x hx; exact hf x (hp.symm.subset hx)
    rw [hnone]
  | some kv =>
    have hmem := List.mem_of_find?_eq_some hf
    have hk : kv.1 = k := by simpa using List.find?_some hf
    obtain ⟨k', v⟩ := kv
    simp only at hk; subst hk
    rw [key kvs' hnd' v (hp.subset hmem)]

end FlooVerif.C15

/-
  Model of floogen/model/routing.py: RouteMap (check_no_overlapping_ranges, trim).
  `sorted()` is a stable sort by `start` (RouteMapRule.__lt__), modelled by core's
  `List.mergeSort`; the `rules_by_dest` dict keeps first-occurrence order of destinations.
-/
namespace FlooVerif

structure MapRule (δ : Type) where
  dest : δ
  start : Int
  stop : Int
  size : Int
  desc : Option String := none
  deriving Repr, DecidableEq, Inhabited

namespace MapRule
variable {δ : Type}

def covers (r : MapRule δ) (i : Int) : Prop := r.start ≤ i ∧ i < r.stop
instance (r : MapRule δ) (i : Int) : Decidable (r.covers i) := by unfold covers; exact inferInstance

def valid (r : MapRule δ) : Prop := r.start < r.stop
instance (r : MapRule δ) : Decidable r.valid := by unfold valid; exact inferInstance

def disjoint (a b : MapRule δ) : Prop := a.stop ≤ b.start ∨ b.stop ≤ a.start
instance (a b : MapRule δ) : Decidable (disjoint a b) := by unfold disjoint; exact inferInstance

def le (a b : MapRule δ) : Bool := decide (a.start ≤ b.start)

end MapRule

def sortRules {δ : Type} (l : List (MapRule δ)) : List (MapRule δ) := l.mergeSort MapRule.le

/-- `check_no_overlapping_ranges`: sort by start, compare neighbours -/
def adjacentOk {δ : Type} : List (MapRule δ) → Bool
  | a :: b :: rest => decide (a.stop ≤ b.start) && adjacentOk (b :: rest)
  | _ => true

def checkNoOverlap {δ : Type} (l : List (MapRule δ)) : Bool := adjacentOk (sortRules l)

/-- the `while` loop of `trim` over one destination's sorted rules -/
def mergeAdj {δ : Type} : List (MapRule δ) → List (MapRule δ)
  | a :: b :: rest =>
    if a.stop = b.start then
      mergeAdj ({ a with stop := b.stop, size := b.stop - a.start } :: rest)
    else a :: mergeAdj (b :: rest)
  | l => l
termination_by l => l.length

/-- destinations in first-occurrence order (insertion order of `rules_by_dest`) -/
def destsOf {δ : Type} [DecidableEq δ] : List (MapRule δ) → List δ
  | [] => []
  | r :: rs => r.dest :: (destsOf rs).filter (· ≠ r.dest)

def trim {δ : Type} [DecidableEq δ] (l : List (MapRule δ)) : List (MapRule δ) :=
  (destsOf l).flatMap fun d => mergeAdj (sortRules (l.filter (·.dest = d)))

/-- what a table decodes: destination of the first rule covering `i` -/
def decode {δ : Type} (l : List (MapRule δ)) (i : Int) : Option δ :=
  (l.find? fun r => decide (r.covers i)).map (·.dest)

end FlooVerif

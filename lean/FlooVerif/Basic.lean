def hello := "world"

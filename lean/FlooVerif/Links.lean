/-
  The topology a description denotes, written from docs/floogen.md: router arrays and trees,
  and the pairing of source and destination selections of every connection entry.
  Units are named as the emitted instances are: routers by node name, endpoints by the name
  of their network interface.
-/
import FlooVerif.Expect
namespace FlooVerif

/-- `a, a±1, …, b` inclusive -/
def seqIncl (a b : Int) : List Int :=
  if a ≤ b then (List.range (b - a).toNat.succ).map fun (i : Nat) => a + (i : Int)
  else (List.range (a - b).toNat.succ).map fun (i : Nat) => a - (i : Int)

/-- cartesian product, first dimension outermost -/
def cartesian : List (List Int) → List (List Int)
  | [] => [[]]
  | xs :: rest => xs.flatMap fun x => (cartesian rest).map fun t => x :: t

def intSuffix (idx : List Int) : String :=
  String.join (idx.map fun i => "_" ++ toString i)

/-- router nodes a router description creates, with their level (trees) -/
def RtDesc.nodes (r : RtDesc) : List (String × List Nat) :=
  match r.array, r.tree with
  | none, none => [(r.name, [])]
  | some dims, none =>
    (cartesian (dims.map fun n => (List.range n).map Int.ofNat)).map fun t =>
      (r.name ++ intSuffix t, t.map Int.toNat)
  | none, some tree =>
    -- all prefixes of index tuples
    (List.range tree.length).flatMap fun lvl =>
      (cartesian ((tree.take (lvl + 1)).map fun n => (List.range n).map Int.ofNat)).map fun t =>
        (r.name ++ intSuffix t, t.map Int.toNat)
  | some _, some _ => []

def Desc.routerNodes (d : Desc) : List String := d.routers.flatMap fun r => r.nodes.map (·.1)

def Desc.epNodes (d : Desc) : List (String × EpInst) :=
  d.instances.map fun i => (i.epNodeName, i)

/-- unit name as emitted: an endpoint node is represented by its network interface -/
def Desc.unitOf (d : Desc) (node : String) : String :=
  match d.epNodes.find? (·.1 == node) with
  | some (_, i) => i.niName
  | none => node

def Desc.nodeExists (d : Desc) (node : String) : Bool :=
  d.routerNodes.contains node || d.epNodes.any (·.1 == node)

structure LinkSpec where
  a : String
  b : String
  aPort : Option Nat
  bPort : Option Nat
  deriving Repr, DecidableEq, Inhabited

/-- nodes of tree `base` at level `lvl`, in creation order -/
def Desc.lvlNodes (d : Desc) (base : String) (lvl : Int) : List String :=
  d.routers.flatMap fun r =>
    if r.name == base then
      match r.tree with
      | some tree =>
        if 0 ≤ lvl ∧ lvl.toNat < tree.length then
          (cartesian ((tree.take (lvl.toNat + 1)).map fun n => (List.range n).map Int.ofNat)).map
            fun t => r.name ++ intSuffix t
        else []
      | none => []
    else []

/-- the nodes one side of a connection selects (none: the selection is invalid) -/
def Desc.select (d : Desc) (base : String) (idx : Option (List Int)) (rng : Option (List (Int × Int)))
    (lvl : Option Int) : Option (List String) :=
  match idx, rng, lvl with
  | none, none, none => some [base]
  | some i, none, none => some [base ++ intSuffix i]
  | none, some r, none =>
    if r.isEmpty then none else
    some ((cartesian (r.map fun (a, b) => seqIncl a b)).map fun t => base ++ intSuffix t)
  | none, none, some l => some (d.lvlNodes base l)
  | _, _, _ => none

/-- pairing of the two selections: equal lengths pair up in order; with `allow_multi` the
    shorter side is repeated in contiguous groups -/
def pairUp (srcs dsts : List String) (multi : Bool) : Option (List (String × String)) :=
  let ns := srcs.length
  let nd := dsts.length
  if ns == nd then some (srcs.zip dsts)
  else if multi && nd != 0 && ns % nd == 0 && ns > nd then
    let k := ns / nd
    some (srcs.zipIdx.map fun (s, i) => (s, dsts.getD (i / k) ""))
  else if multi && ns != 0 && nd % ns == 0 && nd > ns then
    let k := nd / ns
    some (dsts.zipIdx.map fun (t, i) => (srcs.getD (i / k) "", t))
  else none

def dirE : Nat := 1
def dirW : Nat := 3
def dirN : Nat := 0
def dirS : Nat := 2

/-- links inside router arrays and trees -/
def RtDesc.autoLinks (r : RtDesc) : List LinkSpec :=
  if !r.autoConnect then [] else
  match r.array, r.tree with
  | some [n], none =>
    (List.range (n - 1)).map fun i =>
      { a := r.name ++ "_" ++ toString i, b := r.name ++ "_" ++ toString (i + 1), aPort := none, bPort := none }
  | some [m, n], none =>
    (List.range m).flatMap fun i => (List.range n).flatMap fun j =>
      let me := r.name ++ "_" ++ toString i ++ "_" ++ toString j
      (if i + 1 < m then
        [{ a := me, b := r.name ++ "_" ++ toString (i + 1) ++ "_" ++ toString j,
           aPort := some dirE, bPort := some dirW : LinkSpec }] else []) ++
      (if j + 1 < n then
        [{ a := me, b := r.name ++ "_" ++ toString i ++ "_" ++ toString (j + 1),
           aPort := some dirN, bPort := some dirS : LinkSpec }] else [])
  | none, some _ =>
    (r.nodes.filter (fun (_, t) => t.length ≥ 2)).map fun (nm, t) =>
      { a := r.name ++ intSuffix ((t.take (t.length - 1)).map Int.ofNat), b := nm,
        aPort := none, bPort := none }
  | _, _ => []

/-- links of one connection entry (none: the entry is invalid) -/
def Desc.connLinks (d : Desc) (c : ConnDesc) : Option (List LinkSpec) := do
  let srcs ← d.select c.src c.srcIdx c.srcRange c.srcLvl
  let dsts ← d.select c.dst c.dstIdx c.dstRange c.dstLvl
  if !(srcs.all d.nodeExists && dsts.all d.nodeExists) then none
  let pairs ← pairUp srcs dsts c.allowMulti
  pure (pairs.map fun (s, t) =>
    { a := d.unitOf s, b := d.unitOf t, aPort := c.srcDir, bPort := c.dstDir })

def Desc.links (d : Desc) : Option (List LinkSpec) := do
  let cl ← d.connections.mapM d.connLinks
  pure (d.routers.flatMap RtDesc.autoLinks ++ cl.flatten)

end FlooVerif

/-
  Decoding of the raw description (YAML tree as JSON) into `Desc`, mirroring the pydantic
  schema of floogen: unknown keys rejected, `array: n` ↦ `[n]`, `*_idx: n` ↦ `[n]`,
  direction names (any case) ↦ numbers, a single `addr_range` mapping ↦ one-element list.
  Only the executable driver uses this file.
-/
import Lean.Data.Json
import FlooVerif.Desc
namespace FlooVerif
open Lean

inductive Err where
  | schema (msg : String)
  | range (msg : String)
  | overlap (msg : String)
  | names (msg : String)
  | protocol (msg : String)
  | selector (msg : String)
  | count (msg : String)
  | dupEdge (msg : String)
  | portConflict (msg : String)
  | unconnected (msg : String)
  | noDirection (msg : String)
  | internal (msg : String)
  deriving Repr, Inhabited

def Err.cls : Err → String
  | .schema _ => "schema" | .range _ => "range" | .overlap _ => "overlap" | .names _ => "names"
  | .protocol _ => "protocol" | .selector _ => "selector" | .count _ => "count"
  | .dupEdge _ => "dupEdge" | .portConflict _ => "portConflict" | .unconnected _ => "unconnected"
  | .noDirection _ => "noDirection" | .internal _ => "internal"

def Err.msg : Err → String
  | .schema m | .range m | .overlap m | .names m | .protocol m | .selector m | .count m
  | .dupEdge m | .portConflict m | .unconnected m | .noDirection m | .internal m => m

abbrev D := Except Err

def schemaErr {α} (m : String) : D α := throw (.schema m)

def objKeys (j : Json) : D (List (String × Json)) :=
  match j with
  | .obj kvs => pure (kvs.toList.map fun ⟨k, v⟩ => (k, v))
  | _ => schemaErr "expected a mapping"

def checkKeys (kvs : List (String × Json)) (allowed : List String) : D Unit :=
  match kvs.find? (fun (k, _) => !allowed.contains k) with
  | some (k, _) => schemaErr s!"unknown field {k}"
  | none => pure ()

def getOpt (kvs : List (String × Json)) (k : String) : Option Json :=
  match kvs.find? (·.1 == k) with
  | some (_, .null) => none
  | some (_, v) => some v
  | none => none

def getReq (kvs : List (String × Json)) (k : String) : D Json :=
  match getOpt kvs k with
  | some v => pure v
  | none => schemaErr s!"missing field {k}"

def asInt (j : Json) : D Int :=
  match j with
  | .num n => if n.exponent == 0 then pure n.mantissa else schemaErr "expected an integer"
  | _ => schemaErr "expected an integer"

def asNat (j : Json) : D Nat := do
  let i ← asInt j
  if i < 0 then schemaErr "expected a non-negative integer" else pure i.toNat

def asStr (j : Json) : D String :=
  match j with
  | .str s => pure s
  | _ => schemaErr "expected a string"

def asBool (j : Json) : D Bool :=
  match j with
  | .bool b => pure b
  | _ => schemaErr "expected a boolean"

def asList (j : Json) : D (List Json) :=
  match j with
  | .arr a => pure a.toList
  | _ => schemaErr "expected a list"

def optM {α} (o : Option Json) (f : Json → D α) : D (Option α) :=
  match o with
  | none => pure none
  | some j => some <$> f j

def dirOfString (s : String) : D Nat :=
  match s.toUpper with
  | "NORTH" => pure 0 | "EAST" => pure 1 | "SOUTH" => pure 2 | "WEST" => pure 3 | "EJECT" => pure 4
  | _ => schemaErr s!"unknown direction {s}"

def asDir (j : Json) : D Nat :=
  match j with
  | .str s => dirOfString s
  | _ => asNat j

def asIntListOrInt (j : Json) : D (List Int) :=
  match j with
  | .arr a => a.toList.mapM asInt
  | _ => do pure [← asInt j]

def asArray (j : Json) : D (List Nat) := do
  let l ← match j with
    | .arr a => a.toList.mapM asNat
    | _ => do pure [← asNat j]
  if l.length == 1 || l.length == 2 then pure l else schemaErr "array must have 1 or 2 dimensions"

def asPair (j : Json) : D (Int × Int) := do
  match (← asList j) with
  | [a, b] => pure (← asInt a, ← asInt b)
  | _ => schemaErr "expected a pair"

def asXY (j : Json) : D (Int × Int) := do
  let kvs ← objKeys j
  pure (← asInt (← getReq kvs "x"), ← asInt (← getReq kvs "y"))

/-- `EndpointDesc.dict_to_coord_obj`: a mapping with `x` and `y` becomes a coordinate, anything else
    (a number, a list, a mapping without both keys) falls through the `match` and is dropped -/
def asXYLenient (j : Json) : D (Option (Int × Int)) :=
  match objKeys j with
  | .ok kvs =>
    match getOpt kvs "x", getOpt kvs "y" with
    | some x, some y => do pure (some (← asInt x, ← asInt y))
    | _, _ => pure none
  | .error _ => pure none

def decodeRange (j : Json) : D RangeSpec := do
  let kvs ← objKeys j
  checkKeys kvs ["start", "end", "size", "base", "idx", "desc"]
  pure { start := ← optM (getOpt kvs "start") asInt, stop := ← optM (getOpt kvs "end") asInt,
         size := ← optM (getOpt kvs "size") asInt, base := ← optM (getOpt kvs "base") asInt,
         idx := ← optM (getOpt kvs "idx") asInt, desc := ← optM (getOpt kvs "desc") asStr }

def decodeProt (j : Json) : D ProtDesc := do
  let kvs ← objKeys j
  -- ProtocolDesc has no extra="forbid": unknown keys are ignored by pydantic
  let protocol ← asStr (← getReq kvs "protocol")
  if protocol != "AXI4" then schemaErr "protocol must be AXI4"
  let ty ← optM (getOpt kvs "type") asStr
  if let some t := ty then
    if t != "narrow" && t != "wide" then schemaErr "type must be narrow|wide"
  let typePrefix ←
    match kvs.find? (·.1 == "type_prefix") with
    | none => pure (some "axi")
    | some (_, .null) => pure none
    | some (_, v) => some <$> asStr v
  pure { name := ← asStr (← getReq kvs "name"), type := ty,
         dataW := ← asNat (← getReq kvs "data_width"), addrW := ← asNat (← getReq kvs "addr_width"),
         idW := ← asNat (← getReq kvs "id_width"), userW := ← asNat (← getReq kvs "user_width"),
         typePrefix := typePrefix, direction := ← optM (getOpt kvs "direction") asStr }

def decodeEp (j : Json) : D EpDesc := do
  let kvs ← objKeys j
  checkKeys kvs ["name", "description", "array", "num", "addr_range", "xy_id_offset",
                 "mgr_port_protocol", "sbr_port_protocol"]
  let ranges ←
    match kvs.find? (·.1 == "addr_range") with
    | none => pure []
    | some (_, .arr a) => a.toList.mapM decodeRange
    | some (_, v) => do pure [← decodeRange v]
  pure { name := ← asStr (← getReq kvs "name"),
         array := ← optM (getOpt kvs "array") asArray,
         ranges := ranges,
         mgr := ← optM (getOpt kvs "mgr_port_protocol") (fun j => do (← asList j).mapM asStr),
         sbr := ← optM (getOpt kvs "sbr_port_protocol") (fun j => do (← asList j).mapM asStr),
         xyOffset := (← optM (getOpt kvs "xy_id_offset") asXYLenient).join }

def decodeRt (j : Json) : D RtDesc := do
  let kvs ← objKeys j
  checkKeys kvs ["name", "array", "tree", "xy_id_offset", "auto_connect", "degree"]
  pure { name := ← asStr (← getReq kvs "name"),
         array := ← optM (getOpt kvs "array") asArray,
         tree := ← optM (getOpt kvs "tree") (fun j => match j with
            | .arr a => a.toList.mapM asNat
            | _ => do pure [← asNat j]),
         xyOffset := ← optM (getOpt kvs "xy_id_offset") asXY,
         autoConnect := (← optM (getOpt kvs "auto_connect") asBool).getD true,
         degree := ← optM (getOpt kvs "degree") asNat }

def decodeConn (j : Json) : D ConnDesc := do
  let kvs ← objKeys j
  checkKeys kvs ["description", "src", "dst", "src_range", "dst_range", "src_idx", "dst_idx",
                 "src_lvl", "dst_lvl", "dst_dir", "src_dir", "allow_multi", "bidirectional"]
  let rng (k : String) : D (Option (List (Int × Int))) :=
    optM (getOpt kvs k) fun j => do (← asList j).mapM asPair
  let c : ConnDesc :=
       { src := ← asStr (← getReq kvs "src"), dst := ← asStr (← getReq kvs "dst"),
         srcRange := ← rng "src_range", dstRange := ← rng "dst_range",
         srcIdx := ← optM (getOpt kvs "src_idx") asIntListOrInt,
         dstIdx := ← optM (getOpt kvs "dst_idx") asIntListOrInt,
         srcLvl := ← optM (getOpt kvs "src_lvl") asInt, dstLvl := ← optM (getOpt kvs "dst_lvl") asInt,
         srcDir := ← optM (getOpt kvs "src_dir") asDir, dstDir := ← optM (getOpt kvs "dst_dir") asDir,
         allowMulti := (← optM (getOpt kvs "allow_multi") asBool).getD false,
         bidirectional := (← optM (getOpt kvs "bidirectional") asBool).getD true }
  pure c

def decodeAlgo (s : String) : D Algo :=
  match s with
  | "XY" => pure .XY | "YX" => pure .YX | "ID" => pure .ID | "SRC" => pure .SRC
  | _ => schemaErr s!"unknown route_algo {s}"

def decodeDesc (j : Json) : D Desc := do
  let kvs ← objKeys j
  checkKeys kvs ["name", "description", "network_type", "protocols", "endpoints", "routers",
                 "connections", "graph", "routing"]
  -- `description` is Optional without default: required key (may be null)
  if (kvs.find? (·.1 == "description")).isNone then schemaErr "missing field description"
  let nt ← asStr (← getReq kvs "network_type")
  let netType ← match nt with
    | "axi" => pure NetType.axi
    | "narrow-wide" => pure NetType.nw
    | _ => schemaErr "network_type must be axi|narrow-wide"
  let rkvs ← objKeys (← getReq kvs "routing")
  checkKeys rkvs ["route_algo", "use_id_table", "sam", "table", "addr_offset_bits", "xy_id_offset",
                  "num_endpoints", "num_id_bits", "num_x_bits", "num_y_bits", "num_route_bits",
                  "addr_width", "rob_idx_bits", "port_id_bits", "num_vc_id_bits"]
  let algo ← decodeAlgo (← asStr (← getReq rkvs "route_algo"))
  pure { name := ← asStr (← getReq kvs "name"), netType := netType, algo := algo,
         useIdTable := (← optM (getOpt rkvs "use_id_table") asBool).getD true,
         addrOffsetBits := ← optM (getOpt rkvs "addr_offset_bits") asNat,
         robIdxBits := (← optM (getOpt rkvs "rob_idx_bits") asNat).getD 1,
         portIdBits := (← optM (getOpt rkvs "port_id_bits") asNat).getD 1,
         numVcIdBits := (← optM (getOpt rkvs "num_vc_id_bits") asNat).getD 0,
         protocols := ← (← asList (← getReq kvs "protocols")).mapM decodeProt,
         endpoints := ← (← asList (← getReq kvs "endpoints")).mapM decodeEp,
         routers := ← (← asList (← getReq kvs "routers")).mapM decodeRt,
         connections := ← (← asList (← getReq kvs "connections")).mapM decodeConn }

end FlooVerif

/-
  A small statement / expression tree for the `always_comb` blocks of hw/floo_route_select.sv that decide
  where a flit goes, and its evaluation.  The trees themselves are regenerated from the RTL on every run
  (harness/rtl_tie.py → Gen/RtlFacts.lean); Props/HwTie.lean proves that they compute what the hand-written
  hardware semantics of Hw.lean computes.
-/
namespace FlooVerif.Rtl

/-- binary operators of the fragment -/
inductive Op where | add | sub | eq | ne | lt | le | gt | ge | land | lor | shr | shl | mul
  deriving Repr, DecidableEq, Inhabited

/-- expressions over names of type `ν` (an enumeration generated together with the tree: the names the
    block mentions, e.g. `id_in.x`, `channel_i.hdr.dst_id`) -/
inductive RE (ν : Type) where
  | v (name : ν)
  | n (val : Nat)
  | bin (op : Op) (a b : RE ν)
  | slice (a hi lo : RE ν)            -- a[hi:lo]
  | idx (a i : RE ν)                  -- a[i]
  | field (a : RE ν) (f : String)
  | cast (ty : String) (a : RE ν)     -- ty'(a)
  | call (f : String) (args : List (RE ν))
  deriving Repr, Inhabited

inductive RS (ν : Type) where
  | assign (lhs rhs : RE ν)
  | ite (c : RE ν) (t e : List (RS ν))
  deriving Repr, Inhabited

abbrev Env (ν : Type) := ν → Option Int

def Env.set {ν : Type} [DecidableEq ν] (env : Env ν) (k : ν) (v : Option Int) : Env ν :=
  fun s => if s = k then v else env s

@[simp] theorem Env.set_same {ν : Type} [DecidableEq ν] (env : Env ν) (k : ν) (v : Option Int) :
    (env.set k v) k = v := by simp [Env.set]

theorem Env.set_ne {ν : Type} [DecidableEq ν] (env : Env ν) {k s : ν} (v : Option Int) (h : s ≠ k) :
    (env.set k v) s = env s := by simp [Env.set, h]

def b2i (b : Bool) : Int := if b then 1 else 0

def evalOp (op : Op) (x y : Int) : Option Int :=
  match op with
  | .add => some (x + y)
  | .sub => some (x - y)
  | .mul => some (x * y)
  | .eq => some (b2i (x == y))
  | .ne => some (b2i (x != y))
  | .lt => some (b2i (decide (x < y)))
  | .le => some (b2i (decide (x ≤ y)))
  | .gt => some (b2i (decide (x > y)))
  | .ge => some (b2i (decide (x ≥ y)))
  | .land => some (b2i (x != 0 && y != 0))
  | .lor => some (b2i (x != 0 || y != 0))
  | .shr => if 0 ≤ x ∧ 0 ≤ y then some (x / (2 : Int) ^ y.toNat) else none
  | .shl => if 0 ≤ x ∧ 0 ≤ y then some (x * (2 : Int) ^ y.toNat) else none

/-- values are integers; a comparison yields 1 or 0; what the evaluator does not understand is `none` -/
def eval {ν : Type} (env : Env ν) : RE ν → Option Int
  | .v name => env name
  | .n k => some k
  | .cast _ a => eval env a
  | .bin op a b =>
    match eval env a, eval env b with
    | some x, some y => evalOp op x y
    | _, _ => none
  | .slice a hi lo =>
    match eval env a, eval env hi, eval env lo with
    | some x, some h, some l =>
      if 0 ≤ x ∧ 0 ≤ l ∧ l ≤ h + 1 then some ((x / (2 : Int) ^ l.toNat) % (2 : Int) ^ (h + 1 - l).toNat) else none
    | _, _, _ => none
  | .idx _ _ => none
  | .field _ _ => none
  | .call _ _ => none

mutual
/-- an assignment to a plain name records the value (or that it is not understood); other left-hand
    sides (`route_sel[i]`, a field of an indexed value) do not touch what is tracked -/
def exec {ν : Type} [DecidableEq ν] (env : Env ν) : RS ν → Env ν
  | .assign (.v name) rhs => env.set name (eval env rhs)
  | .assign _ _ => env
  | .ite c t e =>
    match eval env c with
    | some x => if x != 0 then execList env t else execList env e
    | none => fun _ => none            -- an undecidable condition poisons everything
def execList {ν : Type} [DecidableEq ν] (env : Env ν) : List (RS ν) → Env ν
  | [] => env
  | s :: rest => execList (exec env s) rest
end

structure RtlFacts where
  xyRest : List String                 -- the rest of the XY branch (id_in, pass-through of the flit)
  routeSelWidth : List String          -- default of the parameter RouteSelWidth, as tokens
  branches : List (List String)        -- the conditions on RouteAlgo that select the branches, in order
  idBlock : List String                -- gen_id_table
  routerSelect : List String           -- floo_router: instantiation of floo_route_select
  routerMask : List String             -- floo_router: loop-back and Y→X masking of the routes
  compCond : List String               -- floo_route_comp: when the table is used
  compTable : List String              -- floo_route_comp: gen_table_routing
  compRoute : List String              -- floo_route_comp: gen_route
  routerDefaults : List String         -- floo_router: defaults of XYRouteOpt and NoLoopback
  chimneyComp : List (List String)     -- every instantiation of floo_route_comp in the two chimneys (file name first)
  chimneyIds : List (List String)      -- chimneys: every statement about the source/destination identity of a flit
  compAll : List String                -- floo_route_comp, whole
  tbJobs : List (List String)          -- mesh testbenches: Index / JobId / MemBaseAddr and the loops around them
  setPorts : List String               -- floo_pkg::set_ports
  axiRouter : List String              -- floo_axi_router, whole
  nwRouter : List String               -- floo_nw_router, whole
  selectAll : List String              -- floo_route_select, whole
  routerAll : List String              -- floo_router, whole
  axiChimney : List String             -- floo_axi_chimney, whole
  nwChimney : List String              -- floo_nw_chimney, whole
  deriving Inhabited

end FlooVerif.Rtl

/-
  Model of util/gen_jobs.py: gen_mesh_traffic.  Constants and the two base-address expressions are
  not copied by hand: they are the regenerated `Gen.jobs*` facts (translated from the source).
-/
import FlooVerif.Gen.JobsFacts
namespace FlooVerif.Jobs
open FlooVerif

def NX : Nat := Gen.jobsNumX
def NY : Nat := Gen.jobsNumY
def MEM : Nat := Gen.jobsMemSize

def xyAddr (x y : Nat) : Nat := Gen.jobsXyBase.eval [("x", x), ("y", y)]
def hbmAddr (c : Nat) : Nat := Gen.jobsHbmBaseAddr.eval [("ch", c)]

inductive Target where
  | tile (x y : Nat)
  | hbm (c : Nat)
  | zero                      -- `onehop`: every tile but (0,0) issues empty transfers at address 0
  deriving Repr, DecidableEq, Inhabited

def Target.addr : Target → Nat
  | .tile x y => xyAddr x y
  | .hbm c => hbmAddr c
  | .zero => 0

inductive Traffic where
  | hbm | uniform (rx ry : Nat) | onehop | bitComplement | bitReverse | bitRotation | neighbor
  | shuffle | transpose | tornado | hotspotBoundary | hotspot | matmul
  deriving Repr, DecidableEq, Inhabited

def clog2 (x : Nat) : Nat := if x ≤ 1 then 0 else Nat.log2 (x - 1) + 1

/-- the bit-reversal loop of the `bit_reverse` pattern -/
def bitReverse (straight : Nat) (numBits : Nat) : Nat :=
  let rec go : Nat → Nat → Nat → Nat
    | 0, _, rev => rev
    | n + 1, s, rev => let s' := s / 2; go n s' (rev * 2 + s' % 2)
  go (numBits - 1) straight (straight % 2)

structure Access where
  ext : Target
  isRead : Bool
  len : Nat
  deriving Repr, DecidableEq, Inhabited

/-- accesses of tile (x, y): (external address, direction, length) -/
def accesses (t : Traffic) (x y wl : Nat) (rwRead : Bool) : List Access :=
  let one (e : Target) := [{ ext := e, isRead := rwRead, len := wl : Access }]
  match t with
  | .hbm => one (.hbm y)
  | .uniform rx ry => one (.tile rx ry)
  | .onehop => if x == 0 && y == 0 then one (.tile x (y + 1)) else [{ ext := .zero, isRead := rwRead, len := 0 }]
  | .bitComplement => one (.tile (NX - x - 1) (NY - y - 1))
  | .bitReverse => let r := bitReverse (x * NY + y) (clog2 (NX * NY)); one (.tile (r % NX) (r / NX))
  | .bitRotation =>
    let s := x * NY + y
    let e := if s % 2 == 0 then s / 2 else s / 2 + (NX * NY) / 2
    one (.tile (e % NX) (e / NX))
  | .neighbor => one (.tile ((x + 1) % NX) y)
  | .shuffle =>
    let s := x * NY + y
    let e := if s < (NX * NY) / 2 then s * 2 else s * 2 - NX * NY + 1
    one (.tile (e % NX) (e / NX))
  | .transpose =>
    if NX == NY then one (.tile y x)
    else if NY > NX then one (.tile (y - (y / NX) * NX) (x + (y / NX) * NX))
    else one (.tile (y + (x / NY) * NY) (x - (x / NY) * NY))
  | .tornado => one (.tile ((x + (NX + 1) / 2 - 1) % NX) y)
  | .hotspotBoundary => one (.hbm (NY / 2))
  | .hotspot => one (.tile (NX / 2) (NY / 2))
  | .matmul =>
    [{ ext := .hbm y, isRead := true, len := wl / 2 }] ++
    (List.range NY).map (fun i => { ext := .hbm ((y + i) % NY), isRead := true, len := (wl / 2) / NY }) ++
    [{ ext := .hbm y, isRead := false, len := wl / 4 }]

structure Job where
  len : Nat
  src : Nat
  dst : Nat
  deriving Repr, DecidableEq, Inhabited

/-- local address of tile (x,y) as the generator uses it -/
def localAddr (t : Traffic) (x y : Nat) : Nat :=
  match t with
  | .onehop => if x == 0 && y == 0 then xyAddr x y else 0
  | _ => xyAddr x y

def jobsOfTile (t : Traffic) (x y wl : Nat) (rwRead : Bool) (bursts : Nat) : List Job :=
  (List.range bursts).flatMap fun _ =>
    (accesses t x y wl rwRead).map fun a =>
      let loc := localAddr t x y
      { len := a.len, src := if a.isRead then a.ext.addr else loc, dst := if a.isRead then loc else a.ext.addr }

end FlooVerif.Jobs

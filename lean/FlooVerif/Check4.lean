/-
  C20 (package manifests) and the static table of what the templates bind (C11), decided over the
  regenerated facts.
-/
import FlooVerif.Check3
namespace FlooVerif

namespace C11

structure TemplateUse where
  mod : String
  params : List String
  ports : List String
  deriving Repr, DecidableEq, Inhabited

/-- every parameter / port any branch of the four instantiation templates binds -/
def templateUses : List TemplateUse := [
  { mod := "floo_axi_chimney",
    params := ["AxiCfg", "ChimneyCfg", "RouteCfg", "id_t", "rob_idx_t", "route_t", "dst_t", "hdr_t", "sam_rule_t",
               "Sam", "axi_in_req_t", "axi_in_rsp_t", "axi_out_req_t", "axi_out_rsp_t", "floo_req_t", "floo_rsp_t"],
    ports := ["clk_i", "rst_ni", "test_enable_i", "sram_cfg_i", "axi_in_req_i", "axi_in_rsp_o", "axi_out_req_o",
              "axi_out_rsp_i", "id_i", "route_table_i", "floo_req_o", "floo_rsp_i", "floo_req_i", "floo_rsp_o"] },
  { mod := "floo_nw_chimney",
    params := ["AxiCfgN", "AxiCfgW", "ChimneyCfgN", "ChimneyCfgW", "RouteCfg", "id_t", "rob_idx_t", "route_t", "dst_t",
               "hdr_t", "sam_rule_t", "Sam", "axi_narrow_in_req_t", "axi_narrow_in_rsp_t", "axi_narrow_out_req_t",
               "axi_narrow_out_rsp_t", "axi_wide_in_req_t", "axi_wide_in_rsp_t", "axi_wide_out_req_t",
               "axi_wide_out_rsp_t", "floo_req_t", "floo_rsp_t", "floo_wide_t"],
    ports := ["clk_i", "rst_ni", "test_enable_i", "sram_cfg_i", "axi_narrow_in_req_i", "axi_narrow_in_rsp_o",
              "axi_narrow_out_req_o", "axi_narrow_out_rsp_i", "axi_wide_in_req_i", "axi_wide_in_rsp_o",
              "axi_wide_out_req_o", "axi_wide_out_rsp_i", "id_i", "route_table_i", "floo_req_o", "floo_rsp_i",
              "floo_wide_o", "floo_req_i", "floo_rsp_o", "floo_wide_i"] },
  { mod := "floo_axi_router",
    params := ["AxiCfg", "RouteAlgo", "NumRoutes", "NumInputs", "NumOutputs", "InFifoDepth", "OutFifoDepth", "id_t",
               "hdr_t", "NumAddrRules", "addr_rule_t", "floo_req_t", "floo_rsp_t"],
    ports := ["clk_i", "rst_ni", "test_enable_i", "id_i", "id_route_map_i", "floo_req_i", "floo_rsp_o", "floo_req_o",
              "floo_rsp_i"] },
  { mod := "floo_nw_router",
    params := ["AxiCfgN", "AxiCfgW", "RouteAlgo", "NumRoutes", "NumInputs", "NumOutputs", "InFifoDepth", "OutFifoDepth",
               "id_t", "hdr_t", "NumAddrRules", "addr_rule_t", "floo_req_t", "floo_rsp_t", "floo_wide_t"],
    ports := ["clk_i", "rst_ni", "test_enable_i", "id_i", "id_route_map_i", "floo_req_i", "floo_rsp_o", "floo_req_o",
              "floo_rsp_i", "floo_wide_i", "floo_wide_o"] }]

/-- macros the package template invokes, with their argument counts -/
def macroUses : List (String × Nat) :=
  [("`FLOO_TYPEDEF_HDR_T", 5), ("`FLOO_TYPEDEF_VC_HDR_T", 6), ("`FLOO_TYPEDEF_NW_CHAN_ALL", 9),
   ("`FLOO_TYPEDEF_NW_LINK_ALL", 6), ("`FLOO_TYPEDEF_AXI_CHAN_ALL", 6), ("`FLOO_TYPEDEF_AXI_LINK_ALL", 4)]

/-- the shipped RTL offers everything the templates bind, and every input is bound -/
def hwOffers (hw : HwFacts) : Bool :=
  templateUses.all fun u =>
    match hw.modules.find? (·.name == u.mod) with
    | none => false
    | some m =>
      u.params.all (m.params.contains ·) && u.ports.all (fun p => m.ports.any (·.name == p)) &&
      m.ports.all fun mp => mp.dir != "input" || u.ports.contains mp.name

def hwMacros (hw : HwFacts) : Bool :=
  macroUses.all fun (n, k) => (hw.macros.find? (·.name == n)).map (·.params.length) == some k

def hwPkgNames (hw : HwFacts) (py : PyFacts) : Bool :=
  (structFields hw "route_cfg_t") == ["RouteAlgo", "UseIdTable", "XYAddrOffsetX", "XYAddrOffsetY", "IdAddrOffset",
                                       "NumSamRules", "NumRoutes"] &&
  ["AddrWidth", "DataWidth", "UserWidth", "InIdWidth", "OutIdWidth"].all ((structFields hw "axi_cfg_t").contains ·) &&
  (structFields hw "axi_cfg_t").length == 5 &&
  (hw.funcs.find? (·.name == "set_ports")).map (·.arity) == some 3 &&
  hw.params.contains "ChimneyDefaultCfg" &&
  -- every routing algorithm value the generator can emit is a member of route_algo_e
  (py.routeAlgo.filter (fun (n, _) => n != "YX")).all (fun (_, v) => (enumMembers hw "route_algo_e").any (·.1 == v)) &&
  -- compass numbering
  ((enumMembers hw "route_direction_e").filter (·.1 != "NumDirections")).map (fun (n, v) => (n.toUpper, v)) == py.xyDirections &&
  -- unit vectors: North = +y, East = +x, South = -y, West = -x, Eject = 0
  py.xyToCoords == [(0, 0, 1), (1, 1, 0), (2, 0, -1), (3, -1, 0), (4, 0, 0)]

/-- an emitted instance stays inside the static table (ties the table to the real templates) -/
def instInTable (i : Inst) : Bool :=
  match templateUses.find? (·.mod == i.mod) with
  | none => false
  | some u => i.params.all (fun (p, _) => u.params.contains p) && i.binds.all (fun b => u.ports.contains b.port)

end C11

namespace C20

def generatedNames (mf : ManifestFacts) : List String :=
  mf.examples.flatMap fun (_, name) => mf.cliNamePatterns.map fun (pre, suf) => mf.makeOutDir ++ "/" ++ pre ++ name ++ suf

/-- the words of a target expression (`all(floo_test, axi_mesh)` ↦ all, floo_test, axi_mesh) -/
def splitWords : List Char → List Char → List String
  | [], cur => if cur.isEmpty then [] else [String.ofList cur.reverse]
  | c :: cs, cur =>
    if c.isAlphanum || c == '_' then splitWords cs (c :: cur)
    else (if cur.isEmpty then [] else [String.ofList cur.reverse]) ++ splitWords cs []

def targetWords (t : String) : List String := splitWords t.toList []

/-- a generated file may only be listed under a target (fileset) that is named after the shipped example
    description which emits a file of exactly that name -/
def generatedFor (mf : ManifestFacts) (e : ManifestEntry) : Bool :=
  mf.examples.any fun (_, name) =>
    (targetWords e.target).contains name &&
    mf.cliNamePatterns.any fun (pre, suf) => e.path == mf.makeOutDir ++ "/" ++ pre ++ name ++ suf

def entryOk (mf : ManifestFacts) (e : ManifestEntry) : Bool :=
  mf.tracked.contains e.path || generatedFor mf e

/-- modules the generated networks instantiate -/
def roots : List String := C11.templateUses.map (·.mod)

def localInst (hw : HwFacts) (m : ModuleDef) : List String :=
  m.instantiates.filter fun n => hw.modules.any (·.name == n)

/-- closure under "instantiates a module of this repository", by bounded iteration -/
def closure (hw : HwFacts) : Nat → List String → List String
  | 0, acc => acc
  | fuel + 1, acc =>
    let next := (acc.flatMap fun n => match hw.modules.find? (·.name == n) with
      | some m => localInst hw m
      | none => []).filter (fun n => !acc.contains n) |>.eraseDups
    if next.isEmpty then acc else closure hw fuel (acc ++ next)

/-- `s` contains the roots and is closed under local instantiation -/
def closedSet (hw : HwFacts) (s : List String) : Bool :=
  roots.all (s.contains ·) &&
  s.all fun n => match hw.modules.find? (·.name == n) with
    | some m => (localInst hw m).all (s.contains ·)
    | none => false

def fileOf (hw : HwFacts) (n : String) : Option String := (hw.modules.find? (·.name == n)).map (·.file)

def listedIn (entries : List ManifestEntry) (hw : HwFacts) (s : List String) : Bool :=
  s.all fun n => match fileOf hw n with
    | some f => entries.any (·.path == f)
    | none => false

def check (mf : ManifestFacts) (hw : HwFacts) : List Finding :=
  let missing (which : String) (es : List ManifestEntry) := (es.filter fun e => !entryOk mf e).map fun e =>
    fnd "manifest-missing-file" s!"{which}:{e.path}" s!"listed under '{e.target}' but neither in the repository nor a generated file name"
  let s := closure hw (hw.modules.length + 1) roots
  let unl (which : String) (es : List ManifestEntry) := (s.filter fun n =>
      match fileOf hw n with | some f => !(es.any (·.path == f)) | none => true).map fun n =>
    fnd "manifest-unlisted-module" s!"{which}:{n}" s!"module {n} ({repr (fileOf hw n)}) is needed by generated networks but not listed"
  (if closedSet hw s then [] else [fnd "closure" "hw" "module closure could not be computed"]) ++
  missing "Bender.yml" mf.bender ++ missing "floo_noc.core" mf.core ++ unl "Bender.yml" mf.bender ++ unl "floo_noc.core" mf.core

def holds (mf : ManifestFacts) (hw : HwFacts) : Bool :=
  let s := closure hw (hw.modules.length + 1) roots
  closedSet hw s && (mf.bender ++ mf.core).all (entryOk mf) && listedIn mf.bender hw s && listedIn mf.core hw s

end C20
end FlooVerif

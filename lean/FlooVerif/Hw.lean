/-
  Hand-written semantics of how the RTL consumes the emitted netlist (`Net`).
  Sources: hw/floo_route_select.sv (ID table lookup l.43-71, source-route consumption l.73-81,
  XY decision l.101-120), hw/floo_router.sv (loop-back ban l.125, Y→X turn ban l.128-133),
  hw/floo_axi_router.sv l.80-96 (port i of the request router and port i of the response
  router share one link record), hw/floo_route_comp.sv (Sam lookup, route table lookup),
  common_cells addr_decode (rule i matches iff start ≤ a ∧ (a < end ∨ end = 0); values are
  truncated to the width of the field they are stored in).
-/
import FlooVerif.Net
namespace FlooVerif
open Sv

namespace Hw

/-- `$clog2` (and floogen's `clog2` for n ≥ 1): least k with n ≤ 2^k. -/
def clog2 (n : Nat) : Nat := if n ≤ 1 then 0 else Nat.log2 (n - 1) + 1

structure Fabric where
  outP : String
  inP : String
  deriving Repr, DecidableEq, Inhabited

def reqF : Fabric := ⟨"floo_req_o", "floo_req_i"⟩
def rspF : Fabric := ⟨"floo_rsp_o", "floo_rsp_i"⟩
def wideF : Fabric := ⟨"floo_wide_o", "floo_wide_i"⟩

def bindSig (i : Inst) (p : String) : Option String :=
  i.binds.findSome? fun
    | .conn q (.ident s) => if q == p then some s else none
    | _ => none

def bindExpr (i : Inst) (p : String) : Option Expr :=
  i.binds.findSome? fun
    | .conn q e => if q == p then some e else none
    | _ => none

def isRouterMod (m : String) : Bool := m == "floo_axi_router" || m == "floo_nw_router"
def isChimneyMod (m : String) : Bool := m == "floo_axi_chimney" || m == "floo_nw_chimney"

def routers (n : Net) : List Inst := n.insts.filter (isRouterMod ·.mod)
def chimneys (n : Net) : List Inst := n.insts.filter (isChimneyMod ·.mod)

def findInst (n : Net) (name : String) : Option Inst := n.insts.find? (·.name == name)

def paramNat (i : Inst) (p : String) : Option Nat :=
  (i.params.find? (·.1 == p)).bind fun (_, e) => exprNat? e

def findLocalparam (n : Net) (name : String) : Option Expr :=
  ((n.localparams.find? (·.1 == name)).map (·.2.2))

/-- identity handed to `.id_i` of an instance -/
def instId (n : Net) (i : Inst) : Option IdVal :=
  match bindExpr i "id_i" with
  | some (.ident s) => (findLocalparam n s).bind exprIdVal?
  | _ => none

/-- routing table handed to `.id_route_map_i` of a router -/
def routerTable (n : Net) (r : Inst) : Option (List Rule) :=
  match bindExpr r "id_route_map_i" with
  | some (.ident s) =>
    match findLocalparam n s with
    | some (.pat fs) => fs.mapM fun (_, e) => exprRule? e
    | _ => none
  | _ => none

/-- Where a flit is: at input `inPort` of a router, or inside a chimney. -/
inductive Where where
  | router (name : String) (inPort : Nat)
  | chimney (name : String)
  deriving Repr, DecidableEq, Inhabited

/-- signals driven from element `p` of the array bound to the router's output port -/
def outSigs (n : Net) (f : Fabric) (r : Inst) (p : Nat) : List String :=
  match bindSig r f.outP with
  | none => []
  | some a => n.assigns.filterMap fun
      | (.whole s, .elem a' i) => if a' == a && i == p then some s else none
      | _ => none

/-- who reads scalar signal `s` on fabric `f` -/
def readers (n : Net) (f : Fabric) (s : String) : List Where :=
  (chimneys n).filterMap (fun c => if bindSig c f.inP == some s then some (.chimney c.name) else none) ++
  (routers n).flatMap (fun r =>
    match bindSig r f.inP with
    | none => []
    | some b => n.assigns.filterMap fun
        | (.elem b' j, .whole s') => if b' == b && s' == s then some (.router r.name j) else none
        | _ => none)

def hopSig (n : Net) (f : Fabric) (s : String) : Option Where :=
  match readers n f s with
  | [w] => some w
  | _ => none

/-- one physical hop out of port `p` of router `r` -/
def hop (n : Net) (f : Fabric) (r : Inst) (p : Nat) : Option Where :=
  match outSigs n f r p with
  | [s] => hopSig n f s
  | _ => none

/-- injection: where the flit a chimney sends on fabric `f` lands -/
def inject (n : Net) (f : Fabric) (c : Inst) : Option Where :=
  (bindSig c f.outP).bind (hopSig n f)

/-! ### decisions -/

/-- addr_decode match of one rule; all three values truncated to `w` bits -/
def ruleMatches (w : Nat) (start stop a : Nat) : Bool :=
  let s := start % 2 ^ w
  let e := stop % 2 ^ w
  s ≤ a && (a < e || e == 0)

def matching (w : Nat) (rules : List Rule) (a : Nat) : List Rule :=
  rules.filter fun r => ruleMatches w r.start.val r.stop.val a

def idBits (n : Net) : Nat :=
  match n.idType with
  | .bits k => k
  | .xy x y p => x + y + p.getD 0

/-- width of the `idx` field of the rule type handed to a router (`.addr_rule_t`) -/
def ruleIdxBits (n : Net) (r : Inst) : Nat :=
  match ((r.params.find? (·.1 == "addr_rule_t")).map (·.2) : Option Expr) with
  | some (.ident t) =>
    match (n.topStructs.find? (·.1 == t)).bind fun (_, fs) => (fs.find? (·.2 == "idx")).map (·.1) with
    | some ty =>
      if ty.words == ["id_t"] && ty.dims.isEmpty then idBits n
      else (logicBits? ty).getD (idBits n)
    | none => idBits n
  | _ => idBits n

/-- ID table decision: exactly one rule matches; the port is the rule's `idx`, truncated to
    the width of the field it is stored in. -/
def decideId (n : Net) (r : Inst) (dst : Nat) : Option Nat :=
  match routerTable n r with
  | none => none
  | some rules =>
    match matching (idBits n) rules dst with
    | [rule] =>
      match rule.idx with
      | .simple p => some (p % 2 ^ ruleIdxBits n r)
      | _ => none
    | _ => none

/-- direction numbering of floo_pkg::route_direction_e -/
def North : Nat := 0
def East : Nat := 1
def South : Nat := 2
def West : Nat := 3
def Eject : Nat := 4

/-- floo_route_select XY block -/
def xyDecide (cx cy : Int) (dx dy : Int) (dport : Nat) : Nat :=
  if dx = cx ∧ dy = cy then Eject + dport
  else if dx = cx then (if dy < cy then South else North)
  else (if dx < cx then West else East)

/-- floo_router: loop-back ban and (XY only) Y→X turn ban -/
def allowed (xy : Bool) (inP outP : Nat) : Bool :=
  !(inP == outP) && !(xy && (inP == South || inP == North) && (outP == East || outP == West))

def srcPop (numOut : Nat) (route : Nat) : Nat × Nat :=
  let k := clog2 numOut
  (route % 2 ^ k, route / 2 ^ k)

inductive Hdr where
  | id (dst : Nat)
  | xy (x y : Int) (port : Nat)
  | src (route : Nat)
  deriving Repr, DecidableEq, Inhabited

def Hdr.isXY : Hdr → Bool
  | .xy .. => true
  | _ => false

def routeDecide (n : Net) (r : Inst) (h : Hdr) : Option (Nat × Hdr) :=
  match h with
  | .id d => (decideId n r d).map (·, h)
  | .xy x y p =>
    match instId n r with
    | some (.coord cx cy _) => some (xyDecide cx cy x y p, h)
    | _ => none
  | .src w =>
    match paramNat r "NumOutputs" with
    | some k => let (p, w') := srcPop k w; some (p, .src w')
    | none => none

inductive Outcome where
  | delivered (chimney : String) (hdr : Hdr)
  | dropped (at_ : String) (why : String)
  | outOfFuel
  deriving Repr, DecidableEq, Inhabited

structure Step where
  router : String
  inPort : Nat
  outPort : Nat
  deriving Repr, DecidableEq, Inhabited

def walk (n : Net) (f : Fabric) : Nat → Where → Hdr → List Step → List Step × Outcome
  | _, .chimney c, h, acc => (acc.reverse, .delivered c h)
  | 0, .router _ _, _, acc => (acc.reverse, .outOfFuel)
  | fuel + 1, .router rn j, h, acc =>
    match (routers n).find? (·.name == rn) with
    | none => (acc.reverse, .dropped rn "no such router")
    | some r =>
      match routeDecide n r h with
      | none => (acc.reverse, .dropped rn "no unique decision")
      | some (p, h') =>
        if !allowed h.isXY j p then (acc.reverse, .dropped rn "loopback or banned turn")
        else
          match hop n f r p with
          | none => (acc.reverse, .dropped rn "output port not connected to exactly one reader")
          | some w => walk n f fuel w h' ({ router := rn, inPort := j, outPort := p } :: acc)

/-- full route of a flit injected by chimney `c` with header `h` on fabric `f` -/
def route (n : Net) (f : Fabric) (c : Inst) (h : Hdr) : List Step × Outcome :=
  match inject n f c with
  | none => ([], .dropped c.name "chimney output not connected to exactly one reader")
  | some w => walk n f ((routers n).length + 1) w h []

end Hw
end FlooVerif

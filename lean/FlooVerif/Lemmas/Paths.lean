/-
  Generic graph lemmas: paths, distance potentials (C14) and rank functions (C09).
  Any vertex type, any (finite or infinite) edge relation — nothing is bounded.
-/
namespace FlooVerif

/-- a walk of exactly `n` edges from `a` to `b` -/
inductive PathLen {α : Type} (E : α → α → Prop) : α → α → Nat → Prop where
  | refl (a : α) : PathLen E a a 0
  | step {a b c : α} {n : Nat} : E a b → PathLen E b c n → PathLen E a c (n + 1)

/-- a walk of at least one edge -/
inductive Reach {α : Type} (E : α → α → Prop) : α → α → Prop where
  | single {a b : α} : E a b → Reach E a b
  | step {a b c : α} : E a b → Reach E b c → Reach E a c

def Acyclic {α : Type} (E : α → α → Prop) : Prop := ∀ a, ¬ Reach E a a

/-- a partial potential that is 0 at `dst`, defined on every predecessor of a vertex on which
    it is defined, and drops by at most one along each edge, bounds every walk to `dst` from
    below — so no walk is shorter than the potential of its start -/
theorem potential_lower_bound {α : Type} (E : α → α → Prop) (φ : α → Option Nat) (dst : α)
    (hstep : ∀ a b, E a b → ∀ db, φ b = some db → ∃ da, φ a = some da ∧ da ≤ db + 1)
    (h0 : φ dst = some 0) :
    ∀ a n, PathLen E a dst n → ∃ da, φ a = some da ∧ da ≤ n := by
  intro a n h
  generalize hd : dst = t at h
  induction h with
  | refl a => subst hd; exact ⟨0, h0, Nat.le_refl _⟩
  | step e _ ih =>
    obtain ⟨db, hb, hle⟩ := ih hd
    obtain ⟨da, ha, hle'⟩ := hstep _ _ e db hb
    exact ⟨da, ha, by omega⟩

/-- a rank that strictly increases along every edge increases along every walk -/
theorem rank_increasing {α : Type} (E : α → α → Prop) (ρ : α → Nat)
    (h : ∀ a b, E a b → ρ a < ρ b) : ∀ a b, Reach E a b → ρ a < ρ b := by
  intro a b r
  induction r with
  | single e => exact h _ _ e
  | step e _ ih => exact Nat.lt_trans (h _ _ e) ih

/-- hence the relation has no cycle, whatever the size of the graph -/
theorem acyclic_of_rank {α : Type} (E : α → α → Prop) (ρ : α → Nat)
    (h : ∀ a b, E a b → ρ a < ρ b) : Acyclic E := by
  intro a r
  exact Nat.lt_irrefl _ (rank_increasing E ρ h a a r)

end FlooVerif

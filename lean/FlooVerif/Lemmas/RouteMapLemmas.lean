/-
  Helper lemmas about sortRules / mergeAdj / destsOf / trim (model: RouteMap.lean).
-/
import FlooVerif.RouteMap
namespace FlooVerif
open List

variable {δ : Type}

def AllValid (l : List (MapRule δ)) : Prop := ∀ r ∈ l, r.valid
def OverlapFree (l : List (MapRule δ)) : Prop := l.Pairwise MapRule.disjoint
/-- sorted and non-overlapping: each rule ends before every later one starts -/
def Ordered (l : List (MapRule δ)) : Prop := l.Pairwise fun a b => a.stop ≤ b.start
def StrictOrdered (l : List (MapRule δ)) : Prop := l.Pairwise fun a b => a.stop < b.start
def SizesOk (l : List (MapRule δ)) : Prop := ∀ r ∈ l, r.size = r.stop - r.start

theorem disjoint_symm {a b : MapRule δ} (h : MapRule.disjoint a b) : MapRule.disjoint b a := by
  unfold MapRule.disjoint at *; omega

theorem le_trans' (a b c : MapRule δ) : MapRule.le a b = true → MapRule.le b c = true → MapRule.le a c = true := by
  unfold MapRule.le; simp; omega

theorem le_total' (a b : MapRule δ) : (MapRule.le a b || MapRule.le b a) = true := by
  unfold MapRule.le; simp; omega

theorem mem_sortRules {r : MapRule δ} {l : List (MapRule δ)} : r ∈ sortRules l ↔ r ∈ l := by
  unfold sortRules; exact mem_mergeSort

theorem sortRules_perm (l : List (MapRule δ)) : sortRules l ~ l := mergeSort_perm l _

theorem sortRules_sorted (l : List (MapRule δ)) :
    (sortRules l).Pairwise fun a b => a.start ≤ b.start := by
  have h := pairwise_mergeSort (le := MapRule.le) le_trans' le_total' l
  unfold sortRules
  refine h.imp ?_
  intro a b hab; simpa [MapRule.le] using hab

/-- sorting an overlap-free table of valid rules gives an ordered table -/
theorem ordered_sortRules {l : List (MapRule δ)} (hv : AllValid l) (ho : OverlapFree l) :
    Ordered (sortRules l) := by
  have hs := sortRules_sorted l
  have ho' : (sortRules l).Pairwise MapRule.disjoint :=
    (sortRules_perm l).symm.pairwise ho (fun h => disjoint_symm h)
  have hv' : ∀ r ∈ sortRules l, r.valid := fun r hr => hv r (mem_sortRules.1 hr)
  unfold Ordered
  have := hs.and ho'
  refine (this.imp_of_mem ?_)
  intro a b ha hb ⟨h1, h2⟩
  have vb := hv' b hb
  unfold MapRule.valid at vb
  unfold MapRule.disjoint at h2
  omega

theorem ordered_overlapFree {l : List (MapRule δ)} (h : Ordered l) : OverlapFree l :=
  h.imp (fun hab => Or.inl hab)

/-- an ordered table of valid rules is adjacent-ok, and conversely -/
theorem adjacentOk_of_ordered : ∀ {l : List (MapRule δ)}, Ordered l → adjacentOk l = true
  | [], _ => rfl
  | [_], _ => rfl
  | a :: b :: rest, h => by
    unfold adjacentOk
    have h' := pairwise_cons.1 h
    simp only [Bool.and_eq_true, decide_eq_true_eq]
    exact ⟨h'.1 b (by simp), adjacentOk_of_ordered h'.2⟩

theorem ordered_of_adjacentOk : ∀ {l : List (MapRule δ)}, AllValid l → adjacentOk l = true → Ordered l
  | [], _, _ => Pairwise.nil
  | [_], _, _ => by unfold Ordered; simp
  | a :: b :: rest, hv, h => by
    unfold adjacentOk at h
    simp only [Bool.and_eq_true, decide_eq_true_eq] at h
    have hv' : AllValid (b :: rest) := fun r hr => hv r (mem_cons_of_mem _ hr)
    have ih := ordered_of_adjacentOk hv' h.2
    unfold Ordered at *
    refine pairwise_cons.2 ⟨?_, ih⟩
    intro c hc
    rcases mem_cons.1 hc with rfl | hc'
    · exact h.1
    · have hb := (pairwise_cons.1 ih).1 c hc'
      have vb := hv b (by simp)
      unfold MapRule.valid at vb
      omega

/-- `check_no_overlapping_ranges` accepts exactly the pairwise disjoint tables (of valid rules) -/
theorem checkNoOverlap_iff {l : List (MapRule δ)} (hv : AllValid l) :
    checkNoOverlap l = true ↔ OverlapFree l := by
  unfold checkNoOverlap
  constructor
  · intro h
    have hv' : AllValid (sortRules l) := fun r hr => hv r (mem_sortRules.1 hr)
    have := ordered_overlapFree (ordered_of_adjacentOk hv' h)
    exact (sortRules_perm l).pairwise this (fun h => disjoint_symm h)
  · intro h
    exact adjacentOk_of_ordered (ordered_sortRules hv h)

/-! ### mergeAdj -/

theorem mergeAdj_mem_start {l : List (MapRule δ)} :
    ∀ c ∈ mergeAdj l, ∃ c0 ∈ l, c0.start = c.start ∧ c0.dest = c.dest := by
  fun_induction mergeAdj l with
  | case1 a b rest hab ih =>
    intro c hc
    obtain ⟨c0, hc0, h1, h2⟩ := ih c hc
    rcases mem_cons.1 hc0 with rfl | h
    · exact ⟨a, by simp, h1, h2⟩
    · exact ⟨c0, by simp [h], h1, h2⟩
  | case2 a b rest hab ih =>
    intro c hc
    rcases mem_cons.1 hc with rfl | h
    · exact ⟨c, by simp, rfl, rfl⟩
    · obtain ⟨c0, hc0, h1⟩ := ih c h
      exact ⟨c0, mem_cons_of_mem _ hc0, h1⟩
  | case3 l hl =>
    intro c hc; exact ⟨c, hc, rfl, rfl⟩

/-- coverage is preserved by merging touching neighbours (ordered, valid input) -/
theorem mergeAdj_covers {l : List (MapRule δ)} (hv : AllValid l) (ho : Ordered l) (i : Int) :
    (∃ r ∈ mergeAdj l, r.covers i) ↔ (∃ r ∈ l, r.covers i) := by
  fun_induction mergeAdj l with
  | case1 a b rest hab ih =>
    have va := hv a (by simp); have vb := hv b (by simp)
    unfold MapRule.valid at va vb
    have hv' : AllValid ({ a with stop := b.stop, size := b.stop - a.start } :: rest) := by
      intro r hr
      rcases mem_cons.1 hr with rfl | h
      · unfold MapRule.valid; simp; omega
      · exact hv r (by simp [h])
    have ho' : Ordered ({ a with stop := b.stop, size := b.stop - a.start } :: rest) := by
      unfold Ordered at *
      have h1 := pairwise_cons.1 ho
      have h2 := pairwise_cons.1 h1.2
      exact pairwise_cons.2 ⟨fun c hc => h2.1 c hc, h2.2⟩
    rw [ih hv' ho']
    constructor
    · rintro ⟨r, hr, hc⟩
      rcases mem_cons.1 hr with rfl | h
      · unfold MapRule.covers at hc; simp at hc
        by_cases hi : i < a.stop
        · exact ⟨a, by simp, ⟨hc.1, hi⟩⟩
        · exact ⟨b, by simp, ⟨by omega, hc.2⟩⟩
      · exact ⟨r, by simp [h], hc⟩
    · rintro ⟨r, hr, hc⟩
      rcases mem_cons.1 hr with rfl | h
      · refine ⟨_, mem_cons_self, ?_⟩
        unfold MapRule.covers at *; simp; omega
      · rcases mem_cons.1 h with rfl | h'
        · refine ⟨_, mem_cons_self, ?_⟩
          unfold MapRule.covers at *; simp; omega
        · exact ⟨r, mem_cons_of_mem _ h', hc⟩
  | case2 a b rest hab ih =>
    have hv' : AllValid (b :: rest) := fun r hr => hv r (mem_cons_of_mem _ hr)
    have ho' : Ordered (b :: rest) := (pairwise_cons.1 ho).2
    constructor
    · rintro ⟨r, hr, hc⟩
      rcases mem_cons.1 hr with rfl | h
      · exact ⟨r, by simp, hc⟩
      · obtain ⟨r', hr', hc'⟩ := (ih hv' ho').1 ⟨r, h, hc⟩
        exact ⟨r', mem_cons_of_mem _ hr', hc'⟩
    · rintro ⟨r, hr, hc⟩
      rcases mem_cons.1 hr with rfl | h
      · exact ⟨r, by simp, hc⟩
      · obtain ⟨r', hr', hc'⟩ := (ih hv' ho').2 ⟨r, h, hc⟩
        exact ⟨r', mem_cons_of_mem _ hr', hc'⟩
  | case3 l hl => exact Iff.rfl

theorem mergeAdj_valid {l : List (MapRule δ)} (hv : AllValid l) (ho : Ordered l) :
    AllValid (mergeAdj l) := by
  fun_induction mergeAdj l with
  | case1 a b rest hab ih =>
    have va := hv a (by simp); have vb := hv b (by simp)
    unfold MapRule.valid at va vb
    apply ih
    · intro r hr
      rcases mem_cons.1 hr with rfl | h
      · unfold MapRule.valid; simp; omega
      · exact hv r (by simp [h])
    · unfold Ordered at *
      have h1 := pairwise_cons.1 ho
      have h2 := pairwise_cons.1 h1.2
      exact pairwise_cons.2 ⟨fun c hc => h2.1 c hc, h2.2⟩
  | case2 a b rest hab ih =>
    intro r hr
    rcases mem_cons.1 hr with rfl | h
    · exact hv r (by simp)
    · exact ih (fun r hr => hv r (mem_cons_of_mem _ hr)) (pairwise_cons.1 ho).2 r h
  | case3 l hl => exact hv

theorem mergeAdj_sizes {l : List (MapRule δ)} (hs : SizesOk l) : SizesOk (mergeAdj l) := by
  fun_induction mergeAdj l with
  | case1 a b rest hab ih =>
    apply ih
    intro r hr
    rcases mem_cons.1 hr with rfl | h
    · simp
    · exact hs r (by simp [h])
  | case2 a b rest hab ih =>
    intro r hr
    rcases mem_cons.1 hr with rfl | h
    · exact hs r (by simp)
    · exact ih (fun r hr => hs r (mem_cons_of_mem _ hr)) r h
  | case3 l hl => exact hs

/-- after merging, consecutive (hence all) rules are strictly separated -/
theorem mergeAdj_strict {l : List (MapRule δ)} (hv : AllValid l) (ho : Ordered l) :
    StrictOrdered (mergeAdj l) := by
  fun_induction mergeAdj l with
  | case1 a b rest hab ih =>
    have va := hv a (by simp); have vb := hv b (by simp)
    unfold MapRule.valid at va vb
    apply ih
    · intro r hr
      rcases mem_cons.1 hr with rfl | h
      · unfold MapRule.valid; simp; omega
      · exact hv r (by simp [h])
    · unfold Ordered at *
      have h1 := pairwise_cons.1 ho
      have h2 := pairwise_cons.1 h1.2
      exact pairwise_cons.2 ⟨fun c hc => h2.1 c hc, h2.2⟩
  | case2 a b rest hab ih =>
    have hv' : AllValid (b :: rest) := fun r hr => hv r (mem_cons_of_mem _ hr)
    have ho' : Ordered (b :: rest) := (pairwise_cons.1 ho).2
    unfold StrictOrdered
    refine pairwise_cons.2 ⟨?_, ih hv' ho'⟩
    intro c hc
    obtain ⟨c0, hc0, hst, _⟩ := mergeAdj_mem_start c hc
    have hab' : a.stop ≤ b.start := (pairwise_cons.1 ho).1 b (by simp)
    have vb := hv b (by simp); unfold MapRule.valid at vb
    rcases mem_cons.1 hc0 with rfl | h
    · omega
    · have := (pairwise_cons.1 ho').1 c0 h
      omega
  | case3 l hl =>
    match l, hl with
    | [], _ => exact Pairwise.nil
    | [x], _ => unfold StrictOrdered; simp
    | x :: y :: r, hl => exact absurd rfl (hl x y r)

/-! ### destsOf -/

theorem mem_destsOf [DecidableEq δ] {l : List (MapRule δ)} {d : δ} :
    d ∈ destsOf l ↔ ∃ r ∈ l, r.dest = d := by
  induction l with
  | nil => simp [destsOf]
  | cons r rs ih =>
    unfold destsOf
    simp only [mem_cons, mem_filter, decide_eq_true_eq, ih]
    constructor
    · rintro (rfl | ⟨⟨r', hr', rfl⟩, _⟩)
      · exact ⟨r, Or.inl rfl, rfl⟩
      · exact ⟨r', Or.inr hr', rfl⟩
    · rintro ⟨r', (rfl | hr'), rfl⟩
      · exact Or.inl rfl
      · by_cases h : r'.dest = r.dest
        · exact Or.inl h
        · exact Or.inr ⟨⟨r', hr', rfl⟩, h⟩

theorem nodup_destsOf [DecidableEq δ] (l : List (MapRule δ)) : (destsOf l).Nodup := by
  induction l with
  | nil => simp [destsOf]
  | cons r rs ih =>
    unfold destsOf
    refine nodup_cons.2 ⟨?_, ih.filter _⟩
    simp [mem_filter]

/-- symmetric pairwise relation holds between any two distinct members -/
theorem pairwise_forall_ne {α : Type} {R : α → α → Prop} (hsym : ∀ {a b}, R a b → R b a) :
    ∀ {l : List α}, l.Pairwise R → ∀ x ∈ l, ∀ y ∈ l, x ≠ y → R x y
  | [], _, _, hx, _, _, _ => by cases hx
  | a :: l, h, x, hx, y, hy, hne => by
    have h' := pairwise_cons.1 h
    rcases mem_cons.1 hx with rfl | hx' <;> rcases mem_cons.1 hy with rfl | hy'
    · exact absurd rfl hne
    · exact h'.1 y hy'
    · exact hsym (h'.1 x hx')
    · exact pairwise_forall_ne hsym h'.2 x hx' y hy' hne

theorem pairwise_trichotomy {α : Type} {R : α → α → Prop} :
    ∀ {l : List α}, l.Pairwise R → ∀ x ∈ l, ∀ y ∈ l, x = y ∨ R x y ∨ R y x
  | [], _, _, hx, _, _ => by cases hx
  | a :: l, h, x, hx, y, hy => by
    have h' := pairwise_cons.1 h
    rcases mem_cons.1 hx with rfl | hx' <;> rcases mem_cons.1 hy with rfl | hy'
    · exact Or.inl rfl
    · exact Or.inr (Or.inl (h'.1 y hy'))
    · exact Or.inr (Or.inr (h'.1 x hx'))
    · exact pairwise_trichotomy h'.2 x hx' y hy'

end FlooVerif
